// C17 driver: the C++ side of the shared containers and resolvo::solve, under
// AddressSanitizer + UndefinedBehaviorSanitizer, linked against the
// libresolvo_cpp.a built from the current /repo tree.
//
// stdin, one command per block / line:
//   seq <id> <i32|u8> ... end      container operations (see run_seq), prints
//                                  `o <size> <cap> <rc> <live> <n> d1..dn` per operation, `done <id> ...`
//   solve <id> <flags> <tokens>    universe + problem in the integer token format of tools/vlib.py
//                                  (tok_universe ++ tok_problem), prints `r <id> sat n ids..` or
//                                  `r <id> unsat <hex of error text>` and `calls <id> ...`
//   strself <mode>                 String self-assignment reproducer
//
// Every Rust-side allocation (which includes everything C++ allocates through
// resolvo_vector_allocate) goes through __wrap___rust_alloc & co below (linker
// --wrap): they count live blocks inside operation windows and check that each
// deallocation / reallocation passes the size and alignment of the matching
// allocation, i.e. that both sides agree on the block layout size.
#include <algorithm>
#include <cstdint>
#include <cstdio>
#include <cstring>
#include <iostream>
#include <optional>
#include <sstream>
#include <string>
#include <unordered_map>
#include <vector>

#include "resolvo.h"

// ---------------------------------------------------------------- allocator wrap

extern "C" {
void *__real___rust_alloc(size_t size, size_t align);
void __real___rust_dealloc(void *ptr, size_t size, size_t align);
void *__real___rust_realloc(void *ptr, size_t old_size, size_t align, size_t new_size);
void *__real___rust_alloc_zeroed(size_t size, size_t align);
}

namespace {
struct Rec {
    size_t size, align;
    bool in_window;
};
std::unordered_map<void *, Rec> *g_table = nullptr;
bool g_window = false;
long g_live = 0;          // blocks allocated inside operation windows and not yet freed
long g_bad_layout = 0;    // dealloc/realloc whose (size, align) differs from the allocation's
long g_unknown_free = 0;  // dealloc of a pointer that never came from __rust_alloc
bool g_busy = false;

std::unordered_map<void *, Rec> &table() {
    if (!g_table) g_table = new std::unordered_map<void *, Rec>();
    return *g_table;
}
void note_alloc(void *p, size_t size, size_t align) {
    if (!p || g_busy) return;
    g_busy = true;
    table()[p] = Rec{size, align, g_window};
    if (g_window) g_live++;
    g_busy = false;
}
void note_free(void *p, size_t size, size_t align) {
    if (g_busy) return;
    g_busy = true;
    auto it = table().find(p);
    if (it == table().end()) {
        g_unknown_free++;
    } else {
        if (it->second.size != size || it->second.align != align) g_bad_layout++;
        if (it->second.in_window) g_live--;
        table().erase(it);
    }
    g_busy = false;
}
}  // namespace

extern "C" {
void *__wrap___rust_alloc(size_t size, size_t align) {
    void *p = __real___rust_alloc(size, align);
    note_alloc(p, size, align);
    return p;
}
void *__wrap___rust_alloc_zeroed(size_t size, size_t align) {
    void *p = __real___rust_alloc_zeroed(size, align);
    note_alloc(p, size, align);
    return p;
}
void __wrap___rust_dealloc(void *ptr, size_t size, size_t align) {
    note_free(ptr, size, align);
    __real___rust_dealloc(ptr, size, align);
}
void *__wrap___rust_realloc(void *ptr, size_t old_size, size_t align, size_t new_size) {
    bool was_window = false;
    if (!g_busy) {
        g_busy = true;
        auto it = table().find(ptr);
        if (it == table().end()) {
            g_unknown_free++;
        } else {
            if (it->second.size != old_size || it->second.align != align) g_bad_layout++;
            was_window = it->second.in_window;
            table().erase(it);
        }
        g_busy = false;
    }
    void *p = __real___rust_realloc(ptr, old_size, align, new_size);
    if (p && !g_busy) {
        g_busy = true;
        table()[p] = Rec{new_size, align, was_window};
        g_busy = false;
    }
    return p;
}
}

struct Window {
    Window() { g_window = true; }
    ~Window() { g_window = false; }
};

// ---------------------------------------------------------------- header peek

struct Hdr {
    intptr_t rc;
    size_t size, cap;
};
static_assert(sizeof(Hdr) == 3 * sizeof(void *), "header layout");
static_assert(sizeof(resolvo::Vector<int32_t>) == sizeof(void *), "Vector is one pointer");
static_assert(sizeof(resolvo::String) == sizeof(void *), "String is one pointer");

template <typename V>
Hdr peek(const V &v) {
    const void *p;
    std::memcpy(&p, &v, sizeof p);
    Hdr h;
    std::memcpy(&h, p, sizeof h);
    return h;
}

// ---------------------------------------------------------------- container sequences

constexpr size_t NV = 64, STR0 = 100;

struct Line {
    std::string op;
    std::vector<long> a;
};

template <typename T>
void run_seq(const std::string &id, const std::vector<Line> &lines) {
    using Vec = resolvo::Vector<T>;
    std::vector<std::optional<Vec>> vs(NV);
    std::vector<std::optional<resolvo::String>> ss(NV);
    long slice_bad = 0;
    std::ostringstream out;
    for (const Line &l : lines) {
        const auto &a = l.a;
        size_t x = a.empty() ? 0 : size_t(a[0]);
        bool is_str = x >= STR0;
        std::vector<T> vals;
        std::string bytes;
        for (size_t i = 2; i < a.size(); ++i) {
            vals.push_back(T(a[i]));
            bytes.push_back(char(a[i]));
        }
        size_t report = x;
        {
            Window w;
            const std::string &op = l.op;
            if (op == "default") {
                if (is_str) ss[x - STR0].emplace(); else vs[x].emplace();
            } else if (op == "fromiter") {
                vs[x].emplace(vals.begin(), vals.end());
            } else if (op == "fill") {
                vs[x].emplace(size_t(a[1]), T(a[2]));
            } else if (op == "clone") {
                size_t y = size_t(a[1]);
                report = y;
                if (is_str) ss[y - STR0].emplace(*ss[x - STR0]); else vs[y].emplace(*vs[x]);
            } else if (op == "drop") {
                if (is_str) ss[x - STR0].reset(); else vs[x].reset();
            } else if (op == "push") {
                vs[x]->push_back(T(a[1]));
            } else if (op == "pushmove") {
                T t = T(a[1]);
                vs[x]->push_back(std::move(t));
            } else if (op == "clear") {
                vs[x]->clear();
            } else if (op == "set") {
                (*vs[x])[size_t(a[1])] = T(a[2]);
            } else if (op == "assign") {
                size_t y = size_t(a[1]);
                if (is_str) *ss[x - STR0] = static_cast<const resolvo::String &>(*ss[y - STR0]);
                else *vs[x] = static_cast<const Vec &>(*vs[y]);
            } else if (op == "swap") {
                size_t y = size_t(a[1]);
                if (is_str) *ss[x - STR0] = std::move(*ss[y - STR0]); else *vs[x] = std::move(*vs[y]);
            } else if (op == "read" || op == "sread") {
            } else if (op == "sfrom") {
                ss[x - STR0].emplace(std::string_view(bytes));
            } else {
                std::fprintf(stderr, "unknown op %s\n", op.c_str());
                std::exit(2);
            }
        }
        long live = g_live;
        std::vector<long> data;
        size_t size = 0, cap = 0;
        long rc = 0;
        if (report >= STR0) {
            if (ss[report - STR0]) {
                const resolvo::String &s = *ss[report - STR0];
                Hdr h = peek(s);
                cap = h.cap;
                rc = h.rc;
                if (l.op == "sread") {
                    std::string_view sv = s;
                    for (unsigned char c : sv) data.push_back(c);
                    size = sv.size();
                    if (std::strlen(s.data()) != sv.size()) slice_bad++;
                } else {
                    const void *p;
                    std::memcpy(&p, &s, sizeof p);
                    const unsigned char *raw = reinterpret_cast<const unsigned char *>(p) + sizeof(Hdr);
                    for (size_t i = 0; i < h.size; ++i) data.push_back(raw[i]);
                    size = h.size;
                }
            }
        } else if (vs[report]) {
            const Vec &v = *vs[report];
            Hdr h = peek(v);
            cap = v.capacity();
            rc = h.rc;
            size = v.size();
            // through the FFI Slice type (Vector::operator Slice<const T>() const does not compile when
            // instantiated -- class template argument deduction yields Slice<T> -- so build it by hand)
            const resolvo::Slice<T> sl(v.begin(), v.size());
            if (sl.size() != v.size() || h.size != v.size() || h.cap != v.capacity()) slice_bad++;
            for (size_t i = 0; i < sl.size(); ++i) {
                data.push_back(long(*(sl.begin() + i)));
                if (v.at(i) != *(sl.begin() + i)) slice_bad++;
            }
        }
        out << "o " << size << ' ' << cap << ' ' << rc << ' ' << live << ' ' << data.size();
        for (long d : data) out << ' ' << d;
        out << '\n';
    }
    {
        Window w;
        vs.clear();
        ss.clear();
    }
    out << "done " << id << " leaked=" << g_live << " bad_layout=" << g_bad_layout
        << " foreign_free=" << g_unknown_free << " slice_bad=" << slice_bad << '\n';
    g_live = 0;
    g_bad_layout = 0;
    g_unknown_free = 0;
    std::cout << out.str() << std::flush;
}

// ---------------------------------------------------------------- table-driven provider

using namespace resolvo;

struct Req {
    int kind;  // 0 single, 1 union
    uint32_t id;
};
struct SolT {
    uint32_t name, rank;
    bool known;
    std::vector<Req> reqs;
    std::vector<uint32_t> cons;
};
struct VsT {
    uint32_t name;
    std::vector<uint32_t> matching;
};
struct PkgT {
    bool missing;
    std::vector<uint32_t> cands;
    long favored, locked;  // -1 = none
    std::vector<uint32_t> excluded;
    int hint;  // 0 none, 1 all, 2 some
    std::vector<uint32_t> some;
};
struct UniverseT {
    std::vector<SolT> sols;
    std::vector<VsT> vss;
    std::vector<std::vector<uint32_t>> unions;
    std::vector<PkgT> pkgs;
};
struct ProblemT {
    std::vector<Req> reqs;
    std::vector<uint32_t> cons, soft;
};

struct Toks {
    std::vector<long> t;
    size_t i = 0;
    long next() {
        if (i >= t.size()) {
            std::fprintf(stderr, "token underflow\n");
            std::exit(2);
        }
        return t[i++];
    }
    std::vector<uint32_t> list() {
        long n = next();
        std::vector<uint32_t> r;
        for (long k = 0; k < n; ++k) r.push_back(uint32_t(next()));
        return r;
    }
    Req req() {
        Req r;
        r.kind = int(next());
        r.id = uint32_t(next());
        return r;
    }
};

bool parse_universe(Toks &t, UniverseT &u) {
    bool expressible = true;
    long ns = t.next();
    for (long k = 0; k < ns; ++k) {
        SolT s;
        s.name = uint32_t(t.next());
        s.rank = uint32_t(t.next());
        s.known = t.next() != 0;
        if (s.known) {
            long nr = t.next();
            for (long j = 0; j < nr; ++j) s.reqs.push_back(t.req());
            s.cons = t.list();
        } else {
            expressible = false;  // Dependencies::Unknown has no C++ counterpart
        }
        u.sols.push_back(s);
    }
    long nv = t.next();
    for (long k = 0; k < nv; ++k) {
        VsT v;
        v.name = uint32_t(t.next());
        v.matching = t.list();
        u.vss.push_back(v);
    }
    long nu = t.next();
    for (long k = 0; k < nu; ++k) u.unions.push_back(t.list());
    long np = t.next();
    for (long k = 0; k < np; ++k) {
        PkgT p;
        p.missing = t.next() != 0;
        p.cands = t.list();
        p.favored = t.next() - 1;
        p.locked = t.next() - 1;
        p.excluded = t.list();
        p.hint = int(t.next());
        if (p.hint == 2) p.some = t.list();
        u.pkgs.push_back(p);
    }
    return expressible;
}

void parse_problem(Toks &t, ProblemT &p) {
    long nr = t.next();
    for (long j = 0; j < nr; ++j) p.reqs.push_back(t.req());
    p.cons = t.list();
    p.soft = t.list();
}

Requirement conv_req(const Req &r) {
    return r.kind == 0 ? requirement_single(VersionSetId{r.id}) : requirement_union(VersionSetUnionId{r.id});
}

struct TableProvider : DependencyProvider {
    const UniverseT &u;
    bool share;  // hand out copies of stored vectors (refcount >= 2 on the Rust side) instead of fresh ones
    bool inplace = false;  // favored / locked point into the candidates vector that is returned
    std::ostringstream calls;
    std::vector<std::vector<VersionSetId>> unions;
    std::vector<SolvableId> favored, locked;
    std::vector<Vector<SolvableId>> stored_cands;
    std::vector<Vector<Requirement>> stored_reqs;
    std::vector<Vector<VersionSetId>> stored_cons;

    TableProvider(const UniverseT &u, bool share) : u(u), share(share) {
        for (auto &m : u.unions) {
            std::vector<VersionSetId> v;
            for (uint32_t x : m) v.push_back(VersionSetId{x});
            unions.push_back(v);
        }
        for (auto &p : u.pkgs) {
            favored.push_back(SolvableId{uint32_t(p.favored < 0 ? 0 : p.favored)});
            locked.push_back(SolvableId{uint32_t(p.locked < 0 ? 0 : p.locked)});
            Vector<SolvableId> c;
            for (uint32_t s : p.cands) c.push_back(SolvableId{s});
            stored_cands.push_back(c);
        }
        for (auto &s : u.sols) {
            Vector<Requirement> r;
            Vector<VersionSetId> c;
            for (auto &q : s.reqs) r.push_back(conv_req(q));
            for (uint32_t v : s.cons) c.push_back(VersionSetId{v});
            stored_reqs.push_back(r);
            stored_cons.push_back(c);
        }
    }

    static String str(const std::string &s) { return String(std::string_view(s)); }
    std::string solvable_text(SolvableId s) {
        uint32_t n = s.id < u.sols.size() ? u.sols[s.id].name : 9999;
        return "p" + std::to_string(n) + "=s" + std::to_string(s.id);
    }
    String display_solvable(SolvableId s) override { return str(solvable_text(s)); }
    String display_merged_solvables(Slice<SolvableId> solvables) override {
        // the default of resolvo::Interner::display_merged_solvables, which the Rust table
        // provider inherits: "<name> <sorted, unique solvable texts joined by ' | '>"
        if (solvables.empty()) return str("");
        std::vector<std::string> texts;
        for (size_t i = 0; i < solvables.size(); ++i) texts.push_back(solvable_text(solvables[i]));
        std::sort(texts.begin(), texts.end());
        texts.erase(std::unique(texts.begin(), texts.end()), texts.end());
        std::string r = "p" + std::to_string(solvable_name(solvables[0]).id) + " ";
        for (size_t i = 0; i < texts.size(); ++i) r += (i ? " | " : "") + texts[i];
        return str(r);
    }
    String display_name(NameId n) override { return str("p" + std::to_string(n.id)); }
    String display_version_set(VersionSetId v) override { return str("vs" + std::to_string(v.id)); }
    String display_string(StringId s) override { return str("str" + std::to_string(s.id)); }
    NameId version_set_name(VersionSetId v) override { return NameId{u.vss[v.id].name}; }
    NameId solvable_name(SolvableId s) override { return NameId{u.sols[s.id].name}; }
    Slice<VersionSetId> version_sets_in_union(VersionSetUnionId id) override {
        auto &v = unions[id.id];
        return Slice<VersionSetId>(v.data(), v.size());
    }
    Candidates get_candidates(NameId n) override {
        calls << " c " << n.id;
        Candidates r{};
        const PkgT &p = u.pkgs[n.id];
        if (p.missing) return r;  // Rust: None, which the solver treats as Candidates::default()
        if (share) {
            r.candidates = stored_cands[n.id];
        } else {
            for (uint32_t s : p.cands) r.candidates.push_back(SolvableId{s});
        }
        r.favored = p.favored >= 0 ? &favored[n.id] : nullptr;
        r.locked = p.locked >= 0 ? &locked[n.id] : nullptr;
        if (inplace) {
            // the pointers refer to elements of the candidates vector that is being returned
            const Vector<SolvableId> &cv = r.candidates;
            for (size_t i = 0; i < cv.size(); ++i) {
                if (p.favored >= 0 && cv[i].id == uint32_t(p.favored)) r.favored = &cv[i];
                if (p.locked >= 0 && cv[i].id == uint32_t(p.locked)) r.locked = &cv[i];
            }
        }
        if (p.hint == 1) {
            // HintDependenciesAvailable::All is not expressible; Some(all candidates) is the same set
            if (share) r.hint_dependencies_available = stored_cands[n.id];
            else for (uint32_t s : p.cands) r.hint_dependencies_available.push_back(SolvableId{s});
        } else if (p.hint == 2) {
            for (uint32_t s : p.some) r.hint_dependencies_available.push_back(SolvableId{s});
        }
        for (uint32_t s : p.excluded) r.excluded.push_back(ExcludedSolvable{SolvableId{s}, StringId{s}});
        return r;
    }
    void sort_candidates(Slice<SolvableId> solvables) override {
        calls << " o " << solvables.size();
        for (size_t i = 0; i < solvables.size(); ++i) calls << ' ' << solvables[i].id;
        std::stable_sort(solvables.begin(), solvables.end(),
                         [&](SolvableId a, SolvableId b) { return u.sols[a.id].rank < u.sols[b.id].rank; });
    }
    Vector<SolvableId> filter_candidates(Slice<SolvableId> cands, VersionSetId vs, bool inverse) override {
        calls << " f " << vs.id << ' ' << (inverse ? 1 : 0);
        const auto &m = u.vss[vs.id].matching;
        Vector<SolvableId> r;
        for (size_t i = 0; i < cands.size(); ++i) {
            bool in = std::find(m.begin(), m.end(), cands[i].id) != m.end();
            if (in != inverse) r.push_back(cands[i]);
        }
        return r;
    }
    Dependencies get_dependencies(SolvableId s) override {
        calls << " d " << s.id;
        Dependencies d{};
        const SolT &t = u.sols[s.id];
        if (share) {
            d.requirements = stored_reqs[s.id];
            d.constrains = stored_cons[s.id];
        } else {
            for (auto &q : t.reqs) d.requirements.push_back(conv_req(q));
            for (uint32_t v : t.cons) d.constrains.push_back(VersionSetId{v});
        }
        return d;
    }
};

std::string hex(std::string_view s) {
    static const char *d = "0123456789abcdef";
    std::string r;
    for (unsigned char c : s) {
        r.push_back(d[c >> 4]);
        r.push_back(d[c & 15]);
    }
    return r;
}

void run_solve(const std::string &id, long flags, Toks &t) {
    UniverseT u;
    ProblemT p;
    bool expressible = parse_universe(t, u);
    parse_problem(t, p);
    if (!expressible) {
        std::cout << "r " << id << " inexpressible\n" << std::flush;
        return;
    }
    long bad0 = g_bad_layout, unk0 = g_unknown_free;
    std::string result_line, calls;
    long keep_bad = 0;
    {
        TableProvider prov(u, (flags & 1) != 0);
        prov.inplace = (flags & 8) != 0;
        Vector<Requirement> reqs;
        Vector<VersionSetId> cons;
        Vector<SolvableId> soft;
        for (auto &r : p.reqs) reqs.push_back(conv_req(r));
        for (uint32_t v : p.cons) cons.push_back(VersionSetId{v});
        for (uint32_t s : p.soft) soft.push_back(SolvableId{s});
        Problem problem = {
            Slice<Requirement>(static_cast<const Vector<Requirement> &>(reqs).begin(), reqs.size()),
            Slice<VersionSetId>(static_cast<const Vector<VersionSetId> &>(cons).begin(), cons.size()),
            Slice<SolvableId>(static_cast<const Vector<SolvableId> &>(soft).begin(), soft.size())};
        Vector<SolvableId> result;
        std::optional<Vector<SolvableId>> keep;
        if (flags & 2) {
            // a C++-allocated, non-empty result vector that Rust has to release when it assigns
            for (uint32_t k = 0; k < 5; ++k) result.push_back(SolvableId{4000 + k});
            if (flags & 4) keep.emplace(result);  // ... and that is shared with a second handle
        }
        String error = solve(prov, problem, result);
        if (keep) {
            if (keep->size() != 5) keep_bad++;
            for (uint32_t k = 0; k < keep->size(); ++k)
                if (keep->at(k).id != 4000 + k) keep_bad++;
            if (peek(*keep).rc != 1 && !(std::string_view(error) != "")) keep_bad++;
        }
        std::ostringstream o;
        std::string_view ev = error;
        if (ev.empty()) {
            // the solution is used through every access path once: copy, COW push on the copy
            Vector<SolvableId> copy = result;
            copy.push_back(SolvableId{7777});
            o << "r " << id << " sat " << result.size();
            for (size_t i = 0; i < result.size(); ++i) o << ' ' << result[i].id;
            if (copy.size() != result.size() + 1) keep_bad++;
        } else {
            o << "r " << id << " unsat " << hex(ev) << ' ' << result.size();
        }
        result_line = o.str();
        calls = prov.calls.str();
    }
    std::cout << result_line << '\n'
              << "calls " << id << calls << '\n'
              << "mem " << id << " bad_layout=" << (g_bad_layout - bad0) << " foreign_free=" << (g_unknown_free - unk0)
              << " keep_bad=" << keep_bad << '\n'
              << std::flush;
}

// ---------------------------------------------------------------- main

int main() {
    std::string line;
    std::string cur_id, cur_ty;
    std::vector<Line> lines;
    bool in_seq = false;
    while (std::getline(std::cin, line)) {
        std::istringstream is(line);
        std::string op;
        if (!(is >> op)) continue;
        if (op == "seq") {
            is >> cur_id >> cur_ty;
            lines.clear();
            in_seq = true;
        } else if (op == "end") {
            if (cur_ty == "u8") run_seq<uint8_t>(cur_id, lines); else run_seq<int32_t>(cur_id, lines);
            in_seq = false;
        } else if (in_seq) {
            Line l;
            l.op = op;
            long v;
            while (is >> v) l.a.push_back(v);
            lines.push_back(l);
        } else if (op == "solve") {
            std::string id;
            long flags;
            is >> id >> flags;
            Toks t;
            long v;
            while (is >> v) t.t.push_back(v);
            run_solve(id, flags, t);
        } else if (op == "alias") {
            // aliasing arguments: what std::vector / std::string do is the expectation
            std::string mode;
            is >> mode;
            std::ostringstream o;
            if (mode == "push_own") {
                Vector<int32_t> v;
                v.push_back(41);
                for (int i = 0; i < 6; ++i) v.push_back(v[size_t(i) / 2]);
                Vector<int32_t> w = v;          // shared: push detaches
                w.push_back(w[0]);
                for (size_t i = 0; i < v.size(); ++i) o << ' ' << v[i];
                o << " |";
                for (size_t i = 0; i < w.size(); ++i) o << ' ' << w[i];
            } else if (mode == "push_own_move") {
                Vector<int32_t> v;
                v.push_back(7);
                v.push_back(8);
                v.push_back(std::move(v[1]));
                for (size_t i = 0; i < v.size(); ++i) o << ' ' << v[i];
            } else if (mode == "str_null_view") {
                std::string_view e;
                String s{e};
                String t("x");
                t = std::string_view();
                o << ' ' << std::string_view(s).size() << ' ' << std::string_view(t).size();
            } else if (mode == "str_assign_subview") {
                String s("hello world");
                s = std::string_view(s).substr(6);
                o << ' ' << std::string_view(s);
            } else if (mode == "str_assign_cptr") {
                String s("hello world");
                s = s.data() + 6;
                o << ' ' << std::string_view(s);
            } else if (mode == "const_slice") {
                const Vector<int32_t> v{1, 2, 3};
                Slice<const int32_t> sl = v;
                o << ' ' << sl.size() << ' ' << sl[2];
            }
            std::cout << "alias " << mode << o.str() << '\n' << std::flush;
        } else if (op == "strself") {
            // finding: String::operator=(const String&) has no self-assignment guard
            std::string mode;
            is >> mode;
            String s("abc");
            const String &r = s;
            if (mode == "self") s = r;
            std::string_view sv = s;
            std::cout << "strself " << mode << ' ' << sv << '\n' << std::flush;
        } else {
            std::fprintf(stderr, "unknown command %s\n", op.c_str());
            return 2;
        }
    }
    return 0;
}
