#!/bin/sh
# Builds, offline and incrementally, from the current /repo tree:
#   1. libresolvo_cpp.a (+ cbindgen headers)   -> /verif/.build/cpp
#   2. the sanitized C++ driver                -> /verif/.build/cpp/driver
#   3. the Rust container harness              -> /verif/.build/cargo_cpp/debug/cow_ops
set -e
HERE="$(cd "$(dirname "$0")" && pwd)"
REPO="${VERIF_REPO:-/repo}"
OUT="${VERIF_CPP_OUT:-$(dirname "$HERE")/.build/cpp}"
mkdir -p "$OUT/include"
export CARGO_NET_OFFLINE=true
( cd "$REPO/cpp" && RESOLVO_GENERATED_INCLUDE_DIR="$OUT/include" \
    cargo build --offline --locked -q -p resolvo_cpp --manifest-path "$REPO/cpp/Cargo.toml" --target-dir "$OUT" )
LIB="$OUT/debug/libresolvo_cpp.a"
DRV="$OUT/driver"
stale=0
[ -x "$DRV" ] || stale=1
if [ $stale = 0 ]; then
  for f in "$HERE/driver.cpp" "$LIB" "$REPO"/cpp/include/*.h "$OUT"/include/*.h; do
    [ "$f" -nt "$DRV" ] && stale=1
  done
fi
if [ $stale = 1 ]; then
  clang++-14 -std=c++17 -g -O1 -fno-omit-frame-pointer -fsanitize=address,undefined -fno-sanitize-recover=undefined \
    -I"$REPO/cpp/include" -I"$OUT/include" "$HERE/driver.cpp" "$LIB" \
    -Wl,--wrap=__rust_alloc -Wl,--wrap=__rust_dealloc -Wl,--wrap=__rust_realloc -Wl,--wrap=__rust_alloc_zeroed \
    -lpthread -ldl -lm -o "$DRV.tmp"
  mv "$DRV.tmp" "$DRV"
fi
cmp -s "$REPO/rust-toolchain" "$HERE/rust/rust-toolchain" || cp "$REPO/rust-toolchain" "$HERE/rust/rust-toolchain"
( cd "$HERE/rust" && cargo build --offline -q )
echo build-ok
