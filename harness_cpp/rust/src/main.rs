//! Runs container operation sequences on the real Rust side of the shared
//! containers: cpp/src/vector.rs, string.rs and slice.rs are compiled into this
//! crate *by path* (no copy), so the code under test is the current /repo tree.
//!
//! stdin: blocks `seq <id> <i32|u8>` ... `end`, one operation per line.
//! stdout: per operation `o <size> <cap> <rc> <live> <n> d1..dn`, per block `done <id> <flags>`.
//!
//! `live` is counted by a global allocator that is switched on only while an
//! operation runs; the same allocator checks that every deallocation uses the
//! layout of the matching allocation (also across the two `resolvo_vector_*`
//! entry points the C++ header allocates and frees through).
#![allow(dead_code, unused_imports, static_mut_refs)]

#[path = "/repo/cpp/src/slice.rs"]
mod slice;
#[path = "/repo/cpp/src/string.rs"]
mod string;
#[path = "/repo/cpp/src/vector.rs"]
mod vector;

use std::alloc::{GlobalAlloc, Layout, System};
use std::io::{BufRead, Write};
use std::sync::atomic::{AtomicBool, AtomicIsize, AtomicUsize, Ordering};

use slice::Slice;
use string::String as RString;
use vector::Vector;

// ---------------------------------------------------------------- allocator

static ENABLED: AtomicBool = AtomicBool::new(false);
static LIVE: AtomicIsize = AtomicIsize::new(0);
static BAD_LAYOUT: AtomicUsize = AtomicUsize::new(0);
static FOREIGN_FREE: AtomicUsize = AtomicUsize::new(0);
const TBL: usize = 4096;
static mut TABLE: [(usize, usize, usize); TBL] = [(0, 0, 0); TBL];

struct Counting;
unsafe impl GlobalAlloc for Counting {
    unsafe fn alloc(&self, l: Layout) -> *mut u8 {
        let p = unsafe { System.alloc(l) };
        if ENABLED.load(Ordering::Relaxed) && !p.is_null() {
            LIVE.fetch_add(1, Ordering::Relaxed);
            unsafe {
                for e in TABLE.iter_mut() {
                    if e.0 == 0 {
                        *e = (p as usize, l.size(), l.align());
                        break;
                    }
                }
            }
        }
        p
    }
    unsafe fn dealloc(&self, p: *mut u8, l: Layout) {
        if ENABLED.load(Ordering::Relaxed) {
            LIVE.fetch_sub(1, Ordering::Relaxed);
            let mut found = false;
            unsafe {
                for e in TABLE.iter_mut() {
                    if e.0 == p as usize {
                        if e.1 != l.size() || e.2 != l.align() {
                            BAD_LAYOUT.fetch_add(1, Ordering::Relaxed);
                        }
                        *e = (0, 0, 0);
                        found = true;
                        break;
                    }
                }
            }
            if !found {
                FOREIGN_FREE.fetch_add(1, Ordering::Relaxed);
            }
        }
        unsafe { System.dealloc(p, l) }
    }
}
#[global_allocator]
static GLOBAL: Counting = Counting;

fn window<R>(f: impl FnOnce() -> R) -> R {
    ENABLED.store(true, Ordering::SeqCst);
    let r = f();
    ENABLED.store(false, Ordering::SeqCst);
    r
}

// ---------------------------------------------------------------- header peek

/// (refcount, size, capacity) read through the handle: `Vector<T>` is `repr(C)`
/// around one pointer to `VectorHeader { refcount, size, capacity }`.
fn header<T>(v: &Vector<T>) -> (isize, usize, usize) {
    unsafe {
        let p: *const usize = *(v as *const Vector<T> as *const *const usize);
        (*(p as *const isize), *p.add(1), *p.add(2))
    }
}
fn sheader(s: &RString) -> (isize, usize, usize) {
    unsafe {
        let p: *const usize = *(s as *const RString as *const *const usize);
        (*(p as *const isize), *p.add(1), *p.add(2))
    }
}

const HEADER_SIZE: usize = 3 * std::mem::size_of::<usize>();
const HEADER_ALIGN: usize = std::mem::align_of::<usize>();

/// What the C++ `Vector<T>::with_capacity` does: memory from
/// `resolvo_vector_allocate(sizeof(Header) + capacity * sizeof(T), alignof(Header))`
/// and a header `{1, 0, capacity}` written in place.
fn cpp_with_capacity<T>(cap: usize) -> Vector<T> {
    unsafe {
        let mem = vector::ffi::resolvo_vector_allocate(HEADER_SIZE + cap * std::mem::size_of::<T>(), HEADER_ALIGN);
        let h = mem as *mut usize;
        *(h as *mut isize) = 1;
        *h.add(1) = 0;
        *h.add(2) = cap;
        std::mem::transmute_copy::<*mut u8, Vector<T>>(&mem)
    }
}

/// What the C++ `Vector<T>::drop()` does for trivially destructible T.
fn cpp_drop<T>(v: Vector<T>) {
    unsafe {
        let p: *mut usize = *(&v as *const Vector<T> as *const *mut usize);
        std::mem::forget(v);
        let rc = p as *mut isize;
        if *rc > 0 {
            *rc -= 1;
            if *rc == 0 {
                let cap = *p.add(2);
                vector::ffi::resolvo_vector_free(p as *mut u8, HEADER_SIZE + cap * std::mem::size_of::<T>(), HEADER_ALIGN);
            }
        }
    }
}

// ---------------------------------------------------------------- driver

trait Elem: Clone + Copy + PartialEq + std::fmt::Debug + 'static {
    fn from_i64(v: i64) -> Self;
    fn to_i64(self) -> i64;
}
impl Elem for i32 {
    fn from_i64(v: i64) -> Self { v as i32 }
    fn to_i64(self) -> i64 { self as i64 }
}
impl Elem for u8 {
    fn from_i64(v: i64) -> Self { v as u8 }
    fn to_i64(self) -> i64 { self as i64 }
}

const NV: usize = 64;
const STR0: usize = 100;

struct Line {
    op: String,
    a: Vec<i64>,
}

fn run_seq<T: Elem>(id: &str, lines: &[Line], out: &mut impl Write) {
    let mut vs: Vec<Option<Vector<T>>> = (0..NV).map(|_| None).collect();
    let mut ss: Vec<Option<RString>> = (0..NV).map(|_| None).collect();
    let mut slice_bad = 0usize;
    for l in lines {
        let a = &l.a;
        let x = a.first().copied().unwrap_or(0) as usize;
        let is_str = x >= STR0;
        // operands prepared outside the counting window
        let vals: Vec<T> = if a.len() > 2 { a[2..].iter().map(|&v| T::from_i64(v)).collect() } else { vec![] };
        let bytes: Vec<u8> = if a.len() > 2 { a[2..].iter().map(|&v| v as u8).collect() } else { vec![] };
        let text = std::str::from_utf8(&bytes).unwrap_or("");
        let mut report = x;
        window(|| match l.op.as_str() {
            "default" => {
                if is_str { ss[x - STR0] = Some(RString::default()) } else { vs[x] = Some(Vector::default()) }
            }
            "withcap" => vs[x] = Some(Vector::with_capacity(a[1] as usize)),
            "cppalloc" => vs[x] = Some(cpp_with_capacity::<T>(a[1] as usize)),
            "fromiter" => vs[x] = Some(vals.iter().copied().collect()),
            "fromiterlazy" => vs[x] = Some(vals.iter().copied().filter(|_| true).collect()),
            "clone" => {
                let y = a[1] as usize;
                report = y;
                if is_str {
                    let c = ss[x - STR0].as_ref().unwrap().clone();
                    ss[y - STR0] = Some(c);
                } else {
                    let c = vs[x].as_ref().unwrap().clone();
                    vs[y] = Some(c);
                }
            }
            "drop" => {
                if is_str { ss[x - STR0] = None } else { vs[x] = None }
            }
            "cppdrop" => cpp_drop(vs[x].take().unwrap()),
            "push" => vs[x].as_mut().unwrap().push(T::from_i64(a[1])),
            "assign" => {
                let y = a[1] as usize;
                if is_str {
                    let c = ss[y - STR0].as_ref().unwrap().clone();
                    ss[x - STR0] = Some(c);
                } else {
                    let c = vs[y].as_ref().unwrap().clone();
                    vs[x] = Some(c);
                }
            }
            "swap" => {
                let y = a[1] as usize;
                if x != y {
                    if is_str {
                        let (p, q) = (x - STR0, y - STR0);
                        let mut t = ss[p].take().unwrap();
                        std::mem::swap(&mut t, ss[q].as_mut().unwrap());
                        ss[p] = Some(t);
                    } else {
                        let mut t = vs[x].take().unwrap();
                        std::mem::swap(&mut t, vs[y].as_mut().unwrap());
                        vs[x] = Some(t);
                    }
                }
            }
            "read" | "sread" => {}
            "sfrom" => ss[x - STR0] = Some(RString::from(text)),
            other => panic!("unknown op {other}"),
        });
        let live = LIVE.load(Ordering::SeqCst);
        // observation (outside the window)
        let (data, size, cap, rc): (Vec<i64>, usize, usize, isize) = if report >= STR0 {
            match ss[report - STR0].as_ref() {
                None => (vec![], 0, 0, 0),
                Some(s) => {
                    let (rc, sz, cap) = sheader(s);
                    if l.op == "sread" {
                        (s.as_str().bytes().map(|b| b as i64).collect(), s.len(), cap, rc)
                    } else {
                        // the raw bytes including the NUL, as the inner vector holds them
                        let raw = unsafe { std::slice::from_raw_parts(s.as_ptr(), sz) };
                        (if sz == 0 { vec![] } else { raw.iter().map(|&b| b as i64).collect() }, sz, cap, rc)
                    }
                }
            }
        } else {
            match vs[report].as_ref() {
                None => (vec![], 0, 0, 0),
                Some(v) => {
                    let (rc, sz, cap) = header(v);
                    // through the FFI Slice type and back
                    let sl = Slice::from_slice(v.as_slice());
                    let back = sl.as_slice();
                    if back != v.as_slice() || v.len() != sz || back.len() != sz {
                        slice_bad += 1;
                    }
                    (back.iter().map(|e| e.to_i64()).collect(), v.len(), cap, rc)
                }
            }
        };
        let _ = write!(out, "o {size} {cap} {rc} {live} {}", data.len());
        for d in data {
            let _ = write!(out, " {d}");
        }
        let _ = writeln!(out);
    }
    // anything left over is dropped here, inside the window
    window(|| {
        vs.iter_mut().for_each(|v| *v = None);
        ss.iter_mut().for_each(|s| *s = None);
    });
    let _ = writeln!(
        out,
        "done {id} leaked={} bad_layout={} foreign_free={} slice_bad={}",
        LIVE.load(Ordering::SeqCst),
        BAD_LAYOUT.load(Ordering::SeqCst),
        FOREIGN_FREE.load(Ordering::SeqCst),
        slice_bad
    );
    LIVE.store(0, Ordering::SeqCst);
    BAD_LAYOUT.store(0, Ordering::SeqCst);
    FOREIGN_FREE.store(0, Ordering::SeqCst);
    unsafe { TABLE.iter_mut().for_each(|e| *e = (0, 0, 0)) };
}

fn main() {
    let stdin = std::io::stdin();
    let so = std::io::stdout();
    let mut out = std::io::BufWriter::new(so.lock());
    let mut cur: Option<(String, String)> = None;
    let mut lines: Vec<Line> = vec![];
    for line in stdin.lock().lines() {
        let line = line.unwrap();
        let mut it = line.split_whitespace();
        let Some(op) = it.next() else { continue };
        match op {
            "seq" => {
                cur = Some((it.next().unwrap().to_string(), it.next().unwrap_or("i32").to_string()));
                lines.clear();
            }
            "end" => {
                let (id, ty) = cur.take().unwrap();
                match ty.as_str() {
                    "u8" => run_seq::<u8>(&id, &lines, &mut out),
                    _ => run_seq::<i32>(&id, &lines, &mut out),
                }
                let _ = out.flush();
            }
            _ => lines.push(Line { op: op.to_string(), a: it.map(|t| t.parse().unwrap()).collect() }),
        }
    }
}
