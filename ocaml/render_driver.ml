(* Driver for the extracted renderer model. Reads one case per line from stdin
   as integer tokens:

     nsols name..  nvss name..  nunions {k vs..}..
     nnodes {kind [arg]}..     kind: 0 root | 1 solvable s | 2 unresolved | 3 excluded r
     nedges {src tgt kind [arg]}..
                               kind: 0 req single vs | 1 req union u | 2 lock s | 3 con vs | 4 forbid | 5 excl
     root  unres               unres: 0 = none, k+1 = node index k

   and prints one line per case: the rendered message with backslash and
   newline escaped, or OUT-OF-FUEL, or ILL-FORMED-GRAPH (the graph violates the
   shape conditions under which conflict.rs cannot panic: Render.graph_wf);
   then a tab and the model's DfsPostOrder from the root (node indices separated
   by commas), a tab and the installable set, a tab and the missing set, a tab
   and Render.lin_bound of the graph (bound on the number of lines).
   All parsing/printing lives here; the rendering is the extracted code. *)
open Render

let rec pos_of_int i = if i = 1 then XH else if i land 1 = 1 then XI (pos_of_int (i lsr 1)) else XO (pos_of_int (i lsr 1))
let n_of_int i = if i = 0 then N0 else Npos (pos_of_int i)
let rec int_of_pos = function XH -> 1 | XO p -> 2 * int_of_pos p | XI p -> 2 * int_of_pos p + 1
let int_of_n = function N0 -> 0 | Npos p -> int_of_pos p
let rec int_of_nat = function O -> 0 | S n -> 1 + int_of_nat n
let show_ns l = String.concat "," (List.map (fun n -> string_of_int (int_of_n n)) l)

type st = { toks : string array; mutable i : int }
let next s = let t = s.toks.(s.i) in s.i <- s.i + 1; int_of_string t
let nextn s = n_of_int (next s)
let rep s f = let k = next s in List.init k (fun _ -> f s)
let nlist s = rep s nextn

let node s = match next s with
  | 0 -> RRoot
  | 1 -> RSol (nextn s)
  | 2 -> RUnresolved
  | _ -> RExcl (nextn s)
let edge s =
  let a = nextn s in let b = nextn s in
  let w = match next s with
    | 0 -> EReq (RSingle (nextn s))
    | 1 -> EReq (RUnion (nextn s))
    | 2 -> ELock (nextn s)
    | 3 -> ECon (nextn s)
    | 4 -> EForbid
    | _ -> EExcl in
  ((a, b), w)

let escape cs =
  let b = Buffer.create 256 in
  List.iter (fun c -> match c with
    | '\n' -> Buffer.add_string b "\\n"
    | '\\' -> Buffer.add_string b "\\\\"
    | c -> Buffer.add_char b c) cs;
  Buffer.contents b

let () =
  try
    while true do
      let line = input_line stdin in
      let toks = Array.of_list (List.filter (fun x -> x <> "") (String.split_on_char ' ' line)) in
      if Array.length toks > 0 then begin
        let s = { toks; i = 0 } in
        let sols = nlist s in
        let vss = nlist s in
        let unions = rep s nlist in
        let nodes = rep s node in
        let edges = rep s edge in
        let root = nextn s in
        let un = next s in
        let g = { g_nodes = nodes; g_edges = edges; g_root = root;
                  g_unresolved = (if un = 0 then None else Some (n_of_int (un - 1))) } in
        let msg = if not (graph_wf g) then "ILL-FORMED-GRAPH" else escape (render_harness sols vss unions g) in
        Printf.printf "%s\t%s\t%s\t%s\t%d\n" msg (show_ns (dfs_post_order g)) (show_ns (installable_set g)) (show_ns (missing_set g)) (int_of_nat (lin_bound g))
      end
    done
  with End_of_file -> ()
