
(** val negb : bool -> bool **)

let negb = function
| true -> false
| false -> true

type nat =
| O
| S of nat

(** val fst : ('a1 * 'a2) -> 'a1 **)

let fst = function
| (x, _) -> x

(** val snd : ('a1 * 'a2) -> 'a2 **)

let snd = function
| (_, y) -> y

(** val length : 'a1 list -> nat **)

let rec length = function
| [] -> O
| _ :: l' -> S (length l')

(** val app : 'a1 list -> 'a1 list -> 'a1 list **)

let rec app l m =
  match l with
  | [] -> m
  | a :: l1 -> a :: (app l1 m)

type comparison =
| Eq
| Lt
| Gt

type uint =
| Nil
| D0 of uint
| D1 of uint
| D2 of uint
| D3 of uint
| D4 of uint
| D5 of uint
| D6 of uint
| D7 of uint
| D8 of uint
| D9 of uint

(** val revapp : uint -> uint -> uint **)

let rec revapp d d' =
  match d with
  | Nil -> d'
  | D0 d0 -> revapp d0 (D0 d')
  | D1 d0 -> revapp d0 (D1 d')
  | D2 d0 -> revapp d0 (D2 d')
  | D3 d0 -> revapp d0 (D3 d')
  | D4 d0 -> revapp d0 (D4 d')
  | D5 d0 -> revapp d0 (D5 d')
  | D6 d0 -> revapp d0 (D6 d')
  | D7 d0 -> revapp d0 (D7 d')
  | D8 d0 -> revapp d0 (D8 d')
  | D9 d0 -> revapp d0 (D9 d')

(** val rev : uint -> uint **)

let rev d =
  revapp d Nil

module Little =
 struct
  (** val double : uint -> uint **)

  let rec double = function
  | Nil -> Nil
  | D0 d0 -> D0 (double d0)
  | D1 d0 -> D2 (double d0)
  | D2 d0 -> D4 (double d0)
  | D3 d0 -> D6 (double d0)
  | D4 d0 -> D8 (double d0)
  | D5 d0 -> D0 (succ_double d0)
  | D6 d0 -> D2 (succ_double d0)
  | D7 d0 -> D4 (succ_double d0)
  | D8 d0 -> D6 (succ_double d0)
  | D9 d0 -> D8 (succ_double d0)

  (** val succ_double : uint -> uint **)

  and succ_double = function
  | Nil -> D1 Nil
  | D0 d0 -> D1 (double d0)
  | D1 d0 -> D3 (double d0)
  | D2 d0 -> D5 (double d0)
  | D3 d0 -> D7 (double d0)
  | D4 d0 -> D9 (double d0)
  | D5 d0 -> D1 (succ_double d0)
  | D6 d0 -> D3 (succ_double d0)
  | D7 d0 -> D5 (succ_double d0)
  | D8 d0 -> D7 (succ_double d0)
  | D9 d0 -> D9 (succ_double d0)
 end

module Coq__1 = struct
 (** val add : nat -> nat -> nat **)
 let rec add n0 m =
   match n0 with
   | O -> m
   | S p -> S (add p m)
end
include Coq__1

(** val mul : nat -> nat -> nat **)

let rec mul n0 m =
  match n0 with
  | O -> O
  | S p -> add m (mul p m)

(** val max : nat -> nat -> nat **)

let rec max n0 m =
  match n0 with
  | O -> m
  | S n' -> (match m with
             | O -> n0
             | S m' -> S (max n' m'))

type positive =
| XI of positive
| XO of positive
| XH

type n =
| N0
| Npos of positive

module Nat =
 struct
  (** val add : nat -> nat -> nat **)

  let rec add n0 m =
    match n0 with
    | O -> m
    | S p -> S (add p m)

  (** val mul : nat -> nat -> nat **)

  let rec mul n0 m =
    match n0 with
    | O -> O
    | S p -> add m (mul p m)

  (** val eqb : nat -> nat -> bool **)

  let rec eqb n0 m =
    match n0 with
    | O -> (match m with
            | O -> true
            | S _ -> false)
    | S n' -> (match m with
               | O -> false
               | S m' -> eqb n' m')

  (** val leb : nat -> nat -> bool **)

  let rec leb n0 m =
    match n0 with
    | O -> true
    | S n' -> (match m with
               | O -> false
               | S m' -> leb n' m')

  (** val ltb : nat -> nat -> bool **)

  let ltb n0 m =
    leb (S n0) m

  (** val pow : nat -> nat -> nat **)

  let rec pow n0 = function
  | O -> S O
  | S m0 -> mul n0 (pow n0 m0)
 end

module Pos =
 struct
  (** val succ : positive -> positive **)

  let rec succ = function
  | XI p -> XO (succ p)
  | XO p -> XI p
  | XH -> XO XH

  (** val add : positive -> positive -> positive **)

  let rec add x y =
    match x with
    | XI p ->
      (match y with
       | XI q -> XO (add_carry p q)
       | XO q -> XI (add p q)
       | XH -> XO (succ p))
    | XO p ->
      (match y with
       | XI q -> XI (add p q)
       | XO q -> XO (add p q)
       | XH -> XI p)
    | XH -> (match y with
             | XI q -> XO (succ q)
             | XO q -> XI q
             | XH -> XO XH)

  (** val add_carry : positive -> positive -> positive **)

  and add_carry x y =
    match x with
    | XI p ->
      (match y with
       | XI q -> XI (add_carry p q)
       | XO q -> XO (add_carry p q)
       | XH -> XI (succ p))
    | XO p ->
      (match y with
       | XI q -> XO (add_carry p q)
       | XO q -> XI (add p q)
       | XH -> XO (succ p))
    | XH ->
      (match y with
       | XI q -> XI (succ q)
       | XO q -> XO (succ q)
       | XH -> XI XH)

  (** val mul : positive -> positive -> positive **)

  let rec mul x y =
    match x with
    | XI p -> add y (XO (mul p y))
    | XO p -> XO (mul p y)
    | XH -> y

  (** val compare_cont : comparison -> positive -> positive -> comparison **)

  let rec compare_cont r x y =
    match x with
    | XI p ->
      (match y with
       | XI q -> compare_cont r p q
       | XO q -> compare_cont Gt p q
       | XH -> Gt)
    | XO p ->
      (match y with
       | XI q -> compare_cont Lt p q
       | XO q -> compare_cont r p q
       | XH -> Gt)
    | XH -> (match y with
             | XH -> r
             | _ -> Lt)

  (** val compare : positive -> positive -> comparison **)

  let compare =
    compare_cont Eq

  (** val eqb : positive -> positive -> bool **)

  let rec eqb p q =
    match p with
    | XI p0 -> (match q with
                | XI q0 -> eqb p0 q0
                | _ -> false)
    | XO p0 -> (match q with
                | XO q0 -> eqb p0 q0
                | _ -> false)
    | XH -> (match q with
             | XH -> true
             | _ -> false)

  (** val iter_op : ('a1 -> 'a1 -> 'a1) -> positive -> 'a1 -> 'a1 **)

  let rec iter_op op p a =
    match p with
    | XI p0 -> op a (iter_op op p0 (op a a))
    | XO p0 -> iter_op op p0 (op a a)
    | XH -> a

  (** val to_nat : positive -> nat **)

  let to_nat x =
    iter_op Coq__1.add x (S O)

  (** val of_succ_nat : nat -> positive **)

  let rec of_succ_nat = function
  | O -> XH
  | S x -> succ (of_succ_nat x)

  (** val to_little_uint : positive -> uint **)

  let rec to_little_uint = function
  | XI p0 -> Little.succ_double (to_little_uint p0)
  | XO p0 -> Little.double (to_little_uint p0)
  | XH -> D1 Nil

  (** val to_uint : positive -> uint **)

  let to_uint p =
    rev (to_little_uint p)
 end

module N =
 struct
  (** val add : n -> n -> n **)

  let add n0 m =
    match n0 with
    | N0 -> m
    | Npos p -> (match m with
                 | N0 -> n0
                 | Npos q -> Npos (Pos.add p q))

  (** val mul : n -> n -> n **)

  let mul n0 m =
    match n0 with
    | N0 -> N0
    | Npos p -> (match m with
                 | N0 -> N0
                 | Npos q -> Npos (Pos.mul p q))

  (** val compare : n -> n -> comparison **)

  let compare n0 m =
    match n0 with
    | N0 -> (match m with
             | N0 -> Eq
             | Npos _ -> Lt)
    | Npos n' -> (match m with
                  | N0 -> Gt
                  | Npos m' -> Pos.compare n' m')

  (** val eqb : n -> n -> bool **)

  let eqb n0 m =
    match n0 with
    | N0 -> (match m with
             | N0 -> true
             | Npos _ -> false)
    | Npos p -> (match m with
                 | N0 -> false
                 | Npos q -> Pos.eqb p q)

  (** val leb : n -> n -> bool **)

  let leb x y =
    match compare x y with
    | Gt -> false
    | _ -> true

  (** val ltb : n -> n -> bool **)

  let ltb x y =
    match compare x y with
    | Lt -> true
    | _ -> false

  (** val to_nat : n -> nat **)

  let to_nat = function
  | N0 -> O
  | Npos p -> Pos.to_nat p

  (** val of_nat : nat -> n **)

  let of_nat = function
  | O -> N0
  | S n' -> Npos (Pos.of_succ_nat n')

  (** val to_uint : n -> uint **)

  let to_uint = function
  | N0 -> D0 Nil
  | Npos p -> Pos.to_uint p
 end

(** val zero : char **)

let zero = '\000'

(** val one : char **)

let one = '\001'

(** val shift : bool -> char -> char **)

let shift = fun b c -> Char.chr (((Char.code c) lsl 1) land 255 + if b then 1 else 0)

(** val ascii_of_pos : positive -> char **)

let ascii_of_pos =
  let rec loop n0 p =
    match n0 with
    | O -> zero
    | S n' ->
      (match p with
       | XI p' -> shift true (loop n' p')
       | XO p' -> shift false (loop n' p')
       | XH -> one)
  in loop (S (S (S (S (S (S (S (S O))))))))

(** val ascii_of_N : n -> char **)

let ascii_of_N = function
| N0 -> zero
| Npos p -> ascii_of_pos p

(** val ascii_of_nat : nat -> char **)

let ascii_of_nat a =
  ascii_of_N (N.of_nat a)

(** val compare0 : char -> char -> comparison **)

let compare0 = fun c1 c2 ->
    let cmp = Char.compare c1 c2 in
    if cmp < 0 then Lt else if cmp = 0 then Eq else Gt

(** val tl : 'a1 list -> 'a1 list **)

let tl = function
| [] -> []
| _ :: m -> m

(** val nth : nat -> 'a1 list -> 'a1 -> 'a1 **)

let rec nth n0 l default =
  match n0 with
  | O -> (match l with
          | [] -> default
          | x :: _ -> x)
  | S m -> (match l with
            | [] -> default
            | _ :: t -> nth m t default)

(** val nth_error : 'a1 list -> nat -> 'a1 option **)

let rec nth_error l = function
| O -> (match l with
        | [] -> None
        | x :: _ -> Some x)
| S n1 -> (match l with
           | [] -> None
           | _ :: l0 -> nth_error l0 n1)

(** val rev0 : 'a1 list -> 'a1 list **)

let rec rev0 = function
| [] -> []
| x :: l' -> app (rev0 l') (x :: [])

(** val map : ('a1 -> 'a2) -> 'a1 list -> 'a2 list **)

let rec map f = function
| [] -> []
| a :: t -> (f a) :: (map f t)

(** val fold_left : ('a1 -> 'a2 -> 'a1) -> 'a2 list -> 'a1 -> 'a1 **)

let rec fold_left f l a0 =
  match l with
  | [] -> a0
  | b :: t -> fold_left f t (f a0 b)

(** val fold_right : ('a2 -> 'a1 -> 'a1) -> 'a1 -> 'a2 list -> 'a1 **)

let rec fold_right f a0 = function
| [] -> a0
| b :: t -> f b (fold_right f a0 t)

(** val existsb : ('a1 -> bool) -> 'a1 list -> bool **)

let rec existsb f = function
| [] -> false
| a :: l0 -> (||) (f a) (existsb f l0)

(** val forallb : ('a1 -> bool) -> 'a1 list -> bool **)

let rec forallb f = function
| [] -> true
| a :: l0 -> (&&) (f a) (forallb f l0)

(** val filter : ('a1 -> bool) -> 'a1 list -> 'a1 list **)

let rec filter f = function
| [] -> []
| x :: l0 -> if f x then x :: (filter f l0) else filter f l0

(** val find : ('a1 -> bool) -> 'a1 list -> 'a1 option **)

let rec find f = function
| [] -> None
| x :: tl0 -> if f x then Some x else find f tl0

(** val seq : nat -> nat -> nat list **)

let rec seq start = function
| O -> []
| S len0 -> start :: (seq (S start) len0)

(** val list_max : nat list -> nat **)

let list_max l =
  fold_right max O l

(** val eqb0 : char list -> char list -> bool **)

let rec eqb0 s1 s2 =
  match s1 with
  | [] -> (match s2 with
           | [] -> true
           | _::_ -> false)
  | c1::s1' ->
    (match s2 with
     | [] -> false
     | c2::s2' -> if (=) c1 c2 then eqb0 s1' s2' else false)

(** val compare1 : char list -> char list -> comparison **)

let rec compare1 s1 s2 =
  match s1 with
  | [] -> (match s2 with
           | [] -> Eq
           | _::_ -> Lt)
  | c1::s1' ->
    (match s2 with
     | [] -> Gt
     | c2::s2' -> (match compare0 c1 c2 with
                   | Eq -> compare1 s1' s2'
                   | x -> x))

(** val leb0 : char list -> char list -> bool **)

let leb0 s1 s2 =
  match compare1 s1 s2 with
  | Gt -> false
  | _ -> true

(** val append : char list -> char list -> char list **)

let rec append s1 s2 =
  match s1 with
  | [] -> s2
  | c::s1' -> c::(append s1' s2)

(** val concat : char list -> char list list -> char list **)

let rec concat sep = function
| [] -> []
| x :: xs ->
  (match xs with
   | [] -> x
   | _ :: _ -> append x (append sep (concat sep xs)))

module NilEmpty =
 struct
  (** val string_of_uint : uint -> char list **)

  let rec string_of_uint = function
  | Nil -> []
  | D0 d0 -> '0'::(string_of_uint d0)
  | D1 d0 -> '1'::(string_of_uint d0)
  | D2 d0 -> '2'::(string_of_uint d0)
  | D3 d0 -> '3'::(string_of_uint d0)
  | D4 d0 -> '4'::(string_of_uint d0)
  | D5 d0 -> '5'::(string_of_uint d0)
  | D6 d0 -> '6'::(string_of_uint d0)
  | D7 d0 -> '7'::(string_of_uint d0)
  | D8 d0 -> '8'::(string_of_uint d0)
  | D9 d0 -> '9'::(string_of_uint d0)
 end

module NilZero =
 struct
  (** val string_of_uint : uint -> char list **)

  let string_of_uint d = match d with
  | Nil -> '0'::[]
  | _ -> NilEmpty.string_of_uint d
 end

type rnode =
| RRoot
| RSol of n
| RUnresolved
| RExcl of n

type rreq =
| RSingle of n
| RUnion of n

type redge =
| EReq of rreq
| ELock of n
| ECon of n
| EForbid
| EExcl

type rgraph = { g_nodes : rnode list; g_edges : ((n * n) * redge) list;
                g_root : n; g_unresolved : n option }

(** val e_src : ((n * n) * redge) -> n **)

let e_src e =
  fst (fst e)

(** val e_tgt : ((n * n) * redge) -> n **)

let e_tgt e =
  snd (fst e)

(** val e_w : ((n * n) * redge) -> redge **)

let e_w =
  snd

(** val memN : n -> n list -> bool **)

let memN x l =
  existsb (N.eqb x) l

(** val rreq_eqb : rreq -> rreq -> bool **)

let rreq_eqb a b =
  match a with
  | RSingle x -> (match b with
                  | RSingle y -> N.eqb x y
                  | RUnion _ -> false)
  | RUnion x -> (match b with
                 | RSingle _ -> false
                 | RUnion y -> N.eqb x y)

(** val edge_req : redge -> rreq option **)

let edge_req = function
| EReq r -> Some r
| _ -> None

(** val is_conflict : redge -> bool **)

let is_conflict = function
| EReq _ -> false
| _ -> true

(** val is_excl : redge -> bool **)

let is_excl = function
| EExcl -> true
| _ -> false

(** val is_forbid : redge -> bool **)

let is_forbid = function
| EForbid -> true
| _ -> false

(** val is_con : redge -> bool **)

let is_con = function
| ECon _ -> true
| _ -> false

(** val chunk_by :
    ('a1 -> 'a1 -> bool) -> ('a2 -> 'a1) -> 'a2 list -> ('a1 * 'a2 list) list **)

let rec chunk_by keqb key = function
| [] -> []
| a :: t ->
  (match chunk_by keqb key t with
   | [] -> ((key a), (a :: [])) :: []
   | p :: rest ->
     let (k, grp) = p in
     if keqb (key a) k
     then (k, (a :: grp)) :: rest
     else ((key a), (a :: [])) :: ((k, grp) :: rest))

(** val sort_by_bool : ('a1 -> bool) -> 'a1 list -> 'a1 list **)

let sort_by_bool f l =
  app (filter (fun x -> negb (f x)) l) (filter f l)

(** val filter_map : ('a1 -> 'a2 option) -> 'a1 list -> 'a2 list **)

let rec filter_map f = function
| [] -> []
| a :: t ->
  (match f a with
   | Some b -> b :: (filter_map f t)
   | None -> filter_map f t)

(** val dedup_consec : n list -> n list **)

let rec dedup_consec = function
| [] -> []
| a :: t ->
  (match t with
   | [] -> a :: []
   | b :: _ -> if N.eqb a b then dedup_consec t else a :: (dedup_consec t))

(** val insN : n -> n list -> n list **)

let rec insN x l = match l with
| [] -> x :: []
| y :: t -> if N.leb x y then x :: l else y :: (insN x t)

(** val sortN : n list -> n list **)

let sortN l =
  fold_right insN [] l

(** val list_eqb : ('a1 -> 'a1 -> bool) -> 'a1 list -> 'a1 list -> bool **)

let rec list_eqb eqb1 a b =
  match a with
  | [] -> (match b with
           | [] -> true
           | _ :: _ -> false)
  | x :: a' ->
    (match b with
     | [] -> false
     | y :: b' -> (&&) (eqb1 x y) (list_eqb eqb1 a' b'))

(** val out_edges : rgraph -> n -> ((n * n) * redge) list **)

let out_edges g n0 =
  rev0 (filter (fun e -> N.eqb (e_src e) n0) g.g_edges)

(** val in_edges : rgraph -> n -> ((n * n) * redge) list **)

let in_edges g n0 =
  rev0 (filter (fun e -> N.eqb (e_tgt e) n0) g.g_edges)

(** val neighbors : rgraph -> n -> n list **)

let neighbors g n0 =
  map e_tgt (out_edges g n0)

(** val node_at : rgraph -> n -> rnode option **)

let node_at g i =
  nth_error g.g_nodes (N.to_nat i)

(** val node_solvable : rgraph -> n -> n option **)

let node_solvable g i =
  match node_at g i with
  | Some r -> (match r with
               | RSol s -> Some s
               | _ -> None)
  | None -> None

(** val node_indices : rgraph -> n list **)

let node_indices g =
  map N.of_nat (seq O (length g.g_nodes))

(** val n_edges : rgraph -> nat **)

let n_edges g =
  length g.g_edges

(** val dfs_run : rgraph -> nat -> n list -> n list -> n list -> n list **)

let rec dfs_run g fuel stack discovered finished =
  match fuel with
  | O -> []
  | S f ->
    (match stack with
     | [] -> []
     | nx :: rest ->
       if memN nx discovered
       then if memN nx finished
            then dfs_run g f rest discovered finished
            else nx :: (dfs_run g f rest discovered (nx :: finished))
       else let disc' = nx :: discovered in
            let pushes =
              filter (fun s -> negb (memN s disc')) (neighbors g nx)
            in
            dfs_run g f (app (rev0 pushes) stack) disc' finished)

(** val dfs_fuel : rgraph -> nat **)

let dfs_fuel g =
  S (mul (S (n_edges g)) (S (S (n_edges g))))

(** val dfs_post_order : rgraph -> n list **)

let dfs_post_order g =
  dfs_run g (dfs_fuel g) (g.g_root :: []) [] []

(** val req_targets : ((n * n) * redge) list -> (rreq * n) list **)

let req_targets es =
  filter_map (fun e ->
    match edge_req (e_w e) with
    | Some r -> Some (r, (e_tgt e))
    | None -> None) es

(** val req_groups : ((n * n) * redge) list -> (rreq * n list) list **)

let req_groups es =
  map (fun kg -> ((fst kg), (map snd (snd kg))))
    (chunk_by rreq_eqb fst (req_targets es))

(** val installable_step : rgraph -> n list -> n -> n list **)

let installable_step g inst nx =
  if match g.g_unresolved with
     | Some u -> N.eqb u nx
     | None -> false
  then inst
  else if existsb (fun e -> is_excl (e_w e)) (in_edges g nx)
       then inst
       else if existsb (fun e -> is_conflict (e_w e)) (out_edges g nx)
            then inst
            else if forallb (fun kg ->
                      existsb (fun t -> memN t inst) (snd kg))
                      (req_groups (out_edges g nx))
                 then nx :: inst
                 else inst

(** val installable_set : rgraph -> n list **)

let installable_set g =
  fold_left (installable_step g) (dfs_post_order g) []

(** val missing_step : rgraph -> n list -> n -> n list **)

let missing_step g miss nx =
  if existsb (fun e -> is_conflict (e_w e)) (out_edges g nx)
  then miss
  else if existsb (fun kg -> forallb (fun t -> memN t miss) (snd kg))
            (req_groups (out_edges g nx))
       then nx :: miss
       else miss

(** val missing_set : rgraph -> n list **)

let missing_set g =
  match g.g_unresolved with
  | Some u -> fold_left (missing_step g) (dfs_post_order g) (u :: [])
  | None -> []

type display = { disp_solvable : (n -> char list);
                 disp_name : (n -> char list); disp_vs : (n -> char list);
                 disp_string : (n -> char list); sol_name : (n -> n);
                 vs_name : (n -> n); union_members : (n -> n list) }

(** val join : char list -> char list list -> char list **)

let rec join sep = function
| [] -> []
| a :: t ->
  (match t with
   | [] -> a
   | _ :: _ -> append a (append sep (join sep t)))

(** val ins_str : char list -> char list list -> char list list **)

let rec ins_str x l = match l with
| [] -> x :: []
| y :: t -> if leb0 x y then x :: l else y :: (ins_str x t)

(** val sort_str : char list list -> char list list **)

let sort_str l =
  fold_right ins_str [] l

(** val uniq_str : char list list -> char list list -> char list list **)

let rec uniq_str seen = function
| [] -> []
| a :: t ->
  if existsb (eqb0 a) seen
  then uniq_str seen t
  else a :: (uniq_str (a :: seen) t)

(** val show_name_vs : display -> n -> char list **)

let show_name_vs d v =
  append (d.disp_name (d.vs_name v)) (append (' '::[]) (d.disp_vs v))

(** val show_req : display -> rreq -> char list **)

let show_req d = function
| RSingle v -> show_name_vs d v
| RUnion u ->
  join (' '::('|'::(' '::[]))) (map (show_name_vs d) (d.union_members u))

(** val show_merged : display -> n list -> char list **)

let show_merged d ids = match ids with
| [] -> []
| s0 :: _ ->
  append (d.disp_name (d.sol_name s0))
    (append (' '::[])
      (join (' '::('|'::(' '::[])))
        (uniq_str [] (sort_str (map d.disp_solvable ids)))))

type indenter = bool list * bool

(** val ind_new : bool -> indenter **)

let ind_new tli =
  ([], tli)

(** val ind_push_order : indenter -> bool -> indenter **)

let ind_push_order i last =
  ((last :: (fst i)), (snd i))

(** val ind_push : indenter -> indenter **)

let ind_push i =
  ind_push_order i false

(** val ind_set_last : indenter -> indenter **)

let ind_set_last i =
  match fst i with
  | [] -> i
  | _ :: t -> ((true :: t), (snd i))

(** val ind_top : indenter -> bool **)

let ind_top i =
  Nat.eqb (length (fst i)) (S O)

(** val glyph_tee : char list **)

let glyph_tee =
  '\226'::('\148'::('\156'::('\226'::('\148'::('\128'::[])))))

(** val glyph_ell : char list **)

let glyph_ell =
  '\226'::('\148'::('\148'::('\226'::('\148'::('\128'::[])))))

(** val glyph_bar : char list **)

let glyph_bar =
  '\226'::('\148'::('\130'::(' '::[])))

(** val glyph_none : char list **)

let glyph_none =
  ' '::(' '::[])

(** val indent_levels : bool list -> char list **)

let rec indent_levels = function
| [] -> []
| o :: t ->
  (match t with
   | [] -> append (if o then glyph_ell else glyph_tee) (' '::[])
   | _ :: _ ->
     append (if o then glyph_none else glyph_bar)
       (append (' '::[]) (indent_levels t)))

(** val get_indent : indenter -> char list **)

let get_indent i =
  let lv = rev0 (fst i) in indent_levels (if snd i then lv else tl lv)

type version =
| VRoot
| VIds of n list

type lkind =
| LHeader
| LReqMissing of bool * rreq
| LReqInstallable of bool * rreq
| LReqNotInstallable of bool * rreq
| LCandBackref of version
| LCandExcluded of version * n
| LCandLeaf of version
| LCandConflictsAbove of version
| LCandWouldConstrain of version
| LConstrainItem of n
| LCandWouldRequire of version
| LRootConstraint of n
| LRootLocked of n

type line = { l_kind : lkind; l_ind : indenter }

(** val show_version : display -> version -> char list **)

let show_version d = function
| VRoot -> '<'::('r'::('o'::('o'::('t'::('>'::[])))))
| VIds ids -> show_merged d ids

(** val nl : char list **)

let nl =
  (ascii_of_nat (S (S (S (S (S (S (S (S (S (S O)))))))))))::[]

(** val line_text : display -> lkind -> char list **)

let line_text d = function
| LHeader ->
  'T'::('h'::('e'::(' '::('f'::('o'::('l'::('l'::('o'::('w'::('i'::('n'::('g'::(' '::('p'::('a'::('c'::('k'::('a'::('g'::('e'::('s'::(' '::('a'::('r'::('e'::(' '::('i'::('n'::('c'::('o'::('m'::('p'::('a'::('t'::('i'::('b'::('l'::('e'::[]))))))))))))))))))))))))))))))))))))))
| LReqMissing (top, r) ->
  if top
  then append
         ('N'::('o'::(' '::('c'::('a'::('n'::('d'::('i'::('d'::('a'::('t'::('e'::('s'::(' '::('w'::('e'::('r'::('e'::(' '::('f'::('o'::('u'::('n'::('d'::(' '::('f'::('o'::('r'::(' '::[])))))))))))))))))))))))))))))
         (append (show_req d r) ('.'::[]))
  else append (show_req d r)
         (','::(' '::('f'::('o'::('r'::(' '::('w'::('h'::('i'::('c'::('h'::(' '::('n'::('o'::(' '::('c'::('a'::('n'::('d'::('i'::('d'::('a'::('t'::('e'::('s'::(' '::('w'::('e'::('r'::('e'::(' '::('f'::('o'::('u'::('n'::('d'::('.'::[])))))))))))))))))))))))))))))))))))))
| LReqInstallable (top, r) ->
  if top
  then append (show_req d r)
         (' '::('c'::('a'::('n'::(' '::('b'::('e'::(' '::('i'::('n'::('s'::('t'::('a'::('l'::('l'::('e'::('d'::(' '::('w'::('i'::('t'::('h'::(' '::('a'::('n'::('y'::(' '::('o'::('f'::(' '::('t'::('h'::('e'::(' '::('f'::('o'::('l'::('l'::('o'::('w'::('i'::('n'::('g'::(' '::('o'::('p'::('t'::('i'::('o'::('n'::('s'::(':'::[]))))))))))))))))))))))))))))))))))))))))))))))))))))
  else append (show_req d r)
         (','::(' '::('w'::('h'::('i'::('c'::('h'::(' '::('c'::('a'::('n'::(' '::('b'::('e'::(' '::('i'::('n'::('s'::('t'::('a'::('l'::('l'::('e'::('d'::(' '::('w'::('i'::('t'::('h'::(' '::('a'::('n'::('y'::(' '::('o'::('f'::(' '::('t'::('h'::('e'::(' '::('f'::('o'::('l'::('l'::('o'::('w'::('i'::('n'::('g'::(' '::('o'::('p'::('t'::('i'::('o'::('n'::('s'::(':'::[])))))))))))))))))))))))))))))))))))))))))))))))))))))))))))
| LReqNotInstallable (top, r) ->
  if top
  then append (show_req d r)
         (' '::('c'::('a'::('n'::('n'::('o'::('t'::(' '::('b'::('e'::(' '::('i'::('n'::('s'::('t'::('a'::('l'::('l'::('e'::('d'::(' '::('b'::('e'::('c'::('a'::('u'::('s'::('e'::(' '::('t'::('h'::('e'::('r'::('e'::(' '::('a'::('r'::('e'::(' '::('n'::('o'::(' '::('v'::('i'::('a'::('b'::('l'::('e'::(' '::('o'::('p'::('t'::('i'::('o'::('n'::('s'::(':'::[])))))))))))))))))))))))))))))))))))))))))))))))))))))))))
  else append (show_req d r)
         (','::(' '::('w'::('h'::('i'::('c'::('h'::(' '::('c'::('a'::('n'::('n'::('o'::('t'::(' '::('b'::('e'::(' '::('i'::('n'::('s'::('t'::('a'::('l'::('l'::('e'::('d'::(' '::('b'::('e'::('c'::('a'::('u'::('s'::('e'::(' '::('t'::('h'::('e'::('r'::('e'::(' '::('a'::('r'::('e'::(' '::('n'::('o'::(' '::('v'::('i'::('a'::('b'::('l'::('e'::(' '::('o'::('p'::('t'::('i'::('o'::('n'::('s'::(':'::[]))))))))))))))))))))))))))))))))))))))))))))))))))))))))))))))))
| LCandBackref v ->
  append (show_version d v)
    (','::(' '::('w'::('h'::('i'::('c'::('h'::(' '::('i'::('s'::(' '::('a'::('l'::('r'::('e'::('a'::('d'::('y'::(' '::('r'::('e'::('p'::('o'::('r'::('t'::('e'::('d'::(' '::('a'::('b'::('o'::('v'::('e'::('.'::[]))))))))))))))))))))))))))))))))))
| LCandExcluded (v, reason) ->
  append (show_version d v)
    (append
      (' '::('i'::('s'::(' '::('e'::('x'::('c'::('l'::('u'::('d'::('e'::('d'::(' '::('b'::('e'::('c'::('a'::('u'::('s'::('e'::(' '::[])))))))))))))))))))))
      (d.disp_string reason))
| LCandLeaf v -> show_version d v
| LCandConflictsAbove v ->
  append (show_version d v)
    (','::(' '::('w'::('h'::('i'::('c'::('h'::(' '::('c'::('o'::('n'::('f'::('l'::('i'::('c'::('t'::('s'::(' '::('w'::('i'::('t'::('h'::(' '::('t'::('h'::('e'::(' '::('v'::('e'::('r'::('s'::('i'::('o'::('n'::('s'::(' '::('r'::('e'::('p'::('o'::('r'::('t'::('e'::('d'::(' '::('a'::('b'::('o'::('v'::('e'::('.'::[])))))))))))))))))))))))))))))))))))))))))))))))))))
| LCandWouldConstrain v ->
  append (show_version d v)
    (' '::('w'::('o'::('u'::('l'::('d'::(' '::('c'::('o'::('n'::('s'::('t'::('r'::('a'::('i'::('n'::[]))))))))))))))))
| LConstrainItem vs ->
  append (show_name_vs d vs)
    (','::(' '::('w'::('h'::('i'::('c'::('h'::(' '::('c'::('o'::('n'::('f'::('l'::('i'::('c'::('t'::('s'::(' '::('w'::('i'::('t'::('h'::(' '::('a'::('n'::('y'::(' '::('i'::('n'::('s'::('t'::('a'::('l'::('l'::('a'::('b'::('l'::('e'::(' '::('v'::('e'::('r'::('s'::('i'::('o'::('n'::('s'::(' '::('p'::('r'::('e'::('v'::('i'::('o'::('u'::('s'::('l'::('y'::(' '::('r'::('e'::('p'::('o'::('r'::('t'::('e'::('d'::[])))))))))))))))))))))))))))))))))))))))))))))))))))))))))))))))))))
| LCandWouldRequire v ->
  append (show_version d v)
    (' '::('w'::('o'::('u'::('l'::('d'::(' '::('r'::('e'::('q'::('u'::('i'::('r'::('e'::[]))))))))))))))
| LRootConstraint vs ->
  append
    ('t'::('h'::('e'::(' '::('c'::('o'::('n'::('s'::('t'::('r'::('a'::('i'::('n'::('t'::(' '::[])))))))))))))))
    (append (show_name_vs d vs)
      (' '::('c'::('a'::('n'::('n'::('o'::('t'::(' '::('b'::('e'::(' '::('f'::('u'::('l'::('f'::('i'::('l'::('l'::('e'::('d'::[])))))))))))))))))))))
| LRootLocked s ->
  append (show_merged d (s :: []))
    (' '::('i'::('s'::(' '::('l'::('o'::('c'::('k'::('e'::('d'::(','::(' '::('b'::('u'::('t'::(' '::('a'::('n'::('o'::('t'::('h'::('e'::('r'::(' '::('v'::('e'::('r'::('s'::('i'::('o'::('n'::(' '::('i'::('s'::(' '::('r'::('e'::('q'::('u'::('i'::('r'::('e'::('d'::(' '::('a'::('s'::(' '::('r'::('e'::('p'::('o'::('r'::('t'::('e'::('d'::(' '::('a'::('b'::('o'::('v'::('e'::[])))))))))))))))))))))))))))))))))))))))))))))))))))))))))))))

(** val render_line : display -> line -> char list **)

let render_line d l =
  append (get_indent l.l_ind) (append (line_text d l.l_kind) nl)

(** val render_text : display -> line list -> char list **)

let render_text d ls =
  concat [] (map (render_line d) ls)

type mkey = (char list * n list) * n list

(** val mkey_eqb : mkey -> mkey -> bool **)

let mkey_eqb a b =
  (&&)
    ((&&) (eqb0 (fst (fst a)) (fst (fst b)))
      (list_eqb N.eqb (snd (fst a)) (snd (fst b))))
    (list_eqb N.eqb (snd a) (snd b))

(** val merge_key : display -> rgraph -> n -> n -> mkey **)

let merge_key d g i s =
  (((d.disp_name (d.sol_name s)), (sortN (map e_src (in_edges g i)))),
    (sortN (map e_tgt (out_edges g i))))

(** val mm_push :
    mkey -> n -> (mkey * n list) list -> (mkey * n list) list **)

let rec mm_push k v = function
| [] -> (k, (v :: [])) :: []
| p :: t ->
  let (k', vs) = p in
  if mkey_eqb k k'
  then (k', (app vs (v :: []))) :: t
  else (k', vs) :: (mm_push k v t)

(** val maybe_merge : display -> rgraph -> (mkey * n list) list **)

let maybe_merge d g =
  fold_left (fun m i ->
    match node_solvable g i with
    | Some s -> mm_push (merge_key d g i s) s m
    | None -> m) (node_indices g) []

(** val merge_groups : display -> rgraph -> n list list **)

let merge_groups d g =
  map snd (maybe_merge d g)

(** val mc_insert_group : (n * n list) list -> n list -> (n * n list) list **)

let mc_insert_group m ids =
  if Nat.ltb (S O) (length ids)
  then fold_left (fun m0 id -> (id, ids) :: m0) ids m
  else m

(** val simplify_of : n list list -> (n * n list) list **)

let simplify_of groups =
  fold_left mc_insert_group groups []

(** val mc_get : n -> (n * n list) list -> n list option **)

let mc_get s m =
  match find (fun kv -> N.eqb (fst kv) s) m with
  | Some kv -> Some (snd kv)
  | None -> None

(** val simplify : display -> rgraph -> (n * n list) list **)

let simplify d g =
  simplify_of (merge_groups d g)

type dop =
| OpReq of rreq * n list
| OpCand of n

type entry = (dop * indenter) * n list

(** val set_last_first : entry list -> entry list **)

let set_last_first = function
| [] -> []
| e :: t ->
  let (p0, p) = e in let (op, ind) = p0 in ((op, (ind_set_last ind)), p) :: t

type rmode =
| MPreFix
| MPathOnly
| MCurrent

(** val mode_path : rmode -> bool **)

let mode_path = function
| MPreFix -> false
| _ -> true

(** val mode_expanded : rmode -> bool **)

let mode_expanded = function
| MCurrent -> true
| _ -> false

type mstate = n list * n list

(** val group_installable : n list -> n list -> bool **)

let group_installable inst ts =
  existsb (fun t -> memN t inst) ts

(** val req_entries :
    n list -> ((n * n) * redge) list -> indenter -> n list -> entry list **)

let req_entries inst es ind path =
  set_last_first
    (map (fun kg -> (((OpReq ((fst kg), (snd kg))), (ind_push ind)), path))
      (sort_by_bool (fun kg -> group_installable inst (snd kg))
        (req_groups es)))

(** val dedupe : rgraph -> (n * n list) list -> n list -> n list -> n list **)

let rec dedupe g merged seen = function
| [] -> []
| c :: t ->
  (match node_solvable g c with
   | Some s ->
     if memN s seen
     then dedupe g merged seen t
     else c :: (dedupe g merged
                 (match mc_get s merged with
                  | Some ids -> app ids seen
                  | None -> seen) t)
   | None -> dedupe g merged seen t)

(** val cand_entries :
    rgraph -> (n * n list) list -> n list -> indenter -> n list -> entry list **)

let cand_entries g merged cs ind path =
  set_last_first
    (map (fun c -> (((OpCand c), (ind_push ind)), path))
      (dedupe g merged [] cs))

(** val excluded_reason : rgraph -> n -> n option **)

let excluded_reason g c =
  match find (fun e -> is_excl (e_w e)) (out_edges g c) with
  | Some e ->
    (match node_at g (e_tgt e) with
     | Some r0 -> (match r0 with
                   | RExcl r -> Some r
                   | _ -> Some N0)
     | None -> Some N0)
  | None -> None

(** val constrain_lines : indenter -> n list -> line list **)

let rec constrain_lines ind = function
| [] -> []
| v :: t ->
  (match t with
   | [] -> { l_kind = (LConstrainItem v); l_ind = (ind_set_last ind) } :: []
   | _ :: _ ->
     { l_kind = (LConstrainItem v); l_ind = ind } :: (constrain_lines ind t))

(** val step :
    rgraph -> (n * n list) list -> n list -> rmode -> entry -> mstate ->
    (line list * entry list) * mstate **)

let step g merged inst md e st =
  let (p, path) = e in
  let (op, ind) = p in
  (match op with
   | OpReq (r, ts) ->
     let top = ind_top ind in
     let installable = group_installable inst ts in
     let missing =
       match ts with
       | [] -> false
       | t :: l ->
         (match l with
          | [] ->
            (match node_at g t with
             | Some r0 -> (match r0 with
                           | RUnresolved -> true
                           | _ -> false)
             | None -> false)
          | _ :: _ -> false)
     in
     if missing
     then ((({ l_kind = (LReqMissing (top, r)); l_ind = ind } :: []), []), st)
     else if installable
          then ((({ l_kind = (LReqInstallable (top, r)); l_ind =
                 ind } :: []),
                 (cand_entries g merged (filter (fun t -> memN t inst) ts)
                   ind path)), st)
          else ((({ l_kind = (LReqNotInstallable (top, r)); l_ind =
                 ind } :: []), (cand_entries g merged ts ind path)), st)
   | OpCand c ->
     let reported = fst st in
     let expanded = snd st in
     let sid = node_solvable g c in
     if match sid with
        | Some s -> memN s reported
        | None -> false
     then (([], []), st)
     else let m = match sid with
                  | Some s -> mc_get s merged
                  | None -> None in
          let reported' =
            match m with
            | Some ids -> app ids reported
            | None -> reported
          in
          let v =
            match m with
            | Some ids -> VIds ids
            | None ->
              (match sid with
               | Some s -> VIds (s :: [])
               | None -> VRoot)
          in
          let oes = out_edges g c in
          let excl = excluded_reason g c in
          let forbid = existsb (fun e0 -> is_forbid (e_w e0)) oes in
          let con = existsb (fun e0 -> is_con (e_w e0)) oes in
          let would_expand =
            (&&)
              ((&&)
                ((&&) (match excl with
                       | Some _ -> false
                       | None -> true)
                  (match oes with
                   | [] -> false
                   | _ :: _ -> true)) (negb forbid)) (negb con)
          in
          let on_path = (&&) (mode_path md) (memN c path) in
          let probe =
            (&&) ((&&) (negb on_path) (mode_expanded md)) would_expand
          in
          let seen = (&&) probe (memN c expanded) in
          let expanded' =
            if (&&) probe (negb (memN c expanded))
            then c :: expanded
            else expanded
          in
          let st' = (reported', expanded') in
          if (||) on_path seen
          then ((({ l_kind = (LCandBackref v); l_ind = ind } :: []), []), st')
          else (match excl with
                | Some reason ->
                  ((({ l_kind = (LCandExcluded (v, reason)); l_ind =
                    ind } :: []), []), st')
                | None ->
                  (match oes with
                   | [] ->
                     ((({ l_kind = (LCandLeaf v); l_ind = ind } :: []), []),
                       st')
                   | _ :: _ ->
                     if forbid
                     then ((({ l_kind = (LCandConflictsAbove v); l_ind =
                            ind } :: []), []), st')
                     else if con
                          then ((({ l_kind = (LCandWouldConstrain v); l_ind =
                                 ind } :: (constrain_lines (ind_push ind)
                                            (dedup_consec
                                              (filter_map (fun e0 ->
                                                match e_w e0 with
                                                | ECon vs -> Some vs
                                                | _ -> None) oes)))), []),
                                 st')
                          else ((({ l_kind = (LCandWouldRequire v); l_ind =
                                 ind } :: []),
                                 (req_entries inst oes ind
                                   (app path (c :: [])))), st'))))

(** val run :
    rgraph -> (n * n list) list -> n list -> rmode -> nat -> entry list ->
    mstate -> line list option **)

let rec run g merged inst md fuel stack st =
  match stack with
  | [] -> Some []
  | e :: rest ->
    (match fuel with
     | O -> None
     | S f ->
       let (p, st') = step g merged inst md e st in
       let (ls, pushes) = p in
       (match run g merged inst md f (app (rev0 pushes) rest) st' with
        | Some more -> Some (app ls more)
        | None -> None))

(** val init_stack :
    n list -> ((n * n) * redge) list -> bool -> entry list **)

let init_stack inst top_edges tli =
  rev0 (req_entries inst top_edges (ind_new tli) [])

(** val fmt_graph_edges :
    rgraph -> (n * n list) list -> n list -> rmode -> nat ->
    ((n * n) * redge) list -> bool -> line list option **)

let fmt_graph_edges g merged inst md fuel top_edges tli =
  run g merged inst md fuel (init_stack inst top_edges tli) ([], [])

(** val root_conflict_lines : ((n * n) * redge) list -> line list **)

let rec root_conflict_lines = function
| [] -> []
| e :: t ->
  let ind =
    ind_push_order (ind_new true) (match t with
                                   | [] -> true
                                   | _ :: _ -> false)
  in
  (match e_w e with
   | ELock s ->
     { l_kind = (LRootLocked s); l_ind = ind } :: (root_conflict_lines t)
   | ECon vs ->
     { l_kind = (LRootConstraint vs); l_ind = ind } :: (root_conflict_lines t)
   | _ -> root_conflict_lines t)

(** val fmt_display :
    display -> rgraph -> rmode -> nat -> line list option **)

let fmt_display d g md fuel =
  let merged = simplify d g in
  let inst = installable_set g in
  let miss = missing_set g in
  let root_edges = out_edges g g.g_root in
  let top_missing = filter (fun e -> memN (e_tgt e) miss) root_edges in
  let top_conflicts = filter (fun e -> negb (memN (e_tgt e) miss)) root_edges
  in
  (match match top_missing with
         | [] -> Some []
         | _ :: _ -> fmt_graph_edges g merged inst md fuel top_missing false with
   | Some l1 ->
     (match top_conflicts with
      | [] -> Some l1
      | _ :: _ ->
        (match fmt_graph_edges g merged inst md fuel top_conflicts true with
         | Some l2 ->
           Some
             (app l1 ({ l_kind = LHeader; l_ind =
               (ind_new true) } :: (app l2 (root_conflict_lines root_edges))))
         | None -> None))
   | None -> None)

(** val fmt_graph : display -> rgraph -> nat -> line list option **)

let fmt_graph d g fuel =
  fmt_display d g MCurrent fuel

(** val dec : n -> char list **)

let dec n0 =
  NilZero.string_of_uint (N.to_uint n0)

(** val harness_display : n list -> n list -> n list list -> display **)

let harness_display sol_names vs_names unions =
  let sn = fun s ->
    nth (N.to_nat s) sol_names (Npos (XI (XI (XI (XI (XO (XO (XO (XO (XI (XI
      (XI (XO (XO XH))))))))))))))
  in
  { disp_solvable = (fun s ->
  append ('p'::[]) (append (dec (sn s)) (append ('='::('s'::[])) (dec s))));
  disp_name = (fun n0 -> append ('p'::[]) (dec n0)); disp_vs = (fun v ->
  append ('v'::('s'::[])) (dec v)); disp_string = (fun s ->
  append ('s'::('t'::('r'::[]))) (dec s)); sol_name = sn; vs_name = (fun v ->
  nth (N.to_nat v) vs_names N0); union_members = (fun u ->
  nth (N.to_nat u) unions []) }

(** val exec_fuel : nat **)

let exec_fuel =
  Nat.pow (S (S O)) (S (S (S (S (S (S (S (S (S (S (S (S (S (S (S (S (S
    O)))))))))))))))))

(** val render_with : display -> nat -> rgraph -> char list **)

let render_with d fuel g =
  match fmt_graph d g fuel with
  | Some ls -> render_text d ls
  | None ->
    'O'::('U'::('T'::('-'::('O'::('F'::('-'::('F'::('U'::('E'::('L'::[]))))))))))

(** val render_harness :
    n list -> n list -> n list list -> rgraph -> char list **)

let render_harness sol_names vs_names unions g =
  render_with (harness_display sol_names vs_names unions) exec_fuel g

(** val nodupb : n list -> bool **)

let rec nodupb = function
| [] -> true
| a :: t -> (&&) (negb (memN a t)) (nodupb t)

(** val graph_wf : rgraph -> bool **)

let graph_wf g =
  let n0 = N.of_nat (length g.g_nodes) in
  (&&)
    ((&&)
      ((&&)
        ((&&)
          ((&&)
            (forallb (fun e ->
              (&&) (N.ltb (e_src e) n0) (N.ltb (e_tgt e) n0)) g.g_edges)
            (match node_at g g.g_root with
             | Some r -> (match r with
                          | RRoot -> true
                          | _ -> false)
             | None -> false))
          (match g.g_unresolved with
           | Some u ->
             (match node_at g u with
              | Some r -> (match r with
                           | RUnresolved -> true
                           | _ -> false)
              | None -> false)
           | None -> true))
        (forallb (fun i ->
          match node_at g i with
          | Some r ->
            (match r with
             | RRoot -> N.eqb i g.g_root
             | RUnresolved ->
               (match g.g_unresolved with
                | Some u -> N.eqb i u
                | None -> false)
             | _ -> true)
          | None -> true) (node_indices g)))
      (nodupb
        (filter_map (fun nd -> match nd with
                               | RSol s -> Some s
                               | _ -> None) g.g_nodes)))
    (forallb (fun e ->
      match e_w e with
      | EReq r ->
        (match node_at g (e_tgt e) with
         | Some r0 ->
           (match r0 with
            | RUnresolved ->
              Nat.eqb
                (length
                  (filter (fun e' ->
                    (&&) (N.eqb (e_src e') (e_src e))
                      (match e_w e' with
                       | EReq r' -> rreq_eqb r r'
                       | _ -> false)) g.g_edges)) (S O)
            | RExcl _ -> false
            | _ -> true)
         | None -> false)
      | ELock _ -> N.eqb (e_src e) g.g_root
      | ECon _ -> true
      | EForbid -> negb (N.eqb (e_src e) g.g_root)
      | EExcl ->
        (match node_at g (e_tgt e) with
         | Some r -> (match r with
                      | RExcl _ -> true
                      | _ -> false)
         | None -> false)) g.g_edges)

(** val con_count : rgraph -> n -> nat **)

let con_count g c =
  length (filter (fun e -> is_con (e_w e)) (out_edges g c))

(** val con_width : rgraph -> nat **)

let con_width g =
  list_max (map (fun e -> con_count g (e_tgt e)) g.g_edges)

(** val lin_bound : rgraph -> nat **)

let lin_bound g =
  add
    (mul
      (add (S (S (S (S (S (S (S O))))))) (mul (S (S (S O))) (con_width g)))
      (n_edges g)) (S O)
