
val negb : bool -> bool

type nat =
| O
| S of nat

val fst : ('a1 * 'a2) -> 'a1

val snd : ('a1 * 'a2) -> 'a2

val length : 'a1 list -> nat

val app : 'a1 list -> 'a1 list -> 'a1 list

type comparison =
| Eq
| Lt
| Gt

type uint =
| Nil
| D0 of uint
| D1 of uint
| D2 of uint
| D3 of uint
| D4 of uint
| D5 of uint
| D6 of uint
| D7 of uint
| D8 of uint
| D9 of uint

val revapp : uint -> uint -> uint

val rev : uint -> uint

module Little :
 sig
  val double : uint -> uint

  val succ_double : uint -> uint
 end

val add : nat -> nat -> nat

val mul : nat -> nat -> nat

val max : nat -> nat -> nat

type positive =
| XI of positive
| XO of positive
| XH

type n =
| N0
| Npos of positive

module Nat :
 sig
  val add : nat -> nat -> nat

  val mul : nat -> nat -> nat

  val eqb : nat -> nat -> bool

  val leb : nat -> nat -> bool

  val ltb : nat -> nat -> bool

  val pow : nat -> nat -> nat
 end

module Pos :
 sig
  val succ : positive -> positive

  val add : positive -> positive -> positive

  val add_carry : positive -> positive -> positive

  val mul : positive -> positive -> positive

  val compare_cont : comparison -> positive -> positive -> comparison

  val compare : positive -> positive -> comparison

  val eqb : positive -> positive -> bool

  val iter_op : ('a1 -> 'a1 -> 'a1) -> positive -> 'a1 -> 'a1

  val to_nat : positive -> nat

  val of_succ_nat : nat -> positive

  val to_little_uint : positive -> uint

  val to_uint : positive -> uint
 end

module N :
 sig
  val add : n -> n -> n

  val mul : n -> n -> n

  val compare : n -> n -> comparison

  val eqb : n -> n -> bool

  val leb : n -> n -> bool

  val ltb : n -> n -> bool

  val to_nat : n -> nat

  val of_nat : nat -> n

  val to_uint : n -> uint
 end

val zero : char

val one : char

val shift : bool -> char -> char

val ascii_of_pos : positive -> char

val ascii_of_N : n -> char

val ascii_of_nat : nat -> char

val compare0 : char -> char -> comparison

val tl : 'a1 list -> 'a1 list

val nth : nat -> 'a1 list -> 'a1 -> 'a1

val nth_error : 'a1 list -> nat -> 'a1 option

val rev0 : 'a1 list -> 'a1 list

val map : ('a1 -> 'a2) -> 'a1 list -> 'a2 list

val fold_left : ('a1 -> 'a2 -> 'a1) -> 'a2 list -> 'a1 -> 'a1

val fold_right : ('a2 -> 'a1 -> 'a1) -> 'a1 -> 'a2 list -> 'a1

val existsb : ('a1 -> bool) -> 'a1 list -> bool

val forallb : ('a1 -> bool) -> 'a1 list -> bool

val filter : ('a1 -> bool) -> 'a1 list -> 'a1 list

val find : ('a1 -> bool) -> 'a1 list -> 'a1 option

val seq : nat -> nat -> nat list

val list_max : nat list -> nat

val eqb0 : char list -> char list -> bool

val compare1 : char list -> char list -> comparison

val leb0 : char list -> char list -> bool

val append : char list -> char list -> char list

val concat : char list -> char list list -> char list

module NilEmpty :
 sig
  val string_of_uint : uint -> char list
 end

module NilZero :
 sig
  val string_of_uint : uint -> char list
 end

type rnode =
| RRoot
| RSol of n
| RUnresolved
| RExcl of n

type rreq =
| RSingle of n
| RUnion of n

type redge =
| EReq of rreq
| ELock of n
| ECon of n
| EForbid
| EExcl

type rgraph = { g_nodes : rnode list; g_edges : ((n * n) * redge) list;
                g_root : n; g_unresolved : n option }

val e_src : ((n * n) * redge) -> n

val e_tgt : ((n * n) * redge) -> n

val e_w : ((n * n) * redge) -> redge

val memN : n -> n list -> bool

val rreq_eqb : rreq -> rreq -> bool

val edge_req : redge -> rreq option

val is_conflict : redge -> bool

val is_excl : redge -> bool

val is_forbid : redge -> bool

val is_con : redge -> bool

val chunk_by :
  ('a1 -> 'a1 -> bool) -> ('a2 -> 'a1) -> 'a2 list -> ('a1 * 'a2 list) list

val sort_by_bool : ('a1 -> bool) -> 'a1 list -> 'a1 list

val filter_map : ('a1 -> 'a2 option) -> 'a1 list -> 'a2 list

val dedup_consec : n list -> n list

val insN : n -> n list -> n list

val sortN : n list -> n list

val list_eqb : ('a1 -> 'a1 -> bool) -> 'a1 list -> 'a1 list -> bool

val out_edges : rgraph -> n -> ((n * n) * redge) list

val in_edges : rgraph -> n -> ((n * n) * redge) list

val neighbors : rgraph -> n -> n list

val node_at : rgraph -> n -> rnode option

val node_solvable : rgraph -> n -> n option

val node_indices : rgraph -> n list

val n_edges : rgraph -> nat

val dfs_run : rgraph -> nat -> n list -> n list -> n list -> n list

val dfs_fuel : rgraph -> nat

val dfs_post_order : rgraph -> n list

val req_targets : ((n * n) * redge) list -> (rreq * n) list

val req_groups : ((n * n) * redge) list -> (rreq * n list) list

val installable_step : rgraph -> n list -> n -> n list

val installable_set : rgraph -> n list

val missing_step : rgraph -> n list -> n -> n list

val missing_set : rgraph -> n list

type display = { disp_solvable : (n -> char list);
                 disp_name : (n -> char list); disp_vs : (n -> char list);
                 disp_string : (n -> char list); sol_name : (n -> n);
                 vs_name : (n -> n); union_members : (n -> n list) }

val join : char list -> char list list -> char list

val ins_str : char list -> char list list -> char list list

val sort_str : char list list -> char list list

val uniq_str : char list list -> char list list -> char list list

val show_name_vs : display -> n -> char list

val show_req : display -> rreq -> char list

val show_merged : display -> n list -> char list

type indenter = bool list * bool

val ind_new : bool -> indenter

val ind_push_order : indenter -> bool -> indenter

val ind_push : indenter -> indenter

val ind_set_last : indenter -> indenter

val ind_top : indenter -> bool

val glyph_tee : char list

val glyph_ell : char list

val glyph_bar : char list

val glyph_none : char list

val indent_levels : bool list -> char list

val get_indent : indenter -> char list

type version =
| VRoot
| VIds of n list

type lkind =
| LHeader
| LReqMissing of bool * rreq
| LReqInstallable of bool * rreq
| LReqNotInstallable of bool * rreq
| LCandBackref of version
| LCandExcluded of version * n
| LCandLeaf of version
| LCandConflictsAbove of version
| LCandWouldConstrain of version
| LConstrainItem of n
| LCandWouldRequire of version
| LRootConstraint of n
| LRootLocked of n

type line = { l_kind : lkind; l_ind : indenter }

val show_version : display -> version -> char list

val nl : char list

val line_text : display -> lkind -> char list

val render_line : display -> line -> char list

val render_text : display -> line list -> char list

type mkey = (char list * n list) * n list

val mkey_eqb : mkey -> mkey -> bool

val merge_key : display -> rgraph -> n -> n -> mkey

val mm_push : mkey -> n -> (mkey * n list) list -> (mkey * n list) list

val maybe_merge : display -> rgraph -> (mkey * n list) list

val merge_groups : display -> rgraph -> n list list

val mc_insert_group : (n * n list) list -> n list -> (n * n list) list

val simplify_of : n list list -> (n * n list) list

val mc_get : n -> (n * n list) list -> n list option

val simplify : display -> rgraph -> (n * n list) list

type dop =
| OpReq of rreq * n list
| OpCand of n

type entry = (dop * indenter) * n list

val set_last_first : entry list -> entry list

type rmode =
| MPreFix
| MPathOnly
| MCurrent

val mode_path : rmode -> bool

val mode_expanded : rmode -> bool

type mstate = n list * n list

val group_installable : n list -> n list -> bool

val req_entries :
  n list -> ((n * n) * redge) list -> indenter -> n list -> entry list

val dedupe : rgraph -> (n * n list) list -> n list -> n list -> n list

val cand_entries :
  rgraph -> (n * n list) list -> n list -> indenter -> n list -> entry list

val excluded_reason : rgraph -> n -> n option

val constrain_lines : indenter -> n list -> line list

val step :
  rgraph -> (n * n list) list -> n list -> rmode -> entry -> mstate -> (line
  list * entry list) * mstate

val run :
  rgraph -> (n * n list) list -> n list -> rmode -> nat -> entry list ->
  mstate -> line list option

val init_stack : n list -> ((n * n) * redge) list -> bool -> entry list

val fmt_graph_edges :
  rgraph -> (n * n list) list -> n list -> rmode -> nat -> ((n * n) * redge)
  list -> bool -> line list option

val root_conflict_lines : ((n * n) * redge) list -> line list

val fmt_display : display -> rgraph -> rmode -> nat -> line list option

val fmt_graph : display -> rgraph -> nat -> line list option

val dec : n -> char list

val harness_display : n list -> n list -> n list list -> display

val exec_fuel : nat

val render_with : display -> nat -> rgraph -> char list

val render_harness : n list -> n list -> n list list -> rgraph -> char list

val nodupb : n list -> bool

val graph_wf : rgraph -> bool

val con_count : rgraph -> n -> nat

val con_width : rgraph -> nat

val lin_bound : rgraph -> nat
