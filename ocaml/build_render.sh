#!/bin/sh
# Extract the renderer model (coq/Conflict/Render.v) and compile its driver.
# Requires coq/Conflict/Render.vo (make Conflict/Render.vo, or coqc -Q . Resolvo Conflict/Render.v).
set -e
here=$(cd "$(dirname "$0")" && pwd)
mkdir -p "$here/extracted_render" "$here/_build"
cd "$here/extracted_render"
coqc -Q "$here/../coq" Resolvo "$here/../coq/ExtractRender.v" >/dev/null
cp "$here/extracted_render/render.ml" "$here/extracted_render/render.mli" "$here/render_driver.ml" "$here/_build/"
cd "$here/_build"
ocamlfind ocamlopt -w -a -inline 100 render.mli render.ml render_driver.ml -o render_driver
