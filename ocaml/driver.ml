(* Driver for the extracted oracles/checkers. Reads one command per line from
   stdin: "<cmd> <id> <int tokens...>" and prints "<id> <result>" per line.
   All parsing/printing lives here; all judgement lives in the extracted code. *)
open Oracle

let rec pos_of_int i = if i = 1 then XH else if i land 1 = 1 then XI (pos_of_int (i lsr 1)) else XO (pos_of_int (i lsr 1))
let n_of_int i = if i = 0 then N0 else Npos (pos_of_int i)
let rec int_of_pos = function XH -> 1 | XO p -> 2 * int_of_pos p | XI p -> 2 * int_of_pos p + 1
let int_of_n = function N0 -> 0 | Npos p -> int_of_pos p
let rec nat_of_int i = if i = 0 then O else S (nat_of_int (i - 1))

type st = { toks : string array; mutable i : int }
let next s = let t = s.toks.(s.i) in s.i <- s.i + 1; int_of_string t
let nextn s = n_of_int (next s)
let rep s f = let k = next s in List.init k (fun _ -> f s)
let nlist s = rep s nextn
let opt s = let k = next s in if k = 0 then None else Some (n_of_int (k - 1))
let req s = let k = next s in let x = nextn s in if k = 0 then RSingle x else RUnion x

let universe s =
  let sols = rep s (fun s ->
    let name = nextn s in let rank = nextn s in
    let k = next s in
    let deps = if k = 0 then Unknown else (let rs = rep s req in let cs = nlist s in Known (rs, cs)) in
    { s_name = name; s_rank = rank; s_deps = deps }) in
  let vss = rep s (fun s -> let name = nextn s in let m = nlist s in { v_name = name; v_matching = m }) in
  let unions = rep s nlist in
  let pkgs = rep s (fun s ->
    let missing = next s = 1 in
    let cands = nlist s in
    let fav = opt s in let locked = opt s in
    let excl = nlist s in
    let hk = next s in
    let hint = if hk = 0 then HNone else if hk = 1 then HAll else HSome (nlist s) in
    { k_missing = missing; k_cands = cands; k_favored = fav; k_locked = locked; k_excluded = excl; k_hint = hint }) in
  { u_sols = sols; u_vss = vss; u_unions = unions; u_pkgs = pkgs }

let problem s =
  let rs = rep s req in let cs = nlist s in let soft = nlist s in
  { pr_reqs = rs; pr_cons = cs; pr_soft = soft }

let var s = let k = next s in
  if k = 0 then VRoot else if k = 1 then VSol (nextn s) else (let n = nextn s in let j = nextn s in VHelp (n, j))
let lit s = let v = var s in let b = next s = 1 in (v, b)
let clause s =
  let k = next s in
  let kind = match k with
    | 0 -> KRoot
    | 1 -> let p = var s in let r = req s in let cands = rep s nlist in KRequires (p, r, cands)
    | 2 -> KForbid (nextn s)
    | 3 -> let p = var s in let f = nextn s in let v = nextn s in KConstrains (p, f, v)
    | 4 -> let l = nextn s in let o = nextn s in KLock (l, o)
    | 5 -> let x = nextn s in let r = nextn s in KExcluded (x, r)
    | _ -> KLearnt (nlist s) in
  let lits = rep s lit in
  { ck = kind; cl_lits = lits }
let event s = let k = next s in
  if k = 0 then (let l = lit s in let r = nextn s in EvAssign (l, r)) else if k = 1 then EvUndoLast else EvClear
let log s =
  let db = rep s clause in let evs = rep s event in let tr = rep s lit in
  { l_db = db; l_events = evs; l_trail = tr }

let hevent s = let k = next s in
  match k with
  | 0 -> HNext (problem s)
  | 1 -> HCands (nextn s) | 2 -> HCandsEnd (nextn s)
  | 3 -> HDeps (nextn s) | 4 -> HDepsEnd (nextn s)
  | 5 -> HPoll (next s = 1)
  | _ -> HQuiescent
let hist s = rep s hevent

let gnode s = match next s with 0 -> GRoot | 1 -> GSol (nextn s) | 2 -> GUnresolved | _ -> GExcl (nextn s)
let gedge_full s =
  let a = nextn s in let bb = nextn s in
  let e = (match next s with
    | 0 -> ERequires (req s) | 1 -> ELocked (nextn s) | 2 -> EConstrains (nextn s) | 3 -> EForbid | _ -> EExcluded) in
  ((a, bb), e)
let graph s = let ns = rep s gnode in let es = rep s gedge_full in let r = nextn s in
  { g_nodes = ns; g_edges = es; g_root = r }

let optn s = let k = next s in if k = 0 then None else Some (n_of_int (k - 1))
let task s = match next s with
  | 0 -> TDeps (optn s)
  | 1 -> TCands (nextn s)
  | 2 -> let so = optn s in let r = req s in TReq (so, r)
  | _ -> let so = optn s in let v = nextn s in TCon (so, v)
let sev s = match next s with
  | 0 -> SEncode (rep s optn)
  | 1 -> SSoft (nextn s)
  | 2 -> STrail (event s)
  | _ -> SDone (task s)
let pcall s = match next s with
  | 0 -> CCands (nextn s) | 1 -> CDeps (nextn s)
  | 2 -> let v = nextn s in let i = next s = 1 in CFilter (v, i)
  | _ -> CSort (nlist s)

let levent s = match next s with
  | 0 -> let l = lit s in let lv = nextn s in let r = nextn s in LAssign (l, lv, r)
  | 1 -> LUndoLast
  | 2 -> LUndoUntil (nextn s)
  | _ -> LSoft

let devent s = match next s with
  | 0 -> let l = lit s in let r = nextn s in DAssign (l, r)
  | 1 -> DUndoLast
  | 2 -> DUndoUntil (nextn s)
  | 3 -> DDecide (nextn s)
  | _ -> DOther

let pevent s = match next s with
  | 0 -> let l = lit s in let lv = nextn s in let r = nextn s in PEAssign (l, lv, r)
  | 1 -> PEUndoLast
  | 2 -> PEUndoUntil (nextn s)
  | 3 -> let lv = nextn s in let n = nextn s in PEPropagate (lv, n)
  | 4 -> PEResult (optn s)
  | _ -> PEOther
let owatch s = let k = next s in if k = 0 then None else (let a = lit s in let b = lit s in Some (a, b))

let b x = if x then "1" else "0"
let plist l = String.concat " " (List.map (fun x -> string_of_int (int_of_n x)) l)
let polist = function None -> "none" | Some l -> "some " ^ plist l

(* diagnostics only: index of the first clause that is neither a fact nor a certified learnt clause *)
let bad_clause u p lg =
  let db = lg.l_db in
  let up = table_provider u in
  let rec go i pre = function
    | [] -> "-"
    | c :: t ->
      let ok = (match c.ck with KLearnt _ -> learnt_okb pre c | _ -> factb up p (db_idx db) c) in
      if ok then go (i + 1) (pre @ [c]) t else string_of_int i in
  go 0 [] db

let () =
  try
    while true do
      let line = input_line stdin in
      let toks = Array.of_list (List.filter (fun x -> x <> "") (String.split_on_char ' ' line)) in
      if Array.length toks >= 2 then begin
        let cmd = toks.(0) and id = toks.(1) in
        let s = { toks; i = 2 } in
        let out =
          try
            match cmd with
            | "sat" ->
              (* U P S -> valid supported *)
              let u = universe s in let p = problem s in let sel = nlist s in
              Printf.sprintf "%s %s" (b (o_valid u p sel)) (b (o_supported u p sel))
            | "ref" ->
              (* U P -> solvable | greedy | explicit-first *)
              let u = universe s in let p = problem s in
              Printf.sprintf "%s | %s | %s" (b (o_solvable u p)) (polist (o_greedy u p)) (polist (o_explicit_first u p))
            | "soft" ->
              (* U P observed-solution -> none | some x1 x2 ... (soft solvables that must be accepted) *)
              let u = universe s in let p = problem s in let obs = nlist s in
              (match o_soft_expect u p obs with
               | None -> "none"
               | Some l -> "some " ^ plist (List.map fst l))
            | "hist" ->
              (* U history -> causal once eager cancel-quiet *)
              let u = universe s in let h = hist s in
              let up = table_provider u in
              Printf.sprintf "%s %s %s %s" (b (causalb up [] [] h)) (b (onceb [] [] [] [] h)) (b (eagerb up [] [] h)) (b (cancel_quietb false h))
            | "exact" ->
              (* U P history -> none | 0/1 : exactly the needed metadata when the greedy selection exists *)
              let u = universe s in let p = problem s in let h = hist s in
              (match o_greedy u p with
               | None -> "none"
               | Some g -> b (exactb (table_provider u) p g h))
            | "exactn" ->
              (* U P earlier-history current-history -> none | 0/1 : a later solve on the same solver requests only what the
                 greedy selection of its problem needs, and everything it needs was requested now or before *)
              let u = universe s in let p = problem s in let hp = hist s in let hc = hist s in
              (match o_greedy u p with
               | None -> "none"
               | Some g -> b (exact_nextb (table_provider u) p g hp hc))
            | "graph" ->
              (* U P graph -> truthful reachable refutes *)
              let u = universe s in let p = problem s in let g = graph s in
              let up = table_provider u in
              Printf.sprintf "%s %s %s" (b (truthfulb up p g)) (b (reachableb g)) (b (refutesb up g))
            | "gbuild" ->
              (* U db core graph -> model graph equals the implementation's graph [model nodes edges] *)
              let u = universe s in let db = rep s clause in let core = nlist s in let g = graph s in
              let up = table_provider u in
              let m = build_graph up (core_clauses db core) in
              Printf.sprintf "%s %d %d" (b (check_graph_build up db core g)) (List.length m.g_nodes) (List.length m.g_edges)
            | "core" ->
              (* log core-ids -> core clause set (with the root) is unsatisfiable *)
              let lg = log s in let core = nlist s in
              b (check_core lg.l_db core)
            | "enc" ->
              (* U P sevs db calls trail issat ->
                 clauses-equal calls-equal calls-equal-as-multiset all-completed fifo req-true trail-equal final-ok [model sizes] *)
              let u = universe s in let p = problem s in
              let evs = rep s sev in let db = rep s clause in let calls = rep s pcall in
              let trail = rep s lit in let issat = next s = 1 in
              let up = table_provider u in
              let ((c1, c2), c3) = check_encoder up p evs db calls in
              let ((f1, f2), f3) = check_encoder_final up p evs trail in
              let fifo = fifo_ok up p (estate0 cache0) [] [] evs in
              let quiet = quiet_ok up p (estate0 cache0) [] [] evs in
              let asrt = assert_ok up p (estate0 cache0) [] [] evs in
              (match enc_run up p (estate0 cache0) [] [] evs with
               | Some (st, _) ->
                 (* asynchronous runs: get_candidates / get_dependencies requests as a multiset (concurrent queries of
                    one version set may repeat filter/sort in the implementation; no property forbids that) *)
                 let cd = List.filter (function CCands _ | CDeps _ -> true | _ -> false) in
                 let perm = List.sort compare (cd calls) = List.sort compare (cd st.e_calls) in
                 Printf.sprintf "%s %s %s %s %s %s %s %s %d %d %s %s" (b c1) (b c2) (b perm) (b c3) (b fifo) (b f1) (b f2)
                   (b (f3 || not issat)) (List.length st.e_db) (List.length st.e_calls) (b quiet) (b asrt)
               | None -> "0 0 0 0 0 0 0 0 -1 -1 0 0")
            | "watch" ->
              (* U P sevs reported-conflicts registered-assertions (positions among the encoder's clauses) ->
                 conflicts-equal assertions-equal side-conditions-hold *)
              let u = universe s in let p = problem s in let evs = rep s sev in
              let conf = nlist s in let asrt = nlist s in
              let ((c1, c2), c3) = check_watch (table_provider u) p evs conf asrt in
              Printf.sprintf "%s %s %s" (b c1) (b c2) (b c3)
            | "enc2" ->
              (* U P1 sevs1 P2 sevs2 db2 calls2 trail2 issat2 -> for the SECOND solve on the same solver (cache left by the first):
                 clauses-equal calls-equal all-completed fifo req-true trail-equal final-ok no-repeat [model sizes] *)
              let u = universe s in let p1 = problem s in let evs1 = rep s sev in
              let p2 = problem s in let evs2 = rep s sev in let db = rep s clause in let calls = rep s pcall in
              let trail = rep s lit in let issat = next s = 1 in
              let up = table_provider u in
              (match enc_run up p1 (estate0 cache0) [] [] evs1 with
               | Some (st1, _) ->
                 let c1 = st1.e_cache in
                 let ((a1, a2), a3) = check_encoder_from c1 up p2 evs2 db calls in
                 let ((f1, f2), f3) = check_encoder_final_from c1 up p2 evs2 trail in
                 let fifo = fifo_ok up p2 (estate0 c1) [] [] evs2 in
                 (* nothing of the first solve is requested again (candidates / dependencies / filter) *)
                 let key = function CSort _ -> false | _ -> true in
                 let norepeat = List.for_all (fun k -> not (key k) || not (List.mem k st1.e_calls)) calls in
                 (match enc_run up p2 (estate0 c1) [] [] evs2 with
                  | Some (st2, _) ->
                    Printf.sprintf "%s %s %s %s %s %s %s %s %d %d" (b a1) (b a2) (b a3) (b fifo) (b f1) (b f2) (b (f3 || not issat))
                      (b norepeat) (List.length st2.e_db) (List.length st2.e_calls)
                  | None -> "0 0 0 0 0 0 0 0 -1 -1")
               | None -> "0 0 0 0 0 0 0 0 -2 -2")
            | "analyses" ->
              (* db levents -> number-of-analyses all-equal-to-the-model *)
              let db = rep s clause in let evs = rep s levent in
              let (n, ok) = check_analyses db evs in
              Printf.sprintf "%d %s" (int_of_n n) (b ok)
            | "solver" ->
              (* U P fuel efuel [0 | 1 completion-order] kind result levents db calls ->
                 model-outcome outcome-equal log-equal db-equal calls-equal agreeing-prefix *)
              let u = universe s in let p = problem s in
              let fuel = nat_of_int (next s) in let efuel = nat_of_int (next s) in
              let order = if next s = 0 then None else Some (rep s task) in
              let kind = nextn s in let res = nlist s in
              let evs = rep s levent in let db = rep s clause in let calls = rep s pcall in
              let ((((((((oc, oeq), leq), deq), ceq), pre), sok), born), cperm) = check_solver (table_provider u) p fuel efuel order kind res evs db calls in
              Printf.sprintf "%d %s %s %s %s %d %s %d %s" (int_of_n oc) (b oeq) (b leq) (b deq) (b ceq) (int_of_n pre) (b sok) (int_of_n born) (b cperm)
            | "propagates" ->
              (* db initial-watches asserted-clause-ids pevents -> calls-compared assignments-compared all-equal *)
              let db = rep s clause in let init = rep s owatch in let asserted = nlist s in let evs = rep s pevent in
              let ((((nc, na), ok), hyp), nbad) = check_propagates db init asserted evs in
              Printf.sprintf "%d %d %s %s %d" (int_of_n nc) (int_of_n na) (b ok) (b hyp) (int_of_n nbad)
            | "decides" ->
              (* U db devents -> number-of-decide-calls all-equal-to-the-model (default activity parameters) *)
              let u = universe s in let db = rep s clause in let evs = rep s devent in
              let ((n, ok), cok) = check_decides_default (table_provider u) db evs in
              Printf.sprintf "%d %s %s" (int_of_n n) (b ok) (b cok)
            | "softkeep" ->
              (* levents -> nothing decided before a soft requirement was tried is ever undone *)
              let evs = rep s levent in b (soft_keep evs)
            | "unsolv" ->
              (* db levents conf core -> conflict-equals-the-model side-conditions-of-core_unsat *)
              let db = rep s clause in let evs = rep s levent in
              let conf = nextn s in let core = nlist s in
              let (eq, ok) = check_unsolvable db evs conf core in
              Printf.sprintf "%s %s" (b eq) (b ok)
            | "logsat" ->
              (* U P log sol -> db-ok run-ok sat-ok [first bad clause index | -] *)
              let u = universe s in let p = problem s in let lg = log s in let sol = nlist s in
              let dbok = check_db u p lg in
              let runok = (match check_run p lg with Some _ -> true | None -> false) in
              let satok = check_sat_log u p lg sol in
              let lenok = check_sat_log_lenient u p lg sol in
              Printf.sprintf "%s %s %s %s %s" (b dbok) (b runok) (b satok) (b lenok) (bad_clause u p lg)
            | "logunsat" ->
              let u = universe s in let p = problem s in let lg = log s in
              let dbok = check_db u p lg in
              let runok = (match check_run p lg with Some _ -> true | None -> false) in
              let unsatok = check_unsat_log u p lg in
              Printf.sprintf "%s %s %s %s" (b dbok) (b runok) (b unsatok) (bad_clause u p lg)
            | _ -> "error unknown-command"
          with e -> "error " ^ Printexc.to_string e in
        print_string id; print_char ' '; print_endline out
      end
    done
  with End_of_file -> ()
