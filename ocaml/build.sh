#!/bin/sh
# Extract the verified oracles/checkers and compile the driver.
set -e
here=$(cd "$(dirname "$0")" && pwd)
mkdir -p "$here/extracted" "$here/_build"
cd "$here/extracted"
coqc -Q "$here/../coq" Resolvo "$here/../coq/Extract.v" >/dev/null
cp "$here/extracted/"*.ml "$here/extracted/"*.mli "$here/driver.ml" "$here/_build/"
cd "$here/_build"
ocamlfind ocamlopt -w -a -inline 100 oracle.mli oracle.ml driver.ml -o driver
