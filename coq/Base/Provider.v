(* Base/Provider.v -- the dependency provider as the solver sees it.

   Ids are [N].  A provider is a record of total functions: theorems stated
   over [provider] hold for every provider, not only table-driven ones.  The
   executable instance [table_provider] is the same table the Rust harness
   implements (harness/src/universe.rs), serialised by the harness into both. *)
From Coq Require Export List Arith NArith Bool Lia.
Export ListNotations.
Open Scope N_scope.

Inductive req := RSingle (v : N) | RUnion (u : N).
Inductive deps := Known (reqs : list req) (cons : list N) | Unknown.
Inductive hint := HNone | HAll | HSome (l : list N).

Record provider := mkProvider {
  p_sol_name : N -> N;              (* Interner::solvable_name *)
  p_deps     : N -> deps;           (* get_dependencies *)
  p_vs_name  : N -> N;              (* Interner::version_set_name *)
  p_match    : N -> N -> bool;      (* filter_candidates as a predicate: vs, solvable *)
  p_union    : N -> list N;         (* version_sets_in_union, in listed order *)
  p_cands    : N -> list N;         (* get_candidates(..).candidates; [] if None *)
  p_favored  : N -> option N;
  p_locked   : N -> option N;
  p_excluded : N -> list N;         (* solvables of Candidates::excluded *)
  p_hint     : N -> hint;
  p_sort     : list N -> list N     (* sort_candidates *)
}.

Record problem := mkProblem {
  pr_reqs : list req;
  pr_cons : list N;
  pr_soft : list N
}.

Definition req_eqb (a b : req) : bool :=
  match a, b with
  | RSingle x, RSingle y => N.eqb x y
  | RUnion x, RUnion y => N.eqb x y
  | _, _ => false
  end.

Lemma req_eqb_eq a b : req_eqb a b = true <-> a = b.
Proof.
  destruct a, b; simpl; rewrite ?N.eqb_eq; split; intro H;
    try congruence; try discriminate; inversion H; reflexivity.
Qed.

Definition memN (x : N) (l : list N) : bool := existsb (N.eqb x) l.

Lemma memN_In x l : memN x l = true <-> In x l.
Proof.
  unfold memN. rewrite existsb_exists. split.
  - intros [y [Hy He]]. apply N.eqb_eq in He. subst. exact Hy.
  - intro H. exists x. split; [exact H | apply N.eqb_refl].
Qed.

Lemma memN_false x l : memN x l = false <-> ~ In x l.
Proof.
  rewrite <- memN_In. destruct (memN x l); split; intro H; try reflexivity;
    try discriminate; try (intro; discriminate). exfalso. apply H. reflexivity.
Qed.

(* ---------- table-driven universes (what the harness generates) ---------- *)

Record sol := mkSol { s_name : N; s_rank : N; s_deps : deps }.
Record vset := mkVs { v_name : N; v_matching : list N }.
Record pkg := mkPkg {
  k_missing : bool; k_cands : list N; k_favored : option N; k_locked : option N;
  k_excluded : list N; k_hint : hint }.
Record universe := mkU {
  u_sols : list sol; u_vss : list vset; u_unions : list (list N); u_pkgs : list pkg }.

Definition nthN {A} (l : list A) (i : N) : option A := nth_error l (N.to_nat i).

Definition u_sol (u : universe) (s : N) : option sol := nthN (u_sols u) s.
Definition u_vs (u : universe) (v : N) : option vset := nthN (u_vss u) v.
Definition u_pkg (u : universe) (n : N) : option pkg := nthN (u_pkgs u) n.

(* Stable insertion sort by rank = Rust's [sort_by_key]: [x] precedes all of [t]
   in the input, so it is placed before the first element whose rank is >= its
   own. *)
Fixpoint insert_stable (rank : N -> N) (x : N) (l : list N) : list N :=
  match l with
  | [] => [x]
  | y :: t => if N.leb (rank x) (rank y) then x :: l else y :: insert_stable rank x t
  end.
Fixpoint sort_stable (rank : N -> N) (l : list N) : list N :=
  match l with
  | [] => []
  | x :: t => insert_stable rank x (sort_stable rank t)
  end.

Definition table_provider (u : universe) : provider :=
  let rank s := match u_sol u s with Some x => s_rank x | None => 0 end in
  {| p_sol_name := fun s => match u_sol u s with Some x => s_name x | None => 0 end;
     p_deps := fun s => match u_sol u s with Some x => s_deps x | None => Unknown end;
     p_vs_name := fun v => match u_vs u v with Some x => v_name x | None => 0 end;
     p_match := fun v s => match u_vs u v with Some x => memN s (v_matching x) | None => false end;
     p_union := fun i => match nthN (u_unions u) i with Some l => l | None => [] end;
     p_cands := fun n => match u_pkg u n with
                         | Some k => if k_missing k then [] else k_cands k | None => [] end;
     p_favored := fun n => match u_pkg u n with
                         | Some k => if k_missing k then None else k_favored k | None => None end;
     p_locked := fun n => match u_pkg u n with
                         | Some k => if k_missing k then None else k_locked k | None => None end;
     p_excluded := fun n => match u_pkg u n with
                         | Some k => if k_missing k then [] else k_excluded k | None => [] end;
     p_hint := fun n => match u_pkg u n with
                         | Some k => if k_missing k then HNone else k_hint k | None => HNone end;
     p_sort := sort_stable rank |}.
