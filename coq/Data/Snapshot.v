(* Data/Snapshot.v -- executable model of src/snapshot.rs (CURRENT code, i.e.
   after the repairs of F1 / F2 / F9) and its correctness theorems.

   [capture] models DependencySnapshot::from_provider: a breadth-first closure
   over packages / version sets / solvables starting from the seed lists, then
   the computation of the [order] of every solvable by iterating the captured
   packages (Mapping::iter) and sorting each candidate list with the provider.
   [snapshot_provider] models SnapshotProvider (the DependencyProvider
   implementation over a snapshot plus the additional version sets created by
   add_package_requirement).

   Not modelled: display strings and the [strings] table (they do not take part
   in solving; add_package_requirement is modelled for the matcher "*" only),
   timeouts.  Lookups of ids that were never captured panic in the Rust code
   ("missing solvable" ...); the model returns a default there and every
   theorem speaks about captured ids only.  HashSet fields are modelled by
   their canonical form (ascending, duplicate free): that is what the code
   observably uses ([contains] for matching candidates, [.sorted()] for union
   members). *)
From Coq Require Import List Arith NArith Bool Lia Sorting.Sorted Sorting.Permutation.
From Resolvo Require Import Base.Provider Spec.Spec Data.Mapping.
Import ListNotations.
Open Scope N_scope.

(* ------------------------------------------------------------------ *)
(* helpers on Mapping *)

Lemma ins_get {V} (m : mapping V) id v : Inv m ->
  Inv (fst (insert m id v)) /\
  (forall j, get (fst (insert m id v)) j = if N.eqb j id then Some v else get m j).
Proof.
  intro H. pose proof (insert_spec m id v H) as Hs.
  destruct (insert m id v) as [m' r]. cbn [fst]. destruct Hs as [A [_ B]]. split; assumption.
Qed.

(* [maxid] is attained (no unset ever happens on a snapshot) *)
Definition Tight {V} (m : mapping V) : Prop := maxid m = 0 \/ store m (maxid m) <> None.

Lemma new_tight {V} n : Tight (@with_capacity V n).
Proof. left. reflexivity. Qed.

Lemma ins_tight {V} (m : mapping V) id v : Tight m -> Tight (fst (insert m id v)).
Proof.
  intro H. unfold Tight, insert. cbn [fst maxid store].
  destruct (N.eqb (N.max (maxid m) id) id) eqn:E.
  - right. congruence.
  - apply N.eqb_neq in E. assert (Hm : N.max (maxid m) id = maxid m) by lia.
    rewrite Hm. destruct H as [H|H]; [lia|]. right.
    destruct (N.eqb (maxid m) id) eqn:E2; [congruence | exact H].
Qed.

(* ------------------------------------------------------------------ *)
(* canonical form of a set of ids: ascending, duplicate free *)

Fixpoint uinsert (x : N) (l : list N) : list N :=
  match l with
  | [] => [x]
  | y :: t => if N.ltb x y then x :: l else if N.eqb x y then l else y :: uinsert x t
  end.

Definition usort (l : list N) : list N := fold_right uinsert [] l.

Lemma uinsert_In x l z : In z (uinsert x l) <-> z = x \/ In z l.
Proof.
  induction l as [|y t IH]; simpl.
  - split; intros [H|H]; auto; try contradiction.
  - destruct (N.ltb x y) eqn:E1; [simpl; split; intros [H|H]; auto|].
    destruct (N.eqb x y) eqn:E2.
    + apply N.eqb_eq in E2. subst. simpl. split; [intros [H|H]; auto | intros [H|[H|H]]; subst; auto].
    + simpl. rewrite IH. split; [intros [H|[H|H]]; auto | intros [H|[H|H]]; auto].
Qed.

Lemma usort_In l z : In z (usort l) <-> In z l.
Proof.
  induction l as [|x t IH]; simpl; [tauto|]. rewrite uinsert_In, IH. split; intros [H|H]; auto.
Qed.

Lemma uinsert_sorted x l : StronglySorted N.lt l -> StronglySorted N.lt (uinsert x l).
Proof.
  induction 1 as [|y t Hs IH Hall]; simpl; [constructor; constructor|].
  destruct (N.ltb x y) eqn:E1.
  - apply N.ltb_lt in E1. constructor; [constructor; assumption|].
    constructor; [exact E1|]. rewrite Forall_forall in *. intros z Hz. specialize (Hall z Hz). lia.
  - destruct (N.eqb x y) eqn:E2; [constructor; assumption|].
    apply N.ltb_ge in E1. apply N.eqb_neq in E2. constructor; [exact IH|].
    rewrite Forall_forall in *. intros z Hz. apply uinsert_In in Hz. destruct Hz as [Hz|Hz]; [subst; lia|auto].
Qed.

Lemma usort_sorted l : StronglySorted N.lt (usort l).
Proof. induction l; simpl; [constructor | apply uinsert_sorted; assumption]. Qed.

Lemma usort_id l : StronglySorted N.lt l -> usort l = l.
Proof.
  induction 1 as [|y t Hs IH Hall]; simpl; [reflexivity|]. rewrite IH.
  destruct t as [|z t']; [reflexivity|]. simpl.
  inversion Hall as [|? ? Hyz _]. subst. apply N.ltb_lt in Hyz. rewrite Hyz. reflexivity.
Qed.

Lemma memN_usort s l : memN s (usort l) = memN s l.
Proof.
  destruct (memN s l) eqn:E.
  - apply memN_In. apply usort_In. apply memN_In. exact E.
  - apply memN_false. rewrite usort_In. apply memN_false. exact E.
Qed.

(* ------------------------------------------------------------------ *)
(* the snapshot *)

(* snapshot::Solvable / VersionSet / Package (display strings omitted) *)
Record ssol := mkSSol { ss_name : N; ss_order : N; ss_deps : deps; ss_hint : bool }.
Record svs := mkSVs { sv_name : N; sv_matching : list N }.
Record spkg := mkSPkg { sp_solvables : list N; sp_excluded : list N }.

Record snapshot := mkSnap {
  sn_sols : mapping ssol;
  sn_unions : mapping (list N);
  sn_vss : mapping svs;
  sn_pkgs : mapping spkg
}.

Definition empty_snapshot : snapshot := mkSnap new new new new.

Inductive elem := EPkg (n : N) | EVs (v : N) | ESol (s : N).

Definition elem_eqb (a b : elem) : bool :=
  match a, b with
  | EPkg x, EPkg y | EVs x, EVs y | ESol x, ESol y => N.eqb x y
  | _, _ => false
  end.

Lemma elem_eqb_eq a b : elem_eqb a b = true <-> a = b.
Proof.
  destruct a, b; simpl; rewrite ?N.eqb_eq; split; intro H; try congruence; try discriminate;
    inversion H; reflexivity.
Qed.

Definition mem_elem (e : elem) (l : list elem) : bool := existsb (elem_eqb e) l.

Lemma mem_elem_In e l : mem_elem e l = true <-> In e l.
Proof.
  unfold mem_elem. rewrite existsb_exists. split.
  - intros [y [Hy He]]. apply elem_eqb_eq in He. subst. exact Hy.
  - intro H. exists e. split; [exact H | apply elem_eqb_eq; reflexivity].
Qed.

Lemma mem_elem_false e l : mem_elem e l = false <-> ~ In e l.
Proof.
  rewrite <- mem_elem_In. destruct (mem_elem e l); split; intro H; try reflexivity;
    try discriminate; try (intro; discriminate). exfalso. apply H. reflexivity.
Qed.

(* `if seen.insert(x) { queue.push_back(x) }` for every x of a list *)
Fixpoint push_all (es q seen : list elem) : list elem * list elem :=
  match es with
  | [] => (q, seen)
  | e :: t => if mem_elem e seen then push_all t q seen else push_all t (q ++ [e]) (e :: seen)
  end.

Section Capture.
Variable U : provider.

Definition req_elems (r : req) : list elem :=
  match r with RSingle v => [EVs v] | RUnion u => map EVs (usort (p_union U u)) end.

Definition deps_elems (d : deps) : list elem :=
  match d with Unknown => [] | Known rs cs => map EVs cs ++ flat_map req_elems rs end.

(* what the processing of a queue element discovers, in the order of the code *)
Definition succ (e : elem) : list elem :=
  match e with
  | EPkg n => map ESol (p_cands U n) ++ map ESol (p_excluded U n)
  | ESol s => EPkg (p_sol_name U s) :: deps_elems (p_deps U s)
  | EVs v => EPkg (p_vs_name U v) :: map ESol (matching U v)
  end.

Definition pkg_entry (n : N) : spkg := mkSPkg (p_cands U n) (p_excluded U n).
(* hint_dependencies_available := cache.are_dependencies_available_for(s), asked
   right after get_or_cache_dependencies(s): always true in the current code *)
Definition sol_entry (s : N) : ssol := mkSSol (p_sol_name U s) 0 (p_deps U s) true.
Definition vs_entry (v : N) : svs := mkSVs (p_vs_name U v) (usort (matching U v)).
Definition union_entry (u : N) : list N := usort (p_union U u).

Definition union_ins (m : mapping (list N)) (r : req) : mapping (list N) :=
  match r with RUnion u => fst (insert m u (union_entry u)) | RSingle _ => m end.

Definition union_inserts (d : deps) (m : mapping (list N)) : mapping (list N) :=
  match d with Unknown => m | Known rs _ => fold_left union_ins rs m end.

Definition record (e : elem) (sn : snapshot) : snapshot :=
  match e with
  | EPkg n => mkSnap (sn_sols sn) (sn_unions sn) (sn_vss sn) (fst (insert (sn_pkgs sn) n (pkg_entry n)))
  | ESol s => mkSnap (fst (insert (sn_sols sn) s (sol_entry s)))
                     (union_inserts (p_deps U s) (sn_unions sn)) (sn_vss sn) (sn_pkgs sn)
  | EVs v => mkSnap (sn_sols sn) (sn_unions sn) (fst (insert (sn_vss sn) v (vs_entry v))) (sn_pkgs sn)
  end.

(* the `while let Some(element) = queue.pop_front()` loop *)
Fixpoint bfs (fuel : nat) (q seen : list elem) (sn : snapshot) : option snapshot :=
  match q with
  | [] => Some sn
  | e :: q' =>
    match fuel with
    | O => None
    | S f => let '(q2, seen2) := push_all (succ e) q' seen in bfs f q2 seen2 (record e sn)
    end
  end.

(* "Compute the order of the solvables" *)
Definition set_order (m : mapping ssol) (s k : N) : mapping ssol :=
  match get m s with
  | Some x => fst (insert m s (mkSSol (ss_name x) k (ss_deps x) (ss_hint x)))
  | None => m    (* .expect("missing solvable"): excluded by [set_orders_spec] *)
  end.

Fixpoint set_orders (m : mapping ssol) (l : list N) (k : N) : mapping ssol :=
  match l with
  | [] => m
  | s :: t => set_orders (set_order m s k) t (k + 1)
  end.

Definition order_step (m : mapping ssol) (np : N * spkg) : mapping ssol :=
  set_orders m (p_sort U (sp_solvables (snd np))) 0.

Definition assign_orders_with (it : mapping spkg -> list (N * spkg)) (sn : snapshot) : snapshot :=
  mkSnap (fold_left order_step (it (sn_pkgs sn)) (sn_sols sn)) (sn_unions sn) (sn_vss sn) (sn_pkgs sn).

Definition assign_orders := assign_orders_with iter.

Definition seeds (names vss sols : list N) : list elem :=
  map EPkg names ++ map EVs vss ++ map ESol sols.

(* DependencySnapshot::from_provider; [None] = out of fuel *)
Definition capture (fuel : nat) (names vss sols : list N) : option snapshot :=
  let q := seeds names vss sols in
  match bfs fuel q q empty_snapshot with
  | Some sn => Some (assign_orders sn)
  | None => None
  end.

(* the same with the Mapping iterator as it was before the repair of F1 *)
Definition capture_pre_fix (fuel : nat) (names vss sols : list N) : option snapshot :=
  let q := seeds names vss sols in
  match bfs fuel q q empty_snapshot with
  | Some sn => Some (assign_orders_with iter_pre_fix sn)
  | None => None
  end.

End Capture.

(* ------------------------------------------------------------------ *)
(* SnapshotProvider *)

Definition first_add (sn : snapshot) : N := maxid (sn_vss sn) + 1.

(* SnapshotProvider::version_set *)
Definition vs_lookup (sn : snapshot) (adds : list svs) (v : N) : option svs :=
  if N.leb (first_add sn) v then nth_error adds (N.to_nat (v - first_add sn))
  else get (sn_vss sn) v.

Definition order_of (sn : snapshot) (s : N) : N :=
  match get (sn_sols sn) s with Some x => ss_order x | None => 0 end.

Definition hint_of (sn : snapshot) (s : N) : bool :=
  match get (sn_sols sn) s with Some x => ss_hint x | None => false end.

Definition sn_cands (sn : snapshot) (n : N) : list N :=
  match get (sn_pkgs sn) n with Some k => sp_solvables k | None => [] end.

Definition snapshot_provider (sn : snapshot) (adds : list svs) : provider :=
  {| p_sol_name := fun s => match get (sn_sols sn) s with Some x => ss_name x | None => 0 end;
     p_deps := fun s => match get (sn_sols sn) s with Some x => ss_deps x | None => Unknown end;
     p_vs_name := fun v => match vs_lookup sn adds v with Some x => sv_name x | None => 0 end;
     p_match := fun v s => match vs_lookup sn adds v with
                           | Some x => memN s (sv_matching x) | None => false end;
     p_union := fun u => match get (sn_unions sn) u with Some l => l | None => [] end;
     p_cands := sn_cands sn;
     p_favored := fun _ => None;
     p_locked := fun _ => None;
     p_excluded := fun n => match get (sn_pkgs sn) n with Some k => sp_excluded k | None => [] end;
     p_hint := fun n => HSome (filter (hint_of sn) (sn_cands sn n));
     p_sort := sort_stable (order_of sn) |}.

(* SnapshotProvider::add_package_requirement(name, "*"); [None] = the package
   was not captured (the Rust code panics with "missing package") *)
Definition add_req (sn : snapshot) (adds : list svs) (n : N) : option (list svs * N) :=
  match get (sn_pkgs sn) n with
  | Some k => Some (adds ++ [mkSVs n (usort (sp_solvables k))],
                    maxid (sn_vss sn) + 1 + N.of_nat (length adds))
  | None => None
  end.

Fixpoint add_reqs (sn : snapshot) (adds : list svs) (ns : list N) : option (list svs * list N) :=
  match ns with
  | [] => Some (adds, [])
  | n :: t =>
    match add_req sn adds n with
    | Some (adds1, id) =>
      match add_reqs sn adds1 t with
      | Some (adds2, ids) => Some (adds2, id :: ids)
      | None => None
      end
    | None => None
    end
  end.

(* the numbering and routing before the repair of F2 *)
Definition vs_lookup_pre_fix (sn : snapshot) (adds : list svs) (v : N) : option svs :=
  if N.leb (maxid (sn_vss sn)) v then nth_error adds (N.to_nat (v - maxid (sn_vss sn)))
  else get (sn_vss sn) v.
Definition add_req_id_pre_fix (sn : snapshot) (adds : list svs) : N :=
  maxid (sn_vss sn) + N.of_nat (length adds).

(* ------------------------------------------------------------------ *)
(* serde: field by field, each field a Mapping *)

Definition snap_ser (sn : snapshot) :=
  (serialize (sn_sols sn), serialize (sn_unions sn), serialize (sn_vss sn), serialize (sn_pkgs sn)).

Definition snap_deser (j : list (option ssol) * list (option (list N)) * list (option svs) * list (option spkg))
  : snapshot :=
  let '(a, b, c, d) := j in mkSnap (deserialize a) (deserialize b) (deserialize c) (deserialize d).

Definition roundtrip (sn : snapshot) : snapshot := snap_deser (snap_ser sn).

(* comparable view of a snapshot (a [mapping] contains a function) *)
Definition snap_view (sn : snapshot) :=
  (iter (sn_sols sn), iter (sn_unions sn), iter (sn_vss sn), iter (sn_pkgs sn)).

(* ================================================================== *)
(* PROOFS *)

Lemma push_all_spec es : forall q seen q2 seen2,
  push_all es q seen = (q2, seen2) ->
  (forall e, In e q2 <-> In e q \/ (In e es /\ ~ In e seen)) /\
  (forall e, In e seen2 <-> In e seen \/ In e es).
Proof.
  induction es as [|x t IH]; intros q seen q2 seen2 H; simpl in H.
  - inversion H. subst. split; intro e; simpl; tauto.
  - destruct (mem_elem x seen) eqn:E.
    + apply mem_elem_In in E. destruct (IH _ _ _ _ H) as [A B]. split; intro e.
      * rewrite A. simpl. split; [tauto|]. intros [H1|[[H1|H1] H2]]; auto. subst. contradiction.
      * rewrite B. simpl. split; [tauto|]. intros [H1|[H1|H1]]; auto. subst. auto.
    + apply mem_elem_false in E. destruct (IH _ _ _ _ H) as [A B]. split; intro e.
      * rewrite A, in_app_iff. simpl. split.
        -- intros [[H1|[H1|[]]]|[H1 H2]].
           ++ left. exact H1.
           ++ subst. right. split; [left; reflexivity | exact E].
           ++ right. split; [right; exact H1 | intro H3; apply H2; right; exact H3].
        -- intros [H1|[[H1|H1] H2]]; auto.
           destruct (elem_eqb x e) eqn:Ex.
           ++ apply elem_eqb_eq in Ex. subst. auto.
           ++ right. split; [exact H1|]. intros [H3|H3]; [|contradiction].
              subst. assert (elem_eqb e e = true) by (apply elem_eqb_eq; reflexivity). congruence.
      * rewrite B. simpl. tauto.
Qed.

Section CaptureProofs.
Variable U : provider.

Notation succ := (succ U).
Notation record := (record U).

(* ---------- what a snapshot must contain ---------- *)

Definition SInv (sn : snapshot) : Prop :=
  (Inv (sn_sols sn) /\ Tight (sn_sols sn)) /\ (Inv (sn_unions sn) /\ Tight (sn_unions sn)) /\
  (Inv (sn_vss sn) /\ Tight (sn_vss sn)) /\ (Inv (sn_pkgs sn) /\ Tight (sn_pkgs sn)).

Definition union_reqs_recorded (d : deps) (m : mapping (list N)) : Prop :=
  match d with
  | Unknown => True
  | Known rs _ => forall u, In (RUnion u) rs -> get m u = Some (union_entry U u)
  end.

(* the entry of element [e] is present with the value the provider gives *)
Definition recorded (e : elem) (sn : snapshot) : Prop :=
  match e with
  | EPkg n => get (sn_pkgs sn) n = Some (pkg_entry U n)
  | ESol s => get (sn_sols sn) s = Some (sol_entry U s) /\
              union_reqs_recorded (p_deps U s) (sn_unions sn)
  | EVs v => get (sn_vss sn) v = Some (vs_entry U v)
  end.

(* every entry present has the value the provider gives, and is known to the
   traversal *)
Definition entries_ok (seen : list elem) (sn : snapshot) : Prop :=
  (forall n x, get (sn_pkgs sn) n = Some x -> x = pkg_entry U n /\ In (EPkg n) seen) /\
  (forall s x, get (sn_sols sn) s = Some x -> x = sol_entry U s /\ In (ESol s) seen) /\
  (forall v x, get (sn_vss sn) v = Some x -> x = vs_entry U v /\ In (EVs v) seen) /\
  (forall u l, get (sn_unions sn) u = Some l ->
     l = union_entry U u /\ forall v, In v l -> In (EVs v) seen).

Definition BInv (q seen : list elem) (sn : snapshot) : Prop :=
  SInv sn /\
  (forall e, In e q -> In e seen) /\
  (forall e, In e seen -> In e q \/ (recorded e sn /\ forall e', In e' (succ e) -> In e' seen)) /\
  entries_ok seen sn.

Lemma union_inserts_spec d : forall m,
  Inv m /\ Tight m ->
  let m' := union_inserts U d m in
  (Inv m' /\ Tight m') /\
  (forall u, get m' u = get m u \/ get m' u = Some (union_entry U u)) /\
  (forall u, get m u = Some (union_entry U u) -> get m' u = Some (union_entry U u)) /\
  (forall u, get m' u <> get m u -> exists rs cs, d = Known rs cs /\ In (RUnion u) rs) /\
  union_reqs_recorded d m'.
Proof.
  destruct d as [rs cs|]; cbn [union_inserts union_reqs_recorded].
  2:{ intros m H. cbn zeta. split; [exact H|]. split; [intro u; left; reflexivity|].
      split; [intros u Hu; exact Hu|]. split; [|exact I]. intros u Hu. congruence. }
  assert (G : forall rs m, Inv m /\ Tight m ->
     let m' := fold_left (union_ins U) rs m in
     (Inv m' /\ Tight m') /\
     (forall u, get m' u = get m u \/ get m' u = Some (union_entry U u)) /\
     (forall u, get m u = Some (union_entry U u) -> get m' u = Some (union_entry U u)) /\
     (forall u, get m' u <> get m u -> In (RUnion u) rs) /\
     (forall u, In (RUnion u) rs -> get m' u = Some (union_entry U u))).
  { clear rs. induction rs as [|r rs IH]; intros m [HI HT]; cbn [fold_left]; cbn zeta.
    - split; [split; assumption|]. split; [intro u; left; reflexivity|].
      split; [intros u Hu; exact Hu|]. split; [intros u Hu; congruence | intros u []].
    - assert (H1 : (Inv (union_ins U m r) /\ Tight (union_ins U m r)) /\
                   (forall u, get (union_ins U m r) u =
                      match r with RUnion w => if N.eqb u w then Some (union_entry U w) else get m u
                                 | RSingle _ => get m u end)).
      { destruct r as [v|w]; cbn [union_ins]; [split; [split; assumption | reflexivity]|].
        destruct (ins_get m w (union_entry U w) HI) as [A B].
        split; [split; [exact A | apply ins_tight; exact HT] | exact B]. }
      destruct H1 as [HI1 Hg1]. specialize (IH _ HI1). cbn zeta in IH.
      destruct IH as [A [B [C [D E]]]]. split; [exact A|]. split; [|split; [|split]].
      + intro u. destruct (B u) as [B1|B1]; [|right; exact B1]. rewrite B1, Hg1.
        destruct r as [v|w]; [left; reflexivity|]. destruct (N.eqb u w) eqn:Eu; [|left; reflexivity].
        apply N.eqb_eq in Eu. subst. right. reflexivity.
      + intros u Hu. apply C. rewrite Hg1. destruct r as [v|w]; [exact Hu|].
        destruct (N.eqb u w) eqn:Eu; [|exact Hu]. apply N.eqb_eq in Eu. subst. reflexivity.
      + intros u Hu. destruct r as [v|w].
        * right. apply D. rewrite Hg1 in *. exact Hu.
        * destruct (N.eqb u w) eqn:Eu; [apply N.eqb_eq in Eu; subst; left; reflexivity|].
          right. apply D. rewrite Hg1, Eu. exact Hu.
      + intros u [Hu|Hu]; [|apply E; exact Hu]. subst r. apply C. rewrite Hg1, N.eqb_refl. reflexivity. }
  intros m H. destruct (G rs m H) as [A [B [C [D E]]]]. cbn zeta.
  split; [exact A|]. split; [exact B|]. split; [exact C|]. split; [|exact E].
  intros u Hu. exists rs, cs. split; [reflexivity | apply D; exact Hu].
Qed.

Lemma record_sinv e sn : SInv sn -> SInv (record e sn).
Proof.
  intros [[A1 A2] [[B1 B2] [[C1 C2] [D1 D2]]]]. destruct e as [n|v|s]; unfold SInv; cbn [Snapshot.record sn_sols sn_unions sn_vss sn_pkgs].
  - split; [split; assumption|]. split; [split; assumption|]. split; [split; assumption|].
    split; [apply ins_get; exact D1 | apply ins_tight; exact D2].
  - split; [split; assumption|]. split; [split; assumption|]. split; [|split; assumption].
    split; [apply ins_get; exact C1 | apply ins_tight; exact C2].
  - pose proof (union_inserts_spec (p_deps U s) (sn_unions sn) (conj B1 B2)) as [[X1 X2] _].
    split; [|split; [split; assumption|split; split; assumption]].
    split; [apply ins_get; exact A1 | apply ins_tight; exact A2].
Qed.

Lemma record_recorded e sn : SInv sn -> recorded e (record e sn).
Proof.
  intros [[A1 A2] [[B1 B2] [[C1 C2] [D1 D2]]]]. destruct e as [n|v|s]; cbn [recorded record sn_sols sn_unions sn_vss sn_pkgs].
  - destruct (ins_get (sn_pkgs sn) n (pkg_entry U n) D1) as [_ G]. rewrite G, N.eqb_refl. reflexivity.
  - destruct (ins_get (sn_vss sn) v (vs_entry U v) C1) as [_ G]. rewrite G, N.eqb_refl. reflexivity.
  - destruct (ins_get (sn_sols sn) s (sol_entry U s) A1) as [_ G]. rewrite G, N.eqb_refl.
    split; [reflexivity|].
    apply (union_inserts_spec (p_deps U s) (sn_unions sn) (conj B1 B2)).
Qed.

Lemma record_mono e e' sn : SInv sn -> recorded e' sn -> recorded e' (record e sn).
Proof.
  intros [[A1 A2] [[B1 B2] [[C1 C2] [D1 D2]]]] H.
  destruct e as [n|v|s]; destruct e' as [n'|v'|s'];
    cbn [recorded record sn_sols sn_unions sn_vss sn_pkgs] in *; try exact H.
  - destruct (ins_get (sn_pkgs sn) n (pkg_entry U n) D1) as [_ G]. rewrite G.
    destruct (N.eqb n' n) eqn:E; [apply N.eqb_eq in E; subst; reflexivity | exact H].
  - destruct (ins_get (sn_vss sn) v (vs_entry U v) C1) as [_ G]. rewrite G.
    destruct (N.eqb v' v) eqn:E; [apply N.eqb_eq in E; subst; reflexivity | exact H].
  - destruct H as [H1 H2]. split.
    + destruct (ins_get (sn_sols sn) s (sol_entry U s) A1) as [_ G]. rewrite G.
      destruct (N.eqb s' s) eqn:E; [apply N.eqb_eq in E; subst; reflexivity | exact H1].
    + pose proof (union_inserts_spec (p_deps U s) (sn_unions sn) (conj B1 B2)) as [_ [_ [X _]]].
      unfold union_reqs_recorded in *. destruct (p_deps U s') as [rs cs|]; [|exact I].
      intros u Hu. apply X. apply H2. exact Hu.
Qed.

Lemma record_entries e seen seen2 sn :
  SInv sn -> entries_ok seen sn -> (forall x, In x seen -> In x seen2) ->
  In e seen2 -> (forall x, In x (succ e) -> In x seen2) ->
  entries_ok seen2 (record e sn).
Proof.
  intros [[A1 A2] [[B1 B2] [[C1 C2] [D1 D2]]]] [E1 [E2 [E3 E4]]] Hinc He Hsucc.
  assert (E4' : forall u l, get (sn_unions sn) u = Some l ->
                 l = union_entry U u /\ forall v, In v l -> In (EVs v) seen2).
  { intros u l Hu. destruct (E4 u l Hu) as [X Y]. split; [exact X|]. intros v Hv. apply Hinc. apply Y. exact Hv. }
  destruct e as [n|v|s]; unfold entries_ok; cbn [record sn_sols sn_unions sn_vss sn_pkgs].
  - split; [|split; [|split]]; try assumption.
    + intros n' x. destruct (ins_get (sn_pkgs sn) n (pkg_entry U n) D1) as [_ G]. rewrite G.
      destruct (N.eqb n' n) eqn:E; [apply N.eqb_eq in E; subst|].
      * intro H. inversion H. split; [reflexivity | exact He].
      * intro H. destruct (E1 n' x H) as [X Y]. split; [exact X | apply Hinc; exact Y].
    + intros s' x H. destruct (E2 s' x H) as [X Y]. split; [exact X | apply Hinc; exact Y].
    + intros v' x H. destruct (E3 v' x H) as [X Y]. split; [exact X | apply Hinc; exact Y].
  - split; [|split; [|split]]; try assumption.
    + intros n' x H. destruct (E1 n' x H) as [X Y]. split; [exact X | apply Hinc; exact Y].
    + intros s' x H. destruct (E2 s' x H) as [X Y]. split; [exact X | apply Hinc; exact Y].
    + intros v' x. destruct (ins_get (sn_vss sn) v (vs_entry U v) C1) as [_ G]. rewrite G.
      destruct (N.eqb v' v) eqn:E; [apply N.eqb_eq in E; subst|].
      * intro H. inversion H. split; [reflexivity | exact He].
      * intro H. destruct (E3 v' x H) as [X Y]. split; [exact X | apply Hinc; exact Y].
  - split; [|split; [|split]].
    + intros n' x H. destruct (E1 n' x H) as [X Y]. split; [exact X | apply Hinc; exact Y].
    + intros s' x. destruct (ins_get (sn_sols sn) s (sol_entry U s) A1) as [_ G]. rewrite G.
      destruct (N.eqb s' s) eqn:E; [apply N.eqb_eq in E; subst|].
      * intro H. inversion H. split; [reflexivity | exact He].
      * intro H. destruct (E2 s' x H) as [X Y]. split; [exact X | apply Hinc; exact Y].
    + intros v' x H. destruct (E3 v' x H) as [X Y]. split; [exact X | apply Hinc; exact Y].
    + intros u l Hl.
      pose proof (union_inserts_spec (p_deps U s) (sn_unions sn) (conj B1 B2)) as [_ [X [_ [Y _]]]].
      destruct (get (sn_unions sn) u) as [l0|] eqn:E0.
      * destruct (E4' u l0 E0) as [P Q]. destruct (X u) as [X1|X1]; rewrite X1 in Hl.
        -- rewrite E0 in Hl. inversion Hl as [H0]. rewrite <- H0. split; [exact P | exact Q].
        -- inversion Hl as [H0]. split; [reflexivity|]. rewrite <- P. exact Q.
      * assert (Hne : get (union_inserts U (p_deps U s) (sn_unions sn)) u <> get (sn_unions sn) u)
          by (rewrite Hl, E0; discriminate).
        destruct (Y u Hne) as [rs [cs [Hd Hin]]].
        destruct (X u) as [X1|X1]; rewrite X1 in Hl; [rewrite E0 in Hl; discriminate|].
        inversion Hl. subst l. split; [reflexivity|].
        intros w Hw. apply Hsucc. cbn [Snapshot.succ]. right. rewrite Hd. cbn [deps_elems].
        apply in_or_app. right. apply in_flat_map. exists (RUnion u). split; [exact Hin|].
        cbn [req_elems]. apply in_map. exact Hw.
Qed.

Lemma bfs_step e q' seen sn q2 seen2 :
  BInv (e :: q') seen sn -> push_all (succ e) q' seen = (q2, seen2) ->
  BInv q2 seen2 (record e sn) /\ (forall x, In x seen -> In x seen2).
Proof.
  intros [HS [Hq [Hseen Hent]]] Hp. destruct (push_all_spec _ _ _ _ _ Hp) as [PA PB].
  assert (Hinc : forall x, In x seen -> In x seen2) by (intros x Hx; apply PB; left; exact Hx).
  assert (Hsucc : forall x, In x (succ e) -> In x seen2) by (intros x Hx; apply PB; right; exact Hx).
  assert (He : In e seen2) by (apply Hinc, Hq; left; reflexivity).
  split; [|exact Hinc]. unfold BInv. split; [apply record_sinv; exact HS|]. split; [|split].
  - intros x Hx. apply PA in Hx. destruct Hx as [Hx|[Hx _]]; [apply Hinc, Hq; right; exact Hx | apply Hsucc; exact Hx].
  - intros x Hx. apply PB in Hx.
    destruct (mem_elem x seen) eqn:Em.
    + apply mem_elem_In in Em. destruct (Hseen x Em) as [[Hxe|Hxq]|[Hr Hs]].
      * subst x. right. split; [apply record_recorded; exact HS | exact Hsucc].
      * left. apply PA. left. exact Hxq.
      * right. split; [apply record_mono; assumption|]. intros y Hy. apply Hinc, Hs, Hy.
    + apply mem_elem_false in Em. destruct Hx as [Hx|Hx]; [contradiction|].
      left. apply PA. right. split; assumption.
  - apply (record_entries e seen seen2 sn); assumption.
Qed.

Lemma bfs_inv fuel : forall q seen sn sn',
  BInv q seen sn -> bfs U fuel q seen sn = Some sn' ->
  exists seen', BInv [] seen' sn' /\ (forall x, In x seen -> In x seen').
Proof.
  induction fuel as [|f IH]; intros q seen sn sn' HB Hb.
  - destruct q; simpl in Hb; [|discriminate]. inversion Hb. subst. exists seen. split; [exact HB | auto].
  - destruct q as [|e q']; simpl in Hb.
    + inversion Hb. subst. exists seen. split; [exact HB | auto].
    + destruct (push_all (succ e) q' seen) as [q2 seen2] eqn:Ep.
      destruct (bfs_step _ _ _ _ _ _ HB Ep) as [HB2 Hinc].
      destruct (IH _ _ _ _ HB2 Hb) as [seen' [HB' Hinc']]. exists seen'. split; [exact HB'|].
      intros x Hx. apply Hinc', Hinc, Hx.
Qed.

Lemma empty_sinv : SInv empty_snapshot.
Proof.
  unfold SInv, empty_snapshot, new. cbn [sn_sols sn_unions sn_vss sn_pkgs].
  split; [|split; [|split]]; (split; [apply with_capacity_inv | apply new_tight]).
Qed.

Lemma get_new {V} j : get (@new V) j = None.
Proof. unfold new. rewrite (get_store _ j (with_capacity_inv 1)). reflexivity. Qed.

Lemma init_binv q : BInv q q empty_snapshot.
Proof.
  split; [apply empty_sinv|]. split; [auto|]. split; [intros e He; left; exact He|].
  unfold entries_ok, empty_snapshot. cbn [sn_sols sn_unions sn_vss sn_pkgs].
  split; [|split; [|split]]; intros ? ? HH; rewrite get_new in HH; discriminate.
Qed.

(* ---------- the order of the solvables ---------- *)

(* position of [s] in [l] *)
Fixpoint idx (s : N) (l : list N) : N :=
  match l with
  | [] => 0
  | x :: t => if N.eqb s x then 0 else 1 + idx s t
  end.

Definition reorder (k : N) (x : ssol) : ssol := mkSSol (ss_name x) k (ss_deps x) (ss_hint x).

Definition MT {V} (m : mapping V) : Prop := Inv m /\ Tight m.

Lemma set_order_spec m s k : MT m ->
  MT (set_order m s k) /\
  forall j, get (set_order m s k) j = if N.eqb j s then option_map (reorder k) (get m s) else get m j.
Proof.
  intros [HI HT]. unfold set_order. destruct (get m s) as [x|] eqn:E.
  - destruct (ins_get m s (mkSSol (ss_name x) k (ss_deps x) (ss_hint x)) HI) as [A B].
    split; [split; [exact A | apply ins_tight; exact HT]|]. intro j. rewrite B. reflexivity.
  - split; [split; assumption|]. intro j. destruct (N.eqb j s) eqn:Ej; [|reflexivity].
    apply N.eqb_eq in Ej. subst. exact E.
Qed.

Lemma set_orders_spec l : forall m k, MT m -> NoDup l ->
  MT (set_orders m l k) /\
  forall j, get (set_orders m l k) j =
    match get m j with
    | None => None
    | Some x => if memN j l then Some (reorder (k + idx j l) x) else Some x
    end.
Proof.
  induction l as [|s t IH]; intros m k HM Hnd; cbn [set_orders].
  - split; [exact HM|]. intro j. cbn [memN existsb]. destruct (get m j); reflexivity.
  - inversion Hnd as [|? ? Hs Ht]. subst.
    destruct (set_order_spec m s k HM) as [HM1 G1].
    destruct (IH (set_order m s k) (k + 1) HM1 Ht) as [HM2 G2].
    split; [exact HM2|]. intro j. rewrite G2, G1. unfold memN. cbn [existsb idx].
    destruct (N.eqb j s) eqn:Ej.
    + apply N.eqb_eq in Ej. subst j. cbn [orb].
      assert (Hm : existsb (N.eqb s) t = false) by (apply memN_false; exact Hs).
      rewrite Hm. destruct (get m s) as [x|]; cbn [option_map]; [|reflexivity].
      rewrite N.add_0_r. reflexivity.
    + cbn [orb]. destruct (get m j) as [x|]; [|reflexivity].
      destruct (existsb (N.eqb j) t); [|reflexivity].
      replace (k + 1 + idx j t) with (k + (1 + idx j t)) by lia. reflexivity.
Qed.

Definition sorted_of (np : N * spkg) : list N := p_sort U (sp_solvables (snd np)).

Definition same_but_order (m m' : mapping ssol) : Prop :=
  forall j, match get m j, get m' j with
            | None, None => True
            | Some x, Some y => ss_name y = ss_name x /\ ss_deps y = ss_deps x /\ ss_hint y = ss_hint x
            | _, _ => False
            end.

Lemma fold_orders_spec (owner : N -> N) L : forall m,
  MT m ->
  (forall np, In np L -> NoDup (sorted_of np)) ->
  (forall np j, In np L -> In j (sorted_of np) -> owner j = fst np) ->
  NoDup (map fst L) ->
  let m' := fold_left (order_step U) L m in
  MT m' /\ same_but_order m m' /\
  (forall j, (forall np, In np L -> ~ In j (sorted_of np)) -> get m' j = get m j) /\
  (forall np j x, In np L -> In j (sorted_of np) -> get m j = Some x ->
     get m' j = Some (reorder (idx j (sorted_of np)) x)).
Proof.
  induction L as [|a L IH]; intros m HM Hnd Hown HndL; cbn [fold_left]; cbn zeta.
  - split; [exact HM|]. split; [intro j; destruct (get m j); auto|]. split; [auto|]. intros np j x [].
  - inversion HndL as [|? ? Ha HL]. subst.
    assert (Hnda : NoDup (sorted_of a)) by (apply Hnd; left; reflexivity).
    destruct (set_orders_spec (sorted_of a) m 0 HM Hnda) as [HM1 G1].
    fold (sorted_of a) in G1. change (order_step U m a) with (set_orders m (sorted_of a) 0).
    destruct (IH (set_orders m (sorted_of a) 0) HM1) as [HM2 [S2 [F2 O2]]].
    { intros np Hnp. apply Hnd. right. exact Hnp. }
    { intros np j Hnp Hj. apply (Hown np j); [right; exact Hnp | exact Hj]. }
    { exact HL. }
    cbn zeta in *. split; [exact HM2|]. split; [|split].
    + intro j. specialize (S2 j). rewrite G1 in S2. destruct (get m j) as [x|]; [|exact S2].
      destruct (memN j (sorted_of a)); destruct (get (fold_left (order_step U) L (set_orders m (sorted_of a) 0)) j);
        try exact S2; cbn [reorder ss_name ss_deps ss_hint] in S2; exact S2.
    + intros j Hj. rewrite F2 by (intros np Hnp; apply Hj; right; exact Hnp).
      rewrite G1. destruct (get m j) as [x|]; [|reflexivity].
      assert (Hm : memN j (sorted_of a) = false) by (apply memN_false; apply Hj; left; reflexivity).
      rewrite Hm. reflexivity.
    + intros np j x [Hnp|Hnp] Hj Hx.
      * subst np. rewrite F2.
        -- rewrite G1, Hx. assert (Hm : memN j (sorted_of a) = true) by (apply memN_In; exact Hj).
           rewrite Hm. reflexivity.
        -- intros np' Hnp' Hj'. apply Ha. apply in_map_iff. exists np'. split; [|exact Hnp'].
           rewrite <- (Hown np' j (or_intror Hnp') Hj'). apply (Hown a j); [left; reflexivity | exact Hj].
      * apply (O2 np j x Hnp Hj). rewrite G1, Hx.
        assert (Hm : memN j (sorted_of a) = false).
        { apply memN_false. intro Hj'. apply Ha. apply in_map_iff. exists np. split; [|exact Hnp].
          rewrite <- (Hown np j (or_intror Hnp) Hj). apply (Hown a j); [left; reflexivity | exact Hj']. }
        rewrite Hm. reflexivity.
Qed.

(* ---------- what a finished capture satisfies ---------- *)

Definition has {V} (m : mapping V) (k : N) : Prop := get m k <> None.

Record Closed (sn : snapshot) : Prop := {
  f_inv : SInv sn;
  (* entries carry the provider's answers *)
  f_pkg : forall n x, get (sn_pkgs sn) n = Some x -> x = pkg_entry U n;
  f_sol : forall s x, get (sn_sols sn) s = Some x ->
            ss_name x = p_sol_name U s /\ ss_deps x = p_deps U s /\ ss_hint x = true;
  f_vs : forall v x, get (sn_vss sn) v = Some x -> x = vs_entry U v;
  f_un : forall u l, get (sn_unions sn) u = Some l -> l = union_entry U u;
  (* closure under everything the solver can ask next *)
  c_pkg : forall n, has (sn_pkgs sn) n ->
            forall s, In s (p_cands U n) \/ In s (p_excluded U n) -> has (sn_sols sn) s;
  c_sol : forall s, has (sn_sols sn) s ->
            has (sn_pkgs sn) (p_sol_name U s) /\
            forall rs cs, p_deps U s = Known rs cs ->
              (forall v, In v cs -> has (sn_vss sn) v) /\
              (forall v, In (RSingle v) rs -> has (sn_vss sn) v) /\
              (forall u, In (RUnion u) rs -> has (sn_unions sn) u);
  c_un : forall u, has (sn_unions sn) u -> forall v, In v (p_union U u) -> has (sn_vss sn) v;
  c_vs : forall v, has (sn_vss sn) v ->
            has (sn_pkgs sn) (p_vs_name U v) /\ forall s, In s (matching U v) -> has (sn_sols sn) s
}.

Definition seeds_captured (sn : snapshot) (names vss sols : list N) : Prop :=
  (forall n, In n names -> has (sn_pkgs sn) n) /\
  (forall v, In v vss -> has (sn_vss sn) v) /\
  (forall s, In s sols -> has (sn_sols sn) s).

Lemma recorded_has e sn : recorded e sn ->
  match e with EPkg n => has (sn_pkgs sn) n | EVs v => has (sn_vss sn) v | ESol s => has (sn_sols sn) s end.
Proof. destruct e; cbn [recorded]; unfold has; intro H; [| |destruct H as [H _]]; rewrite H; discriminate. Qed.

Lemma bfs_closed seen sn : BInv [] seen sn ->
  Closed sn /\ forall e, In e seen ->
    match e with EPkg n => has (sn_pkgs sn) n | EVs v => has (sn_vss sn) v | ESol s => has (sn_sols sn) s end.
Proof.
  intros [HS [_ [Hseen [E1 [E2 [E3 E4]]]]]].
  assert (Hdone : forall e, In e seen -> recorded e sn /\ forall e', In e' (succ e) -> In e' seen).
  { intros e He. destruct (Hseen e He) as [[]|H]. exact H. }
  assert (Hhas : forall e, In e seen ->
    match e with EPkg n => has (sn_pkgs sn) n | EVs v => has (sn_vss sn) v | ESol s => has (sn_sols sn) s end).
  { intros e He. apply recorded_has. apply Hdone. exact He. }
  split; [|exact Hhas]. constructor.
  - exact HS.
  - intros n x H. apply (E1 n x H).
  - intros s x H. destruct (E2 s x H) as [X _]. subst x. cbn. auto.
  - intros v x H. apply (E3 v x H).
  - intros u l H. apply (E4 u l H).
  - intros n Hn s Hs. unfold has in Hn. destruct (get (sn_pkgs sn) n) as [x|] eqn:E; [|congruence].
    destruct (E1 n x E) as [_ Hin]. destruct (Hdone _ Hin) as [_ Hsu].
    apply (Hhas (ESol s)). apply Hsu. cbn [Snapshot.succ]. apply in_or_app.
    destruct Hs as [Hs|Hs]; [left|right]; apply in_map; exact Hs.
  - intros s Hs. unfold has in Hs. destruct (get (sn_sols sn) s) as [x|] eqn:E; [|congruence].
    destruct (E2 s x E) as [_ Hin]. destruct (Hdone _ Hin) as [[_ Hrec] Hsu]. split.
    + apply (Hhas (EPkg (p_sol_name U s))). apply Hsu. left. reflexivity.
    + intros rs cs Hd. cbn [Snapshot.succ] in Hsu. unfold union_reqs_recorded in Hrec.
      rewrite Hd in Hsu, Hrec. cbn [deps_elems] in Hsu. split; [|split].
      * intros v Hv. apply (Hhas (EVs v)). apply Hsu. right. apply in_or_app. left. apply in_map. exact Hv.
      * intros v Hv. apply (Hhas (EVs v)). apply Hsu. right. apply in_or_app. right.
        apply in_flat_map. exists (RSingle v). split; [exact Hv | left; reflexivity].
      * intros u Hu. unfold has. rewrite (Hrec u Hu). discriminate.
  - intros u Hu v Hv. unfold has in Hu. destruct (get (sn_unions sn) u) as [l|] eqn:E; [|congruence].
    destruct (E4 u l E) as [Hl Hm]. apply (Hhas (EVs v)). apply Hm. subst l. apply usort_In. exact Hv.
  - intros v Hv. unfold has in Hv. destruct (get (sn_vss sn) v) as [x|] eqn:E; [|congruence].
    destruct (E3 v x E) as [_ Hin]. destruct (Hdone _ Hin) as [_ Hsu]. split.
    + apply (Hhas (EPkg (p_vs_name U v))). apply Hsu. left. reflexivity.
    + intros s Hs. apply (Hhas (ESol s)). apply Hsu. right. apply in_map. exact Hs.
Qed.

(* hypotheses on the live provider for the order computation: sort_candidates
   permutes its argument, and candidate lists are duplicate free and list
   solvables of their own package (the Interner contract) *)
Definition sort_perm : Prop := forall l, Permutation (p_sort U l) l.
Definition wf_cands : Prop :=
  (forall n, NoDup (p_cands U n)) /\ (forall n s, In s (p_cands U n) -> p_sol_name U s = n).

Lemma same_but_order_has m m' s : same_but_order m m' -> (has m' s <-> has m s).
Proof.
  intro H. specialize (H s). unfold has. destruct (get m s), (get m' s); try contradiction;
    split; intro; congruence.
Qed.

Lemma sbo_refl m : same_but_order m m.
Proof. intro j. destruct (get m j); auto. Qed.

Lemma sbo_trans m1 m2 m3 : same_but_order m1 m2 -> same_but_order m2 m3 -> same_but_order m1 m3.
Proof.
  intros A B j. specialize (A j). specialize (B j).
  destruct (get m1 j), (get m2 j), (get m3 j); try contradiction; auto.
  destruct A as [A1 [A2 A3]], B as [B1 [B2 B3]]. split; [congruence|]. split; congruence.
Qed.

Lemma set_order_sbo m s k : MT m -> same_but_order m (set_order m s k).
Proof.
  intros HM j. destruct (set_order_spec m s k HM) as [_ G]. rewrite G.
  destruct (N.eqb j s) eqn:E; [|destruct (get m j); auto].
  apply N.eqb_eq in E. subst. destruct (get m s); cbn; auto.
Qed.

Lemma set_orders_sbo l : forall m k, MT m -> MT (set_orders m l k) /\ same_but_order m (set_orders m l k).
Proof.
  induction l as [|s t IH]; intros m k HM; cbn [set_orders]; [split; [exact HM | apply sbo_refl]|].
  destruct (set_order_spec m s k HM) as [HM1 _]. destruct (IH _ (k + 1) HM1) as [A B].
  split; [exact A|]. eapply sbo_trans; [apply set_order_sbo; exact HM | exact B].
Qed.

Lemma fold_orders_sbo it : forall m, MT m ->
  MT (fold_left (order_step U) it m) /\ same_but_order m (fold_left (order_step U) it m).
Proof.
  induction it as [|a L IH]; intros m HM; cbn [fold_left]; [split; [exact HM | apply sbo_refl]|].
  destruct (set_orders_sbo (sorted_of a) m 0 HM) as [HM1 S1].
  destruct (IH _ HM1) as [A B]. split; [exact A|]. eapply sbo_trans; [exact S1 | exact B].
Qed.

(* computing the orders (with whatever iterator) only touches the order field *)
Lemma assign_orders_closed it sn : Closed sn ->
  Closed (assign_orders_with U it sn) /\ same_but_order (sn_sols sn) (sn_sols (assign_orders_with U it sn)).
Proof.
  intro C. pose proof (f_inv sn C) as [HMs [HMu [HMv HMp]]].
  destruct (fold_orders_sbo (it (sn_pkgs sn)) (sn_sols sn) HMs) as [HM' S'].
  split; [|exact S'].
  constructor; unfold assign_orders_with; cbn [sn_sols sn_unions sn_vss sn_pkgs].
  - unfold SInv. cbn [sn_sols sn_unions sn_vss sn_pkgs]. split; [exact HM'|]. split; [exact HMu|]. split; assumption.
  - apply (f_pkg sn C).
  - intros s x Hx. specialize (S' s). rewrite Hx in S'.
    destruct (get (sn_sols sn) s) as [y|] eqn:Ey; [|contradiction].
    destruct (f_sol sn C s y Ey) as [P [Q R]]. destruct S' as [P' [Q' R']].
    split; [congruence|]. split; congruence.
  - apply (f_vs sn C).
  - apply (f_un sn C).
  - intros n Hn s Hs. apply (same_but_order_has _ _ s S'). apply (c_pkg sn C n Hn s Hs).
  - intros s Hs. apply (same_but_order_has _ _ s S') in Hs. apply (c_sol sn C s Hs).
  - apply (c_un sn C).
  - intros v Hv. destruct (c_vs sn C v Hv) as [P Q]. split; [exact P|].
    intros s Hs. apply (same_but_order_has _ _ s S'). apply Q. exact Hs.
Qed.

(* with the repaired iterator every candidate of every captured package gets
   its position in the provider's sort of that package's candidate list *)
Lemma assign_orders_order sn : Closed sn -> sort_perm -> wf_cands ->
  forall n, has (sn_pkgs sn) n -> forall s, In s (p_cands U n) ->
     order_of (assign_orders U sn) s = idx s (p_sort U (p_cands U n)).
Proof.
  intros C Hperm [Hnd Hown].
  pose proof (f_inv sn C) as [HMs [HMu [HMv HMp]]].
  destruct (iter_spec (sn_pkgs sn) (proj1 HMp)) as [Hsorted Hiter].
  assert (Hent : forall np, In np (iter (sn_pkgs sn)) -> sorted_of np = p_sort U (p_cands U (fst np))).
  { intros [n pk] Hnp. apply Hiter in Hnp. apply (f_pkg sn C) in Hnp. subst pk. reflexivity. }
  destruct (fold_orders_spec (p_sol_name U) (iter (sn_pkgs sn)) (sn_sols sn) HMs) as [HM' [S' [F' O']]].
  { intros np Hnp. rewrite (Hent np Hnp). apply (Permutation_NoDup (l := p_cands U (fst np))).
    - apply Permutation_sym. apply Hperm.
    - apply Hnd. }
  { intros np j Hnp Hj. rewrite (Hent np Hnp) in Hj. apply Hown.
    apply (Permutation_in _ (Hperm _)). exact Hj. }
  { apply sorted_keys_nodup. exact Hsorted. }
  cbn zeta in *.
  assert (Eq : sn_sols (assign_orders U sn) = fold_left (order_step U) (iter (sn_pkgs sn)) (sn_sols sn)) by reflexivity.
  intros n Hn s Hs. unfold has in Hn. destruct (get (sn_pkgs sn) n) as [pk|] eqn:E; [|congruence].
  assert (Hnp : In (n, pk) (iter (sn_pkgs sn))) by (apply Hiter; exact E).
  pose proof (c_pkg sn C n ltac:(unfold has; rewrite E; discriminate) s (or_introl Hs)) as Hhs.
  unfold has in Hhs. destruct (get (sn_sols sn) s) as [x|] eqn:Ex; [|congruence].
  assert (Hj : In s (sorted_of (n, pk))).
  { rewrite (Hent _ Hnp). cbn [fst]. apply (Permutation_in _ (Permutation_sym (Hperm _))). exact Hs. }
  pose proof (O' (n, pk) s x Hnp Hj Ex) as Hg.
  unfold order_of. rewrite Eq, Hg. cbn [reorder ss_order]. rewrite (Hent _ Hnp). reflexivity.
Qed.

(* capture: closed, entries faithful, seeds captured, orders from the provider's sort *)
Theorem capture_spec fuel names vss sols sn :
  capture U fuel names vss sols = Some sn ->
  Closed sn /\ seeds_captured sn names vss sols /\ (sort_perm -> wf_cands ->
   forall n, has (sn_pkgs sn) n -> forall s, In s (p_cands U n) ->
     order_of sn s = idx s (p_sort U (p_cands U n))).
Proof.
  unfold capture. intro H.
  destruct (bfs U fuel (seeds names vss sols) (seeds names vss sols) empty_snapshot) as [sn0|] eqn:Eb;
    [|discriminate].
  inversion H. subst sn. clear H.
  destruct (bfs_inv _ _ _ _ _ (init_binv _) Eb) as [seen [HB Hinc]].
  destruct (bfs_closed _ _ HB) as [C Hhas].
  assert (Hseeds : seeds_captured sn0 names vss sols).
  { unfold seeds_captured, seeds in *. split; [|split].
    - intros n Hn. apply (Hhas (EPkg n)). apply Hinc. apply in_or_app. left. apply in_map. exact Hn.
    - intros v Hv. apply (Hhas (EVs v)). apply Hinc. apply in_or_app. right. apply in_or_app. left. apply in_map. exact Hv.
    - intros s Hs. apply (Hhas (ESol s)). apply Hinc. apply in_or_app. right. apply in_or_app. right. apply in_map. exact Hs. }
  destruct (assign_orders_closed iter sn0 C) as [C' S'].
  split; [exact C'|]. split.
  - destruct Hseeds as [A [B D]]. split; [exact A|]. split; [exact B|].
    intros s Hs. apply (same_but_order_has _ _ s S'). apply D. exact Hs.
  - intros Hp Hw n Hn s Hs. apply (assign_orders_order sn0 C Hp Hw n Hn s Hs).
Qed.

End CaptureProofs.

(* ------------------------------------------------------------------ *)
(* stable sorting by a key; one stored position per solvable is enough *)

Lemma insert_stable_In k x l z : In z (insert_stable k x l) <-> z = x \/ In z l.
Proof.
  induction l as [|y t IH]; simpl; [split; intros [H|H]; auto; contradiction|].
  destruct (N.leb (k x) (k y)); simpl; [split; intros [H|H]; auto|].
  rewrite IH. split; [intros [H|[H|H]]; auto | intros [H|[H|H]]; auto].
Qed.

Lemma sort_stable_In k l z : In z (sort_stable k l) <-> In z l.
Proof.
  induction l as [|x t IH]; simpl; [tauto|]. rewrite insert_stable_In, IH.
  split; intros [H|H]; auto.
Qed.

Lemma insert_stable_perm k x l : Permutation (insert_stable k x l) (x :: l).
Proof.
  induction l as [|y t IH]; simpl; [apply Permutation_refl|].
  destruct (N.leb (k x) (k y)); [apply Permutation_refl|].
  eapply Permutation_trans; [apply perm_skip; exact IH | apply perm_swap].
Qed.

Lemma sort_stable_perm k l : Permutation (sort_stable k l) l.
Proof.
  induction l as [|x t IH]; simpl; [constructor|].
  eapply Permutation_trans; [apply insert_stable_perm | apply perm_skip; exact IH].
Qed.

Lemma insert_stable_ext k1 k2 x l :
  (forall y, In y l -> N.leb (k1 x) (k1 y) = N.leb (k2 x) (k2 y)) ->
  insert_stable k1 x l = insert_stable k2 x l.
Proof.
  induction l as [|y t IH]; intro H; simpl; [reflexivity|].
  rewrite (H y (or_introl eq_refl)). destruct (N.leb (k2 x) (k2 y)); [reflexivity|].
  f_equal. apply IH. intros z Hz. apply H. right. exact Hz.
Qed.

(* the two keys compare every earlier element with every later one alike *)
Fixpoint keys_agree (k1 k2 : N -> N) (l : list N) : Prop :=
  match l with
  | [] => True
  | x :: t => (forall y, In y t -> N.leb (k1 x) (k1 y) = N.leb (k2 x) (k2 y)) /\ keys_agree k1 k2 t
  end.

Lemma sort_stable_agree k1 k2 l : keys_agree k1 k2 l -> sort_stable k1 l = sort_stable k2 l.
Proof.
  induction l as [|x t IH]; intro H; simpl; [reflexivity|]. destruct H as [H1 H2].
  rewrite (IH H2). apply insert_stable_ext. intros y Hy. apply H1.
  apply (sort_stable_In k2 t y). exact Hy.
Qed.

Lemma sort_stable_ext k1 k2 l : (forall s, k1 s = k2 s) -> sort_stable k1 l = sort_stable k2 l.
Proof.
  intro H. apply sort_stable_agree. induction l as [|x t IH]; simpl; [exact I|].
  split; [|exact IH]. intros y _. rewrite !H. reflexivity.
Qed.

Section StableOrder.
Variables rank pos : N -> N.

(* the order a stable sort by [rank] produces on a list ascending in [pos] *)
Definition sR (x y : N) : Prop := rank x < rank y \/ (rank x = rank y /\ pos x < pos y).
Definition asc (l : list N) : Prop := StronglySorted (fun x y => pos x < pos y) l.

Lemma insert_stable_sorted x L :
  StronglySorted sR L -> (forall y, In y L -> pos x < pos y) ->
  StronglySorted sR (insert_stable rank x L).
Proof.
  induction 1 as [|y L Hs IH Hall]; intro Hpos; simpl; [constructor; constructor|].
  rewrite Forall_forall in Hall.
  destruct (N.leb (rank x) (rank y)) eqn:E.
  - apply N.leb_le in E. constructor; [constructor; [exact Hs | apply Forall_forall; exact Hall]|].
    apply Forall_forall. intros z [Hz|Hz].
    + subst z. unfold sR. pose proof (Hpos y (or_introl eq_refl)). lia.
    + pose proof (Hall z Hz) as Hyz. pose proof (Hpos z (or_intror Hz)). unfold sR in *. lia.
  - apply N.leb_gt in E. constructor.
    + apply IH. intros z Hz. apply Hpos. right. exact Hz.
    + apply Forall_forall. intros z Hz. apply insert_stable_In in Hz. destruct Hz as [Hz|Hz].
      * subst z. unfold sR. lia.
      * apply Hall. exact Hz.
Qed.

Lemma sort_stable_sorted l : asc l -> StronglySorted sR (sort_stable rank l).
Proof.
  induction 1 as [|x t Hs IH Hall]; simpl; [constructor|].
  apply insert_stable_sorted; [exact IH|]. rewrite Forall_forall in Hall.
  intros y Hy. apply Hall. apply (sort_stable_In rank t y). exact Hy.
Qed.
End StableOrder.

Lemma idx_sorted_lt (R : N -> N -> Prop) (S : list N) :
  (forall x, ~ R x x) -> (forall x y, R x y -> R y x -> False) ->
  StronglySorted R S -> forall x y, In x S -> In y S -> R x y -> idx x S < idx y S.
Proof.
  intros Hirr Hasym. induction 1 as [|a S Hs IH Hall]; intros x y Hx Hy Hxy; [destruct Hx|].
  rewrite Forall_forall in Hall. cbn [idx].
  destruct (N.eqb x a) eqn:Ex.
  - apply N.eqb_eq in Ex. subst a. destruct (N.eqb y x) eqn:Ey.
    + apply N.eqb_eq in Ey. subst y. exfalso. apply (Hirr x). exact Hxy.
    + lia.
  - apply N.eqb_neq in Ex. destruct Hx as [Hx|Hx]; [congruence|].
    destruct (N.eqb y a) eqn:Ey.
    + apply N.eqb_eq in Ey. subst a. exfalso. apply (Hasym x y Hxy). apply Hall. exact Hx.
    + apply N.eqb_neq in Ey. destruct Hy as [Hy|Hy]; [congruence|].
      pose proof (IH x y Hx Hy Hxy). lia.
Qed.

(* order-preserving sub-list (what filter_candidates returns) *)
Inductive subseq : list N -> list N -> Prop :=
| ss_nil : subseq [] []
| ss_skip x l c : subseq l c -> subseq l (x :: c)
| ss_take x l c : subseq l c -> subseq (x :: l) (x :: c).

Lemma subseq_In l c : subseq l c -> forall x, In x l -> In x c.
Proof. induction 1; intros z Hz; simpl in *; [contradiction | auto | destruct Hz; auto]. Qed.

Lemma subseq_filter f c : subseq (filter f c) c.
Proof. induction c as [|x c IH]; simpl; [constructor|]. destruct (f x); constructor; exact IH. Qed.

Lemma subseq_refl c : subseq c c.
Proof. induction c; constructor; assumption. Qed.

Lemma SS_impl_in (R1 R2 : N -> N -> Prop) l :
  (forall x y, In x l -> In y l -> R1 x y -> R2 x y) -> StronglySorted R1 l -> StronglySorted R2 l.
Proof.
  intros H Hs. induction Hs as [|x t Hs IH Hall]; [constructor|]. constructor.
  - apply IH. intros a b Ha Hb. apply H; right; assumption.
  - rewrite Forall_forall in *. intros y Hy. apply H; [left; reflexivity | right; exact Hy | apply Hall; exact Hy].
Qed.

Lemma subseq_asc l c : subseq l c -> NoDup c -> asc (fun x => idx x c) l.
Proof.
  unfold asc. induction 1 as [|a l c Hsub IH|a l c Hsub IH]; intro Hnd; [constructor| |];
    inversion Hnd as [|? ? Ha Hc]; subst.
  - apply (SS_impl_in (fun x y => idx x c < idx y c)); [|apply IH; exact Hc].
    intros x y Hx Hy Hlt. cbn [idx].
    assert (Hxa : N.eqb x a = false) by (apply N.eqb_neq; intro; subst; apply Ha; eapply subseq_In; eauto).
    assert (Hya : N.eqb y a = false) by (apply N.eqb_neq; intro; subst; apply Ha; eapply subseq_In; eauto).
    rewrite Hxa, Hya. lia.
  - constructor.
    + apply (SS_impl_in (fun x y => idx x c < idx y c)); [|apply IH; exact Hc].
      intros x y Hx Hy Hlt. cbn [idx].
      assert (Hxa : N.eqb x a = false) by (apply N.eqb_neq; intro; subst; apply Ha; eapply subseq_In; eauto).
      assert (Hya : N.eqb y a = false) by (apply N.eqb_neq; intro; subst; apply Ha; eapply subseq_In; eauto).
      rewrite Hxa, Hya. lia.
    + apply Forall_forall. intros y Hy. cbn [idx]. rewrite N.eqb_refl.
      assert (Hya : N.eqb y a = false) by (apply N.eqb_neq; intro; subst; apply Ha; eapply subseq_In; eauto).
      rewrite Hya. lia.
Qed.

(* THE reason one [order] number per solvable suffices: sorting any
   order-preserving sub-list of the candidates by "position in the stable
   rank sort of the whole list" equals sorting it by rank *)
Theorem order_sort_agree (rank : N -> N) (c l : list N) :
  NoDup c -> subseq l c ->
  sort_stable (fun s => idx s (sort_stable rank c)) l = sort_stable rank l.
Proof.
  intros Hnd Hsub. apply sort_stable_agree.
  pose proof (sort_stable_sorted rank (fun x => idx x c) c (subseq_asc c c (subseq_refl c) Hnd)) as HS.
  pose proof (subseq_asc l c Hsub Hnd) as Hasc. unfold asc in Hasc.
  pose proof (subseq_In l c Hsub) as Hin. clear Hsub.
  set (R := sR rank (fun x => idx x c)) in *.
  assert (Hirr : forall x, ~ R x x) by (intros x H; unfold R, sR in H; lia).
  assert (Hasym : forall x y, R x y -> R y x -> False) by (intros x y H1 H2; unfold R, sR in *; lia).
  induction Hasc as [|x t Hs IH Hall]; simpl; [exact I|]. split.
  - rewrite Forall_forall in Hall. intros y Hy.
    assert (Hx : In x (sort_stable rank c)) by (apply sort_stable_In; apply Hin; left; reflexivity).
    assert (Hy' : In y (sort_stable rank c)) by (apply sort_stable_In; apply Hin; right; exact Hy).
    specialize (Hall y Hy). cbv beta in Hall.
    destruct (N.leb (rank x) (rank y)) eqn:E.
    + apply N.leb_le in E. apply N.leb_le.
      assert (Hxy : R x y) by (unfold R, sR; lia).
      pose proof (idx_sorted_lt R _ Hirr Hasym HS x y Hx Hy' Hxy). lia.
    + apply N.leb_gt in E. apply N.leb_gt.
      assert (Hyx : R y x) by (unfold R, sR; lia).
      apply (idx_sorted_lt R _ Hirr Hasym HS y x Hy' Hx Hyx).
  - apply IH. intros z Hz. apply Hin. right. exact Hz.
Qed.

(* ------------------------------------------------------------------ *)
(* fresh ids of add_package_requirement; captured ids stay resolvable *)

Lemma get_le_maxid {V} (m : mapping V) j x : Inv m -> get m j = Some x -> j <= maxid m.
Proof.
  intros HI H. rewrite (get_store m j HI) in H. destruct HI as [_ [Hb _]]. apply Hb. congruence.
Qed.

(* after ANY additions, a captured id (also the highest one) resolves to the captured entry *)
Theorem captured_resolvable sn adds v x :
  Inv (sn_vss sn) -> get (sn_vss sn) v = Some x -> vs_lookup sn adds v = Some x.
Proof.
  intros HI H. unfold vs_lookup, first_add. pose proof (get_le_maxid _ _ _ HI H) as Hle.
  replace (N.leb (maxid (sn_vss sn) + 1) v) with false by (symmetry; apply N.leb_gt; lia). exact H.
Qed.

Definition fresh_ids (sn : snapshot) (a k : nat) : list N :=
  map (fun i => first_add sn + N.of_nat (a + i)) (seq 0 k).

Definition added_entry (sn : snapshot) (n : N) : svs := mkSVs n (usort (sn_cands sn n)).

Lemma add_reqs_spec sn ns : forall adds adds' ids,
  add_reqs sn adds ns = Some (adds', ids) ->
  ids = fresh_ids sn (length adds) (length ns) /\ adds' = adds ++ map (added_entry sn) ns.
Proof.
  induction ns as [|n t IH]; intros adds adds' ids H; cbn [add_reqs] in H.
  - inversion H. subst. split; [reflexivity | symmetry; apply app_nil_r].
  - unfold add_req in H. destruct (get (sn_pkgs sn) n) as [k|] eqn:E; [|discriminate].
    destruct (add_reqs sn (adds ++ [mkSVs n (usort (sp_solvables k))]) t) as [[adds2 ids2]|] eqn:E2; [|discriminate].
    inversion H. subst adds' ids. clear H. destruct (IH _ _ _ E2) as [A B]. split.
    + unfold fresh_ids. cbn [length seq map]. f_equal.
      * unfold first_add. rewrite Nat.add_0_r. lia.
      * rewrite A. unfold fresh_ids. rewrite <- seq_shift, map_map. apply map_ext.
        intro i. rewrite app_length. cbn [length]. f_equal. f_equal. lia.
    + rewrite B, <- app_assoc. cbn [map app]. unfold added_entry at 2, sn_cands. rewrite E. reflexivity.
Qed.

Lemma fresh_ids_nodup sn a k : NoDup (fresh_ids sn a k).
Proof.
  unfold fresh_ids. generalize 0%nat as st. induction k as [|k IH]; intro st; cbn [seq map]; constructor.
  - intro Hin. apply in_map_iff in Hin. destruct Hin as [i [Hi Hin]]. apply in_seq in Hin. lia.
  - apply IH.
Qed.

Lemma fresh_ids_ge sn a k id : In id (fresh_ids sn a k) -> first_add sn <= id.
Proof. unfold fresh_ids. intro H. apply in_map_iff in H. destruct H as [i [Hi _]]. lia. Qed.

Lemma nth_error_seq n : forall st k, (k < n)%nat -> nth_error (seq st n) k = Some (st + k)%nat.
Proof.
  induction n as [|n IH]; intros st k H; [lia|]. destruct k as [|k]; cbn [seq nth_error].
  - rewrite Nat.add_0_r. reflexivity.
  - rewrite IH by lia. f_equal. lia.
Qed.

(* any number of add_package_requirement calls: the returned ids are pairwise
   distinct, are no captured version set id, and resolve to the added entry *)
Theorem fresh_ids_disjoint sn ns adds' ids :
  Inv (sn_vss sn) -> add_reqs sn [] ns = Some (adds', ids) ->
  NoDup ids /\
  (forall id, In id ids -> get (sn_vss sn) id = None) /\
  (forall id v x, In id ids -> get (sn_vss sn) v = Some x -> id <> v) /\
  (forall k n, nth_error ns k = Some n ->
     nth_error ids k = Some (first_add sn + N.of_nat k) /\
     vs_lookup sn adds' (first_add sn + N.of_nat k) = Some (added_entry sn n)).
Proof.
  intros HI H. destruct (add_reqs_spec sn ns [] adds' ids H) as [A B]. cbn [length app] in A, B. subst ids adds'.
  assert (Hnone : forall id, In id (fresh_ids sn 0 (length ns)) -> get (sn_vss sn) id = None).
  { intros id Hid. apply fresh_ids_ge in Hid. unfold first_add in Hid.
    destruct (get (sn_vss sn) id) as [x|] eqn:E; [|reflexivity].
    pose proof (get_le_maxid _ _ _ HI E). lia. }
  split; [apply fresh_ids_nodup|]. split; [exact Hnone|]. split.
  - intros id v x Hid Hv Heq. subst v. rewrite (Hnone id Hid) in Hv. discriminate.
  - intros k n Hk. split.
    + unfold fresh_ids. assert (Hlt : (k < length ns)%nat) by (apply nth_error_Some; congruence).
      rewrite (map_nth_error (fun i => first_add sn + N.of_nat (0 + i)) k (seq 0 (length ns)) (d := k));
        [reflexivity | apply (nth_error_seq (length ns) 0 k Hlt)].
    + unfold vs_lookup. replace (N.leb (first_add sn) (first_add sn + N.of_nat k)) with true
        by (symmetry; apply N.leb_le; lia).
      replace (N.to_nat (first_add sn + N.of_nat k - first_add sn)) with k by lia.
      apply map_nth_error. exact Hk.
Qed.

(* ------------------------------------------------------------------ *)
(* serde round trip *)

Lemma deser_from_tight {V} (vals : list (option V)) : forall m i, Tight m -> Tight (deser_from m i vals).
Proof.
  induction vals as [|o t IH]; intros m i H; cbn [deser_from]; [exact H|].
  destruct o as [v|]; apply IH; [apply ins_tight|]; exact H.
Qed.

Lemma mapping_roundtrip {V} (m : mapping V) : Inv m /\ Tight m ->
  let m' := deserialize (serialize m) in
  (Inv m' /\ Tight m') /\ (forall j, get m' j = get m j) /\ maxid m' = maxid m /\ len m' = len m.
Proof.
  intros [HI HT]. destruct (serde_roundtrip m HI) as [HI' [Hg Hl]]. cbn zeta in *.
  set (m' := deserialize (serialize m)) in *.
  assert (HT' : Tight m') by (apply deser_from_tight; apply new_tight).
  split; [split; assumption|]. split; [exact Hg|]. split; [|exact Hl].
  apply N.le_antisymm.
  - destruct HT' as [H0|Hs]; [lia|].
    destruct (store m' (maxid m')) as [x|] eqn:E; [|congruence].
    rewrite <- (get_store m' _ HI'), Hg in E. apply (get_le_maxid _ _ _ HI E).
  - destruct HT as [H0|Hs]; [lia|].
    destruct (store m (maxid m)) as [x|] eqn:E; [|congruence].
    rewrite <- (get_store m _ HI), <- Hg in E. apply (get_le_maxid _ _ _ HI' E).
Qed.

Definition snap_equiv (a b : snapshot) : Prop :=
  (forall j, get (sn_sols a) j = get (sn_sols b) j) /\
  (forall j, get (sn_unions a) j = get (sn_unions b) j) /\
  (forall j, get (sn_vss a) j = get (sn_vss b) j) /\
  (forall j, get (sn_pkgs a) j = get (sn_pkgs b) j) /\
  maxid (sn_vss a) = maxid (sn_vss b).

(* serialising and deserialising a snapshot yields one with the same contents
   and the same first fresh id *)
Theorem serde_roundtrip_snapshot sn :
  SInv sn -> SInv (roundtrip sn) /\ snap_equiv (roundtrip sn) sn.
Proof.
  intros [A [B [C D]]]. unfold roundtrip, snap_ser, snap_deser, SInv, snap_equiv.
  cbn [sn_sols sn_unions sn_vss sn_pkgs].
  destruct (mapping_roundtrip _ A) as [A1 [A2 _]]. destruct (mapping_roundtrip _ B) as [B1 [B2 _]].
  destruct (mapping_roundtrip _ C) as [C1 [C2 [C3 _]]]. destruct (mapping_roundtrip _ D) as [D1 [D2 _]].
  cbn zeta in *. split; [split; [exact A1|split; [exact B1|split; [exact C1|exact D1]]]|].
  split; [exact A2|]. split; [exact B2|]. split; [exact C2|]. split; [exact D2|exact C3].
Qed.

(* equivalent snapshots give providers that answer every query alike (also
   for the additional version sets, whose ids depend on maxid) *)
Theorem equiv_provider_eq a b adds : snap_equiv a b ->
  let A := snapshot_provider a adds in let B := snapshot_provider b adds in
  (forall s, p_sol_name A s = p_sol_name B s) /\ (forall s, p_deps A s = p_deps B s) /\
  (forall v, p_vs_name A v = p_vs_name B v) /\ (forall v s, p_match A v s = p_match B v s) /\
  (forall u, p_union A u = p_union B u) /\ (forall n, p_cands A n = p_cands B n) /\
  (forall n, p_excluded A n = p_excluded B n) /\ (forall n, p_hint A n = p_hint B n) /\
  (forall l, p_sort A l = p_sort B l) /\
  (forall n, p_favored A n = p_favored B n) /\ (forall n, p_locked A n = p_locked B n) /\
  (forall n, add_req a adds n = add_req b adds n).
Proof.
  intros [E1 [E2 [E3 [E4 E5]]]]. cbn zeta.
  assert (Hvl : forall v, vs_lookup a adds v = vs_lookup b adds v).
  { intro v. unfold vs_lookup, first_add. rewrite E5, E3. reflexivity. }
  assert (Hc : forall n, sn_cands a n = sn_cands b n) by (intro n; unfold sn_cands; rewrite E4; reflexivity).
  assert (Ho : forall s, order_of a s = order_of b s) by (intro s; unfold order_of; rewrite E1; reflexivity).
  assert (Hh : forall s, hint_of a s = hint_of b s) by (intro s; unfold hint_of; rewrite E1; reflexivity).
  cbn [snapshot_provider p_sol_name p_deps p_vs_name p_match p_union p_cands p_excluded p_hint p_sort p_favored p_locked].
  split; [intro s; rewrite E1; reflexivity|]. split; [intro s; rewrite E1; reflexivity|].
  split; [intro v; rewrite Hvl; reflexivity|]. split; [intros v s; rewrite Hvl; reflexivity|].
  split; [intro u; rewrite E2; reflexivity|]. split; [exact Hc|].
  split; [intro n; rewrite E4; reflexivity|].
  split; [intro n; rewrite Hc; f_equal; apply filter_ext; exact Hh|].
  split; [intro l; apply sort_stable_ext; exact Ho|].
  split; [reflexivity|]. split; [reflexivity|].
  intro n. unfold add_req. rewrite E4, E5. reflexivity.
Qed.

(* ------------------------------------------------------------------ *)
(* the snapshot provider answers like the live provider on captured ids *)

Lemma memN_filter f l s : memN s (filter f l) = memN s l && f s.
Proof.
  destruct (memN s (filter f l)) eqn:E.
  - apply memN_In in E. apply filter_In in E. destruct E as [E1 E2].
    apply memN_In in E1. rewrite E1, E2. reflexivity.
  - apply memN_false in E. destruct (memN s l) eqn:E1; [|reflexivity]. destruct (f s) eqn:E2; [|reflexivity].
    exfalso. apply E. apply filter_In. split; [apply memN_In; exact E1 | exact E2].
Qed.

Section Faithful.
Variable U : provider.
Variable sn : snapshot.
Variable adds : list svs.
Hypothesis C : Closed U sn.

Let V := snapshot_provider sn adds.

Lemma has_get {A} (m : mapping A) k : has m k -> exists x, get m k = Some x.
Proof. unfold has. destruct (get m k) as [x|]; [exists x; reflexivity | congruence]. Qed.

Lemma faithful_pkg n : has (sn_pkgs sn) n ->
  p_cands V n = p_cands U n /\ p_excluded V n = p_excluded U n /\
  p_favored V n = None /\ p_locked V n = None /\
  (* every captured candidate is flagged "dependencies available" *)
  p_hint V n = HSome (p_cands U n).
Proof.
  intro H. destruct (has_get _ _ H) as [x E]. pose proof (f_pkg U sn C n x E) as Hx. subst x.
  unfold V. cbn [snapshot_provider p_cands p_excluded p_favored p_locked p_hint]. unfold sn_cands. rewrite E.
  cbn [pkg_entry sp_solvables sp_excluded]. split; [reflexivity|]. split; [reflexivity|].
  split; [reflexivity|]. split; [reflexivity|]. f_equal.
  assert (Hall : forall s, In s (p_cands U n) -> hint_of sn s = true).
  { intros s Hs. pose proof (c_pkg U sn C n H s (or_introl Hs)) as Hh.
    destruct (has_get _ _ Hh) as [y Ey]. unfold hint_of. rewrite Ey. apply (f_sol U sn C s y Ey). }
  induction (p_cands U n) as [|a l IH]; [reflexivity|]. cbn [filter].
  rewrite (Hall a (or_introl eq_refl)). f_equal. apply IH. intros s Hs. apply Hall. right. exact Hs.
Qed.

Lemma faithful_sol s : has (sn_sols sn) s ->
  p_sol_name V s = p_sol_name U s /\ p_deps V s = p_deps U s.
Proof.
  intro H. destruct (has_get _ _ H) as [x E]. destruct (f_sol U sn C s x E) as [A [B _]].
  unfold V. cbn [snapshot_provider p_sol_name p_deps]. rewrite E. split; assumption.
Qed.

Lemma faithful_vs_lookup v : has (sn_vss sn) v -> vs_lookup sn adds v = Some (vs_entry U v).
Proof.
  intro H. destruct (has_get _ _ H) as [x E]. pose proof (f_vs U sn C v x E) as Hx. subst x.
  apply captured_resolvable; [|exact E]. apply (f_inv U sn C).
Qed.

Lemma faithful_vs v : has (sn_vss sn) v ->
  p_vs_name V v = p_vs_name U v /\
  (forall s, In s (p_cands U (p_vs_name U v)) -> p_match V v s = p_match U v s) /\
  matching V v = matching U v /\ nonmatching V v = nonmatching U v.
Proof.
  intro H. pose proof (faithful_vs_lookup v H) as E.
  assert (Hn : p_vs_name V v = p_vs_name U v).
  { unfold V. cbn [snapshot_provider p_vs_name]. rewrite E. reflexivity. }
  assert (Hm : forall s, In s (p_cands U (p_vs_name U v)) -> p_match V v s = p_match U v s).
  { intros s Hs. unfold V. cbn [snapshot_provider p_match]. rewrite E. cbn [vs_entry sv_matching].
    rewrite memN_usort. unfold matching. rewrite memN_filter.
    apply memN_In in Hs. rewrite Hs. reflexivity. }
  destruct (c_vs U sn C v H) as [Hp _]. destruct (faithful_pkg _ Hp) as [Hc _].
  split; [exact Hn|]. split; [exact Hm|]. unfold matching, nonmatching. rewrite Hn, Hc. split.
  - apply filter_ext_in. exact Hm.
  - apply filter_ext_in. intros s Hs. rewrite (Hm s Hs). reflexivity.
Qed.

(* union members: the stored hash set, returned in ascending id order *)
Lemma faithful_union u : has (sn_unions sn) u ->
  p_union V u = usort (p_union U u) /\
  (forall v, In v (p_union V u) <-> In v (p_union U u)) /\
  (StronglySorted N.lt (p_union U u) -> p_union V u = p_union U u).
Proof.
  intro H. destruct (has_get _ _ H) as [l E]. pose proof (f_un U sn C u l E) as Hl. subst l.
  assert (Hu : p_union V u = usort (p_union U u)).
  { unfold V. cbn [snapshot_provider p_union]. rewrite E. reflexivity. }
  split; [exact Hu|]. split.
  - intro v. rewrite Hu. apply usort_In.
  - intro Hs. rewrite Hu. apply usort_id. exact Hs.
Qed.

(* sort_candidates of the snapshot = the live sort, for every order-preserving
   sub-list of a captured package's candidates, when the live sort is a stable
   sort by some rank function *)
Lemma faithful_sort (rank : N -> N) n l :
  (forall l, p_sort U l = sort_stable rank l) -> wf_cands U ->
  (forall n, has (sn_pkgs sn) n -> forall s, In s (p_cands U n) ->
     order_of sn s = idx s (p_sort U (p_cands U n))) ->
  has (sn_pkgs sn) n -> subseq l (p_cands U n) ->
  p_sort V l = p_sort U l.
Proof.
  intros Hrank [Hnd _] Hord Hn Hsub. unfold V. cbn [snapshot_provider p_sort].
  rewrite Hrank, <- (order_sort_agree rank (p_cands U n) l (Hnd n) Hsub).
  apply sort_stable_agree.
  assert (Hin : forall s, In s l -> order_of sn s = idx s (sort_stable rank (p_cands U n))).
  { intros s Hs. rewrite <- Hrank. apply Hord; [exact Hn|]. eapply subseq_In; eauto. }
  clear Hsub. induction l as [|x t IH]; simpl; [exact I|]. split.
  - intros y Hy. rewrite (Hin x (or_introl eq_refl)), (Hin y (or_intror Hy)). reflexivity.
  - apply IH. intros s Hs. apply Hin. right. exact Hs.
Qed.

End Faithful.

(* ------------------------------------------------------------------ *)
(* [valid] depends on the provider only through its answers on the ids that
   occur in the selection and in the requirements met along the way *)

Section ValidExt.
Variables U V : provider.
Variable P : problem.
Variable S : list N.

Definition relevant_req (r : req) : Prop :=
  In r (pr_reqs P) \/ exists s rs cs, In s S /\ p_deps U s = Known rs cs /\ In r rs.
Definition relevant_con (v : N) : Prop :=
  In v (pr_cons P) \/ exists s rs cs, In s S /\ p_deps U s = Known rs cs /\ In v cs.

Definition agree : Prop :=
  (forall s, In s S -> p_sol_name U s = p_sol_name V s /\ p_deps U s = p_deps V s) /\
  (forall s, In s S ->
     (In s (p_excluded U (p_sol_name U s)) <-> In s (p_excluded V (p_sol_name U s))) /\
     p_locked U (p_sol_name U s) = p_locked V (p_sol_name U s) /\
     (In s (p_cands U (p_sol_name U s)) <-> In s (p_cands V (p_sol_name U s)))) /\
  (forall r, relevant_req r -> forall s, In s S -> (cand_of U r s <-> cand_of V r s)) /\
  (forall v, relevant_con v -> forall s, In s S -> (In s (nonmatching U v) <-> In s (nonmatching V v))).

Lemma req_met_cand W r : req_met W S r <-> exists s, In s S /\ cand_of W r s.
Proof.
  unfold req_met, cand_of. split.
  - intros [v [s [A [B D]]]]. exists s. split; [exact D|]. exists v. split; assumption.
  - intros [s [D [v [A B]]]]. exists v, s. split; [exact A|]. split; assumption.
Qed.

Hypothesis A : agree.

Lemma deps_ok_ext d :
  (forall rs cs, d = Known rs cs -> (forall r, In r rs -> relevant_req r) /\ (forall v, In v cs -> relevant_con v)) ->
  (deps_ok U S d <-> deps_ok V S d).
Proof.
  destruct A as [_ [_ [A3 A4]]]. destruct d as [rs cs|]; [|intros _; simpl; tauto].
  intro H. destruct (H rs cs eq_refl) as [Hr Hc]. cbn [deps_ok]. split; intros [H1 H2]; split.
  - intros r Hin. apply req_met_cand. destruct (proj1 (req_met_cand U r) (H1 r Hin)) as [s [Hs Hcand]].
    exists s. split; [exact Hs|]. apply (A3 r (Hr r Hin) s Hs). exact Hcand.
  - intros v Hin s Hs Hnm. apply (H2 v Hin s Hs). apply (A4 v (Hc v Hin) s Hs). exact Hnm.
  - intros r Hin. apply req_met_cand. destruct (proj1 (req_met_cand V r) (H1 r Hin)) as [s [Hs Hcand]].
    exists s. split; [exact Hs|]. apply (A3 r (Hr r Hin) s Hs). exact Hcand.
  - intros v Hin s Hs Hnm. apply (H2 v Hin s Hs). apply (A4 v (Hc v Hin) s Hs). exact Hnm.
Qed.

Theorem valid_ext ex : valid U P S ex <-> valid V P S ex.
Proof.
  pose proof A as [A1 [A2 _]]. unfold valid.
  assert (Hroot : deps_ok U S (Known (pr_reqs P) (pr_cons P)) <-> deps_ok V S (Known (pr_reqs P) (pr_cons P))).
  { apply deps_ok_ext. intros rs cs E. inversion E. subst. split; intros x Hx; left; exact Hx. }
  assert (Hdeps : forall s, In s S -> (deps_ok U S (p_deps U s) <-> deps_ok V S (p_deps V s))).
  { intros s Hs. destruct (A1 s Hs) as [_ Hd]. rewrite <- Hd. apply deps_ok_ext.
    intros rs cs E. split; intros x Hx; right; exists s, rs, cs; auto. }
  assert (Hpkg : forall s, In s S -> (pkg_ok U s <-> pkg_ok V s)).
  { intros s Hs. destruct (A1 s Hs) as [Hn _]. destruct (A2 s Hs) as [He [Hl Hc]].
    unfold pkg_ok, name. rewrite <- Hn, <- Hl. split; intros [X Y]; (split; [tauto|]).
    - intros l El Hin. apply Y; [exact El | apply Hc; exact Hin].
    - intros l El Hin. apply Y; [exact El | apply Hc; exact Hin]. }
  assert (Hone : one_per_name U S <-> one_per_name V S).
  { unfold one_per_name, name. split; intros H s t Hs Ht E; apply H; auto;
      destruct (A1 s Hs) as [Hn1 _]; destruct (A1 t Ht) as [Hn2 _]; congruence. }
  rewrite Hroot, Hone. split; intros [H1 [H2 [H3 H4]]]; (split; [exact H1|]; split; [|split; [|exact H4]]).
  - intros s Hs. apply (Hdeps s Hs). apply H2. exact Hs.
  - intros s Hs Hex. apply (Hpkg s Hs). apply H3; assumption.
  - intros s Hs. apply (Hdeps s Hs). apply H2. exact Hs.
  - intros s Hs Hex. apply (Hpkg s Hs). apply H3; assumption.
Qed.

End ValidExt.

(* ------------------------------------------------------------------ *)
(* solver-level corollaries (no solver model: stated on the Spec) *)

Section SolveThroughSnapshot.
Variable U : provider.
Variable sn : snapshot.
Variable adds : list svs.
Hypothesis C : Closed U sn.
(* the format does not represent locked candidates *)
Hypothesis no_locks : forall n, has (sn_pkgs sn) n -> p_locked U n = None.

Let V := snapshot_provider sn adds.

(* the problem is expressed over captured version sets / unions *)
Definition req_captured (r : req) : Prop :=
  match r with RSingle v => has (sn_vss sn) v | RUnion u => has (sn_unions sn) u end.
Definition problem_captured (P : problem) : Prop :=
  (forall r, In r (pr_reqs P) -> req_captured r) /\ (forall v, In v (pr_cons P) -> has (sn_vss sn) v).

Lemma cand_of_eq r s : req_captured r -> (cand_of U r s <-> cand_of V r s).
Proof.
  intro H. unfold cand_of. destruct r as [v|u]; cbn [req_captured req_vss] in *.
  - destruct (faithful_vs U sn adds C v H) as [_ [_ [Hm _]]]. fold V in Hm.
    split; intros [w [[Hw|[]] Hs]]; subst w; exists v; (split; [left; reflexivity|]); congruence.
  - destruct (faithful_union U sn adds C u H) as [_ [Hmem _]]. fold V in Hmem.
    split; intros [w [Hw Hs]]; exists w.
    + assert (Hc : has (sn_vss sn) w) by (apply (c_un U sn C u H); exact Hw).
      destruct (faithful_vs U sn adds C w Hc) as [_ [_ [Hm _]]]. fold V in Hm.
      split; [apply Hmem; exact Hw | rewrite Hm; exact Hs].
    + apply Hmem in Hw. assert (Hc : has (sn_vss sn) w) by (apply (c_un U sn C u H); exact Hw).
      destruct (faithful_vs U sn adds C w Hc) as [_ [_ [Hm _]]]. fold V in Hm.
      split; [exact Hw | rewrite <- Hm; exact Hs].
Qed.

Lemma relevant_req_captured P S r :
  problem_captured P -> (forall s, In s S -> has (sn_sols sn) s) -> relevant_req U P S r -> req_captured r.
Proof.
  intros [HP _] HS [Hr|[s [rs [cs [Hs [Hd Hr]]]]]]; [apply HP; exact Hr|].
  destruct (c_sol U sn C s (HS s Hs)) as [_ Hc]. destruct (Hc rs cs Hd) as [_ [H1 H2]].
  destruct r as [v|u]; cbn [req_captured]; [apply H1 | apply H2]; exact Hr.
Qed.

Lemma relevant_con_captured P S v :
  problem_captured P -> (forall s, In s S -> has (sn_sols sn) s) -> relevant_con U P S v -> has (sn_vss sn) v.
Proof.
  intros [_ HP] HS [Hr|[s [rs [cs [Hs [Hd Hr]]]]]]; [apply HP; exact Hr|].
  destruct (c_sol U sn C s (HS s Hs)) as [_ Hc]. destruct (Hc rs cs Hd) as [H1 _]. apply H1. exact Hr.
Qed.

Lemma snapshot_agree P S :
  problem_captured P -> (forall s, In s S -> has (sn_sols sn) s) -> agree U V P S.
Proof.
  intros HP HS. unfold agree. split; [|split; [|split]].
  - intros s Hs. destruct (faithful_sol U sn adds C s (HS s Hs)) as [A B]. fold V in A, B. split; congruence.
  - intros s Hs. destruct (c_sol U sn C s (HS s Hs)) as [Hp _].
    destruct (faithful_pkg U sn adds C _ Hp) as [A [B [_ [D _]]]]. fold V in A, B, D.
    rewrite A, B, D, (no_locks _ Hp). split; [tauto|]. split; [reflexivity|tauto].
  - intros r Hr s _. apply cand_of_eq. eapply relevant_req_captured; eauto.
  - intros v Hv s _. pose proof (relevant_con_captured P S v HP HS Hv) as Hc.
    destruct (faithful_vs U sn adds C v Hc) as [_ [_ [_ Hm]]]. fold V in Hm. rewrite Hm. tauto.
Qed.

Theorem snapshot_valid_iff P S ex :
  problem_captured P -> (forall s, In s S -> has (sn_sols sn) s) ->
  (valid U P S ex <-> valid V P S ex).
Proof. intros HP HS. apply valid_ext. apply snapshot_agree; assumption. Qed.

(* a selection valid for the snapshot provider consists of captured solvables *)
Lemma snapshot_valid_captured P S ex : valid V P S ex -> forall s, In s S -> has (sn_sols sn) s.
Proof.
  intros [_ [H _]] s Hs. specialize (H s Hs). unfold has. intro E.
  unfold V in H. cbn [snapshot_provider p_deps] in H. rewrite E in H. exact H.
Qed.

(* every solution found through the snapshot is a solution of the live problem *)
Theorem snapshot_solution_valid_live P S ex :
  problem_captured P -> valid V P S ex -> valid U P S ex.
Proof.
  intros HP Hv. apply (snapshot_valid_iff P S ex HP); [|exact Hv].
  apply (snapshot_valid_captured P S ex Hv).
Qed.

Definition capd (s : N) : bool := match get (sn_sols sn) s with Some _ => true | None => false end.

Lemma capd_has s : capd s = true <-> has (sn_sols sn) s.
Proof. unfold capd, has. destruct (get (sn_sols sn) s); split; intro H; congruence. Qed.

(* restricting a live solution to the captured solvables keeps it a solution *)
Lemma restrict_valid P S :
  problem_captured P -> valid U P S [] -> valid U P (filter capd S) [].
Proof.
  intros HP [H1 [H2 [H3 H4]]].
  assert (Hreq : forall r, req_captured r -> req_met U S r -> req_met U (filter capd S) r).
  { intros r Hr [v [s [Hv [Hs HsS]]]]. exists v, s. split; [exact Hv|]. split; [exact Hs|].
    apply filter_In. split; [exact HsS|]. apply capd_has.
    assert (Hc : has (sn_vss sn) v).
    { destruct r as [w|u]; cbn [req_vss req_captured] in *.
      - destruct Hv as [Hv|[]]. subst. exact Hr.
      - apply (c_un U sn C u Hr). exact Hv. }
    apply (c_vs U sn C v Hc). exact Hs. }
  assert (Hcon : forall v, con_ok U S v -> con_ok U (filter capd S) v).
  { intros v Hc s Hs. apply Hc. apply filter_In in Hs. apply Hs. }
  unfold valid. split; [|split; [|split]].
  - destruct H1 as [A B]. split.
    + intros r Hr. apply Hreq; [apply HP; exact Hr | apply A; exact Hr].
    + intros v Hv. apply Hcon. apply B. exact Hv.
  - intros s Hs. apply filter_In in Hs. destruct Hs as [HsS Hcap]. apply capd_has in Hcap.
    specialize (H2 s HsS). destruct (p_deps U s) as [rs cs|] eqn:Ed; [|exact H2].
    destruct (c_sol U sn C s Hcap) as [_ Hc]. destruct (Hc rs cs Ed) as [_ [X1 X2]].
    destruct H2 as [A B]. split.
    + intros r Hr. apply Hreq; [|apply A; exact Hr].
      destruct r as [v|u]; cbn [req_captured]; [apply X1 | apply X2]; exact Hr.
    + intros v Hv. apply Hcon. apply B. exact Hv.
  - intros s Hs Hex. apply filter_In in Hs. apply H3; [apply Hs | exact Hex].
  - intros s t Hs Ht. apply filter_In in Hs, Ht. apply H4; [apply Hs | apply Ht].
Qed.

(* same verdict: the problem is solvable through the snapshot iff it is
   solvable against the live provider *)
Theorem snapshot_same_verdict P :
  problem_captured P -> (solvable U P <-> solvable V P).
Proof.
  intro HP. unfold solvable. split; intros [S HS].
  - exists (filter capd S). apply (snapshot_valid_iff P (filter capd S) [] HP).
    + intros s Hs. apply filter_In in Hs. apply capd_has. apply Hs.
    + apply restrict_valid; assumption.
  - exists S. apply (snapshot_solution_valid_live P S [] HP HS).
Qed.

End SolveThroughSnapshot.

(* ------------------------------------------------------------------ *)
(* the hypotheses hold for the table provider of the harness *)

Lemma rank_sort_perm U rank : (forall l, p_sort U l = sort_stable rank l) -> sort_perm U.
Proof. intros H l. rewrite H. apply sort_stable_perm. Qed.

Definition table_rank (u : universe) (s : N) : N :=
  match u_sol u s with Some x => s_rank x | None => 0 end.

Lemma table_sort_rank u : forall l, p_sort (table_provider u) l = sort_stable (table_rank u) l.
Proof. reflexivity. Qed.

Lemma table_sort_perm u : sort_perm (table_provider u).
Proof. apply (rank_sort_perm _ (table_rank u)). apply table_sort_rank. Qed.

Fixpoint nodupb (l : list N) : bool :=
  match l with [] => true | x :: t => negb (memN x t) && nodupb t end.

Lemma nodupb_NoDup l : nodupb l = true -> NoDup l.
Proof.
  induction l as [|x t IH]; simpl; intro H; [constructor|].
  apply andb_true_iff in H. destruct H as [H1 H2]. constructor; [|apply IH; exact H2].
  apply memN_false. apply negb_true_iff. exact H1.
Qed.

Definition wf_candsb (u : universe) : bool :=
  forallb (fun i => let n := N.of_nat i in let c := p_cands (table_provider u) n in
             nodupb c && forallb (fun s => N.eqb (p_sol_name (table_provider u) s) n) c)
          (seq 0 (length (u_pkgs u))).

Lemma wf_candsb_spec u : wf_candsb u = true -> wf_cands (table_provider u).
Proof.
  intro H. unfold wf_candsb in H. rewrite forallb_forall in H.
  assert (G : forall n, NoDup (p_cands (table_provider u) n) /\
                        forall s, In s (p_cands (table_provider u) n) -> p_sol_name (table_provider u) s = n).
  { intro n. destruct (Nat.ltb (N.to_nat n) (length (u_pkgs u))) eqn:E.
    - apply Nat.ltb_lt in E. specialize (H (N.to_nat n)). rewrite N2Nat.id in H.
      assert (Hin : In (N.to_nat n) (seq 0 (length (u_pkgs u)))) by (apply in_seq; lia).
      specialize (H Hin). cbn zeta in H. apply andb_true_iff in H. destruct H as [H1 H2]. split.
      + apply nodupb_NoDup. exact H1.
      + intros s Hs. rewrite forallb_forall in H2. apply N.eqb_eq. apply H2. exact Hs.
    - apply Nat.ltb_ge in E. assert (Hn : u_pkg u n = None) by (apply nth_error_None; exact E).
      cbn [table_provider p_cands]. rewrite Hn. split; [constructor | intros s []]. }
  split; intro n; apply G.
Qed.

(* table with default entries: sparse-id universes written compactly *)
Definition tabulate {A} (d : A) (l : list (N * A)) (n : nat) : list A :=
  map (fun i => match find (fun p => N.eqb (fst p) (N.of_nat i)) l with
                | Some p => snd p | None => d end) (seq 0 n).

(* ------------------------------------------------------------------ *)
(* packaged statements *)

Definition captured_pkg (sn : snapshot) n := has (sn_pkgs sn) n.
Definition captured_sol (sn : snapshot) s := has (sn_sols sn) s.
Definition captured_vs (sn : snapshot) v := has (sn_vss sn) v.
Definition captured_union (sn : snapshot) u := has (sn_unions sn) u.

Section Packaged.
Variable U : provider.
Variables (fuel : nat) (names vss sols : list N) (sn : snapshot).
Hypothesis Hcap : capture U fuel names vss sols = Some sn.

Theorem capture_faithful adds :
  let V := snapshot_provider sn adds in
  (forall n, captured_pkg sn n ->
     p_cands V n = p_cands U n /\ p_excluded V n = p_excluded U n /\
     p_favored V n = None /\ p_locked V n = None /\ p_hint V n = HSome (p_cands U n)) /\
  (forall s, captured_sol sn s -> p_sol_name V s = p_sol_name U s /\ p_deps V s = p_deps U s) /\
  (forall v, captured_vs sn v ->
     p_vs_name V v = p_vs_name U v /\
     (forall s, In s (p_cands U (p_vs_name U v)) -> p_match V v s = p_match U v s) /\
     matching V v = matching U v /\ nonmatching V v = nonmatching U v) /\
  (forall u, captured_union sn u ->
     p_union V u = usort (p_union U u) /\ (forall v, In v (p_union V u) <-> In v (p_union U u)) /\
     (StronglySorted N.lt (p_union U u) -> p_union V u = p_union U u)).
Proof.
  destruct (capture_spec U _ _ _ _ _ Hcap) as [C _]. cbn zeta.
  split; [intros n H; apply (faithful_pkg U sn adds C n H)|].
  split; [intros s H; apply (faithful_sol U sn adds C s H)|].
  split; [intros v H; apply (faithful_vs U sn adds C v H)|].
  intros u H. apply (faithful_union U sn adds C u H).
Qed.

Theorem capture_closed :
  (forall n, In n names -> captured_pkg sn n) /\ (forall v, In v vss -> captured_vs sn v) /\
  (forall s, In s sols -> captured_sol sn s) /\
  (forall n, captured_pkg sn n ->
     forall s, In s (p_cands U n) \/ In s (p_excluded U n) -> captured_sol sn s) /\
  (forall s, captured_sol sn s ->
     captured_pkg sn (p_sol_name U s) /\
     forall rs cs, p_deps U s = Known rs cs ->
       (forall v, In v cs -> captured_vs sn v) /\ (forall v, In (RSingle v) rs -> captured_vs sn v) /\
       (forall u, In (RUnion u) rs -> captured_union sn u)) /\
  (forall u, captured_union sn u -> forall v, In v (p_union U u) -> captured_vs sn v) /\
  (forall v, captured_vs sn v ->
     captured_pkg sn (p_vs_name U v) /\ forall s, In s (matching U v) -> captured_sol sn s).
Proof.
  destruct (capture_spec U _ _ _ _ _ Hcap) as [C [[S1 [S2 S3]] _]].
  split; [exact S1|]. split; [exact S2|]. split; [exact S3|].
  split; [apply (c_pkg U sn C)|]. split; [apply (c_sol U sn C)|].
  split; [apply (c_un U sn C) | apply (c_vs U sn C)].
Qed.

(* every candidate of every captured package -- whatever its name id -- gets
   its position in the provider's sort of that package's own candidate list *)
Theorem order_complete :
  sort_perm U -> wf_cands U ->
  forall n, captured_pkg sn n -> forall s, In s (p_cands U n) ->
    order_of sn s = idx s (p_sort U (p_cands U n)).
Proof. destruct (capture_spec U _ _ _ _ _ Hcap) as [_ [_ H]]. exact H. Qed.

Theorem capture_sort_agrees adds rank :
  (forall l, p_sort U l = sort_stable rank l) -> wf_cands U ->
  forall n l, captured_pkg sn n -> subseq l (p_cands U n) ->
    p_sort (snapshot_provider sn adds) l = p_sort U l.
Proof.
  intros Hr Hw n l Hn Hl. destruct (capture_spec U _ _ _ _ _ Hcap) as [C _].
  apply (faithful_sort U sn adds rank n l Hr Hw); [|exact Hn|exact Hl].
  apply order_complete; [eapply rank_sort_perm; eauto | exact Hw].
Qed.

(* decision order of a captured version set: same sorted candidate list *)
Corollary capture_sorted_cands adds rank v :
  (forall l, p_sort U l = sort_stable rank l) -> wf_cands U ->
  captured_vs sn v -> p_favored U (p_vs_name U v) = None ->
  sorted_cands (snapshot_provider sn adds) v = sorted_cands U v.
Proof.
  intros Hr Hw Hv Hf. destruct (capture_faithful adds) as [_ [_ [F _]]]. cbn zeta in F.
  destruct (F v Hv) as [_ [_ [Hm _]]]. unfold sorted_cands. rewrite Hm, Hf.
  cbn [snapshot_provider p_favored favor].
  destruct capture_closed as [_ [_ [_ [_ [_ [_ Hc]]]]]]. destruct (Hc v Hv) as [Hp _].
  apply (capture_sort_agrees adds rank Hr Hw _ _ Hp). apply subseq_filter.
Qed.

Theorem capture_inv : SInv sn.
Proof. destruct (capture_spec U _ _ _ _ _ Hcap) as [C _]. apply (f_inv U sn C). Qed.

Theorem capture_solution_valid_live adds P S ex :
  (forall n, captured_pkg sn n -> p_locked U n = None) ->
  problem_captured sn P ->
  valid (snapshot_provider sn adds) P S ex -> valid U P S ex.
Proof.
  intros Hl HP. destruct (capture_spec U _ _ _ _ _ Hcap) as [C _].
  apply (snapshot_solution_valid_live U sn adds C Hl P S ex HP).
Qed.

Theorem capture_same_verdict adds P :
  (forall n, captured_pkg sn n -> p_locked U n = None) ->
  problem_captured sn P ->
  (solvable U P <-> solvable (snapshot_provider sn adds) P).
Proof.
  intros Hl HP. destruct (capture_spec U _ _ _ _ _ Hcap) as [C _].
  apply (snapshot_same_verdict U sn adds C Hl P HP).
Qed.

End Packaged.

(* ------------------------------------------------------------------ *)
(* the three repaired defects, on the model of the code as it was *)

(* F2: s0:name0 requires vs1; s1,s2:name1; vs0:name0[0]; vs1:name1[1] *)
Definition u_F2 : universe :=
  mkU [mkSol 0 0 (Known [RSingle 1] []); mkSol 1 1 (Known [] []); mkSol 1 0 (Known [] [])]
      [mkVs 0 [0]; mkVs 1 [1]] []
      [mkPkg false [0] None None [] HNone; mkPkg false [1; 2] None None [] HNone].

Example F2_pre_fix_shadows :
  match capture (table_provider u_F2) 20 [0; 1] [0; 1] [] with
  | Some sn =>
    (* before the repair: no additions -> the highest captured id indexes an empty vector;
       one addition -> its id equals the highest captured id and shadows it *)
    vs_lookup_pre_fix sn [] 1 = None /\
    add_req_id_pre_fix sn [] = 1 /\
    vs_lookup_pre_fix sn [added_entry sn 0] 1 = Some (mkSVs 0 [0]) /\
    (* now *)
    vs_lookup sn [added_entry sn 0] 1 = Some (mkSVs 1 [1]) /\
    add_req sn [] 0 = Some ([mkSVs 0 [0]], 2) /\
    vs_lookup sn [added_entry sn 0] 2 = Some (mkSVs 0 [0])
  | None => False
  end.
Proof. vm_compute. repeat split; reflexivity. Qed.

(* F1 through the snapshot: name ids {5, 200}; package 200 has candidates [1;2]
   with ranks 1, 0 -> the provider's sort is [2;1] *)
Definition u_F1 : universe :=
  mkU [mkSol 5 0 (Known [RSingle 1] []); mkSol 200 1 (Known [] []); mkSol 200 0 (Known [] [])]
      [mkVs 5 [0]; mkVs 200 [1; 2]] []
      (tabulate (mkPkg false [] None None [] HNone)
         [(5, mkPkg false [0] None None [] HNone); (200, mkPkg false [1; 2] None None [] HNone)] 201).

Example F1_pre_fix_orders :
  match capture_pre_fix (table_provider u_F1) 20 [] [0] [], capture (table_provider u_F1) 20 [] [0] [] with
  | Some old, Some sn =>
    map (order_of old) [0; 1; 2] = [0; 0; 0] /\
    p_sort (snapshot_provider old []) [1; 2] = [1; 2] /\
    map (order_of sn) [0; 1; 2] = [0; 1; 0] /\
    p_sort (snapshot_provider sn []) [1; 2] = [2; 1] /\
    p_sort (table_provider u_F1) [1; 2] = [2; 1]
  | _, _ => False
  end.
Proof. vm_compute. repeat split; reflexivity. Qed.

(* the hint flags are NOT a copy of the provider's: every captured solvable is
   flagged (are_dependencies_available_for is asked after the dependencies were
   fetched; the collected `available_hints` set is never read) *)
Example hints_not_preserved :
  exists u names vss sols sn n,
    capture (table_provider u) 20 names vss sols = Some sn /\
    p_hint (table_provider u) n = HNone /\ p_hint (snapshot_provider sn []) n = HSome [1; 2].
Proof.
  destruct (capture (table_provider u_F2) 20 [0; 1] [0; 1] []) as [sn|] eqn:E; [|vm_compute in E; discriminate].
  exists u_F2, [0; 1], [0; 1], [], sn, 1. split; [exact E|]. split; [reflexivity|].
  revert E. vm_compute. intro E. inversion E. reflexivity.
Qed.

(* a round-tripped snapshot answers every provider query (and numbers fresh
   ids) exactly like the original *)
Theorem roundtrip_provider_eq sn adds : SInv sn ->
  let A := snapshot_provider (roundtrip sn) adds in let B := snapshot_provider sn adds in
  (forall s, p_sol_name A s = p_sol_name B s) /\ (forall s, p_deps A s = p_deps B s) /\
  (forall v, p_vs_name A v = p_vs_name B v) /\ (forall v s, p_match A v s = p_match B v s) /\
  (forall u, p_union A u = p_union B u) /\ (forall n, p_cands A n = p_cands B n) /\
  (forall n, p_excluded A n = p_excluded B n) /\ (forall n, p_hint A n = p_hint B n) /\
  (forall l, p_sort A l = p_sort B l) /\
  (forall n, p_favored A n = p_favored B n) /\ (forall n, p_locked A n = p_locked B n) /\
  (forall n, add_req (roundtrip sn) adds n = add_req sn adds n).
Proof. intro H. apply equiv_provider_eq. apply serde_roundtrip_snapshot. exact H. Qed.

Theorem table_provider_hyps u :
  (forall l, p_sort (table_provider u) l = sort_stable (table_rank u) l) /\
  sort_perm (table_provider u) /\
  (wf_candsb u = true -> wf_cands (table_provider u)).
Proof. split; [apply table_sort_rank|]. split; [apply table_sort_perm | apply wf_candsb_spec]. Qed.

(* the listing order of a union's members is NOT represented (hash set,
   returned ascending): s2 requires union [vs1; vs0]; live prefers s1, the
   snapshot prefers s0 *)
Definition u_L1 : universe :=
  mkU [mkSol 0 0 (Known [] []); mkSol 1 0 (Known [] []); mkSol 2 0 (Known [RUnion 0] [])]
      [mkVs 0 [0]; mkVs 1 [1]; mkVs 2 [2]] [[1; 0]]
      [mkPkg false [0] None None [] HNone; mkPkg false [1] None None [] HNone; mkPkg false [2] None None [] HNone].

Example union_order_not_preserved :
  exists u names vss sols sn x,
    capture (table_provider u) 20 names vss sols = Some sn /\
    p_union (table_provider u) x = [1; 0] /\ p_union (snapshot_provider sn []) x = [0; 1] /\
    first_choice (table_provider u) (RUnion x) = Some 1 /\
    first_choice (snapshot_provider sn []) (RUnion x) = Some 0.
Proof.
  destruct (capture (table_provider u_L1) 20 [0; 1; 2] [] []) as [sn|] eqn:E; [|vm_compute in E; discriminate].
  exists u_L1, [0; 1; 2], [], [], sn, 0. split; [exact E|]. split; [reflexivity|].
  revert E. vm_compute. intro E. inversion E. repeat split; reflexivity.
Qed.
