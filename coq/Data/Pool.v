(* Data/Pool.v -- executable model of src/utils/pool.rs (on top of Data/Arena.v).

   Package names, strings and version sets are each an arena plus a
   FrozenCopyMap from value to id ("interner"): intern = lookup, and only on a
   miss alloc + insert.  Solvables and version-set unions are plain arenas (never
   deduplicated).  Values are numbers: the harness maps name/string number n to
   the Rust strings "n<n>" / "s<n>" (injective), a version set to a newtype
   around the number, a solvable record to the number itself.

   A *held reference* is what the Rust caller keeps when it stores the [&T]
   returned by resolve_*: the location (chunk, offset) it points at and the
   value read at that moment.  [PCheck] reads the held location again later. *)
From Coq Require Import List Arith NArith Bool Lia.
From Resolvo Require Import Gen.Consts Data.Arena.
Import ListNotations.
Open Scope N_scope.

(* ------------------------------------------------------------------ *)
(* arena + value->id map *)

Section Interner.
Context {K : Type} (eqb : K -> K -> bool).
Hypothesis eqb_spec : forall a b, eqb a b = true <-> a = b.

Record interner := mkInterner { iarena : arena K; imap : list (K * N) }.

(* FrozenCopyMap::get_copy; insert_copy is cons (newest binding wins, as
   HashMap::insert overwrites) *)
Fixpoint lookup (m : list (K * N)) (k : K) : option N :=
  match m with
  | [] => None
  | (k', i) :: t => if eqb k k' then Some i else lookup t k
  end.

Definition iempty : interner := {| iarena := new; imap := [] |}.

(* Pool::intern_package_name / intern_string / intern_version_set *)
Definition intern (s : interner) (k : K) : interner * N :=
  match lookup (imap s) k with
  | Some id => (s, id)
  | None =>
      let '(a', id) := alloc (iarena s) k in
      ({| iarena := a'; imap := (k, id) :: imap s |}, id)
  end.

(* the map knows exactly the arena contents *)
Definition IInv (s : interner) : Prop :=
  Inv (iarena s) /\
  forall k id, lookup (imap s) k = Some id <-> get (iarena s) id = Some k.

Lemma iempty_inv : IInv iempty.
Proof.
  split; [apply with_capacity_inv|]. intros k id. cbn [iempty imap iarena lookup].
  split; [discriminate|]. intro H. apply get_lt in H. cbn in H. lia.
Qed.

Lemma intern_hit s k id : lookup (imap s) k = Some id -> intern s k = (s, id).
Proof. intro H. unfold intern. rewrite H. reflexivity. Qed.

Lemma intern_miss s k : lookup (imap s) k = None ->
  intern s k = ({| iarena := fst (alloc (iarena s) k); imap := (k, len (iarena s)) :: imap s |},
                len (iarena s)).
Proof. intro H. unfold intern. rewrite H. reflexivity. Qed.

Lemma eqb_refl k : eqb k k = true.
Proof. apply eqb_spec. reflexivity. Qed.

Lemma intern_inv s k : IInv s -> IInv (fst (intern s k)).
Proof.
  intros [HA HM]. destruct (lookup (imap s) k) as [id|] eqn:E.
  - rewrite (intern_hit s k id E). split; assumption.
  - rewrite (intern_miss s k E). cbn [fst]. split; cbn [iarena imap].
    + apply alloc_inv. exact HA.
    + intros k' id. rewrite get_alloc by exact HA. cbn [lookup].
      destruct (eqb k' k) eqn:Ek.
      * apply eqb_spec in Ek. subst k'.
        destruct (N.eqb id (len (iarena s))) eqn:Ei.
        -- apply N.eqb_eq in Ei. subst id. split; reflexivity.
        -- apply N.eqb_neq in Ei. split; [congruence|].
           intro Hg. apply HM in Hg. congruence.
      * destruct (N.eqb id (len (iarena s))) eqn:Ei.
        -- apply N.eqb_eq in Ei. subst id. split.
           ++ intro Hl. apply HM in Hl. apply get_lt in Hl. lia.
           ++ intro Hs. inversion Hs. subst k'. rewrite eqb_refl in Ek. discriminate.
        -- apply HM.
Qed.

Lemma intern_ext s k : IInv s -> aext (iarena s) (iarena (fst (intern s k))).
Proof.
  intros [HA HM]. destruct (lookup (imap s) k) as [id|] eqn:E.
  - rewrite (intern_hit s k id E). apply aext_refl.
  - rewrite (intern_miss s k E). cbn [fst iarena]. apply alloc_ext. exact HA.
Qed.

Lemma intern_get s k : IInv s -> get (iarena (fst (intern s k))) (snd (intern s k)) = Some k.
Proof.
  intros [HA HM]. destruct (lookup (imap s) k) as [id|] eqn:E.
  - rewrite (intern_hit s k id E). cbn [fst snd]. apply HM. exact E.
  - rewrite (intern_miss s k E). cbn [fst snd iarena]. rewrite get_alloc by exact HA.
    rewrite N.eqb_refl. reflexivity.
Qed.

(* an already interned value: same id, nothing changes *)
Lemma interner_idem s k id : IInv s -> get (iarena s) id = Some k -> intern s k = (s, id).
Proof. intros [HA HM] Hg. apply intern_hit. apply HM. exact Hg. Qed.

(* a new value gets the next dense id *)
Lemma intern_fresh s k : IInv s -> (forall id, get (iarena s) id <> Some k) ->
  snd (intern s k) = len (iarena s) /\ len (iarena (fst (intern s k))) = len (iarena s) + 1.
Proof.
  intros [HA HM] Hn. destruct (lookup (imap s) k) as [id|] eqn:E.
  - apply HM in E. destruct (Hn id E).
  - rewrite (intern_miss s k E). cbn [fst snd iarena]. split; reflexivity.
Qed.

End Interner.

Arguments interner K : clear implicits.

(* ------------------------------------------------------------------ *)
(* the pool *)

Inductive kind := KName | KString | KVs | KSolv.

(* what gets interned with deduplication *)
Inductive ikey := IKName (v : N) | IKString (v : N) | IKVs (name v : N).

Definition ikind (k : ikey) : kind :=
  match k with IKName _ => KName | IKString _ => KString | IKVs _ _ => KVs end.

(* what reading through the reference returned by resolve_* yields *)
Definition kview (k : ikey) : list N :=
  match k with IKName v => [v] | IKString v => [v] | IKVs _ v => [v] end.

Record href := mkHref { hkind : kind; hid : N; hchunk : N; hoff : N; hval : list N }.

Definition pair_eqb (a b : N * N) : bool := N.eqb (fst a) (fst b) && N.eqb (snd a) (snd b).

Lemma pair_eqb_spec a b : pair_eqb a b = true <-> a = b.
Proof.
  destruct a as [a1 a2], b as [b1 b2]. unfold pair_eqb. cbn [fst snd].
  rewrite andb_true_iff, !N.eqb_eq. split; [intros [H1 H2]; congruence|intro H; inversion H; auto].
Qed.

Record pool := mkPool {
  names : interner N;
  strings : interner N;
  vsets : interner (N * N);          (* (NameId, VS) *)
  solvables : arena (N * N);         (* Solvable { name, record } *)
  unions : arena (list N);           (* SmallVec<VersionSetId> *)
  held : list href
}.

Definition pnew : pool :=
  {| names := iempty; strings := iempty; vsets := iempty; solvables := new; unions := new; held := [] |}.

Definition set_names s x := mkPool x (strings s) (vsets s) (solvables s) (unions s) (held s).
Definition set_strings s x := mkPool (names s) x (vsets s) (solvables s) (unions s) (held s).
Definition set_vsets s x := mkPool (names s) (strings s) x (solvables s) (unions s) (held s).
Definition set_solvables s x := mkPool (names s) (strings s) (vsets s) x (unions s) (held s).
Definition set_unions s x := mkPool (names s) (strings s) (vsets s) (solvables s) x (held s).
Definition set_held s x := mkPool (names s) (strings s) (vsets s) (solvables s) (unions s) x.

Definition klen (s : pool) (k : kind) : N :=
  match k with
  | KName => len (iarena (names s))
  | KString => len (iarena (strings s))
  | KVs => len (iarena (vsets s))
  | KSolv => len (solvables s)
  end.

(* length of chunk c of the arena behind kind k *)
Definition kclen (s : pool) (k : kind) (c : N) : N :=
  match k with
  | KName => clen (iarena (names s)) c
  | KString => clen (iarena (strings s)) c
  | KVs => clen (iarena (vsets s)) c
  | KSolv => clen (solvables s) c
  end.

(* what a reference of kind k pointing at (chunk c, offset o) reads *)
Definition read (s : pool) (k : kind) (c o : N) : option (list N) :=
  match k with
  | KName => option_map (fun v => [v]) (slot (iarena (names s)) c o)
  | KString => option_map (fun v => [v]) (slot (iarena (strings s)) c o)
  | KVs => option_map (fun p => [snd p]) (slot (iarena (vsets s)) c o)
  | KSolv => option_map (fun p => [fst p; snd p]) (slot (solvables s) c o)
  end.

(* resolve_package_name / resolve_string / resolve_version_set / resolve_solvable;
   None = the bounds-check panic of Arena::index *)
Definition resolve (s : pool) (k : kind) (id : N) : option (list N) :=
  if N.ltb id (klen s k) then read s k (id / CS) (id mod CS) else None.

Inductive pop :=
| PIntern (k : ikey)
| PInternSolv (name record : N)
| PInternUnion (first : N) (others : list N)
| PResolve (k : kind) (id : N)
| PResolveVsName (id : N)
| PResolveUnion (id : N)
| PLookupName (v : N)
| PHold (k : kind) (id : N)       (* resolve and keep the reference *)
| PCheck (h : N)                  (* look through the h-th kept reference again *)
| PLayout (k : kind) (id : N).    (* is element id in the same chunk as element id-1 ? *)

Inductive pout :=
| OId (id : N)
| OVal (v : option (list N))
| OOpt (o : option N)
| OHeld (same_location : bool) (v : option (list N))
| OBool (b : bool)
| OErr.

Definition pstep (s : pool) (o : pop) : pool * pout :=
  match o with
  | PIntern (IKName v) =>
      let '(i, id) := intern N.eqb (names s) v in (set_names s i, OId id)
  | PIntern (IKString v) =>
      let '(i, id) := intern N.eqb (strings s) v in (set_strings s i, OId id)
  | PIntern (IKVs n v) =>
      let '(i, id) := intern pair_eqb (vsets s) (n, v) in (set_vsets s i, OId id)
  | PInternSolv n r =>
      let '(a, id) := alloc (solvables s) (n, r) in (set_solvables s a, OId id)
  | PInternUnion f others =>
      let '(a, id) := alloc (unions s) (f :: others) in (set_unions s a, OId id)
  | PResolve k id => (s, OVal (resolve s k id))
  | PResolveVsName id => (s, OVal (option_map (fun p => [fst p]) (get (iarena (vsets s)) id)))
  | PResolveUnion id => (s, OVal (get (unions s) id))
  | PLookupName v => (s, OOpt (lookup N.eqb (imap (names s)) v))
  | PHold k id =>
      match resolve s k id with
      | Some v => (set_held s (held s ++ [mkHref k id (id / CS) (id mod CS) v]), OVal (Some v))
      | None => (s, OVal None)
      end
  | PCheck h =>
      match nth_error (held s) (N.to_nat h) with
      | Some r => (s, OHeld (N.eqb (hid r / CS) (hchunk r) && N.eqb (hid r mod CS) (hoff r))
                            (read s (hkind r) (hchunk r) (hoff r)))
      | None => (s, OErr)
      end
  | PLayout k id =>
      (s, if N.ltb 0 id && N.ltb id (klen s k)
          then OBool (N.eqb (id / CS) ((id - 1) / CS)) else OErr)
  end.

Fixpoint prun_from (s : pool) (ops : list pop) : list pout :=
  match ops with
  | [] => []
  | o :: t => let '(s', r) := pstep s o in r :: prun_from s' t
  end.

(* the runner the harness observations are compared with *)
Definition prun (ops : list pop) : list pout := prun_from pnew ops.

Fixpoint pfinal (s : pool) (ops : list pop) : pool :=
  match ops with
  | [] => s
  | o :: t => pfinal (fst (pstep s o)) t
  end.

(* ------------------------------------------------------------------ *)
(* invariant and extension order *)

(* every kept reference points at the location of its id and still reads the
   value it read when it was taken *)
Definition HInv (s : pool) : Prop :=
  forall r, In r (held s) ->
    hchunk r = hid r / CS /\ hoff r = hid r mod CS /\
    read s (hkind r) (hchunk r) (hoff r) = Some (hval r).

Definition PInv (s : pool) : Prop :=
  IInv N.eqb (names s) /\ IInv N.eqb (strings s) /\ IInv pair_eqb (vsets s) /\
  Inv (solvables s) /\ Inv (unions s) /\ HInv s.

(* s' is s plus further interned items / kept references; nothing moved *)
Definition pext (s s' : pool) : Prop :=
  aext (iarena (names s)) (iarena (names s')) /\
  aext (iarena (strings s)) (iarena (strings s')) /\
  aext (iarena (vsets s)) (iarena (vsets s')) /\
  aext (solvables s) (solvables s') /\
  aext (unions s) (unions s') /\
  exists l, held s' = held s ++ l.

Lemma pext_refl s : pext s s.
Proof.
  unfold pext. split; [apply aext_refl|]. split; [apply aext_refl|]. split; [apply aext_refl|].
  split; [apply aext_refl|]. split; [apply aext_refl|]. exists []. symmetry. apply app_nil_r.
Qed.

Lemma pext_trans a b c : pext a b -> pext b c -> pext a c.
Proof.
  intros [A1 [A2 [A3 [A4 [A5 [l1 A6]]]]]] [B1 [B2 [B3 [B4 [B5 [l2 B6]]]]]]. unfold pext.
  split; [eapply aext_trans; eassumption|]. split; [eapply aext_trans; eassumption|].
  split; [eapply aext_trans; eassumption|]. split; [eapply aext_trans; eassumption|].
  split; [eapply aext_trans; eassumption|]. exists (l1 ++ l2). rewrite B6, A6, app_assoc. reflexivity.
Qed.

Lemma option_map_ext {A B} (f : A -> B) (o o' : option A) x :
  (forall y, o = Some y -> o' = Some y) -> option_map f o = Some x -> option_map f o' = Some x.
Proof. intros H Hm. destruct o as [y|]; [|discriminate]. rewrite (H y eq_refl). exact Hm. Qed.

(* a location that reads x keeps reading x in every extension *)
Lemma read_ext s s' k c o x : pext s s' -> read s k c o = Some x -> read s' k c o = Some x.
Proof.
  intros [A1 [A2 [A3 [A4 _]]]]. destruct k; cbn [read]; apply option_map_ext; intro y.
  - apply (proj2 A1).
  - apply (proj2 A2).
  - apply (proj2 A3).
  - apply (proj2 A4).
Qed.

Lemma klen_ext s s' k : pext s s' -> klen s k <= klen s' k.
Proof.
  intros [A1 [A2 [A3 [A4 _]]]]. destruct k; cbn [klen].
  - apply (proj1 A1).
  - apply (proj1 A2).
  - apply (proj1 A3).
  - apply (proj1 A4).
Qed.

Lemma resolve_ext s s' k id x : pext s s' -> resolve s k id = Some x -> resolve s' k id = Some x.
Proof.
  intros He. pose proof (klen_ext s s' k He) as Hl. unfold resolve.
  destruct (N.ltb id (klen s k)) eqn:E; [|discriminate]. apply N.ltb_lt in E.
  assert (E' : N.ltb id (klen s' k) = true) by (apply N.ltb_lt; lia). rewrite E'.
  apply read_ext. exact He.
Qed.

Lemma HInv_ext s s' : HInv s -> pext s s' -> held s' = held s -> HInv s'.
Proof.
  intros HH He Hh r Hr. rewrite Hh in Hr. destruct (HH r Hr) as [H1 [H2 H3]].
  split; [exact H1|]. split; [exact H2|]. apply (read_ext s); assumption.
Qed.

Ltac pext_setter H :=
  unfold pext;
  cbn [set_names set_strings set_vsets set_solvables set_unions set_held
       names strings vsets solvables unions held];
  split; [first [exact H|apply aext_refl]|]; split; [first [exact H|apply aext_refl]|];
  split; [first [exact H|apply aext_refl]|]; split; [first [exact H|apply aext_refl]|];
  split; [first [exact H|apply aext_refl]|]; exists []; symmetry; apply app_nil_r.

Lemma set_names_ok s i : PInv s -> IInv N.eqb i -> aext (iarena (names s)) (iarena i) ->
  PInv (set_names s i) /\ pext s (set_names s i).
Proof.
  intros [H1 [H2 [H3 [H4 [H5 H6]]]]] Hi He.
  assert (Hx : pext s (set_names s i)) by (pext_setter He).
  split; [|exact Hx]. unfold PInv. cbn [set_names names strings vsets solvables unions].
  split; [exact Hi|]. split; [exact H2|]. split; [exact H3|]. split; [exact H4|]. split; [exact H5|].
  apply (HInv_ext s); [exact H6|exact Hx|reflexivity].
Qed.

Lemma set_strings_ok s i : PInv s -> IInv N.eqb i -> aext (iarena (strings s)) (iarena i) ->
  PInv (set_strings s i) /\ pext s (set_strings s i).
Proof.
  intros [H1 [H2 [H3 [H4 [H5 H6]]]]] Hi He.
  assert (Hx : pext s (set_strings s i)) by (pext_setter He).
  split; [|exact Hx]. unfold PInv. cbn [set_strings names strings vsets solvables unions].
  split; [exact H1|]. split; [exact Hi|]. split; [exact H3|]. split; [exact H4|]. split; [exact H5|].
  apply (HInv_ext s); [exact H6|exact Hx|reflexivity].
Qed.

Lemma set_vsets_ok s i : PInv s -> IInv pair_eqb i -> aext (iarena (vsets s)) (iarena i) ->
  PInv (set_vsets s i) /\ pext s (set_vsets s i).
Proof.
  intros [H1 [H2 [H3 [H4 [H5 H6]]]]] Hi He.
  assert (Hx : pext s (set_vsets s i)) by (pext_setter He).
  split; [|exact Hx]. unfold PInv. cbn [set_vsets names strings vsets solvables unions].
  split; [exact H1|]. split; [exact H2|]. split; [exact Hi|]. split; [exact H4|]. split; [exact H5|].
  apply (HInv_ext s); [exact H6|exact Hx|reflexivity].
Qed.

Lemma set_solvables_ok s a : PInv s -> Inv a -> aext (solvables s) a ->
  PInv (set_solvables s a) /\ pext s (set_solvables s a).
Proof.
  intros [H1 [H2 [H3 [H4 [H5 H6]]]]] Hi He.
  assert (Hx : pext s (set_solvables s a)) by (pext_setter He).
  split; [|exact Hx]. unfold PInv. cbn [set_solvables names strings vsets solvables unions].
  split; [exact H1|]. split; [exact H2|]. split; [exact H3|]. split; [exact Hi|]. split; [exact H5|].
  apply (HInv_ext s); [exact H6|exact Hx|reflexivity].
Qed.

Lemma set_unions_ok s a : PInv s -> Inv a -> aext (unions s) a ->
  PInv (set_unions s a) /\ pext s (set_unions s a).
Proof.
  intros [H1 [H2 [H3 [H4 [H5 H6]]]]] Hi He.
  assert (Hx : pext s (set_unions s a)) by (pext_setter He).
  split; [|exact Hx]. unfold PInv. cbn [set_unions names strings vsets solvables unions].
  split; [exact H1|]. split; [exact H2|]. split; [exact H3|]. split; [exact H4|]. split; [exact Hi|].
  apply (HInv_ext s); [exact H6|exact Hx|reflexivity].
Qed.

(* pstep in fst/snd form *)
Lemma pstep_name s v : pstep s (PIntern (IKName v)) =
  (set_names s (fst (intern N.eqb (names s) v)), OId (snd (intern N.eqb (names s) v))).
Proof. cbn [pstep]. destruct (intern N.eqb (names s) v). reflexivity. Qed.

Lemma pstep_string s v : pstep s (PIntern (IKString v)) =
  (set_strings s (fst (intern N.eqb (strings s) v)), OId (snd (intern N.eqb (strings s) v))).
Proof. cbn [pstep]. destruct (intern N.eqb (strings s) v). reflexivity. Qed.

Lemma pstep_vs s n v : pstep s (PIntern (IKVs n v)) =
  (set_vsets s (fst (intern pair_eqb (vsets s) (n, v))), OId (snd (intern pair_eqb (vsets s) (n, v)))).
Proof. cbn [pstep]. destruct (intern pair_eqb (vsets s) (n, v)). reflexivity. Qed.

Lemma pstep_solv s n r : pstep s (PInternSolv n r) =
  (set_solvables s (fst (alloc (solvables s) (n, r))), OId (len (solvables s))).
Proof. reflexivity. Qed.

Lemma pstep_union s f others : pstep s (PInternUnion f others) =
  (set_unions s (fst (alloc (unions s) (f :: others))), OId (len (unions s))).
Proof. reflexivity. Qed.

Lemma pnew_inv : PInv pnew.
Proof.
  unfold PInv, pnew. cbn [names strings vsets solvables unions].
  split; [apply iempty_inv; apply N.eqb_eq|]. split; [apply iempty_inv; apply N.eqb_eq|].
  split; [apply iempty_inv; apply pair_eqb_spec|].
  split; [apply with_capacity_inv|]. split; [apply with_capacity_inv|].
  intros r Hr. destruct Hr.
Qed.

(* one step keeps the invariant and only extends the pool *)
Lemma pstep_inv_ext s o : PInv s -> PInv (fst (pstep s o)) /\ pext s (fst (pstep s o)).
Proof.
  intro HI. pose proof HI as [H1 [H2 [H3 [H4 [H5 H6]]]]].
  destruct o as [[v|v|n v]|n r|f others|k id|id|id|v|k id|h|k id].
  - rewrite pstep_name. cbn [fst]. apply set_names_ok; [exact HI| |].
    + apply intern_inv; [apply N.eqb_eq|exact H1].
    + apply intern_ext. exact H1.
  - rewrite pstep_string. cbn [fst]. apply set_strings_ok; [exact HI| |].
    + apply intern_inv; [apply N.eqb_eq|exact H2].
    + apply intern_ext. exact H2.
  - rewrite pstep_vs. cbn [fst]. apply set_vsets_ok; [exact HI| |].
    + apply intern_inv; [apply pair_eqb_spec|exact H3].
    + apply intern_ext. exact H3.
  - rewrite pstep_solv. cbn [fst]. apply set_solvables_ok; [exact HI| |].
    + apply alloc_inv. exact H4.
    + apply alloc_ext. exact H4.
  - rewrite pstep_union. cbn [fst]. apply set_unions_ok; [exact HI| |].
    + apply alloc_inv. exact H5.
    + apply alloc_ext. exact H5.
  - cbn [pstep fst]. split; [exact HI|apply pext_refl].
  - cbn [pstep fst]. split; [exact HI|apply pext_refl].
  - cbn [pstep fst]. split; [exact HI|apply pext_refl].
  - cbn [pstep fst]. split; [exact HI|apply pext_refl].
  - cbn [pstep]. destruct (resolve s k id) as [x|] eqn:E; cbn [fst]; [|split; [exact HI|apply pext_refl]].
    assert (Hx : pext s (set_held s (held s ++ [mkHref k id (id / CS) (id mod CS) x]))).
    { unfold pext. cbn [set_held names strings vsets solvables unions held].
      split; [apply aext_refl|]. split; [apply aext_refl|]. split; [apply aext_refl|].
      split; [apply aext_refl|]. split; [apply aext_refl|]. eexists. reflexivity. }
    split; [|exact Hx]. unfold PInv. cbn [set_held names strings vsets solvables unions].
    split; [exact H1|]. split; [exact H2|]. split; [exact H3|]. split; [exact H4|]. split; [exact H5|].
    intros r Hr. cbn [set_held held] in Hr. apply in_app_or in Hr. destruct Hr as [Hr|Hr].
    + destruct (H6 r Hr) as [G1 [G2 G3]]. split; [exact G1|]. split; [exact G2|].
      apply (read_ext s); assumption.
    + destruct Hr as [Hr|[]]. subst r. cbn [hkind hid hchunk hoff hval].
      split; [reflexivity|]. split; [reflexivity|].
      apply (read_ext s); [exact Hx|]. unfold resolve in E.
      destruct (N.ltb id (klen s k)); [exact E|discriminate].
  - cbn [pstep]. destruct (nth_error (held s) (N.to_nat h)); cbn [fst]; split; try exact HI; apply pext_refl.
  - cbn [pstep fst]. split; [exact HI|apply pext_refl].
Qed.

Lemma pfinal_inv_ext ops : forall s, PInv s -> PInv (pfinal s ops) /\ pext s (pfinal s ops).
Proof.
  induction ops as [|o t IH]; intros s HI; cbn [pfinal]; [split; [exact HI|apply pext_refl]|].
  destruct (pstep_inv_ext s o HI) as [HI1 He1]. destruct (IH _ HI1) as [HI2 He2].
  split; [exact HI2|]. apply (pext_trans _ _ _ He1 He2).
Qed.

Theorem reachable_inv ops : PInv (pfinal pnew ops).
Proof. apply pfinal_inv_ext, pnew_inv. Qed.

(* ------------------------------------------------------------------ *)
(* interning *)

(* id was handed out for key k *)
Definition interned (s : pool) (k : ikey) (id : N) : Prop :=
  match k with
  | IKName v => get (iarena (names s)) id = Some v
  | IKString v => get (iarena (strings s)) id = Some v
  | IKVs n v => get (iarena (vsets s)) id = Some (n, v)
  end.

Lemma interned_ext s s' k id : pext s s' -> interned s k id -> interned s' k id.
Proof.
  intros [A1 [A2 [A3 _]]]. destruct k; cbn [interned]; apply aext_get; assumption.
Qed.

(* one id, one value *)
Lemma interned_fun s k1 k2 id : ikind k1 = ikind k2 -> interned s k1 id -> interned s k2 id -> k1 = k2.
Proof.
  destruct k1, k2; cbn [ikind interned]; intros Hk G1 G2; try discriminate; congruence.
Qed.

Lemma pstep_intern s k : PInv s ->
  exists id, snd (pstep s (PIntern k)) = OId id /\ interned (fst (pstep s (PIntern k))) k id.
Proof.
  intros [H1 [H2 [H3 _]]]. destruct k as [v|v|n v].
  - rewrite pstep_name. eexists. split; [reflexivity|]. cbn [fst interned set_names names].
    apply intern_get. exact H1.
  - rewrite pstep_string. eexists. split; [reflexivity|]. cbn [fst interned set_strings strings].
    apply intern_get. exact H2.
  - rewrite pstep_vs. eexists. split; [reflexivity|]. cbn [fst interned set_vsets vsets].
    apply intern_get. exact H3.
Qed.

Lemma pool_eta s : mkPool (names s) (strings s) (vsets s) (solvables s) (unions s) (held s) = s.
Proof. destruct s. reflexivity. Qed.

(* interning an already interned value returns its id and changes nothing *)
Theorem intern_idem s k id : PInv s -> interned s k id -> pstep s (PIntern k) = (s, OId id).
Proof.
  intros [H1 [H2 [H3 _]]] Hi. destruct k as [v|v|n v]; cbn [interned] in Hi.
  - rewrite pstep_name. rewrite (interner_idem N.eqb (names s) v id H1 Hi). cbn [fst snd].
    unfold set_names. rewrite pool_eta. reflexivity.
  - rewrite pstep_string. rewrite (interner_idem N.eqb (strings s) v id H2 Hi). cbn [fst snd].
    unfold set_strings. rewrite pool_eta. reflexivity.
  - rewrite pstep_vs. rewrite (interner_idem pair_eqb (vsets s) (n, v) id H3 Hi). cbn [fst snd].
    unfold set_vsets. rewrite pool_eta. reflexivity.
Qed.

Lemma resolve_name_get s id :
  resolve s KName id = option_map (fun v => [v]) (get (iarena (names s)) id).
Proof. unfold resolve, get. cbn [klen read]. destruct (N.ltb id (len (iarena (names s)))); reflexivity. Qed.

Lemma resolve_string_get s id :
  resolve s KString id = option_map (fun v => [v]) (get (iarena (strings s)) id).
Proof. unfold resolve, get. cbn [klen read]. destruct (N.ltb id (len (iarena (strings s)))); reflexivity. Qed.

Lemma resolve_vs_get s id :
  resolve s KVs id = option_map (fun p => [snd p]) (get (iarena (vsets s)) id).
Proof. unfold resolve, get. cbn [klen read]. destruct (N.ltb id (len (iarena (vsets s)))); reflexivity. Qed.

Lemma resolve_solv_get s id :
  resolve s KSolv id = option_map (fun p => [fst p; snd p]) (get (solvables s) id).
Proof. unfold resolve, get. cbn [klen read]. destruct (N.ltb id (len (solvables s))); reflexivity. Qed.

(* what the resolve_* / lookup calls return for a handed-out id *)
Theorem interned_resolve s k id : interned s k id ->
  snd (pstep s (PResolve (ikind k) id)) = OVal (Some (kview k)) /\
  (forall n v, k = IKVs n v -> snd (pstep s (PResolveVsName id)) = OVal (Some [n])).
Proof.
  intro Hi. cbn [pstep snd]. destruct k as [v|v|n v]; cbn [interned ikind kview] in *.
  - rewrite resolve_name_get, Hi. split; [reflexivity|]. intros; discriminate.
  - rewrite resolve_string_get, Hi. split; [reflexivity|]. intros; discriminate.
  - rewrite resolve_vs_get, Hi. split; [reflexivity|]. intros n' v' E. inversion E. reflexivity.
Qed.

Theorem lookup_name_spec s v id : PInv s ->
  (snd (pstep s (PLookupName v)) = OOpt (Some id) <-> interned s (IKName v) id).
Proof.
  intros [[_ HM] _]. cbn [pstep snd interned]. rewrite <- HM. split; [intro H; inversion H; reflexivity|].
  intro H. rewrite H. reflexivity.
Qed.

(* Interning k1, then anything, then k2 (same sort of item): the two ids are
   equal exactly when the two values are equal. *)
Theorem intern_same_iff s k1 k2 ops : PInv s -> ikind k1 = ikind k2 ->
  exists i1 i2,
    snd (pstep s (PIntern k1)) = OId i1 /\
    snd (pstep (pfinal (fst (pstep s (PIntern k1))) ops) (PIntern k2)) = OId i2 /\
    (i1 = i2 <-> k1 = k2).
Proof.
  intros HI Hk. destruct (pstep_intern s k1 HI) as [i1 [E1 I1]].
  destruct (pstep_inv_ext s (PIntern k1) HI) as [HI1 _].
  destruct (pfinal_inv_ext ops _ HI1) as [HI2 X2].
  pose proof (interned_ext _ _ k1 i1 X2 I1) as I2.
  destruct (pstep_intern _ k2 HI2) as [i2 [E2 I3]].
  destruct (pstep_inv_ext _ (PIntern k2) HI2) as [_ X3].
  exists i1, i2. split; [exact E1|]. split; [exact E2|]. split.
  - intro E. subst i2. pose proof (interned_ext _ _ k1 i1 X3 I2) as I4.
    exact (interned_fun _ k1 k2 i1 Hk I4 I3).
  - intro E. subst k2. rewrite (intern_idem _ k1 i1 HI2 I2) in E2. cbn [snd] in E2. congruence.
Qed.

(* resolve (intern v) = v, now and after any further operations *)
Theorem resolve_intern s k ops : PInv s ->
  exists id, snd (pstep s (PIntern k)) = OId id /\
    let s' := pfinal (fst (pstep s (PIntern k))) ops in
    interned s' k id /\
    snd (pstep s' (PResolve (ikind k) id)) = OVal (Some (kview k)) /\
    (forall n v, k = IKVs n v -> snd (pstep s' (PResolveVsName id)) = OVal (Some [n])) /\
    pstep s' (PIntern k) = (s', OId id).
Proof.
  intro HI. destruct (pstep_intern s k HI) as [id [E1 I1]].
  destruct (pstep_inv_ext s (PIntern k) HI) as [HI1 _].
  destruct (pfinal_inv_ext ops _ HI1) as [HI2 X2].
  pose proof (interned_ext _ _ k id X2 I1) as I2.
  exists id. split; [exact E1|]. cbv zeta. split; [exact I2|].
  destruct (interned_resolve _ k id I2) as [R1 R2].
  split; [exact R1|]. split; [exact R2|]. apply intern_idem; assumption.
Qed.

(* ---------- dense, unique ids for solvables and unions ---------- *)

Fixpoint count_solv (ops : list pop) : N :=
  match ops with
  | [] => 0
  | PInternSolv _ _ :: t => 1 + count_solv t
  | _ :: t => count_solv t
  end.

Fixpoint count_union (ops : list pop) : N :=
  match ops with
  | [] => 0
  | PInternUnion _ _ :: t => 1 + count_union t
  | _ :: t => count_union t
  end.

Lemma pstep_solv_len s o :
  len (solvables (fst (pstep s o))) = len (solvables s) + count_solv [o] /\
  len (unions (fst (pstep s o))) = len (unions s) + count_union [o].
Proof.
  destruct o as [[v|v|n v]|n r|f others|k id|id|id|v|k id|h|k id];
    rewrite ?pstep_name, ?pstep_string, ?pstep_vs, ?pstep_solv, ?pstep_union;
    cbn [fst count_solv count_union set_names set_strings set_vsets set_solvables set_unions solvables unions];
    rewrite ?alloc_len; try (split; lia).
  - cbn [pstep fst]. split; lia.
  - cbn [pstep fst]. split; lia.
  - cbn [pstep fst]. split; lia.
  - cbn [pstep fst]. split; lia.
  - cbn [pstep]. destruct (resolve s k id); cbn [fst set_held solvables unions]; split; lia.
  - cbn [pstep]. destruct (nth_error (held s) (N.to_nat h)); cbn [fst]; split; lia.
  - cbn [pstep fst]. split; lia.
Qed.

Lemma count_cons o t :
  count_solv (o :: t) = count_solv [o] + count_solv t /\
  count_union (o :: t) = count_union [o] + count_union t.
Proof. destruct o; cbn [count_solv count_union]; split; lia. Qed.

Lemma pfinal_counts ops : forall s,
  len (solvables (pfinal s ops)) = len (solvables s) + count_solv ops /\
  len (unions (pfinal s ops)) = len (unions s) + count_union ops.
Proof.
  induction ops as [|o t IH]; intro s; [cbn [pfinal count_solv count_union]; split; lia|].
  cbn [pfinal]. destruct (IH (fst (pstep s o))) as [A B]. destruct (pstep_solv_len s o) as [C D].
  destruct (count_cons o t) as [E F]. rewrite A, B, C, D, E, F. split; lia.
Qed.

(* the k-th intern_solvable returns id k (k counted from 0), whatever else
   happened in between, and that id resolves to the solvable ever after *)
Theorem solvable_dense ops n r ops' :
  let s := pfinal pnew ops in
  snd (pstep s (PInternSolv n r)) = OId (count_solv ops) /\
  snd (pstep (pfinal (fst (pstep s (PInternSolv n r))) ops') (PResolve KSolv (count_solv ops)))
    = OVal (Some [n; r]).
Proof.
  intro s. pose proof (reachable_inv ops) as HI. fold s in HI.
  assert (Hl : len (solvables s) = count_solv ops).
  { unfold s. rewrite (proj1 (pfinal_counts ops pnew)). reflexivity. }
  destruct (pstep_inv_ext s (PInternSolv n r) HI) as [HI1 _].
  destruct (pfinal_inv_ext ops' _ HI1) as [_ X2].
  assert (G : get (solvables (fst (pstep s (PInternSolv n r)))) (count_solv ops) = Some (n, r)).
  { rewrite pstep_solv. cbn [fst set_solvables solvables]. rewrite <- Hl.
    rewrite get_alloc by apply HI. rewrite N.eqb_refl. reflexivity. }
  split; [rewrite pstep_solv; cbn [snd]; rewrite Hl; reflexivity|].
  destruct X2 as [_ [_ [_ [A4 _]]]]. pose proof (aext_get _ _ _ _ A4 G) as G'.
  revert G'. generalize (pfinal (fst (pstep s (PInternSolv n r))) ops') as s2. intros s2 G'.
  cbn [pstep snd]. rewrite resolve_solv_get, G'. reflexivity.
Qed.

Theorem union_dense ops f others ops' :
  let s := pfinal pnew ops in
  snd (pstep s (PInternUnion f others)) = OId (count_union ops) /\
  snd (pstep (pfinal (fst (pstep s (PInternUnion f others))) ops') (PResolveUnion (count_union ops)))
    = OVal (Some (f :: others)).
Proof.
  intro s. pose proof (reachable_inv ops) as HI. fold s in HI.
  assert (Hl : len (unions s) = count_union ops).
  { unfold s. rewrite (proj2 (pfinal_counts ops pnew)). reflexivity. }
  destruct (pstep_inv_ext s (PInternUnion f others) HI) as [HI1 _].
  destruct (pfinal_inv_ext ops' _ HI1) as [_ X2].
  assert (G : get (unions (fst (pstep s (PInternUnion f others)))) (count_union ops) = Some (f :: others)).
  { rewrite pstep_union. cbn [fst set_unions unions]. rewrite <- Hl.
    rewrite get_alloc by apply HI. rewrite N.eqb_refl. reflexivity. }
  split; [rewrite pstep_union; cbn [snd]; rewrite Hl; reflexivity|].
  destruct X2 as [_ [_ [_ [_ [A5 _]]]]]. pose proof (aext_get _ _ _ _ A5 G) as G'.
  revert G'. generalize (pfinal (fst (pstep s (PInternUnion f others))) ops') as s2. intros s2 G'.
  cbn [pstep snd]. rewrite G'. reflexivity.
Qed.

(* the ids that resolve are exactly 0 .. len-1 *)
Theorem ids_dense s : PInv s -> forall k id, id < klen s k <-> resolve s k id <> None.
Proof.
  intros [[H1 _] [[H2 _] [[H3 _] [H4 _]]]] k id.
  destruct k; cbn [klen];
    [rewrite resolve_name_get|rewrite resolve_string_get|rewrite resolve_vs_get|rewrite resolve_solv_get].
  - split; intro H.
    + destruct (get_some _ id H1 H) as [x Hx]. rewrite Hx. discriminate.
    + destruct (get (iarena (names s)) id) eqn:E; [apply get_lt in E; exact E|cbn in H; congruence].
  - split; intro H.
    + destruct (get_some _ id H2 H) as [x Hx]. rewrite Hx. discriminate.
    + destruct (get (iarena (strings s)) id) eqn:E; [apply get_lt in E; exact E|cbn in H; congruence].
  - split; intro H.
    + destruct (get_some _ id H3 H) as [x Hx]. rewrite Hx. discriminate.
    + destruct (get (iarena (vsets s)) id) eqn:E; [apply get_lt in E; exact E|cbn in H; congruence].
  - split; intro H.
    + destruct (get_some _ id H4 H) as [x Hx]. rewrite Hx. discriminate.
    + destruct (get (solvables s) id) eqn:E; [apply get_lt in E; exact E|cbn in H; congruence].
Qed.

(* ---------- reference stability lifted to the pool ---------- *)

(* whatever a location reads now, it reads after any number of further
   operations; the same for resolving an id *)
Theorem refs_stable s ops : PInv s ->
  (forall k c o x, read s k c o = Some x -> read (pfinal s ops) k c o = Some x) /\
  (forall k id x, resolve s k id = Some x -> resolve (pfinal s ops) k id = Some x).
Proof.
  intro HI. destruct (pfinal_inv_ext ops s HI) as [_ X]. split.
  - intros k c o x. apply read_ext. exact X.
  - intros k id x. apply resolve_ext. exact X.
Qed.

(* no chunk of any of the five arenas ever exceeds CHUNK_SIZE elements *)
Theorem chunks_bounded ops : let s := pfinal pnew ops in
  (forall k c, kclen s k c <= CHUNK_SIZE) /\ (forall c, clen (unions s) c <= CHUNK_SIZE).
Proof.
  intro s. pose proof (reachable_inv ops) as HI. fold s in HI.
  destruct HI as [[H1 _] [[H2 _] [[H3 _] [H4 [H5 _]]]]]. fold CS. split.
  - intros k c. destruct k; cbn [kclen]; apply inv_clen_le; assumption.
  - apply inv_clen_le. exact H5.
Qed.

Theorem held_check s h r : PInv s -> nth_error (held s) (N.to_nat h) = Some r ->
  pstep s (PCheck h) = (s, OHeld true (Some (hval r))).
Proof.
  intros [_ [_ [_ [_ [_ HH]]]]] Hn. cbn [pstep]. rewrite Hn.
  destruct (HH r (nth_error_In _ _ Hn)) as [G1 [G2 G3]].
  rewrite G3, <- G1, <- G2, !N.eqb_refl. reflexivity.
Qed.

(* A reference taken by PHold at any time, looked through again after any
   number of further operations: same location, same value. *)
Theorem hold_check s k id v ops : PInv s ->
  snd (pstep s (PHold k id)) = OVal (Some v) ->
  let s' := pfinal (fst (pstep s (PHold k id))) ops in
  pstep s' (PCheck (N.of_nat (length (held s)))) = (s', OHeld true (Some v)).
Proof.
  intros HI Ho. destruct (pstep_inv_ext s (PHold k id) HI) as [HI1 _].
  destruct (pfinal_inv_ext ops _ HI1) as [HI2 [_ [_ [_ [_ [_ [l Hl]]]]]]].
  cbv zeta. revert HI2 Hl. generalize (pfinal (fst (pstep s (PHold k id))) ops) as s2.
  cbn [pstep] in *. destruct (resolve s k id) as [x|] eqn:E; cbn [snd fst] in *; [|discriminate].
  inversion Ho. subst x. intros s2 HI2 Hl. cbn [set_held held] in Hl.
  apply (held_check s2 _ (mkHref k id (id / CS) (id mod CS) v) HI2).
  rewrite Nat2N.id, Hl, <- app_assoc. rewrite nth_error_app2 by lia.
  rewrite Nat.sub_diag. reflexivity.
Qed.

(* a run and its final state agree with the step function *)
Lemma prun_from_app s ops1 ops2 :
  prun_from s (ops1 ++ ops2) = prun_from s ops1 ++ prun_from (pfinal s ops1) ops2.
Proof.
  revert s. induction ops1 as [|o t IH]; intro s; [reflexivity|].
  cbn [app prun_from pfinal]. destruct (pstep s o) as [s' r]. cbn [fst app]. rewrite IH. reflexivity.
Qed.
