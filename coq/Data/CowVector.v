(* Data/CowVector.v -- heap model of the ref-counted copy-on-write Vector that is
   shared, by layout, between Rust (cpp/src/vector.rs) and C++
   (cpp/include/resolvo_vector.h), and of String = Vector<u8> + trailing NUL
   (cpp/src/string.rs, cpp/include/resolvo_string.h).

   What is modelled is the *protocol*: blocks {refcount,size,capacity,data} in a
   heap, handles (live Vector values on either side of the FFI) pointing to
   blocks, and the operations of both implementations acting on them.  Real
   memory (layout, pointer arithmetic, atomics) is not modelled; it is exercised
   under sanitizers by the harness (tools/props/c17.py). *)
From Coq Require Import List NArith ZArith Bool Lia.
Import ListNotations.
Open Scope N_scope.

(* ------------------------------------------------------------------ *)
(* association lists keyed by N *)

Section AList.
Context {A : Type}.

Fixpoint lookup (k : N) (l : list (N * A)) : option A :=
  match l with
  | [] => None
  | (k', v) :: t => if N.eqb k k' then Some v else lookup k t
  end.

Fixpoint remove_key (k : N) (l : list (N * A)) : list (N * A) :=
  match l with
  | [] => []
  | (k', v) :: t => if N.eqb k k' then remove_key k t else (k', v) :: remove_key k t
  end.

Definition put (k : N) (v : A) (l : list (N * A)) : list (N * A) := (k, v) :: remove_key k l.

Lemma lookup_remove k j l : lookup j (remove_key k l) = if N.eqb j k then None else lookup j l.
Proof.
  induction l as [|[k' v] t IH]; cbn [remove_key lookup].
  - destruct (N.eqb j k); reflexivity.
  - destruct (N.eqb k k') eqn:E.
    + apply N.eqb_eq in E. subst k'. rewrite IH. destruct (N.eqb j k); reflexivity.
    + cbn [lookup]. rewrite IH. destruct (N.eqb j k) eqn:E2; [|reflexivity].
      apply N.eqb_eq in E2. subst j. rewrite E. reflexivity.
Qed.

Lemma lookup_put k j v l : lookup j (put k v l) = if N.eqb j k then Some v else lookup j l.
Proof. unfold put. cbn [lookup]. rewrite lookup_remove. destruct (N.eqb j k); reflexivity. Qed.

Lemma lookup_in_keys k l : lookup k l <> None <-> In k (map fst l).
Proof.
  induction l as [|[k' v] t IH]; cbn [lookup map fst In].
  - split; [congruence | tauto].
  - destruct (N.eqb k k') eqn:E.
    + apply N.eqb_eq in E. subst. split; [intros _; left; reflexivity | intros _; congruence].
    + apply N.eqb_neq in E. rewrite IH. split; [tauto | intros [H|H]; [congruence | exact H]].
Qed.

Lemma lookup_none_keys k l : lookup k l = None <-> ~ In k (map fst l).
Proof.
  rewrite <- lookup_in_keys. destruct (lookup k l); split; intro H; try congruence; try tauto.
  exfalso. apply H. congruence.
Qed.

Lemma keys_remove k j l : In j (map fst (remove_key k l)) <-> In j (map fst l) /\ j <> k.
Proof.
  rewrite <- !lookup_in_keys, lookup_remove. destruct (N.eqb j k) eqn:E.
  - apply N.eqb_eq in E. split; [congruence | tauto].
  - apply N.eqb_neq in E. tauto.
Qed.

Lemma NoDup_remove_key k l : NoDup (map fst l) -> NoDup (map fst (remove_key k l)).
Proof.
  induction l as [|[k' v] t IH]; cbn [remove_key map fst]; intro H; [constructor|].
  inversion H as [|? ? Hn Ht]; subst. destruct (N.eqb k k'); [apply IH; exact Ht|].
  cbn [map fst]. constructor; [|apply IH; exact Ht]. rewrite keys_remove. tauto.
Qed.

Lemma NoDup_put k v l : NoDup (map fst l) -> NoDup (map fst (put k v l)).
Proof.
  intro H. unfold put. cbn [map fst].
  constructor; [rewrite keys_remove; tauto | apply NoDup_remove_key; exact H].
Qed.

Lemma remove_key_none k l : lookup k l = None -> remove_key k l = l.
Proof.
  induction l as [|[k' v] t IH]; cbn [lookup remove_key]; [reflexivity|].
  destruct (N.eqb k k'); [discriminate|]. intro H. rewrite IH by exact H. reflexivity.
Qed.

End AList.

(* number of handles pointing to block [id] *)
Fixpoint hcount (vs : list (N * N)) (id : N) : nat :=
  match vs with
  | [] => 0
  | (_, b) :: t => (if N.eqb b id then 1 else 0) + hcount t id
  end.

Lemma hcount_remove x vs id : NoDup (map fst vs) ->
  hcount vs id = (hcount (remove_key x vs) id +
                  match lookup x vs with Some b => if N.eqb b id then 1 else 0 | None => 0 end)%nat.
Proof.
  induction vs as [|[k b] t IH]; cbn [hcount remove_key lookup map fst]; intro H; [reflexivity|].
  inversion H as [|? ? Hn Ht]; subst. destruct (N.eqb x k) eqn:E.
  - apply N.eqb_eq in E. subst k. rewrite remove_key_none; [lia|]. apply lookup_none_keys. exact Hn.
  - cbn [hcount]. rewrite (IH Ht). lia.
Qed.

Lemma hcount_lookup x vs id : lookup x vs = Some id -> (1 <= hcount vs id)%nat.
Proof.
  induction vs as [|[k b] t IH]; cbn [lookup hcount]; [discriminate|]. destruct (N.eqb x k).
  - intro H. inversion H. subst. rewrite N.eqb_refl. lia.
  - intro H. specialize (IH H). lia.
Qed.

Lemma hcount_two x z vs id : NoDup (map fst vs) -> x <> z ->
  lookup x vs = Some id -> lookup z vs = Some id -> (2 <= hcount vs id)%nat.
Proof.
  intros Hnd Hxz Hx Hz. rewrite (hcount_remove x vs id Hnd), Hx, N.eqb_refl.
  assert (H : lookup z (remove_key x vs) = Some id).
  { rewrite lookup_remove. destruct (N.eqb z x) eqn:E; [apply N.eqb_eq in E; congruence | exact Hz]. }
  apply hcount_lookup in H. lia.
Qed.

(* ------------------------------------------------------------------ *)
(* the heap *)

(* VectorHeader {refcount, size, capacity} + inline data *)
Record block := mkBlock { rc : Z; bsize : N; bcap : N; bdata : list N }.

(* SHARED_EMPTY_VEC: refcount -1, never written, never freed *)
Definition static_block : block := mkBlock (-1) 0 0 [].

Record state := mkState {
  heap : list (N * block);   (* allocated, not yet freed blocks; id 0 = static empty block *)
  next : N;                  (* next fresh block id (= number of allocations so far + 1) *)
  freed : list N;            (* log of deallocations (drop_inner / resolvo_vector_free) *)
  vars : list (N * N)        (* live Vector values (either side): variable -> block id *)
}.

Definition init : state := mkState [(0, static_block)] 1 [] [].

Definition blk (s : state) (x : N) : option block :=
  match lookup x (vars s) with Some id => lookup id (heap s) | None => None end.

(* the abstract list a handle denotes *)
Definition denote (s : state) (x : N) : option (list N) := option_map bdata (blk s x).

(* number of allocated, not freed blocks (the static block is not an allocation) *)
Definition live (s : state) : N := N.of_nat (length (heap s)) - 1.

Record Inv (s : state) : Prop := mkInv {
  inv_hkeys : NoDup (map fst (heap s));
  inv_vkeys : NoDup (map fst (vars s));
  inv_static : lookup 0 (heap s) = Some static_block;
  inv_rc : forall id b, lookup id (heap s) = Some b -> id <> 0 ->
           rc b = Z.of_nat (hcount (vars s) id) /\ (0 < rc b)%Z;
  inv_size : forall id b, lookup id (heap s) = Some b ->
             bsize b = N.of_nat (length (bdata b)) /\ bsize b <= bcap b;
  inv_live : forall x id, lookup x (vars s) = Some id -> lookup id (heap s) <> None;
  inv_fresh : forall id, lookup id (heap s) <> None -> id < next s;
  inv_freed_nd : NoDup (freed s);
  inv_freed : forall id, In id (freed s) -> lookup id (heap s) = None /\ id < next s /\ id <> 0;
  inv_acct : forall id, 0 < id -> id < next s -> lookup id (heap s) = None -> In id (freed s);
  inv_next : 0 < next s
}.

Lemma init_inv : Inv init.
Proof.
  constructor; unfold init; cbn [heap next freed vars].
  - cbn. constructor; [intros []|constructor].
  - constructor.
  - reflexivity.
  - intros id b H Hid. cbn [lookup] in H. destruct (N.eqb id 0) eqn:E; [|discriminate].
    apply N.eqb_eq in E. contradiction.
  - intros id b H. cbn [lookup] in H. destruct (N.eqb id 0); [|discriminate].
    inversion H. subst. cbn. split; [reflexivity|lia].
  - intros x id H. discriminate.
  - intros id H. cbn [lookup] in H. destruct (N.eqb id 0) eqn:E; [|congruence].
    apply N.eqb_eq in E. lia.
  - constructor.
  - intros id [].
  - intros id H1 H2. lia.
  - lia.
Qed.

(* a live handle has a block *)
Lemma live_blk s x id : Inv s -> lookup x (vars s) = Some id ->
  exists b, lookup id (heap s) = Some b /\ blk s x = Some b.
Proof.
  intros HI Hx. pose proof (inv_live s HI x id Hx) as H.
  destruct (lookup id (heap s)) as [b|] eqn:E; [|congruence].
  exists b. split; [reflexivity|]. unfold blk. rewrite Hx. exact E.
Qed.

Lemma dead_blk s x : lookup x (vars s) = None -> blk s x = None.
Proof. intro H. unfold blk. rewrite H. reflexivity. Qed.

Lemma static_or_counted s id b : Inv s -> lookup id (heap s) = Some b ->
  (id = 0 /\ b = static_block) \/ (id <> 0 /\ rc b = Z.of_nat (hcount (vars s) id) /\ (0 < rc b)%Z).
Proof.
  intros HI Hb. destruct (N.eq_dec id 0) as [E|E].
  - left. subst. rewrite (inv_static s HI) in Hb. inversion Hb. auto.
  - right. split; [exact E|]. apply (inv_rc s HI); assumption.
Qed.

(* a block with refcount 1 has exactly one handle *)
Lemma unique_owner s x z id b : Inv s -> lookup x (vars s) = Some id -> lookup id (heap s) = Some b ->
  rc b = 1%Z -> lookup z (vars s) = Some id -> z = x.
Proof.
  intros HI Hx Hb Hrc Hz. destruct (N.eq_dec z x) as [E|E]; [exact E|exfalso].
  destruct (static_or_counted s id b HI Hb) as [[_ Hs]|[_ [Hc _]]].
  - subst b. cbn in Hrc. discriminate.
  - pose proof (hcount_two x z (vars s) id (inv_vkeys s HI) (fun H => E (eq_sym H)) Hx Hz). lia.
Qed.

(* ------------------------------------------------------------------ *)
(* primitive heap actions *)

(* Vector::default() / C++ Vector(): point at the static empty block *)
Definition bind_static (s : state) (x : N) : state :=
  mkState (heap s) (next s) (freed s) ((x, 0) :: vars s).

(* alloc_with_capacity / C++ with_capacity (resolvo_vector_allocate): fresh block, refcount 1 *)
Definition bind_new (s : state) (x cap : N) (data : list N) : state :=
  mkState ((next s, mkBlock 1 (N.of_nat (length data)) cap data) :: heap s)
          (next s + 1) (freed s) ((x, next s) :: vars s).

Definition inc_block (b : block) : block := mkBlock (rc b + 1) (bsize b) (bcap b) (bdata b).
Definition dec_block (b : block) : block := mkBlock (rc b - 1) (bsize b) (bcap b) (bdata b).

(* Clone::clone / C++ copy constructor: refcount + 1 unless static (refcount > 0 test) *)
Definition incr (h : list (N * block)) (id : N) : list (N * block) :=
  match lookup id h with
  | Some b => if (0 <? rc b)%Z then put id (inc_block b) h else h
  | None => h
  end.

Definition share (s : state) (x y : N) : state :=
  match lookup x (vars s) with
  | Some id => mkState (incr (heap s) id) (next s) (freed s) ((y, id) :: vars s)
  | None => s
  end.

(* Drop::drop / C++ drop(): nothing for the static block; refcount - 1; free when it was 1 *)
Definition release (s : state) (id : N) : state :=
  match lookup id (heap s) with
  | None => s
  | Some b =>
      if (rc b <? 0)%Z then s
      else if (rc b =? 1)%Z
           then mkState (remove_key id (heap s)) (next s) (id :: freed s) (vars s)
           else mkState (put id (dec_block b) (heap s)) (next s) (freed s) (vars s)
  end.

Definition unbind (s : state) (x : N) : state :=
  match lookup x (vars s) with
  | Some id => release (mkState (heap s) (next s) (freed s) (remove_key x (vars s))) id
  | None => s
  end.

(* in-place mutation of a block *)
Definition write (s : state) (id : N) (b' : block) : state :=
  mkState (put id b' (heap s)) (next s) (freed s) (vars s).

Definition swap_vars (s : state) (x y : N) : state :=
  match lookup x (vars s), lookup y (vars s) with
  | Some bx, Some by_ =>
      if N.eqb x y then s
      else mkState (heap s) (next s) (freed s)
                   ((x, by_) :: (y, bx) :: remove_key x (remove_key y (vars s)))
  | _, _ => s
  end.

(* ---------- bind_static ---------- *)

Lemma bind_static_inv s x : Inv s -> lookup x (vars s) = None -> Inv (bind_static s x).
Proof.
  intros HI Hx. pose proof HI as [Hhk Hvk Hst Hrc Hsz Hlv Hfr Hnd Hfd Hac Hnx].
  constructor; unfold bind_static; cbn [heap next freed vars]; try assumption.
  - cbn [map fst]. constructor; [apply lookup_none_keys; exact Hx | exact Hvk].
  - intros id b Hb Hid. cbn [hcount]. destruct (N.eqb 0 id) eqn:E.
    + apply N.eqb_eq in E. congruence.
    + cbn [Nat.add]. apply Hrc; assumption.
  - intros y id. cbn [lookup]. destruct (N.eqb y x).
    + intro H. inversion H. subst. rewrite Hst. discriminate.
    + apply Hlv.
Qed.

Lemma bind_static_blk s x z : Inv s ->
  blk (bind_static s x) z = if N.eqb z x then Some static_block else blk s z.
Proof.
  intro HI. unfold blk, bind_static. cbn [heap vars lookup]. destruct (N.eqb z x); [|reflexivity].
  apply (inv_static s HI).
Qed.

(* ---------- bind_new ---------- *)

Lemma in_lookup {A} x (b : A) vs : NoDup (map fst vs) -> In (x, b) vs -> lookup x vs = Some b.
Proof.
  induction vs as [|[k c] t IH]; cbn [map fst In lookup]; intros Hnd Hin; [destruct Hin|].
  inversion Hnd as [|? ? Hn Ht]; subst. destruct Hin as [H|H].
  - inversion H. subst. rewrite N.eqb_refl. reflexivity.
  - destruct (N.eqb x k) eqn:E.
    + apply N.eqb_eq in E. subst k. exfalso. apply Hn. apply in_map_iff.
      exists (x, b). split; [reflexivity|exact H].
    + apply IH; assumption.
Qed.

Lemma hcount_zero vs id : (forall x b, In (x, b) vs -> b <> id) -> hcount vs id = 0%nat.
Proof.
  induction vs as [|[k b] t IH]; intro H; cbn [hcount]; [reflexivity|].
  destruct (N.eqb b id) eqn:E.
  - apply N.eqb_eq in E. exfalso. apply (H k b); [left; reflexivity | exact E].
  - cbn [Nat.add]. apply IH. intros x c Hin. apply (H x c). right. exact Hin.
Qed.

Lemma no_handle_to_fresh s : Inv s -> hcount (vars s) (next s) = 0%nat.
Proof.
  intro HI. apply hcount_zero. intros x b Hin Hb. subst b.
  apply (in_lookup x (next s) (vars s) (inv_vkeys s HI)) in Hin.
  pose proof (inv_live s HI x _ Hin) as H1. apply (inv_fresh s HI) in H1. lia.
Qed.

Lemma bind_new_inv s x cap data : Inv s -> lookup x (vars s) = None ->
  N.of_nat (length data) <= cap -> Inv (bind_new s x cap data).
Proof.
  intros HI Hx Hcap. pose proof HI as [Hhk Hvk Hst Hrc Hsz Hlv Hfr Hnd Hfd Hac Hnx].
  pose proof (no_handle_to_fresh s HI) as Hz.
  constructor; unfold bind_new; cbn [heap next freed vars]; try assumption.
  - cbn [map fst]. constructor; [|exact Hhk]. intro Hin. apply lookup_in_keys in Hin.
    apply Hfr in Hin. lia.
  - cbn [map fst]. constructor; [apply lookup_none_keys; exact Hx | exact Hvk].
  - cbn [lookup]. destruct (N.eqb 0 (next s)) eqn:E; [apply N.eqb_eq in E; lia | exact Hst].
  - intros id b. cbn [lookup hcount]. destruct (N.eqb id (next s)) eqn:E.
    + apply N.eqb_eq in E. subst id. intros H _. inversion H. subst b. cbn [rc].
      rewrite N.eqb_refl, Hz. split; [reflexivity|lia].
    + intros Hb Hid. rewrite N.eqb_sym, E. cbn [Nat.add]. apply Hrc; assumption.
  - intros id b. cbn [lookup]. destruct (N.eqb id (next s)).
    + intro H. inversion H. subst b. cbn [bsize bcap bdata]. split; [reflexivity|exact Hcap].
    + apply Hsz.
  - intros y id. cbn [lookup]. destruct (N.eqb y x).
    + intro H. inversion H. subst id. rewrite N.eqb_refl. discriminate.
    + intro H. destruct (N.eqb id (next s)); [discriminate|]. apply (Hlv y). exact H.
  - intros id. cbn [lookup]. destruct (N.eqb id (next s)) eqn:E.
    + apply N.eqb_eq in E. lia.
    + intro H. apply Hfr in H. lia.
  - intros id Hin. destruct (Hfd id Hin) as [H1 [H2 H3]]. cbn [lookup].
    destruct (N.eqb id (next s)) eqn:E; [apply N.eqb_eq in E; lia|]. split; [exact H1|]. split; [lia|exact H3].
  - intros id H0 H1. cbn [lookup]. destruct (N.eqb id (next s)) eqn:E; [discriminate|].
    apply N.eqb_neq in E. intro H. apply Hac; [exact H0 | lia | exact H].
  - lia.
Qed.

Lemma bind_new_blk s x cap data z : Inv s ->
  blk (bind_new s x cap data) z =
  if N.eqb z x then Some (mkBlock 1 (N.of_nat (length data)) cap data) else blk s z.
Proof.
  intro HI. unfold blk, bind_new. cbn [heap vars lookup]. destruct (N.eqb z x).
  - rewrite N.eqb_refl. reflexivity.
  - destruct (lookup z (vars s)) as [id|] eqn:Ez; [|reflexivity].
    destruct (N.eqb id (next s)) eqn:E; [|reflexivity]. apply N.eqb_eq in E. subst id.
    pose proof (inv_live s HI z _ Ez) as H1. apply (inv_fresh s HI) in H1. lia.
Qed.

(* ---------- share ---------- *)

Lemma share_inv s x y id : Inv s -> lookup x (vars s) = Some id -> lookup y (vars s) = None ->
  Inv (share s x y).
Proof.
  intros HI Hx Hy. pose proof HI as [Hhk Hvk Hst Hrc Hsz Hlv Hfr Hnd Hfd Hac Hnx].
  destruct (live_blk s x id HI Hx) as [b [Hb _]].
  unfold share. rewrite Hx. unfold incr. rewrite Hb.
  destruct (static_or_counted s id b HI Hb) as [[Hid Hs]|[Hid [Hc Hpos]]].
  - (* static block: refcount untouched *)
    subst id b. cbn [rc static_block]. cbn [Z.ltb Z.compare].
    constructor; cbn [heap next freed vars]; try assumption.
    + cbn [map fst]. constructor; [apply lookup_none_keys; exact Hy | exact Hvk].
    + intros id b Hb2 Hid. cbn [hcount]. destruct (N.eqb 0 id) eqn:E.
      * apply N.eqb_eq in E. congruence.
      * cbn [Nat.add]. apply Hrc; assumption.
    + intros z i. cbn [lookup]. destruct (N.eqb z y).
      * intro H. inversion H. subst. rewrite Hst. discriminate.
      * apply Hlv.
  - destruct (Z.ltb_spec 0 (rc b)) as [_|Hle]; [|lia].
    constructor; cbn [heap next freed vars]; try assumption.
    + apply NoDup_put. exact Hhk.
    + cbn [map fst]. constructor; [apply lookup_none_keys; exact Hy | exact Hvk].
    + rewrite lookup_put. destruct (N.eqb 0 id) eqn:E; [apply N.eqb_eq in E; congruence | exact Hst].
    + intros i c. rewrite lookup_put. cbn [hcount]. destruct (N.eqb i id) eqn:E.
      * apply N.eqb_eq in E. subst i. intros H _. inversion H. subst c. unfold inc_block. cbn [rc].
        rewrite N.eqb_refl. split; lia.
      * intros Hc2 Hi. rewrite N.eqb_sym, E. cbn [Nat.add]. apply Hrc; assumption.
    + intros i c. rewrite lookup_put. destruct (N.eqb i id) eqn:E.
      * intro H. inversion H. subst c. unfold inc_block. cbn [bsize bcap bdata]. apply (Hsz id). exact Hb.
      * apply Hsz.
    + intros z i. cbn [lookup]. rewrite lookup_put. destruct (N.eqb z y).
      * intro H. inversion H. subst i. rewrite N.eqb_refl. discriminate.
      * intro H. destruct (N.eqb i id); [discriminate|]. apply (Hlv z). exact H.
    + intros i. rewrite lookup_put. destruct (N.eqb i id) eqn:E.
      * apply N.eqb_eq in E. subst i. intros _. apply Hfr. congruence.
      * apply Hfr.
    + intros i Hin. destruct (Hfd i Hin) as [H1 [H2 H3]]. rewrite lookup_put.
      destruct (N.eqb i id) eqn:E; [apply N.eqb_eq in E; subst i; congruence|]. auto.
    + intros i H0 H1. rewrite lookup_put. destruct (N.eqb i id); [discriminate|]. apply Hac; assumption.
Qed.

Lemma incr_bdata h id j : option_map bdata (lookup j (incr h id)) = option_map bdata (lookup j h).
Proof.
  unfold incr. destruct (lookup id h) as [b|] eqn:Eb; [|reflexivity].
  destruct (0 <? rc b)%Z; [|reflexivity]. rewrite lookup_put. destruct (N.eqb j id) eqn:E; [|reflexivity].
  apply N.eqb_eq in E. subst j. rewrite Eb. reflexivity.
Qed.

Lemma share_denote s x y id z : lookup x (vars s) = Some id ->
  denote (share s x y) z = if N.eqb z y then denote s x else denote s z.
Proof.
  intro Hx. unfold denote, blk, share. rewrite Hx. cbn [heap vars lookup]. destruct (N.eqb z y).
  - apply incr_bdata.
  - destruct (lookup z (vars s)); [apply incr_bdata | reflexivity].
Qed.

(* ---------- unbind ---------- *)

Lemma release_vars s id : vars (release s id) = vars s.
Proof.
  unfold release. destruct (lookup id (heap s)) as [b|]; [|reflexivity].
  destruct (rc b <? 0)%Z; [reflexivity|]. destruct (rc b =? 1)%Z; reflexivity.
Qed.

Lemma unbind_vars s x : vars (unbind s x) = remove_key x (vars s).
Proof.
  unfold unbind. destruct (lookup x (vars s)) as [id|] eqn:E.
  - rewrite release_vars. reflexivity.
  - symmetry. apply remove_key_none. exact E.
Qed.

Lemma unbind_inv s x id : Inv s -> lookup x (vars s) = Some id -> Inv (unbind s x).
Proof.
  intros HI Hx. pose proof HI as [Hhk Hvk Hst Hrc Hsz Hlv Hfr Hnd Hfd Hac Hnx].
  destruct (live_blk s x id HI Hx) as [b [Hb _]].
  assert (Hcnt : forall i, hcount (vars s) i =
                 (hcount (remove_key x (vars s)) i + if N.eqb id i then 1 else 0)%nat).
  { intro i. rewrite (hcount_remove x (vars s) i Hvk), Hx. reflexivity. }
  assert (Hlk : forall z i, lookup z (remove_key x (vars s)) = Some i -> lookup z (vars s) = Some i).
  { intros z i. rewrite lookup_remove. destruct (N.eqb z x); [discriminate | tauto]. }
  assert (Hvk' : NoDup (map fst (remove_key x (vars s)))) by (apply NoDup_remove_key; exact Hvk).
  unfold unbind. rewrite Hx. unfold release. cbn [heap next freed vars]. rewrite Hb.
  destruct (static_or_counted s id b HI Hb) as [[Hid Hs]|[Hid [Hc Hpos]]].
  - subst id b. cbn [rc static_block Z.ltb Z.compare].
    constructor; cbn [heap next freed vars]; try assumption.
    + intros i c Hc Hi. destruct (Hrc i c Hc Hi) as [Ha Hp]. rewrite (Hcnt i) in Ha.
      destruct (N.eqb 0 i) eqn:E; [apply N.eqb_eq in E; congruence|]. split; lia.
    + intros z i H. apply (Hlv z). apply Hlk. exact H.
  - destruct (Z.ltb_spec (rc b) 0) as [Hlt|_]; [lia|].
    destruct (Z.eqb_spec (rc b) 1) as [H1|H1].
    + (* last handle: the block is freed *)
      assert (Hz : hcount (remove_key x (vars s)) id = 0%nat).
      { pose proof (Hcnt id) as H. rewrite N.eqb_refl in H. lia. }
      constructor; cbn [heap next freed vars]; try assumption.
      * apply NoDup_remove_key. exact Hhk.
      * rewrite lookup_remove. destruct (N.eqb 0 id) eqn:E; [apply N.eqb_eq in E; congruence | exact Hst].
      * intros i c. rewrite lookup_remove. destruct (N.eqb i id) eqn:E; [discriminate|].
        intros Hc2 Hi. destruct (Hrc i c Hc2 Hi) as [Ha Hp]. rewrite (Hcnt i) in Ha.
        rewrite N.eqb_sym, E in Ha. split; lia.
      * intros i c. rewrite lookup_remove. destruct (N.eqb i id); [discriminate | apply Hsz].
      * intros z i H. rewrite lookup_remove. destruct (N.eqb i id) eqn:E.
        -- apply N.eqb_eq in E. subst i. apply hcount_lookup in H. lia.
        -- apply (Hlv z). apply Hlk. exact H.
      * intros i. rewrite lookup_remove. destruct (N.eqb i id); [congruence | apply Hfr].
      * constructor; [|exact Hnd]. intro Hin. destruct (Hfd id Hin) as [H2 _]. congruence.
      * intros i [Hi|Hi].
        -- subst i. rewrite lookup_remove, N.eqb_refl. split; [reflexivity|]. split; [|exact Hid].
           apply Hfr. congruence.
        -- destruct (Hfd i Hi) as [H2 [H3 H4]]. rewrite lookup_remove.
           destruct (N.eqb i id); auto.
      * intros i H0 H2. rewrite lookup_remove. destruct (N.eqb i id) eqn:E.
        -- apply N.eqb_eq in E. intros _. left. congruence.
        -- intro H. right. apply Hac; assumption.
    + (* other handles remain *)
      constructor; cbn [heap next freed vars]; try assumption.
      * apply NoDup_put. exact Hhk.
      * rewrite lookup_put. destruct (N.eqb 0 id) eqn:E; [apply N.eqb_eq in E; congruence | exact Hst].
      * intros i c. rewrite lookup_put. destruct (N.eqb i id) eqn:E.
        -- apply N.eqb_eq in E. subst i. intros H _. inversion H. subst c. unfold dec_block. cbn [rc].
           pose proof (Hcnt id) as H2. rewrite N.eqb_refl in H2. split; lia.
        -- intros Hc2 Hi. destruct (Hrc i c Hc2 Hi) as [Ha Hp]. rewrite (Hcnt i) in Ha.
           rewrite N.eqb_sym, E in Ha. split; lia.
      * intros i c. rewrite lookup_put. destruct (N.eqb i id).
        -- intro H. inversion H. subst c. unfold dec_block. cbn [bsize bcap bdata]. apply (Hsz id). exact Hb.
        -- apply Hsz.
      * intros z i H. rewrite lookup_put. destruct (N.eqb i id); [discriminate|].
        apply (Hlv z). apply Hlk. exact H.
      * intros i. rewrite lookup_put. destruct (N.eqb i id) eqn:E.
        -- apply N.eqb_eq in E. subst i. intros _. apply Hfr. congruence.
        -- apply Hfr.
      * intros i Hin. destruct (Hfd i Hin) as [H2 [H3 H4]]. rewrite lookup_put.
        destruct (N.eqb i id) eqn:E; [apply N.eqb_eq in E; subst i; congruence|]. auto.
      * intros i H0 H2. rewrite lookup_put. destruct (N.eqb i id); [discriminate|]. apply Hac; assumption.
Qed.

Lemma unbind_denote s x id z : Inv s -> lookup x (vars s) = Some id ->
  denote (unbind s x) z = if N.eqb z x then None else denote s z.
Proof.
  intros HI Hx. pose proof HI as [Hhk Hvk Hst Hrc Hsz Hlv Hfr Hnd Hfd Hac Hnx].
  destruct (live_blk s x id HI Hx) as [b [Hb _]].
  unfold denote, blk. rewrite unbind_vars, lookup_remove. destruct (N.eqb z x) eqn:Ezx; [reflexivity|].
  apply N.eqb_neq in Ezx.
  destruct (lookup z (vars s)) as [iz|] eqn:Ez; [|reflexivity].
  unfold unbind. rewrite Hx. unfold release. cbn [heap next freed vars]. rewrite Hb.
  destruct (rc b <? 0)%Z; [reflexivity|]. destruct (Z.eqb_spec (rc b) 1) as [H1|H1]; cbn [heap].
  - rewrite lookup_remove. destruct (N.eqb iz id) eqn:E; [|reflexivity].
    apply N.eqb_eq in E. subst iz. exfalso. apply Ezx. apply (unique_owner s x z id b); assumption.
  - rewrite lookup_put. destruct (N.eqb iz id) eqn:E; [|reflexivity].
    apply N.eqb_eq in E. subst iz. rewrite Hb. reflexivity.
Qed.

(* ---------- write ---------- *)

Lemma write_inv s id b b' : Inv s -> lookup id (heap s) = Some b -> id <> 0 -> rc b' = rc b ->
  bsize b' = N.of_nat (length (bdata b')) -> bsize b' <= bcap b' -> Inv (write s id b').
Proof.
  intros HI Hb Hid Hrc' Hs1 Hs2. pose proof HI as [Hhk Hvk Hst Hrc Hsz Hlv Hfr Hnd Hfd Hac Hnx].
  constructor; unfold write; cbn [heap next freed vars]; try assumption.
  - apply NoDup_put. exact Hhk.
  - rewrite lookup_put. destruct (N.eqb 0 id) eqn:E; [apply N.eqb_eq in E; congruence | exact Hst].
  - intros i c. rewrite lookup_put. destruct (N.eqb i id) eqn:E.
    + apply N.eqb_eq in E. subst i. intros H _. inversion H. subst c. rewrite Hrc'. apply Hrc; assumption.
    + apply Hrc.
  - intros i c. rewrite lookup_put. destruct (N.eqb i id).
    + intro H. inversion H. subst c. split; assumption.
    + apply Hsz.
  - intros z i H. rewrite lookup_put. destruct (N.eqb i id); [discriminate|]. apply (Hlv z). exact H.
  - intros i. rewrite lookup_put. destruct (N.eqb i id) eqn:E.
    + apply N.eqb_eq in E. subst i. intros _. apply Hfr. congruence.
    + apply Hfr.
  - intros i Hin. destruct (Hfd i Hin) as [H2 [H3 H4]]. rewrite lookup_put.
    destruct (N.eqb i id) eqn:E; [apply N.eqb_eq in E; subst i; congruence|]. auto.
  - intros i H0 H2. rewrite lookup_put. destruct (N.eqb i id); [discriminate|]. apply Hac; assumption.
Qed.

(* writing through the only handle of a block changes what that handle reads and nothing else *)
Lemma write_denote s x id b b' z : Inv s -> lookup x (vars s) = Some id ->
  lookup id (heap s) = Some b -> rc b = 1%Z ->
  denote (write s id b') z = if N.eqb z x then Some (bdata b') else denote s z.
Proof.
  intros HI Hx Hb H1. unfold denote, blk, write. cbn [heap vars].
  destruct (N.eqb z x) eqn:Ezx.
  - apply N.eqb_eq in Ezx. subst z. rewrite Hx, lookup_put, N.eqb_refl. reflexivity.
  - apply N.eqb_neq in Ezx. destruct (lookup z (vars s)) as [iz|] eqn:Ez; [|reflexivity].
    rewrite lookup_put. destruct (N.eqb iz id) eqn:E; [|reflexivity].
    apply N.eqb_eq in E. subst iz. exfalso. apply Ezx. apply (unique_owner s x z id b); assumption.
Qed.

(* ---------- swap ---------- *)

Lemma swap_inv s x y : Inv s -> Inv (swap_vars s x y).
Proof.
  intro HI. pose proof HI as [Hhk Hvk Hst Hrc Hsz Hlv Hfr Hnd Hfd Hac Hnx].
  unfold swap_vars. destruct (lookup x (vars s)) as [bx|] eqn:Ex; [|exact HI].
  destruct (lookup y (vars s)) as [by_|] eqn:Ey; [|exact HI].
  destruct (N.eqb x y) eqn:Exy; [exact HI|]. apply N.eqb_neq in Exy.
  assert (Ex' : lookup x (remove_key y (vars s)) = Some bx).
  { rewrite lookup_remove. destruct (N.eqb x y) eqn:E; [apply N.eqb_eq in E; congruence | exact Ex]. }
  assert (Hcnt : forall i, hcount (vars s) i =
     (hcount (remove_key x (remove_key y (vars s))) i +
      (if N.eqb bx i then 1 else 0) + (if N.eqb by_ i then 1 else 0))%nat).
  { intro i. rewrite (hcount_remove y (vars s) i Hvk), Ey.
    rewrite (hcount_remove x (remove_key y (vars s)) i (NoDup_remove_key y _ Hvk)), Ex'. reflexivity. }
  constructor; cbn [heap next freed vars]; try assumption.
  - cbn [map fst]. constructor.
    + cbn [In]. rewrite !keys_remove. intros [H|H]; [congruence | tauto].
    + constructor; [rewrite !keys_remove; tauto|]. apply NoDup_remove_key, NoDup_remove_key, Hvk.
  - intros i c Hc Hi. destruct (Hrc i c Hc Hi) as [Ha Hp]. rewrite (Hcnt i) in Ha. cbn [hcount].
    split; lia.
  - intros z i. cbn [lookup]. rewrite !lookup_remove. destruct (N.eqb z x).
    + intro H. inversion H. subst i. apply (Hlv y). exact Ey.
    + destruct (N.eqb z y).
      * intro H. inversion H. subst i. apply (Hlv x). exact Ex.
      * apply Hlv.
Qed.

Lemma swap_blk s x y bx by_ z : lookup x (vars s) = Some bx -> lookup y (vars s) = Some by_ ->
  blk (swap_vars s x y) z = if N.eqb z x then blk s y else if N.eqb z y then blk s x else blk s z.
Proof.
  intros Ex Ey. unfold swap_vars. rewrite Ex, Ey. destruct (N.eqb x y) eqn:Exy.
  - apply N.eqb_eq in Exy. subst y. destruct (N.eqb z x) eqn:E; [|reflexivity].
    apply N.eqb_eq in E. subst z. reflexivity.
  - unfold blk. cbn [heap vars lookup]. rewrite !lookup_remove, Ex, Ey.
    destruct (N.eqb z x); [reflexivity|]. destruct (N.eqb z y); reflexivity.
Qed.

(* ------------------------------------------------------------------ *)
(* operations of both implementations *)

Inductive side := Rust | Cpp.

Inductive vop :=
| VDefault (x : N)                        (* Rust Vector::default()            | C++ Vector() *)
| VWithCap (x cap : N)                    (* Rust Vector::with_capacity        | C++ Vector::with_capacity (private) *)
| VFromIter (x : N) (l : list N)          (* Rust from_iter, exact size_hint   | C++ Vector(first,last), Vector{...} *)
| VFromIterLazy (x esz : N) (l : list N)  (* Rust from_iter, size_hint 0: grows while collecting *)
| VClone (x y : N)                        (* Rust let y = x.clone()            | C++ Vector y(x) *)
| VDrop (x : N)                           (* Rust drop(x)                      | C++ ~Vector() *)
| VPush (sd : side) (esz x v : N)         (* Rust push (detach + amortised growth) | C++ push_back (detach(size+1)) *)
| VClear (x : N)                          (*                                   | C++ clear() *)
| VSet (x i v : N)                        (*                                   | C++ v[i] = val (non-const begin(): detach(size)) *)
| VCopyAssign (x y : N)                   (* Rust x = y.clone()                | C++ x = y *)
| VSwap (x y : N)                         (* Rust mem::swap(&mut x, &mut y)    | C++ x = std::move(y) *)
| VRead (x : N)                           (* Rust as_slice/len/capacity        | C++ cbegin..cend/size/capacity *)
| SFrom (x : N) (bytes : list N)          (* Rust String::from(&str)           | C++ String(string_view) = resolvo_string_from_bytes *)
| SRead (x : N).                          (* Rust as_str/len                   | C++ string_view / resolvo_string_bytes *)

(* determine_capacity_for_growth (vector.rs) *)
Definition min_non_zero_cap (esz : N) : N :=
  if N.eqb esz 1 then 8 else if N.leb esz 1024 then 4 else 1.

Definition grow (cur req esz : N) : N :=
  if N.leb req cur then cur else N.max (min_non_zero_cap esz) (N.max (cur * 2) req).

Lemma grow_ge cur req esz : req <= grow cur req esz.
Proof. unfold grow. destruct (N.leb_spec req cur); lia. Qed.

Fixpoint list_set (n : nat) (v : N) (l : list N) {struct l} : list N :=
  match l with
  | [] => []
  | a :: t => match n with O => v :: t | S n' => a :: list_set n' v t end
  end.

Lemma list_set_length n v l : length (list_set n v l) = length l.
Proof.
  revert n. induction l as [|a t IH]; intro n; [reflexivity|].
  destruct n; cbn [list_set length]; [reflexivity|]. rewrite IH. reflexivity.
Qed.

(* Rust: Vector::push = detach(determine_capacity_for_growth(cap, len+1, size_of::<T>())) + write
   C++ : push_back   = detach(size + 1) + placement new
   detach: unchanged if refcount == 1 and the capacity suffices; otherwise a new block with the
   requested capacity gets a copy of the elements and the old handle is released *)
Definition push (s : state) (sd : side) (esz x v : N) : option state :=
  match lookup x (vars s) with
  | None => None
  | Some id =>
    match lookup id (heap s) with
    | None => None
    | Some b =>
      let newcap := match sd with Rust => grow (bcap b) (bsize b + 1) esz | Cpp => bsize b + 1 end in
      if ((rc b =? 1)%Z && N.leb newcap (bcap b))%bool
      then Some (write s id (mkBlock (rc b) (bsize b + 1) (bcap b) (bdata b ++ [v])))
      else Some (bind_new (unbind s x) x newcap (bdata b ++ [v]))
    end
  end.

Definition push_or_id (s : state) (sd : side) (esz x v : N) : state :=
  match push s sd esz x v with Some s' => s' | None => s end.

Definition exec (s : state) (o : vop) : option state :=
  match o with
  | VDefault x =>
      match lookup x (vars s) with None => Some (bind_static s x) | Some _ => None end
  | VWithCap x c =>
      match lookup x (vars s) with None => Some (bind_new s x c []) | Some _ => None end
  | VFromIter x l =>
      match lookup x (vars s) with
      | None => Some (bind_new s x (N.of_nat (length l)) l) | Some _ => None end
  | VFromIterLazy x esz l =>
      match lookup x (vars s) with
      | None => Some (fold_left (fun s v => push_or_id s Rust esz x v) l (bind_new s x 0 []))
      | Some _ => None end
  | VClone x y =>
      match lookup x (vars s), lookup y (vars s) with
      | Some _, None => Some (share s x y) | _, _ => None end
  | VDrop x =>
      match lookup x (vars s) with Some _ => Some (unbind s x) | None => None end
  | VPush sd esz x v => push s sd esz x v
  | VClear x =>
      match lookup x (vars s) with
      | None => None
      | Some id =>
        match lookup id (heap s) with
        | None => None
        | Some b =>
          if (rc b =? 1)%Z then Some (write s id (mkBlock (rc b) 0 (bcap b) []))
          else Some (bind_static (unbind s x) x)     (* *this = Vector() *)
        end
      end
  | VSet x i v =>
      match lookup x (vars s) with
      | None => None
      | Some id =>
        match lookup id (heap s) with
        | None => None
        | Some b =>
          if N.ltb i (bsize b) then
            let d' := list_set (N.to_nat i) v (bdata b) in
            if ((rc b =? 1)%Z && N.leb (bsize b) (bcap b))%bool
            then Some (write s id (mkBlock (rc b) (bsize b) (bcap b) d'))
            else Some (bind_new (unbind s x) x (bsize b) d')
          else None
        end
      end
  | VCopyAssign x y =>
      match lookup x (vars s), lookup y (vars s) with
      | Some ix, Some iy => if N.eqb ix iy then Some s else Some (share (unbind s x) y x)
      | _, _ => None
      end
  | VSwap x y =>
      match lookup x (vars s), lookup y (vars s) with
      | Some _, Some _ => Some (swap_vars s x y) | _, _ => None end
  | VRead x | SRead x =>
      match lookup x (vars s) with Some _ => Some s | None => None end
  | SFrom x l =>
      match lookup x (vars s) with
      | None => Some (bind_new s x (N.of_nat (length (l ++ [0]))) (l ++ [0])) | Some _ => None end
  end.

(* the variable an operation reports on *)
Definition target (o : vop) : N :=
  match o with
  | VDefault x | VWithCap x _ | VFromIter x _ | VFromIterLazy x _ _ | VDrop x | VPush _ _ x _
  | VClear x | VSet x _ _ | VCopyAssign x _ | VSwap x _ | VRead x | SFrom x _ | SRead x => x
  | VClone _ y => y
  end.

(* what the harness observes after each operation: well-formedness, contents, size, capacity and
   refcount of the target's block, number of allocated and not freed blocks *)
Record vout := mkOut { o_ok : bool; o_data : list N; o_size : N; o_cap : N; o_rc : Z; o_live : N }.

Definition observe (ok : bool) (s : state) (o : vop) : vout :=
  match blk s (target o) with
  | Some b =>
      match o with
      | SRead _ => mkOut ok (firstn (N.to_nat (bsize b - 1)) (bdata b)) (bsize b - 1) (bcap b) (rc b) (live s)
      | _ => mkOut ok (bdata b) (bsize b) (bcap b) (rc b) (live s)
      end
  | None => mkOut ok [] 0 0 0 (live s)
  end.

Definition step (s : state) (o : vop) : state * vout :=
  match exec s o with
  | Some s' => (s', observe true s' o)
  | None => (s, observe false s o)
  end.

Fixpoint vrun_from (s : state) (ops : list vop) : list vout :=
  match ops with
  | [] => []
  | o :: t => let '(s', r) := step s o in r :: vrun_from s' t
  end.

Definition vrun (ops : list vop) : list vout := vrun_from init ops.

Definition final_from (s : state) (ops : list vop) : state :=
  fold_left (fun s o => fst (step s o)) ops s.

Definition final (ops : list vop) : state := final_from init ops.

(* ------------------------------------------------------------------ *)
(* abstract semantics: every handle is an independent list *)

Definition aden := N -> option (list N).

Definition upd (d : aden) (x : N) (v : option (list N)) : aden :=
  fun z => if N.eqb z x then v else d z.

Definition astep (d : aden) (o : vop) : option aden :=
  match o with
  | VDefault x | VWithCap x _ =>
      match d x with None => Some (upd d x (Some [])) | Some _ => None end
  | VFromIter x l | VFromIterLazy x _ l =>
      match d x with None => Some (upd d x (Some l)) | Some _ => None end
  | SFrom x l =>
      match d x with None => Some (upd d x (Some (l ++ [0]))) | Some _ => None end
  | VClone x y =>
      match d x, d y with Some l, None => Some (upd d y (Some l)) | _, _ => None end
  | VDrop x =>
      match d x with Some _ => Some (upd d x None) | None => None end
  | VPush _ _ x v =>
      match d x with Some l => Some (upd d x (Some (l ++ [v]))) | None => None end
  | VClear x =>
      match d x with Some _ => Some (upd d x (Some [])) | None => None end
  | VSet x i v =>
      match d x with
      | Some l => if N.ltb i (N.of_nat (length l))
                  then Some (upd d x (Some (list_set (N.to_nat i) v l))) else None
      | None => None
      end
  | VCopyAssign x y =>
      match d x, d y with Some _, Some l => Some (upd d x (Some l)) | _, _ => None end
  | VSwap x y =>
      match d x, d y with
      | Some lx, Some ly => Some (upd (upd d x (Some ly)) y (Some lx)) | _, _ => None end
  | VRead x | SRead x =>
      match d x with Some _ => Some d | None => None end
  end.

Definition arun_from (d : aden) (ops : list vop) : aden :=
  fold_left (fun d o => match astep d o with Some d' => d' | None => d end) ops d.

Definition R (s : state) (d : aden) : Prop := forall z, denote s z = d z.

Lemma denote_live s x id : Inv s -> lookup x (vars s) = Some id ->
  exists b, lookup id (heap s) = Some b /\ denote s x = Some (bdata b).
Proof.
  intros HI Hx. destruct (live_blk s x id HI Hx) as [b [Hb Hk]]. exists b. split; [exact Hb|].
  unfold denote. rewrite Hk. reflexivity.
Qed.

Lemma denote_dead s x : lookup x (vars s) = None -> denote s x = None.
Proof. intro H. unfold denote. rewrite (dead_blk s x H). reflexivity. Qed.

Lemma bind_static_denote s x z : Inv s ->
  denote (bind_static s x) z = if N.eqb z x then Some [] else denote s z.
Proof. intro HI. unfold denote. rewrite (bind_static_blk s x z HI). destruct (N.eqb z x); reflexivity. Qed.

Lemma bind_new_denote s x cap data z : Inv s ->
  denote (bind_new s x cap data) z = if N.eqb z x then Some data else denote s z.
Proof. intro HI. unfold denote. rewrite (bind_new_blk s x cap data z HI). destruct (N.eqb z x); reflexivity. Qed.

Lemma swap_denote s x y bx by_ z : lookup x (vars s) = Some bx -> lookup y (vars s) = Some by_ ->
  denote (swap_vars s x y) z =
  if N.eqb z x then denote s y else if N.eqb z y then denote s x else denote s z.
Proof.
  intros Ex Ey. unfold denote. rewrite (swap_blk s x y bx by_ z Ex Ey).
  destruct (N.eqb z x); [reflexivity|]. destruct (N.eqb z y); reflexivity.
Qed.

(* detach: new block, old handle released *)
Lemma detach_spec s x id cap data : Inv s -> lookup x (vars s) = Some id ->
  N.of_nat (length data) <= cap ->
  Inv (bind_new (unbind s x) x cap data) /\
  forall z, denote (bind_new (unbind s x) x cap data) z = if N.eqb z x then Some data else denote s z.
Proof.
  intros HI Hx Hcap. pose proof (unbind_inv s x id HI Hx) as HI1.
  assert (Hx1 : lookup x (vars (unbind s x)) = None).
  { rewrite unbind_vars, lookup_remove, N.eqb_refl. reflexivity. }
  split; [apply bind_new_inv; assumption|].
  intro z. rewrite (bind_new_denote _ x cap data z HI1), (unbind_denote s x id z HI Hx).
  destruct (N.eqb z x); reflexivity.
Qed.

Lemma rc1_not_static s id b : Inv s -> lookup id (heap s) = Some b -> rc b = 1%Z -> id <> 0.
Proof.
  intros HI Hb H1 Hid. subst id. rewrite (inv_static s HI) in Hb. inversion Hb. subst b.
  cbn in H1. discriminate.
Qed.

Lemma push_spec s sd esz x v id b : Inv s -> lookup x (vars s) = Some id ->
  lookup id (heap s) = Some b ->
  exists s', push s sd esz x v = Some s' /\ Inv s' /\
             forall z, denote s' z = if N.eqb z x then Some (bdata b ++ [v]) else denote s z.
Proof.
  intros HI Hx Hb. destruct (inv_size s HI id b Hb) as [Hs1 Hs2].
  unfold push. rewrite Hx, Hb.
  set (newcap := match sd with Rust => grow (bcap b) (bsize b + 1) esz | Cpp => bsize b + 1 end).
  assert (Hnc : bsize b + 1 <= newcap).
  { unfold newcap. destruct sd; [apply grow_ge | lia]. }
  assert (Hlen : N.of_nat (length (bdata b ++ [v])) = bsize b + 1).
  { rewrite app_length. cbn [length]. lia. }
  destruct ((rc b =? 1)%Z && N.leb newcap (bcap b))%bool eqn:Ec.
  - apply andb_true_iff in Ec. destruct Ec as [E1 E2]. apply Z.eqb_eq in E1. apply N.leb_le in E2.
    eexists. split; [reflexivity|]. split.
    + apply (write_inv s id b); cbn [rc bsize bcap bdata]; try assumption; try reflexivity.
      * apply (rc1_not_static s id b); assumption.
      * symmetry. exact Hlen.
      * lia.
    + intro z. rewrite (write_denote s x id b _ z HI Hx Hb E1). reflexivity.
  - eexists. split; [reflexivity|]. apply (detach_spec s x id); try assumption. lia.
Qed.

Lemma pushes_spec esz x l : forall s l0, Inv s -> denote s x = Some l0 ->
  Inv (fold_left (fun s v => push_or_id s Rust esz x v) l s) /\
  forall z, denote (fold_left (fun s v => push_or_id s Rust esz x v) l s) z =
            if N.eqb z x then Some (l0 ++ l) else denote s z.
Proof.
  induction l as [|v l IH]; intros s l0 HI Hd; cbn [fold_left].
  - split; [exact HI|]. intro z. rewrite app_nil_r. destruct (N.eqb z x) eqn:E; [|reflexivity].
    apply N.eqb_eq in E. subst z. exact Hd.
  - destruct (lookup x (vars s)) as [id|] eqn:Hx; [|rewrite (denote_dead s x Hx) in Hd; discriminate].
    destruct (denote_live s x id HI Hx) as [b [Hb Hd2]]. rewrite Hd in Hd2. inversion Hd2. subst l0.
    destruct (push_spec s Rust esz x v id b HI Hx Hb) as [s1 [Hp [HI1 Hden1]]].
    assert (Hpo : push_or_id s Rust esz x v = s1) by (unfold push_or_id; rewrite Hp; reflexivity).
    rewrite Hpo.
    assert (Hd1 : denote s1 x = Some (bdata b ++ [v])) by (rewrite Hden1, N.eqb_refl; reflexivity).
    destruct (IH s1 _ HI1 Hd1) as [HI2 Hden2]. split; [exact HI2|].
    intro z. rewrite Hden2, Hden1, <- app_assoc. destruct (N.eqb z x); reflexivity.
Qed.

Ltac case_var HI s x id b Hx Hb Hd :=
  destruct (lookup x (vars s)) as [id|] eqn:Hx;
  [ destruct (denote_live s x id HI Hx) as [b [Hb Hd]] | pose proof (denote_dead s x Hx) as Hd ].

(* one operation: the invariant is preserved and the concrete heap simulates the abstract lists;
   an operation is rejected by the model exactly when it is ill-formed abstractly (use of a dead
   variable, re-definition of a live one, index out of range) *)
Theorem exec_refines s d o : Inv s -> R s d ->
  match exec s o, astep d o with
  | Some s', Some d' => Inv s' /\ R s' d'
  | None, None => True
  | _, _ => False
  end.
Proof.
  intros HI HR. destruct o; cbn [exec astep].
  - (* VDefault *)
    rewrite <- (HR x). case_var HI s x ix b Hx Hb Hd; rewrite Hd; [exact I|].
    split; [apply bind_static_inv; assumption|]. intro z.
    rewrite (bind_static_denote s x z HI). unfold upd. rewrite (HR z). reflexivity.
  - (* VWithCap *)
    rewrite <- (HR x). case_var HI s x ix b Hx Hb Hd; rewrite Hd; [exact I|].
    split; [apply bind_new_inv; [assumption|assumption|cbn [length]; lia]|]. intro z.
    rewrite (bind_new_denote s x cap [] z HI). unfold upd. rewrite (HR z). reflexivity.
  - (* VFromIter *)
    rewrite <- (HR x). case_var HI s x ix b Hx Hb Hd; rewrite Hd; [exact I|].
    split; [apply bind_new_inv; [assumption|assumption|lia]|]. intro z.
    rewrite (bind_new_denote s x _ l z HI). unfold upd. rewrite (HR z). reflexivity.
  - (* VFromIterLazy *)
    rewrite <- (HR x). case_var HI s x ix b Hx Hb Hd; rewrite Hd; [exact I|].
    assert (HI0 : Inv (bind_new s x 0 [])) by (apply bind_new_inv; [assumption|assumption|cbn [length]; lia]).
    assert (Hd0 : denote (bind_new s x 0 []) x = Some []).
    { rewrite (bind_new_denote s x 0 [] x HI), N.eqb_refl. reflexivity. }
    destruct (pushes_spec esz x l _ [] HI0 Hd0) as [HI1 Hden]. split; [exact HI1|].
    intro z. rewrite Hden, (bind_new_denote s x 0 [] z HI). unfold upd. rewrite (HR z).
    destruct (N.eqb z x); reflexivity.
  - (* VClone *)
    rewrite <- (HR x), <- (HR y). case_var HI s x ix b Hx Hb Hd; rewrite Hd; [|exact I].
    case_var HI s y iy b2 Hy Hb2 Hd2; rewrite Hd2; [exact I|].
    split; [apply (share_inv s x y ix); assumption|]. intro z.
    rewrite (share_denote s x y ix z Hx). unfold upd. rewrite (HR z), Hd. reflexivity.
  - (* VDrop *)
    rewrite <- (HR x). case_var HI s x ix b Hx Hb Hd; rewrite Hd; [|exact I].
    split; [apply (unbind_inv s x ix); assumption|]. intro z.
    rewrite (unbind_denote s x ix z HI Hx). unfold upd. rewrite (HR z). reflexivity.
  - (* VPush *)
    rewrite <- (HR x). case_var HI s x ix b Hx Hb Hd; rewrite Hd.
    + destruct (push_spec s sd esz x v ix b HI Hx Hb) as [s' [Hp [HI' Hden]]]. rewrite Hp.
      split; [exact HI'|]. intro z. rewrite Hden. unfold upd. rewrite (HR z). reflexivity.
    + unfold push. rewrite Hx. exact I.
  - (* VClear *)
    rewrite <- (HR x). case_var HI s x ix b Hx Hb Hd; rewrite Hd; [|exact I]. rewrite Hb.
    destruct (inv_size s HI ix b Hb) as [Hs1 Hs2].
    destruct (Z.eqb_spec (rc b) 1) as [H1|H1].
    + split.
      * apply (write_inv s ix b); cbn [rc bsize bcap bdata length]; try assumption; try reflexivity.
        -- apply (rc1_not_static s ix b); assumption.
        -- lia.
      * intro z. rewrite (write_denote s x ix b _ z HI Hx Hb H1). unfold upd. rewrite (HR z). reflexivity.
    + pose proof (unbind_inv s x ix HI Hx) as HI1.
      assert (Hx1 : lookup x (vars (unbind s x)) = None).
      { rewrite unbind_vars, lookup_remove, N.eqb_refl. reflexivity. }
      split; [apply bind_static_inv; assumption|]. intro z.
      rewrite (bind_static_denote _ x z HI1), (unbind_denote s x ix z HI Hx). unfold upd. rewrite (HR z).
      destruct (N.eqb z x); reflexivity.
  - (* VSet *)
    rewrite <- (HR x). case_var HI s x ix b Hx Hb Hd; rewrite Hd; [|exact I]. rewrite Hb.
    destruct (inv_size s HI ix b Hb) as [Hs1 Hs2]. rewrite <- Hs1.
    destruct (N.ltb i (bsize b)); [|exact I].
    assert (Hlen : N.of_nat (length (list_set (N.to_nat i) v (bdata b))) = bsize b).
    { rewrite list_set_length. symmetry. exact Hs1. }
    destruct ((rc b =? 1)%Z && N.leb (bsize b) (bcap b))%bool eqn:Ec.
    + apply andb_true_iff in Ec. destruct Ec as [E1 E2]. apply Z.eqb_eq in E1.
      split.
      * apply (write_inv s ix b); cbn [rc bsize bcap bdata]; try assumption; try reflexivity.
        -- apply (rc1_not_static s ix b); assumption.
        -- symmetry. exact Hlen.
      * intro z. rewrite (write_denote s x ix b _ z HI Hx Hb E1). unfold upd. rewrite (HR z). reflexivity.
    + destruct (detach_spec s x ix (bsize b) (list_set (N.to_nat i) v (bdata b)) HI Hx) as [HI' Hden]; [lia|].
      split; [exact HI'|]. intro z. rewrite Hden. unfold upd. rewrite (HR z). reflexivity.
  - (* VCopyAssign *)
    rewrite <- (HR x), <- (HR y). case_var HI s x ix bx Hx Hbx Hdx; rewrite Hdx.
    + case_var HI s y iy by_ Hy Hby Hdy; rewrite Hdy; [|exact I].
      destruct (N.eqb ix iy) eqn:E.
      * apply N.eqb_eq in E. subst iy. split; [exact HI|]. intro z. unfold upd.
        destruct (N.eqb z x) eqn:Ez; [|apply HR]. apply N.eqb_eq in Ez. subst z.
        rewrite Hdx. rewrite Hbx in Hby. inversion Hby. reflexivity.
      * assert (Hxy : x <> y).
        { intro H. subst y. rewrite Hx in Hy. inversion Hy. subst iy. rewrite N.eqb_refl in E. discriminate. }
        pose proof (unbind_inv s x ix HI Hx) as HI1.
        assert (Hx1 : lookup x (vars (unbind s x)) = None).
        { rewrite unbind_vars, lookup_remove, N.eqb_refl. reflexivity. }
        assert (Hy1 : lookup y (vars (unbind s x)) = Some iy).
        { rewrite unbind_vars, lookup_remove. destruct (N.eqb y x) eqn:E2; [|exact Hy].
          apply N.eqb_eq in E2. congruence. }
        split; [apply (share_inv _ y x iy); assumption|]. intro z.
        rewrite (share_denote _ y x iy z Hy1), !(unbind_denote s x ix _ HI Hx). unfold upd. rewrite (HR z).
        destruct (N.eqb z x); [|reflexivity].
        destruct (N.eqb y x) eqn:E2; [apply N.eqb_eq in E2; congruence | exact Hdy].
    + destruct (denote s y); exact I.
  - (* VSwap *)
    rewrite <- (HR x), <- (HR y). case_var HI s x ix bx Hx Hbx Hdx; rewrite Hdx.
    + case_var HI s y iy by_ Hy Hby Hdy; rewrite Hdy; [|exact I].
      split; [apply swap_inv; exact HI|]. intro z.
      rewrite (swap_denote s x y ix iy z Hx Hy). unfold upd. rewrite (HR z), Hdx, Hdy.
      destruct (N.eqb z y) eqn:Ezy; destruct (N.eqb z x) eqn:Ezx; try reflexivity.
      apply N.eqb_eq in Ezy. apply N.eqb_eq in Ezx. subst. rewrite Hdx in Hdy. symmetry. exact Hdy.
    + destruct (denote s y); exact I.
  - (* VRead *)
    rewrite <- (HR x). case_var HI s x ix b Hx Hb Hd; rewrite Hd; [|exact I]. split; assumption.
  - (* SFrom *)
    rewrite <- (HR x). case_var HI s x ix b Hx Hb Hd; rewrite Hd; [exact I|].
    split; [apply bind_new_inv; [assumption|assumption|lia]|]. intro z.
    rewrite (bind_new_denote s x _ (bytes ++ [0]) z HI). unfold upd. rewrite (HR z). reflexivity.
  - (* SRead *)
    rewrite <- (HR x). case_var HI s x ix b Hx Hb Hd; rewrite Hd; [|exact I]. split; assumption.
Qed.

(* ------------------------------------------------------------------ *)
(* every operation sequence *)

Lemma step_refines s d o : Inv s -> R s d ->
  Inv (fst (step s o)) /\
  R (fst (step s o)) (match astep d o with Some d' => d' | None => d end).
Proof.
  intros HI HR. pose proof (exec_refines s d o HI HR) as H. unfold step.
  destruct (exec s o) as [s'|]; destruct (astep d o) as [d'|]; cbn [fst]; try contradiction.
  - exact H.
  - split; assumption.
Qed.

Lemma run_refines ops : forall s d, Inv s -> R s d ->
  Inv (final_from s ops) /\ R (final_from s ops) (arun_from d ops).
Proof.
  induction ops as [|o ops IH]; intros s d HI HR; cbn [final_from arun_from fold_left].
  - split; assumption.
  - destruct (step_refines s d o HI HR) as [HI' HR']. apply IH; assumption.
Qed.

Definition aempty : aden := fun _ => None.

Lemma init_R : R init aempty.
Proof. intro z. reflexivity. Qed.

(* the invariant holds after any sequence of operations *)
Theorem reachable_inv ops : Inv (final ops).
Proof. apply (run_refines ops init aempty init_inv init_R). Qed.

(* copy-on-write correctness: what a handle reads is what the abstract machine -- where every
   handle owns an independent list and an operation changes its target only -- says it is *)
Theorem cow_refinement ops z : denote (final ops) z = arun_from aempty ops z.
Proof. apply (run_refines ops init aempty init_inv init_R). Qed.

(* in particular one abstract step changes the target variable only *)
Theorem astep_frame d o d' z : astep d o = Some d' -> z <> target o ->
  (forall y, o <> VSwap z y) -> (forall x, o <> VSwap x z) -> d' z = d z.
Proof.
  intros H Hz Hs1 Hs2.
  assert (Hu : forall v, upd d (target o) v z = d z).
  { intro v. unfold upd. destruct (N.eqb z (target o)) eqn:E; [apply N.eqb_eq in E; contradiction | reflexivity]. }
  destruct o; cbn [astep target] in *;
    repeat match type of H with
           | match ?c with _ => _ end = _ => destruct c; try discriminate
           end; inversion H; subst d'; try apply Hu; try reflexivity.
  (* VSwap x y with z <> x *)
  unfold upd. destruct (N.eqb z y) eqn:E.
  - apply N.eqb_eq in E. subst y. exfalso. apply (Hs2 x). reflexivity.
  - destruct (N.eqb z x) eqn:E2; [apply N.eqb_eq in E2; contradiction | reflexivity].
Qed.

(* the refcount of every live non-static block is the number of live handles pointing to it *)
Theorem refcount_exact ops id b : lookup id (heap (final ops)) = Some b -> id <> 0 ->
  rc b = Z.of_nat (hcount (vars (final ops)) id) /\ (0 < rc b)%Z.
Proof. apply (inv_rc _ (reachable_inv ops)). Qed.

(* the static empty block is never written and never freed *)
Theorem static_untouched ops :
  lookup 0 (heap (final ops)) = Some static_block /\ ~ In 0 (freed (final ops)).
Proof.
  pose proof (reachable_inv ops) as HI. split; [apply (inv_static _ HI)|].
  intro H. destruct (inv_freed _ HI 0 H) as [_ [_ H0]]. apply H0. reflexivity.
Qed.

(* no block is freed twice *)
Theorem no_double_free ops : NoDup (freed (final ops)).
Proof. apply (inv_freed_nd _ (reachable_inv ops)). Qed.

(* no live handle points to a freed block *)
Theorem no_dangling ops x id : lookup x (vars (final ops)) = Some id ->
  (exists b, lookup id (heap (final ops)) = Some b) /\ ~ In id (freed (final ops)).
Proof.
  intro Hx. pose proof (reachable_inv ops) as HI.
  destruct (live_blk _ x id HI Hx) as [b [Hb _]]. split; [exists b; exact Hb|].
  intro H. destruct (inv_freed _ HI id H) as [H1 _]. congruence.
Qed.

(* a freed block has no handle left: it was freed only once its refcount had dropped to 0 *)
Theorem freed_unreferenced ops id : In id (freed (final ops)) ->
  hcount (vars (final ops)) id = 0%nat /\ lookup id (heap (final ops)) = None.
Proof.
  intro H. pose proof (reachable_inv ops) as HI. destruct (inv_freed _ HI id H) as [H1 _].
  split; [|exact H1]. apply hcount_zero. intros x b Hin Hb. subst b.
  apply (in_lookup x id _ (inv_vkeys _ HI)) in Hin. apply (inv_live _ HI) in Hin. contradiction.
Qed.

(* release is the only action that frees, and it frees exactly when the refcount it
   decrements is 1 (fetch_sub(1) == 1 / --refcount == 0) *)
Theorem release_frees_last_only s id j : In j (freed (release s id)) ->
  In j (freed s) \/ (j = id /\ exists b, lookup id (heap s) = Some b /\ rc b = 1%Z).
Proof.
  unfold release. destruct (lookup id (heap s)) as [b|] eqn:Eb; [|tauto].
  destruct (rc b <? 0)%Z; [tauto|]. destruct (Z.eqb_spec (rc b) 1) as [H1|H1]; cbn [freed]; [|tauto].
  intros [H|H]; [|tauto]. right. split; [congruence|]. exists b. split; [reflexivity|exact H1].
Qed.

Theorem size_le_cap ops id b : lookup id (heap (final ops)) = Some b ->
  bsize b = N.of_nat (length (bdata b)) /\ bsize b <= bcap b.
Proof. apply (inv_size _ (reachable_inv ops)). Qed.

(* every block ever allocated is either still allocated or has been freed, never both *)
Theorem allocated_live_xor_freed ops id : 0 < id -> id < next (final ops) ->
  (lookup id (heap (final ops)) <> None /\ ~ In id (freed (final ops))) \/
  (lookup id (heap (final ops)) = None /\ In id (freed (final ops))).
Proof.
  intros H0 H1. pose proof (reachable_inv ops) as HI.
  destruct (lookup id (heap (final ops))) as [b|] eqn:E.
  - left. split; [congruence|]. intro H. destruct (inv_freed _ HI id H) as [H2 _]. congruence.
  - right. split; [reflexivity|]. apply (inv_acct _ HI); assumption.
Qed.

Lemma only_static (h : list (N * block)) c : NoDup (map fst h) ->
  (forall id b, lookup id h = Some b -> id = 0) -> lookup 0 h = Some c -> h = [(0, c)].
Proof.
  intros Hnd Hall H0. destruct h as [|[k v] t]; [discriminate|].
  assert (Hk : k = 0) by (apply (Hall k v); cbn [lookup]; rewrite N.eqb_refl; reflexivity).
  subst k. cbn [lookup] in H0. rewrite N.eqb_refl in H0. inversion H0. subst v.
  destruct t as [|[k2 v2] t2]; [reflexivity|exfalso].
  cbn [map fst] in Hnd. inversion Hnd as [|? ? Hn _]. subst.
  assert (Hk2 : k2 <> 0) by (intro; subst; apply Hn; left; reflexivity).
  apply Hk2. apply (Hall k2 v2). cbn [lookup].
  destruct (N.eqb k2 0) eqn:E; [apply N.eqb_eq in E; contradiction|]. rewrite N.eqb_refl. reflexivity.
Qed.

(* no leak: once every handle has been dropped, every allocated block has been freed *)
Theorem no_leak ops : vars (final ops) = [] ->
  heap (final ops) = [(0, static_block)] /\ live (final ops) = 0 /\
  forall id, 0 < id -> id < next (final ops) -> In id (freed (final ops)).
Proof.
  intro Hv. pose proof (reachable_inv ops) as HI.
  assert (Hh : heap (final ops) = [(0, static_block)]).
  { apply only_static; [apply (inv_hkeys _ HI) | | apply (inv_static _ HI)].
    intros id b Hb. destruct (N.eq_dec id 0) as [E|E]; [exact E|exfalso].
    destruct (inv_rc _ HI id b Hb E) as [H1 H2]. rewrite Hv in H1. cbn [hcount] in H1. lia. }
  split; [exact Hh|]. split; [unfold live; rewrite Hh; reflexivity|].
  intros id H0 H1. apply (inv_acct _ HI); try assumption. rewrite Hh. cbn [lookup].
  destruct (N.eqb id 0) eqn:E; [apply N.eqb_eq in E; lia | reflexivity].
Qed.

(* reading through a live handle returns exactly the list the handle denotes *)
Theorem read_denotes s x l : denote s x = Some l ->
  o_ok (snd (step s (VRead x))) = true /\ o_data (snd (step s (VRead x))) = l /\
  fst (step s (VRead x)) = s.
Proof.
  intro Hd. unfold denote, blk in Hd. unfold step. cbn [exec].
  destruct (lookup x (vars s)) as [id|] eqn:Hx; [|discriminate]. cbn [fst snd].
  unfold observe, blk. cbn [target]. rewrite Hx.
  destruct (lookup id (heap s)) as [b|]; [|discriminate]. cbn [o_ok o_data]. inversion Hd. auto.
Qed.

(* String = Vector<u8> holding the bytes followed by NUL; as_str drops the NUL *)
Theorem string_from_read s x bytes : Inv s -> lookup x (vars s) = None ->
  let s' := fst (step s (SFrom x bytes)) in
  Inv s' /\ denote s' x = Some (bytes ++ [0]) /\
  o_data (snd (step s' (SRead x))) = bytes /\ o_size (snd (step s' (SRead x))) = N.of_nat (length bytes).
Proof.
  intros HI Hx.
  assert (Hs : fst (step s (SFrom x bytes)) = bind_new s x (N.of_nat (length (bytes ++ [0]))) (bytes ++ [0])).
  { unfold step. cbn [exec]. rewrite Hx. reflexivity. }
  cbv zeta. rewrite Hs. clear Hs.
  set (s' := bind_new s x (N.of_nat (length (bytes ++ [0]))) (bytes ++ [0])).
  assert (HI' : Inv s') by (apply bind_new_inv; [assumption|assumption|lia]).
  assert (Hb : blk s' x = Some (mkBlock 1 (N.of_nat (length (bytes ++ [0]))) (N.of_nat (length (bytes ++ [0]))) (bytes ++ [0]))).
  { unfold s'. rewrite (bind_new_blk s x _ _ x HI), N.eqb_refl. reflexivity. }
  split; [exact HI'|]. split; [unfold denote; rewrite Hb; reflexivity|].
  assert (Hl : lookup x (vars s') <> None).
  { unfold blk in Hb. destruct (lookup x (vars s')); [congruence|discriminate]. }
  unfold step. cbn [exec]. destruct (lookup x (vars s')) as [id|] eqn:E; [|congruence]. cbn [snd].
  unfold observe. cbn [target]. rewrite Hb. cbn [o_data o_size bsize bdata].
  assert (Hn : N.to_nat (N.of_nat (length (bytes ++ [0])) - 1) = length bytes).
  { rewrite app_length. cbn [length]. lia. }
  rewrite Hn. split.
  - rewrite firstn_app, Nat.sub_diag, firstn_all. cbn [firstn]. apply app_nil_r.
  - rewrite app_length. cbn [length]. lia.
Qed.

(* resolvo_string.h, String::operator=(const String&) as written: resolvo_string_drop(this)
   followed by resolvo_string_clone(this, &other), without the self-assignment guard that
   Vector::operator= has.  [this] keeps its old pointer value across the drop. *)
Definition string_copy_assign_as_written (s : state) (x y : N) : state * bool :=
  match lookup x (vars s), lookup y (vars s) with
  | Some ix, Some iy =>
      let s1 := release s ix in
      match lookup iy (heap s1) with
      | None => (s1, true)          (* the clone reads the header of a freed block *)
      | Some _ => (mkState (incr (heap s1) iy) (next s1) (freed s1) (put x iy (vars s1)), false)
      end
  | _, _ => (s, false)
  end.

(* witness: a String that is the only handle of its block, assigned to itself, ends up
   pointing to a freed block (use after free, then double free on destruction) *)
Example string_self_assign_as_written_refuted :
  let s := final [SFrom 0 [97; 98; 99]] in
  let r := string_copy_assign_as_written s 0 0 in
  snd r = true /\ lookup 0 (vars (fst r)) = Some 1 /\ In 1 (freed (fst r)) /\
  (* whereas the guarded assignment (the model's VCopyAssign, = Vector::operator=) is a no-op *)
  fst (step s (VCopyAssign 0 0)) = s.
Proof. vm_compute. repeat split; auto. Qed.
