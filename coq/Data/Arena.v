(* Data/Arena.v -- executable model of src/internal/arena.rs.

   The Rust arena is a [Vec<Vec<TValue>>] whose inner vectors are created with
   [Vec::with_capacity(CHUNK_SIZE)], plus a running [len].  Element [id] lives
   at the *location* (chunk index, offset) = (id / CHUNK_SIZE, id mod CHUNK_SIZE).
   [Index::index] hands out [&TValue] through a shared [&self] while [alloc]
   (also [&self]) keeps pushing: this is sound only if
     (a) a push never touches an occupied slot,
     (b) no inner vector ever grows beyond its reserved capacity CHUNK_SIZE
         (so its heap buffer is never reallocated; growing the *outer* vector
         only moves the inner (ptr, cap, len) headers, not the buffers).
   The model keeps the same list-of-lists shape, so (a) and (b) are statements
   about [slot] and [clen] below. *)
From Coq Require Import List Arith NArith Bool Lia.
From Resolvo Require Import Gen.Consts.
Import ListNotations.
Open Scope N_scope.

Definition CS : N := CHUNK_SIZE.

Lemma CS_pos : 0 < CS.
Proof. unfold CS. apply CHUNK_SIZE_pos. Qed.

(* how quotient and remainder move when the length grows by one *)
Lemma divmod_succ n :
  (n mod CS + 1 < CS /\ (n + 1) / CS = n / CS /\ (n + 1) mod CS = n mod CS + 1) \/
  (n mod CS + 1 = CS /\ (n + 1) / CS = n / CS + 1 /\ (n + 1) mod CS = 0).
Proof.
  pose proof CS_pos as Hp.
  pose proof (N.div_mod n CS ltac:(lia)) as Hdm.
  pose proof (N.mod_lt n CS ltac:(lia)) as Hm.
  destruct (N.lt_ge_cases (n mod CS + 1) CS) as [H|H].
  - left. split; [exact H|]. split.
    + symmetry. apply (N.div_unique (n + 1) CS (n / CS) (n mod CS + 1)); lia.
    + symmetry. apply (N.mod_unique (n + 1) CS (n / CS) (n mod CS + 1)); lia.
  - right. assert (He : n mod CS + 1 = CS) by lia. split; [exact He|]. split.
    + symmetry. apply (N.div_unique (n + 1) CS (n / CS + 1) 0); lia.
    + symmetry. apply (N.mod_unique (n + 1) CS (n / CS + 1) 0); lia.
Qed.

Section Arena.
Context {V : Type}.

Record arena := mkArena { chunks : list (list V); len : N }.

(* Arena::with_capacity: max(1,n).div_ceil(CHUNK_SIZE) empty chunks *)
Definition with_capacity (n : N) : arena :=
  let n := N.max 1 n in
  {| chunks := repeat [] (N.to_nat ((n - 1) / CS + 1)); len := 0 |}.

(* Arena::new *)
Definition new : arena := with_capacity 1.

Definition chunk (a : arena) (c : N) : list V := nth (N.to_nat c) (chunks a) [].

(* what is physically stored at offset [o] of chunk [c] *)
Definition slot (a : arena) (c o : N) : option V := nth_error (chunk a c) (N.to_nat o).

(* Arena::chunk_and_offset *)
Definition loc (id : N) : N * N := (id / CS, id mod CS).

(* Index::index; None = the [assert!(index < self.len())] panic *)
Definition get (a : arena) (id : N) : option V :=
  if N.ltb id (len a) then slot a (id / CS) (id mod CS) else None.

(* chunks[c].push(v); an out-of-range [c] would be an index panic in Rust and
   is shown unreachable below (alloc_chunk uses Inv to prove c is in range) *)
Fixpoint push_at (l : list (list V)) (c : nat) (v : V) : list (list V) :=
  match l, c with
  | [], _ => []
  | ch :: t, O => (ch ++ [v]) :: t
  | ch :: t, S c' => ch :: push_at t c' v
  end.

(* Arena::alloc *)
Definition alloc (a : arena) (v : V) : arena * N :=
  let id := len a in
  let c := N.to_nat (id / CS) in
  let chunks1 := if Nat.leb (length (chunks a)) c then chunks a ++ [[]] else chunks a in
  ({| chunks := push_at chunks1 c v; len := id + 1 |}, id).

Fixpoint allocs (a : arena) (vs : list V) : arena :=
  match vs with
  | [] => a
  | v :: t => allocs (fst (alloc a v)) t
  end.

(* ------------------------------------------------------------------ *)

Definition nchunks (a : arena) : N := N.of_nat (length (chunks a)).
Definition clen (a : arena) (c : N) : N := N.of_nat (length (chunk a c)).

(* all chunks before len/CS are full, chunk len/CS holds len mod CS elements,
   later chunks are empty, and chunk len/CS exists unless it is about to be
   created by the next alloc *)
Definition Inv (a : arena) : Prop :=
  0 < nchunks a /\
  (len a / CS < nchunks a \/ (len a / CS = nchunks a /\ len a mod CS = 0)) /\
  forall c, (c < len a / CS -> clen a c = CS) /\
            (c = len a / CS -> clen a c = len a mod CS) /\
            (len a / CS < c -> clen a c = 0).

(* a' extends a: nothing that was stored moved or changed *)
Definition aext (a a' : arena) : Prop :=
  len a <= len a' /\ forall c o x, slot a c o = Some x -> slot a' c o = Some x.

Lemma push_at_length l : forall c v, length (push_at l c v) = length l.
Proof.
  induction l as [|ch t IH]; intros c v; destruct c as [|c]; cbn [push_at length]; try reflexivity.
  rewrite IH. reflexivity.
Qed.

Lemma push_at_same l : forall c v, (c < length l)%nat ->
  nth c (push_at l c v) [] = nth c l [] ++ [v].
Proof.
  induction l as [|ch t IH]; intros c v H; cbn [length] in H; [lia|].
  destruct c as [|c]; cbn [push_at nth]; [reflexivity|]. apply IH. lia.
Qed.

Lemma push_at_other l : forall c c' v, c' <> c ->
  nth c' (push_at l c v) [] = nth c' l [].
Proof.
  induction l as [|ch t IH]; intros c c' v H; [destruct c; reflexivity|].
  destruct c as [|c]; destruct c' as [|c']; cbn [push_at nth]; try reflexivity; try congruence.
  apply IH. congruence.
Qed.

Lemma nth_app_nil (l : list (list V)) c : nth c (l ++ [[]]) [] = nth c l [].
Proof.
  destruct (Nat.lt_ge_cases c (length l)) as [H|H].
  - apply app_nth1. exact H.
  - rewrite app_nth2 by exact H. rewrite (nth_overflow l) by exact H.
    destruct (c - length l)%nat as [|[|k]]; reflexivity.
Qed.

Lemma nth_repeat_nil k c : nth c (repeat (@nil V) k) [] = [].
Proof.
  revert c. induction k as [|k IH]; intros [|c]; cbn [repeat nth]; try reflexivity. apply IH.
Qed.

Lemma with_capacity_inv n : Inv (with_capacity n).
Proof.
  pose proof CS_pos as Hp. unfold Inv, with_capacity, nchunks, clen, chunk. cbn [chunks len].
  rewrite repeat_length, N2Nat.id.
  rewrite (N.div_0_l CS) by lia. rewrite (N.mod_0_l CS) by lia.
  generalize ((N.max 1 n - 1) / CS). intro m.
  split; [lia|]. split; [left; lia|].
  intro c. rewrite nth_repeat_nil. cbn [length N.of_nat]. split; [lia|]. split; intros; reflexivity.
Qed.

Lemma alloc_len a v : len (fst (alloc a v)) = len a + 1.
Proof. reflexivity. Qed.

Lemma alloc_id a v : snd (alloc a v) = len a.
Proof. reflexivity. Qed.

(* the chunk index used by alloc exists (after the optional resize): no index panic *)
Lemma alloc_index_ok a : Inv a ->
  (N.to_nat (len a / CS) <
   length (if Nat.leb (length (chunks a)) (N.to_nat (len a / CS)) then chunks a ++ [[]] else chunks a))%nat.
Proof.
  intros [Hn [Hq _]]. unfold nchunks in *.
  destruct (Nat.leb (length (chunks a)) (N.to_nat (len a / CS))) eqn:El.
  - rewrite app_length. cbn [length]. lia.
  - apply Nat.leb_gt in El. exact El.
Qed.

(* physical effect of alloc: exactly one chunk gets one element appended *)
Lemma alloc_chunk a v : Inv a -> forall c,
  chunk (fst (alloc a v)) c = if N.eqb c (len a / CS) then chunk a c ++ [v] else chunk a c.
Proof.
  intros HI c. pose proof (alloc_index_ok a HI) as Hok.
  unfold chunk, alloc. cbn [fst chunks].
  destruct (N.eqb c (len a / CS)) eqn:E.
  - apply N.eqb_eq in E. rewrite E. rewrite push_at_same by exact Hok. f_equal.
    destruct (Nat.leb (length (chunks a)) (N.to_nat (len a / CS))); [apply nth_app_nil|reflexivity].
  - apply N.eqb_neq in E. rewrite push_at_other by lia.
    destruct (Nat.leb (length (chunks a)) (N.to_nat (len a / CS))); [apply nth_app_nil|reflexivity].
Qed.

Lemma alloc_clen a v : Inv a -> forall c,
  clen (fst (alloc a v)) c = if N.eqb c (len a / CS) then clen a c + 1 else clen a c.
Proof.
  intros HI c. unfold clen. rewrite (alloc_chunk a v HI c).
  destruct (N.eqb c (len a / CS)); [|reflexivity]. rewrite app_length. cbn [length]. lia.
Qed.

Lemma alloc_nchunks a v :
  nchunks (fst (alloc a v)) = if N.leb (nchunks a) (len a / CS) then nchunks a + 1 else nchunks a.
Proof.
  unfold nchunks, alloc. cbn [fst chunks]. rewrite push_at_length.
  destruct (Nat.leb (length (chunks a)) (N.to_nat (len a / CS))) eqn:El;
    destruct (N.leb (N.of_nat (length (chunks a))) (len a / CS)) eqn:En;
    try apply Nat.leb_le in El; try apply Nat.leb_gt in El;
    try apply N.leb_le in En; try apply N.leb_gt in En; try lia.
  rewrite app_length. cbn [length]. lia.
Qed.

Lemma alloc_inv a v : Inv a -> Inv (fst (alloc a v)).
Proof.
  intro HI. pose proof HI as [Hn [Hq Hc]]. pose proof CS_pos as Hp.
  pose proof (N.mod_lt (len a) CS ltac:(lia)) as Hm.
  unfold Inv. rewrite alloc_len, alloc_nchunks.
  assert (Hcl : forall c, clen (fst (alloc a v)) c =
                          if N.eqb c (len a / CS) then clen a c + 1 else clen a c)
    by (apply alloc_clen; exact HI).
  revert Hn Hq Hc Hm Hcl.
  generalize (clen (fst (alloc a v))) as cl'. generalize (clen a) as cl.
  generalize (nchunks a) as nc. intros nc cl cl' Hn Hq Hc Hm Hcl.
  destruct (divmod_succ (len a)) as [[H1 [H2 H3]]|[H1 [H2 H3]]]; rewrite H2, H3;
    revert Hq Hc Hm H1 Hcl; generalize (len a / CS) as q; generalize (len a mod CS) as r;
    intros r q Hq Hc Hm H1 Hcl.
  - split; [destruct (N.leb nc q); lia|]. split.
    + destruct (N.leb nc q) eqn:E; [apply N.leb_le in E|apply N.leb_gt in E]; lia.
    + intro c. rewrite Hcl. destruct (Hc c) as [Ha [Hb Hd]].
      destruct (N.eqb c q) eqn:E; [apply N.eqb_eq in E|apply N.eqb_neq in E].
      * split; [lia|]. split; [intros _; rewrite (Hb E); reflexivity|lia].
      * split; [exact Ha|]. split; [lia|exact Hd].
  - split; [destruct (N.leb nc q); lia|]. split.
    + destruct (N.leb nc q) eqn:E; [apply N.leb_le in E|apply N.leb_gt in E]; lia.
    + intro c. rewrite Hcl. destruct (Hc c) as [Ha [Hb Hd]].
      destruct (N.eqb c q) eqn:E; [apply N.eqb_eq in E|apply N.eqb_neq in E].
      * split; [intros _; rewrite (Hb E); lia|]. split; lia.
      * split; [intro Hlt; apply Ha; lia|]. split; [intro He; apply Hd; lia|intro Hgt; apply Hd; lia].
Qed.

(* (b): no chunk ever exceeds its reserved capacity *)
Lemma inv_clen_le a : Inv a -> forall c, clen a c <= CS.
Proof.
  intros [_ [_ Hc]] c. pose proof CS_pos as Hp.
  pose proof (N.mod_lt (len a) CS ltac:(lia)) as Hm.
  destruct (Hc c) as [Ha [Hb Hd]].
  destruct (N.lt_trichotomy c (len a / CS)) as [H|[H|H]].
  - rewrite (Ha H). lia.
  - rewrite (Hb H). lia.
  - rewrite (Hd H). lia.
Qed.

(* every id below len addresses an occupied slot *)
Lemma inv_slot_in_range a id : Inv a -> id < len a -> id mod CS < clen a (id / CS).
Proof.
  intros [_ [_ Hc]] Hlt. pose proof CS_pos as Hp.
  pose proof (N.mod_lt id CS ltac:(lia)) as Hm.
  pose proof (N.div_mod id CS ltac:(lia)) as Hd1.
  pose proof (N.div_mod (len a) CS ltac:(lia)) as Hd2.
  assert (Hle : id / CS <= len a / CS) by (apply N.div_le_mono; lia).
  destruct (Hc (id / CS)) as [Ha [Hb _]].
  destruct (N.eq_dec (id / CS) (len a / CS)) as [E|E].
  - rewrite (Hb E). rewrite E in Hd1. lia.
  - rewrite Ha by lia. exact Hm.
Qed.

Lemma get_some a id : Inv a -> id < len a -> exists x, get a id = Some x.
Proof.
  intros HI Hlt. unfold get. apply N.ltb_lt in Hlt as Hb. rewrite Hb.
  pose proof (inv_slot_in_range a id HI Hlt) as Hr. unfold slot, clen in *.
  destruct (nth_error (chunk a (id / CS)) (N.to_nat (id mod CS))) as [x|] eqn:E; [exists x; reflexivity|].
  apply nth_error_None in E. lia.
Qed.

Lemma get_lt a id x : get a id = Some x -> id < len a.
Proof.
  unfold get. destruct (N.ltb id (len a)) eqn:E; [intros _; apply N.ltb_lt; exact E|discriminate].
Qed.

(* (a): alloc leaves every occupied slot exactly as it was *)
Lemma alloc_ext a v : Inv a -> aext a (fst (alloc a v)).
Proof.
  intro HI. split; [rewrite alloc_len; lia|].
  intros c o x. unfold slot. rewrite (alloc_chunk a v HI c).
  destruct (N.eqb c (len a / CS)); [|trivial].
  intro H. rewrite nth_error_app1; [exact H|]. apply nth_error_Some. congruence.
Qed.

Lemma aext_refl a : aext a a.
Proof. split; [lia|trivial]. Qed.

Lemma aext_trans a b c : aext a b -> aext b c -> aext a c.
Proof. intros [H1 H2] [H3 H4]. split; [lia|]. intros. apply H4, H2. assumption. Qed.

Lemma aext_get a a' id x : aext a a' -> get a id = Some x -> get a' id = Some x.
Proof.
  intros [Hl Hs] Hg. pose proof (get_lt a id x Hg) as Hlt. unfold get in *.
  apply N.ltb_lt in Hlt as Hb. rewrite Hb in Hg.
  assert (Hb' : N.ltb id (len a') = true) by (apply N.ltb_lt; lia). rewrite Hb'.
  apply Hs. exact Hg.
Qed.

(* get after alloc: the new id reads the new value, everything else is as before *)
Lemma get_alloc a v id : Inv a ->
  get (fst (alloc a v)) id = if N.eqb id (len a) then Some v else get a id.
Proof.
  intro HI. destruct (N.eqb id (len a)) eqn:E; [apply N.eqb_eq in E|apply N.eqb_neq in E].
  - subst id. unfold get. rewrite alloc_len.
    assert (Hb : N.ltb (len a) (len a + 1) = true) by (apply N.ltb_lt; lia). rewrite Hb.
    unfold slot. rewrite (alloc_chunk a v HI). rewrite N.eqb_refl.
    destruct HI as [_ [_ Hc]]. destruct (Hc (len a / CS)) as [_ [Hb2 _]]. specialize (Hb2 eq_refl).
    unfold clen in Hb2. rewrite nth_error_app2 by lia.
    replace (N.to_nat (len a mod CS) - length (chunk a (len a / CS)))%nat with 0%nat by lia.
    reflexivity.
  - destruct (N.lt_ge_cases id (len a)) as [Hlt|Hge].
    + destruct (get_some a id HI Hlt) as [x Hx]. rewrite Hx.
      apply (aext_get a); [apply alloc_ext; exact HI|exact Hx].
    + unfold get. rewrite alloc_len.
      assert (Hb1 : N.ltb id (len a + 1) = false) by (apply N.ltb_ge; lia).
      assert (Hb2 : N.ltb id (len a) = false) by (apply N.ltb_ge; lia).
      rewrite Hb1, Hb2. reflexivity.
Qed.

Lemma get_alloc_new a v : Inv a -> get (fst (alloc a v)) (snd (alloc a v)) = Some v.
Proof. intro HI. rewrite alloc_id, get_alloc by exact HI. rewrite N.eqb_refl. reflexivity. Qed.

(* ---------- sequences of allocs ---------- *)

Lemma allocs_inv vs : forall a, Inv a -> Inv (allocs a vs).
Proof.
  induction vs as [|v t IH]; intros a HI; cbn [allocs]; [exact HI|]. apply IH, alloc_inv, HI.
Qed.

Lemma allocs_ext vs : forall a, Inv a -> aext a (allocs a vs).
Proof.
  induction vs as [|v t IH]; intros a HI; cbn [allocs]; [apply aext_refl|].
  apply (aext_trans _ (fst (alloc a v))); [apply alloc_ext; exact HI|]. apply IH, alloc_inv, HI.
Qed.

Lemma allocs_len vs : forall a, len (allocs a vs) = len a + N.of_nat (length vs).
Proof.
  induction vs as [|v t IH]; intro a; cbn [allocs length]; [lia|]. rewrite IH, alloc_len. lia.
Qed.

Lemma allocs_get vs : forall a, Inv a -> forall k x, nth_error vs k = Some x ->
  get (allocs a vs) (len a + N.of_nat k) = Some x.
Proof.
  induction vs as [|v t IH]; intros a HI k x Hk; [destruct k; discriminate|].
  cbn [allocs]. destruct k as [|k]; cbn [nth_error] in Hk.
  - inversion Hk. subst x. replace (len a + N.of_nat 0) with (len a) by lia.
    apply (aext_get (fst (alloc a v))); [apply allocs_ext, alloc_inv, HI|].
    rewrite get_alloc by exact HI. rewrite N.eqb_refl. reflexivity.
  - replace (len a + N.of_nat (S k)) with (len (fst (alloc a v)) + N.of_nat k)
      by (rewrite alloc_len; lia).
    apply IH; [apply alloc_inv, HI|exact Hk].
Qed.

(* The stability theorem.  For every sequence of allocs [vs] on a fresh arena
   and every continuation [ws]:
   - ids are dense: the arena holds exactly |vs| ids and the next alloc returns |vs|;
   - get (alloc x) = x: the k-th allocated value is read back under id k;
   - every existing id still reads the same value after the later allocs, from the
     same location (the location is a function of the id alone);
   - stronger, every occupied physical slot (chunk, offset) is untouched;
   - no chunk ever holds more than CHUNK_SIZE elements. *)
Theorem alloc_stable : forall n vs ws,
  let a := allocs (with_capacity n) vs in
  let a' := allocs a ws in
  len a = N.of_nat (length vs) /\
  (forall v, snd (alloc a v) = N.of_nat (length vs)) /\
  (forall k x, nth_error vs k = Some x -> get a (N.of_nat k) = Some x) /\
  (forall id, id < len a ->
     get a id <> None /\ get a' id = get a id /\
     get a id = slot a (fst (loc id)) (snd (loc id)) /\
     get a' id = slot a' (fst (loc id)) (snd (loc id))) /\
  (forall c o x, slot a c o = Some x -> slot a' c o = Some x) /\
  (forall c, clen a c <= CS /\ clen a' c <= CS).
Proof.
  intros n vs ws a a'.
  assert (HI : Inv a) by (apply allocs_inv, with_capacity_inv).
  assert (HI' : Inv a') by (apply allocs_inv, HI).
  assert (Hext : aext a a') by (apply allocs_ext, HI).
  assert (Hlen : len a = N.of_nat (length vs)) by (unfold a; rewrite allocs_len; reflexivity).
  split; [exact Hlen|]. split; [intro v; rewrite alloc_id; exact Hlen|]. split.
  - intros k x Hk. pose proof (allocs_get vs (with_capacity n) (with_capacity_inv n) k x Hk) as H.
    exact H.
  - split.
    + intros id Hlt. destruct (get_some a id HI Hlt) as [x Hx].
      split; [congruence|]. split; [rewrite Hx; apply (aext_get a); assumption|].
      assert (Hlt' : id < len a') by (destruct Hext; lia).
      unfold get, loc. cbn [fst snd].
      apply N.ltb_lt in Hlt. apply N.ltb_lt in Hlt'. rewrite Hlt, Hlt'. split; reflexivity.
    + split; [exact (proj2 Hext)|].
      intro c. split; apply inv_clen_le; assumption.
Qed.

End Arena.

Arguments arena V : clear implicits.
