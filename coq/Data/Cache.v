(* Data/Cache.v -- executable model of src/solver/cache.rs (SolverCache).

   The cache is a state machine over a [provider]: association lists for the
   five cached tables (candidates per name, matching / non-matching per version
   set, sorted candidates per requirement, dependencies per solvable), the hint
   bit set, and the log of provider calls made so far.  The log is kept newest
   first ([c_rlog]); [c_log] is the chronological view.  [c_seen] records what a
   [sort_candidates] implementation observes when it asks the cache
   [are_dependencies_available_for] for each of its inputs (the harness'
   [probe_cache_in_sort]).

   Every theorem is stated for an arbitrary provider and an arbitrary sequence
   of public operations. *)
From Coq Require Import List NArith Bool Lia Sorting.Permutation.
From Resolvo Require Import Base.Provider Spec.Spec.
Import ListNotations.
Open Scope N_scope.

(* provider calls as the model logs them; [KSort] carries (ghost) the version
   set the sort is for *)
Inductive call :=
| KCands (n : N) | KFilter (v : N) (inverse : bool) | KSort (v : N) (l : list N) | KDeps (s : N).
(* provider calls as the provider sees them *)
Inductive ocall :=
| OCands (n : N) | OFilter (v : N) (inverse : bool) | OSort (l : list N) | ODeps (s : N).
(* what a call is a call "for" *)
Inductive ckey :=
| QCands (n : N) | QFilter (v : N) (inverse : bool) | QSort (v : N) | QDeps (s : N).

Definition obs (c : call) : ocall :=
  match c with
  | KCands n => OCands n | KFilter v b => OFilter v b | KSort _ l => OSort l | KDeps s => ODeps s
  end.
Definition call_key (c : call) : ckey :=
  match c with
  | KCands n => QCands n | KFilter v b => QFilter v b | KSort v _ => QSort v | KDeps s => QDeps s
  end.

Lemma ckey_eq_dec (a b : ckey) : {a = b} + {a <> b}.
Proof. decide equality; try apply N.eq_dec; apply bool_dec. Qed.

Fixpoint lookup {A} (k : N) (l : list (N * A)) : option A :=
  match l with
  | [] => None
  | (k', x) :: t => if N.eqb k k' then Some x else lookup k t
  end.
Fixpoint lookupR {A} (k : req) (l : list (req * A)) : option A :=
  match l with
  | [] => None
  | (k', x) :: t => if req_eqb k k' then Some x else lookupR k t
  end.

Record cache := mkC {
  c_cands : list (N * (list N * option N));   (* name -> (candidates, favored) *)
  c_match : list (N * list N);                (* version_set_candidates *)
  c_nonmatch : list (N * list N);             (* version_set_inverse_candidates *)
  c_sorted : list (req * list N);             (* requirement_to_sorted_candidates *)
  c_deps : list (N * deps);                   (* solvable_to_dependencies *)
  c_hint : list N;                            (* hint_dependencies_available, as a set *)
  c_rlog : list call;                         (* provider calls, newest first *)
  c_seen : list (N * bool)                    (* availability probes made inside sort_candidates *)
}.

Definition cempty : cache := mkC [] [] [] [] [] [] [] [].
Definition c_log (s : cache) : list call := rev (c_rlog s).

(* SolverCache::are_dependencies_available_for *)
Definition available (s : cache) (x : N) : bool :=
  match lookup x (c_deps s) with Some _ => true | None => memN x (c_hint s) end.

(* the public operations *)
Inductive cop :=
| CCands (n : N) | CMatching (v : N) | CNonMatching (v : N) | CSorted (r : req)
| CDeps (s : N) | CAvail (s : N).
Inductive cans :=
| ACands (l : list N) (favored : option N) | AList (l : list N) | ADeps (d : deps) | ABool (b : bool).
Record cout := mkOut { o_ans : cans; o_calls : list ocall; o_probes : list (N * bool) }.

(* availability as determined by the provider calls seen so far *)
Section Log.
Variable U : provider.

Definition hinted (n : N) : list N :=
  match p_hint U n with HNone => [] | HAll => p_cands U n | HSome l => l end.

Definition avail_olog (l : list ocall) (x : N) : bool :=
  existsb (fun c => match c with
                    | ODeps y => N.eqb x y
                    | OCands n => memN x (hinted n)
                    | _ => false end) l.

(* probes expected from a (newest first) log: every sort call asks for each of
   its inputs, and the answer is determined by the calls before it *)
Fixpoint oprobes (rl : list ocall) : list (N * bool) :=
  match rl with
  | [] => []
  | c :: t => oprobes t ++
              match c with OSort m => map (fun x => (x, avail_olog t x)) m | _ => [] end
  end.
End Log.

Section Model.
Variable U : provider.

Definition put_cands (s : cache) (n : N) : cache :=
  mkC ((n, (p_cands U n, p_favored U n)) :: c_cands s) (c_match s) (c_nonmatch s) (c_sorted s)
      (c_deps s) (c_hint s ++ hinted U n) (KCands n :: c_rlog s) (c_seen s).
Definition put_match (s : cache) (v : N) (m : list N) : cache :=
  mkC (c_cands s) ((v, m) :: c_match s) (c_nonmatch s) (c_sorted s)
      (c_deps s) (c_hint s) (KFilter v false :: c_rlog s) (c_seen s).
Definition put_nonmatch (s : cache) (v : N) (m : list N) : cache :=
  mkC (c_cands s) (c_match s) ((v, m) :: c_nonmatch s) (c_sorted s)
      (c_deps s) (c_hint s) (KFilter v true :: c_rlog s) (c_seen s).
Definition put_sorted (s : cache) (v : N) (m r : list N) : cache :=
  mkC (c_cands s) (c_match s) (c_nonmatch s) ((RSingle v, r) :: c_sorted s)
      (c_deps s) (c_hint s) (KSort v m :: c_rlog s)
      (c_seen s ++ map (fun x => (x, available s x)) m).
Definition put_union (s : cache) (u : N) (l : list N) : cache :=
  mkC (c_cands s) (c_match s) (c_nonmatch s) ((RUnion u, l) :: c_sorted s)
      (c_deps s) (c_hint s) (c_rlog s) (c_seen s).
Definition put_deps (s : cache) (x : N) : cache :=
  mkC (c_cands s) (c_match s) (c_nonmatch s) (c_sorted s)
      ((x, p_deps U x) :: c_deps s) (c_hint s) (KDeps x :: c_rlog s) (c_seen s).

(* get_or_cache_candidates *)
Definition get_cands (s : cache) (n : N) : cache * (list N * option N) :=
  match lookup n (c_cands s) with
  | Some x => (s, x)
  | None => (put_cands s n, (p_cands U n, p_favored U n))
  end.

(* get_or_cache_matching_candidates *)
Definition get_matching (s : cache) (v : N) : cache * list N :=
  match lookup v (c_match s) with
  | Some l => (s, l)
  | None =>
    let '(s1, c) := get_cands s (p_vs_name U v) in
    let m := filter (p_match U v) (fst c) in
    (put_match s1 v m, m)
  end.

(* get_or_cache_non_matching_candidates *)
Definition get_nonmatching (s : cache) (v : N) : cache * list N :=
  match lookup v (c_nonmatch s) with
  | Some l => (s, l)
  | None =>
    let '(s1, c) := get_cands s (p_vs_name U v) in
    let m := filter (fun x => negb (p_match U v x)) (fst c) in
    (put_nonmatch s1 v m, m)
  end.

(* get_or_cache_sorted_candidates_for_version_set *)
Definition get_sorted_vs (s : cache) (v : N) : cache * list N :=
  match lookupR (RSingle v) (c_sorted s) with
  | Some l => (s, l)
  | None =>
    let '(s1, m) := get_matching s v in
    let '(s2, c) := get_cands s1 (p_vs_name U v) in
    let r := favor (snd c) (p_sort U m) in
    (put_sorted s2 v m r, r)
  end.

(* try_join_all over the members, in listed order *)
Fixpoint sorted_list (s : cache) (vs : list N) : cache * list (list N) :=
  match vs with
  | [] => (s, [])
  | v :: t =>
    let '(s1, l) := get_sorted_vs s v in
    let '(s2, ls) := sorted_list s1 t in
    (s2, l :: ls)
  end.

(* get_or_cache_sorted_candidates *)
Definition get_sorted (s : cache) (r : req) : cache * list N :=
  match r with
  | RSingle v => get_sorted_vs s v
  | RUnion u =>
    match lookupR r (c_sorted s) with
    | Some l => (s, l)
    | None =>
      let '(s1, ls) := sorted_list s (p_union U u) in
      let l := concat ls in
      (put_union s1 u l, l)
    end
  end.

(* get_or_cache_dependencies *)
Definition get_deps (s : cache) (x : N) : cache * deps :=
  match lookup x (c_deps s) with
  | Some d => (s, d)
  | None => (put_deps s x, p_deps U x)
  end.

Definition step (s : cache) (o : cop) : cache * cans :=
  match o with
  | CCands n => let '(s', c) := get_cands s n in (s', ACands (fst c) (snd c))
  | CMatching v => let '(s', l) := get_matching s v in (s', AList l)
  | CNonMatching v => let '(s', l) := get_nonmatching s v in (s', AList l)
  | CSorted r => let '(s', l) := get_sorted s r in (s', AList l)
  | CDeps x => let '(s', d) := get_deps s x in (s', ADeps d)
  | CAvail x => (s, ABool (available s x))
  end.

(* the part of a list added at the end / the part of a newest-first log added
   at the front *)
Definition new_calls (s s' : cache) : list ocall :=
  map obs (rev (firstn (length (c_rlog s') - length (c_rlog s)) (c_rlog s'))).
Definition new_probes (s s' : cache) : list (N * bool) :=
  skipn (length (c_seen s)) (c_seen s').

Definition step_out (s : cache) (o : cop) : cache * cout :=
  let '(s', a) := step s o in (s', mkOut a (new_calls s s') (new_probes s s')).

Fixpoint run (s : cache) (ops : list cop) : list cout :=
  match ops with
  | [] => []
  | o :: t => let '(s', r) := step_out s o in r :: run s' t
  end.

Fixpoint cfinal (s : cache) (ops : list cop) : cache :=
  match ops with
  | [] => s
  | o :: t => cfinal (fst (step s o)) t
  end.

(* the answer every non-availability query must give, whatever happened before *)
Definition spec_ans (o : cop) : cans :=
  match o with
  | CCands n => ACands (p_cands U n) (p_favored U n)
  | CMatching v => AList (matching U v)
  | CNonMatching v => AList (nonmatching U v)
  | CSorted r => AList (req_cands U r)
  | CDeps x => ADeps (p_deps U x)
  | CAvail x => ABool false
  end.

Definition is_avail (o : cop) : bool := match o with CAvail _ => true | _ => false end.

(* ------------------------------------------------------------------ *)
(* which queries are answered from the cache *)

Definition cachedq (s : cache) (o : cop) : Prop :=
  match o with
  | CCands n => lookup n (c_cands s) <> None
  | CMatching v => lookup v (c_match s) <> None
  | CNonMatching v => lookup v (c_nonmatch s) <> None
  | CSorted r => lookupR r (c_sorted s) <> None
  | CDeps x => lookup x (c_deps s) <> None
  | CAvail _ => True
  end.

Definition key_op (k : ckey) : cop :=
  match k with
  | QCands n => CCands n
  | QFilter v false => CMatching v
  | QFilter v true => CNonMatching v
  | QSort v => CSorted (RSingle v)
  | QDeps x => CDeps x
  end.

Definition cachedk (s : cache) (k : ckey) : Prop := cachedq s (key_op k).

(* s' knows at least what s knows and its log / probe record extend those of s *)
Definition ext (s s' : cache) : Prop :=
  (forall o, cachedq s o -> cachedq s' o) /\
  (exists d, c_rlog s' = d ++ c_rlog s) /\
  (exists e, c_seen s' = c_seen s ++ e).

Record Inv (s : cache) : Prop := mkInv {
  inv_cands : forall n x, lookup n (c_cands s) = Some x -> x = (p_cands U n, p_favored U n);
  inv_match : forall v l, lookup v (c_match s) = Some l -> l = matching U v;
  inv_nonmatch : forall v l, lookup v (c_nonmatch s) = Some l -> l = nonmatching U v;
  inv_sorted : forall r l, lookupR r (c_sorted s) = Some l -> l = req_cands U r;
  inv_deps : forall x d, lookup x (c_deps s) = Some d -> d = p_deps U x;
  inv_hint : forall x, In x (c_hint s) <->
                       exists n, lookup n (c_cands s) <> None /\ In x (hinted U n);
  inv_nodup : NoDup (map call_key (c_rlog s));
  inv_keys : forall k, In k (map call_key (c_rlog s)) <-> cachedk s k;
  inv_sortarg : forall v l, In (KSort v l) (c_rlog s) -> l = matching U v;
  inv_seen : c_seen s = oprobes U (map obs (c_rlog s))
}.


(* ------------------------------------------------------------------ *)
(* association lists *)

Lemma lookup_cons_eq {A} k (x : A) l : lookup k ((k, x) :: l) = Some x.
Proof. cbn [lookup]. rewrite N.eqb_refl. reflexivity. Qed.
Lemma lookup_cons_ne {A} k k0 (x : A) l : k <> k0 -> lookup k ((k0, x) :: l) = lookup k l.
Proof. intro H. cbn [lookup]. apply N.eqb_neq in H. rewrite H. reflexivity. Qed.
Lemma lookup_cons_mono {A} k k0 (x : A) l : lookup k l <> None -> lookup k ((k0, x) :: l) <> None.
Proof. intro H. cbn [lookup]. destruct (N.eqb k k0); [discriminate | exact H]. Qed.

Lemma lookupR_cons_eq {A} k (x : A) l : lookupR k ((k, x) :: l) = Some x.
Proof.
  cbn [lookupR]. assert (E : req_eqb k k = true) by (apply req_eqb_eq; reflexivity).
  rewrite E. reflexivity.
Qed.
Lemma lookupR_cons_ne {A} k k0 (x : A) l : k <> k0 -> lookupR k ((k0, x) :: l) = lookupR k l.
Proof.
  intro H. cbn [lookupR]. destruct (req_eqb k k0) eqn:E; [|reflexivity].
  apply req_eqb_eq in E. contradiction.
Qed.
Lemma lookupR_cons_mono {A} k k0 (x : A) l : lookupR k l <> None -> lookupR k ((k0, x) :: l) <> None.
Proof. intro H. cbn [lookupR]. destruct (req_eqb k k0); [discriminate | exact H]. Qed.

Lemma req_eq_dec (a b : req) : {a = b} + {a <> b}.
Proof. decide equality; apply N.eq_dec. Qed.

(* ------------------------------------------------------------------ *)
(* log views *)

Lemma in_key_deps rl x : In (KDeps x) rl <-> In (QDeps x) (map call_key rl).
Proof.
  induction rl as [|c t IH]; cbn [map In]; [tauto|]. rewrite IH.
  destruct c; cbn [call_key]; split;
    (intros [H|H]; [first [discriminate H | left; congruence] | right; exact H]).
Qed.
Lemma in_key_cands rl n : In (KCands n) rl <-> In (QCands n) (map call_key rl).
Proof.
  induction rl as [|c t IH]; cbn [map In]; [tauto|]. rewrite IH.
  destruct c; cbn [call_key]; split;
    (intros [H|H]; [first [discriminate H | left; congruence] | right; exact H]).
Qed.
Lemma in_obs_deps rl x : In (KDeps x) rl <-> In (ODeps x) (map obs rl).
Proof.
  induction rl as [|c t IH]; cbn [map In]; [tauto|]. rewrite IH.
  destruct c; cbn [obs]; split;
    (intros [H|H]; [first [discriminate H | left; congruence] | right; exact H]).
Qed.
Lemma in_obs_cands rl n : In (KCands n) rl <-> In (OCands n) (map obs rl).
Proof.
  induction rl as [|c t IH]; cbn [map In]; [tauto|]. rewrite IH.
  destruct c; cbn [obs]; split;
    (intros [H|H]; [first [discriminate H | left; congruence] | right; exact H]).
Qed.

Lemma avail_olog_spec l x :
  avail_olog U l x = true <-> In (ODeps x) l \/ exists n, In (OCands n) l /\ In x (hinted U n).
Proof.
  unfold avail_olog. rewrite existsb_exists. split.
  - intros [c [Hc He]]. destruct c; try discriminate He.
    + right. exists n. split; [exact Hc|]. apply memN_In. exact He.
    + left. apply N.eqb_eq in He. subst. exact Hc.
  - intros [H | [n [H1 H2]]].
    + exists (ODeps x). split; [exact H | apply N.eqb_refl].
    + exists (OCands n). split; [exact H1 | apply memN_In; exact H2].
Qed.

Lemma available_true s x :
  available s x = true <-> lookup x (c_deps s) <> None \/ In x (c_hint s).
Proof.
  unfold available. destruct (lookup x (c_deps s)) eqn:E.
  - split; [intros _; left; discriminate | reflexivity].
  - rewrite memN_In. split; [intro H; right; exact H | intros [H|H]; [congruence | exact H]].
Qed.

Lemma available_log s x : Inv s ->
  (available s x = true <->
   In (KDeps x) (c_rlog s) \/ exists n, In (KCands n) (c_rlog s) /\ In x (hinted U n)).
Proof.
  intro HI. rewrite available_true. rewrite (inv_hint s HI).
  pose proof (inv_keys s HI) as Hk. split.
  - intros [H | [n [H1 H2]]].
    + left. apply in_key_deps. apply (Hk (QDeps x)). exact H.
    + right. exists n. split; [|exact H2]. apply in_key_cands. apply (Hk (QCands n)). exact H1.
  - intros [H | [n [H1 H2]]].
    + left. apply in_key_deps in H. apply (Hk (QDeps x)) in H. exact H.
    + right. exists n. split; [|exact H2]. apply in_key_cands in H1.
      apply (Hk (QCands n)) in H1. exact H1.
Qed.

Lemma available_inv s x : Inv s -> available s x = avail_olog U (map obs (c_rlog s)) x.
Proof.
  intro HI. apply eq_true_iff_eq. rewrite (available_log s x HI), avail_olog_spec.
  rewrite <- in_obs_deps. split; intros [H | [n [H1 H2]]]; try (left; exact H);
    right; exists n; (split; [|exact H2]); apply in_obs_cands; exact H1.
Qed.

Lemma keys_cons (s s' : cache) (c : call) :
  c_rlog s' = c :: c_rlog s ->
  NoDup (map call_key (c_rlog s)) ->
  (forall k, In k (map call_key (c_rlog s)) <-> cachedk s k) ->
  ~ cachedk s (call_key c) -> cachedk s' (call_key c) ->
  (forall k, k <> call_key c -> (cachedk s' k <-> cachedk s k)) ->
  NoDup (map call_key (c_rlog s')) /\
  forall k, In k (map call_key (c_rlog s')) <-> cachedk s' k.
Proof.
  intros E Hnd Hk Hn Hc Ho. rewrite E. cbn [map]. split.
  - constructor; [|exact Hnd]. intro H. apply Hn. apply Hk. exact H.
  - intro k. cbn [In]. destruct (ckey_eq_dec k (call_key c)) as [->|Hne].
    + split; [intros _; exact Hc | intros _; left; reflexivity].
    + rewrite (Ho k Hne), <- Hk.
      split; [intros [H|H]; [congruence | exact H] | intro H; right; exact H].
Qed.

Ltac csimpl :=
  unfold cachedk, key_op, cachedq, put_cands, put_match, put_nonmatch, put_sorted,
    put_union, put_deps in *;
  cbn [c_cands c_match c_nonmatch c_sorted c_deps c_hint c_rlog c_seen call_key] in *.

Lemma cempty_inv : Inv cempty.
Proof.
  constructor; unfold cempty; cbn [c_cands c_match c_nonmatch c_sorted c_deps c_hint c_rlog c_seen];
    try (intros; discriminate).
  - intro x. split; [intros []|]. intros [n [H _]]. apply H. reflexivity.
  - constructor.
  - intro k. cbn [map In]. split; [intros []|]. intro H.
    destruct k as [n|v b|v|x]; try destruct b; cbn in H; apply H; reflexivity.
  - intros v l [].
  - reflexivity.
Qed.

Lemma put_cands_inv s n : Inv s -> lookup n (c_cands s) = None -> Inv (put_cands s n).
Proof.
  intros HI Hn. destruct HI as [H1 H2 H3 H4 H5 H6 H7 H8 H9 H10].
  destruct (keys_cons s (put_cands s n) (KCands n) eq_refl H7 H8) as [Hnd Hk].
  - csimpl. intro H. apply H. exact Hn.
  - csimpl. rewrite lookup_cons_eq. discriminate.
  - intros k Hne. destruct k as [n'|v b|v|x]; try destruct b; csimpl; try tauto.
    rewrite lookup_cons_ne by congruence. tauto.
  - constructor; csimpl; try assumption.
    + intros n' x. destruct (N.eq_dec n' n) as [->|Hne].
      * rewrite lookup_cons_eq. congruence.
      * rewrite lookup_cons_ne by exact Hne. apply H1.
    + intro x. rewrite in_app_iff, H6. split.
      * intros [[n' [Ha Hb]] | H].
        -- exists n'. split; [apply lookup_cons_mono; exact Ha | exact Hb].
        -- exists n. split; [rewrite lookup_cons_eq; discriminate | exact H].
      * intros [n' [Ha Hb]]. destruct (N.eq_dec n' n) as [->|Hne].
        -- right. exact Hb.
        -- left. exists n'. rewrite lookup_cons_ne in Ha by exact Hne. split; assumption.
    + intros v l [H|H]; [discriminate H | apply (H9 v l H)].
    + cbn [map obs oprobes]. rewrite app_nil_r. exact H10.
Qed.

Lemma put_match_inv s v m :
  Inv s -> lookup v (c_match s) = None -> m = matching U v -> Inv (put_match s v m).
Proof.
  intros HI Hn Hm. destruct HI as [H1 H2 H3 H4 H5 H6 H7 H8 H9 H10].
  destruct (keys_cons s (put_match s v m) (KFilter v false) eq_refl H7 H8) as [Hnd Hk].
  - csimpl. intro H. apply H. exact Hn.
  - csimpl. rewrite lookup_cons_eq. discriminate.
  - intros k Hne. destruct k as [n'|v' b|v'|x]; try destruct b; csimpl; try tauto.
    rewrite lookup_cons_ne by congruence. tauto.
  - constructor; csimpl; try assumption.
    + intros v' l. destruct (N.eq_dec v' v) as [->|Hne].
      * rewrite lookup_cons_eq. congruence.
      * rewrite lookup_cons_ne by exact Hne. apply H2.
    + intros v' l [H|H]; [discriminate H | apply (H9 v' l H)].
    + cbn [map obs oprobes]. rewrite app_nil_r. exact H10.
Qed.

Lemma put_nonmatch_inv s v m :
  Inv s -> lookup v (c_nonmatch s) = None -> m = nonmatching U v -> Inv (put_nonmatch s v m).
Proof.
  intros HI Hn Hm. destruct HI as [H1 H2 H3 H4 H5 H6 H7 H8 H9 H10].
  destruct (keys_cons s (put_nonmatch s v m) (KFilter v true) eq_refl H7 H8) as [Hnd Hk].
  - csimpl. intro H. apply H. exact Hn.
  - csimpl. rewrite lookup_cons_eq. discriminate.
  - intros k Hne. destruct k as [n'|v' b|v'|x]; try destruct b; csimpl; try tauto.
    rewrite lookup_cons_ne by congruence. tauto.
  - constructor; csimpl; try assumption.
    + intros v' l. destruct (N.eq_dec v' v) as [->|Hne].
      * rewrite lookup_cons_eq. congruence.
      * rewrite lookup_cons_ne by exact Hne. apply H3.
    + intros v' l [H|H]; [discriminate H | apply (H9 v' l H)].
    + cbn [map obs oprobes]. rewrite app_nil_r. exact H10.
Qed.

Lemma put_deps_inv s x : Inv s -> lookup x (c_deps s) = None -> Inv (put_deps s x).
Proof.
  intros HI Hn. destruct HI as [H1 H2 H3 H4 H5 H6 H7 H8 H9 H10].
  destruct (keys_cons s (put_deps s x) (KDeps x) eq_refl H7 H8) as [Hnd Hk].
  - csimpl. intro H. apply H. exact Hn.
  - csimpl. rewrite lookup_cons_eq. discriminate.
  - intros k Hne. destruct k as [n'|v' b|v'|x']; try destruct b; csimpl; try tauto.
    rewrite lookup_cons_ne by congruence. tauto.
  - constructor; csimpl; try assumption.
    + intros x' d. destruct (N.eq_dec x' x) as [->|Hne].
      * rewrite lookup_cons_eq. congruence.
      * rewrite lookup_cons_ne by exact Hne. apply H5.
    + intros v' l [H|H]; [discriminate H | apply (H9 v' l H)].
    + cbn [map obs oprobes]. rewrite app_nil_r. exact H10.
Qed.

Lemma put_sorted_inv s v m r :
  Inv s -> lookupR (RSingle v) (c_sorted s) = None ->
  m = matching U v -> r = sorted_cands U v -> Inv (put_sorted s v m r).
Proof.
  intros HI Hn Hm Hr. pose proof HI as [H1 H2 H3 H4 H5 H6 H7 H8 H9 H10].
  destruct (keys_cons s (put_sorted s v m r) (KSort v m) eq_refl H7 H8) as [Hnd Hk].
  - csimpl. intro H. apply H. exact Hn.
  - csimpl. rewrite lookupR_cons_eq. discriminate.
  - intros k Hne. destruct k as [n'|v' b|v'|x]; try destruct b; csimpl; try tauto.
    rewrite lookupR_cons_ne by congruence. tauto.
  - constructor; csimpl; try assumption.
    + intros r' l. destruct (req_eq_dec r' (RSingle v)) as [->|Hne].
      * rewrite lookupR_cons_eq. intro E. inversion E. subst l r.
        unfold req_cands. cbn [req_vss flat_map]. rewrite app_nil_r. reflexivity.
      * rewrite lookupR_cons_ne by exact Hne. apply H4.
    + intros v' l [H|H]; [inversion H; subst; reflexivity | apply (H9 v' l H)].
    + cbn [map obs oprobes]. rewrite <- H10. f_equal. apply map_ext. intro x.
      rewrite (available_inv s x HI). reflexivity.
Qed.

Lemma put_union_inv s u l :
  Inv s -> lookupR (RUnion u) (c_sorted s) = None -> l = req_cands U (RUnion u) ->
  Inv (put_union s u l).
Proof.
  intros HI Hn Hl. destruct HI as [H1 H2 H3 H4 H5 H6 H7 H8 H9 H10].
  constructor; csimpl; try assumption.
  - intros r' l'. destruct (req_eq_dec r' (RUnion u)) as [->|Hne].
    + rewrite lookupR_cons_eq. congruence.
    + rewrite lookupR_cons_ne by exact Hne. apply H4.
  - intro k. rewrite H8. destruct k as [n'|v' b|v'|x]; try destruct b; csimpl; tauto.
Qed.


(* ------------------------------------------------------------------ *)
(* extension *)

Lemma ext_refl s : ext s s.
Proof.
  split; [intros o H; exact H|]. split; [exists []; reflexivity|].
  exists []. symmetry. apply app_nil_r.
Qed.

Lemma ext_trans a b c : ext a b -> ext b c -> ext a c.
Proof.
  intros [H1 [[d1 E1] [e1 F1]]] [H2 [[d2 E2] [e2 F2]]]. split.
  - intros o H. apply H2. apply H1. exact H.
  - split.
    + exists (d2 ++ d1). rewrite E2, E1. apply app_assoc.
    + exists (e1 ++ e2). rewrite F2, F1. symmetry. apply app_assoc.
Qed.

Ltac ext_put :=
  split; [| split; [eexists [_]; reflexivity | first [exists []; symmetry; apply app_nil_r | eexists; reflexivity]]].

Lemma put_cands_ext s n : ext s (put_cands s n).
Proof.
  ext_put. intros o H. destruct o; csimpl; try exact H. apply lookup_cons_mono. exact H.
Qed.
Lemma put_match_ext s v m : ext s (put_match s v m).
Proof.
  ext_put. intros o H. destruct o; csimpl; try exact H. apply lookup_cons_mono. exact H.
Qed.
Lemma put_nonmatch_ext s v m : ext s (put_nonmatch s v m).
Proof.
  ext_put. intros o H. destruct o; csimpl; try exact H. apply lookup_cons_mono. exact H.
Qed.
Lemma put_deps_ext s x : ext s (put_deps s x).
Proof.
  ext_put. intros o H. destruct o; csimpl; try exact H. apply lookup_cons_mono. exact H.
Qed.
Lemma put_sorted_ext s v m r : ext s (put_sorted s v m r).
Proof.
  ext_put. intros o H. destruct o; csimpl; try exact H. apply lookupR_cons_mono. exact H.
Qed.
Lemma put_union_ext s u l : ext s (put_union s u l).
Proof.
  split; [| split; [exists []; reflexivity | exists []; symmetry; apply app_nil_r]].
  intros o H. destruct o; csimpl; try exact H. apply lookupR_cons_mono. exact H.
Qed.

(* ------------------------------------------------------------------ *)
(* the operations *)

Definition opspec {A} (s : cache) (r : cache * A) (a : A) (o : cop) : Prop :=
  Inv (fst r) /\ snd r = a /\ cachedq (fst r) o /\ ext s (fst r) /\ (cachedq s o -> fst r = s).

Lemma get_cands_ok s n :
  Inv s -> opspec s (get_cands s n) (p_cands U n, p_favored U n) (CCands n).
Proof.
  intro HI. unfold get_cands, opspec. destruct (lookup n (c_cands s)) as [x|] eqn:E; cbn [fst snd].
  - split; [exact HI|]. split; [apply (inv_cands s HI n x E)|].
    split; [cbn [cachedq]; congruence|]. split; [apply ext_refl | reflexivity].
  - split; [apply put_cands_inv; assumption|]. split; [reflexivity|].
    split; [csimpl; rewrite lookup_cons_eq; discriminate|]. split; [apply put_cands_ext|].
    intro H. cbn [cachedq] in H. congruence.
Qed.

Lemma get_deps_ok s x : Inv s -> opspec s (get_deps s x) (p_deps U x) (CDeps x).
Proof.
  intro HI. unfold get_deps, opspec. destruct (lookup x (c_deps s)) as [d|] eqn:E; cbn [fst snd].
  - split; [exact HI|]. split; [apply (inv_deps s HI x d E)|].
    split; [cbn [cachedq]; congruence|]. split; [apply ext_refl | reflexivity].
  - split; [apply put_deps_inv; assumption|]. split; [reflexivity|].
    split; [csimpl; rewrite lookup_cons_eq; discriminate|]. split; [apply put_deps_ext|].
    intro H. cbn [cachedq] in H. congruence.
Qed.

Lemma get_cands_frame s n :
  c_match (fst (get_cands s n)) = c_match s /\
  c_nonmatch (fst (get_cands s n)) = c_nonmatch s /\
  c_sorted (fst (get_cands s n)) = c_sorted s.
Proof.
  unfold get_cands. destruct (lookup n (c_cands s)); cbn [fst]; csimpl; auto.
Qed.

Lemma get_matching_ok s v : Inv s -> opspec s (get_matching s v) (matching U v) (CMatching v).
Proof.
  intro HI. unfold get_matching, opspec.
  destruct (lookup v (c_match s)) as [l|] eqn:E; cbn [fst snd].
  - split; [exact HI|]. split; [apply (inv_match s HI v l E)|].
    split; [cbn [cachedq]; congruence|]. split; [apply ext_refl | reflexivity].
  - pose proof (get_cands_ok s (p_vs_name U v) HI) as Hc.
    pose proof (get_cands_frame s (p_vs_name U v)) as [Hf _].
    destruct (get_cands s (p_vs_name U v)) as [s1 c]. unfold opspec in Hc.
    cbn [fst snd] in *. destruct Hc as (HI1 & Hc & _ & Hm1 & _). subst c. cbn [fst].
    split; [apply put_match_inv; [exact HI1 | rewrite Hf; exact E | reflexivity]|].
    split; [reflexivity|].
    split; [csimpl; rewrite lookup_cons_eq; discriminate|].
    split; [apply (ext_trans _ _ _ Hm1); apply put_match_ext|].
    intro H. cbn [cachedq] in H. congruence.
Qed.

Lemma get_nonmatching_ok s v :
  Inv s -> opspec s (get_nonmatching s v) (nonmatching U v) (CNonMatching v).
Proof.
  intro HI. unfold get_nonmatching, opspec.
  destruct (lookup v (c_nonmatch s)) as [l|] eqn:E; cbn [fst snd].
  - split; [exact HI|]. split; [apply (inv_nonmatch s HI v l E)|].
    split; [cbn [cachedq]; congruence|]. split; [apply ext_refl | reflexivity].
  - pose proof (get_cands_ok s (p_vs_name U v) HI) as Hc.
    pose proof (get_cands_frame s (p_vs_name U v)) as [_ [Hf _]].
    destruct (get_cands s (p_vs_name U v)) as [s1 c]. unfold opspec in Hc.
    cbn [fst snd] in *. destruct Hc as (HI1 & Hc & _ & Hm1 & _). subst c. cbn [fst].
    split; [apply put_nonmatch_inv; [exact HI1 | rewrite Hf; exact E | reflexivity]|].
    split; [reflexivity|].
    split; [csimpl; rewrite lookup_cons_eq; discriminate|].
    split; [apply (ext_trans _ _ _ Hm1); apply put_nonmatch_ext|].
    intro H. cbn [cachedq] in H. congruence.
Qed.

Lemma get_matching_frame s v : c_sorted (fst (get_matching s v)) = c_sorted s.
Proof.
  unfold get_matching. destruct (lookup v (c_match s)); [reflexivity|].
  pose proof (get_cands_frame s (p_vs_name U v)) as [_ [_ H]].
  destruct (get_cands s (p_vs_name U v)) as [s1 c]. cbn [fst] in *. csimpl. exact H.
Qed.

Lemma get_sorted_vs_ok s v :
  Inv s -> opspec s (get_sorted_vs s v) (sorted_cands U v) (CSorted (RSingle v)).
Proof.
  intro HI. unfold get_sorted_vs, opspec.
  destruct (lookupR (RSingle v) (c_sorted s)) as [l|] eqn:E; cbn [fst snd].
  - split; [exact HI|]. split.
    { rewrite (inv_sorted s HI _ l E). unfold req_cands. cbn [req_vss flat_map]. apply app_nil_r. }
    split; [cbn [cachedq]; congruence|]. split; [apply ext_refl | reflexivity].
  - pose proof (get_matching_ok s v HI) as Hm. pose proof (get_matching_frame s v) as Hf1.
    destruct (get_matching s v) as [s1 m]. unfold opspec in Hm. cbn [fst snd] in *.
    destruct Hm as (HI1 & Hm & _ & Hx1 & _). subst m.
    pose proof (get_cands_ok s1 (p_vs_name U v) HI1) as Hc.
    pose proof (get_cands_frame s1 (p_vs_name U v)) as [_ [_ Hf2]].
    destruct (get_cands s1 (p_vs_name U v)) as [s2 c]. unfold opspec in Hc. cbn [fst snd] in *.
    destruct Hc as (HI2 & Hc & _ & Hx2 & _). subst c. cbn [snd].
    split; [apply put_sorted_inv; [exact HI2 | rewrite Hf2, Hf1; exact E | reflexivity | reflexivity]|].
    split; [reflexivity|].
    split; [csimpl; rewrite lookupR_cons_eq; discriminate|].
    split; [apply (ext_trans _ _ _ Hx1); apply (ext_trans _ _ _ Hx2); apply put_sorted_ext|].
    intro H. cbn [cachedq] in H. congruence.
Qed.

Lemma get_sorted_vs_frame s v u :
  lookupR (RUnion u) (c_sorted (fst (get_sorted_vs s v))) = lookupR (RUnion u) (c_sorted s).
Proof.
  unfold get_sorted_vs. destruct (lookupR (RSingle v) (c_sorted s)); [reflexivity|].
  pose proof (get_matching_frame s v) as Hf1.
  destruct (get_matching s v) as [s1 m]. cbn [fst] in Hf1.
  pose proof (get_cands_frame s1 (p_vs_name U v)) as [_ [_ Hf2]].
  destruct (get_cands s1 (p_vs_name U v)) as [s2 c]. cbn [fst] in *. csimpl.
  rewrite lookupR_cons_ne by discriminate. rewrite Hf2, Hf1. reflexivity.
Qed.

Lemma sorted_list_ok vs : forall s, Inv s ->
  Inv (fst (sorted_list s vs)) /\
  concat (snd (sorted_list s vs)) = flat_map (sorted_cands U) vs /\
  ext s (fst (sorted_list s vs)) /\
  (forall u, lookupR (RUnion u) (c_sorted (fst (sorted_list s vs))) = lookupR (RUnion u) (c_sorted s)).
Proof.
  induction vs as [|v t IH]; intros s HI; cbn [sorted_list].
  - cbn [fst snd concat flat_map]. split; [exact HI|]. split; [reflexivity|].
    split; [apply ext_refl|]. intro u. reflexivity.
  - pose proof (get_sorted_vs_ok s v HI) as Hv.
    pose proof (get_sorted_vs_frame s v) as Hf.
    destruct (get_sorted_vs s v) as [s1 l]. unfold opspec in Hv. cbn [fst snd] in *.
    destruct Hv as (HI1 & Hl & _ & Hx1 & _). subst l.
    specialize (IH s1 HI1). destruct (sorted_list s1 t) as [s2 ls]. cbn [fst snd] in *.
    destruct IH as (HI2 & Hc & Hx2 & Hf2).
    split; [exact HI2|]. split; [cbn [concat flat_map]; rewrite Hc; reflexivity|].
    split; [apply (ext_trans _ _ _ Hx1 Hx2)|]. intro u. rewrite Hf2. apply Hf.
Qed.

Lemma get_sorted_ok s r : Inv s -> opspec s (get_sorted s r) (req_cands U r) (CSorted r).
Proof.
  intro HI. destruct r as [v|u]; cbn [get_sorted].
  - pose proof (get_sorted_vs_ok s v HI) as H. unfold opspec in *.
    destruct H as (H1 & H2 & H3 & H4 & H5). split; [exact H1|]. split; [|tauto].
    rewrite H2. unfold req_cands. cbn [req_vss flat_map]. symmetry. apply app_nil_r.
  - unfold opspec. destruct (lookupR (RUnion u) (c_sorted s)) as [l|] eqn:E; cbn [fst snd].
    + split; [exact HI|]. split; [apply (inv_sorted s HI _ l E)|].
      split; [cbn [cachedq]; congruence|]. split; [apply ext_refl | reflexivity].
    + pose proof (sorted_list_ok (p_union U u) s HI) as H.
      destruct (sorted_list s (p_union U u)) as [s1 ls]. cbn [fst snd] in *.
      destruct H as (HI1 & Hc & Hx1 & Hf).
      split; [apply put_union_inv; [exact HI1 | rewrite Hf; exact E | exact Hc]|].
      split; [exact Hc|].
      split; [csimpl; rewrite lookupR_cons_eq; discriminate|].
      split; [apply (ext_trans _ _ _ Hx1); apply put_union_ext|].
      intro H. cbn [cachedq] in H. congruence.
Qed.

Lemma step_ok s o : Inv s ->
  Inv (fst (step s o)) /\
  (is_avail o = false -> snd (step s o) = spec_ans o) /\
  cachedq (fst (step s o)) o /\
  ext s (fst (step s o)) /\
  (cachedq s o -> fst (step s o) = s).
Proof.
  intro HI. destruct o as [n|v|v|r|x|x]; cbn [step is_avail spec_ans].
  - pose proof (get_cands_ok s n HI) as H. destruct (get_cands s n) as [s' c].
    unfold opspec in H. cbn [fst snd] in *. destruct H as (H1 & H2 & H3 & H4 & H5). subst c.
    cbn [fst snd]. tauto.
  - pose proof (get_matching_ok s v HI) as H. destruct (get_matching s v) as [s' c].
    unfold opspec in H. cbn [fst snd] in *. destruct H as (H1 & H2 & H3 & H4 & H5). subst c. tauto.
  - pose proof (get_nonmatching_ok s v HI) as H. destruct (get_nonmatching s v) as [s' c].
    unfold opspec in H. cbn [fst snd] in *. destruct H as (H1 & H2 & H3 & H4 & H5). subst c. tauto.
  - pose proof (get_sorted_ok s r HI) as H. destruct (get_sorted s r) as [s' c].
    unfold opspec in H. cbn [fst snd] in *. destruct H as (H1 & H2 & H3 & H4 & H5). subst c. tauto.
  - pose proof (get_deps_ok s x HI) as H. destruct (get_deps s x) as [s' c].
    unfold opspec in H. cbn [fst snd] in *. destruct H as (H1 & H2 & H3 & H4 & H5). subst c. tauto.
  - cbn [fst snd cachedq]. split; [exact HI|]. split; [discriminate|]. split; [exact I|].
    split; [apply ext_refl | reflexivity].
Qed.

Lemma cfinal_ok ops : forall s, Inv s -> Inv (cfinal s ops) /\ ext s (cfinal s ops).
Proof.
  induction ops as [|o t IH]; intros s HI; cbn [cfinal].
  - split; [exact HI | apply ext_refl].
  - destruct (step_ok s o HI) as (H1 & _ & _ & H4 & _). destruct (IH _ H1) as [Ha Hb].
    split; [exact Ha | apply (ext_trans _ _ _ H4 Hb)].
Qed.

End Model.

Arguments Inv U s : clear implicits.

(* ------------------------------------------------------------------ *)
(* pure list facts used by the statements *)

Lemma filter_partition_perm {A} (f : A -> bool) l :
  Permutation (filter f l ++ filter (fun x => negb (f x)) l) l.
Proof.
  induction l as [|a l IH]; cbn [filter app]; [constructor|].
  destruct (f a); cbn [negb app].
  - constructor. exact IH.
  - apply Permutation_sym. apply Permutation_cons_app. apply Permutation_sym. exact IH.
Qed.

Lemma take_out_none f l : take_out f l = None <-> ~ In f l.
Proof.
  induction l as [|x l IH]; cbn [take_out In]; [split; [intros _ [] | reflexivity]|].
  destruct (N.eqb x f) eqn:E.
  - apply N.eqb_eq in E. split; [discriminate | intro H; exfalso; apply H; left; exact E].
  - apply N.eqb_neq in E. destruct (take_out f l) as [r|].
    + split; [discriminate|]. intro H. exfalso. apply H. right.
      destruct (in_dec N.eq_dec f l) as [Hi|Hi]; [exact Hi|]. apply IH in Hi. discriminate.
    + split; [|reflexivity]. intros _ [H|H]; [congruence|]. apply IH in H; [exact H | reflexivity].
Qed.

Lemma take_out_some f l : forall t, take_out f l = Some t -> NoDup l ->
  In f l /\ Permutation (f :: t) l /\ remove N.eq_dec f l = t /\ ~ In f t.
Proof.
  induction l as [|x l IH]; intros t Ht Hnd; cbn [take_out] in Ht; [discriminate|].
  inversion Hnd as [|? ? Hx Hl]. subst. destruct (N.eqb x f) eqn:E.
  - apply N.eqb_eq in E. subst x. inversion Ht. subst t.
    split; [left; reflexivity|]. split; [apply Permutation_refl|]. split; [|exact Hx].
    cbn [remove]. destruct (N.eq_dec f f) as [_|C]; [|contradiction]. apply notin_remove. exact Hx.
  - apply N.eqb_neq in E. destruct (take_out f l) as [r|] eqn:Et; [|discriminate].
    inversion Ht. subst t. destruct (IH r eq_refl Hl) as (Hin & Hp & Hr & Hn).
    split; [right; exact Hin|]. split.
    { apply perm_trans with (x :: f :: r); [apply perm_swap | apply perm_skip; exact Hp]. }
    split.
    + cbn [remove]. destruct (N.eq_dec f x) as [C|_]; [congruence|]. rewrite Hr. reflexivity.
    + intros [H|H]; [congruence | exact (Hn H)].
Qed.

(* what moving the favored candidate to the front does to a duplicate-free
   list: a permutation, favored first if present, all others in their order *)
Lemma favor_spec f m l : Permutation l m -> NoDup m ->
  let r := favor f l in
  Permutation r m /\
  (forall x, f = Some x -> In x m -> hd_error r = Some x) /\
  (forall x, f = Some x -> remove N.eq_dec x r = remove N.eq_dec x l) /\
  (f = None -> r = l).
Proof.
  intros Hp Hnd.
  assert (Hndl : NoDup l) by (apply (Permutation_NoDup (Permutation_sym Hp)); exact Hnd).
  destruct f as [x|]; cbn [favor].
  - destruct (take_out x l) as [t|] eqn:E.
    + destruct (take_out_some x l t E Hndl) as (Hin & Hperm & Hrem & Hnot).
      split; [apply (perm_trans Hperm Hp)|]. split.
      { intros y Hy _. inversion Hy. subst. reflexivity. }
      split; [|discriminate].
      intros y Hy. inversion Hy. subst y. cbn [remove].
      destruct (N.eq_dec x x) as [_|C]; [|contradiction].
      rewrite (notin_remove N.eq_dec _ _ Hnot). symmetry. exact Hrem.
    + split; [exact Hp|]. split.
      { intros y Hy Hin. inversion Hy. subst y. exfalso. apply take_out_none in E. apply E.
        apply (Permutation_in _ (Permutation_sym Hp)). exact Hin. }
      split; [reflexivity | discriminate].
  - split; [exact Hp|]. split; [discriminate|]. split; [discriminate | reflexivity].
Qed.

Lemma firstn_len_app {A} (d l : list A) : firstn (length (d ++ l) - length l) (d ++ l) = d.
Proof.
  rewrite app_length. replace (length d + length l - length l)%nat with (length d + 0)%nat by lia.
  rewrite firstn_app_2. cbn [firstn]. apply app_nil_r.
Qed.

Lemma skipn_len_app {A} (a e : list A) : skipn (length a) (a ++ e) = e.
Proof. induction a as [|x a IH]; [reflexivity | exact IH]. Qed.

(* ------------------------------------------------------------------ *)
(* at-most-once on the observable log *)

Definition ckey_eqb (a b : ckey) : bool :=
  match a, b with
  | QCands x, QCands y => N.eqb x y
  | QFilter v b, QFilter v' b' => N.eqb v v' && Bool.eqb b b'
  | QSort x, QSort y => N.eqb x y
  | QDeps x, QDeps y => N.eqb x y
  | _, _ => false
  end.

Lemma ckey_eqb_true a b : ckey_eqb a b = true -> a = b.
Proof.
  destruct a, b; cbn [ckey_eqb]; intro H; try discriminate H;
    try (apply N.eqb_eq in H; congruence).
  apply andb_true_iff in H. destruct H as [H1 H2]. apply N.eqb_eq in H1.
  apply Bool.eqb_prop in H2. congruence.
Qed.

Fixpoint nodupb (l : list ckey) : bool :=
  match l with
  | [] => true
  | x :: t => negb (existsb (ckey_eqb x) t) && nodupb t
  end.

Lemma nodupb_true l : NoDup l -> nodupb l = true.
Proof.
  induction 1 as [|x l Hx Hl IH]; cbn [nodupb]; [reflexivity|]. rewrite IH, andb_true_r.
  destruct (existsb (ckey_eqb x) l) eqn:E; [|reflexivity]. exfalso. apply Hx.
  apply existsb_exists in E. destruct E as [y [Hy He]]. apply ckey_eqb_true in He. subst. exact Hy.
Qed.

Definition okey (c : ocall) : list ckey :=
  match c with
  | OCands n => [QCands n] | OFilter v b => [QFilter v b] | OSort _ => [] | ODeps s => [QDeps s]
  end.

(* get_candidates n, filter (v, inverse), get_dependencies s each at most once *)
Definition once_b (ol : list ocall) : bool := nodupb (flat_map okey ol).

Lemma okeys_filter rl :
  flat_map okey (map obs rl) =
  filter (fun k => match k with QSort _ => false | _ => true end) (map call_key rl).
Proof.
  induction rl as [|c t IH]; [reflexivity|]. cbn [map flat_map filter]. rewrite IH.
  destruct c; reflexivity.
Qed.

Lemma once_obs rl : NoDup (map call_key rl) -> once_b (map obs rl) = true.
Proof.
  intro H. unfold once_b. apply nodupb_true. rewrite okeys_filter. apply NoDup_filter. exact H.
Qed.

(* ------------------------------------------------------------------ *)
(* the statements, for every provider and every operation sequence *)

Lemma reach_inv U ops : Inv U (cfinal U cempty ops).
Proof. apply cfinal_ok. apply cempty_inv. Qed.

Theorem answer_spec U ops o : is_avail o = false ->
  snd (step U (cfinal U cempty ops) o) = spec_ans U o.
Proof. intro H. apply (step_ok U _ o (reach_inv U ops)). exact H. Qed.

Theorem partition_spec U ops v :
  let s := cfinal U cempty ops in
  let c := p_cands U (p_vs_name U v) in
  snd (step U s (CCands (p_vs_name U v))) = ACands c (p_favored U (p_vs_name U v)) /\
  snd (step U s (CMatching v)) = AList (filter (p_match U v) c) /\
  snd (step U s (CNonMatching v)) = AList (filter (fun x => negb (p_match U v x)) c) /\
  Permutation (filter (p_match U v) c ++ filter (fun x => negb (p_match U v x)) c) c.
Proof.
  cbv zeta. split; [apply (answer_spec U ops (CCands (p_vs_name U v))); reflexivity|].
  split; [apply (answer_spec U ops (CMatching v)); reflexivity|].
  split; [apply (answer_spec U ops (CNonMatching v)); reflexivity|].
  apply filter_partition_perm.
Qed.

Theorem sorted_spec U ops v :
  let s := cfinal U cempty ops in
  let m := matching U v in
  let r := sorted_cands U v in
  let fav := p_favored U (p_vs_name U v) in
  snd (step U s (CSorted (RSingle v))) = AList r /\
  (Permutation (p_sort U m) m -> NoDup m ->
   Permutation r m /\
   (forall f, fav = Some f -> In f m -> hd_error r = Some f) /\
   (forall f, fav = Some f -> remove N.eq_dec f r = remove N.eq_dec f (p_sort U m)) /\
   (fav = None -> r = p_sort U m)).
Proof.
  cbv zeta. split.
  - rewrite (answer_spec U ops (CSorted (RSingle v)) eq_refl). cbn [spec_ans].
    unfold req_cands. cbn [req_vss flat_map]. rewrite app_nil_r. reflexivity.
  - intros Hp Hnd. apply (favor_spec _ _ _ Hp Hnd).
Qed.

Theorem union_spec U ops r :
  snd (step U (cfinal U cempty ops) (CSorted r)) = AList (req_cands U r).
Proof. apply (answer_spec U ops (CSorted r)). reflexivity. Qed.

Theorem deps_spec U ops x :
  snd (step U (cfinal U cempty ops) (CDeps x)) = ADeps (p_deps U x).
Proof. apply (answer_spec U ops (CDeps x)). reflexivity. Qed.

Theorem cache_idempotent U ops1 o ops2 :
  let s1 := cfinal U cempty ops1 in
  let s2 := fst (step U s1 o) in
  let s3 := cfinal U s2 ops2 in
  fst (step U s3 o) = s3 /\
  (is_avail o = false -> snd (step U s3 o) = snd (step U s1 o)) /\
  c_log (fst (step U s3 o)) = c_log s3 /\
  o_calls (snd (step_out U s3 o)) = [] /\
  o_probes (snd (step_out U s3 o)) = [].
Proof.
  cbv zeta. pose proof (reach_inv U ops1) as HI1.
  destruct (step_ok U _ o HI1) as (HI2 & Ha1 & Hc2 & _ & _).
  destruct (cfinal_ok U ops2 _ HI2) as [HI3 [Hm _]].
  destruct (step_ok U _ o HI3) as (_ & Ha3 & _ & _ & Hsame).
  specialize (Hsame (Hm o Hc2)).
  split; [exact Hsame|]. split; [intro H; rewrite (Ha3 H), (Ha1 H); reflexivity|].
  split; [rewrite Hsame; reflexivity|].
  unfold step_out. destruct (step U (cfinal U (fst (step U (cfinal U cempty ops1) o)) ops2) o)
    as [s' a] eqn:E. cbn [fst snd] in *. subst s'. cbn [snd o_calls o_probes].
  unfold new_calls, new_probes. rewrite Nat.sub_diag. cbn [firstn rev map].
  split; [reflexivity | apply skipn_all].
Qed.

(* the calls / probes reported for an operation are exactly what it appended *)
Theorem step_log_delta U ops o :
  let s := cfinal U cempty ops in
  map obs (c_log (fst (step U s o))) = map obs (c_log s) ++ o_calls (snd (step_out U s o)) /\
  c_seen (fst (step U s o)) = c_seen s ++ o_probes (snd (step_out U s o)).
Proof.
  cbv zeta. destruct (step_ok U _ o (reach_inv U ops)) as (_ & _ & _ & [_ [[d Hd] [e He]]] & _).
  unfold step_out. destruct (step U (cfinal U cempty ops) o) as [s' a]. cbn [fst snd] in *.
  cbn [o_calls o_probes]. unfold new_calls, new_probes, c_log. rewrite Hd, He. split.
  - rewrite firstn_len_app, rev_app_distr, map_app. reflexivity.
  - rewrite skipn_len_app. reflexivity.
Qed.

Theorem at_most_once U ops :
  let s := cfinal U cempty ops in
  NoDup (map call_key (c_log s)) /\
  (forall v l, In (KSort v l) (c_log s) -> l = matching U v).
Proof.
  cbv zeta. pose proof (reach_inv U ops) as HI. unfold c_log. split.
  - rewrite map_rev. apply NoDup_rev. apply (inv_nodup U _ HI).
  - intros v l H. apply in_rev in H. apply (inv_sortarg U _ HI v l H).
Qed.

Theorem available_spec U ops x :
  let s := cfinal U cempty ops in
  (available s x = true <->
   In (KDeps x) (c_log s) \/ exists n, In (KCands n) (c_log s) /\ In x (hinted U n)) /\
  (available s x = true <->
   lookup x (c_deps s) <> None \/ exists n, lookup n (c_cands s) <> None /\ In x (hinted U n)).
Proof.
  cbv zeta. pose proof (reach_inv U ops) as HI. split.
  - rewrite (available_log U _ x HI). unfold c_log. split; intros [H | [n [H1 H2]]].
    + left. apply in_rev in H. exact H.
    + right. exists n. split; [apply in_rev in H1; exact H1 | exact H2].
    + left. apply in_rev. exact H.
    + right. exists n. split; [apply in_rev; exact H1 | exact H2].
  - rewrite available_true, (inv_hint U _ HI). tauto.
Qed.

(* what sort_candidates sees when it probes the cache, and the at-most-once
   property, both expressed on the observable log alone *)
Theorem probe_spec U ops :
  let s := cfinal U cempty ops in
  let log := map obs (c_log s) in
  c_seen s = oprobes U (rev log) /\ once_b log = true.
Proof.
  cbv zeta. pose proof (reach_inv U ops) as HI. unfold c_log. split.
  - rewrite map_rev, rev_involutive. apply (inv_seen U _ HI).
  - apply once_obs. rewrite map_rev. apply NoDup_rev. apply (inv_nodup U _ HI).
Qed.

Lemma run_cons U s o t :
  run U s (o :: t) = snd (step_out U s o) :: run U (fst (step U s o)) t.
Proof.
  cbn [run]. unfold step_out. destruct (step U s o) as [s' a]. reflexivity.
Qed.

(* ------------------------------------------------------------------ *)
(* runners used by the in-Coq replay of harness observations *)

(* ---------- overlapping queries: the provider calls of a run as a multiset ---------- *)

Fixpoint nl_eqb (a b : list N) : bool :=
  match a, b with
  | [], [] => true
  | x :: a', y :: b' => N.eqb x y && nl_eqb a' b'
  | _, _ => false
  end.

Definition ocall_eqb (a b : ocall) : bool :=
  match a, b with
  | OCands x, OCands y => N.eqb x y
  | OFilter v i, OFilter w j => N.eqb v w && Bool.eqb i j
  | OSort l, OSort m => nl_eqb l m
  | ODeps x, ODeps y => N.eqb x y
  | _, _ => false
  end.

Fixpoint remove_call (x : ocall) (l : list ocall) : option (list ocall) :=
  match l with
  | [] => None
  | y :: t => if ocall_eqb x y then Some t else option_map (cons y) (remove_call x t)
  end.

(* the two lists contain the same calls the same number of times *)
Fixpoint calls_permb (a b : list ocall) : bool :=
  match a with
  | [] => match b with [] => true | _ => false end
  | x :: t => match remove_call x b with Some b' => calls_permb t b' | None => false end
  end.

Lemma nl_eqb_eq a : forall b, nl_eqb a b = true -> a = b.
Proof.
  induction a as [|x a IH]; intros [|y b]; simpl; try discriminate; [reflexivity|].
  intro H. apply andb_true_iff in H. destruct H as [H1 H2]. apply N.eqb_eq in H1. subst. f_equal. apply IH. exact H2.
Qed.

Lemma ocall_eqb_eq a b : ocall_eqb a b = true -> a = b.
Proof.
  destruct a, b; simpl; try discriminate; intro H.
  - apply N.eqb_eq in H. subst. reflexivity.
  - apply andb_true_iff in H. destruct H as [H1 H2]. apply N.eqb_eq in H1. apply Bool.eqb_prop in H2. subst. reflexivity.
  - apply nl_eqb_eq in H. subst. reflexivity.
  - apply N.eqb_eq in H. subst. reflexivity.
Qed.

Lemma remove_call_perm x : forall l l', remove_call x l = Some l' -> Permutation l (x :: l').
Proof.
  induction l as [|y t IH]; intros l' H; simpl in H; [discriminate|].
  destruct (ocall_eqb x y) eqn:E.
  - apply ocall_eqb_eq in E. subst. inversion H. subst. apply Permutation_refl.
  - destruct (remove_call x t) as [t'|]; [|discriminate]. inversion H. subst.
    eapply Permutation_trans; [apply perm_skip; apply IH; reflexivity | apply perm_swap].
Qed.

Theorem calls_permb_sound : forall a b, calls_permb a b = true -> Permutation a b.
Proof.
  induction a as [|x t IH]; intros b H; simpl in H.
  - destruct b; [constructor | discriminate].
  - destruct (remove_call x b) as [b'|] eqn:E; [|discriminate].
    eapply Permutation_trans; [apply perm_skip; apply IH; exact H | apply Permutation_sym; apply remove_call_perm; exact E].
Qed.

Definition crun (u : universe) (ops : list cop) : list cout := run (table_provider u) cempty ops.

(* queries that overlap in time: each must get the answer it gets when the queries are issued one after the
   other, and together they must consult the provider exactly as often (every provider call at most once,
   whichever query came first) *)
Definition overlap_run (u : universe) (ops : list cop) (observed : list ocall) : list cans * bool :=
  let outs := crun u ops in
  (map o_ans outs, calls_permb (concat (map o_calls outs)) observed).

(* for a provider call log observed during a solve: the probes sort_candidates
   must have seen, and whether every call was made at most once *)
Definition log_check (u : universe) (log : list ocall) : list (N * bool) * bool :=
  (oprobes (table_provider u) (rev log), once_b log).

(* the table provider's sort is a permutation, so the hypothesis of
   [sorted_spec] holds for every universe the harness generates *)
Lemma insert_stable_perm rank x l : Permutation (insert_stable rank x l) (x :: l).
Proof.
  induction l as [|y t IH]; cbn [insert_stable]; [apply Permutation_refl|].
  destruct (N.leb (rank x) (rank y)); [apply Permutation_refl|].
  apply perm_trans with (y :: x :: t); [apply perm_skip; exact IH | apply perm_swap].
Qed.

Lemma sort_stable_perm rank l : Permutation (sort_stable rank l) l.
Proof.
  induction l as [|x t IH]; cbn [sort_stable]; [constructor|].
  apply perm_trans with (x :: sort_stable rank t); [apply insert_stable_perm | apply perm_skip; exact IH].
Qed.

Theorem table_sort_perm u l : Permutation (p_sort (table_provider u) l) l.
Proof. unfold table_provider. cbn [p_sort]. apply sort_stable_perm. Qed.
