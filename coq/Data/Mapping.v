(* Data/Mapping.v -- executable model of src/internal/mapping.rs.

   The chunked [Vec<[Option<V>; 128]>] is modelled as a total function
   [store : N -> option V] together with the number of allocated chunks; the
   invariant says nothing is stored at or beyond [chunks * VALUES_PER_CHUNK],
   which is exactly what makes the [get_unchecked] accesses of the Rust code
   in-bounds.  [len] and [max] are the Rust fields of the same name. *)
From Coq Require Import List Arith NArith Bool Lia Sorting.Sorted.
From Resolvo Require Import Gen.Consts.
Import ListNotations.
Open Scope N_scope.

Section Mapping.
Context {V : Type}.

Record mapping := mkMapping {
  chunks : N;
  store : N -> option V;
  len : N;
  maxid : N
}.

Definition CH : N := VALUES_PER_CHUNK.

Definition slots (m : mapping) : N := chunks m * CH.

(* Mapping::with_capacity *)
Definition with_capacity (n : N) : mapping :=
  let n := N.max 1 n in
  {| chunks := (n - 1) / CH + 1; store := fun _ => None; len := 0; maxid := 0 |}.

Definition new : mapping := with_capacity 1.

Definition chunk_of (id : N) : N := id / CH.

Definition is_some (o : option V) : bool := match o with Some _ => true | None => false end.

(* Mapping::insert *)
Definition insert (m : mapping) (id : N) (v : V) : mapping * option V :=
  let c := chunk_of id in
  let ch := if N.leb (chunks m) c then c + 1 else chunks m in
  let prev := store m id in
  ({| chunks := ch;
      store := fun j => if N.eqb j id then Some v else store m j;
      len := if is_some prev then len m else len m + 1;
      maxid := N.max (maxid m) id |}, prev).

(* Mapping::unset *)
Definition unset (m : mapping) (id : N) : mapping * option V :=
  if N.leb (chunks m) (chunk_of id) then (m, None)
  else
    let prev := store m id in
    ({| chunks := chunks m;
        store := fun j => if N.eqb j id then None else store m j;
        len := if is_some prev then len m - 1 else len m;
        maxid := maxid m |}, prev).

(* Mapping::get *)
Definition get (m : mapping) (id : N) : option V :=
  if N.leb (chunks m) (chunk_of id) then None else store m id.

Definition is_empty (m : mapping) : bool := N.eqb (len m) 0.

Definition nrange (n : nat) : list N := map N.of_nat (seq 0 n).

Fixpoint collect (st : N -> option V) (l : list N) : list (N * V) :=
  match l with
  | [] => []
  | j :: t => match st j with Some v => (j, v) :: collect st t | None => collect st t end
  end.

(* MappingIter after the repair of F1: walk slots 0..=max, stop at once when
   nothing is stored *)
Definition iter (m : mapping) : list (N * V) :=
  if N.eqb (len m) 0 then [] else collect (store m) (nrange (N.to_nat (maxid m + 1))).

(* MappingIter before the repair: stops after [len] slots *)
Definition iter_pre_fix (m : mapping) : list (N * V) :=
  collect (store m) (nrange (N.to_nat (len m))).

(* Serialize: the first max+1 slots as options *)
Definition serialize (m : mapping) : list (option V) :=
  map (store m) (nrange (N.to_nat (maxid m + 1))).

Fixpoint deser_from (m : mapping) (i : N) (vals : list (option V)) : mapping :=
  match vals with
  | [] => m
  | Some v :: t => deser_from (fst (insert m i v)) (i + 1) t
  | None :: t => deser_from m (i + 1) t
  end.

(* Deserialize *)
Definition deserialize (vals : list (option V)) : mapping :=
  deser_from (with_capacity (N.of_nat (length vals))) 0 vals.

(* ------------------------------------------------------------------ *)
(* Invariant *)

Definition Inv (m : mapping) : Prop :=
  0 < chunks m /\
  (forall j, store m j <> None -> j < slots m /\ j <= maxid m) /\
  exists keys, NoDup keys /\ (forall j, In j keys <-> store m j <> None) /\
               len m = N.of_nat (length keys).

Lemma CH_pos : 0 < CH.
Proof. unfold CH. apply VALUES_PER_CHUNK_pos. Qed.

Lemma chunk_lt_slots c id : 0 < c -> (N.leb c (chunk_of id) = false <-> id < c * CH).
Proof.
  intros Hc. pose proof CH_pos as Hp. unfold chunk_of. rewrite N.leb_gt.
  pose proof (N.div_mod id CH ltac:(lia)) as Hdm.
  pose proof (N.mod_lt id CH ltac:(lia)) as Hm.
  split; intro H.
  - nia.
  - apply N.div_lt_upper_bound; lia.
Qed.

Lemma with_capacity_inv n : Inv (with_capacity n).
Proof.
  unfold Inv, with_capacity. cbn [chunks store len maxid].
  split; [generalize ((N.max 1 n - 1) / CH); intro q; lia|].
  split; [intros j H; congruence|].
  exists []. split; [constructor|]. split; [|reflexivity]. intro j. simpl. split; [tauto|congruence].
Qed.

Lemma get_store m id : Inv m -> get m id = store m id.
Proof.
  intros [Hc [Hb _]]. unfold get. destruct (N.leb (chunks m) (chunk_of id)) eqn:E; [|reflexivity].
  destruct (store m id) eqn:Es; [|reflexivity]. exfalso.
  assert (Hne : store m id <> None) by congruence.
  destruct (Hb id Hne) as [Hlt _]. unfold slots in Hlt.
  apply (chunk_lt_slots _ id Hc) in Hlt. congruence.
Qed.

Lemma in_remove_iff (l : list N) a x : In x (remove N.eq_dec a l) <-> In x l /\ x <> a.
Proof.
  split.
  - intro H. apply in_remove in H. exact H.
  - intros [H1 H2]. apply in_in_remove; assumption.
Qed.

Lemma NoDup_remove_len (l : list N) a : NoDup l -> In a l ->
  length l = S (length (remove N.eq_dec a l)).
Proof.
  induction l as [|x l IH]; intros Hnd Hin; [destruct Hin|].
  inversion Hnd as [|? ? Hx Hl]. subst. simpl. destruct (N.eq_dec a x) as [E|E].
  - subst. rewrite notin_remove; [reflexivity | exact Hx].
  - simpl. f_equal. apply IH; [exact Hl|]. destruct Hin as [H|H]; [congruence|exact H].
Qed.

Lemma NoDup_remove_nd (l : list N) a : NoDup l -> NoDup (remove N.eq_dec a l).
Proof.
  induction l as [|x l IH]; intro H; simpl; [constructor|].
  inversion H as [|? ? Hx Hl]. subst. destruct (N.eq_dec a x); [apply IH; exact Hl|].
  constructor; [|apply IH; exact Hl]. intro Hin. apply in_remove in Hin. tauto.
Qed.

Theorem insert_spec m id v :
  Inv m ->
  let '(m', r) := insert m id v in
  Inv m' /\ r = get m id /\
  (forall j, get m' j = if N.eqb j id then Some v else get m j).
Proof.
  intro HI. pose proof HI as [Hc [Hb [keys [Hnd [Hk Hl]]]]].
  pose proof CH_pos as Hp.
  assert (HI' : Inv (fst (insert m id v))).
  { unfold Inv, insert. unfold slots in *. cbn [fst chunks store len maxid].
    split; [destruct (N.leb (chunks m) (chunk_of id)); lia|]. split.
    - intros j Hj. destruct (N.eqb j id) eqn:E.
      + apply N.eqb_eq in E. subst j. split; [|lia].
        destruct (N.leb (chunks m) (chunk_of id)) eqn:El.
        * unfold chunk_of. rewrite N.mul_comm, N.add_1_r.
          apply N.mul_succ_div_gt. lia.
        * apply (chunk_lt_slots _ id Hc) in El. exact El.
      + destruct (Hb j Hj) as [H1 H2]. split; [|lia].
        destruct (N.leb (chunks m) (chunk_of id)) eqn:El; [|exact H1].
        apply N.leb_le in El. nia.
    - destruct (store m id) as [pv|] eqn:Es; cbn [is_some].
      + exists keys. split; [exact Hnd|]. split; [|exact Hl]. intro j. rewrite Hk.
        destruct (N.eqb j id) eqn:E; [|tauto]. apply N.eqb_eq in E. subst. split; congruence.
      + exists (id :: keys). split.
        * constructor; [|exact Hnd]. rewrite Hk. congruence.
        * split.
          -- intro j. simpl. rewrite Hk. destruct (N.eqb j id) eqn:E.
             ++ apply N.eqb_eq in E. subst. split; [congruence|]. intro. left. reflexivity.
             ++ apply N.eqb_neq in E. split; [intros [H|H]; [congruence|exact H] | intro H; right; exact H].
          -- simpl length. rewrite Hl. lia. }
  destruct (insert m id v) as [m' r] eqn:Ei. cbn [fst] in HI'.
  split; [exact HI'|]. split.
  - unfold insert in Ei. inversion Ei. symmetry. apply get_store. exact HI.
  - intro j. rewrite (get_store m' j HI'), (get_store m j HI).
    unfold insert in Ei. inversion Ei. reflexivity.
Qed.

Theorem unset_spec m id :
  Inv m ->
  let '(m', r) := unset m id in
  Inv m' /\ r = get m id /\
  (forall j, get m' j = if N.eqb j id then None else get m j).
Proof.
  intro HI. pose proof HI as [Hc [Hb [keys [Hnd [Hk Hl]]]]].
  unfold unset. destruct (N.leb (chunks m) (chunk_of id)) eqn:El.
  - split; [exact HI|]. split; [unfold get; rewrite El; reflexivity|].
    intro j. destruct (N.eqb j id) eqn:E; [|reflexivity].
    apply N.eqb_eq in E. subst. unfold get. rewrite El. reflexivity.
  - assert (HI' : Inv {| chunks := chunks m;
                         store := fun j => if N.eqb j id then None else store m j;
                         len := if is_some (store m id) then len m - 1 else len m;
                         maxid := maxid m |}).
    { unfold Inv. unfold slots in *. cbn [chunks store len maxid]. split; [exact Hc|]. split.
      - intros j Hj. destruct (N.eqb j id); [congruence|]. apply Hb. exact Hj.
      - destruct (store m id) as [pv|] eqn:Es; cbn [is_some].
        + exists (remove N.eq_dec id keys). split; [apply NoDup_remove_nd; exact Hnd|]. split.
          * intro j. rewrite in_remove_iff, Hk. destruct (N.eqb j id) eqn:E.
            -- apply N.eqb_eq in E. subst. split; [tauto|congruence].
            -- apply N.eqb_neq in E. tauto.
          * assert (Hin : In id keys) by (apply Hk; congruence).
            rewrite Hl, (NoDup_remove_len keys id Hnd Hin). lia.
        + exists keys. split; [exact Hnd|]. split; [|exact Hl]. intro j. rewrite Hk.
          destruct (N.eqb j id) eqn:E; [|tauto]. apply N.eqb_eq in E. subst. split; congruence. }
    split; [exact HI'|]. split; [symmetry; apply get_store; exact HI|].
    intro j. rewrite (get_store _ j HI'), (get_store m j HI). reflexivity.
Qed.

(* ---------- iteration ---------- *)

Lemma collect_In st l j v : In (j, v) (collect st l) <-> In j l /\ st j = Some v.
Proof.
  induction l as [|x l IH]; simpl; [tauto|].
  destruct (st x) as [w|] eqn:E; simpl; rewrite IH; split.
  - intros [H|H]; [inversion H; subst; auto | tauto].
  - intros [[H|H] Hs]; [subst; left; congruence | right; tauto].
  - intros [H Hs]. tauto.
  - intros [[H|H] Hs]; [subst; congruence | tauto].
Qed.

Lemma nrange_In n j : In j (nrange n) <-> (N.to_nat j < n)%nat.
Proof.
  unfold nrange. rewrite in_map_iff. split.
  - intros [k [Hk Hin]]. apply in_seq in Hin. subst. rewrite Nat2N.id. lia.
  - intro H. exists (N.to_nat j). split; [apply N2Nat.id|]. apply in_seq. lia.
Qed.

Definition keys_lt : N * V -> N * V -> Prop := fun a b => fst a < fst b.

Lemma collect_lower st l b :
  (forall x, In x l -> b < x) -> forall p, In p (collect st l) -> b < fst p.
Proof.
  intros H [j v] Hin. apply collect_In in Hin. simpl. apply H. tauto.
Qed.

Lemma collect_sorted st l : StronglySorted N.lt l -> StronglySorted keys_lt (collect st l).
Proof.
  induction 1 as [|x l Hs IH Hall]; simpl; [constructor|].
  destruct (st x) as [v|]; [|exact IH]. constructor; [exact IH|].
  apply Forall_forall. intros p Hp. unfold keys_lt. simpl.
  apply (collect_lower st l x); [|exact Hp]. intros y Hy.
  rewrite Forall_forall in Hall. apply Hall. exact Hy.
Qed.

Lemma nrange_sorted n : StronglySorted N.lt (nrange n).
Proof.
  unfold nrange. generalize 0%nat as s. induction n as [|n IH]; intro s; simpl; [constructor|].
  constructor; [apply IH|]. apply Forall_forall. intros y Hy. apply in_map_iff in Hy.
  destruct Hy as [k [Hk Hin]]. apply in_seq in Hin. subst. lia.
Qed.

(* iter yields exactly the stored pairs, in strictly ascending id order (hence
   each exactly once) *)
Theorem iter_spec m :
  Inv m ->
  StronglySorted keys_lt (iter m) /\
  (forall j v, In (j, v) (iter m) <-> get m j = Some v).
Proof.
  intro HI. pose proof HI as [Hc [Hb [keys [Hnd [Hk Hl]]]]]. unfold iter.
  destruct (N.eqb (len m) 0) eqn:E.
  - split; [constructor|]. intros j v. rewrite (get_store m j HI). simpl. split; [tauto|].
    intro Hs. apply N.eqb_eq in E. rewrite Hl in E.
    destruct keys as [|k ks]; [|simpl in E; lia].
    apply (Hk j). congruence.
  - split; [apply collect_sorted; apply nrange_sorted|].
    intros j v. rewrite collect_In, nrange_In, (get_store m j HI). split; [tauto|].
    intro Hs. split; [|exact Hs].
    assert (Hne : store m j <> None) by congruence.
    destruct (Hb j Hne) as [_ Hle]. lia.
Qed.

Lemma sorted_keys_nodup (l : list (N * V)) : StronglySorted keys_lt l -> NoDup (map fst l).
Proof.
  induction 1 as [|x l Hs IH Hall]; simpl; [constructor|].
  constructor; [|exact IH]. intro Hin. apply in_map_iff in Hin. destruct Hin as [y [Hy Hin]].
  rewrite Forall_forall in Hall. specialize (Hall y Hin). unfold keys_lt in Hall. lia.
Qed.

(* len = number of stored pairs *)
Theorem len_spec m : Inv m -> len m = N.of_nat (length (iter m)).
Proof.
  intro HI. destruct (iter_spec m HI) as [Hs Hin].
  pose proof HI as [Hc [Hb [keys [Hnd [Hk Hl]]]]].
  rewrite Hl. f_equal. rewrite <- (map_length fst (iter m)).
  pose proof (sorted_keys_nodup _ Hs) as Hnd2.
  apply Nat.le_antisymm; apply NoDup_incl_length; try assumption.
  - intros j Hj. apply Hk in Hj. destruct (store m j) as [v|] eqn:Es; [|congruence].
    apply in_map_iff. exists (j, v). split; [reflexivity|]. apply Hin.
    rewrite (get_store m j HI). exact Es.
  - intros j Hj. apply in_map_iff in Hj. destruct Hj as [[j' v] [E Hj]]. simpl in E. subst.
    apply Hin in Hj. rewrite (get_store m j HI) in Hj. apply Hk. congruence.
Qed.

Theorem is_empty_spec m : Inv m -> (is_empty m = true <-> iter m = []).
Proof.
  intro HI. unfold is_empty. rewrite N.eqb_eq, (len_spec m HI).
  destruct (iter m); simpl; split; intro H; try reflexivity; try discriminate; lia.
Qed.

(* ---------- serde ---------- *)

Lemma deser_from_spec vals : forall m i,
  Inv m ->
  (forall j, i <= j -> get m j = None) ->
  let m' := deser_from m i vals in
  Inv m' /\
  (forall j, get m' j =
     if N.ltb j i then get m j
     else nth (N.to_nat (j - i)) vals None).
Proof.
  induction vals as [|o vals IH]; intros m i HI Hnone; cbn [deser_from].
  - split; [exact HI|]. intro j. destruct (N.ltb j i) eqn:E; [reflexivity|].
    apply N.ltb_ge in E. rewrite Hnone by exact E. destruct (N.to_nat (j - i)); reflexivity.
  - destruct o as [v|].
    + pose proof (insert_spec m i v HI) as Hs. destruct (insert m i v) as [m1 r] eqn:Ei.
      destruct Hs as [HI1 [_ Hg1]]. cbn [fst].
      destruct (IH m1 (i + 1) HI1) as [HI2 Hg2].
      { intros j Hj. rewrite Hg1. destruct (N.eqb j i) eqn:E; [apply N.eqb_eq in E; lia|].
        apply Hnone. lia. }
      split; [exact HI2|]. intro j. rewrite Hg2. rewrite Hg1.
      destruct (N.ltb j (i + 1)) eqn:E1; destruct (N.ltb j i) eqn:E2;
        try apply N.ltb_lt in E1; try apply N.ltb_lt in E2;
        try apply N.ltb_ge in E1; try apply N.ltb_ge in E2; try lia.
      * destruct (N.eqb j i) eqn:E; [apply N.eqb_eq in E; lia | reflexivity].
      * assert (j = i) by lia. subst. rewrite N.eqb_refl, N.sub_diag. reflexivity.
      * replace (N.to_nat (j - i)) with (S (N.to_nat (j - (i + 1)))) by lia. reflexivity.
    + destruct (IH m (i + 1) HI) as [HI2 Hg2].
      { intros j Hj. apply Hnone. lia. }
      split; [exact HI2|]. intro j. rewrite Hg2.
      destruct (N.ltb j (i + 1)) eqn:E1; destruct (N.ltb j i) eqn:E2;
        try apply N.ltb_lt in E1; try apply N.ltb_lt in E2;
        try apply N.ltb_ge in E1; try apply N.ltb_ge in E2; try lia; try reflexivity.
      * assert (j = i) by lia. subst. rewrite N.sub_diag. simpl. apply Hnone. lia.
      * replace (N.to_nat (j - i)) with (S (N.to_nat (j - (i + 1)))) by lia. reflexivity.
Qed.

Lemma nth_serialize m k :
  nth k (serialize m) None = if Nat.ltb k (N.to_nat (maxid m + 1)) then store m (N.of_nat k) else None.
Proof.
  unfold serialize, nrange. destruct (Nat.ltb k (N.to_nat (maxid m + 1))) eqn:E.
  - apply Nat.ltb_lt in E. rewrite map_map.
    rewrite nth_indep with (d' := store m (N.of_nat 0)) by (rewrite map_length, seq_length; exact E).
    rewrite (map_nth (fun x => store m (N.of_nat x)) (seq 0 _) 0%nat k).
    rewrite seq_nth by exact E. reflexivity.
  - apply Nat.ltb_ge in E. apply nth_overflow. rewrite !map_length, seq_length. exact E.
Qed.

(* serialising and deserialising yields a mapping with the same contents *)
Theorem serde_roundtrip m :
  Inv m ->
  let m' := deserialize (serialize m) in
  Inv m' /\ (forall j, get m' j = get m j) /\ len m' = len m.
Proof.
  intro HI. unfold deserialize.
  pose proof (with_capacity_inv (N.of_nat (length (serialize m)))) as HI0.
  destruct (deser_from_spec (serialize m) _ 0 HI0) as [HI' Hg].
  { intros j _. rewrite (get_store _ j HI0). reflexivity. }
  assert (Hget : forall j, get (deser_from (with_capacity (N.of_nat (length (serialize m)))) 0
                                  (serialize m)) j = get m j).
  { intro j. rewrite Hg. replace (N.ltb j 0) with false by (symmetry; apply N.ltb_ge; lia).
    rewrite N.sub_0_r, nth_serialize, N2Nat.id, (get_store m j HI).
    destruct (Nat.ltb (N.to_nat j) (N.to_nat (maxid m + 1))) eqn:E; [reflexivity|].
    apply Nat.ltb_ge in E. destruct (store m j) as [v|] eqn:Es; [|reflexivity].
    exfalso. pose proof HI as [_ [Hb _]]. assert (Hne : store m j <> None) by congruence.
    destruct (Hb j Hne) as [_ Hle]. lia. }
  split; [exact HI'|]. split; [exact Hget|].
  (* equal contents => equal len *)
  rewrite (len_spec _ HI'), (len_spec m HI). f_equal.
  destruct (iter_spec _ HI') as [Hs1 Hin1]. destruct (iter_spec m HI) as [Hs2 Hin2].
  rewrite <- (map_length fst), <- (map_length fst (iter m)).
  apply Nat.le_antisymm; apply NoDup_incl_length; try (apply sorted_keys_nodup; assumption);
    intros j Hj; apply in_map_iff in Hj; destruct Hj as [[j' v] [E Hj]]; simpl in E; subst;
    apply in_map_iff; exists (j, v); (split; [reflexivity|]).
  - apply Hin2. rewrite <- Hget. apply Hin1. exact Hj.
  - apply Hin1. rewrite Hget. apply Hin2. exact Hj.
Qed.

End Mapping.

Arguments mapping V : clear implicits.

(* ------------------------------------------------------------------ *)
(* operation sequences, as run by the harness against the real Mapping *)

Inductive mop :=
| MInsert (id v : N) | MUnset (id : N) | MGet (id : N) | MLen | MIsEmpty | MIter | MSerde.

Inductive mout :=
| OOpt (o : option N) | ONum (n : N) | OBool (b : bool)
| OPairs (l : list (N * N)) | OSer (l : list (option N)).

Definition mstep (m : mapping N) (o : mop) : mapping N * mout :=
  match o with
  | MInsert id v => let '(m', r) := insert m id v in (m', OOpt r)
  | MUnset id => let '(m', r) := unset m id in (m', OOpt r)
  | MGet id => (m, OOpt (get m id))
  | MLen => (m, ONum (len m))
  | MIsEmpty => (m, OBool (is_empty m))
  | MIter => (m, OPairs (iter m))
  | MSerde => let s := serialize m in (deserialize s, OSer s)
  end.

Fixpoint mrun (m : mapping N) (ops : list mop) : list mout :=
  match ops with
  | [] => []
  | o :: t => let '(m', r) := mstep m o in r :: mrun m' t
  end.

Fixpoint mfinal (m : mapping N) (ops : list mop) : mapping N :=
  match ops with
  | [] => m
  | o :: t => mfinal (fst (mstep m o)) t
  end.

Lemma mstep_inv m o : Inv m -> Inv (fst (mstep m o)).
Proof.
  intro HI. destruct o; cbn [mstep]; try exact HI.
  - pose proof (insert_spec m id v HI) as H. destruct (insert m id v). apply H.
  - pose proof (unset_spec m id HI) as H. destruct (unset m id). apply H.
  - cbn [fst]. apply (serde_roundtrip m HI).
Qed.

(* every reachable state satisfies the invariant *)
Theorem reachable_inv n ops : Inv (mfinal (with_capacity n) ops).
Proof.
  assert (H : forall m, Inv m -> Inv (mfinal m ops)).
  { induction ops as [|o ops IH]; intros m HI; cbn [mfinal]; [exact HI|].
    apply IH. apply mstep_inv. exact HI. }
  apply H. apply with_capacity_inv.
Qed.

(* the iterator as it was before the repair misses sparse ids (finding F1) *)
Example iter_pre_fix_refuted :
  let m := fst (insert (fst (insert (@new N) 5 50)) 200 2000) in
  iter_pre_fix m = [] /\ iter m = [(5, 50); (200, 2000)].
Proof. vm_compute. split; reflexivity. Qed.
