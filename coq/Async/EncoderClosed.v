(* Async/EncoderClosed.v -- completeness of the encoder model: when an encode call
   returns, for every solvable that was queued (and the root) all clauses of its
   dependencies are in the database, its dependencies were fetched, and for every
   package that was queued the candidates were fetched and the lock / exclusion
   clauses are in the database.  For every provider, problem, cache contents,
   trail history and sequence of encoder invocations. *)
From Resolvo Require Export Async.EncoderCalls.

Section Closed.
Variable U : provider.
Variable P : problem.

Notation mentioned := (mentioned U P).

Definition req_done (st : estate) (so : option N) (r : req) : Prop := In (mk_requires U so r) (e_db st).
Definition con_done (st : estate) (so : option N) (v : N) : Prop :=
  forall f, In f (nonmatching U v) -> In (mk_constrains so f v) (e_db st).
Definition pkg_done (st : estate) (n : N) : Prop :=
  In n (c_cands (e_cache st)) /\
  (forall l o, p_locked U n = Some l -> In o (p_cands U n) -> N.eqb o l = false -> In (mk_lock l o) (e_db st)) /\
  (forall x, In x (p_excluded U n) -> In (mk_excluded x) (e_db st)).

Definition deps_done (st : estate) (work : list task) (so : option N) : Prop :=
  (forall s, so = Some s -> In s (c_deps (e_cache st))) /\
  match deps_of U P so with
  | Unknown => forall s, so = Some s -> In (mk_excluded s) (e_db st)
  | Known rs cs =>
      (forall n, In n (mentioned so) -> In n (e_pkgs st)) /\
      (forall r, In r rs -> In (TReq so r) work \/ req_done st so r) /\
      (forall v, In v cs -> In (TCon so v) work \/ con_done st so v)
  end.

Record WI (st : estate) (work : list task) : Prop := mkWI {
  wi_sols : forall so, In so (e_sols st) -> In (TDeps so) work \/ deps_done st work so;
  wi_pkgs : forall n, In n (e_pkgs st) -> In (TCands n) work \/ pkg_done st n
}.

Record grow (st st' : estate) : Prop := mkGrow {
  g_db : incl (e_db st) (e_db st');
  g_pkgs : incl (e_pkgs st) (e_pkgs st');
  g_sols : incl (e_sols st) (e_sols st');
  g_deps : incl (c_deps (e_cache st)) (c_deps (e_cache st'));
  g_cands : incl (c_cands (e_cache st)) (c_cands (e_cache st'))
}.

Lemma grow_refl st : grow st st.
Proof. constructor; apply incl_refl. Qed.
Lemma grow_trans a b c : grow a b -> grow b c -> grow a c.
Proof. intros [A1 A2 A3 A4 A5] [B1 B2 B3 B4 B5]. constructor; eapply incl_tran; eauto. Qed.

Lemma pkg_done_grow st st' n : grow st st' -> pkg_done st n -> pkg_done st' n.
Proof.
  intros G [A [B C]]. split; [apply (g_cands _ _ G); exact A|]. split.
  - intros l o H1 H2 H3. apply (g_db _ _ G). eapply B; eauto.
  - intros x Hx. apply (g_db _ _ G). auto.
Qed.

(* one step of the worklist: the head task t is replaced by new tasks w1 *)
Lemma deps_done_step st st1 t rest w1 so :
  grow st st1 ->
  (forall r, TReq so r = t -> req_done st1 so r) ->
  (forall v, TCon so v = t -> con_done st1 so v) ->
  deps_done st (t :: rest) so -> deps_done st1 (rest ++ w1) so.
Proof.
  intros G Hr Hc [A B]. split; [intros s E; apply (g_deps _ _ G); eauto|].
  destruct (deps_of U P so) as [rs cs|].
  - destruct B as (B1 & B2 & B3). split; [intros n Hn; apply (g_pkgs _ _ G); auto|]. split.
    + intros r Hin. destruct (B2 r Hin) as [[E|Hw]|Hd].
      * right. apply Hr. symmetry. exact E.
      * left. apply in_or_app. left. exact Hw.
      * right. apply (g_db _ _ G). exact Hd.
    + intros v Hin. destruct (B3 v Hin) as [[E|Hw]|Hd].
      * right. apply Hc. symmetry. exact E.
      * left. apply in_or_app. left. exact Hw.
      * right. intros f Hf. apply (g_db _ _ G). apply Hd. exact Hf.
  - intros s E. apply (g_db _ _ G). eauto.
Qed.

(* ---------- growth of the pieces ---------- *)

Lemma grow_register st x : grow st (register U st x).
Proof. unfold register. destruct (Amo.add _ _) as [t' cs]. constructor; simpl; try apply incl_refl. apply incl_appl, incl_refl. Qed.

Lemma grow_add_clauses st cs : grow st (add_clauses st cs).
Proof. constructor; simpl; try apply incl_refl. apply incl_appl, incl_refl. Qed.

Lemma grow_queue_solvable st so st' w : queue_solvable st so = (st', w) -> grow st st'.
Proof.
  unfold queue_solvable. destruct (mem_so so (e_sols st)); intro E; inversion E; subst; [apply grow_refl|].
  constructor; simpl; try apply incl_refl. apply incl_tl, incl_refl.
Qed.

Lemma grow_queue_package st n st' w : queue_package st n = (st', w) -> grow st st'.
Proof.
  unfold queue_package. destruct (memN n (e_pkgs st)); intro E; inversion E; subst; [apply grow_refl|].
  constructor; simpl; try apply incl_refl. apply incl_tl, incl_refl.
Qed.

Lemma grow_queue_packages ns : forall st st' w, queue_packages st ns = (st', w) -> grow st st'.
Proof.
  induction ns as [|n ns IH]; intros st st' w; simpl.
  - intro E. inversion E. apply grow_refl.
  - destruct (queue_package st n) as [st1 w1] eqn:E1. destruct (queue_packages st1 ns) as [st2 w2] eqn:E2.
    intro E. inversion E. subst. eapply grow_trans; [eapply grow_queue_package; eauto | eapply IH; eauto].
Qed.

Lemma grow_queue_solvables sos : forall st st' w, queue_solvables st sos = (st', w) -> grow st st'.
Proof.
  induction sos as [|n ns IH]; intros st st' w; simpl.
  - intro E. inversion E. apply grow_refl.
  - destruct (queue_solvable st n) as [st1 w1] eqn:E1. destruct (queue_solvables st1 ns) as [st2 w2] eqn:E2.
    intro E. inversion E. subst. eapply grow_trans; [eapply grow_queue_solvable; eauto | eapply IH; eauto].
Qed.

Lemma grow_reveal falses cands : forall st st' w, reveal U falses st cands = (st', w) -> grow st st'.
Proof.
  induction cands as [|x xs IH]; intros st st' w; simpl.
  - intro E. inversion E. apply grow_refl.
  - destruct (if available U (e_cache st) x && negb (memN x falses) then queue_solvable st (Some x) else (st, []))
      as [st1 w1] eqn:E1.
    destruct (reveal U falses (register U st1 x) xs) as [st3 w3] eqn:E3. intro E. inversion E. subst.
    assert (H1 : grow st st1).
    { destruct (available U (e_cache st) x && negb (memN x falses)); [eapply grow_queue_solvable; eauto|].
      inversion E1. apply grow_refl. }
    eapply grow_trans; [exact H1|]. eapply grow_trans; [apply grow_register | eapply IH; eauto].
Qed.

(* caches only grow *)
Definition cgrow (c c' : ecache) : Prop := incl (c_deps c) (c_deps c') /\ incl (c_cands c) (c_cands c').
Lemma cgrow_refl c : cgrow c c.
Proof. split; apply incl_refl. Qed.
Lemma cgrow_trans a b c : cgrow a b -> cgrow b c -> cgrow a c.
Proof. intros [A B] [C D]. split; eapply incl_tran; eauto. Qed.

Lemma cgrow_cands c n c' k : req_cands_of c n = (c', k) -> cgrow c c' /\ In n (c_cands c').
Proof.
  unfold req_cands_of. destruct (memN n (c_cands c)) eqn:Em; intro E; inversion E; subst.
  - split; [apply cgrow_refl | apply memN_In; exact Em].
  - split; [split; simpl; [apply incl_refl | apply incl_tl, incl_refl] | simpl; left; reflexivity].
Qed.

Lemma cgrow_deps c s c' k : req_deps c s = (c', k) -> cgrow c c' /\ In s (c_deps c').
Proof.
  unfold req_deps. destruct (memN s (c_deps c)) eqn:Em; intro E; inversion E; subst.
  - split; [apply cgrow_refl | apply memN_In; exact Em].
  - split; [split; simpl; [apply incl_tl, incl_refl | apply incl_refl] | simpl; left; reflexivity].
Qed.

Lemma cgrow_matching c v c' k : req_matching U c v = (c', k) -> cgrow c c'.
Proof.
  unfold req_matching. destruct (memN v (c_match c)); [intro E; inversion E; apply cgrow_refl|].
  destruct (req_cands_of c (p_vs_name U v)) as [c1 k1] eqn:E1. intro E. inversion E. subst.
  destruct (cgrow_cands _ _ _ _ E1) as [[A B] _]. split; simpl; assumption.
Qed.

Lemma cgrow_nonmatching c v c' k : req_nonmatching U c v = (c', k) -> cgrow c c'.
Proof.
  unfold req_nonmatching. destruct (memN v (c_nonmatch c)); [intro E; inversion E; apply cgrow_refl|].
  destruct (req_cands_of c (p_vs_name U v)) as [c1 k1] eqn:E1. intro E. inversion E. subst.
  destruct (cgrow_cands _ _ _ _ E1) as [[A B] _]. split; simpl; assumption.
Qed.

Lemma cgrow_sorted c v c' k : req_sorted U c v = (c', k) -> cgrow c c'.
Proof.
  unfold req_sorted. destruct (memN v (c_sorted c)); [intro E; inversion E; apply cgrow_refl|].
  destruct (req_matching U c v) as [c1 k1] eqn:E1.
  destruct (req_cands_of c1 (p_vs_name U v)) as [c2 k2] eqn:E2. intro E. inversion E. subst.
  destruct (cgrow_cands _ _ _ _ E2) as [[A B] _]. pose proof (cgrow_matching _ _ _ _ E1) as [C D].
  split; simpl; eapply incl_tran; eauto.
Qed.

Lemma cgrow_sorted_all vs : forall c c' k, req_sorted_all U c vs = (c', k) -> cgrow c c'.
Proof.
  induction vs as [|v vs IH]; intros c c' k; simpl; [intro E; inversion E; apply cgrow_refl|].
  destruct (req_sorted U c v) as [c1 k1] eqn:E1. destruct (req_sorted_all U c1 vs) as [c2 k2] eqn:E2.
  intro E. inversion E. subst. eapply cgrow_trans; [eapply cgrow_sorted; eauto | eapply IH; eauto].
Qed.

Lemma grow_add_calls st c k : cgrow (e_cache st) c -> grow st (add_calls st c k).
Proof. intros [A B]. constructor; simpl; try apply incl_refl; assumption. Qed.

(* ---------- what the queueing functions mark ---------- *)

Lemma queue_packages_marks ns : forall st st' w, queue_packages st ns = (st', w) ->
  (forall n, In n ns -> In n (e_pkgs st')) /\
  (forall n, In n (e_pkgs st') -> In n (e_pkgs st) \/ In (TCands n) w).
Proof.
  induction ns as [|n ns IH]; intros st st' w; simpl.
  - intro E. inversion E. subst. split; [intros n [] | auto].
  - destruct (queue_package st n) as [st1 w1] eqn:E1. destruct (queue_packages st1 ns) as [st2 w2] eqn:E2.
    intro E. inversion E. subst. destruct (IH _ _ _ E2) as [A B].
    pose proof (grow_queue_packages _ _ _ _ E2) as G2.
    unfold queue_package in E1. destruct (memN n (e_pkgs st)) eqn:Em; inversion E1; subst.
    + split.
      * intros m [Em'|Hm]; [subst m; apply (g_pkgs _ _ G2); apply memN_In; exact Em | apply A; exact Hm].
      * intros m Hm. destruct (B m Hm); [left; assumption | right; simpl; assumption].
    + split.
      * intros m [Em'|Hm]; [subst m; apply (g_pkgs _ _ G2); simpl; left; reflexivity | apply A; exact Hm].
      * intros m Hm. destruct (B m Hm) as [Hl|Hr].
        -- simpl in Hl. destruct Hl as [El|Hl]; [subst m; right; simpl; left; reflexivity | left; exact Hl].
        -- right. simpl. right. exact Hr.
Qed.

Lemma queue_solvable_marks st so st' w : queue_solvable st so = (st', w) ->
  e_pkgs st' = e_pkgs st /\ forall x, In x (e_sols st') -> In x (e_sols st) \/ In (TDeps x) w.
Proof.
  unfold queue_solvable. destruct (mem_so so (e_sols st)); intro E; inversion E; subst; simpl; split; auto.
  intros x [Ex|Hx]; [subst x; right; left; reflexivity | left; exact Hx].
Qed.

Lemma queue_solvables_marks sos : forall st st' w, queue_solvables st sos = (st', w) ->
  e_pkgs st' = e_pkgs st /\ forall x, In x (e_sols st') -> In x (e_sols st) \/ In (TDeps x) w.
Proof.
  induction sos as [|so sos IH]; intros st st' w; simpl.
  - intro E. inversion E. subst. split; auto.
  - destruct (queue_solvable st so) as [st1 w1] eqn:E1. destruct (queue_solvables st1 sos) as [st2 w2] eqn:E2.
    intro E. inversion E. subst. destruct (queue_solvable_marks _ _ _ _ E1) as [A1 B1].
    destruct (IH _ _ _ E2) as [A2 B2]. split; [congruence|].
    intros x Hx. destruct (B2 x Hx) as [H|H].
    + destruct (B1 x H) as [H'|H']; [left; exact H' | right; apply in_or_app; left; exact H'].
    + right. apply in_or_app. right. exact H.
Qed.

Lemma register_marks st x : e_pkgs (register U st x) = e_pkgs st /\ e_sols (register U st x) = e_sols st.
Proof. unfold register. destruct (Amo.add _ _). split; reflexivity. Qed.

Lemma reveal_marks falses cands : forall st st' w, reveal U falses st cands = (st', w) ->
  e_pkgs st' = e_pkgs st /\ forall x, In x (e_sols st') -> In x (e_sols st) \/ In (TDeps x) w.
Proof.
  induction cands as [|c cands IH]; intros st st' w; simpl.
  - intro E. inversion E. subst. split; auto.
  - destruct (if available U (e_cache st) c && negb (memN c falses) then queue_solvable st (Some c) else (st, []))
      as [st1 w1] eqn:E1.
    destruct (reveal U falses (register U st1 c) cands) as [st3 w3] eqn:E3. intro E. inversion E. subst.
    assert (H1 : e_pkgs st1 = e_pkgs st /\ forall x, In x (e_sols st1) -> In x (e_sols st) \/ In (TDeps x) w1).
    { destruct (available U (e_cache st) c && negb (memN c falses)); [eapply queue_solvable_marks; eauto|].
      inversion E1. subst. split; auto. }
    destruct H1 as [A1 B1]. destruct (IH _ _ _ E3) as [A3 B3]. destruct (register_marks st1 c) as [R1 R2].
    split; [congruence|]. intros x Hx. destruct (B3 x Hx) as [H|H].
    + rewrite R2 in H. destruct (B1 x H) as [H'|H']; [left; exact H' | right; apply in_or_app; left; exact H'].
    + right. apply in_or_app. right. exact H.
Qed.

(* ---------- one task ---------- *)

Lemma run_one_grow falses st t st' w : run_one U P falses st t = (st', w) -> grow st st'.
Proof.
  destruct t as [so|n|so r|so v]; cbn [run_one].
  - set (st1 := match so with None => st | Some s => let '(c, k) := req_deps (e_cache st) s in add_calls st c k end).
    assert (G1 : grow st st1).
    { unfold st1. destruct so as [s|]; [|apply grow_refl]. destruct (req_deps (e_cache st) s) as [c k] eqn:E.
      apply grow_add_calls. eapply cgrow_deps; eauto. }
    destruct (deps_of U P so) as [rs cs|].
    + destruct (queue_packages st1 _) as [st2 w2] eqn:E2. intro E. inversion E. subst.
      eapply grow_trans; [exact G1 | eapply grow_queue_packages; eauto].
    + intro E. inversion E. subst. eapply grow_trans; [exact G1 | apply grow_add_clauses].
  - destruct (req_cands_of (e_cache st) n) as [c k] eqn:E1. intro E. inversion E. subst.
    eapply grow_trans; [apply grow_add_calls; eapply cgrow_cands; eauto | apply grow_add_clauses].
  - destruct (req_sorted_all U (e_cache st) (req_vss U r)) as [c k] eqn:E1.
    destruct (reveal U falses (add_calls st c k) (req_cands U r)) as [st2 w2] eqn:E2.
    intro E. inversion E. subst.
    eapply grow_trans; [apply grow_add_calls; eapply cgrow_sorted_all; eauto|].
    eapply grow_trans; [eapply grow_reveal; eauto | apply grow_add_clauses].
  - destruct (req_nonmatching U (e_cache st) v) as [c k] eqn:E1. intro E. inversion E. subst.
    eapply grow_trans; [apply grow_add_calls; eapply cgrow_nonmatching; eauto | apply grow_add_clauses].
Qed.

Lemma wi_run_one falses st t rest st' w :
  WI st (t :: rest) -> run_one U P falses st t = (st', w) -> WI st' (rest ++ w).
Proof.
  intros [HS HP] E. pose proof (run_one_grow falses st t st' w E) as G.
  destruct t as [so0|n0|so0 r0|so0 v0]; cbn [run_one] in E.
  - (* TDeps so0 *)
    set (st1 := match so0 with None => st | Some s => let '(c, k) := req_deps (e_cache st) s in add_calls st c k end) in E.
    assert (D1 : (forall s, so0 = Some s -> In s (c_deps (e_cache st1))) /\ e_sols st1 = e_sols st /\ e_pkgs st1 = e_pkgs st).
    { unfold st1. destruct so0 as [s|]; [|split; [intros s Es; discriminate Es | split; reflexivity]].
      destruct (req_deps (e_cache st) s) as [c k] eqn:Ed. split; [|split; reflexivity].
      intros s' Es. inversion Es. subst s'. simpl. eapply cgrow_deps; eauto. }
    destruct D1 as (D1 & S1 & P1).
    destruct (deps_of U P so0) as [rs cs|] eqn:Ed.
    + destruct (queue_packages st1 (map (p_vs_name U) (flat_map (req_vss U) rs ++ cs))) as [st2 w2] eqn:E2.
      inversion E. subst st' w. clear E.
      destruct (queue_packages_marks _ _ _ _ E2) as [M1 M2].
      destruct (queue_packages_sols _ _ _ _ E2) as [S2 _].
      pose proof (grow_queue_packages _ _ _ _ E2) as G2.
      assert (Hdone : deps_done st2 (rest ++ w2 ++ map (TReq so0) rs ++ map (TCon so0) cs) so0).
      { split; [intros s Es; apply (g_deps _ _ G2); apply D1; exact Es|]. rewrite Ed. split; [|split].
        - intros n Hn. apply M1. unfold EncoderCalls.mentioned, vs_mentioned in Hn. rewrite Ed in Hn. exact Hn.
        - intros r Hr. left. apply in_or_app. right. apply in_or_app. right. apply in_or_app. left. apply in_map. exact Hr.
        - intros v Hv. left. apply in_or_app. right. apply in_or_app. right. apply in_or_app. right. apply in_map. exact Hv. }
      constructor.
      * intros so Hso. rewrite S2, S1 in Hso. destruct (HS so Hso) as [[Et|Hw]|Hd].
        -- inversion Et. subst so. right. exact Hdone.
        -- left. apply in_or_app. left. exact Hw.
        -- right. eapply deps_done_step; [exact G | | | exact Hd]; intros x Ex; discriminate Ex.
      * intros n Hn. destruct (M2 n Hn) as [Hold|Hnew].
        -- rewrite P1 in Hold. destruct (HP n Hold) as [[Et|Hw]|Hd]; [discriminate Et | left; apply in_or_app; left; exact Hw|].
           right. exact (pkg_done_grow _ _ _ G Hd).
        -- left. apply in_or_app. right. apply in_or_app. left. exact Hnew.
    + inversion E. subst st' w. clear E. rewrite app_nil_r.
      assert (Hdone : deps_done (add_clauses st1 match so0 with Some s => [mk_excluded s] | None => [] end) rest so0).
      { split; [simpl; exact D1|]. rewrite Ed. intros s Es. subst so0. simpl. apply in_or_app. right. left. reflexivity. }
      constructor.
      * intros so Hso. simpl in Hso. rewrite S1 in Hso. destruct (HS so Hso) as [[Et|Hw]|Hd].
        -- inversion Et. subst so. right. exact Hdone.
        -- left. exact Hw.
        -- right. rewrite <- (app_nil_r rest). eapply deps_done_step; [exact G | | | exact Hd]; intros x Ex; discriminate Ex.
      * intros n Hn. simpl in Hn. rewrite P1 in Hn. destruct (HP n Hn) as [[Et|Hw]|Hd]; [discriminate Et | left; exact Hw|].
        right. exact (pkg_done_grow _ _ _ G Hd).
  - (* TCands n0 *)
    destruct (req_cands_of (e_cache st) n0) as [c k] eqn:E1. inversion E. subst st' w. clear E. rewrite app_nil_r.
    constructor.
    + intros so Hso. simpl in Hso. destruct (HS so Hso) as [[Et|Hw]|Hd]; [discriminate Et | left; exact Hw|].
      right. rewrite <- (app_nil_r rest). eapply deps_done_step; [exact G | | | exact Hd]; intros x Ex; discriminate Ex.
    + intros n Hn. simpl in Hn. destruct (HP n Hn) as [[Et|Hw]|Hd]; [|left; exact Hw | right; exact (pkg_done_grow _ _ _ G Hd)].
      inversion Et. subst n. right. split; [simpl; eapply cgrow_cands; eauto|]. split.
      * intros l o Hl Ho Hne. simpl. apply in_or_app. right. apply in_or_app. left. rewrite Hl.
        apply in_map. apply filter_In. split; [exact Ho | rewrite Hne; reflexivity].
      * intros x Hx. simpl. apply in_or_app. right. apply in_or_app. right. apply in_map. exact Hx.
  - (* TReq so0 r0 *)
    destruct (req_sorted_all U (e_cache st) (req_vss U r0)) as [c k] eqn:E1.
    destruct (reveal U falses (add_calls st c k) (req_cands U r0)) as [st2 w2] eqn:E2.
    inversion E. subst st' w. clear E.
    destruct (reveal_marks _ _ _ _ _ E2) as [M1 M2].
    constructor.
    + intros so Hso. simpl in Hso. destruct (M2 so Hso) as [Hold|Hnew]; [|left; apply in_or_app; right; exact Hnew].
      simpl in Hold. destruct (HS so Hold) as [[Et|Hw]|Hd]; [discriminate Et | left; apply in_or_app; left; exact Hw|].
      right. eapply deps_done_step; [exact G | | | exact Hd].
      * intros r Er. inversion Er. subst. unfold req_done. simpl. apply in_or_app. right. left. reflexivity.
      * intros x Ex. discriminate Ex.
    + intros n Hn. simpl in Hn. rewrite M1 in Hn. simpl in Hn.
      destruct (HP n Hn) as [[Et|Hw]|Hd]; [discriminate Et | left; apply in_or_app; left; exact Hw|].
      right. exact (pkg_done_grow _ _ _ G Hd).
  - (* TCon so0 v0 *)
    destruct (req_nonmatching U (e_cache st) v0) as [c k] eqn:E1. inversion E. subst st' w. clear E. rewrite app_nil_r.
    constructor.
    + intros so Hso. simpl in Hso. destruct (HS so Hso) as [[Et|Hw]|Hd]; [discriminate Et | left; exact Hw|].
      right. rewrite <- (app_nil_r rest). eapply deps_done_step; [exact G | | | exact Hd].
      * intros x Ex. discriminate Ex.
      * intros v Ev. inversion Ev. subst. unfold con_done. intros f Hf. simpl. apply in_or_app. right.
        apply in_map_iff. exists f. split; [reflexivity | exact Hf].
    + intros n Hn. simpl in Hn. destruct (HP n Hn) as [[Et|Hw]|Hd]; [discriminate Et | left; exact Hw|].
      right. exact (pkg_done_grow _ _ _ G Hd).
Qed.


Lemma deps_done_weaken st st' w w' so :
  grow st st' -> (forall x, In x w -> In x w') -> deps_done st w so -> deps_done st' w' so.
Proof.
  intros G Hw [A B]. split; [intros s E; apply (g_deps _ _ G); eauto|].
  destruct (deps_of U P so) as [rs cs|].
  - destruct B as (B1 & B2 & B3). split; [intros n Hn; apply (g_pkgs _ _ G); auto|]. split.
    + intros r Hr. destruct (B2 r Hr) as [Hin|Hd]; [left; apply Hw; exact Hin|]. right. apply (g_db _ _ G). exact Hd.
    + intros v Hv. destruct (B3 v Hv) as [Hin|Hd]; [left; apply Hw; exact Hin|].
      right. intros f Hf. apply (g_db _ _ G). apply Hd. exact Hf.
  - intros s E. apply (g_db _ _ G). eauto.
Qed.

Lemma wi_weaken st st' w w' :
  WI st w -> grow st st' -> (forall x, In x w -> In x w') ->
  (forall so, In so (e_sols st') -> In so (e_sols st) \/ In (TDeps so) w') ->
  (forall n, In n (e_pkgs st') -> In n (e_pkgs st) \/ In (TCands n) w') -> WI st' w'.
Proof.
  intros [HS HP] G Hw Hs Hp. constructor.
  - intros so Hso. destruct (Hs so Hso) as [Hold|Hnew]; [|left; exact Hnew].
    destruct (HS so Hold) as [Hin|Hd]; [left; apply Hw; exact Hin|]. right. eapply deps_done_weaken; eauto.
  - intros n Hn. destruct (Hp n Hn) as [Hold|Hnew]; [|left; exact Hnew].
    destruct (HP n Hold) as [Hin|Hd]; [left; apply Hw; exact Hin|]. right. exact (pkg_done_grow _ _ _ G Hd).
Qed.

Lemma wi_enc_run evs : forall st work tr st' work',
  WI st work -> enc_run U P st work tr evs = Some (st', work') -> WI st' work'.
Proof.
  induction evs as [|e evs IH]; intros st work tr st' work' H; simpl.
  - intro E. inversion E. subst. exact H.
  - destruct e as [sos|k|s|e].
    + destruct work as [|x work0]; [|discriminate].
      destruct (queue_solvables st sos) as [st1 w] eqn:E1. apply IH.
      destruct (queue_solvables_marks _ _ _ _ E1) as [M1 M2].
      eapply wi_weaken; [exact H | eapply grow_queue_solvables; eauto | intros x [] | exact M2 |].
      intros n Hn. left. rewrite <- M1. exact Hn.
    + destruct (remove_task k work) as [work0|] eqn:Er; [|discriminate].
      destruct (run_one U P (falses_of tr) st k) as [st1 w1] eqn:E1. apply IH.
      eapply wi_run_one; [|exact E1].
      eapply wi_weaken; [exact H | apply grow_refl | | intros so Hso; left; exact Hso | intros n Hn; left; exact Hn].
      intros x Hx. apply (remove_task_In k work work0 Er x) in Hx. destruct Hx as [Hx|Hx]; [left; symmetry; exact Hx | right; exact Hx].
    + apply IH. destruct (register_marks st s) as [A B].
      eapply wi_weaken; [exact H | apply grow_register | auto | intros so Hso; left; rewrite <- B; exact Hso |
                         intros n Hn; left; rewrite <- A; exact Hn].
    + apply IH. exact H.
Qed.

Lemma enc_run_grow evs : forall st work tr st' work', enc_run U P st work tr evs = Some (st', work') -> grow st st'.
Proof.
  induction evs as [|e evs IH]; intros st work tr st' work'; simpl.
  - intro E. inversion E. subst. apply grow_refl.
  - destruct e as [sos|k|s|e].
    + destruct work as [|x work0]; [|discriminate].
      destruct (queue_solvables st sos) as [st1 w] eqn:E1. intro E.
      eapply grow_trans; [eapply grow_queue_solvables; eauto | eapply IH; eauto].
    + destruct (remove_task k work) as [work0|]; [|discriminate].
      destruct (run_one U P (falses_of tr) st k) as [st1 w1] eqn:E1. intro E.
      eapply grow_trans; [eapply run_one_grow; eauto | eapply IH; eauto].
    + intro E. eapply grow_trans; [apply grow_register | eapply IH; eauto].
    + apply IH.
Qed.

(* T2 (completeness): for every completion order, once all pending futures of
   the encoder have completed, everything it was asked to encode -- and
   everything it queued itself -- is completely encoded *)
Theorem enc_complete c evs st :
  enc_run U P (estate0 c) [] [] evs = Some (st, []) ->
  (forall so, In so (e_sols st) -> deps_done st [] so) /\ (forall n, In n (e_pkgs st) -> pkg_done st n).
Proof.
  intro E. assert (W0 : WI (estate0 c) []) by (constructor; simpl; intros x []).
  destruct (wi_enc_run evs _ _ _ _ _ W0 E) as [HS HP]. split.
  - intros so Hso. destruct (HS so Hso) as [[]|Hd]. exact Hd.
  - intros n Hn. destruct (HP n Hn) as [[]|Hd]. exact Hd.
Qed.

(* T7 (eagerness, C11): at EVERY point of every run -- in particular whenever the
   encoder is blocked on the provider -- for every solvable whose dependencies
   have been handled, the candidates future of every package they mention
   exists (pending) or has completed: requests are never serialised behind one
   another *)
Theorem enc_eager c evs st work :
  enc_run U P (estate0 c) [] [] evs = Some (st, work) ->
  forall so, In so (e_sols st) ->
  In (TDeps so) work \/
  forall n, In n (mentioned so) -> In (TCands n) work \/ In n (c_cands (e_cache st)).
Proof.
  intros E so Hso. assert (W0 : WI (estate0 c) []) by (constructor; simpl; intros x []).
  destruct (wi_enc_run evs _ _ _ _ _ W0 E) as [HS HP].
  destruct (HS so Hso) as [Hw|[_ Hd]]; [left; exact Hw|]. right. intros n Hn.
  assert (Hp : In n (e_pkgs st)).
  { unfold EncoderCalls.mentioned, vs_mentioned in Hn. destruct (deps_of U P so) as [rs cs|] eqn:Ed.
    - destruct Hd as (B1 & _). apply B1. unfold EncoderCalls.mentioned, vs_mentioned. rewrite Ed. exact Hn.
    - simpl in Hn. destruct Hn. }
  destruct (HP n Hp) as [Hw|[Hc _]]; [left; exact Hw | right; exact Hc].
Qed.

(* ---------- in terms of the closedness predicate of E2 ---------- *)

Lemma mk_requires_lits so r : cl_lits (mk_requires U so r) = requires_lits U (so_var so) r.
Proof. unfold mk_requires, requires_lits. cbn [cl_lits]. rewrite concat_map_flat_map. reflexivity. Qed.

Lemma In_has_lits db c : In c db -> has_lits db (cl_lits c) = true.
Proof. intro H. unfold has_lits. apply existsb_exists. exists c. split; [exact H | apply lits_eqb_eq; reflexivity]. Qed.

Lemma var_eqb_refl v : var_eqb v v = true.
Proof. apply var_eqb_eq. reflexivity. Qed.

Lemma deps_done_closedb st so :
  deps_done st [] so -> deps_closedb U (e_db st) (so_var so) (deps_of U P so) = true.
Proof.
  intros [A B]. destruct (deps_of U P so) as [rs cs|] eqn:Ed; simpl.
  - destruct B as (_ & B2 & B3). apply andb_true_iff. split; apply forallb_forall.
    + intros r Hr. destruct (B2 r Hr) as [[]|Hd]. unfold has_requires. apply existsb_exists.
      exists (mk_requires U so r). split; [exact Hd|]. rewrite mk_requires_lits. cbn [mk_requires ck].
      rewrite var_eqb_refl, lits_eqb_refl. assert (Hq : req_eqb r r = true) by (apply req_eqb_eq; reflexivity).
      rewrite Hq. reflexivity.
    + intros v Hv. apply forallb_forall. intros f Hf. destruct (B3 v Hv) as [[]|Hd].
      apply (In_has_lits _ (mk_constrains so f v)). apply Hd. exact Hf.
  - destruct so as [s|]; simpl.
    + apply (In_has_lits _ (mk_excluded s)). apply B. reflexivity.
    + (* the root's dependencies are always Known *) discriminate Ed.
Qed.


Lemma pkg_done_closedb st s : pkg_done st (p_sol_name U s) -> pkg_closedb U (e_db st) s = true.
Proof.
  intros (_ & HL & HE). unfold pkg_closedb, Spec.name. apply andb_true_iff. split.
  - destruct (memN s (p_excluded U (p_sol_name U s))) eqn:Em; [|reflexivity].
    apply (In_has_lits _ (mk_excluded s)). apply HE. apply memN_In. exact Em.
  - destruct (p_locked U (p_sol_name U s)) as [l|] eqn:El; [|reflexivity].
    destruct (memN s (p_cands U (p_sol_name U s))) eqn:Ec; [|reflexivity].
    destruct (N.eqb s l) eqn:Es; [reflexivity|]. simpl.
    apply (In_has_lits _ (mk_lock l s)). eapply HL; [reflexivity | apply memN_In; exact Ec | exact Es].
Qed.

(* T2': the database of the model is closed (in the sense E2 needs) for every
   selection whose members -- and the root -- were encoded and whose packages
   were encoded (exempt: solvables requested directly as soft requirements) *)
Theorem enc_closed c evs st S ex :
  enc_run U P (estate0 c) [] [] evs = Some (st, []) ->
  In None (e_sols st) ->
  (forall s, In s S -> In (Some s) (e_sols st)) ->
  (forall s, In s S -> In s ex \/ In (p_sol_name U s) (e_pkgs st)) ->
  one_per_nameb U S = true ->
  closedb U P (e_db st) S ex = true.
Proof.
  intros E Hroot HS HPk H1. destruct (enc_complete c evs st E) as [HD HP].
  unfold closedb. rewrite H1, andb_true_r. apply andb_true_iff. split; [apply andb_true_iff; split|].
  - apply (deps_done_closedb st None). apply HD. exact Hroot.
  - apply forallb_forall. intros s Hs. apply (deps_done_closedb st (Some s)). apply HD. apply HS. exact Hs.
  - apply forallb_forall. intros s Hs. apply orb_true_iff. destruct (HPk s Hs) as [Hex|Hp].
    + left. apply memN_In. exact Hex.
    + right. apply pkg_done_closedb. apply HP. exact Hp.
Qed.

(* T2'' (the model-level form of C01): an assignment that installs the root,
   satisfies every clause of the encoder model (up to the package-level clauses
   of exempt soft solvables) and selects only encoded solvables of encoded
   packages, at most one per package, selects a valid set *)
Theorem enc_valid (HW : WF U) c evs st a S ex :
  enc_run U P (estate0 c) [] [] evs = Some (st, []) ->
  (forall x, In x (e_db st) -> sat_or_exempt U a ex x = true) ->
  (forall s, In s S <-> a (VSol s) = true) -> a VRoot = true ->
  In None (e_sols st) ->
  (forall s, In s S -> In (Some s) (e_sols st)) ->
  (forall s, In s S -> In s ex \/ In (p_sol_name U s) (e_pkgs st)) ->
  one_per_nameb U S = true ->
  valid U P S ex.
Proof.
  intros E Hsat HS Hr H0 H1 H2 H3. apply (E2 U P HW (e_db st) a S ex Hsat HS Hr).
  eapply enc_closed; eauto.
Qed.


(* ---------- exactness of the call history on a fresh solver without hints ---------- *)

Lemma queue_solvables_all sos : forall st st' w, queue_solvables st sos = (st', w) -> forall so, In so sos -> In so (e_sols st').
Proof.
  induction sos as [|x sos IH]; intros st st' w; simpl; [intros _ so []|].
  destruct (queue_solvable st x) as [st1 w1] eqn:E1. destruct (queue_solvables st1 sos) as [st2 w2] eqn:E2.
  intro E. inversion E. subst. intros so [Ex|Hso].
  - subst so. apply (g_sols _ _ (grow_queue_solvables _ _ _ _ E2)). eapply queue_solvable_sols; eauto.
  - eapply IH; eauto.
Qed.

Lemma enc_run_requested evs : forall st work tr st' work', enc_run U P st work tr evs = Some (st', work') ->
  forall so, In so (requested evs) -> In so (e_sols st').
Proof.
  induction evs as [|e evs IH]; intros st work tr st' work'; simpl.
  - intro E. intros so [].
  - destruct e as [sos|k|s|e].
    + destruct work as [|x work0]; [|discriminate].
      destruct (queue_solvables st sos) as [st1 w] eqn:E1. intro E. intros so Hso.
      apply in_app_or in Hso. destruct Hso as [Hso|Hso]; [|eapply IH; eauto].
      apply (g_sols _ _ (enc_run_grow _ _ _ _ _ _ E)). eapply queue_solvables_all; eauto.
    + destruct (remove_task k work) as [work0|]; [|discriminate].
      destruct (run_one U P (falses_of tr) st k) as [st1 w1] eqn:E1. apply IH.
    + apply IH.
    + apply IH.
Qed.

Lemma in_k_deps s H : In s (flat_map k_deps H) -> In (CDeps s) H.
Proof. intro Hs. apply in_flat_map in Hs. destruct Hs as [k [Hk Hs]]. destruct k; simpl in Hs; try destruct Hs as [Hs|[]]; try destruct Hs. subst. exact Hk. Qed.
Lemma in_k_cands n H : In n (flat_map k_cands H) -> In (CCands n) H.
Proof. intro Hs. apply in_flat_map in Hs. destruct Hs as [k [Hk Hs]]. destruct k; simpl in Hs; try destruct Hs as [Hs|[]]; try destruct Hs. subst. exact Hk. Qed.

(* every solvable the solver asked for has its dependencies fetched -- now or in
   an earlier solve on the same solver *)
Theorem enc_fetched H0 c0 evs st :
  CInv U c0 H0 -> enc_run U P (estate0 c0) [] [] evs = Some (st, []) ->
  forall s, In (Some s) (requested evs) -> In (CDeps s) (H0 ++ e_calls st).
Proof.
  intros HI E s Hs. pose proof (enc_run_requested _ _ _ _ _ _ E) as Q.
  destruct (enc_complete c0 evs st E) as [HD _]. destruct (HD _ (Q _ Hs)) as [A _].
  destruct (enc_once U P H0 c0 evs st [] HI E) as (_ & _ & _ & _ & _ & HC).
  apply in_k_deps. rewrite (ci_deps U _ _ HC). apply -> in_rev. apply A. reflexivity.
Qed.

(* the root is queued only through an encode request *)
Lemma queue_solvable_none st so st' w : queue_solvable st so = (st', w) -> In None (e_sols st') -> In None (e_sols st) \/ so = None.
Proof.
  unfold queue_solvable. destruct (mem_so so (e_sols st)); intro E; inversion E; subst; [auto|].
  simpl. intros [D|D]; auto.
Qed.

Lemma reveal_none falses cands : forall st st' w, reveal U falses st cands = (st', w) -> In None (e_sols st') -> In None (e_sols st).
Proof.
  induction cands as [|x xs IH]; intros st st' w; simpl.
  - intro E. inversion E. subst. auto.
  - destruct (if available U (e_cache st) x && negb (memN x falses) then queue_solvable st (Some x) else (st, []))
      as [st1 w1] eqn:E1.
    destruct (reveal U falses (register U st1 x) xs) as [st3 w3] eqn:E3. intro E. inversion E. subst. intro Hn.
    pose proof (IH _ _ _ E3 Hn) as H1. rewrite register_sols in H1.
    destruct (available U (e_cache st) x && negb (memN x falses)); [|inversion E1; subst; exact H1].
    destruct (queue_solvable_none _ _ _ _ E1 H1) as [H|D]; [exact H | discriminate D].
Qed.

Lemma run_one_none falses st t st' w : run_one U P falses st t = (st', w) -> In None (e_sols st') -> In None (e_sols st).
Proof.
  destruct t as [so|n|so r|so v]; cbn [run_one].
  - set (st1 := match so with None => st | Some s => let '(c, k) := req_deps (e_cache st) s in add_calls st c k end).
    assert (S1 : e_sols st1 = e_sols st).
    { unfold st1. destruct so as [s|]; [|reflexivity]. destruct (req_deps (e_cache st) s). reflexivity. }
    destruct (deps_of U P so) as [rs cs|].
    + destruct (queue_packages st1 _) as [st2 w2] eqn:E2. intro E. inversion E. subst.
      destruct (queue_packages_sols _ _ _ _ E2) as [S2 _]. rewrite S2, S1. auto.
    + intro E. inversion E. subst. simpl. rewrite S1. auto.
  - destruct (req_cands_of (e_cache st) n). intro E. inversion E. subst. auto.
  - destruct (req_sorted_all U (e_cache st) (req_vss U r)) as [c k].
    destruct (reveal U falses (add_calls st c k) (req_cands U r)) as [st2 w2] eqn:E2.
    intro E. inversion E. subst. simpl. intro Hn. apply (reveal_none _ _ _ _ _ E2 Hn).
  - destruct (req_nonmatching U (e_cache st) v). intro E. inversion E. subst. auto.
Qed.

Lemma queue_solvables_none sos : forall st st' w, queue_solvables st sos = (st', w) ->
  In None (e_sols st') -> In None (e_sols st) \/ In None sos.
Proof.
  induction sos as [|so sos IH]; intros st st' w; simpl.
  - intro E. inversion E. subst. auto.
  - destruct (queue_solvable st so) as [st1 w1] eqn:E1. destruct (queue_solvables st1 sos) as [st2 w2] eqn:E2.
    intro E. inversion E. subst. intro Hn. destruct (IH _ _ _ E2 Hn) as [H|H]; [|auto].
    destruct (queue_solvable_none _ _ _ _ E1 H) as [H'|H']; [auto | subst so; auto].
Qed.

Lemma enc_run_none evs : forall st work tr st' work', enc_run U P st work tr evs = Some (st', work') ->
  In None (e_sols st') -> In None (e_sols st) \/ In None (requested evs).
Proof.
  induction evs as [|e evs IH]; intros st work tr st' work'; simpl.
  - intro E. inversion E. subst. auto.
  - destruct e as [sos|k|x|e].
    + destruct work as [|y work0]; [|discriminate].
      destruct (queue_solvables st sos) as [st1 w] eqn:E1. intros E Hn.
      destruct (IH _ _ _ _ _ E Hn) as [H|H]; [|right; apply in_or_app; right; exact H].
      destruct (queue_solvables_none _ _ _ _ E1 H) as [H3|H3]; [left; exact H3 | right; apply in_or_app; left; exact H3].
    + destruct (remove_task k work) as [work0|]; [|discriminate].
      destruct (run_one U P (falses_of tr) st k) as [st1 w1] eqn:E1. intros E Hn.
      destruct (IH _ _ _ _ _ E Hn) as [H|H]; [left; eapply run_one_none; eauto | right; exact H].
    + intros E Hn. destruct (IH _ _ _ _ _ E Hn) as [H|H]; [left; rewrite register_sols in H; exact H | right; exact H].
    + apply IH.
Qed.

(* T6 (exactness): on a fresh solver, with a provider that gives no hints,
   get_dependencies is called for exactly the solvables the solver asked to
   encode, and get_candidates for exactly the names mentioned by them or by the
   root.  (On a conflict-free problem the solver never retracts an assignment,
   so these are the members of the solution: C09's second sentence.) *)
Theorem enc_exact evs st :
  nohints U -> enc_run U P (estate0 cache0) [] [] evs = Some (st, []) ->
  (forall s, In (CDeps s) (e_calls st) <-> In (Some s) (requested evs)) /\
  (forall n, In (CCands n) (e_calls st) <-> exists so, In so (requested evs) /\ In n (mentioned so)).
Proof.
  intros NH E. split.
  - intro s. split.
    + eapply (enc_lazy U P NH cache0 []); [apply cinv0 | exact E].
    + intro Hs. apply (enc_fetched [] cache0 evs st (cinv0 U) E s Hs).
  - intro n. split.
    + intro Hn. pose proof (enc_causal U P cache0 evs st [] E) as HJ. rewrite Forall_forall in HJ.
      destruct (HJ _ Hn) as [so [Hso Hm]]. exists so. split; [|exact Hm].
      assert (L0 : LI cache0 [] (estate0 cache0)) by (constructor; simpl; [intros x [] | intros x Hx; left; exact Hx]).
      assert (J0 : JI U P (estate0 cache0)) by constructor.
      pose proof (li_enc_run U P NH cache0 evs [] _ _ _ _ _ L0 J0 (Forall_nil _) E) as [A _]. simpl in A.
      destruct so as [s|].
      * destruct (A s Hso) as [Hr|[]]. exact Hr.
      * destruct (enc_run_none _ _ _ _ _ _ E Hso) as [[]|Hr]. exact Hr.
    + intros [so [Hso Hm]]. pose proof (enc_run_requested _ _ _ _ _ _ E) as Q.
      destruct (enc_complete cache0 evs st E) as [HD HP]. pose proof (HD _ (Q _ Hso)) as [_ B].
      assert (Hp : In n (e_pkgs st)).
      { unfold EncoderCalls.mentioned, vs_mentioned in Hm. destruct (deps_of U P so) as [rs cs|] eqn:Ed.
        - destruct B as (B1 & _). apply B1. unfold EncoderCalls.mentioned, vs_mentioned. rewrite Ed. exact Hm.
        - simpl in Hm. destruct Hm. }
      destruct (HP n Hp) as [Hc _].
      destruct (enc_once U P [] cache0 evs st [] (cinv0 U) E) as (_ & _ & _ & _ & _ & HC).
      apply (in_k_cands n ([] ++ e_calls st)). rewrite (ci_cands U _ _ HC). apply -> in_rev. exact Hc.
Qed.


(* T2c (what the correspondence check evaluates on every run that returned a
   solution): if everything selected was encoded, the model's database is
   closed for the selection *)
Theorem enc_final_closed c evs st S ex :
  enc_run U P (estate0 c) [] [] evs = Some (st, []) ->
  enc_final_ok U st S ex = true -> one_per_nameb U S = true ->
  closedb U P (e_db st) S ex = true.
Proof.
  intros E Hf H1. unfold enc_final_ok in Hf. apply andb_true_iff in Hf. destruct Hf as [Hr Hs].
  rewrite forallb_forall in Hs. apply (enc_closed c evs st S ex E).
  - apply (mem_so_In None). exact Hr.
  - intros s Hin. specialize (Hs s Hin). apply andb_true_iff in Hs. apply (mem_so_In (Some s)). apply Hs.
  - intros s Hin. specialize (Hs s Hin). apply andb_true_iff in Hs. destruct Hs as [_ Hs].
    apply orb_true_iff in Hs. destruct Hs as [Hs|Hs]; [left | right]; apply memN_In; exact Hs.
  - exact H1.
Qed.

End Closed.
