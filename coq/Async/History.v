(* Async/History.v -- provider-call histories: what C09-C13 say about the
   sequence of DependencyProvider calls, as declarative predicates over
   histories, with executable checkers proven equivalent. *)
From Resolvo Require Export Spec.SpecDec.

Inductive hev :=
| HNext (P : problem)                 (* a solve call starts, with this problem *)
| HCands (n : N) | HCandsEnd (n : N)  (* get_candidates(n) starts / completes *)
| HDeps (s : N) | HDepsEnd (s : N)    (* get_dependencies(s) starts / completes *)
| HPoll (fired : bool)                (* should_cancel_with_value polled *)
| HQuiescent.                         (* the solver is blocked on the provider *)

Definition history := list hev.

Section Hist.
Variable U : provider.

Definition root_deps (P : problem) : deps := Known (pr_reqs P) (pr_cons P).

Definition reqs_of (d : deps) : list req := match d with Known rs _ => rs | Unknown => [] end.
Definition cons_of (d : deps) : list N := match d with Known _ cs => cs | Unknown => [] end.
(* every version set a dependency answer mentions *)
Definition vss_of (d : deps) : list N := flat_map (req_vss U) (reqs_of d) ++ cons_of d.
Definition names_of (d : deps) : list N := map (p_vs_name U) (vss_of d).

(* dependency information the solver has obtained by the end of a history *)
Fixpoint obtained (h : history) : list deps :=
  match h with
  | [] => []
  | HNext P :: t => root_deps P :: obtained t
  | HDepsEnd s :: t => p_deps U s :: obtained t
  | _ :: t => obtained t
  end.

(* soft requirements of the solve in progress at the end of a history *)
Fixpoint cur_soft (acc : list N) (h : history) : list N :=
  match h with
  | [] => acc
  | HNext P :: t => cur_soft (pr_soft P) t
  | _ :: t => cur_soft acc t
  end.

(* ---------- C09: causality ---------- *)

Definition deps_justified (h1 : history) (s : N) : Prop :=
  In s (cur_soft [] h1) \/
  exists d r, In d (obtained h1) /\ In r (reqs_of d) /\ cand_of U r s.

Definition cands_justified (h1 : history) (n : N) : Prop :=
  exists d, In d (obtained h1) /\ In n (names_of d).

Definition Causal (h : history) : Prop :=
  (forall h1 s h2, h = h1 ++ HDeps s :: h2 -> deps_justified h1 s) /\
  (forall h1 n h2, h = h1 ++ HCands n :: h2 -> cands_justified h1 n).

Definition deps_justifiedb (soft : list N) (K : list deps) (s : N) : bool :=
  memN s soft || existsb (fun d => existsb (fun r => cand_ofb U r s) (reqs_of d)) K.
Definition cands_justifiedb (K : list deps) (n : N) : bool :=
  existsb (fun d => memN n (names_of d)) K.

Fixpoint causalb (soft : list N) (K : list deps) (h : history) : bool :=
  match h with
  | [] => true
  | HNext P :: t => causalb (pr_soft P) (root_deps P :: K) t
  | HDepsEnd s :: t => causalb soft (p_deps U s :: K) t
  | HDeps s :: t => deps_justifiedb soft K s && causalb soft K t
  | HCands n :: t => cands_justifiedb K n && causalb soft K t
  | _ :: t => causalb soft K t
  end.

(* ---------- C09 / C10 / C13: at most once ---------- *)

(* requests in flight at the end of a history: started in the current solve and not completed *)
Fixpoint inflight_c (acc : list N) (h : history) : list N :=
  match h with
  | [] => acc
  | HNext _ :: t => inflight_c [] t
  | HCands n :: t => inflight_c (n :: acc) t
  | HCandsEnd n :: t => inflight_c (filter (fun x => negb (N.eqb x n)) acc) t
  | _ :: t => inflight_c acc t
  end.
Fixpoint inflight_d (acc : list N) (h : history) : list N :=
  match h with
  | [] => acc
  | HNext _ :: t => inflight_d [] t
  | HDeps n :: t => inflight_d (n :: acc) t
  | HDepsEnd n :: t => inflight_d (filter (fun x => negb (N.eqb x n)) acc) t
  | _ :: t => inflight_d acc t
  end.

(* a request is never issued for something already obtained, nor while a request
   for the same thing is in flight; a request abandoned by a cancelled solve may
   be issued again *)
Definition Once (h : history) : Prop :=
  (forall h1 n h2, h = h1 ++ HCands n :: h2 -> ~ In (HCandsEnd n) h1 /\ ~ In n (inflight_c [] h1)) /\
  (forall h1 s h2, h = h1 ++ HDeps s :: h2 -> ~ In (HDepsEnd s) h1 /\ ~ In s (inflight_d [] h1)).

Fixpoint onceb (dc dd fc fd : list N) (h : history) : bool :=
  match h with
  | [] => true
  | HNext _ :: t => onceb dc dd [] [] t
  | HCands n :: t => negb (memN n dc) && negb (memN n fc) && onceb dc dd (n :: fc) fd t
  | HCandsEnd n :: t => onceb (n :: dc) dd (filter (fun x => negb (N.eqb x n)) fc) fd t
  | HDeps s :: t => negb (memN s dd) && negb (memN s fd) && onceb dc dd fc (s :: fd) t
  | HDepsEnd s :: t => onceb dc (s :: dd) fc (filter (fun x => negb (N.eqb x s)) fd) t
  | _ :: t => onceb dc dd fc fd t
  end.

(* ---------- C09: exactly the needed metadata on conflict-free problems ---------- *)

Definition deps_called (h : history) : list N :=
  flat_map (fun e => match e with HDeps s => [s] | _ => [] end) h.
Definition cands_called (h : history) : list N :=
  flat_map (fun e => match e with HCands n => [n] | _ => [] end) h.

Definition Exact (P : problem) (G : list N) (h : history) : Prop :=
  same_set (deps_called h) G /\
  same_set (cands_called h) (flat_map names_of (root_deps P :: map (p_deps U) G)).

Definition subsetb (a b : list N) : bool := forallb (fun x => memN x b) a.
Definition exactb (P : problem) (G : list N) (h : history) : bool :=
  subsetb (deps_called h) G && subsetb G (deps_called h) &&
  subsetb (cands_called h) (flat_map names_of (root_deps P :: map (p_deps U) G)) &&
  subsetb (flat_map names_of (root_deps P :: map (p_deps U) G)) (cands_called h).

(* a LATER solve on the same solver (earlier history hprev): what it requests is needed by the
   greedy selection of its own problem, and everything that selection needs was requested now or before *)
Definition ExactNext (P : problem) (G : list N) (hprev hcur : history) : Prop :=
  incl (deps_called hcur) G /\
  incl (cands_called hcur) (flat_map names_of (root_deps P :: map (p_deps U) G)) /\
  incl G (deps_called (hprev ++ hcur)) /\
  incl (flat_map names_of (root_deps P :: map (p_deps U) G)) (cands_called (hprev ++ hcur)).
Definition exact_nextb (P : problem) (G : list N) (hprev hcur : history) : bool :=
  subsetb (deps_called hcur) G &&
  subsetb (cands_called hcur) (flat_map names_of (root_deps P :: map (p_deps U) G)) &&
  subsetb G (deps_called (hprev ++ hcur)) &&
  subsetb (flat_map names_of (root_deps P :: map (p_deps U) G)) (cands_called (hprev ++ hcur)).

(* ---------- C11: eager issue at quiescence ---------- *)

(* whenever the solver is blocked, every candidates request implied by the
   dependency information it has received has been issued *)
Definition Eager (h : history) : Prop :=
  forall h1 h2, h = h1 ++ HQuiescent :: h2 ->
  forall d n, In d (obtained h1) -> In n (names_of d) -> In (HCands n) h1.

Fixpoint eagerb (K : list deps) (started : list N) (h : history) : bool :=
  match h with
  | [] => true
  | HNext P :: t => eagerb (root_deps P :: K) started t
  | HDepsEnd s :: t => eagerb (p_deps U s :: K) started t
  | HCands n :: t => eagerb K (n :: started) t
  | HQuiescent :: t => forallb (fun d => subsetb (names_of d) started) K && eagerb K started t
  | _ :: t => eagerb K started t
  end.

(* ---------- C12: cancellation ---------- *)

(* after a poll that returned a value no further request starts in that solve *)
Definition CancelQuiet (h : history) : Prop :=
  forall h1 h2, h = h1 ++ HPoll true :: h2 ->
  forall h3 e h4, h2 = h3 ++ e :: h4 -> (forall P, ~ In (HNext P) h3) ->
  (forall n, e <> HCands n) /\ (forall s, e <> HDeps s).

Fixpoint cancel_quietb (cancelled : bool) (h : history) : bool :=
  match h with
  | [] => true
  | HNext _ :: t => cancel_quietb false t
  | HPoll true :: t => cancel_quietb true t
  | HCands _ :: t => negb cancelled && cancel_quietb cancelled t
  | HDeps _ :: t => negb cancelled && cancel_quietb cancelled t
  | _ :: t => cancel_quietb cancelled t
  end.

End Hist.
