(* Async/EncoderWatch.v -- what the encoder does with a clause besides storing it
   (src/solver/clause.rs constructors + the call sites in src/solver/encoding.rs):
   which two literals it puts on the watch lists, whether it reports the clause
   as conflicting with the current decisions, and whether it registers it as a
   negative assertion (clauses nothing can be watched in).

   watch_created_ok   no clause goes onto the watch lists with BOTH watched literals
                      false unless it is reported as conflicting -- the invariant
                      that was broken for Lock clauses before fix 9d91e23 (F15)
   unit_is_asserted   every clause without watches that the encoder creates is
                      registered as an assertion
   for every provider, problem, trail and completion order. *)
From Resolvo Require Export Async.EncoderSafe.

Definition lit_false_in (tr : list lit) (l : lit) : bool :=
  match pval tr (fst l) with Some b => Bool.eqb b (negb (snd l)) | None => false end.

Definition is_true_in (tr : list lit) (v : var) : bool :=
  match pval tr v with Some true => true | _ => false end.

Record created := mkW {
  w_watch : option (lit * lit);
  w_conflict : bool;          (* pushed to conflicting_clauses *)
  w_assert : option var       (* pushed to negative_assertions for this variable *)
}.

(* the clause constructors, as a function of the clause and the trail at creation *)
Definition create (tr : list lit) (c : cl) : created :=
  match ck c with
  | KRequires p r cands =>
      match concat cands with
      | [] => mkW None false (Some p)
      | first :: _ =>
          match find (fun x => negb (lit_false_in tr (pos x))) (concat cands) with
          | Some x => mkW (Some ((p, false), pos x)) false None
          | None => mkW (Some ((p, false), pos first)) true None
          end
      end
  | KConstrains p f v =>
      let conflict := is_true_in tr (VSol f) in
      if var_eqb p (VSol f) then mkW None conflict (Some p)
      else mkW (Some ((p, false), nlit f)) conflict None
  | KLock l o =>
      let t := is_true_in tr (VSol o) in
      mkW (Some ((VRoot, false), nlit o)) t (if t then Some (VSol o) else None)
  | KForbid n =>
      match cl_lits c with
      | [a; b] => mkW (Some (a, b)) false None
      | _ => mkW None false None
      end
  | KExcluded x _ => mkW None (is_true_in tr (VSol x)) (Some (VSol x))
  | KRoot => mkW None false None
  | KLearnt _ => mkW None false None
  end.

(* side condition for at-most-one clauses, evaluated per clause on every run: a candidate is not
   installed yet when it is registered, and a helper variable allocated for the clause is unassigned *)
Definition forbid_side (tr : list lit) (c : cl) : bool :=
  match ck c, cl_lits c with
  | KForbid _, [a; b] => negb (lit_false_in tr a) || negb (lit_false_in tr b)
  | _, _ => true
  end.

Lemma find_some_nonfalse tr l x : find (fun y => negb (lit_false_in tr (pos y))) l = Some x -> lit_false_in tr (pos x) = false.
Proof. intro H. apply find_some in H. destruct H as [_ H]. apply negb_true_iff in H. exact H. Qed.

Lemma nlit_false_iff tr s : lit_false_in tr (nlit s) = is_true_in tr (VSol s).
Proof.
  unfold lit_false_in, is_true_in, nlit. simpl. destruct (pval tr (VSol s)) as [[|]|]; reflexivity.
Qed.

(* no clause is put on the watch lists with both watched literals false, unless it is reported *)
Theorem watch_created_ok tr c w1 w2 :
  w_watch (create tr c) = Some (w1, w2) -> w_conflict (create tr c) = false -> forbid_side tr c = true ->
  lit_false_in tr w1 = false \/ lit_false_in tr w2 = false.
Proof.
  unfold create, forbid_side. destruct (ck c) as [|p r cands|n|p f v|l o|x rs|why]; simpl; try discriminate.
  - destruct (concat cands) as [|first rest] eqn:Ec; [discriminate|].
    destruct (find (fun x => negb (lit_false_in tr (pos x))) (first :: rest)) as [x|] eqn:Ef; simpl.
    + intros H _ _. inversion H. subst. right. eapply find_some_nonfalse; eauto.
    + intros _ H. discriminate H.
  - destruct (cl_lits c) as [|a [|b [|z t]]]; simpl; try discriminate.
    intros H _ Hs. inversion H. subst. apply orb_true_iff in Hs.
    destruct Hs as [Hs|Hs]; apply negb_true_iff in Hs; auto.
  - destruct (var_eqb p (VSol f)); simpl; [discriminate|].
    intros H Hc. inversion H. subst. right. rewrite nlit_false_iff. exact Hc.
  - intros H Hc. inversion H. subst. right. rewrite nlit_false_iff. exact Hc.
Qed.

(* clauses of the encoder without watches are assertions *)
Theorem unit_is_asserted tr c :
  w_watch (create tr c) = None ->
  match ck c with
  | KRequires _ _ _ | KConstrains _ _ _ | KLock _ _ | KExcluded _ _ => w_assert (create tr c) <> None
  | _ => True
  end.
Proof.
  unfold create. destruct (ck c) as [|p r cands|n|p f v|l o|x rs|why]; simpl; auto.
  - destruct (concat cands) as [|first rest]; [intros _ H; discriminate H|].
    destruct (find _ _); simpl; discriminate.
  - destruct (var_eqb p (VSol f)); simpl; [intros _ H; discriminate H | discriminate].
  - discriminate.
  - intros _ H. discriminate H.
Qed.

(* F15: a lock clause whose other candidate is already installed is reported AND stays asserted *)
Theorem late_lock_is_handled tr l o lits :
  is_true_in tr (VSol o) = true ->
  let w := create tr (mkCl (KLock l o) lits) in w_conflict w = true /\ w_assert w = Some (VSol o).
Proof. intro H. unfold create. simpl. rewrite H. split; reflexivity. Qed.

(* ---------- the clauses of a run, each with the trail at its creation ---------- *)

Section Run.
Variable U : provider.
Variable P : problem.

Definition new_clauses (old new : estate) : list cl := skipn (length (e_db old)) (e_db new).

Fixpoint enc_run_w (st : estate) (work : list task) (tr : list lit) (evs : list sev) (acc : list (cl * created * bool))
  : option (list (cl * created * bool)) :=
  match evs with
  | [] => Some acc
  | SEncode sos :: t =>
    match work with
    | [] => let '(st1, w) := queue_solvables st sos in enc_run_w st1 w tr t acc
    | _ :: _ => None
    end
  | SDone k :: t =>
    match remove_task k work with
    | Some work' =>
      let '(st1, w1) := run_one U P (falses_of tr) st k in
      enc_run_w st1 (work' ++ w1) tr t (acc ++ map (fun c => (c, create tr c, forbid_side tr c)) (new_clauses st st1))
    | None => None
    end
  | SSoft s :: t =>
    let st1 := register U st s in
    enc_run_w st1 work tr t (acc ++ map (fun c => (c, create tr c, forbid_side tr c)) (new_clauses st st1))
  | STrail e :: t => enc_run_w st work (trail_step tr e) t acc
  end.

(* indices (in the model's database, i.e. without the root clause and learnt clauses) of the clauses
   reported as conflicting / registered as assertions, and whether every at-most-one clause met its
   side condition *)
Definition conflict_flags (l : list (cl * created * bool)) : list bool := map (fun x => w_conflict (snd (fst x))) l.
Definition assert_flags (l : list (cl * created * bool)) : list bool :=
  map (fun x => match w_assert (snd (fst x)) with Some _ => true | None => false end) l.
Definition sides_ok (l : list (cl * created * bool)) : bool := forallb snd l.

Lemma enc_run_w_elems evs : forall st work tr acc l,
  (forall x, In x acc -> exists tr0, snd (fst x) = create tr0 (fst (fst x)) /\ snd x = forbid_side tr0 (fst (fst x))) ->
  enc_run_w st work tr evs acc = Some l ->
  forall x, In x l -> exists tr0, snd (fst x) = create tr0 (fst (fst x)) /\ snd x = forbid_side tr0 (fst (fst x)).
Proof.
  induction evs as [|e t IH]; intros st work tr acc l Hacc; simpl.
  - intro H. inversion H. subst. exact Hacc.
  - destruct e as [sos|k|s|e].
    + destruct work as [|x0 w0]; [|discriminate]. destruct (queue_solvables st sos) as [st1 w]. apply IH. exact Hacc.
    + destruct (remove_task k work) as [work'|]; [|discriminate].
      destruct (run_one U P (falses_of tr) st k) as [st1 w1]. apply IH.
      intros x Hx. apply in_app_or in Hx. destruct Hx as [Hx|Hx]; [apply Hacc; exact Hx|].
      apply in_map_iff in Hx. destruct Hx as [c [Ex _]]. subst x. exists tr. split; reflexivity.
    + apply IH. intros x Hx. apply in_app_or in Hx. destruct Hx as [Hx|Hx]; [apply Hacc; exact Hx|].
      apply in_map_iff in Hx. destruct Hx as [c [Ex _]]. subst x. exists tr. split; reflexivity.
    + apply IH. exact Hacc.
Qed.

(* for every run: every clause the encoder put on the watch lists without reporting it had a
   watched literal that was not false at that moment *)
Theorem run_watch_ok st evs l :
  enc_run_w st [] [] evs [] = Some l -> sides_ok l = true ->
  forall c w s, In (c, w, s) l -> w_conflict w = false ->
  forall w1 w2, w_watch w = Some (w1, w2) ->
  exists tr0, lit_false_in tr0 w1 = false \/ lit_false_in tr0 w2 = false.
Proof.
  intros H Hs c w s Hin Hc w1 w2 Hw.
  destruct (enc_run_w_elems evs st [] [] [] l (fun x (F : In x []) => match F with end) H (c, w, s) Hin) as [tr0 [E1 E2]].
  simpl in E1, E2. exists tr0. subst w. apply (watch_created_ok tr0 c w1 w2 Hw Hc).
  unfold sides_ok in Hs. rewrite forallb_forall in Hs. specialize (Hs _ Hin). simpl in Hs. rewrite <- E2. exact Hs.
Qed.

End Run.

(* ---------- correspondence: reported conflicts and registered assertions of a run ---------- *)

Fixpoint idx_true (i : N) (l : list bool) : list N :=
  match l with
  | [] => []
  | true :: t => i :: idx_true (N.succ i) t
  | false :: t => idx_true (N.succ i) t
  end.

(* [conf] / [asrt]: positions (among the encoder's clauses, in allocation order) of the clauses the
   implementation reported as conflicting / registered as negative assertions *)
Definition check_watch (U : provider) (P : problem) (evs : list sev) (conf asrt : list N) : bool * bool * bool :=
  match enc_run_w U P (estate0 cache0) [] [] evs [] with
  | Some l => (nl_eqb (idx_true 0 (conflict_flags l)) conf, nl_eqb (idx_true 0 (assert_flags l)) asrt, sides_ok l)
  | None => (false, false, false)
  end.
