(* Async/CacheProto.v -- the in-flight protocol of SolverCache::get_or_cache_candidates
   (src/solver/cache.rs) as a transition system over ALL schedules, cancellations
   and solver reuse.

   Tasks are the concurrent requests of one solve for the candidates of a
   package.  A task that finds nothing cached and nothing in flight becomes the
   OWNER: it records the in-flight marker, calls the provider and, when the
   provider answers, stores the result, removes the marker and notifies the
   waiters.  A task that finds a marker WAITS for its owner.  Cancellation drops
   every task of the solve at once; the next solve starts new tasks on the same
   cache.

   [drop_fixed]  : the drop guard removes the markers owned by dropped tasks
                   (the code after the repair of finding F5)
   [drop_pre_fix]: markers survive the drop (the code before the repair) *)
From Resolvo Require Export Async.History.

Inductive tstate := TStart | TWaiting | TFetching | TDone.

Record task := mkTask { t_name : N; t_st : tstate }.

Record pstate := mkP {
  cached : list N;        (* package_name_to_candidates *)
  inflight : list N;      (* package_name_to_candidates_in_flight *)
  tasks : list task;      (* futures of the solve in progress *)
  hist : history          (* provider calls so far, oldest first *)
}.

Definition p0 : pstate := mkP [] [] [] [].

Inductive pevent :=
| PSpawn (n : N)          (* the encoder queues a request for package n *)
| PRun (i : nat)          (* the executor polls task i *)
| PAnswer (n : N)         (* the provider's get_candidates(n) future completes and its owner is polled *)
| PDrop                   (* the solve is cancelled / returns: all its futures are dropped *)
| PNext (P : problem).    (* a new solve starts on the same solver *)

Definition tstate_eqb (a b : tstate) : bool :=
  match a, b with
  | TStart, TStart | TWaiting, TWaiting | TFetching, TFetching | TDone, TDone => true
  | _, _ => false
  end.

Definition removeN (n : N) (l : list N) : list N := filter (fun x => negb (N.eqb x n)) l.

Fixpoint set_nth (i : nat) (t : task) (l : list task) : list task :=
  match l, i with
  | [], _ => []
  | _ :: r, O => t :: r
  | x :: r, S j => x :: set_nth j t r
  end.

(* one poll of a task *)
Definition run_task (s : pstate) (i : nat) : option pstate :=
  match nth_error (tasks s) i with
  | None => None
  | Some t =>
    let n := t_name t in
    match t_st t with
    | TStart =>
      if memN n (cached s) then Some (mkP (cached s) (inflight s) (set_nth i (mkTask n TDone) (tasks s)) (hist s))
      else if memN n (inflight s) then Some (mkP (cached s) (inflight s) (set_nth i (mkTask n TWaiting) (tasks s)) (hist s))
      else Some (mkP (cached s) (n :: inflight s) (set_nth i (mkTask n TFetching) (tasks s)) (hist s ++ [HCands n]))
    | TWaiting =>
      (* woken by the owner's notification: the result is there *)
      if memN n (cached s) then Some (mkP (cached s) (inflight s) (set_nth i (mkTask n TDone) (tasks s)) (hist s))
      else None   (* not runnable: nobody woke it *)
    | TFetching => None   (* progresses only through PAnswer *)
    | TDone => None
    end
  end.

Definition owner_of (n : N) (t : task) : bool := N.eqb (t_name t) n && tstate_eqb (t_st t) TFetching.

Definition answer (s : pstate) (n : N) : option pstate :=
  if existsb (owner_of n) (tasks s) then
    Some (mkP (n :: cached s) (removeN n (inflight s))
              (map (fun t => if owner_of n t then mkTask n TDone else t) (tasks s))
              (hist s ++ [HCandsEnd n]))
  else None.

Definition owned (ts : list task) : list N :=
  flat_map (fun t => match t_st t with TFetching => [t_name t] | _ => [] end) ts.

Definition drop_fixed (s : pstate) : pstate :=
  mkP (cached s) (filter (fun n => negb (memN n (owned (tasks s)))) (inflight s)) [] (hist s).

Definition drop_pre_fix (s : pstate) : pstate :=
  mkP (cached s) (inflight s) [] (hist s).

Section Proto.
Variable drop : pstate -> pstate.

Definition pstep (s : pstate) (e : pevent) : option pstate :=
  match e with
  | PSpawn n => Some (mkP (cached s) (inflight s) (tasks s ++ [mkTask n TStart]) (hist s))
  | PRun i => run_task s i
  | PAnswer n => answer s n
  | PDrop => Some (drop s)
  | PNext P => match tasks s with
               | [] => Some (mkP (cached s) (inflight s) [] (hist s ++ [HNext P]))
               | _ => None    (* a solve starts only after the previous one returned / was dropped *)
               end
  end.

Fixpoint prun (s : pstate) (es : list pevent) : option pstate :=
  match es with
  | [] => Some s
  | e :: t => match pstep s e with Some s' => prun s' t | None => None end
  end.

End Proto.

(* ---------- invariant of the repaired protocol ---------- *)

(* every in-flight marker has exactly one live owner, nothing is both cached and in flight,
   and the markers are the requests started in this solve and not yet answered *)
Record PInv (s : pstate) : Prop := mkPInv {
  inv_owned : forall n, In n (inflight s) <-> In n (owned (tasks s));
  inv_nodup : NoDup (owned (tasks s));
  inv_disj : forall n, In n (inflight s) -> ~ In n (cached s);
  inv_waiting : forall t, In t (tasks s) -> t_st t = TWaiting -> In (t_name t) (inflight s) \/ In (t_name t) (cached s)
}.

Lemma owned_app a b : owned (a ++ b) = owned a ++ owned b.
Proof. unfold owned. apply flat_map_app. Qed.

Lemma set_nth_spec i t l x :
  nth_error l i = Some x -> exists a b, l = a ++ x :: b /\ set_nth i t l = a ++ t :: b /\ length a = i.
Proof.
  revert i. induction l as [|y l IH]; intros [|i] H; simpl in *; try discriminate.
  - inversion H. subst. exists [], l. auto.
  - destruct (IH i H) as [a [b [E1 [E2 E3]]]]. exists (y :: a), b. simpl. rewrite E1 at 1. rewrite E2. auto.
Qed.

Lemma removeN_In n l x : In x (removeN n l) <-> In x l /\ x <> n.
Proof.
  unfold removeN. rewrite filter_In, negb_true_iff, N.eqb_neq. tauto.
Qed.

Lemma NoDup_app_insert {A} (a b : list A) x :
  NoDup (a ++ b) -> ~ In x (a ++ b) -> NoDup (a ++ x :: b).
Proof.
  induction a as [|y a IH]; simpl; intros Hnd Hx.
  - constructor; assumption.
  - inversion Hnd as [|? ? Hy Hr]. subst. constructor.
    + intro Hin. apply in_app_or in Hin. destruct Hin as [Hin|[E|Hin]].
      * apply Hy. apply in_or_app. left. exact Hin.
      * subst. apply Hx. left. reflexivity.
      * apply Hy. apply in_or_app. right. exact Hin.
    + apply IH; [exact Hr|]. intro Hin. apply Hx. right. exact Hin.
Qed.

Lemma pinv_p0 : PInv p0.
Proof.
  constructor; simpl.
  - intro n. tauto.
  - constructor.
  - intros n [].
  - intros t [].
Qed.

Lemma owned_In ts n : In n (owned ts) <-> exists t, In t ts /\ t_name t = n /\ t_st t = TFetching.
Proof.
  unfold owned. rewrite in_flat_map. split.
  - intros [t [Ht Hin]]. destruct (t_st t) eqn:E.
    + destruct Hin.
    + destruct Hin.
    + destruct Hin as [E'|[]]. exists t. auto.
    + destruct Hin.
  - intros [t [Ht [En Es]]]. exists t. split; [exact Ht|]. rewrite Es. left. exact En.
Qed.

Theorem pstep_inv s e s' : PInv s -> pstep drop_fixed s e = Some s' -> PInv s'.
Proof.
  intros [Ho Hnd Hdj Hw] H. destruct e as [n|i|n| |P]; simpl in H.
  - (* spawn *)
    inversion H. subst. clear H. constructor; simpl.
    + intro x. rewrite owned_app. simpl. rewrite app_nil_r. apply Ho.
    + rewrite owned_app. simpl. rewrite app_nil_r. exact Hnd.
    + exact Hdj.
    + intros t Hin Hst. apply in_app_or in Hin. destruct Hin as [Hin|[E|[]]]; [apply Hw; assumption|].
      subst t. discriminate Hst.
  - (* run *)
    unfold run_task in H. destruct (nth_error (tasks s) i) as [t|] eqn:En; [|discriminate].
    destruct (set_nth_spec i (mkTask (t_name t) TDone) _ _ En) as [a [b [E1 [E2 _]]]].
    destruct (set_nth_spec i (mkTask (t_name t) TWaiting) _ _ En) as [a2 [b2 [E1w [E2w _]]]].
    destruct (set_nth_spec i (mkTask (t_name t) TFetching) _ _ En) as [a3 [b3 [E1f [E2f _]]]].
    destruct (t_st t) eqn:Est; try discriminate.
    + (* TStart *)
      assert (Hown_t : owned (a ++ t :: b) = owned a ++ owned b)
        by (rewrite owned_app; simpl; rewrite Est; reflexivity).
      destruct (memN (t_name t) (cached s)) eqn:Ec.
      * inversion H. subst. clear H. rewrite E2. constructor; simpl.
        -- intro x. rewrite owned_app. simpl. rewrite Ho, E1, Hown_t. tauto.
        -- rewrite owned_app. simpl. rewrite E1, Hown_t in Hnd. exact Hnd.
        -- exact Hdj.
        -- intros t' Hin Hst. apply Hw; [|exact Hst]. rewrite E1. apply in_app_or in Hin.
           apply in_or_app. destruct Hin as [Hin|[E|Hin]]; [left; exact Hin | subst t'; discriminate Hst | right; right; exact Hin].
      * destruct (memN (t_name t) (inflight s)) eqn:Ei.
        -- inversion H. subst. clear H. rewrite E2w. rewrite E1w in *.
           assert (Hown_w : owned (a2 ++ t :: b2) = owned a2 ++ owned b2)
             by (rewrite owned_app; simpl; rewrite Est; reflexivity).
           constructor; simpl.
           ++ intro x. rewrite owned_app. simpl. rewrite Ho, Hown_w. tauto.
           ++ rewrite owned_app. simpl. rewrite Hown_w in Hnd. exact Hnd.
           ++ exact Hdj.
           ++ intros t' Hin Hst. apply in_app_or in Hin. destruct Hin as [Hin|[E|Hin]].
              ** apply Hw; [apply in_or_app; left; exact Hin | exact Hst].
              ** subst t'. simpl. left. apply memN_In. exact Ei.
              ** apply Hw; [apply in_or_app; right; right; exact Hin | exact Hst].
        -- inversion H. subst. clear H. rewrite E2f. rewrite E1f in *.
           assert (Hown_f : owned (a3 ++ t :: b3) = owned a3 ++ owned b3)
             by (rewrite owned_app; simpl; rewrite Est; reflexivity).
           assert (Hnew : ~ In (t_name t) (owned a3 ++ owned b3)).
           { rewrite <- Hown_f. rewrite <- Ho. apply memN_false. exact Ei. }
           constructor; simpl.
           ++ intro x. rewrite owned_app. simpl. rewrite Ho, Hown_f, !in_app_iff. simpl. tauto.
           ++ rewrite owned_app. simpl. rewrite Hown_f in Hnd.
              apply NoDup_app_insert; assumption.
           ++ intros x [E|Hx]; [subst x; apply memN_false; exact Ec | apply Hdj; exact Hx].
           ++ intros t' Hin Hst. apply in_app_or in Hin. destruct Hin as [Hin|[E|Hin]].
              ** assert (Hin' : In t' (a3 ++ t :: b3)) by (apply in_or_app; left; exact Hin).
                 destruct (Hw t' Hin' Hst) as [H1|H1]; [left; right; exact H1 | right; exact H1].
              ** subst t'. discriminate Hst.
              ** assert (Hin' : In t' (a3 ++ t :: b3)) by (apply in_or_app; right; right; exact Hin).
                 destruct (Hw t' Hin' Hst) as [H1|H1]; [left; right; exact H1 | right; exact H1].
    + (* TWaiting *)
      destruct (memN (t_name t) (cached s)) eqn:Ec; [|discriminate].
      inversion H. subst. clear H. rewrite E2. rewrite E1 in *.
      assert (Hown_t : owned (a ++ t :: b) = owned a ++ owned b)
        by (rewrite owned_app; simpl; rewrite Est; reflexivity).
      constructor; simpl.
      * intro x. rewrite owned_app. simpl. rewrite Ho, Hown_t. tauto.
      * rewrite owned_app. simpl. rewrite Hown_t in Hnd. exact Hnd.
      * exact Hdj.
      * intros t' Hin Hst. apply Hw; [|exact Hst]. apply in_app_or in Hin. apply in_or_app.
        destruct Hin as [Hin|[E|Hin]]; [left; exact Hin | subst t'; discriminate Hst | right; right; exact Hin].
  - (* answer *)
    unfold answer in H. destruct (existsb (owner_of n) (tasks s)) eqn:Ex; [|discriminate].
    inversion H. subst. clear H.
    assert (Hown' : forall x, In x (owned (map (fun t => if owner_of n t then mkTask n TDone else t) (tasks s))) <->
                              In x (owned (tasks s)) /\ x <> n).
    { intro x. rewrite !owned_In. split.
      - intros [t' [Hin [En Es]]]. apply in_map_iff in Hin. destruct Hin as [t [Et Hin]].
        destruct (owner_of n t) eqn:Eo; [subst t'; discriminate Es|]. subst t'.
        split; [exists t; auto|]. intro E. rewrite E in En. unfold owner_of in Eo. rewrite En, N.eqb_refl, Es in Eo. discriminate.
      - intros [[t [Hin [En Es]]] Hne]. exists t. split; [|auto]. apply in_map_iff. exists t. split; [|exact Hin].
        unfold owner_of. rewrite En. apply N.eqb_neq in Hne. rewrite Hne. reflexivity. }
    constructor; simpl.
    + intro x. rewrite removeN_In, Hown', Ho. tauto.
    + clear -Hnd. induction (tasks s) as [|t ts IH]; simpl; [constructor|].
      unfold owned in *. simpl in Hnd.
      destruct (owner_of n t) eqn:Eo; simpl.
      * apply IH. destruct (t_st t); try exact Hnd. inversion Hnd. assumption.
      * destruct (t_st t) eqn:Est; try (apply IH; exact Hnd). simpl in *. inversion Hnd as [|? ? Hx Hr]. subst.
        constructor; [|apply IH; exact Hr]. intro Hin. apply Hx.
        fold (owned ts). fold (owned (map (fun t0 => if owner_of n t0 then mkTask n TDone else t0) ts)) in Hin.
        apply owned_In in Hin. destruct Hin as [t' [Hin' [En' Es']]]. apply in_map_iff in Hin'.
        destruct Hin' as [t0 [Et0 Hin0]]. destruct (owner_of n t0); [subst t'; discriminate Es'|]. subst t'.
        apply owned_In. exists t0. auto.
    + intros x Hx [E|Hc].
      * subst x. apply removeN_In in Hx. destruct Hx as [_ Hx]. apply Hx. reflexivity.
      * apply removeN_In in Hx. destruct Hx as [Hx _]. apply (Hdj x Hx Hc).
    + intros t' Hin Hst. apply in_map_iff in Hin. destruct Hin as [t [Et Hin]].
      destruct (owner_of n t); [subst t'; discriminate Hst|]. subst t'.
      destruct (Hw t Hin Hst) as [H1|H1]; [|right; right; exact H1].
      destruct (N.eq_dec (t_name t) n) as [E|E]; [right; left; symmetry; exact E|].
      left. apply removeN_In. auto.
  - (* drop *)
    inversion H. subst. clear H. unfold drop_fixed. constructor; simpl.
    + intro x. rewrite filter_In, negb_true_iff. split; [|intros []].
      intros [Hx Hm]. apply Ho in Hx. apply memN_false in Hm. contradiction.
    + constructor.
    + intros x Hx. apply filter_In in Hx. apply Hdj. apply Hx.
    + intros t [].
  - (* next solve *)
    destruct (tasks s) eqn:Et; [|discriminate]. inversion H. subst. clear H.
    constructor; simpl; rewrite ?Et in *; auto.
Qed.

Theorem prun_inv es : forall s s', PInv s -> prun drop_fixed s es = Some s' -> PInv s'.
Proof.
  induction es as [|e es IH]; intros s s' Hi H; simpl in H.
  - inversion H. subst. exact Hi.
  - destruct (pstep drop_fixed s e) as [s1|] eqn:E; [|discriminate].
    eapply IH; [eapply pstep_inv; eauto | exact H].
Qed.

(* ---------- consequences ---------- *)

(* no orphan waiter: whenever a task waits, either its result is already there
   (it is runnable) or a live owner is fetching it (a provider call is pending) *)
Theorem no_orphan_waiter es s :
  prun drop_fixed p0 es = Some s ->
  forall t, In t (tasks s) -> t_st t = TWaiting ->
  In (t_name t) (cached s) \/ exists o, In o (tasks s) /\ t_name o = t_name t /\ t_st o = TFetching.
Proof.
  intros H t Hin Hst. pose proof (prun_inv es p0 s pinv_p0 H) as [Ho _ _ Hw].
  destruct (Hw t Hin Hst) as [H1|H1]; [|left; exact H1].
  right. apply Ho in H1. apply owned_In in H1. destruct H1 as [o [Ho1 [Ho2 Ho3]]]. exists o. auto.
Qed.

(* progress: in every reachable state with an unfinished task, some event is enabled *)
Definition enabled (s : pstate) : Prop :=
  (exists i s', run_task s i = Some s') \/ (exists n s', answer s n = Some s').

Theorem no_deadlock es s :
  prun drop_fixed p0 es = Some s ->
  (exists t, In t (tasks s) /\ t_st t <> TDone) -> enabled s.
Proof.
  intros H [t [Hin Hnd]]. pose proof (no_orphan_waiter es s H) as Hnow.
  destruct (In_nth_error _ _ Hin) as [i Hi].
  destruct (t_st t) eqn:Est.
  - left. exists i. unfold run_task. rewrite Hi, Est.
    destruct (memN (t_name t) (cached s)); [eexists; reflexivity|].
    destruct (memN (t_name t) (inflight s)); eexists; reflexivity.
  - destruct (Hnow t Hin Est) as [Hc|[o [Ho1 [Ho2 Ho3]]]].
    + left. exists i. unfold run_task. rewrite Hi, Est. apply memN_In in Hc. rewrite Hc. eexists. reflexivity.
    + right. exists (t_name t). unfold answer.
      assert (Hex : existsb (owner_of (t_name t)) (tasks s) = true).
      { apply existsb_exists. exists o. split; [exact Ho1|]. unfold owner_of. rewrite Ho2, N.eqb_refl, Ho3. reflexivity. }
      rewrite Hex. eexists. reflexivity.
  - right. exists (t_name t). unfold answer.
    assert (Hex : existsb (owner_of (t_name t)) (tasks s) = true).
    { apply existsb_exists. exists t. split; [exact Hin|]. unfold owner_of. rewrite N.eqb_refl, Est. reflexivity. }
    rewrite Hex. eexists. reflexivity.
  - contradiction.
Qed.

(* before the repair: cancel a solve while a request is pending, solve again -> the
   new request waits on a marker nobody owns and nothing is enabled (finding F5) *)
Example pre_fix_deadlock :
  exists s, prun drop_pre_fix p0 [PNext (mkProblem [] [] []); PSpawn 7; PRun 0; PDrop;
                                  PNext (mkProblem [] [] []); PSpawn 7; PRun 0] = Some s /\
            tasks s = [mkTask 7 TWaiting] /\
            run_task s 0 = None /\ answer s 7 = None.
Proof. eexists. vm_compute. repeat split. Qed.

(* the same schedule after the repair: the second solve issues its own request *)
Example fixed_no_deadlock :
  exists s, prun drop_fixed p0 [PNext (mkProblem [] [] []); PSpawn 7; PRun 0; PDrop;
                                PNext (mkProblem [] [] []); PSpawn 7; PRun 0] = Some s /\
            tasks s = [mkTask 7 TFetching] /\ inflight s = [7].
Proof. eexists. vm_compute. repeat split. Qed.
