(* Async/EncoderCalls.v -- theorems about the provider calls of the encoder model
   (sync mode), for every provider, problem, initial cache contents (earlier
   solves on the same solver), trail history and sequence of encoder invocations:

   enc_once      no request is repeated over the lifetime of the cache
   enc_causal    every call is justified by a solvable whose clauses were
                 requested: dependencies only for queued solvables, candidates
                 only for names mentioned by their dependencies, filter/sort
                 only for version sets they mention
   enc_lazy      without hints, a solvable is queued only when the solver asked
                 for it (it is assigned true) -- lower-ranked candidates are
                 never fetched *)
From Resolvo Require Export Async.EncoderProofs.

Section Calls.
Variable U : provider.
Variable P : problem.

(* ---------- projections of a call history ---------- *)
Definition k_cands (k : pcall) : list N := match k with CCands n => [n] | _ => [] end.
Definition k_deps (k : pcall) : list N := match k with CDeps s => [s] | _ => [] end.
Definition k_match (k : pcall) : list N := match k with CFilter v false => [v] | _ => [] end.
Definition k_nonmatch (k : pcall) : list N := match k with CFilter v true => [v] | _ => [] end.
Definition k_sort (k : pcall) : list (list N) := match k with CSort l => [l] | _ => [] end.

(* the cache is exactly the set of answered requests, in request order, and no
   request was made twice *)
Record CInv (c : ecache) (H : list pcall) : Prop := mkCInv {
  ci_cands : flat_map k_cands H = rev (c_cands c);
  ci_deps : flat_map k_deps H = rev (c_deps c);
  ci_match : flat_map k_match H = rev (c_match c);
  ci_nonmatch : flat_map k_nonmatch H = rev (c_nonmatch c);
  ci_sort : flat_map k_sort H = map (matching U) (rev (c_sorted c));
  nd_cands : NoDup (c_cands c);
  nd_deps : NoDup (c_deps c);
  nd_match : NoDup (c_match c);
  nd_nonmatch : NoDup (c_nonmatch c);
  nd_sorted : NoDup (c_sorted c)
}.

Lemma cinv0 : CInv cache0 [].
Proof. constructor; simpl; try reflexivity; constructor. Qed.

Lemma cinv_nil c H : CInv c H -> CInv c (H ++ []).
Proof. rewrite app_nil_r. auto. Qed.

Lemma cinv_cands c H n c' k : CInv c H -> req_cands_of c n = (c', k) -> CInv c' (H ++ k).
Proof.
  intros [A1 A2 A3 A4 A5 B1 B2 B3 B4 B5]. unfold req_cands_of. destruct (memN n (c_cands c)) eqn:E; intro Eq; inversion Eq; subst.
  - apply cinv_nil. constructor; assumption.
  - apply memN_false in E. constructor; cbn [c_cands c_deps c_match c_nonmatch c_sorted];
      rewrite ?flat_map_app; cbn [flat_map k_cands k_deps k_match k_nonmatch k_sort app]; rewrite ?app_nil_r; try assumption.
    + rewrite A1. reflexivity.
    + constructor; assumption.
Qed.

Lemma cinv_deps c H s c' k : CInv c H -> req_deps c s = (c', k) -> CInv c' (H ++ k).
Proof.
  intros [A1 A2 A3 A4 A5 B1 B2 B3 B4 B5]. unfold req_deps. destruct (memN s (c_deps c)) eqn:E; intro Eq; inversion Eq; subst.
  - apply cinv_nil. constructor; assumption.
  - apply memN_false in E. constructor; cbn [c_cands c_deps c_match c_nonmatch c_sorted];
      rewrite ?flat_map_app; cbn [flat_map k_cands k_deps k_match k_nonmatch k_sort app]; rewrite ?app_nil_r; try assumption.
    + rewrite A2. reflexivity.
    + constructor; assumption.
Qed.

Lemma req_cands_of_other c n c' k : req_cands_of c n = (c', k) ->
  c_deps c' = c_deps c /\ c_match c' = c_match c /\ c_nonmatch c' = c_nonmatch c /\ c_sorted c' = c_sorted c.
Proof. unfold req_cands_of. destruct (memN n (c_cands c)); intro E; inversion E; subst; simpl; auto. Qed.

Lemma cinv_matching c H v c' k : CInv c H -> req_matching U c v = (c', k) -> CInv c' (H ++ k).
Proof.
  intro HI. unfold req_matching. destruct (memN v (c_match c)) eqn:E.
  - intro Eq. inversion Eq. subst. apply cinv_nil. exact HI.
  - destruct (req_cands_of c (p_vs_name U v)) as [c1 k1] eqn:E1. intro Eq. inversion Eq. subst.
    destruct (req_cands_of_other _ _ _ _ E1) as (_ & Em & _ & _).
    pose proof (cinv_cands c H _ c1 k1 HI E1) as [A1 A2 A3 A4 A5 B1 B2 B3 B4 B5].
    apply memN_false in E. rewrite <- Em in E. rewrite app_assoc.
    constructor; cbn [c_cands c_deps c_match c_nonmatch c_sorted];
      rewrite ?flat_map_app; cbn [flat_map k_cands k_deps k_match k_nonmatch k_sort app]; rewrite ?app_nil_r;
      rewrite <- ?flat_map_app; try assumption.
    + rewrite A3. reflexivity.
    + constructor; assumption.
Qed.

Lemma cinv_nonmatching c H v c' k : CInv c H -> req_nonmatching U c v = (c', k) -> CInv c' (H ++ k).
Proof.
  intro HI. unfold req_nonmatching. destruct (memN v (c_nonmatch c)) eqn:E.
  - intro Eq. inversion Eq. subst. apply cinv_nil. exact HI.
  - destruct (req_cands_of c (p_vs_name U v)) as [c1 k1] eqn:E1. intro Eq. inversion Eq. subst.
    destruct (req_cands_of_other _ _ _ _ E1) as (_ & _ & Em & _).
    pose proof (cinv_cands c H _ c1 k1 HI E1) as [A1 A2 A3 A4 A5 B1 B2 B3 B4 B5].
    apply memN_false in E. rewrite <- Em in E. rewrite app_assoc.
    constructor; cbn [c_cands c_deps c_match c_nonmatch c_sorted];
      rewrite ?flat_map_app; cbn [flat_map k_cands k_deps k_match k_nonmatch k_sort app]; rewrite ?app_nil_r;
      rewrite <- ?flat_map_app; try assumption.
    + rewrite A4. reflexivity.
    + constructor; assumption.
Qed.

Lemma req_matching_sorted c v c' k : req_matching U c v = (c', k) -> c_sorted c' = c_sorted c.
Proof.
  unfold req_matching. destruct (memN v (c_match c)); [intro E; inversion E; reflexivity|].
  destruct (req_cands_of c (p_vs_name U v)) as [c1 k1] eqn:E1. intro E. inversion E. subst. simpl.
  apply (req_cands_of_other _ _ _ _ E1).
Qed.

Lemma cinv_sorted c H v c' k : CInv c H -> req_sorted U c v = (c', k) -> CInv c' (H ++ k).
Proof.
  intro HI. unfold req_sorted. destruct (memN v (c_sorted c)) eqn:E.
  - intro Eq. inversion Eq. subst. apply cinv_nil. exact HI.
  - destruct (req_matching U c v) as [c1 k1] eqn:E1.
    destruct (req_cands_of c1 (p_vs_name U v)) as [c2 k2] eqn:E2. intro Eq. inversion Eq. subst.
    pose proof (cinv_matching c H v c1 k1 HI E1) as H1.
    pose proof (cinv_cands c1 _ _ c2 k2 H1 E2) as [A1 A2 A3 A4 A5 B1 B2 B3 B4 B5].
    apply memN_false in E. rewrite <- (req_matching_sorted _ _ _ _ E1) in E.
    destruct (req_cands_of_other _ _ _ _ E2) as (_ & _ & _ & Es). rewrite <- Es in E.
    rewrite !app_assoc.
    constructor; cbn [c_cands c_deps c_match c_nonmatch c_sorted];
      rewrite ?flat_map_app; cbn [flat_map k_cands k_deps k_match k_nonmatch k_sort app]; rewrite ?app_nil_r;
      rewrite <- ?flat_map_app; try assumption.
    + rewrite A5. cbn [rev]. rewrite map_app. reflexivity.
    + constructor; assumption.
Qed.

Lemma cinv_sorted_all vs : forall c H c' k, CInv c H -> req_sorted_all U c vs = (c', k) -> CInv c' (H ++ k).
Proof.
  induction vs as [|v vs IH]; intros c H c' k HI; simpl.
  - intro E. inversion E. subst. apply cinv_nil. exact HI.
  - destruct (req_sorted U c v) as [c1 k1] eqn:E1. destruct (req_sorted_all U c1 vs) as [c2 k2] eqn:E2.
    intro E. inversion E. subst. rewrite app_assoc. eapply IH; [|exact E2]. eapply cinv_sorted; eauto.
Qed.


(* ---------- lifted to the encoder state; H0 = calls of earlier solves ---------- *)

Definition SC (H0 : list pcall) (st : estate) : Prop := CInv (e_cache st) (H0 ++ e_calls st).

Definition same_cc (st st' : estate) : Prop := e_cache st' = e_cache st /\ e_calls st' = e_calls st.

Lemma same_cc_refl st : same_cc st st.
Proof. split; reflexivity. Qed.
Lemma same_cc_trans a b c : same_cc a b -> same_cc b c -> same_cc a c.
Proof. intros [A B] [C D]. split; congruence. Qed.

Lemma register_cc st x : same_cc st (register U st x).
Proof. unfold register. destruct (Amo.add _ _). split; reflexivity. Qed.

Lemma queue_solvable_cc st so st' w : queue_solvable st so = (st', w) -> same_cc st st'.
Proof. unfold queue_solvable. destruct (mem_so so (e_sols st)); intro E; inversion E; split; reflexivity. Qed.

Lemma queue_package_cc st n st' w : queue_package st n = (st', w) -> same_cc st st'.
Proof. unfold queue_package. destruct (memN n (e_pkgs st)); intro E; inversion E; split; reflexivity. Qed.

Lemma queue_packages_cc ns : forall st st' w, queue_packages st ns = (st', w) -> same_cc st st'.
Proof.
  induction ns as [|n ns IH]; intros st st' w; simpl.
  - intro E. inversion E. apply same_cc_refl.
  - destruct (queue_package st n) as [st1 w1] eqn:E1. destruct (queue_packages st1 ns) as [st2 w2] eqn:E2.
    intro E. inversion E. subst. eapply same_cc_trans; [eapply queue_package_cc; eauto | eapply IH; eauto].
Qed.

Lemma queue_solvables_cc sos : forall st st' w, queue_solvables st sos = (st', w) -> same_cc st st'.
Proof.
  induction sos as [|n ns IH]; intros st st' w; simpl.
  - intro E. inversion E. apply same_cc_refl.
  - destruct (queue_solvable st n) as [st1 w1] eqn:E1. destruct (queue_solvables st1 ns) as [st2 w2] eqn:E2.
    intro E. inversion E. subst. eapply same_cc_trans; [eapply queue_solvable_cc; eauto | eapply IH; eauto].
Qed.

Lemma reveal_cc falses cands : forall st st' w, reveal U falses st cands = (st', w) -> same_cc st st'.
Proof.
  induction cands as [|x xs IH]; intros st st' w; simpl.
  - intro E. inversion E. apply same_cc_refl.
  - destruct (if available U (e_cache st) x && negb (memN x falses) then queue_solvable st (Some x) else (st, []))
      as [st1 w1] eqn:E1.
    destruct (reveal U falses (register U st1 x) xs) as [st3 w3] eqn:E3. intro E. inversion E. subst.
    assert (H1 : same_cc st st1).
    { destruct (available U (e_cache st) x && negb (memN x falses)); [eapply queue_solvable_cc; eauto|].
      inversion E1. apply same_cc_refl. }
    eapply same_cc_trans; [exact H1|]. eapply same_cc_trans; [apply register_cc | eapply IH; eauto].
Qed.

Lemma sc_same H0 st st' : SC H0 st -> same_cc st st' -> SC H0 st'.
Proof. unfold SC. intros H [A B]. rewrite A, B. exact H. Qed.

Lemma sc_add_calls H0 st c k : CInv c ((H0 ++ e_calls st) ++ k) -> SC H0 (add_calls st c k).
Proof. unfold SC. simpl. rewrite app_assoc. auto. Qed.

Lemma sc_add_clauses H0 st cs : SC H0 st -> SC H0 (add_clauses st cs).
Proof. unfold SC. simpl. auto. Qed.

Lemma sc_run_one H0 falses st t st' w : SC H0 st -> run_one U P falses st t = (st', w) -> SC H0 st'.
Proof.
  intro H. destruct t as [so|n|so r|so v]; cbn [run_one].
  - set (st1 := match so with None => st | Some s => let '(c, k) := req_deps (e_cache st) s in add_calls st c k end).
    assert (H1 : SC H0 st1).
    { unfold st1. destruct so as [s|]; [|exact H]. destruct (req_deps (e_cache st) s) as [c k] eqn:E.
      apply sc_add_calls. eapply cinv_deps; eauto. }
    destruct (deps_of U P so) as [rs cs|].
    + destruct (queue_packages st1 _) as [st2 w2] eqn:E2. intro E. inversion E. subst.
      eapply sc_same; [exact H1 | eapply queue_packages_cc; eauto].
    + intro E. inversion E. subst. apply sc_add_clauses. exact H1.
  - destruct (req_cands_of (e_cache st) n) as [c k] eqn:E1. intro E. inversion E. subst.
    apply sc_add_clauses. apply sc_add_calls. eapply cinv_cands; eauto.
  - destruct (req_sorted_all U (e_cache st) (req_vss U r)) as [c k] eqn:E1.
    destruct (reveal U falses (add_calls st c k) (req_cands U r)) as [st2 w2] eqn:E2.
    intro E. inversion E. subst. apply sc_add_clauses.
    eapply sc_same; [|eapply reveal_cc; eauto]. apply sc_add_calls. eapply cinv_sorted_all; eauto.
  - destruct (req_nonmatching U (e_cache st) v) as [c k] eqn:E1. intro E. inversion E. subst.
    apply sc_add_clauses. apply sc_add_calls. eapply cinv_nonmatching; eauto.
Qed.

Lemma sc_enc_run H0 evs : forall st work tr st' work',
  SC H0 st -> enc_run U P st work tr evs = Some (st', work') -> SC H0 st'.
Proof.
  induction evs as [|e evs IH]; intros st work tr st' work' H; simpl.
  - intro E. inversion E. subst. exact H.
  - destruct e as [sos|k|s|e].
    + destruct work as [|x work0]; [|discriminate].
      destruct (queue_solvables st sos) as [st1 w] eqn:E1. apply IH.
      eapply sc_same; [exact H | eapply queue_solvables_cc; eauto].
    + destruct (remove_task k work) as [work0|]; [|discriminate].
      destruct (run_one U P (falses_of tr) st k) as [st1 w1] eqn:E1. apply IH. eapply sc_run_one; eauto.
    + apply IH. eapply sc_same; [exact H | apply register_cc].
    + apply IH. exact H.
Qed.

(* T3 (at most once): over the whole lifetime of a solver's cache -- H0 are the
   calls of earlier solves that produced the cache c0 -- no get_candidates,
   get_dependencies or filter_candidates request is ever repeated, and
   sort_candidates is called once per version set *)
Theorem enc_once H0 c0 evs st work :
  CInv c0 H0 -> enc_run U P (estate0 c0) [] [] evs = Some (st, work) ->
  let H := H0 ++ e_calls st in
  NoDup (flat_map k_cands H) /\ NoDup (flat_map k_deps H) /\
  NoDup (flat_map k_match H) /\ NoDup (flat_map k_nonmatch H) /\
  (exists vs, NoDup vs /\ flat_map k_sort H = map (matching U) vs) /\
  CInv (e_cache st) H.
Proof.
  intros HI E. assert (HS : SC H0 (estate0 c0)) by (unfold SC; simpl; rewrite app_nil_r; exact HI).
  pose proof (sc_enc_run H0 evs _ _ _ _ _ HS E) as HC. unfold SC in HC.
  destruct HC as [A1 A2 A3 A4 A5 B1 B2 B3 B4 B5]. cbv zeta. rewrite A1, A2, A3, A4, A5.
  repeat split; try (apply NoDup_rev; assumption); try assumption.
  exists (rev (c_sorted (e_cache st))). split; [apply NoDup_rev; assumption | reflexivity].
Qed.


(* ---------- causality ---------- *)

Definition vs_mentioned (so : option N) : list N :=
  flat_map (req_vss U) (reqs_of (deps_of U P so)) ++ cons_of (deps_of U P so).
Definition mentioned (so : option N) : list N := map (p_vs_name U) (vs_mentioned so).

(* a call is justified by a queued solvable (or the root) *)
Definition call_just (sols : list (option N)) (k : pcall) : Prop :=
  match k with
  | CDeps s => In (Some s) sols
  | CCands n => exists so, In so sols /\ In n (mentioned so)
  | CFilter v _ => exists so, In so sols /\ In v (vs_mentioned so)
  | CSort l => exists so v, In so sols /\ In v (vs_mentioned so) /\ l = matching U v
  end.

Definition task_just (sols : list (option N)) (t : task) : Prop :=
  match t with
  | TDeps so => In so sols
  | TCands n => exists so, In so sols /\ In n (mentioned so)
  | TReq so r => In so sols /\ In r (reqs_of (deps_of U P so))
  | TCon so v => In so sols /\ In v (cons_of (deps_of U P so))
  end.

Lemma call_just_mono a b k : incl a b -> call_just a k -> call_just b k.
Proof.
  intros Hi. destruct k as [n|s|v i|l]; simpl.
  - intros [so [H1 H2]]. exists so. auto.
  - auto.
  - intros [so [H1 H2]]. exists so. auto.
  - intros [so [v [H1 H2]]]. exists so, v. auto.
Qed.

Lemma task_just_mono a b t : incl a b -> task_just a t -> task_just b t.
Proof.
  intros Hi. destruct t as [so|n|so r|so v]; simpl.
  - auto.
  - intros [so [H1 H2]]. exists so. auto.
  - intros [H1 H2]. auto.
  - intros [H1 H2]. auto.
Qed.

Lemma mem_so_In so l : mem_so so l = true <-> In so l.
Proof.
  unfold mem_so. rewrite existsb_exists. split.
  - intros [x [Hx E]]. apply optN_eqb_eq in E. subst. exact Hx.
  - intro H. exists so. split; [exact H | apply optN_eqb_eq; reflexivity].
Qed.

Definition JI (st : estate) : Prop := Forall (call_just (e_sols st)) (e_calls st).

(* the set of queued solvables only grows *)
Definition sols_le (st st' : estate) : Prop := incl (e_sols st) (e_sols st').

Lemma sols_le_refl st : sols_le st st.
Proof. apply incl_refl. Qed.
Lemma sols_le_trans a b c : sols_le a b -> sols_le b c -> sols_le a c.
Proof. apply incl_tran. Qed.

Lemma register_sols st x : e_sols (register U st x) = e_sols st.
Proof. unfold register. destruct (Amo.add _ _). reflexivity. Qed.

Lemma queue_solvable_sols st so st' w : queue_solvable st so = (st', w) ->
  sols_le st st' /\ Forall (task_just (e_sols st')) w /\ In so (e_sols st').
Proof.
  unfold queue_solvable. destruct (mem_so so (e_sols st)) eqn:Em; intro E; inversion E; subst.
  - split; [apply sols_le_refl|]. split; [constructor | apply mem_so_In; exact Em].
  - split; [intros x Hx; simpl; right; exact Hx|]. split; [|simpl; left; reflexivity].
    constructor; [simpl; left; reflexivity | constructor].
Qed.

Lemma queue_package_sols st n st' w : queue_package st n = (st', w) -> e_sols st' = e_sols st /\ (forall t, In t w -> t = TCands n).
Proof.
  unfold queue_package. destruct (memN n (e_pkgs st)); intro E; inversion E; subst; simpl; split; try reflexivity.
  - intros t [].
  - intros t [H|[]]. auto.
Qed.

Lemma queue_packages_sols ns : forall st st' w, queue_packages st ns = (st', w) ->
  e_sols st' = e_sols st /\ (forall t, In t w -> exists n, In n ns /\ t = TCands n).
Proof.
  induction ns as [|n ns IH]; intros st st' w; simpl.
  - intro E. inversion E. split; [reflexivity | intros t []].
  - destruct (queue_package st n) as [st1 w1] eqn:E1. destruct (queue_packages st1 ns) as [st2 w2] eqn:E2.
    intro E. inversion E. subst. destruct (queue_package_sols _ _ _ _ E1) as [A1 B1].
    destruct (IH _ _ _ E2) as [A2 B2]. split; [congruence|].
    intros t Ht. apply in_app_or in Ht. destruct Ht as [Ht|Ht].
    + exists n. split; [left; reflexivity | apply B1; exact Ht].
    + destruct (B2 t Ht) as [m [Hm Et]]. exists m. split; [right; exact Hm | exact Et].
Qed.

Lemma queue_solvables_sols sos : forall st st' w, queue_solvables st sos = (st', w) ->
  sols_le st st' /\ Forall (task_just (e_sols st')) w.
Proof.
  induction sos as [|so sos IH]; intros st st' w; simpl.
  - intro E. inversion E. subst. split; [apply sols_le_refl | constructor].
  - destruct (queue_solvable st so) as [st1 w1] eqn:E1. destruct (queue_solvables st1 sos) as [st2 w2] eqn:E2.
    intro E. inversion E. subst. destruct (queue_solvable_sols _ _ _ _ E1) as (A1 & B1 & _).
    destruct (IH _ _ _ E2) as [A2 B2]. split; [eapply sols_le_trans; eauto|].
    apply Forall_app. split; [|exact B2].
    eapply Forall_impl; [|exact B1]. intros t. apply task_just_mono. exact A2.
Qed.

Lemma reveal_sols falses cands : forall st st' w, reveal U falses st cands = (st', w) ->
  sols_le st st' /\ Forall (task_just (e_sols st')) w.
Proof.
  induction cands as [|x xs IH]; intros st st' w; simpl.
  - intro E. inversion E. subst. split; [apply sols_le_refl | constructor].
  - destruct (if available U (e_cache st) x && negb (memN x falses) then queue_solvable st (Some x) else (st, []))
      as [st1 w1] eqn:E1.
    destruct (reveal U falses (register U st1 x) xs) as [st3 w3] eqn:E3. intro E. inversion E. subst.
    assert (H1 : sols_le st st1 /\ Forall (task_just (e_sols st1)) w1).
    { destruct (available U (e_cache st) x && negb (memN x falses)).
      - destruct (queue_solvable_sols _ _ _ _ E1) as (A & B & _). split; assumption.
      - inversion E1. subst. split; [apply sols_le_refl | constructor]. }
    destruct H1 as [A1 B1]. destruct (IH _ _ _ E3) as [A3 B3].
    unfold sols_le in A3. rewrite register_sols in A3.
    split; [eapply sols_le_trans; eauto|]. apply Forall_app. split; [|exact B3].
    eapply Forall_impl; [|exact B1]. intros t. apply task_just_mono. exact A3.
Qed.

Lemma req_cands_of_calls c n c' k : req_cands_of c n = (c', k) -> forall x, In x k -> x = CCands n.
Proof.
  unfold req_cands_of. destruct (memN n (c_cands c)); intro E; inversion E; subst; intros x Hx.
  - destruct Hx.
  - destruct Hx as [Hx|[]]. auto.
Qed.

Lemma req_matching_calls c v c' k : req_matching U c v = (c', k) ->
  forall x, In x k -> x = CCands (p_vs_name U v) \/ x = CFilter v false.
Proof.
  unfold req_matching. destruct (memN v (c_match c)); [intro E; inversion E; subst; intros x []|].
  destruct (req_cands_of c (p_vs_name U v)) as [c1 k1] eqn:E1. intro E. inversion E. subst.
  intros x Hx. apply in_app_or in Hx. destruct Hx as [Hx|[Hx|[]]]; [left; eapply req_cands_of_calls; eauto | right; auto].
Qed.

Lemma req_nonmatching_calls c v c' k : req_nonmatching U c v = (c', k) ->
  forall x, In x k -> x = CCands (p_vs_name U v) \/ x = CFilter v true.
Proof.
  unfold req_nonmatching. destruct (memN v (c_nonmatch c)); [intro E; inversion E; subst; intros x []|].
  destruct (req_cands_of c (p_vs_name U v)) as [c1 k1] eqn:E1. intro E. inversion E. subst.
  intros x Hx. apply in_app_or in Hx. destruct Hx as [Hx|[Hx|[]]]; [left; eapply req_cands_of_calls; eauto | right; auto].
Qed.

Lemma req_sorted_calls c v c' k : req_sorted U c v = (c', k) ->
  forall x, In x k -> x = CCands (p_vs_name U v) \/ x = CFilter v false \/ x = CSort (matching U v).
Proof.
  unfold req_sorted. destruct (memN v (c_sorted c)); [intro E; inversion E; subst; intros x []|].
  destruct (req_matching U c v) as [c1 k1] eqn:E1.
  destruct (req_cands_of c1 (p_vs_name U v)) as [c2 k2] eqn:E2. intro E. inversion E. subst.
  intros x Hx. apply in_app_or in Hx. destruct Hx as [Hx|Hx].
  - destruct (req_matching_calls _ _ _ _ E1 x Hx); auto.
  - apply in_app_or in Hx. destruct Hx as [Hx|[Hx|[]]]; [left; eapply req_cands_of_calls; eauto | right; right; auto].
Qed.

Lemma req_sorted_all_calls vs : forall c c' k, req_sorted_all U c vs = (c', k) ->
  forall x, In x k -> exists v, In v vs /\ (x = CCands (p_vs_name U v) \/ x = CFilter v false \/ x = CSort (matching U v)).
Proof.
  induction vs as [|v vs IH]; intros c c' k; simpl.
  - intro E. inversion E. subst. intros x [].
  - destruct (req_sorted U c v) as [c1 k1] eqn:E1. destruct (req_sorted_all U c1 vs) as [c2 k2] eqn:E2.
    intro E. inversion E. subst. intros x Hx. apply in_app_or in Hx. destruct Hx as [Hx|Hx].
    + exists v. split; [left; reflexivity | eapply req_sorted_calls; eauto].
    + destruct (IH _ _ _ E2 x Hx) as [v' [Hv Hc]]. exists v'. split; [right; exact Hv | exact Hc].
Qed.

Lemma ji_add_calls st c k : JI st -> Forall (call_just (e_sols st)) k -> JI (add_calls st c k).
Proof. unfold JI. simpl. intros H Hk. apply Forall_app. split; assumption. Qed.

Lemma ji_le st st' : JI st -> sols_le st st' -> e_calls st' = e_calls st -> JI st'.
Proof. unfold JI. intros H Hl E. rewrite E. eapply Forall_impl; [|exact H]. intro k. apply call_just_mono. exact Hl. Qed.

Lemma vs_req_mentioned so r v : In r (reqs_of (deps_of U P so)) -> In v (req_vss U r) -> In v (vs_mentioned so).
Proof. intros Hr Hv. unfold vs_mentioned. apply in_or_app. left. apply in_flat_map. exists r. auto. Qed.

Lemma vs_con_mentioned so v : In v (cons_of (deps_of U P so)) -> In v (vs_mentioned so).
Proof. intro H. unfold vs_mentioned. apply in_or_app. right. exact H. Qed.

Lemma ji_run_one falses st t st' w :
  JI st -> task_just (e_sols st) t -> run_one U P falses st t = (st', w) ->
  JI st' /\ sols_le st st' /\ Forall (task_just (e_sols st')) w.
Proof.
  intros H Ht. destruct t as [so|n|so r|so v]; cbn [run_one].
  - set (st1 := match so with None => st | Some s => let '(c, k) := req_deps (e_cache st) s in add_calls st c k end).
    assert (H1 : JI st1 /\ e_sols st1 = e_sols st).
    { unfold st1. destruct so as [s|]; [|split; [exact H | reflexivity]].
      destruct (req_deps (e_cache st) s) as [c k] eqn:E. split; [|reflexivity]. apply ji_add_calls; [exact H|].
      unfold req_deps in E. destruct (memN s (c_deps (e_cache st))); inversion E; subst; [constructor|].
      constructor; [exact Ht | constructor]. }
    destruct H1 as [H1 Es1]. destruct (deps_of U P so) as [rs cs|] eqn:Ed.
    + destruct (queue_packages st1 _) as [st2 w2] eqn:E2. intro E. inversion E. subst.
      destruct (queue_packages_sols _ _ _ _ E2) as [A2 B2]. destruct (queue_packages_cc _ _ _ _ E2) as [_ C2].
      assert (Hle : sols_le st st') by (unfold sols_le; rewrite A2, Es1; apply incl_refl).
      assert (Hso : In so (e_sols st')) by (rewrite A2, Es1; exact Ht).
      split; [|split; [exact Hle|]].
      * unfold JI. rewrite C2, A2. exact H1.
      * apply Forall_app. split; [|apply Forall_app; split].
        -- apply Forall_forall. intros t Hin. destruct (B2 t Hin) as [n [Hn Et]]. subst t. simpl.
           exists so. split; [exact Hso|]. unfold mentioned, vs_mentioned. rewrite Ed. exact Hn.
        -- apply Forall_forall. intros t Hin. apply in_map_iff in Hin. destruct Hin as [r [Et Hr]]. subst t.
           simpl. rewrite Ed. auto.
        -- apply Forall_forall. intros t Hin. apply in_map_iff in Hin. destruct Hin as [v [Et Hv]]. subst t.
           simpl. rewrite Ed. auto.
    + intro E. inversion E. subst. split; [|split; [|constructor]].
      * unfold JI in *. simpl. exact H1.
      * unfold sols_le. simpl. rewrite Es1. apply incl_refl.
  - destruct (req_cands_of (e_cache st) n) as [c k] eqn:E1. intro E. inversion E. subst.
    split; [|split; [unfold sols_le; simpl; apply incl_refl | constructor]].
    unfold JI. simpl. apply Forall_app. split; [exact H|]. apply Forall_forall. intros x Hx.
    rewrite (req_cands_of_calls _ _ _ _ E1 x Hx). exact Ht.
  - destruct Ht as [Hso Hr].
    destruct (req_sorted_all U (e_cache st) (req_vss U r)) as [c k] eqn:E1.
    destruct (reveal U falses (add_calls st c k) (req_cands U r)) as [st2 w2] eqn:E2.
    intro E. inversion E. subst. destruct (reveal_sols _ _ _ _ _ E2) as [A2 B2].
    destruct (reveal_cc _ _ _ _ _ E2) as [_ C2]. split; [|split; [exact A2 | exact B2]].
    unfold JI. cbn [add_clauses e_sols e_calls]. rewrite C2. cbn [add_calls e_calls].
    apply Forall_app. split.
    + eapply Forall_impl; [|exact H]. intro x. apply call_just_mono. exact A2.
    + apply Forall_forall. intros x Hx. destruct (req_sorted_all_calls _ _ _ _ E1 x Hx) as [v [Hv Hc]].
      pose proof (vs_req_mentioned so r v Hr Hv) as Hm. apply A2 in Hso. cbn [add_calls e_sols] in Hso.
      destruct Hc as [Ec|[Ec|Ec]]; subst x; simpl.
      * exists so. split; [exact Hso | unfold mentioned; apply in_map; exact Hm].
      * exists so. auto.
      * exists so, v. auto.
  - destruct Ht as [Hso Hv]. destruct (req_nonmatching U (e_cache st) v) as [c k] eqn:E1. intro E. inversion E. subst.
    split; [|split; [unfold sols_le; simpl; apply incl_refl | constructor]].
    unfold JI. simpl. apply Forall_app. split; [exact H|]. apply Forall_forall. intros x Hx.
    pose proof (vs_con_mentioned so v Hv) as Hm.
    destruct (req_nonmatching_calls _ _ _ _ E1 x Hx) as [Ec|Ec]; subst x; simpl.
    + exists so. split; [exact Hso | unfold mentioned; apply in_map; exact Hm].
    + exists so. auto.
Qed.

Lemma ji_enc_run evs : forall st work tr st' work',
  JI st -> Forall (task_just (e_sols st)) work -> enc_run U P st work tr evs = Some (st', work') ->
  JI st' /\ Forall (task_just (e_sols st')) work' /\ sols_le st st'.
Proof.
  induction evs as [|e evs IH]; intros st work tr st' work' H Hw; simpl.
  - intro E. inversion E. subst. split; [exact H | split; [exact Hw | apply sols_le_refl]].
  - destruct e as [sos|k|s|e].
    + destruct work as [|x work0]; [|discriminate].
      destruct (queue_solvables st sos) as [st1 w] eqn:E1. intro E.
      destruct (queue_solvables_sols _ _ _ _ E1) as [A1 B1]. destruct (queue_solvables_cc _ _ _ _ E1) as [_ C1].
      destruct (IH st1 w tr st' work') as (R1 & R2 & R3); [eapply ji_le; eauto | exact B1 | exact E|].
      split; [exact R1 | split; [exact R2 | eapply sols_le_trans; eauto]].
    + destruct (remove_task k work) as [work0|] eqn:Er; [|discriminate].
      destruct (remove_task_Forall k work work0 Er Hw) as [Hk Hw0].
      destruct (run_one U P (falses_of tr) st k) as [st1 w1] eqn:E1. intro E.
      destruct (ji_run_one _ _ _ _ _ H Hk E1) as (H1 & Hle & Hw1).
      destruct (IH st1 (work0 ++ w1) tr st' work') as (R1 & R2 & R3); [exact H1 | | exact E|].
      * apply Forall_app. split; [|exact Hw1]. eapply Forall_impl; [|exact Hw0]. intro x. apply task_just_mono. exact Hle.
      * split; [exact R1 | split; [exact R2 | eapply sols_le_trans; eauto]].
    + intro E. destruct (IH (register U st s) work tr st' work') as (R1 & R2 & R3); [| |exact E|].
      * unfold JI in *. rewrite register_sols. destruct (register_cc st s) as [_ C]. rewrite C. exact H.
      * rewrite register_sols. exact Hw.
      * split; [exact R1 | split; [exact R2|]]. unfold sols_le in *. rewrite register_sols in R3. exact R3.
    + apply IH; assumption.
Qed.

(* T4 (causality): every provider call of a solve is justified by a solvable
   whose clauses were requested (or the root): get_dependencies only for such
   a solvable, get_candidates only for a name its dependencies mention,
   filter/sort only for a version set they mention *)
Theorem enc_causal c0 evs st work :
  enc_run U P (estate0 c0) [] [] evs = Some (st, work) -> Forall (call_just (e_sols st)) (e_calls st).
Proof. intro E. apply (ji_enc_run evs (estate0 c0) [] [] st work); [constructor | constructor | exact E]. Qed.


(* ---------- laziness: without hints nothing is queued that the solver did not ask for ---------- *)

Definition nohints : Prop := forall n, p_hint U n = HNone.

Definition requested (evs : list sev) : list (option N) :=
  flat_map (fun e => match e with SEncode sos => sos | _ => [] end) evs.

Section Lazy.
Hypothesis NH : nohints.
Variable c0 : ecache.

Record LI (R : list (option N)) (st : estate) : Prop := mkLI {
  li_sols : forall s, In (Some s) (e_sols st) -> In (Some s) R \/ In s (c_deps c0);
  li_deps : forall s, In s (c_deps (e_cache st)) -> In s (c_deps c0) \/ In (Some s) (e_sols st)
}.

Lemma li_mono R R' st : incl R R' -> LI R st -> LI R' st.
Proof. intros Hi [A B]. constructor; [|exact B]. intros s Hs. destruct (A s Hs); auto. Qed.

Lemma hinted_false c s : hinted U c s = false.
Proof.
  unfold hinted. induction (c_cands c) as [|n l IH]; simpl; [reflexivity|]. rewrite (NH n). exact IH.
Qed.

Lemma req_matching_deps c v c' k : req_matching U c v = (c', k) -> c_deps c' = c_deps c.
Proof.
  unfold req_matching. destruct (memN v (c_match c)); [intro E; inversion E; reflexivity|].
  destruct (req_cands_of c (p_vs_name U v)) as [c1 k1] eqn:E1. intro E. inversion E. subst. simpl.
  apply (req_cands_of_other _ _ _ _ E1).
Qed.
Lemma req_nonmatching_deps c v c' k : req_nonmatching U c v = (c', k) -> c_deps c' = c_deps c.
Proof.
  unfold req_nonmatching. destruct (memN v (c_nonmatch c)); [intro E; inversion E; reflexivity|].
  destruct (req_cands_of c (p_vs_name U v)) as [c1 k1] eqn:E1. intro E. inversion E. subst. simpl.
  apply (req_cands_of_other _ _ _ _ E1).
Qed.
Lemma req_sorted_deps c v c' k : req_sorted U c v = (c', k) -> c_deps c' = c_deps c.
Proof.
  unfold req_sorted. destruct (memN v (c_sorted c)); [intro E; inversion E; reflexivity|].
  destruct (req_matching U c v) as [c1 k1] eqn:E1.
  destruct (req_cands_of c1 (p_vs_name U v)) as [c2 k2] eqn:E2. intro E. inversion E. subst. simpl.
  destruct (req_cands_of_other _ _ _ _ E2) as [A _]. rewrite A. eapply req_matching_deps; eauto.
Qed.
Lemma req_sorted_all_deps vs : forall c c' k, req_sorted_all U c vs = (c', k) -> c_deps c' = c_deps c.
Proof.
  induction vs as [|v vs IH]; intros c c' k; simpl; [intro E; inversion E; reflexivity|].
  destruct (req_sorted U c v) as [c1 k1] eqn:E1. destruct (req_sorted_all U c1 vs) as [c2 k2] eqn:E2.
  intro E. inversion E. subst. rewrite (IH _ _ _ E2). eapply req_sorted_deps; eauto.
Qed.

(* steps that only mark packages / add clauses / change the tracker *)
Lemma li_same R st st' : LI R st -> e_sols st' = e_sols st -> c_deps (e_cache st') = c_deps (e_cache st) -> LI R st'.
Proof. intros [A B] E1 E2. constructor; rewrite ?E1, ?E2; assumption. Qed.

Lemma li_queue_solvable R st so st' w :
  LI R st -> (match so with Some s => In so R \/ In s (c_deps c0) | None => True end) ->
  queue_solvable st so = (st', w) -> LI R st'.
Proof.
  intros [A B] Hso. unfold queue_solvable. destruct (mem_so so (e_sols st)); intro E; inversion E; subst.
  - constructor; assumption.
  - constructor; simpl.
    + intros s [Es|Hs]; [subst so; exact Hso | apply A; exact Hs].
    + intros s Hs. destruct (B s Hs); auto.
Qed.

Lemma li_reveal R falses cands : forall st st' w, LI R st -> reveal U falses st cands = (st', w) -> LI R st'.
Proof.
  induction cands as [|x xs IH]; intros st st' w H; simpl.
  - intro E. inversion E. subst. exact H.
  - destruct (if available U (e_cache st) x && negb (memN x falses) then queue_solvable st (Some x) else (st, []))
      as [st1 w1] eqn:E1.
    destruct (reveal U falses (register U st1 x) xs) as [st3 w3] eqn:E3. intro E. inversion E. subst.
    eapply IH; [|exact E3].
    assert (H1 : LI R st1).
    { destruct (available U (e_cache st) x && negb (memN x falses)) eqn:Ea; [|inversion E1; subst; exact H].
      apply andb_true_iff in Ea. destruct Ea as [Ea _]. unfold available in Ea. rewrite hinted_false, orb_false_r in Ea.
      apply memN_In in Ea. eapply li_queue_solvable; [exact H | | exact E1].
      destruct (li_deps R st H x Ea) as [Hc|Hq]; [right; exact Hc|]. apply (li_sols R st H x Hq). }
    eapply li_same; [exact H1 | apply register_sols | destruct (register_cc st1 x) as [C _]; rewrite C; reflexivity].
Qed.

Lemma li_run_one R falses st t st' w :
  LI R st -> task_just (e_sols st) t -> run_one U P falses st t = (st', w) -> LI R st'.
Proof.
  intros H Ht. destruct t as [so|n|so r|so v]; cbn [run_one].
  - set (st1 := match so with None => st | Some s => let '(c, k) := req_deps (e_cache st) s in add_calls st c k end).
    assert (H1 : LI R st1).
    { unfold st1. destruct so as [s|]; [|exact H]. destruct (req_deps (e_cache st) s) as [c k] eqn:E.
      destruct H as [A B]. unfold req_deps in E. destruct (memN s (c_deps (e_cache st))); inversion E; subst;
        constructor; simpl; try assumption.
      intros x [Ex|Hx]; [subst x; right; exact Ht | apply B; exact Hx]. }
    destruct (deps_of U P so) as [rs cs|].
    + destruct (queue_packages st1 _) as [st2 w2] eqn:E2. intro E. inversion E. subst.
      destruct (queue_packages_sols _ _ _ _ E2) as [A2 _]. destruct (queue_packages_cc _ _ _ _ E2) as [C2 _].
      eapply li_same; [exact H1 | exact A2 | rewrite C2; reflexivity].
    + intro E. inversion E. subst. eapply li_same; [exact H1 | reflexivity | reflexivity].
  - destruct (req_cands_of (e_cache st) n) as [c k] eqn:E1. intro E. inversion E. subst.
    eapply li_same; [exact H | reflexivity | simpl; apply (req_cands_of_other _ _ _ _ E1)].
  - destruct (req_sorted_all U (e_cache st) (req_vss U r)) as [c k] eqn:E1.
    destruct (reveal U falses (add_calls st c k) (req_cands U r)) as [st2 w2] eqn:E2.
    intro E. inversion E. subst.
    assert (H1 : LI R (add_calls st c k)).
    { eapply li_same; [exact H | reflexivity | simpl; eapply req_sorted_all_deps; eauto]. }
    pose proof (li_reveal R falses _ _ _ _ H1 E2) as H2.
    eapply li_same; [exact H2 | reflexivity | reflexivity].
  - destruct (req_nonmatching U (e_cache st) v) as [c k] eqn:E1. intro E. inversion E. subst.
    eapply li_same; [exact H | reflexivity | simpl; eapply req_nonmatching_deps; eauto].
Qed.

Lemma li_queue_solvables R sos : forall st st' w,
  LI R st -> incl sos R -> queue_solvables st sos = (st', w) -> LI R st'.
Proof.
  induction sos as [|so sos IH]; intros st st' w H Hi; simpl.
  - intro E. inversion E. subst. exact H.
  - destruct (queue_solvable st so) as [st1 w1] eqn:E1. destruct (queue_solvables st1 sos) as [st2 w2] eqn:E2.
    intro E. inversion E. subst. eapply IH; [| |exact E2].
    + eapply li_queue_solvable; [exact H | | exact E1]. destruct so; [left; apply Hi; left; reflexivity | exact I].
    + intros x Hx. apply Hi. right. exact Hx.
Qed.

Lemma li_enc_run evs : forall R st work tr st' work',
  LI R st -> JI st -> Forall (task_just (e_sols st)) work ->
  enc_run U P st work tr evs = Some (st', work') -> LI (R ++ requested evs) st'.
Proof.
  induction evs as [|e evs IH]; intros R st work tr st' work' H HJ Hw; simpl.
  - intro E. inversion E. subst. rewrite app_nil_r. exact H.
  - destruct e as [sos|k|s|e].
    + destruct work as [|x work0]; [|discriminate].
      destruct (queue_solvables st sos) as [st1 w] eqn:E1. intro E.
      destruct (queue_solvables_sols _ _ _ _ E1) as [A1 B1]. destruct (queue_solvables_cc _ _ _ _ E1) as [_ C1].
      rewrite app_assoc. apply (IH (R ++ sos) st1 w tr st' work'); [| eapply ji_le; eauto | exact B1 | exact E].
      eapply li_queue_solvables; [| |exact E1].
      * eapply li_mono; [|exact H]. apply incl_appl, incl_refl.
      * apply incl_appr, incl_refl.
    + destruct (remove_task k work) as [work0|] eqn:Er; [|discriminate].
      destruct (remove_task_Forall k work work0 Er Hw) as [Hk Hw0].
      destruct (run_one U P (falses_of tr) st k) as [st1 w1] eqn:E1. intro E. simpl.
      destruct (ji_run_one _ _ _ _ _ HJ Hk E1) as (H1 & Hle & Hw1).
      apply (IH R st1 (work0 ++ w1) tr st' work'); [eapply li_run_one; eauto | exact H1 | | exact E].
      apply Forall_app. split; [|exact Hw1]. eapply Forall_impl; [|exact Hw0]. intro x. apply task_just_mono. exact Hle.
    + simpl. apply IH.
      * eapply li_same; [exact H | apply register_sols | destruct (register_cc st s) as [C _]; rewrite C; reflexivity].
      * unfold JI in *. rewrite register_sols. destruct (register_cc st s) as [_ C]. rewrite C. exact HJ.
      * rewrite register_sols. exact Hw.
    + simpl. apply IH; assumption.
Qed.

(* T5 (laziness): with a provider that gives no hints, on a solver whose cache
   came from earlier solves with call history H0, get_dependencies is called in
   this solve only for solvables the solver asked the encoder to encode -- the
   ones it had assigned true -- never for an unselected candidate *)
Theorem enc_lazy H0 evs st work :
  CInv c0 H0 -> enc_run U P (estate0 c0) [] [] evs = Some (st, work) ->
  forall s, In (CDeps s) (e_calls st) -> In (Some s) (requested evs).
Proof.
  intros HI E s Hs.
  assert (L0 : LI [] (estate0 c0)) by (constructor; simpl; [intros x [] | intros x Hx; left; exact Hx]).
  assert (J0 : JI (estate0 c0)) by constructor.
  pose proof (li_enc_run evs [] _ _ _ _ _ L0 J0 (Forall_nil _) E) as [A _]. simpl in A.
  pose proof (enc_causal c0 evs st work E) as HJ. rewrite Forall_forall in HJ. specialize (HJ _ Hs). simpl in HJ.
  destruct (A s HJ) as [Hr|Hc]; [exact Hr|]. exfalso.
  (* s was already cached before this solve: then it was requested in H0 and again now *)
  destruct (enc_once H0 c0 evs st work HI E) as (_ & ND & _).
  rewrite flat_map_app in ND. destruct HI as [_ D0 _ _ _ _ _ _ _ _].
  assert (In s (flat_map k_deps H0)) by (rewrite D0; apply in_rev in Hc; exact Hc).
  assert (In s (flat_map k_deps (e_calls st))) by (apply in_flat_map; exists (CDeps s); split; [exact Hs | left; reflexivity]).
  clear - ND H H1. induction (flat_map k_deps H0) as [|y l IH]; [destruct H|].
  simpl in ND. inversion ND as [|? ? Hy Hl]. subst. destruct H as [Ey|H].
  - subst y. apply Hy. apply in_or_app. right. exact H1.
  - apply IH; assumption.
Qed.

End Lazy.
End Calls.

(* successive solves on one solver: the second solve starts from the cache the
   first one left; over both, nothing is requested twice.  (P1, P2 may differ;
   any number of solves follows by iterating enc_once with H0 := all earlier calls.) *)
Theorem enc_two_solves_once U P1 P2 evs1 evs2 st1 w1 st2 w2 :
  enc_run U P1 (estate0 cache0) [] [] evs1 = Some (st1, w1) ->
  enc_run U P2 (estate0 (e_cache st1)) [] [] evs2 = Some (st2, w2) ->
  let H := e_calls st1 ++ e_calls st2 in
  NoDup (flat_map k_cands H) /\ NoDup (flat_map k_deps H) /\
  NoDup (flat_map k_match H) /\ NoDup (flat_map k_nonmatch H).
Proof.
  intros E1 E2.
  destruct (enc_once U P1 [] cache0 evs1 st1 w1 (cinv0 U) E1) as (_ & _ & _ & _ & _ & HC1). simpl in HC1.
  destruct (enc_once U P2 (e_calls st1) (e_cache st1) evs2 st2 w2 HC1 E2) as (A & B & C & D & _).
  cbv zeta. auto.
Qed.

