(* Async/EncoderRegistered.v -- the encoder registers a candidate with the at-most-one tracker of its
   package BEFORE it puts it into a requires clause, and the at-most-one clauses it emits for a
   registration mention either the candidate being registered or a helper variable that did not exist
   before.

     registered st x   x is a variable of the tracker of its package
     EK st             every candidate of every Requires clause of the database is registered
     fext st st'       st' extends the database of st by clauses whose at-most-one members are FRESH with
                       respect to st (the candidate was not registered in st, or the helper bit did not
                       exist in st), and registrations / helper bits only grow

   enc_fifo_reg / enc_ordered_reg / queue_solvables_reg: every way the solver drives the encoder keeps EK
   and is an fext step.  Cdcl/SolverRegistered.v turns this into: a new at-most-one clause is never
   created with both literals false (forbid_side), for every run of the solver model. *)
From Resolvo Require Export Async.EncoderProofs.
From Coq Require Import Lia.

(* ---------- Amo.add ---------- *)

Lemma amo_add_mono t x t' cs : Amo.add t x = (t', cs) ->
  (forall y, In y (vars t) -> In y (vars t')) /\ (nh t <= nh t')%nat /\ In x (vars t') /\
  forall y k b, In (y, k, b) cs -> (y = x /\ ~ In x (vars t)) \/ (nh t <= k)%nat.
Proof.
  unfold Amo.add. destruct (in_dec Nat.eq_dec x (vars t)) as [Hin|Hnin].
  - intro H. inversion H. subst. split; [auto|]. split; [lia|]. split; [exact Hin | intros y k b []].
  - destruct (vars t) as [|v0 vs0] eqn:EV.
    + intro H. inversion H. subst. simpl. split; [intros y []|]. split; [lia|]. split; [left; reflexivity | intros y k b []].
    + destruct (grow (S (length (v0 :: vs0))) (length (v0 :: vs0)) (nh t) (v0 :: vs0)) as [h' cs1] eqn:Eg.
      intro H. inversion H. subst. clear H. cbn [vars nh].
      assert (Hf : (length (v0 :: vs0) < 2 ^ nh t + S (length (v0 :: vs0)))%nat) by lia.
      destruct (grow_spec _ _ _ _ _ _ Eg Hf) as [G1 [G2 [G3 G4]]].
      split; [intros y [E|Hy]; [left; exact E | right; apply in_or_app; left; exact Hy]|]. split; [exact G1|].
      split; [right; apply in_or_app; right; left; reflexivity|].
      intros y k b Hin. apply in_app_or in Hin. destruct Hin as [Hin|Hin].
      * right. destruct (G4 y k b Hin) as [Hk _]. lia.
      * apply in_map_iff in Hin. destruct Hin as [b0 [E _]]. inversion E. subst. left. split; [reflexivity | exact Hnin].
Qed.

Section Reg.
Variable U : provider.
Variable P : problem.

Notation name := (p_sol_name U).

Definition registered (st : estate) (x : N) : Prop := In (N.to_nat x) (vars (trk_get (name x) (e_trk st))).
Definition helper_bits (st : estate) (n : N) : nat := nh (trk_get n (e_trk st)).

Definition EK (st : estate) : Prop :=
  forall c, In c (e_db st) -> forall p r cands, ck c = KRequires p r cands ->
  forall x, In x (concat cands) -> registered st x.

Definition fresh_wrt (st0 : estate) (c : cl) : Prop :=
  forall n, ck c = KForbid n -> exists x k b, cl_lits c = [(VSol x, false); (VHelp n k, b)] /\
    (~ registered st0 x \/ (helper_bits st0 n <= N.to_nat k)%nat).

Definition mono (st st' : estate) : Prop :=
  (forall x, registered st x -> registered st' x) /\ (forall n, (helper_bits st n <= helper_bits st' n)%nat).

Definition fext (st st' : estate) : Prop :=
  exists new, e_db st' = e_db st ++ new /\ Forall (fresh_wrt st) new /\ mono st st'.

Lemma mono_refl st : mono st st.
Proof. split; auto. Qed.

Lemma mono_trans a b c : mono a b -> mono b c -> mono a c.
Proof. intros [A1 A2] [B1 B2]. split; [auto|]. intro n. specialize (A2 n). specialize (B2 n). lia. Qed.

Lemma fresh_anti st0 st1 c : mono st0 st1 -> fresh_wrt st1 c -> fresh_wrt st0 c.
Proof.
  intros [M1 M2] H n Hk. destruct (H n Hk) as [x [k [b [El Hd]]]]. exists x, k, b. split; [exact El|].
  destruct Hd as [Hd|Hd]; [left; intro R; apply Hd; apply M1; exact R | right; specialize (M2 n); lia].
Qed.

Lemma fext_refl st : fext st st.
Proof. exists []. split; [rewrite app_nil_r; reflexivity|]. split; [constructor | apply mono_refl]. Qed.

Lemma fext_trans a b c : fext a b -> fext b c -> fext a c.
Proof.
  intros [n1 [E1 [F1 M1]]] [n2 [E2 [F2 M2]]]. exists (n1 ++ n2). split; [rewrite E2, E1, app_assoc; reflexivity|].
  split; [|eapply mono_trans; eassumption]. apply Forall_app. split; [exact F1|].
  eapply Forall_impl; [|exact F2]. intros c0 Hc. apply (fresh_anti a b c0 M1 Hc).
Qed.

(* a step that touches neither the tracker nor the database *)
Lemma fext_same st st' : e_trk st' = e_trk st -> e_db st' = e_db st -> fext st st' /\ (EK st -> EK st').
Proof.
  intros Et Ed. split.
  - exists []. split; [rewrite app_nil_r; exact Ed|]. split; [constructor|].
    split; [intros x R; unfold registered in *; rewrite Et; exact R | intro n; unfold helper_bits; rewrite Et; lia].
  - intros HK c Hc p r cands Hk x Hx. rewrite Ed in Hc. unfold registered. rewrite Et. apply (HK c Hc p r cands Hk x Hx).
Qed.

(* clauses that are not at-most-one clauses and whose Requires candidates are registered *)
Lemma fext_add_clauses st cs :
  (forall c, In c cs -> is_forbid c = false) ->
  (forall c, In c cs -> forall p r cands, ck c = KRequires p r cands -> forall x, In x (concat cands) -> registered st x) ->
  fext st (add_clauses st cs) /\ (EK st -> EK (add_clauses st cs)).
Proof.
  intros Hnf Hreq. split.
  - exists cs. split; [reflexivity|]. split; [|split; [intros x R; exact R | intro n; unfold helper_bits; simpl; lia]]. apply Forall_forall. intros c Hc n Hk.
    specialize (Hnf c Hc). unfold is_forbid in Hnf. rewrite Hk in Hnf. discriminate.
  - intros HK c Hc p r cands Hk x Hx. simpl in Hc. apply in_app_or in Hc. unfold registered. simpl.
    destruct Hc as [Hc|Hc]; [apply (HK c Hc p r cands Hk x Hx) | apply (Hreq c Hc p r cands Hk x Hx)].
Qed.

Lemma registered_register st x : registered (register U st x) x /\ mono st (register U st x).
Proof.
  unfold register. destruct (Amo.add (trk_get (name x) (e_trk st)) (N.to_nat x)) as [t' cs] eqn:Ea.
  destruct (amo_add_mono _ _ _ _ Ea) as [A1 [A2 [A3 _]]].
  split.
  - unfold registered. simpl. rewrite trk_get_set_same. exact A3.
  - split.
    + intros y R. unfold registered in *. simpl. destruct (N.eq_dec (name y) (name x)) as [E|E].
      * rewrite E in *. rewrite trk_get_set_same. apply A1. exact R.
      * rewrite (trk_get_set_other _ _ _ _ E). exact R.
    + intro n. unfold helper_bits. simpl. destruct (N.eq_dec n (name x)) as [E|E].
      * subst n. rewrite trk_get_set_same. exact A2.
      * rewrite (trk_get_set_other _ _ _ _ E). lia.
Qed.

Lemma fext_register st x : fext st (register U st x) /\ (EK st -> EK (register U st x)).
Proof.
  destruct (registered_register st x) as [_ Hm]. split.
  - unfold register in *. destruct (Amo.add (trk_get (name x) (e_trk st)) (N.to_nat x)) as [t' cs] eqn:Ea.
    destruct (amo_add_mono _ _ _ _ Ea) as [_ [_ [_ A4]]].
    exists (map (mk_forbid (name x)) cs). split; [reflexivity|]. split; [|exact Hm].
    apply Forall_forall. intros c Hc n Hk. apply in_map_iff in Hc. destruct Hc as [[[y k] b] [Ec Hin]]. subst c.
    simpl in Hk. inversion Hk. subst n. exists (N.of_nat y), (N.of_nat k), b. split; [reflexivity|].
    destruct (A4 y k b Hin) as [[Ey Hn]|Hh].
    + left. subst y. rewrite N2Nat.id. exact Hn.
    + right. unfold helper_bits. rewrite Nat2N.id. exact Hh.
  - intros HK c Hc p r cands Hk y Hy. destruct Hm as [M1 _]. apply M1.
    unfold register in Hc. destruct (Amo.add (trk_get (name x) (e_trk st)) (N.to_nat x)) as [t' cs]. simpl in Hc.
    apply in_app_or in Hc. destruct Hc as [Hc|Hc]; [apply (HK c Hc p r cands Hk y Hy)|].
    apply in_map_iff in Hc. destruct Hc as [a [Ea' _]]. subst c. rewrite mk_forbid_kind in Hk. discriminate.
Qed.

Lemma reg_queue_solvable st so st' w : queue_solvable st so = (st', w) -> fext st st' /\ (EK st -> EK st').
Proof.
  unfold queue_solvable. destruct (mem_so so (e_sols st)); intro H; inversion H; subst; apply fext_same; reflexivity.
Qed.

Lemma reg_queue_package st n st' w : queue_package st n = (st', w) -> fext st st' /\ (EK st -> EK st').
Proof.
  unfold queue_package. destruct (memN n (e_pkgs st)); intro H; inversion H; subst; apply fext_same; reflexivity.
Qed.

Definition Reg (st st' : estate) : Prop := fext st st' /\ (EK st -> EK st').

Lemma reg_refl st : Reg st st.
Proof. split; [apply fext_refl | auto]. Qed.

Lemma reg_trans a b c : Reg a b -> Reg b c -> Reg a c.
Proof. intros [A1 A2] [B1 B2]. split; [eapply fext_trans; eassumption | auto]. Qed.

Lemma reg_queue_packages ns : forall st st' w, queue_packages st ns = (st', w) -> Reg st st'.
Proof.
  induction ns as [|n t IH]; intros st st' w; simpl.
  - intro H. inversion H. subst. apply reg_refl.
  - destruct (queue_package st n) as [st1 w1] eqn:E1. destruct (queue_packages st1 t) as [st2 w2] eqn:E2.
    intro H. inversion H. subst. eapply reg_trans; [apply (reg_queue_package _ _ _ _ E1) | apply (IH _ _ _ E2)].
Qed.

Lemma reg_queue_solvables sos : forall st st' w, queue_solvables st sos = (st', w) -> Reg st st'.
Proof.
  induction sos as [|so t IH]; intros st st' w; simpl.
  - intro H. inversion H. subst. apply reg_refl.
  - destruct (queue_solvable st so) as [st1 w1] eqn:E1. destruct (queue_solvables st1 t) as [st2 w2] eqn:E2.
    intro H. inversion H. subst. eapply reg_trans; [apply (reg_queue_solvable _ _ _ _ E1) | apply (IH _ _ _ E2)].
Qed.

(* reveal registers every candidate it is given *)
Lemma reg_reveal falses cands : forall st st' w, reveal U falses st cands = (st', w) ->
  Reg st st' /\ forall x, In x cands -> registered st' x.
Proof.
  induction cands as [|c cands IH]; intros st st' w; simpl.
  - intro H. inversion H. subst. split; [apply reg_refl | intros x []].
  - destruct (if available U (e_cache st) c && negb (memN c falses) then queue_solvable st (Some c) else (st, []))
      as [st1 w1] eqn:E1.
    destruct (reveal U falses (register U st1 c) cands) as [st3 w3] eqn:E3.
    intro H. inversion H. subst.
    assert (R1 : Reg st st1).
    { destruct (available U (e_cache st) c && negb (memN c falses)); [apply (reg_queue_solvable _ _ _ _ E1) | inversion E1; subst; apply reg_refl]. }
    destruct (IH _ _ _ E3) as [R3 Hall].
    split.
    + apply (reg_trans st st1 st'); [exact R1|].
      apply (reg_trans st1 (register U st1 c) st'); [exact (fext_register st1 c) | exact R3].
    + intros x [E|Hx]; [|apply Hall; exact Hx]. subst x.
      destruct R3 as [[new [_ [_ [M1 _]]]] _]. apply M1. apply (proj1 (registered_register st1 c)).
Qed.

Lemma is_forbid_mk_requires so r : is_forbid (mk_requires U so r) = false.
Proof. reflexivity. Qed.

Lemma reg_add_calls st c k : Reg st (add_calls st c k).
Proof. apply fext_same; reflexivity. Qed.

Lemma reg_run_one falses st t st' w : run_one U P falses st t = (st', w) -> Reg st st'.
Proof.
  destruct t as [so|n|so r|so v]; cbn [run_one].
  - set (st1 := match so with None => st | Some s => let '(c, k) := req_deps (e_cache st) s in add_calls st c k end).
    assert (R1 : Reg st st1).
    { unfold st1. destruct so as [s|]; [|apply reg_refl]. destruct (req_deps (e_cache st) s) as [c k]. apply reg_add_calls. }
    destruct (deps_of U P so) as [rs cs|].
    + destruct (queue_packages st1 (map (p_vs_name U) (flat_map (req_vss U) rs ++ cs))) as [st2 w2] eqn:E2.
      intro H. inversion H. subst. eapply reg_trans; [exact R1 | apply (reg_queue_packages _ _ _ _ E2)].
    + intro H. inversion H. subst. eapply reg_trans; [exact R1|]. apply fext_add_clauses.
      * intros c Hc. destruct so as [s|]; [|destruct Hc]. destruct Hc as [Hc|[]]. subst c. reflexivity.
      * intros c Hc p r cands Hk. destruct so as [s|]; [|destruct Hc]. destruct Hc as [Hc|[]]. subst c. discriminate Hk.
  - destruct (req_cands_of (e_cache st) n) as [c k]. intro H. inversion H. subst.
    eapply reg_trans; [apply reg_add_calls|]. apply fext_add_clauses.
    + intros c0 Hc. apply in_app_or in Hc. destruct Hc as [Hc|Hc].
      * destruct (p_locked U n) as [l|]; [|destruct Hc]. apply in_map_iff in Hc. destruct Hc as [o [Eo _]]. subst c0. reflexivity.
      * apply in_map_iff in Hc. destruct Hc as [x [Ex _]]. subst c0. reflexivity.
    + intros c0 Hc p r cands Hk. apply in_app_or in Hc. destruct Hc as [Hc|Hc].
      * destruct (p_locked U n) as [l|]; [|destruct Hc]. apply in_map_iff in Hc. destruct Hc as [o [Eo _]]. subst c0. discriminate Hk.
      * apply in_map_iff in Hc. destruct Hc as [x [Ex _]]. subst c0. discriminate Hk.
  - destruct (req_sorted_all U (e_cache st) (req_vss U r)) as [c k].
    destruct (reveal U falses (add_calls st c k) (req_cands U r)) as [st2 w2] eqn:E2.
    intro H. inversion H. subst. destruct (reg_reveal _ _ _ _ _ E2) as [R2 Hall].
    eapply reg_trans; [apply reg_add_calls|]. eapply reg_trans; [exact R2|]. apply fext_add_clauses.
    + intros c0 [Hc|[]]. subst c0. reflexivity.
    + intros c0 [Hc|[]] p r0 cands Hk x Hx. subst c0. simpl in Hk. inversion Hk. subst. apply Hall.
      unfold req_cands. rewrite flat_map_concat_map. exact Hx.
  - destruct (req_nonmatching U (e_cache st) v) as [c k]. intro H. inversion H. subst.
    eapply reg_trans; [apply reg_add_calls|]. apply fext_add_clauses.
    + intros c0 Hc. apply in_map_iff in Hc. destruct Hc as [f [Ef _]]. subst c0. reflexivity.
    + intros c0 Hc p r cands Hk. apply in_map_iff in Hc. destruct Hc as [f [Ef _]]. subst c0. discriminate Hk.
Qed.

(* helper variables of at-most-one clauses exist in the tracker (from the encoder invariant) *)
Lemma einv_helper_bits st : EInv U P st -> forall c n, In c (e_db st) -> ck c = KForbid n ->
  exists x k b, cl_lits c = [(VSol x, false); (VHelp n k, b)] /\ (N.to_nat k < helper_bits st n)%nat /\ registered st x.
Proof.
  intros [H1 _ H3] c n Hc Hk. destruct (H1 n) as [cs [[_ [_ [_ [_ I5]]]] Hcs]].
  destruct (Hcs c Hc Hk) as [[[y k] b] [Ha Ec]]. subst c. exists (N.of_nat y), (N.of_nat k), b.
  split; [reflexivity|]. destruct (I5 y k b Ha) as [Hlt [i [Hi _]]]. unfold helper_bits. rewrite Nat2N.id. split; [exact Hlt|].
  unfold registered. rewrite Nat2N.id. apply nth_error_In in Hi.
  rewrite (H3 n y Hi). exact Hi.
Qed.

End Reg.
