(* Async/EncoderSafe.v -- a panic class excluded by proof (C04).

   Clause::requires and Clause::constrains start with
       assert_ne!(decision_tracker.assigned_value(parent), Some(false))
   (the pre-F3 code could violate it).  In the model: whenever the result of a
   requirement / constraint future of solvable s is handled, s is not assigned
   false -- for every provider, problem, completion order and trail history in
   which (a) encode requests are made only for variables assigned true
   (req_true_ok), (b) the trail does not change while futures of the encoder
   are pending and never assigns a variable twice (quiet_ok).  Both (a) and (b)
   are evaluated on every real run by the correspondence check. *)
From Resolvo Require Export Async.EncoderClosed.

Section Safe.
Variable U : provider.
Variable P : problem.

Definition task_parent (t : task) : option N :=
  match t with
  | TDeps (Some s) | TReq (Some s) _ | TCon (Some s) _ => Some s
  | _ => None
  end.

Definition parent_okb (falses : list N) (t : task) : bool :=
  match task_parent t with Some s => negb (memN s falses) | None => true end.

Definition assigned (tr : list lit) (v : var) : bool := existsb (fun l => var_eqb (fst l) v) tr.

(* (b): the trail is only touched between encoder invocations, and consistently *)
Fixpoint quiet_ok (st : estate) (work : list task) (tr : list lit) (evs : list sev) : bool :=
  match evs with
  | [] => true
  | SEncode sos :: t =>
    let '(st1, w) := queue_solvables st sos in quiet_ok st1 w tr t
  | SDone k :: t =>
    match remove_task k work with
    | Some work' => let '(st1, w1) := run_one U P (falses_of tr) st k in quiet_ok st1 (work' ++ w1) tr t
    | None => true
    end
  | SSoft s :: t => quiet_ok (register U st s) work tr t
  | STrail e :: t =>
    match work with [] => true | _ :: _ => false end &&
    match e with EvAssign l _ => negb (assigned tr (fst l)) | _ => true end &&
    quiet_ok st work (trail_step tr e) t
  end.

(* the model's version of the assertion: checked when a requirement / constraint
   (or dependencies) future of a solvable completes *)
Fixpoint assert_ok (st : estate) (work : list task) (tr : list lit) (evs : list sev) : bool :=
  match evs with
  | [] => true
  | SEncode sos :: t =>
    let '(st1, w) := queue_solvables st sos in assert_ok st1 w tr t
  | SDone k :: t =>
    match remove_task k work with
    | Some work' =>
      parent_okb (falses_of tr) k &&
      let '(st1, w1) := run_one U P (falses_of tr) st k in assert_ok st1 (work' ++ w1) tr t
    | None => true
    end
  | SSoft s :: t => assert_ok (register U st s) work tr t
  | STrail e :: t => assert_ok st work (trail_step tr e) t
  end.

Definition cons_trail (tr : list lit) : Prop := NoDup (map fst tr).

Lemma assigned_In tr v : assigned tr v = true <-> In v (map fst tr).
Proof.
  unfold assigned. rewrite existsb_exists. split.
  - intros [l [Hl E]]. apply var_eqb_eq in E. subst. apply in_map. exact Hl.
  - intro H. apply in_map_iff in H. destruct H as [l [E Hl]]. exists l. split; [exact Hl | apply var_eqb_eq; exact E].
Qed.

Lemma falses_of_In tr s : In s (falses_of tr) <-> In (VSol s, false) tr.
Proof.
  induction tr as [|[[ | x | n k] [|]] t IH]; simpl; try tauto;
    try (rewrite IH; split; [intro H; right; exact H | intros [H|H]; [discriminate H | exact H]]).
  rewrite IH. split.
  - intros [E|H]; [subst; left; reflexivity | right; exact H].
  - intros [E|H]; [inversion E; left; reflexivity | right; exact H].
Qed.

Lemma true_not_false tr s : cons_trail tr -> In (VSol s, true) tr -> ~ In s (falses_of tr).
Proof.
  unfold cons_trail. intros Hnd Ht Hf. apply falses_of_In in Hf.
  induction tr as [|l t IH]; [destruct Ht|]. simpl in Hnd. inversion Hnd as [|? ? Hx Hl]. subst.
  destruct Ht as [Et|Ht], Hf as [Ef|Hf].
  - rewrite Et in Ef. discriminate Ef.
  - subst l. apply Hx. simpl. apply (in_map fst) in Hf. exact Hf.
  - subst l. apply Hx. simpl. apply (in_map fst) in Ht. exact Ht.
  - apply IH; assumption.
Qed.

Lemma is_true_In tr so : is_true tr so = true -> In (so_var so, true) tr.
Proof.
  unfold is_true. intro H. apply existsb_exists in H. destruct H as [l [Hl E]]. apply lit_eqb_eq in E. subst. exact Hl.
Qed.

Lemma trail_step_cons tr e :
  cons_trail tr -> match e with EvAssign l _ => negb (assigned tr (fst l)) | _ => true end = true ->
  cons_trail (trail_step tr e).
Proof.
  unfold cons_trail. intros H He. destruct e as [l why| |]; simpl.
  - constructor; [|exact H]. apply negb_true_iff in He. intro Hin. apply assigned_In in Hin. congruence.
  - destruct tr; [exact H|]. simpl in *. inversion H. assumption.
  - constructor.
Qed.

(* tasks produced by a step have parents that are not false *)
Lemma queue_solvables_parents tr sos : forall st st' w,
  cons_trail tr -> forallb (is_true tr) sos = true -> queue_solvables st sos = (st', w) ->
  Forall (fun t => parent_okb (falses_of tr) t = true) w.
Proof.
  induction sos as [|so sos IH]; intros st st' w Hc Ht; simpl.
  - intro E. inversion E. constructor.
  - simpl in Ht. apply andb_true_iff in Ht. destruct Ht as [H1 H2].
    destruct (queue_solvable st so) as [st1 w1] eqn:E1. destruct (queue_solvables st1 sos) as [st2 w2] eqn:E2.
    intro E. inversion E. subst. apply Forall_app. split; [|eapply IH; eauto].
    unfold queue_solvable in E1. destruct (mem_so so (e_sols st)); inversion E1; subst; [constructor|].
    constructor; [|constructor]. unfold parent_okb. destruct so as [s|]; simpl; [|reflexivity].
    apply negb_true_iff. apply memN_false. apply true_not_false; [exact Hc|]. apply (is_true_In tr (Some s)). exact H1.
Qed.

Lemma reveal_parents falses cands : forall st st' w, reveal U falses st cands = (st', w) ->
  Forall (fun t => parent_okb falses t = true) w.
Proof.
  induction cands as [|x xs IH]; intros st st' w; simpl.
  - intro E. inversion E. constructor.
  - destruct (available U (e_cache st) x && negb (memN x falses)) eqn:Ea.
    + destruct (queue_solvable st (Some x)) as [st1 w1] eqn:E1.
      destruct (reveal U falses (register U st1 x) xs) as [st3 w3] eqn:E3. intro E. inversion E. subst.
      apply Forall_app. split; [|eapply IH; eauto].
      unfold queue_solvable in E1. destruct (mem_so (Some x) (e_sols st)); inversion E1; subst; [constructor|].
      constructor; [|constructor]. unfold parent_okb. simpl. apply andb_true_iff in Ea. apply Ea.
    + destruct (reveal U falses (register U st x) xs) as [st3 w3] eqn:E3. intro E. inversion E. subst.
      simpl. eapply IH; eauto.
Qed.

Lemma queue_packages_parents falses ns : forall st st' w, queue_packages st ns = (st', w) ->
  Forall (fun t => parent_okb falses t = true) w.
Proof.
  intros st st' w E. destruct (queue_packages_sols _ _ _ _ E) as [_ H]. apply Forall_forall. intros t Ht.
  destruct (H t Ht) as [n [_ Et]]. subst t. reflexivity.
Qed.

Lemma run_one_parents falses st t st' w :
  parent_okb falses t = true -> run_one U P falses st t = (st', w) ->
  Forall (fun x => parent_okb falses x = true) w.
Proof.
  intros Hp. destruct t as [so|n|so r|so v]; cbn [run_one].
  - destruct (deps_of U P so) as [rs cs|].
    + destruct (queue_packages _ _) as [st2 w2] eqn:E2. intro E. inversion E. subst.
      apply Forall_app. split; [eapply queue_packages_parents; eauto|].
      apply Forall_app. split; apply Forall_forall; intros x Hx; apply in_map_iff in Hx; destruct Hx as [y [Ey _]];
        subst x; unfold parent_okb in *; destruct so; exact Hp.
    + intro E. inversion E. constructor.
  - destruct (req_cands_of (e_cache st) n). intro E. inversion E. constructor.
  - destruct (req_sorted_all U (e_cache st) (req_vss U r)) as [c k].
    destruct (reveal U falses (add_calls st c k) (req_cands U r)) as [st2 w2] eqn:E2.
    intro E. inversion E. subst. eapply reveal_parents; eauto.
  - destruct (req_nonmatching U (e_cache st) v). intro E. inversion E. constructor.
Qed.

Lemma safe_ind evs : forall st work tr,
  cons_trail tr -> Forall (fun t => parent_okb (falses_of tr) t = true) work ->
  quiet_ok st work tr evs = true -> req_true_ok tr evs = true -> assert_ok st work tr evs = true.
Proof.
  induction evs as [|e evs IH]; intros st work tr Hc Hw Hq Hr; simpl; [reflexivity|].
  destruct e as [sos|k|s|e]; simpl in Hq, Hr.
  - apply andb_true_iff in Hr. destruct Hr as [Ht Hr].
    destruct (queue_solvables st sos) as [st1 w] eqn:E1.
    apply IH; [exact Hc | eapply queue_solvables_parents; eauto | exact Hq | exact Hr].
  - destruct (remove_task k work) as [work0|] eqn:Er; [|reflexivity].
    destruct (remove_task_Forall k work work0 Er Hw) as [Hk Hw0]. rewrite Hk. simpl.
    destruct (run_one U P (falses_of tr) st k) as [st1 w1] eqn:E1.
    apply IH; [exact Hc | | exact Hq | exact Hr].
    apply Forall_app. split; [exact Hw0 | eapply run_one_parents; eauto].
  - apply IH; assumption.
  - apply andb_true_iff in Hq. destruct Hq as [Hq Hq3]. apply andb_true_iff in Hq. destruct Hq as [Hq1 Hq2].
    destruct work as [|x work0]; [|discriminate]. apply IH; [apply trail_step_cons; assumption | constructor | exact Hq3 | exact Hr].
Qed.

(* the assertion of Clause::requires / Clause::constrains cannot fail *)
Theorem enc_assert_safe c evs :
  quiet_ok (estate0 c) [] [] evs = true -> req_true_ok [] evs = true -> assert_ok (estate0 c) [] [] evs = true.
Proof. intros Hq Hr. apply safe_ind; [constructor | constructor | exact Hq | exact Hr]. Qed.

End Safe.
