(* Async/CacheProtoOnce.v -- "never asks twice", for ALL schedules: in every run
   of the in-flight protocol (any interleaving of task polls and provider answers,
   any cancellation points, any number of solves on one solver) a provider
   request is issued only for something that was not obtained before and for
   which no request of the current solve is in flight.

   The protocol is the one of get_or_cache_candidates; since fix 432d8c2
   get_or_cache_dependencies follows the same protocol (keys are then solvables). *)
From Resolvo Require Export Async.CacheProto Async.HistoryProofs.

(* the state the history checker [onceb] is in after a history (candidates part) *)
Fixpoint ostate (dc fc : list N) (h : history) : list N * list N :=
  match h with
  | [] => (dc, fc)
  | HNext _ :: t => ostate dc [] t
  | HCands n :: t => ostate dc (n :: fc) t
  | HCandsEnd n :: t => ostate (n :: dc) (filter (fun x => negb (N.eqb x n)) fc) t
  | _ :: t => ostate dc fc t
  end.

Definition no_deps (e : hev) : Prop := match e with HDeps _ | HDepsEnd _ => False | _ => True end.

Lemma ostate_app dc fc h1 h2 :
  ostate dc fc (h1 ++ h2) = ostate (fst (ostate dc fc h1)) (snd (ostate dc fc h1)) h2.
Proof.
  revert dc fc. induction h1 as [|e t IH]; intros dc fc; simpl; [reflexivity|].
  destruct e; apply IH.
Qed.

Lemma onceb_app h1 : forall dc fc h2,
  (forall e, In e h1 -> no_deps e) ->
  onceb dc [] fc [] (h1 ++ h2) =
  onceb dc [] fc [] h1 && onceb (fst (ostate dc fc h1)) [] (snd (ostate dc fc h1)) [] h2.
Proof.
  induction h1 as [|e t IH]; intros dc fc h2 Hc; [reflexivity|].
  assert (Ht : forall e0, In e0 t -> no_deps e0) by (intros e0 H; apply Hc; right; exact H).
  assert (He : no_deps e) by (apply Hc; left; reflexivity).
  destruct e; cbn [app onceb ostate]; try (apply IH; exact Ht); try (destruct He).
  - rewrite (IH _ _ _ Ht). rewrite !andb_assoc. reflexivity.
Qed.

(* drops end a solve: after a drop nothing is spawned or run before the next solve starts *)
Fixpoint drops_end_solve (dropped : bool) (es : list pevent) : bool :=
  match es with
  | [] => true
  | PDrop :: t => drops_end_solve true t
  | PNext _ :: t => drops_end_solve false t
  | _ :: t => negb dropped && drops_end_solve dropped t
  end.

Definition same_mem (a b : list N) : Prop := forall n, memN n a = memN n b.

(* link between the protocol state and the checker state; after a drop the checker still lists the
   abandoned requests as in flight (they are cleared by the HNext of the next solve) *)
Record Link (dropped : bool) (s : pstate) : Prop := mkLink {
  l_hist : forall e, In e (hist s) -> no_deps e;
  l_once : onceb [] [] [] [] (hist s) = true;
  l_dc : same_mem (fst (ostate [] [] (hist s))) (cached s);
  l_fc : dropped = false -> same_mem (snd (ostate [] [] (hist s))) (inflight s)
}.

Lemma memN_filter_ne n x l : memN x (filter (fun y => negb (N.eqb y n)) l) = memN x l && negb (N.eqb x n).
Proof.
  apply bool_eq_iff. rewrite andb_true_iff, !memN_In, filter_In, negb_true_iff, N.eqb_neq. tauto.
Qed.

Lemma hist_snoc s e : no_deps e -> (forall x, In x (hist s) -> no_deps x) -> forall x, In x (hist s ++ [e]) -> no_deps x.
Proof. intros He H x Hx. apply in_app_or in Hx. destruct Hx as [Hx|[Hx|[]]]; [apply H; exact Hx | subst; exact He]. Qed.

Theorem proto_once_step dropped s e s' :
  PInv s -> Link dropped s -> pstep drop_fixed s e = Some s' ->
  drops_end_solve dropped [e] = true ->
  Link (match e with PDrop => true | PNext _ => false | _ => dropped end) s'.
Proof.
  intros HI [Lh Lo Ld Lf] Hstep Hd. destruct e as [n|i|n| |P]; simpl in Hstep, Hd.
  - (* spawn *) inversion Hstep. subst. apply andb_true_iff in Hd. destruct Hd as [Hd _]. apply negb_true_iff in Hd. subst dropped.
    constructor; simpl; auto.
  - (* run *) apply andb_true_iff in Hd. destruct Hd as [Hd _]. apply negb_true_iff in Hd. subst dropped.
    specialize (Lf eq_refl). unfold run_task in Hstep.
    destruct (nth_error (tasks s) i) as [t|]; [|discriminate]. destruct (t_st t).
    + destruct (memN (t_name t) (cached s)) eqn:Ec; [inversion Hstep; subst; constructor; simpl; auto|].
      destruct (memN (t_name t) (inflight s)) eqn:Ei; [inversion Hstep; subst; constructor; simpl; auto|].
      inversion Hstep. subst. clear Hstep.
      constructor; cbn [hist cached inflight].
      * apply hist_snoc; [exact I | exact Lh].
      * rewrite (onceb_app (hist s) [] [] [HCands (t_name t)] Lh), Lo. cbn [andb onceb].
        rewrite (Ld (t_name t)), Ec, (Lf (t_name t)), Ei. reflexivity.
      * rewrite ostate_app. simpl. exact Ld.
      * intros _ x. rewrite ostate_app. simpl. rewrite (Lf x). reflexivity.
    + destruct (memN (t_name t) (cached s)); [|discriminate]. inversion Hstep. subst. constructor; simpl; auto.
    + discriminate.
    + discriminate.
  - (* answer *) apply andb_true_iff in Hd. destruct Hd as [Hd _]. apply negb_true_iff in Hd. subst dropped.
    specialize (Lf eq_refl). unfold answer in Hstep.
    destruct (existsb (owner_of n) (tasks s)); [|discriminate]. inversion Hstep. subst. clear Hstep.
    constructor; cbn [hist cached inflight].
    + apply hist_snoc; [exact I | exact Lh].
    + rewrite (onceb_app (hist s) [] [] [HCandsEnd n] Lh), Lo. reflexivity.
    + rewrite ostate_app. simpl. intro x. simpl. rewrite (Ld x). reflexivity.
    + intros _ x. rewrite ostate_app. simpl. unfold removeN. rewrite !memN_filter_ne, (Lf x). reflexivity.
  - (* drop *) inversion Hstep. subst. constructor; simpl; auto. intro H. discriminate H.
  - (* next solve *) destruct (tasks s) as [|t ts] eqn:Et; [|discriminate]. inversion Hstep. subst. clear Hstep.
    constructor; cbn [hist cached inflight].
    + apply hist_snoc; [exact I | exact Lh].
    + rewrite (onceb_app (hist s) [] [] [HNext P] Lh), Lo. reflexivity.
    + rewrite ostate_app. simpl. exact Ld.
    + intros _ x. rewrite ostate_app. simpl.
      (* no live task, hence no marker *)
      destruct (memN x (inflight s)) eqn:E; [|reflexivity]. apply memN_In in E.
      apply (inv_owned s HI) in E. rewrite Et in E. destruct E.
Qed.

Lemma drops_end_solve_cons d e t : drops_end_solve d (e :: t) = true ->
  drops_end_solve d [e] = true /\ drops_end_solve (match e with PDrop => true | PNext _ => false | _ => d end) t = true.
Proof.
  destruct e; simpl; intro H; try (apply andb_true_iff in H; destruct H as [H1 H2]; rewrite H1; auto); auto.
Qed.

Theorem proto_once es : forall dropped s s',
  PInv s -> Link dropped s -> prun drop_fixed s es = Some s' -> drops_end_solve dropped es = true ->
  onceb [] [] [] [] (hist s') = true.
Proof.
  induction es as [|e t IH]; intros dropped s s' HI HL Hrun Hd; simpl in Hrun.
  - inversion Hrun. subst. apply (l_once _ _ HL).
  - destruct (pstep drop_fixed s e) as [s1|] eqn:Es; [|discriminate].
    destruct (drops_end_solve_cons _ _ _ Hd) as [Hd1 Hd2].
    eapply IH; [eapply pstep_inv; eauto | eapply proto_once_step; eauto | exact Hrun | exact Hd2].
Qed.

Lemma link0 : Link false p0.
Proof. constructor; simpl; try reflexivity; [intros e [] | intro n; reflexivity | intros _ n; reflexivity]. Qed.

(* C10 / C13, "never asks the provider twice", for every schedule: every history the repaired protocol can
   produce -- any interleaving of polls and answers, any cancellation points, any number of solves --
   satisfies the at-most-once predicate *)
Theorem proto_never_asks_twice es s :
  prun drop_fixed p0 es = Some s -> drops_end_solve false es = true -> Once (hist s).
Proof.
  intros Hrun Hd. apply onceb_spec. eapply proto_once; [apply pinv_p0 | apply link0 | exact Hrun | exact Hd].
Qed.

(* the hypotheses are satisfiable by a run with two concurrent requests for one key, a cancellation
   while the request is in flight, and a second solve that asks again *)
Example proto_run_exists :
  let P := mkProblem [] [] [] in
  let es := [PNext P; PSpawn 1; PSpawn 1; PRun 0; PRun 1; PDrop; PNext P; PSpawn 1; PRun 0; PAnswer 1; PSpawn 1; PRun 1]%N in
  drops_end_solve false es = true /\
  option_map hist (prun drop_fixed p0 es) =
    Some [HNext P; HCands 1; HNext P; HCands 1; HCandsEnd 1]%N.
Proof. vm_compute. split; reflexivity. Qed.
