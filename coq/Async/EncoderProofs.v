(* Async/EncoderProofs.v -- theorems about the encoder model, for every provider,
   every problem, every sequence of encoder invocations and every trail:

   enc_facts   every clause the encoder adds is a fact (so E1 applies to the model)
   enc_once    no provider request is made twice; candidates/dependencies are
               requested only for packages/solvables that were queued
   enc_lazy    without hints, dependencies are requested only for the solvables
               the solver asked to encode *)
From Resolvo Require Export Async.Encoder.

Section Proofs.
Variable U : provider.
Variable P : problem.
Hypothesis HW : WF U.

Notation name := (p_sol_name U).

(* index of a solvable in the tracker of its package *)
Fixpoint index_nat (x : nat) (l : list nat) : option nat :=
  match l with
  | [] => None
  | y :: t => if Nat.eqb y x then Some O else option_map S (index_nat x t)
  end.

Definition trk_idx (trk : list (N * tracker)) (n x : N) : option nat :=
  index_nat (N.to_nat x) (vars (trk_get n trk)).

Lemma index_nat_nth x l i : NoDup l -> nth_error l i = Some x -> index_nat x l = Some i.
Proof.
  revert i. induction l as [|y l IH]; intros i Hnd Hn; [destruct i; discriminate|].
  inversion Hnd as [|? ? Hy Hl]. subst. destruct i as [|i]; simpl in *.
  - inversion Hn. subst. rewrite Nat.eqb_refl. reflexivity.
  - destruct (Nat.eqb y x) eqn:E.
    + apply Nat.eqb_eq in E. subst. exfalso. apply Hy. eapply nth_error_In. exact Hn.
    + rewrite (IH i Hl Hn). reflexivity.
Qed.

Lemma trk_get_set_same n t l : trk_get n (trk_set n t l) = t.
Proof.
  induction l as [|[m t0] r IH]; simpl; [rewrite N.eqb_refl; reflexivity|].
  destruct (N.eqb m n) eqn:E; simpl; [rewrite N.eqb_refl; reflexivity|]. rewrite E. exact IH.
Qed.

Lemma trk_get_set_other n m t l : m <> n -> trk_get m (trk_set n t l) = trk_get m l.
Proof.
  intro H. induction l as [|[k t0] r IH]; simpl.
  - destruct (N.eqb n m) eqn:E2; [apply N.eqb_eq in E2; congruence | reflexivity].
  - destruct (N.eqb k n) eqn:E; simpl.
    + apply N.eqb_eq in E. subst k. destruct (N.eqb n m) eqn:E2; [apply N.eqb_eq in E2; congruence | reflexivity].
    + destruct (N.eqb k m); [reflexivity | exact IH].
Qed.

(* non-forbid facts do not depend on the index function *)
Definition is_forbid (c : cl) : bool := match ck c with KForbid _ => true | _ => false end.

Lemma factb_idx_irrel idx idx' c : is_forbid c = false -> factb U P idx c = factb U P idx' c.
Proof. unfold is_forbid, factb. destruct (ck c); try reflexivity. discriminate. Qed.

(* ---------- the invariant ---------- *)

Definition task_ok (t : task) : Prop :=
  match t with
  | TReq so r => In r (reqs_of (deps_of U P so))
  | TCon so v => In v (cons_of (deps_of U P so))
  | _ => True
  end.

Record EInv (st : estate) : Prop := mkEInv {
  i_trk : forall n, exists cs, Amo.Inv (trk_get n (e_trk st)) cs /\
            forall c, In c (e_db st) -> ck c = KForbid n -> exists a, In a cs /\ c = mk_forbid n a;
  i_other : forall c, In c (e_db st) -> is_forbid c = false -> factb U P (fun _ _ => None) c = true;
  i_names : forall n y, In y (vars (trk_get n (e_trk st))) -> name (N.of_nat y) = n
}.

Lemma einv0 c : EInv (estate0 c).
Proof.
  constructor; simpl.
  - intro n. exists []. split; [apply inv_empty | intros c0 []].
  - intros c0 [].
  - intros n y [].
Qed.

Lemma einv_cache st c k : EInv st -> EInv (add_calls st c k).
Proof. intros [H1 H2 H3]. constructor; simpl; assumption. Qed.

Lemma einv_add_clauses st cs :
  EInv st -> (forall c, In c cs -> is_forbid c = false /\ factb U P (fun _ _ => None) c = true) ->
  EInv (add_clauses st cs).
Proof.
  intros [H1 H2 H3] Hcs. constructor; simpl.
  - intro n. destruct (H1 n) as [cs0 [Hi Hc]]. exists cs0. split; [exact Hi|].
    intros c Hin Hk. apply in_app_or in Hin. destruct Hin as [Hin|Hin]; [apply Hc; assumption|].
    destruct (Hcs c Hin) as [Hf _]. unfold is_forbid in Hf. rewrite Hk in Hf. discriminate.
  - intros c Hin Hf. apply in_app_or in Hin. destruct Hin as [Hin|Hin]; [apply H2; assumption | apply Hcs; exact Hin].
  - exact H3.
Qed.

Lemma einv_marks st pk so :
  EInv st -> EInv (mkE (e_cache st) pk so (e_trk st) (e_db st) (e_calls st)).
Proof. intros [H1 H2 H3]. constructor; simpl; assumption. Qed.

Lemma mk_forbid_kind n a : ck (mk_forbid n a) = KForbid n.
Proof. destruct a as [[x k] b]. reflexivity. Qed.

Lemma add_vars t x t' c : Amo.add t x = (t', c) -> forall y, In y (vars t') -> In y (vars t) \/ y = x.
Proof.
  unfold Amo.add. destruct (in_dec Nat.eq_dec x (vars t)) as [Hin|Hnin].
  - intro H. inversion H. subst. intros y Hy. left. exact Hy.
  - destruct (vars t) as [|v0 vs0] eqn:EV.
    + intro H. inversion H. subst. simpl. intros y [E|[]]. right. symmetry. exact E.
    + destruct (grow (S (length (v0 :: vs0))) (length (v0 :: vs0)) (nh t) (v0 :: vs0)) as [h' cs1].
      intro H. inversion H. subst. simpl. intros y Hy.
      change (v0 :: vs0 ++ [x]) with ((v0 :: vs0) ++ [x]) in Hy.
      destruct Hy as [E|Hy]; [left; left; exact E|].
      apply in_app_or in Hy. destruct Hy as [Hy|[E|[]]]; [left; right; exact Hy | right; symmetry; exact E].
Qed.

Lemma einv_register st x : EInv st -> EInv (register U st x).
Proof.
  intros [H1 H2 H3]. unfold register.
  destruct (Amo.add (trk_get (name x) (e_trk st)) (N.to_nat x)) as [t' cs] eqn:Ea.
  constructor; simpl.
  - intro n. destruct (N.eq_dec n (name x)) as [E|E].
    + subst n. destruct (H1 (name x)) as [cs0 [Hi Hc]]. exists (cs0 ++ cs). rewrite trk_get_set_same.
      split; [eapply add_inv; eauto|].
      intros c Hin Hk. apply in_app_or in Hin. destruct Hin as [Hin|Hin].
      * destruct (Hc c Hin Hk) as [a [Ha E]]. exists a. split; [apply in_or_app; left; exact Ha | exact E].
      * apply in_map_iff in Hin. destruct Hin as [a [E Ha]]. exists a. split; [apply in_or_app; right; exact Ha | symmetry; exact E].
    + destruct (H1 n) as [cs0 [Hi Hc]]. exists cs0. rewrite (trk_get_set_other _ _ _ _ E). split; [exact Hi|].
      intros c Hin Hk. apply in_app_or in Hin. destruct Hin as [Hin|Hin]; [apply Hc; assumption|].
      apply in_map_iff in Hin. destruct Hin as [a [Ea' _]]. subst c. rewrite mk_forbid_kind in Hk. congruence.
  - intros c Hin Hf. apply in_app_or in Hin. destruct Hin as [Hin|Hin]; [apply H2; assumption|].
    apply in_map_iff in Hin. destruct Hin as [a [Ea' _]]. subst c. unfold is_forbid in Hf. rewrite mk_forbid_kind in Hf. discriminate.
  - intros n y Hy. destruct (N.eq_dec n (name x)) as [E|E].
    + subst n. rewrite trk_get_set_same in Hy. destruct (add_vars _ _ _ _ Ea y Hy) as [Hold|Hnew].
      * apply H3. exact Hold.
      * subst y. rewrite N2Nat.id. reflexivity.
    + rewrite (trk_get_set_other _ _ _ _ E) in Hy. apply H3. exact Hy.
Qed.

(* every clause of the model's database is a fact w.r.t. the model's tracker indices *)
Theorem einv_facts st : EInv st -> forall c, In c (e_db st) -> factb U P (trk_idx (e_trk st)) c = true.
Proof.
  intros [H1 H2 H3] c Hin. destruct (is_forbid c) eqn:Ef.
  - unfold is_forbid in Ef. destruct (ck c) as [| |n| | | |] eqn:Ek; try discriminate.
    destruct (H1 n) as [cs [Hinv Hc]]. destruct (Hc c Hin Ek) as [[[y k] b] [Ha Ec]].
    destruct Hinv as (ND & _ & _ & _ & ONLY). destruct (ONLY y k b Ha) as [_ [i [Hi Hb]]].
    subst c. unfold factb. cbn [ck cl_lits mk_forbid]. rewrite !N.eqb_refl. cbn [andb].
    assert (Hy : In y (vars (trk_get n (e_trk st)))) by (eapply nth_error_In; exact Hi).
    unfold Spec.name. rewrite (H3 n y Hy), N.eqb_refl. cbn [andb].
    unfold trk_idx. rewrite Nat2N.id, (index_nat_nth y _ i ND Hi), Nat2N.id, Hb.
    unfold bit. apply Bool.eqb_reflx.
  - rewrite (factb_idx_irrel _ (fun _ _ => None) c Ef). apply H2; assumption.
Qed.


(* ---------- preservation by the encoder's steps ---------- *)

Lemma einv_queue_solvable st so st' w : EInv st -> queue_solvable st so = (st', w) -> EInv st'.
Proof.
  intros H. unfold queue_solvable. destruct (mem_so so (e_sols st)); intro E; inversion E; subst; [exact H|].
  apply einv_marks. exact H.
Qed.

Lemma einv_queue_package st n st' w : EInv st -> queue_package st n = (st', w) -> EInv st'.
Proof.
  intros H. unfold queue_package. destruct (memN n (e_pkgs st)); intro E; inversion E; subst; [exact H|].
  apply einv_marks. exact H.
Qed.

Lemma einv_queue_packages ns : forall st st' w, EInv st -> queue_packages st ns = (st', w) -> EInv st'.
Proof.
  induction ns as [|n ns IH]; intros st st' w H; simpl.
  - intro E. inversion E. subst. exact H.
  - destruct (queue_package st n) as [st1 w1] eqn:E1. destruct (queue_packages st1 ns) as [st2 w2] eqn:E2.
    intro E. inversion E. subst. eapply IH; [|exact E2]. eapply einv_queue_package; eauto.
Qed.

Lemma einv_queue_solvables sos : forall st st' w, EInv st -> queue_solvables st sos = (st', w) -> EInv st'.
Proof.
  induction sos as [|so sos IH]; intros st st' w H; simpl.
  - intro E. inversion E. subst. exact H.
  - destruct (queue_solvable st so) as [st1 w1] eqn:E1. destruct (queue_solvables st1 sos) as [st2 w2] eqn:E2.
    intro E. inversion E. subst. eapply IH; [|exact E2]. eapply einv_queue_solvable; eauto.
Qed.

Lemma einv_reveal falses cands : forall st st' w, EInv st -> reveal U falses st cands = (st', w) -> EInv st'.
Proof.
  induction cands as [|c cands IH]; intros st st' w H; simpl.
  - intro E. inversion E. subst. exact H.
  - destruct (if available U (e_cache st) c && negb (memN c falses) then queue_solvable st (Some c) else (st, []))
      as [st1 w1] eqn:E1.
    destruct (reveal U falses (register U st1 c) cands) as [st3 w3] eqn:E3.
    intro E. inversion E. subst. eapply IH; [|exact E3]. apply einv_register.
    destruct (available U (e_cache st) c && negb (memN c falses)).
    + eapply einv_queue_solvable; eauto.
    + inversion E1. subst. exact H.
Qed.

Lemma lits_eqb_refl l : lits_eqb l l = true.
Proof. apply lits_eqb_eq. reflexivity. Qed.
Lemma nll_eqb_refl l : nll_eqb l l = true.
Proof. apply nll_eqb_eq. reflexivity. Qed.

Lemma existsb_req_In r l : In r l -> existsb (req_eqb r) l = true.
Proof. intro H. apply existsb_exists. exists r. split; [exact H | apply req_eqb_eq; reflexivity]. Qed.

Lemma parent_req_ok so r : In r (reqs_of (deps_of U P so)) -> req_parent_ok U P (so_var so) r = true.
Proof.
  destruct so as [s|]; simpl; intro H; apply existsb_req_In.
  - unfold dep_reqs. destruct (p_deps U s); exact H.
  - exact H.
Qed.

Lemma parent_con_ok so v : In v (cons_of (deps_of U P so)) -> con_parent_ok U P (so_var so) v = true.
Proof.
  destruct so as [s|]; simpl; intro H; apply memN_In.
  - unfold dep_cons. destruct (p_deps U s); exact H.
  - exact H.
Qed.

Lemma fact_requires idx so r : In r (reqs_of (deps_of U P so)) -> factb U P idx (mk_requires U so r) = true.
Proof.
  intro H. unfold factb, mk_requires. cbn [ck cl_lits].
  rewrite (parent_req_ok so r H), nll_eqb_refl, lits_eqb_refl. reflexivity.
Qed.

Lemma fact_constrains idx so f v :
  In v (cons_of (deps_of U P so)) -> In f (nonmatching U v) -> factb U P idx (mk_constrains so f v) = true.
Proof.
  intros H Hf. unfold factb, mk_constrains. cbn [ck cl_lits].
  rewrite (parent_con_ok so v H), lits_eqb_refl. apply memN_In in Hf. rewrite Hf. reflexivity.
Qed.

Lemma fact_excluded_list idx n x : In x (p_excluded U n) -> factb U P idx (mk_excluded x) = true.
Proof.
  intro H. unfold factb, mk_excluded. cbn [ck cl_lits]. unfold Spec.name.
  rewrite (wf_excl_name U HW n x H). apply memN_In in H. rewrite H, lits_eqb_refl. reflexivity.
Qed.

Lemma fact_excluded_unknown idx x : p_deps U x = Unknown -> factb U P idx (mk_excluded x) = true.
Proof.
  intro H. unfold factb, mk_excluded. cbn [ck cl_lits]. rewrite H. cbn [is_unknown].
  rewrite orb_true_r, lits_eqb_refl. reflexivity.
Qed.

Lemma fact_lock idx n l o :
  p_locked U n = Some l -> In o (p_cands U n) -> N.eqb o l = false -> factb U P idx (mk_lock l o) = true.
Proof.
  intros Hl Ho Hne. unfold factb, mk_lock. cbn [ck cl_lits]. unfold Spec.name.
  rewrite (wf_cand_name U HW n o Ho), Hl, N.eqb_refl, Hne, lits_eqb_refl.
  apply memN_In in Ho. rewrite Ho. reflexivity.
Qed.

Lemma queue_packages_tasks ns : forall st st' w, queue_packages st ns = (st', w) -> Forall task_ok w.
Proof.
  induction ns as [|n ns IH]; intros st st' w; simpl.
  - intro E. inversion E. constructor.
  - destruct (queue_package st n) as [st1 w1] eqn:E1. destruct (queue_packages st1 ns) as [st2 w2] eqn:E2.
    intro E. inversion E. subst. apply Forall_app. split; [|eapply IH; eauto].
    unfold queue_package in E1. destruct (memN n (e_pkgs st)); inversion E1; repeat constructor.
Qed.

Lemma reveal_tasks falses cands : forall st st' w, reveal U falses st cands = (st', w) -> Forall task_ok w.
Proof.
  induction cands as [|x xs IH]; intros st st' w; simpl.
  - intro E. inversion E. constructor.
  - destruct (if available U (e_cache st) x && negb (memN x falses) then queue_solvable st (Some x) else (st, []))
      as [st1 w1] eqn:E1.
    destruct (reveal U falses (register U st1 x) xs) as [st3 w3] eqn:E3. intro E. inversion E. subst.
    apply Forall_app. split; [|eapply IH; eauto].
    destruct (available U (e_cache st) x && negb (memN x falses)); [|inversion E1; constructor].
    unfold queue_solvable in E1. destruct (mem_so (Some x) (e_sols st)); inversion E1; repeat constructor.
Qed.

Lemma einv_run_one falses st t st' w :
  EInv st -> task_ok t -> run_one U P falses st t = (st', w) -> EInv st' /\ Forall task_ok w.
Proof.
  intros H Ht. destruct t as [so|n|so r|so v]; cbn [run_one].
  - (* TDeps *)
    set (st1 := match so with None => st | Some s => let '(c, k) := req_deps (e_cache st) s in add_calls st c k end).
    assert (H1 : EInv st1).
    { unfold st1. destruct so as [s|]; [|exact H]. destruct (req_deps (e_cache st) s) as [c k]. apply einv_cache. exact H. }
    destruct (deps_of U P so) as [rs cs|] eqn:Ed.
    + destruct (queue_packages st1 (map (p_vs_name U) (flat_map (req_vss U) rs ++ cs))) as [st2 w2] eqn:E2.
      intro E. inversion E. subst. split; [eapply einv_queue_packages; eauto|].
      apply Forall_app. split.
      * eapply queue_packages_tasks; eauto.
      * apply Forall_app. split; apply Forall_forall; intros t Hin; apply in_map_iff in Hin;
          destruct Hin as [x [Ex Hx]]; subst t; simpl; rewrite Ed; exact Hx.
    + intro E. inversion E. subst. split; [|constructor].
      apply einv_add_clauses; [exact H1|]. intros c Hc. destruct so as [s|]; [|destruct Hc].
      destruct Hc as [Hc|[]]. subst c. split; [reflexivity|]. apply fact_excluded_unknown. exact Ed.
  - (* TCands *)
    destruct (req_cands_of (e_cache st) n) as [c k]. intro E. inversion E. subst. split; [|constructor].
    apply einv_add_clauses; [apply einv_cache; exact H|]. intros c0 Hc. apply in_app_or in Hc. destruct Hc as [Hc|Hc].
    + destruct (p_locked U n) as [l|] eqn:El; [|destruct Hc]. apply in_map_iff in Hc. destruct Hc as [o [Eo Ho]].
      subst c0. apply filter_In in Ho. destruct Ho as [Ho Hne]. apply negb_true_iff in Hne.
      split; [reflexivity|]. eapply fact_lock; eauto.
    + apply in_map_iff in Hc. destruct Hc as [x [Ex Hx]]. subst c0. split; [reflexivity|].
      eapply fact_excluded_list; eauto.
  - (* TReq *)
    destruct (req_sorted_all U (e_cache st) (req_vss U r)) as [c k].
    destruct (reveal U falses (add_calls st c k) (req_cands U r)) as [st2 w2] eqn:E2.
    intro E. inversion E. subst. split.
    + apply einv_add_clauses; [eapply einv_reveal; [|exact E2]; apply einv_cache; exact H|].
      intros c0 [Hc|[]]. subst c0. split; [reflexivity|]. apply fact_requires. exact Ht.
    + eapply reveal_tasks; eauto.
  - (* TCon *)
    destruct (req_nonmatching U (e_cache st) v) as [c k]. intro E. inversion E. subst. split; [|constructor].
    apply einv_add_clauses; [apply einv_cache; exact H|]. intros c0 Hc. apply in_map_iff in Hc.
    destruct Hc as [f [Ef Hf]]. subst c0. split; [reflexivity|]. apply fact_constrains; assumption.
Qed.

Lemma queue_solvables_tasks sos : forall st st' w, queue_solvables st sos = (st', w) -> Forall task_ok w.
Proof.
  induction sos as [|so sos IH]; intros st st' w; simpl.
  - intro E. inversion E. constructor.
  - destruct (queue_solvable st so) as [st1 w1] eqn:E1. destruct (queue_solvables st1 sos) as [st2 w2] eqn:E2.
    intro E. inversion E. subst. apply Forall_app. split; [|eapply IH; eauto].
    unfold queue_solvable in E1. destruct (mem_so so (e_sols st)); inversion E1; repeat constructor.
Qed.

(* ---------- picking a pending future ---------- *)

Lemma optN_eqb_eq a b : optN_eqb a b = true <-> a = b.
Proof.
  destruct a as [x|], b as [y|]; simpl; try (split; [discriminate | intro H; discriminate H]); [|split; reflexivity].
  rewrite N.eqb_eq. split; [intro; subst; reflexivity | intro H; inversion H; reflexivity].
Qed.

Lemma task_eqb_eq a b : task_eqb a b = true <-> a = b.
Proof.
  destruct a, b; simpl; try (split; [discriminate | intro H; discriminate H]).
  - rewrite optN_eqb_eq. split; [intro; subst; reflexivity | intro H; inversion H; reflexivity].
  - rewrite N.eqb_eq. split; [intro; subst; reflexivity | intro H; inversion H; reflexivity].
  - rewrite andb_true_iff, optN_eqb_eq, req_eqb_eq. split; [intros [? ?]; subst; reflexivity | intro H; inversion H; auto].
  - rewrite andb_true_iff, optN_eqb_eq, N.eqb_eq. split; [intros [? ?]; subst; reflexivity | intro H; inversion H; auto].
Qed.

Lemma remove_task_In t : forall w w', remove_task t w = Some w' -> forall x, In x w <-> x = t \/ In x w'.
Proof.
  induction w as [|y r IH]; intros w'; simpl; [discriminate|].
  destruct (task_eqb y t) eqn:E.
  - apply task_eqb_eq in E. subst y. intro H. inversion H. subst. intro x. split; intros [A|A]; auto.
  - destruct (remove_task t r) as [r'|] eqn:Er; [|discriminate]. intro H. inversion H. subst.
    intro x. simpl. rewrite (IH r' eq_refl x). tauto.
Qed.

Lemma remove_task_Forall {Q : task -> Prop} t w w' : remove_task t w = Some w' -> Forall Q w -> Q t /\ Forall Q w'.
Proof.
  intros H HF. rewrite Forall_forall in HF. split.
  - apply HF. apply (remove_task_In t w w' H). left. reflexivity.
  - apply Forall_forall. intros x Hx. apply HF. apply (remove_task_In t w w' H). right. exact Hx.
Qed.

Lemma einv_enc_run evs : forall st work tr st' work',
  EInv st -> Forall task_ok work -> enc_run U P st work tr evs = Some (st', work') -> EInv st' /\ Forall task_ok work'.
Proof.
  induction evs as [|e evs IH]; intros st work tr st' work' H Hw; simpl.
  - intro E. inversion E. subst. auto.
  - destruct e as [sos|k|s|e].
    + destruct work as [|x work0]; [|discriminate].
      destruct (queue_solvables st sos) as [st1 w] eqn:E1. apply IH.
      * eapply einv_queue_solvables; eauto.
      * eapply queue_solvables_tasks; eauto.
    + destruct (remove_task k work) as [work0|] eqn:Er; [|discriminate].
      destruct (remove_task_Forall k work work0 Er Hw) as [Hk Hw0].
      destruct (run_one U P (falses_of tr) st k) as [st1 w1] eqn:E1.
      destruct (einv_run_one _ _ _ _ _ H Hk E1) as [H1 Hw1].
      apply IH; [exact H1 | apply Forall_app; split; assumption].
    + apply IH; [apply einv_register; exact H | exact Hw].
    + apply IH; assumption.
Qed.

(* T1: for every provider, problem, cache contents, trail history, sequence of
   encoder invocations AND completion order of the encoder's futures, every
   clause the encoder model has added is a fact *)
Theorem enc_facts c evs st work :
  enc_run U P (estate0 c) [] [] evs = Some (st, work) ->
  forall x, In x (e_db st) -> factb U P (trk_idx (e_trk st)) x = true.
Proof.
  intros E. apply einv_facts. eapply (einv_enc_run evs (estate0 c) [] [] st work); [apply einv0 | constructor | exact E].
Qed.

(* T1': the encoder never excludes a valid selection: every clause it adds is
   true in the assignment of every valid selection (Unsolvable can only be
   reported when there is none) *)
Theorem enc_sound c evs st work S :
  enc_run U P (estate0 c) [] [] evs = Some (st, work) -> valid U P S [] ->
  forall x, In x (e_db st) -> cl_true (a_sel U (trk_idx (e_trk st)) S) (cl_lits x) = true.
Proof.
  intros E Hv x Hx. apply (E1 U P (trk_idx (e_trk st)) HW S x Hv). eapply enc_facts; eauto.
Qed.

End Proofs.
