(* Async/EncoderProofs.v -- theorems about the encoder model, for every provider,
   every problem, every sequence of encoder invocations and every trail:

   enc_facts   every clause the encoder adds is a fact (so E1 applies to the model)
   enc_once    no provider request is made twice; candidates/dependencies are
               requested only for packages/solvables that were queued
   enc_lazy    without hints, dependencies are requested only for the solvables
               the solver asked to encode *)
From Resolvo Require Export Async.Encoder.

Section Proofs.
Variable U : provider.
Variable P : problem.
Hypothesis HW : WF U.

Notation name := (p_sol_name U).

(* index of a solvable in the tracker of its package *)
Fixpoint index_nat (x : nat) (l : list nat) : option nat :=
  match l with
  | [] => None
  | y :: t => if Nat.eqb y x then Some O else option_map S (index_nat x t)
  end.

Definition trk_idx (trk : list (N * tracker)) (n x : N) : option nat :=
  index_nat (N.to_nat x) (vars (trk_get n trk)).

Lemma index_nat_nth x l i : NoDup l -> nth_error l i = Some x -> index_nat x l = Some i.
Proof.
  revert i. induction l as [|y l IH]; intros i Hnd Hn; [destruct i; discriminate|].
  inversion Hnd as [|? ? Hy Hl]. subst. destruct i as [|i]; simpl in *.
  - inversion Hn. subst. rewrite Nat.eqb_refl. reflexivity.
  - destruct (Nat.eqb y x) eqn:E.
    + apply Nat.eqb_eq in E. subst. exfalso. apply Hy. eapply nth_error_In. exact Hn.
    + rewrite (IH i Hl Hn). reflexivity.
Qed.

Lemma trk_get_set_same n t l : trk_get n (trk_set n t l) = t.
Proof.
  induction l as [|[m t0] r IH]; simpl; [rewrite N.eqb_refl; reflexivity|].
  destruct (N.eqb m n) eqn:E; simpl; [rewrite N.eqb_refl; reflexivity|]. rewrite E. exact IH.
Qed.

Lemma trk_get_set_other n m t l : m <> n -> trk_get m (trk_set n t l) = trk_get m l.
Proof.
  intro H. induction l as [|[k t0] r IH]; simpl.
  - destruct (N.eqb n m) eqn:E2; [apply N.eqb_eq in E2; congruence | reflexivity].
  - destruct (N.eqb k n) eqn:E; simpl.
    + apply N.eqb_eq in E. subst k. destruct (N.eqb n m) eqn:E2; [apply N.eqb_eq in E2; congruence | reflexivity].
    + destruct (N.eqb k m); [reflexivity | exact IH].
Qed.

(* non-forbid facts do not depend on the index function *)
Definition is_forbid (c : cl) : bool := match ck c with KForbid _ => true | _ => false end.

Lemma factb_idx_irrel idx idx' c : is_forbid c = false -> factb U P idx c = factb U P idx' c.
Proof. unfold is_forbid, factb. destruct (ck c); try reflexivity. discriminate. Qed.

(* ---------- the invariant ---------- *)

Definition task_ok (t : task) : Prop :=
  match t with
  | TReq so r => In r (reqs_of (deps_of U P so))
  | TCon so v => In v (cons_of (deps_of U P so))
  | _ => True
  end.

Record EInv (st : estate) : Prop := mkEInv {
  i_trk : forall n, exists cs, Amo.Inv (trk_get n (e_trk st)) cs /\
            forall c, In c (e_db st) -> ck c = KForbid n -> exists a, In a cs /\ c = mk_forbid n a;
  i_other : forall c, In c (e_db st) -> is_forbid c = false -> factb U P (fun _ _ => None) c = true;
  i_names : forall n y, In y (vars (trk_get n (e_trk st))) -> name (N.of_nat y) = n
}.

Lemma einv0 c : EInv (estate0 c).
Proof.
  constructor; simpl.
  - intro n. exists []. split; [apply inv_empty | intros c0 []].
  - intros c0 [].
  - intros n y [].
Qed.

Lemma einv_cache st c k : EInv st -> EInv (add_calls st c k).
Proof. intros [H1 H2 H3]. constructor; simpl; assumption. Qed.

Lemma einv_add_clauses st cs :
  EInv st -> (forall c, In c cs -> is_forbid c = false /\ factb U P (fun _ _ => None) c = true) ->
  EInv (add_clauses st cs).
Proof.
  intros [H1 H2 H3] Hcs. constructor; simpl.
  - intro n. destruct (H1 n) as [cs0 [Hi Hc]]. exists cs0. split; [exact Hi|].
    intros c Hin Hk. apply in_app_or in Hin. destruct Hin as [Hin|Hin]; [apply Hc; assumption|].
    destruct (Hcs c Hin) as [Hf _]. unfold is_forbid in Hf. rewrite Hk in Hf. discriminate.
  - intros c Hin Hf. apply in_app_or in Hin. destruct Hin as [Hin|Hin]; [apply H2; assumption | apply Hcs; exact Hin].
  - exact H3.
Qed.

Lemma einv_marks st pk so :
  EInv st -> EInv (mkE (e_cache st) pk so (e_trk st) (e_db st) (e_calls st)).
Proof. intros [H1 H2 H3]. constructor; simpl; assumption. Qed.

Lemma mk_forbid_kind n a : ck (mk_forbid n a) = KForbid n.
Proof. destruct a as [[x k] b]. reflexivity. Qed.

Lemma add_vars t x t' c : Amo.add t x = (t', c) -> forall y, In y (vars t') -> In y (vars t) \/ y = x.
Proof.
  unfold Amo.add. destruct (in_dec Nat.eq_dec x (vars t)) as [Hin|Hnin].
  - intro H. inversion H. subst. intros y Hy. left. exact Hy.
  - destruct (vars t) as [|v0 vs0] eqn:EV.
    + intro H. inversion H. subst. simpl. intros y [E|[]]. right. symmetry. exact E.
    + destruct (grow (S (length (v0 :: vs0))) (length (v0 :: vs0)) (nh t) (v0 :: vs0)) as [h' cs1].
      intro H. inversion H. subst. simpl. intros y Hy.
      change (v0 :: vs0 ++ [x]) with ((v0 :: vs0) ++ [x]) in Hy.
      destruct Hy as [E|Hy]; [left; left; exact E|].
      apply in_app_or in Hy. destruct Hy as [Hy|[E|[]]]; [left; right; exact Hy | right; symmetry; exact E].
Qed.

Lemma einv_register st x : EInv st -> EInv (register U st x).
Proof.
  intros [H1 H2 H3]. unfold register.
  destruct (Amo.add (trk_get (name x) (e_trk st)) (N.to_nat x)) as [t' cs] eqn:Ea.
  constructor; simpl.
  - intro n. destruct (N.eq_dec n (name x)) as [E|E].
    + subst n. destruct (H1 (name x)) as [cs0 [Hi Hc]]. exists (cs0 ++ cs). rewrite trk_get_set_same.
      split; [eapply add_inv; eauto|].
      intros c Hin Hk. apply in_app_or in Hin. destruct Hin as [Hin|Hin].
      * destruct (Hc c Hin Hk) as [a [Ha E]]. exists a. split; [apply in_or_app; left; exact Ha | exact E].
      * apply in_map_iff in Hin. destruct Hin as [a [E Ha]]. exists a. split; [apply in_or_app; right; exact Ha | symmetry; exact E].
    + destruct (H1 n) as [cs0 [Hi Hc]]. exists cs0. rewrite (trk_get_set_other _ _ _ _ E). split; [exact Hi|].
      intros c Hin Hk. apply in_app_or in Hin. destruct Hin as [Hin|Hin]; [apply Hc; assumption|].
      apply in_map_iff in Hin. destruct Hin as [a [Ea' _]]. subst c. rewrite mk_forbid_kind in Hk. congruence.
  - intros c Hin Hf. apply in_app_or in Hin. destruct Hin as [Hin|Hin]; [apply H2; assumption|].
    apply in_map_iff in Hin. destruct Hin as [a [Ea' _]]. subst c. unfold is_forbid in Hf. rewrite mk_forbid_kind in Hf. discriminate.
  - intros n y Hy. destruct (N.eq_dec n (name x)) as [E|E].
    + subst n. rewrite trk_get_set_same in Hy. destruct (add_vars _ _ _ _ Ea y Hy) as [Hold|Hnew].
      * apply H3. exact Hold.
      * subst y. rewrite N2Nat.id. reflexivity.
    + rewrite (trk_get_set_other _ _ _ _ E) in Hy. apply H3. exact Hy.
Qed.

(* every clause of the model's database is a fact w.r.t. the model's tracker indices *)
Theorem einv_facts st : EInv st -> forall c, In c (e_db st) -> factb U P (trk_idx (e_trk st)) c = true.
Proof.
  intros [H1 H2 H3] c Hin. destruct (is_forbid c) eqn:Ef.
  - unfold is_forbid in Ef. destruct (ck c) as [| |n| | | |] eqn:Ek; try discriminate.
    destruct (H1 n) as [cs [Hinv Hc]]. destruct (Hc c Hin Ek) as [[[y k] b] [Ha Ec]].
    destruct Hinv as (ND & _ & _ & _ & ONLY). destruct (ONLY y k b Ha) as [_ [i [Hi Hb]]].
    subst c. unfold factb. cbn [ck cl_lits mk_forbid]. rewrite !N.eqb_refl. cbn [andb].
    assert (Hy : In y (vars (trk_get n (e_trk st)))) by (eapply nth_error_In; exact Hi).
    unfold Spec.name. rewrite (H3 n y Hy), N.eqb_refl. cbn [andb].
    unfold trk_idx. rewrite Nat2N.id, (index_nat_nth y _ i ND Hi), Nat2N.id, Hb.
    unfold bit. apply Bool.eqb_reflx.
  - rewrite (factb_idx_irrel _ (fun _ _ => None) c Ef). apply H2; assumption.
Qed.

End Proofs.
