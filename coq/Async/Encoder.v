(* Async/Encoder.v -- executable model of src/solver/encoding.rs + the request
   side of src/solver/cache.rs, for a provider whose futures complete at once
   (the synchronous runtime): which provider calls are made, in which order, and
   which clauses are added, in which order.

   One [encode] call is a FIFO worklist of tasks exactly like the
   FuturesUnordered of the code: every future completes on its first poll, its
   result is handled before the next one is polled, newly queued futures go to
   the back. *)
From Resolvo Require Export Cdcl.Trail Enc.Amo Async.History.

Inductive pcall :=
| CCands (n : N) | CDeps (s : N) | CFilter (v : N) (inverse : bool) | CSort (l : list N).

(* what the persistent SolverCache holds *)
Record ecache := mkCache {
  c_cands : list N;       (* packages whose candidates were fetched *)
  c_deps : list N;        (* solvables whose dependencies were fetched *)
  c_match : list N;       (* version sets with cached matching candidates *)
  c_nonmatch : list N;    (* ... non-matching candidates *)
  c_sorted : list N       (* ... sorted candidates *)
}.
Definition cache0 : ecache := mkCache [] [] [] [] [].

(* per-solve encoder state *)
Record estate := mkE {
  e_cache : ecache;
  e_pkgs : list N;                         (* clauses_added_for_package *)
  e_sols : list (option N);                (* clauses_added_for_solvable (None = root) *)
  e_trk : list (N * tracker);              (* forbidden_clauses_added *)
  e_db : list cl;                          (* clauses in allocation order (without the root clause) *)
  e_calls : list pcall                     (* provider calls in order *)
}.
Definition estate0 (c : ecache) : estate := mkE c [] [] [] [] [].

Inductive task :=
| TDeps (so : option N) | TCands (n : N) | TReq (so : option N) (r : req) | TCon (so : option N) (v : N).

Definition so_var (so : option N) : var := match so with None => VRoot | Some s => VSol s end.

Definition optN_eqb (a b : option N) : bool :=
  match a, b with
  | None, None => true
  | Some x, Some y => N.eqb x y
  | _, _ => false
  end.
Definition mem_so (so : option N) (l : list (option N)) : bool := existsb (optN_eqb so) l.

Section Enc.
Variable U : provider.
Variable P : problem.

(* ---------- cache requests ---------- *)

(* get_or_cache_candidates *)
Definition req_cands_of (c : ecache) (n : N) : ecache * list pcall :=
  if memN n (c_cands c) then (c, [])
  else (mkCache (n :: c_cands c) (c_deps c) (c_match c) (c_nonmatch c) (c_sorted c), [CCands n]).

(* get_or_cache_matching_candidates *)
Definition req_matching (c : ecache) (v : N) : ecache * list pcall :=
  if memN v (c_match c) then (c, [])
  else
    let '(c1, k1) := req_cands_of c (p_vs_name U v) in
    (mkCache (c_cands c1) (c_deps c1) (v :: c_match c1) (c_nonmatch c1) (c_sorted c1), k1 ++ [CFilter v false]).

(* get_or_cache_non_matching_candidates *)
Definition req_nonmatching (c : ecache) (v : N) : ecache * list pcall :=
  if memN v (c_nonmatch c) then (c, [])
  else
    let '(c1, k1) := req_cands_of c (p_vs_name U v) in
    (mkCache (c_cands c1) (c_deps c1) (c_match c1) (v :: c_nonmatch c1) (c_sorted c1), k1 ++ [CFilter v true]).

(* get_or_cache_sorted_candidates_for_version_set *)
Definition req_sorted (c : ecache) (v : N) : ecache * list pcall :=
  if memN v (c_sorted c) then (c, [])
  else
    let '(c1, k1) := req_matching c v in
    let '(c2, k2) := req_cands_of c1 (p_vs_name U v) in
    (mkCache (c_cands c2) (c_deps c2) (c_match c2) (c_nonmatch c2) (v :: c_sorted c2),
     k1 ++ k2 ++ [CSort (matching U v)]).

(* get_or_cache_dependencies *)
Definition req_deps (c : ecache) (s : N) : ecache * list pcall :=
  if memN s (c_deps c) then (c, [])
  else (mkCache (c_cands c) (s :: c_deps c) (c_match c) (c_nonmatch c) (c_sorted c), [CDeps s]).

(* are_dependencies_available_for *)
Definition hinted (c : ecache) (s : N) : bool :=
  existsb (fun n => match p_hint U n with
                    | HNone => false
                    | HAll => memN s (p_cands U n)
                    | HSome l => memN s l
                    end) (c_cands c).
Definition available (c : ecache) (s : N) : bool := memN s (c_deps c) || hinted c s.

(* ---------- clause construction ---------- *)

Definition mk_requires (so : option N) (r : req) : cl :=
  let cands := map (sorted_cands U) (req_vss U r) in
  mkCl (KRequires (so_var so) r cands) ((so_var so, false) :: map pos (concat cands)).
Definition mk_constrains (so : option N) (f v : N) : cl :=
  mkCl (KConstrains (so_var so) f v) [(so_var so, false); nlit f].
Definition mk_lock (l o : N) : cl := mkCl (KLock l o) [nlit o; (VRoot, false)].
Definition mk_excluded (x : N) : cl := mkCl (KExcluded x 0) [nlit x].
Definition mk_forbid (n : N) (c : Amo.clause) : cl :=
  let '(x, k, b) := c in
  mkCl (KForbid n) [(VSol (N.of_nat x), false); (VHelp n (N.of_nat k), b)].

Fixpoint trk_get (n : N) (l : list (N * tracker)) : tracker :=
  match l with
  | [] => Amo.empty
  | (m, t) :: r => if N.eqb m n then t else trk_get n r
  end.
Fixpoint trk_set (n : N) (t : tracker) (l : list (N * tracker)) : list (N * tracker) :=
  match l with
  | [] => [(n, t)]
  | (m, t0) :: r => if N.eqb m n then (n, t) :: r else (m, t0) :: trk_set n t r
  end.

(* register a candidate in the at-most-one tracker of its package *)
Definition register (st : estate) (x : N) : estate :=
  let n := p_sol_name U x in
  let '(t', cs) := Amo.add (trk_get n (e_trk st)) (N.to_nat x) in
  mkE (e_cache st) (e_pkgs st) (e_sols st) (trk_set n t' (e_trk st)) (e_db st ++ map (mk_forbid n) cs) (e_calls st).

Definition add_clauses (st : estate) (cs : list cl) : estate :=
  mkE (e_cache st) (e_pkgs st) (e_sols st) (e_trk st) (e_db st ++ cs) (e_calls st).
Definition add_calls (st : estate) (c : ecache) (k : list pcall) : estate :=
  mkE c (e_pkgs st) (e_sols st) (e_trk st) (e_db st) (e_calls st ++ k).

(* queue_solvable / queue_package: mark and produce the task, unless already processed *)
Definition queue_solvable (st : estate) (so : option N) : estate * list task :=
  if mem_so so (e_sols st) then (st, [])
  else (mkE (e_cache st) (e_pkgs st) (so :: e_sols st) (e_trk st) (e_db st) (e_calls st), [TDeps so]).
Definition queue_package (st : estate) (n : N) : estate * list task :=
  if memN n (e_pkgs st) then (st, [])
  else (mkE (e_cache st) (n :: e_pkgs st) (e_sols st) (e_trk st) (e_db st) (e_calls st), [TCands n]).

Fixpoint queue_packages (st : estate) (ns : list N) : estate * list task :=
  match ns with
  | [] => (st, [])
  | n :: t => let '(st1, w1) := queue_package st n in
              let '(st2, w2) := queue_packages st1 t in (st2, w1 ++ w2)
  end.

Definition deps_of (so : option N) : deps :=
  match so with None => Known (pr_reqs P) (pr_cons P) | Some s => p_deps U s end.

(* the candidates of a requirement: for each one, maybe queue its dependencies
   (available and not already false), then register it *)
Fixpoint reveal (falses : list N) (st : estate) (cands : list N) : estate * list task :=
  match cands with
  | [] => (st, [])
  | c :: t =>
    let '(st1, w1) := if available (e_cache st) c && negb (memN c falses)
                      then queue_solvable st (Some c) else (st, []) in
    let st2 := register st1 c in
    let '(st3, w3) := reveal falses st2 t in (st3, w1 ++ w3)
  end.

Fixpoint req_sorted_all (c : ecache) (vs : list N) : ecache * list pcall :=
  match vs with
  | [] => (c, [])
  | v :: t => let '(c1, k1) := req_sorted c v in
              let '(c2, k2) := req_sorted_all c1 t in (c2, k1 ++ k2)
  end.

(* run one task to completion: provider calls, then the result handler *)
Definition run_one (falses : list N) (st : estate) (t : task) : estate * list task :=
  match t with
  | TDeps so =>
    let st1 := match so with
               | None => st
               | Some s => let '(c, k) := req_deps (e_cache st) s in add_calls st c k
               end in
    match deps_of so with
    | Unknown => (add_clauses st1 (match so with Some s => [mk_excluded s] | None => [] end), [])
    | Known rs cs =>
      let '(st2, w2) := queue_packages st1 (map (p_vs_name U) (flat_map (req_vss U) rs ++ cs)) in
      (st2, w2 ++ map (TReq so) rs ++ map (TCon so) cs)
    end
  | TCands n =>
    let '(c, k) := req_cands_of (e_cache st) n in
    let st1 := add_calls st c k in
    let locks := match p_locked U n with
                 | Some l => map (mk_lock l) (filter (fun o => negb (N.eqb o l)) (p_cands U n))
                 | None => []
                 end in
    (add_clauses st1 (locks ++ map mk_excluded (p_excluded U n)), [])
  | TReq so r =>
    let '(c, k) := req_sorted_all (e_cache st) (req_vss U r) in
    let st1 := add_calls st c k in
    let '(st2, w2) := reveal falses st1 (req_cands U r) in
    (add_clauses st2 [mk_requires so r], w2)
  | TCon so v =>
    let '(c, k) := req_nonmatching (e_cache st) v in
    let st1 := add_calls st c k in
    (add_clauses st1 (map (fun f => mk_constrains so f v) (nonmatching U v)), [])
  end.

Fixpoint queue_solvables (st : estate) (sos : list (option N)) : estate * list task :=
  match sos with
  | [] => (st, [])
  | so :: t => let '(st1, w1) := queue_solvable st so in
               let '(st2, w2) := queue_solvables st1 t in (st2, w1 ++ w2)
  end.

(* ---------- a whole solve: encoder invocations, completions of the encoder's
   futures in the order they happen, and the trail ---------- *)

Definition task_eqb (a b : task) : bool :=
  match a, b with
  | TDeps x, TDeps y => optN_eqb x y
  | TCands n, TCands m => N.eqb n m
  | TReq x r, TReq y q => optN_eqb x y && req_eqb r q
  | TCon x v, TCon y w => optN_eqb x y && N.eqb v w
  | _, _ => false
  end.

(* take one pending future out of the set *)
Fixpoint remove_task (t : task) (w : list task) : option (list task) :=
  match w with
  | [] => None
  | x :: r => if task_eqb x t then Some r else option_map (cons x) (remove_task t r)
  end.

Inductive sev :=
| SEncode (sos : list (option N))    (* Encoder::encode(..) is entered with the trail as it is now *)
| SDone (t : task)                   (* one pending future of the encoder completes and its result is handled *)
| SSoft (s : N)                      (* soft requirement registered before its run_sat *)
| STrail (e : event).                (* a change of the trail *)

Fixpoint falses_of (tr : list lit) : list N :=
  match tr with
  | [] => []
  | (VSol s, false) :: t => s :: falses_of t
  | _ :: t => falses_of t
  end.

(* the trail only matters through which solvables are false when a requirement is revealed *)
Definition trail_step (tr : list lit) (e : event) : list lit :=
  match e with
  | EvAssign l _ => l :: tr
  | EvUndoLast => tl tr
  | EvClear => []
  end.

(* ANY completion order: the events say which pending future completes next.
   [None]: a completion of something that is not pending, or encode entered
   while futures are pending. *)
Fixpoint enc_run (st : estate) (work : list task) (tr : list lit) (evs : list sev) : option (estate * list task) :=
  match evs with
  | [] => Some (st, work)
  | SEncode sos :: t =>
    match work with
    | [] => let '(st1, w) := queue_solvables st sos in enc_run st1 w tr t
    | _ :: _ => None
    end
  | SDone k :: t =>
    match remove_task k work with
    | Some work' => let '(st1, w1) := run_one (falses_of tr) st k in enc_run st1 (work' ++ w1) tr t
    | None => None
    end
  | SSoft s :: t => enc_run (register st s) work tr t
  | STrail e :: t => enc_run st work (trail_step tr e) t
  end.

(* the synchronous runtime completes futures first-in first-out *)
Fixpoint fifo_ok (st : estate) (work : list task) (tr : list lit) (evs : list sev) : bool :=
  match evs with
  | [] => true
  | SEncode sos :: t =>
    let '(st1, w) := queue_solvables st sos in fifo_ok st1 w tr t
  | SDone k :: t =>
    match work with
    | x :: work' => task_eqb x k && let '(st1, w1) := run_one (falses_of tr) st k in fifo_ok st1 (work' ++ w1) tr t
    | [] => false
    end
  | SSoft s :: t => fifo_ok (register st s) work tr t
  | STrail e :: t => fifo_ok st work (trail_step tr e) t
  end.

(* the trail the events leave behind *)
Fixpoint final_trail (tr : list lit) (evs : list sev) : list lit :=
  match evs with
  | [] => tr
  | STrail e :: t => final_trail (trail_step tr e) t
  | _ :: t => final_trail tr t
  end.

(* the solver asks the encoder only for variables it has assigned true *)
Definition is_true (tr : list lit) (so : option N) : bool :=
  existsb (lit_eqb (so_var so, true)) tr.
Fixpoint req_true_ok (tr : list lit) (evs : list sev) : bool :=
  match evs with
  | [] => true
  | SEncode sos :: t => forallb (is_true tr) sos && req_true_ok tr t
  | SSoft _ :: t => req_true_ok tr t
  | SDone _ :: t => req_true_ok tr t
  | STrail e :: t => req_true_ok (trail_step tr e) t
  end.

(* when the solver announces a solution: the root and every selected solvable
   were encoded, and so was the package of every selected solvable that is not
   an exempt (directly requested soft) one *)
Definition enc_final_ok (st : estate) (S ex : list N) : bool :=
  mem_so None (e_sols st) &&
  forallb (fun s => mem_so (Some s) (e_sols st) && (memN s ex || memN (p_sol_name U s) (e_pkgs st))) S.

End Enc.

(* ---------- correspondence check: the implementation's clause database and
   provider-call history equal the model's ---------- *)

Definition kind_same (a b : kind) : bool :=
  match a, b with
  | KRoot, KRoot => true
  | KRequires p r cs, KRequires p' r' cs' => var_eqb p p' && req_eqb r r' && nll_eqb cs cs'
  | KForbid n, KForbid n' => N.eqb n n'
  | KConstrains p f v, KConstrains p' f' v' => var_eqb p p' && N.eqb f f' && N.eqb v v'
  | KLock l o, KLock l' o' => N.eqb l l' && N.eqb o o'
  | KExcluded x _, KExcluded x' _ => N.eqb x x'        (* the reason string is not modelled *)
  | _, _ => false
  end.

Definition cl_same (a b : cl) : bool := kind_same (ck a) (ck b) && lits_eqb (cl_lits a) (cl_lits b).

Fixpoint cls_same (a b : list cl) : bool :=
  match a, b with
  | [], [] => true
  | x :: a', y :: b' => cl_same x y && cls_same a' b'
  | _, _ => false
  end.

Definition pcall_eqb (a b : pcall) : bool :=
  match a, b with
  | CCands n, CCands m => N.eqb n m
  | CDeps s, CDeps t => N.eqb s t
  | CFilter v i, CFilter w j => N.eqb v w && Bool.eqb i j
  | CSort l, CSort m => nl_eqb l m
  | _, _ => false
  end.

Fixpoint pcalls_eqb (a b : list pcall) : bool :=
  match a, b with
  | [] , [] => true
  | x :: a', y :: b' => pcall_eqb x y && pcalls_eqb a' b'
  | _, _ => false
  end.

(* the same provider calls the same number of times, in any order (runs under a completion order that is not
   first-in first-out issue them in another order) *)
Fixpoint remove_pcall (x : pcall) (l : list pcall) : option (list pcall) :=
  match l with
  | [] => None
  | y :: t => if pcall_eqb x y then Some t else option_map (cons y) (remove_pcall x t)
  end.
Fixpoint pcalls_permb (a b : list pcall) : bool :=
  match a with
  | [] => match b with [] => true | _ => false end
  | x :: t => match remove_pcall x b with Some b' => pcalls_permb t b' | None => false end
  end.

(* the non-learnt clauses of a dump, without the root clause *)
Definition encoder_clauses (db : list cl) : list cl :=
  filter (fun c => negb (is_learnt c) && match ck c with KRoot => false | _ => true end) db.

(* a solve on a solver whose cache is c0 (cache0 for a fresh solver): model
   database and calls for the logged completion order; all futures completed
   when encode returned / at the end *)
Definition check_encoder_from (c0 : ecache) (U : provider) (P : problem) (evs : list sev)
           (db : list cl) (calls : list pcall) : bool * bool * bool :=
  match enc_run U P (estate0 c0) [] [] evs with
  | Some (st, work) =>
      (cls_same (encoder_clauses db) (e_db st), pcalls_eqb calls (e_calls st),
       match work with [] => true | _ => false end)
  | None => (false, false, false)
  end.
Definition check_encoder := check_encoder_from cache0.

(* for a run that ended with a solution: requests only for true variables, the
   events leave the dumped trail, everything selected was encoded *)
Definition check_encoder_final_from (c0 : ecache) (U : provider) (P : problem) (evs : list sev)
           (trail : list lit) : bool * bool * bool :=
  match enc_run U P (estate0 c0) [] [] evs with
  | Some (st, _) =>
      let tr := final_trail [] evs in
      (req_true_ok [] evs, lits_eqb (rev tr) trail,
       enc_final_ok U st (sel_of tr) (exempt U P (sel_of tr)))
  | None => (false, false, false)
  end.
Definition check_encoder_final := check_encoder_final_from cache0.

(* the cache a solve leaves behind for the next solve on the same solver *)
Definition cache_after (c0 : ecache) (U : provider) (P : problem) (evs : list sev) : option ecache :=
  match enc_run U P (estate0 c0) [] [] evs with
  | Some (st, _) => Some (e_cache st)
  | None => None
  end.
