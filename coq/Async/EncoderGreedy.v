(* Async/EncoderGreedy.v -- C09, second sentence: on a conflict-free problem,
   without hints, on a fresh solver, dependencies are requested for exactly the
   solvables of the solution and candidates for exactly the names they and the
   root mention.  Combines the encoder model (enc_exact), the invariant of the
   CDCL machine on greedy_ok problems (run_holds: every trail stays inside the
   greedy selection G) and the final-state theorem (greedy_final: the announced
   solution is G). *)
From Resolvo Require Export Async.EncoderSafe Cdcl.Greedy.

Definition trail_events (evs : list sev) : list event :=
  flat_map (fun e => match e with STrail x => [x] | _ => [] end) evs.

Section G.
Variable U : provider.
Variable P : problem.
Hypothesis HW : WF U.
Variable db : list cl.
Variable G : list N.
Hypothesis Hsoft : pr_soft P = [].
Hypothesis Hgreedy : greedy_ok U P G.
Hypothesis Hfacts : facts_ok U P db = true.
Hypothesis Hlearn : learnts_ok [] db = true.

Notation holdsG := (holds U db G).

(* one event of the machine and the trail of the encoder model agree *)
Lemma step_tlits e ents ents' :
  run_events (pr_soft P) db [e] ents = Some ents' -> tlits ents' = trail_step (tlits ents) e.
Proof.
  destruct e as [l r| |]; cbn [run_events].
  - destruct (classify (pr_soft P) db (tlits ents) l r) as [k|]; [|discriminate]. intro H. inversion H. reflexivity.
  - destruct ents as [|x t]; [discriminate|]. intro H. inversion H. reflexivity.
  - intro H. inversion H. reflexivity.
Qed.

Lemma run_events_cons e es ents ents' :
  run_events (pr_soft P) db (e :: es) ents = Some ents' ->
  exists mid, run_events (pr_soft P) db [e] ents = Some mid /\ run_events (pr_soft P) db es mid = Some ents'.
Proof.
  destruct e as [l r| |]; cbn [run_events].
  - destruct (classify (pr_soft P) db (tlits ents) l r) as [k|]; [|discriminate]. intro H. eexists. split; [reflexivity | exact H].
  - destruct ents as [|x t]; [discriminate|]. intro H. eexists. split; [reflexivity | exact H].
  - intro H. eexists. split; [reflexivity | exact H].
Qed.

(* every solvable the solver asks the encoder for is a member of G *)
Lemma requested_in_G evs : forall ents ents',
  holdsG (tlits ents) -> run_events (pr_soft P) db (trail_events evs) ents = Some ents' ->
  req_true_ok (tlits ents) evs = true ->
  forall s, In (Some s) (requested evs) -> In s G.
Proof.
  induction evs as [|e evs IH]; intros ents ents' Hh Hrun Hreq s Hs; [destruct Hs|].
  destruct e as [sos|k|x|e]; simpl in Hrun, Hreq, Hs.
  - apply andb_true_iff in Hreq. destruct Hreq as [Ht Hreq]. apply in_app_or in Hs. destruct Hs as [Hs|Hs].
    + rewrite forallb_forall in Ht. specialize (Ht _ Hs). apply is_true_In in Ht. simpl in Ht.
      specialize (Hh _ Ht). unfold lit_true in Hh. simpl in Hh. apply Bool.eqb_prop in Hh.
      apply (aG_sol U db G). exact Hh.
    + eapply IH; eauto.
  - eapply IH; eauto.
  - eapply IH; eauto.
  - destruct (run_events_cons _ _ _ _ Hrun) as [mid [H1 H2]].
    apply (IH mid ents'); [| exact H2 | rewrite (step_tlits _ _ _ H1); exact Hreq | exact Hs].
    apply (run_holds U P HW db G Hsoft Hgreedy Hfacts Hlearn [e] ents mid Hh H1).
Qed.

Lemma final_trail_tlits evs : forall ents ents',
  run_events (pr_soft P) db (trail_events evs) ents = Some ents' -> tlits ents' = final_trail (tlits ents) evs.
Proof.
  induction evs as [|e evs IH]; intros ents ents' Hrun; simpl in *.
  - inversion Hrun. reflexivity.
  - destruct e as [sos|k|x|e]; simpl in Hrun; try (apply IH; exact Hrun).
    destruct (run_events_cons _ _ _ _ Hrun) as [mid [H1 H2]]. rewrite <- (step_tlits _ _ _ H1). apply IH. exact H2.
Qed.

(* C09, conflict-free case *)
Theorem conflict_free_exact evs st ents sol :
  nohints U ->
  enc_run U P (estate0 cache0) [] [] evs = Some (st, []) ->
  req_true_ok [] evs = true ->
  run_events (pr_soft P) db (trail_events evs) [] = Some ents ->
  check_sat U P db (tlits ents) sol = true ->
  enc_final_ok U st (sel_of (tlits ents)) (exempt U P (sel_of (tlits ents))) = true ->
  same_set sol G /\
  (forall s, In (CDeps s) (e_calls st) <-> In s G) /\
  (forall n, In (CCands n) (e_calls st) <-> exists so, (so = None \/ exists s, so = Some s /\ In s G) /\ In n (mentioned U P so)).
Proof.
  intros NH Henc Hreq Hrun Hsat Hfin.
  pose proof (greedy_final U P HW db G Hsoft Hgreedy Hfacts Hlearn _ _ _ Hrun Hsat) as HG.
  destruct (check_sat_sound U P HW db (tlits ents) sol Hsat) as [Esol _].
  destruct (enc_exact U P evs st NH Henc) as [HD HC].
  assert (Hin : forall s, In (Some s) (requested evs) -> In s G).
  { intros s Hs. apply (requested_in_G evs [] ents); [intros l [] | exact Hrun | exact Hreq | exact Hs]. }
  (* members of G were encoded, hence requested (no hints, fresh solver) *)
  assert (Hout : forall s, In s G -> In (Some s) (requested evs)).
  { intros s Hs. apply HG in Hs. rewrite Esol in Hs. apply in_rev in Hs.
    unfold enc_final_ok in Hfin. apply andb_true_iff in Hfin. destruct Hfin as [_ Hf].
    rewrite forallb_forall in Hf. specialize (Hf s Hs). apply andb_true_iff in Hf. destruct Hf as [Hf _].
    apply mem_so_In in Hf.
    assert (L0 : LI cache0 [] (estate0 cache0)) by (constructor; simpl; [intros x [] | intros x Hx; left; exact Hx]).
    assert (J0 : JI U P (estate0 cache0)) by constructor.
    pose proof (li_enc_run U P NH cache0 evs [] _ _ _ _ _ L0 J0 (Forall_nil _) Henc) as [A _]. simpl in A.
    destruct (A s Hf) as [Hr|[]]. exact Hr. }
  split; [exact HG|]. split.
  - intro s. rewrite HD. split; auto.
  - intro n. rewrite HC. split.
    + intros [so [Hso Hm]]. exists so. split; [|exact Hm]. destruct so as [s|]; [right; exists s; split; [reflexivity | apply Hin; exact Hso] | left; reflexivity].
    + intros [so [[E|[s [E Hs]]] Hm]]; subst so.
      * exists None. split; [|exact Hm].
        unfold enc_final_ok in Hfin. apply andb_true_iff in Hfin. destruct Hfin as [Hr _]. apply mem_so_In in Hr.
        destruct (enc_run_none U P evs _ _ _ _ _ Henc Hr) as [[]|H]. exact H.
      * exists (Some s). split; [apply Hout; exact Hs | exact Hm].
Qed.

End G.
