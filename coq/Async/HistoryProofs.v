(* Async/HistoryProofs.v -- the executable history checkers of Async/History.v
   decide exactly their declarative predicates.

   Method, the same for every checker: the declarative predicate is generalised
   over the checker's accumulators (what the already-consumed prefix contributed),
   a one-event unfolding lemma is proven for both the checker ([..b_cons]) and the
   generalised predicate ([.._cons]), and the equivalence follows by induction on
   the history.  Instantiating the accumulators with their initial values gives
   back the predicate of History.v. *)
From Resolvo Require Export Async.History.

(* ---------- generic facts ---------- *)

Lemma split_cons {A} (x : A) t h1 e h2 :
  x :: t = h1 ++ e :: h2 ->
  (h1 = [] /\ x = e /\ t = h2) \/ (exists h1', h1 = x :: h1' /\ t = h1' ++ e :: h2).
Proof.
  destruct h1 as [|y h1']; cbn [app]; intro H; inversion H; subst.
  - left. split; [reflexivity|]. split; reflexivity.
  - right. exists h1'. split; reflexivity.
Qed.

Lemma nil_split {A} (h1 : list A) e h2 : [] = h1 ++ e :: h2 -> False.
Proof. destruct h1; cbn [app]; intro H; discriminate H. Qed.

Lemma subsetb_spec a b : subsetb a b = true <-> incl a b.
Proof.
  unfold subsetb, incl. rewrite forallb_forall. split; intros H x Hx.
  - apply memN_In. apply H. exact Hx.
  - apply memN_In. apply H. exact Hx.
Qed.

(* ---------- C09 / C10 / C13: at most once (no provider involved) ---------- *)

Definition step_fc (fc : list N) (e : hev) : list N :=
  match e with
  | HNext _ => []
  | HCands n => n :: fc
  | HCandsEnd n => filter (fun x => negb (N.eqb x n)) fc
  | _ => fc
  end.
Definition step_fd (fd : list N) (e : hev) : list N :=
  match e with
  | HNext _ => []
  | HDeps n => n :: fd
  | HDepsEnd n => filter (fun x => negb (N.eqb x n)) fd
  | _ => fd
  end.
Definition step_dc (dc : list N) (e : hev) : list N :=
  match e with HCandsEnd n => n :: dc | _ => dc end.
Definition step_dd (dd : list N) (e : hev) : list N :=
  match e with HDepsEnd n => n :: dd | _ => dd end.

Lemma inflight_c_cons acc e t : inflight_c acc (e :: t) = inflight_c (step_fc acc e) t.
Proof. destruct e; reflexivity. Qed.
Lemma inflight_d_cons acc e t : inflight_d acc (e :: t) = inflight_d (step_fd acc e) t.
Proof. destruct e; reflexivity. Qed.

(* the accumulators are what the consumed prefix contributed *)
Lemma inflight_c_app acc h1 h2 : inflight_c acc (h1 ++ h2) = inflight_c (inflight_c acc h1) h2.
Proof.
  revert acc. induction h1 as [|e h1 IH]; intro acc; [reflexivity|].
  cbn [app]. rewrite !inflight_c_cons. apply IH.
Qed.
Lemma inflight_d_app acc h1 h2 : inflight_d acc (h1 ++ h2) = inflight_d (inflight_d acc h1) h2.
Proof.
  revert acc. induction h1 as [|e h1 IH]; intro acc; [reflexivity|].
  cbn [app]. rewrite !inflight_d_cons. apply IH.
Qed.

Lemma step_dc_In dc e n : In n (step_dc dc e) <-> e = HCandsEnd n \/ In n dc.
Proof.
  destruct e; cbn [step_dc In];
    try (split; [intro H; right; exact H | intros [H|H]; [discriminate H | exact H]]).
  split; intros [H|H].
  - left. f_equal. exact H.
  - right. exact H.
  - left. inversion H. reflexivity.
  - right. exact H.
Qed.
Lemma step_dd_In dd e n : In n (step_dd dd e) <-> e = HDepsEnd n \/ In n dd.
Proof.
  destruct e; cbn [step_dd In];
    try (split; [intro H; right; exact H | intros [H|H]; [discriminate H | exact H]]).
  split; intros [H|H].
  - left. f_equal. exact H.
  - right. exact H.
  - left. inversion H. reflexivity.
  - right. exact H.
Qed.

Definition candsG (dc fc : list N) (h1 : history) (n : N) : Prop :=
  ~ In n dc /\ ~ In (HCandsEnd n) h1 /\ ~ In n (inflight_c fc h1).
Definition depsG (dd fd : list N) (h1 : history) (s : N) : Prop :=
  ~ In s dd /\ ~ In (HDepsEnd s) h1 /\ ~ In s (inflight_d fd h1).

Definition OnceG (dc dd fc fd : list N) (h : history) : Prop :=
  (forall h1 n h2, h = h1 ++ HCands n :: h2 -> candsG dc fc h1 n) /\
  (forall h1 s h2, h = h1 ++ HDeps s :: h2 -> depsG dd fd h1 s).

Definition once_chk (dc dd fc fd : list N) (e : hev) : bool :=
  match e with
  | HCands n => negb (memN n dc) && negb (memN n fc)
  | HDeps s => negb (memN s dd) && negb (memN s fd)
  | _ => true
  end.

Lemma onceb_cons dc dd fc fd e t :
  onceb dc dd fc fd (e :: t) =
  once_chk dc dd fc fd e && onceb (step_dc dc e) (step_dd dd e) (step_fc fc e) (step_fd fd e) t.
Proof. destruct e; reflexivity. Qed.

Lemma candsG_cons dc fc e h1 n :
  candsG dc fc (e :: h1) n <-> candsG (step_dc dc e) (step_fc fc e) h1 n.
Proof.
  unfold candsG. rewrite inflight_c_cons, step_dc_In. cbn [In]. tauto.
Qed.
Lemma depsG_cons dd fd e h1 s :
  depsG dd fd (e :: h1) s <-> depsG (step_dd dd e) (step_fd fd e) h1 s.
Proof.
  unfold depsG. rewrite inflight_d_cons, step_dd_In. cbn [In]. tauto.
Qed.

Lemma candsG_nil dc fc n :
  negb (memN n dc) && negb (memN n fc) = true <-> candsG dc fc [] n.
Proof.
  unfold candsG. cbn [inflight_c In].
  rewrite andb_true_iff, !negb_true_iff, !memN_false. tauto.
Qed.
Lemma depsG_nil dd fd s :
  negb (memN s dd) && negb (memN s fd) = true <-> depsG dd fd [] s.
Proof.
  unfold depsG. cbn [inflight_d In].
  rewrite andb_true_iff, !negb_true_iff, !memN_false. tauto.
Qed.

Lemma OnceG_cons dc dd fc fd e t :
  OnceG dc dd fc fd (e :: t) <->
  once_chk dc dd fc fd e = true /\
  OnceG (step_dc dc e) (step_dd dd e) (step_fc fc e) (step_fd fd e) t.
Proof.
  split.
  - intros [HC HD]. split.
    + destruct e as [P|n|n|s|s|f|]; cbn [once_chk]; try reflexivity.
      * apply candsG_nil. apply (HC [] n t). reflexivity.
      * apply depsG_nil. apply (HD [] s t). reflexivity.
    + split; intros h1 x h2 E.
      * apply candsG_cons. apply (HC (e :: h1) x h2). rewrite E. reflexivity.
      * apply depsG_cons. apply (HD (e :: h1) x h2). rewrite E. reflexivity.
  - intros [Hc [HC HD]]. split; intros h1 x h2 E; apply split_cons in E;
      destruct E as [[E1 [E2 E3]]|[h1' [E1 E2]]]; subst.
    + cbn [once_chk] in Hc. apply candsG_nil. exact Hc.
    + apply candsG_cons. apply (HC h1' x h2). reflexivity.
    + cbn [once_chk] in Hc. apply depsG_nil. exact Hc.
    + apply depsG_cons. apply (HD h1' x h2). reflexivity.
Qed.

Lemma onceb_gen h : forall dc dd fc fd, onceb dc dd fc fd h = true <-> OnceG dc dd fc fd h.
Proof.
  induction h as [|e t IH]; intros dc dd fc fd.
  - cbn [onceb]. split; [|reflexivity]. intros _.
    split; intros h1 x h2 E; exfalso; exact (nil_split _ _ _ E).
  - rewrite onceb_cons, andb_true_iff, OnceG_cons, IH. reflexivity.
Qed.

Lemma OnceG_init h : OnceG [] [] [] [] h <-> Once h.
Proof.
  unfold OnceG, Once, candsG, depsG. split; intros [HC HD]; split; intros h1 x h2 E.
  - destruct (HC h1 x h2 E) as [_ H]. exact H.
  - destruct (HD h1 x h2 E) as [_ H]. exact H.
  - split; [intros []|]. exact (HC h1 x h2 E).
  - split; [intros []|]. exact (HD h1 x h2 E).
Qed.

(* the generalised predicate is the original one read after a consumed prefix [h0] *)
Lemma OnceG_prefix h0 h :
  OnceG (flat_map (fun e => match e with HCandsEnd n => [n] | _ => [] end) h0)
        (flat_map (fun e => match e with HDepsEnd n => [n] | _ => [] end) h0)
        (inflight_c [] h0) (inflight_d [] h0) h <->
  (forall h1 n h2, h = h1 ++ HCands n :: h2 ->
     ~ In (HCandsEnd n) (h0 ++ h1) /\ ~ In n (inflight_c [] (h0 ++ h1))) /\
  (forall h1 s h2, h = h1 ++ HDeps s :: h2 ->
     ~ In (HDepsEnd s) (h0 ++ h1) /\ ~ In s (inflight_d [] (h0 ++ h1))).
Proof.
  assert (Ac : forall n, In n (flat_map (fun e => match e with HCandsEnd n => [n] | _ => [] end) h0)
                         <-> In (HCandsEnd n) h0).
  { intro n. rewrite in_flat_map. split.
    - intros [e [He H]]. destruct e; cbn [In] in H; try contradiction.
      destruct H as [H|[]]. subst. exact He.
    - intro H. exists (HCandsEnd n). split; [exact H|]. left. reflexivity. }
  assert (Ad : forall n, In n (flat_map (fun e => match e with HDepsEnd n => [n] | _ => [] end) h0)
                         <-> In (HDepsEnd n) h0).
  { intro n. rewrite in_flat_map. split.
    - intros [e [He H]]. destruct e; cbn [In] in H; try contradiction.
      destruct H as [H|[]]. subst. exact He.
    - intro H. exists (HDepsEnd n). split; [exact H|]. left. reflexivity. }
  unfold OnceG, candsG, depsG.
  split; intros [HC HD]; split; intros h1 x h2 E.
  - specialize (HC h1 x h2 E). rewrite Ac in HC.
    rewrite in_app_iff, inflight_c_app. tauto.
  - specialize (HD h1 x h2 E). rewrite Ad in HD.
    rewrite in_app_iff, inflight_d_app. tauto.
  - specialize (HC h1 x h2 E). rewrite in_app_iff, inflight_c_app in HC.
    rewrite Ac. tauto.
  - specialize (HD h1 x h2 E). rewrite in_app_iff, inflight_d_app in HD.
    rewrite Ad. tauto.
Qed.

Theorem onceb_spec h : onceb [] [] [] [] h = true <-> Once h.
Proof. rewrite onceb_gen. apply OnceG_init. Qed.

(* ---------- C12: cancellation (no provider involved) ---------- *)

Definition NoReq (e : hev) : Prop := (forall n, e <> HCands n) /\ (forall s, e <> HDeps s).

(* no request starts before the next solve begins *)
Definition Quiet (h : history) : Prop :=
  forall h3 e h4, h = h3 ++ e :: h4 -> (forall P, ~ In (HNext P) h3) -> NoReq e.

Definition CancelQuietG (c : bool) (h : history) : Prop :=
  (c = true -> Quiet h) /\ CancelQuiet h.

Definition isreq (e : hev) : bool := match e with HCands _ | HDeps _ => true | _ => false end.
Definition isnext (e : hev) : bool := match e with HNext _ => true | _ => false end.

Lemma NoReq_spec e : NoReq e <-> isreq e = false.
Proof.
  unfold NoReq. destruct e as [P|n|n|s|s|f|]; cbn [isreq]; split; intro H;
    try reflexivity; try discriminate H; try (split; intros x E; discriminate E).
  - destruct H as [H _]. exfalso. apply (H n). reflexivity.
  - destruct H as [_ H]. exfalso. apply (H s). reflexivity.
Qed.

Lemma notnext_spec e : (forall P, e <> HNext P) <-> isnext e = false.
Proof.
  destruct e as [P|n|n|s|s|f|]; cbn [isnext]; split; intro H;
    try reflexivity; try discriminate H; try (intros x E; discriminate E).
  exfalso. apply (H P). reflexivity.
Qed.

Definition step_c (c : bool) (e : hev) : bool :=
  match e with HNext _ => false | HPoll true => true | _ => c end.
Definition cq_chk (c : bool) (e : hev) : bool :=
  match e with HCands _ | HDeps _ => negb c | _ => true end.

Lemma cancel_quietb_cons c e t :
  cancel_quietb c (e :: t) = cq_chk c e && cancel_quietb (step_c c e) t.
Proof. destruct e as [P|n|n|s|s|f|]; try reflexivity. destruct f; reflexivity. Qed.

Lemma Quiet_cons e t :
  Quiet (e :: t) <-> NoReq e /\ ((forall P, e <> HNext P) -> Quiet t).
Proof.
  split.
  - intro H. split.
    + apply (H [] e t); [reflexivity|]. intros P [].
    + intros Hne h3 x h4 E Hn. apply (H (e :: h3) x h4).
      * rewrite E. reflexivity.
      * intros P [A|A]; [exact (Hne P A) | exact (Hn P A)].
  - intros [H1 H2] h3 x h4 E Hn. apply split_cons in E.
    destruct E as [[E1 [E2 E3]]|[h3' [E1 E2]]]; subst.
    + exact H1.
    + apply H2 with (h3 := h3') (h4 := h4).
      * intros P A. apply (Hn P). left. exact A.
      * reflexivity.
      * intros P A. apply (Hn P). right. exact A.
Qed.

Lemma CancelQuiet_Quiet h :
  CancelQuiet h <-> (forall h1 h2, h = h1 ++ HPoll true :: h2 -> Quiet h2).
Proof. unfold CancelQuiet, Quiet, NoReq. reflexivity. Qed.

Lemma CancelQuiet_cons e t :
  CancelQuiet (e :: t) <-> (e = HPoll true -> Quiet t) /\ CancelQuiet t.
Proof.
  rewrite !CancelQuiet_Quiet. split.
  - intro H. split.
    + intro E. subst. apply (H [] t). reflexivity.
    + intros h1 h2 E. apply (H (e :: h1) h2). rewrite E. reflexivity.
  - intros [H1 H2] h1 h2 E. apply split_cons in E.
    destruct E as [[E1 [E2 E3]]|[h1' [E1 E2]]]; subst.
    + apply H1. reflexivity.
    + apply (H2 h1' h2). reflexivity.
Qed.

Lemma CancelQuietG_cons c e t :
  CancelQuietG c (e :: t) <-> cq_chk c e = true /\ CancelQuietG (step_c c e) t.
Proof.
  unfold CancelQuietG. rewrite Quiet_cons, CancelQuiet_cons, NoReq_spec, notnext_spec.
  destruct e as [P|n|n|s|s|f|]; [| | | | |destruct f|]; destruct c;
    cbn [cq_chk step_c isreq isnext negb]; intuition congruence.
Qed.

Lemma cancel_quietb_gen h : forall c, cancel_quietb c h = true <-> CancelQuietG c h.
Proof.
  induction h as [|e t IH]; intro c.
  - cbn [cancel_quietb]. split; [|reflexivity]. intros _. split.
    + intros _ h3 e h4 E. exfalso. exact (nil_split _ _ _ E).
    + intros h1 h2 E. exfalso. exact (nil_split _ _ _ E).
  - rewrite cancel_quietb_cons, andb_true_iff, CancelQuietG_cons, IH. reflexivity.
Qed.

Theorem cancel_quietb_spec h : cancel_quietb false h = true <-> CancelQuiet h.
Proof.
  rewrite cancel_quietb_gen. unfold CancelQuietG. split.
  - intros [_ H]. exact H.
  - intro H. split; [intro E; discriminate E | exact H].
Qed.

(* ---------- the provider-dependent checkers ---------- *)

Section Proofs.
Variable U : provider.

Definition step_soft (soft : list N) (e : hev) : list N :=
  match e with HNext P => pr_soft P | _ => soft end.
Definition step_deps (e : hev) : list deps :=
  match e with HNext P => [root_deps P] | HDepsEnd s => [p_deps U s] | _ => [] end.
Definition step_st (st : list N) (e : hev) : list N :=
  match e with HCands n => n :: st | _ => st end.

Lemma cur_soft_cons soft e t : cur_soft soft (e :: t) = cur_soft (step_soft soft e) t.
Proof. destruct e; reflexivity. Qed.
Lemma obtained_cons e t : obtained U (e :: t) = step_deps e ++ obtained U t.
Proof. destruct e; reflexivity. Qed.

Lemma cur_soft_app acc h1 h2 : cur_soft acc (h1 ++ h2) = cur_soft (cur_soft acc h1) h2.
Proof.
  revert acc. induction h1 as [|e h1 IH]; intro acc; [reflexivity|].
  cbn [app]. rewrite !cur_soft_cons. apply IH.
Qed.
Lemma obtained_app h1 h2 : obtained U (h1 ++ h2) = obtained U h1 ++ obtained U h2.
Proof.
  induction h1 as [|e h1 IH]; [reflexivity|].
  cbn [app]. rewrite !obtained_cons, IH. apply app_assoc.
Qed.

Lemma step_st_In st e n : In n (step_st st e) <-> e = HCands n \/ In n st.
Proof.
  destruct e; cbn [step_st In];
    try (split; [intro H; right; exact H | intros [H|H]; [discriminate H | exact H]]).
  split; intros [H|H].
  - left. f_equal. exact H.
  - right. exact H.
  - left. inversion H. reflexivity.
  - right. exact H.
Qed.

(* ----- C09: causality ----- *)

Definition depsJ (soft : list N) (K : list deps) (h1 : history) (s : N) : Prop :=
  In s (cur_soft soft h1) \/
  exists d r, (In d K \/ In d (obtained U h1)) /\ In r (reqs_of d) /\ cand_of U r s.
Definition candsJ (K : list deps) (h1 : history) (n : N) : Prop :=
  exists d, (In d K \/ In d (obtained U h1)) /\ In n (names_of U d).

Definition CausalG (soft : list N) (K : list deps) (h : history) : Prop :=
  (forall h1 s h2, h = h1 ++ HDeps s :: h2 -> depsJ soft K h1 s) /\
  (forall h1 n h2, h = h1 ++ HCands n :: h2 -> candsJ K h1 n).

Definition causal_chk (soft : list N) (K : list deps) (e : hev) : bool :=
  match e with
  | HDeps s => deps_justifiedb U soft K s
  | HCands n => cands_justifiedb U K n
  | _ => true
  end.

Lemma causalb_cons soft K e t :
  causalb U soft K (e :: t) =
  causal_chk soft K e && causalb U (step_soft soft e) (step_deps e ++ K) t.
Proof. destruct e; reflexivity. Qed.

Lemma deps_justifiedb_spec soft K s : deps_justifiedb U soft K s = true <-> depsJ soft K [] s.
Proof.
  unfold deps_justifiedb, depsJ. cbn [cur_soft obtained].
  rewrite orb_true_iff, memN_In, existsb_exists. split.
  - intros [H|[d [Hd H]]]; [left; exact H|]. right.
    apply existsb_exists in H. destruct H as [r [Hr Hc]].
    exists d, r. split; [left; exact Hd|]. split; [exact Hr|].
    apply cand_ofb_spec. exact Hc.
  - intros [H|[d [r [[Hd|[]] [Hr Hc]]]]]; [left; exact H|]. right.
    exists d. split; [exact Hd|]. apply existsb_exists. exists r.
    split; [exact Hr|]. apply cand_ofb_spec. exact Hc.
Qed.

Lemma cands_justifiedb_spec K n : cands_justifiedb U K n = true <-> candsJ K [] n.
Proof.
  unfold cands_justifiedb, candsJ. cbn [obtained]. rewrite existsb_exists. split.
  - intros [d [Hd H]]. exists d. split; [left; exact Hd|]. apply memN_In. exact H.
  - intros [d [[Hd|[]] H]]. exists d. split; [exact Hd|]. apply memN_In. exact H.
Qed.

Lemma depsJ_cons soft K e h1 s :
  depsJ soft K (e :: h1) s <-> depsJ (step_soft soft e) (step_deps e ++ K) h1 s.
Proof.
  unfold depsJ. rewrite cur_soft_cons, obtained_cons.
  split; (intros [H|[d [r [Hd H]]]]; [left; exact H|]); right; exists d, r;
    (split; [|exact H]); rewrite in_app_iff in *; tauto.
Qed.

Lemma candsJ_cons K e h1 n :
  candsJ K (e :: h1) n <-> candsJ (step_deps e ++ K) h1 n.
Proof.
  unfold candsJ. rewrite obtained_cons.
  split; intros [d [Hd H]]; exists d; (split; [|exact H]); rewrite in_app_iff in *; tauto.
Qed.

Lemma CausalG_cons soft K e t :
  CausalG soft K (e :: t) <->
  causal_chk soft K e = true /\ CausalG (step_soft soft e) (step_deps e ++ K) t.
Proof.
  split.
  - intros [HD HC]. split.
    + destruct e as [P|n|n|s|s|f|]; cbn [causal_chk]; try reflexivity.
      * apply cands_justifiedb_spec. apply (HC [] n t). reflexivity.
      * apply deps_justifiedb_spec. apply (HD [] s t). reflexivity.
    + split; intros h1 x h2 E.
      * apply depsJ_cons. apply (HD (e :: h1) x h2). rewrite E. reflexivity.
      * apply candsJ_cons. apply (HC (e :: h1) x h2). rewrite E. reflexivity.
  - intros [Hc [HD HC]]. split; intros h1 x h2 E; apply split_cons in E;
      destruct E as [[E1 [E2 E3]]|[h1' [E1 E2]]]; subst.
    + cbn [causal_chk] in Hc. apply deps_justifiedb_spec. exact Hc.
    + apply depsJ_cons. apply (HD h1' x h2). reflexivity.
    + cbn [causal_chk] in Hc. apply cands_justifiedb_spec. exact Hc.
    + apply candsJ_cons. apply (HC h1' x h2). reflexivity.
Qed.

Lemma causalb_gen h : forall soft K, causalb U soft K h = true <-> CausalG soft K h.
Proof.
  induction h as [|e t IH]; intros soft K.
  - cbn [causalb]. split; [|reflexivity]. intros _.
    split; intros h1 x h2 E; exfalso; exact (nil_split _ _ _ E).
  - rewrite causalb_cons, andb_true_iff, CausalG_cons, IH. reflexivity.
Qed.

Lemma CausalG_init h : CausalG [] [] h <-> Causal U h.
Proof.
  unfold CausalG, Causal, depsJ, candsJ, deps_justified, cands_justified.
  split; intros [HD HC]; split; intros h1 x h2 E.
  - destruct (HD h1 x h2 E) as [H|[d [r [[[]|Hd] H]]]]; [left; exact H|].
    right. exists d, r. split; [exact Hd | exact H].
  - destruct (HC h1 x h2 E) as [d [[[]|Hd] H]]. exists d. split; [exact Hd | exact H].
  - destruct (HD h1 x h2 E) as [H|[d [r [Hd H]]]]; [left; exact H|].
    right. exists d, r. split; [right; exact Hd | exact H].
  - destruct (HC h1 x h2 E) as [d [Hd H]]. exists d. split; [right; exact Hd | exact H].
Qed.

(* the generalised predicate is the original one read after a consumed prefix
   [h0]: the checker's [K] only has to agree with [obtained h0] as a set *)
Lemma CausalG_prefix h0 K h :
  (forall d, In d K <-> In d (obtained U h0)) ->
  (CausalG (cur_soft [] h0) K h <->
   (forall h1 s h2, h = h1 ++ HDeps s :: h2 -> deps_justified U (h0 ++ h1) s) /\
   (forall h1 n h2, h = h1 ++ HCands n :: h2 -> cands_justified U (h0 ++ h1) n)).
Proof.
  intro HK. unfold CausalG, depsJ, candsJ, deps_justified, cands_justified.
  split; intros [HD HC]; split; intros h1 x h2 E.
  - rewrite cur_soft_app.
    destruct (HD h1 x h2 E) as [H|[d [r [Hd H]]]]; [left; exact H|].
    right. exists d, r. split; [|exact H]. rewrite obtained_app, in_app_iff.
    rewrite HK in Hd. exact Hd.
  - destruct (HC h1 x h2 E) as [d [Hd H]]. exists d. split; [|exact H].
    rewrite obtained_app, in_app_iff. rewrite HK in Hd. exact Hd.
  - destruct (HD h1 x h2 E) as [H|[d [r [Hd H]]]].
    + left. rewrite cur_soft_app in H. exact H.
    + right. exists d, r. split; [|exact H].
      rewrite obtained_app, in_app_iff in Hd. rewrite HK. exact Hd.
  - destruct (HC h1 x h2 E) as [d [Hd H]]. exists d. split; [|exact H].
    rewrite obtained_app, in_app_iff in Hd. rewrite HK. exact Hd.
Qed.

Theorem causalb_spec h : causalb U [] [] h = true <-> Causal U h.
Proof. rewrite causalb_gen. apply CausalG_init. Qed.

(* ----- C09: exactness ----- *)

Theorem exactb_spec P G h : exactb U P G h = true <-> Exact U P G h.
Proof.
  unfold exactb, Exact. rewrite !andb_true_iff, !subsetb_spec. unfold same_set, incl.
  split.
  - intros [[[A B] C] D]. split; intro x; split; intro Hx.
    + apply A. exact Hx.
    + apply B. exact Hx.
    + apply C. exact Hx.
    + apply D. exact Hx.
  - intros [A B]. split; [split; [split|]|]; intros x Hx.
    + apply A. exact Hx.
    + apply A. exact Hx.
    + apply B. exact Hx.
    + apply B. exact Hx.
Qed.

Theorem exact_nextb_spec P G hprev hcur : exact_nextb U P G hprev hcur = true <-> ExactNext U P G hprev hcur.
Proof.
  unfold exact_nextb, ExactNext. rewrite !andb_true_iff, !subsetb_spec. unfold incl. tauto.
Qed.

(* ----- C11: eager issue at quiescence ----- *)

Definition EagerG (K : list deps) (st : list N) (h : history) : Prop :=
  forall h1 h2, h = h1 ++ HQuiescent :: h2 ->
  forall d n, In d K \/ In d (obtained U h1) -> In n (names_of U d) ->
  In n st \/ In (HCands n) h1.

Definition eager_chk (K : list deps) (st : list N) (e : hev) : bool :=
  match e with
  | HQuiescent => forallb (fun d => subsetb (names_of U d) st) K
  | _ => true
  end.

Lemma eagerb_cons K st e t :
  eagerb U K st (e :: t) = eager_chk K st e && eagerb U (step_deps e ++ K) (step_st st e) t.
Proof. destruct e; reflexivity. Qed.

Lemma EagerG_cons K st e t :
  EagerG K st (e :: t) <->
  eager_chk K st e = true /\ EagerG (step_deps e ++ K) (step_st st e) t.
Proof.
  split.
  - intro H. split.
    + destruct e as [P|n|n|s|s|f|]; cbn [eager_chk]; try reflexivity.
      apply forallb_forall. intros d Hd. apply subsetb_spec. intros n Hn.
      destruct (H [] t eq_refl d n (or_introl Hd) Hn) as [A|[]]. exact A.
    + intros h1 h2 E d n Hd Hn.
      assert (E' : e :: t = (e :: h1) ++ HQuiescent :: h2) by (rewrite E; reflexivity).
      assert (Hd' : In d K \/ In d (obtained U (e :: h1))).
      { rewrite obtained_cons, in_app_iff. rewrite in_app_iff in Hd. tauto. }
      destruct (H (e :: h1) h2 E' d n Hd' Hn) as [A|[A|A]].
      * left. apply step_st_In. right. exact A.
      * left. apply step_st_In. left. exact A.
      * right. exact A.
  - intros [Hc H] h1 h2 E d n Hd Hn. apply split_cons in E.
    destruct E as [[E1 [E2 E3]]|[h1' [E1 E2]]]; subst.
    + cbn [eager_chk] in Hc. rewrite forallb_forall in Hc.
      destruct Hd as [Hd|[]]. left. specialize (Hc d Hd).
      apply subsetb_spec in Hc. apply Hc. exact Hn.
    + assert (Hd' : In d (step_deps e ++ K) \/ In d (obtained U h1')).
      { rewrite obtained_cons, in_app_iff in Hd. rewrite in_app_iff. tauto. }
      destruct (H h1' h2 eq_refl d n Hd' Hn) as [A|A].
      * apply step_st_In in A. destruct A as [A|A].
        -- right. left. exact A.
        -- left. exact A.
      * right. right. exact A.
Qed.

Lemma eagerb_gen h : forall K st, eagerb U K st h = true <-> EagerG K st h.
Proof.
  induction h as [|e t IH]; intros K st.
  - cbn [eagerb]. split; [|reflexivity]. intros _ h1 h2 E.
    exfalso. exact (nil_split _ _ _ E).
  - rewrite eagerb_cons, andb_true_iff, EagerG_cons, IH. reflexivity.
Qed.

Lemma EagerG_init h : EagerG [] [] h <-> Eager U h.
Proof.
  unfold EagerG, Eager. split; intros H h1 h2 E d n Hd Hn.
  - destruct (H h1 h2 E d n (or_intror Hd) Hn) as [[]|A]. exact A.
  - destruct Hd as [[]|Hd]. right. exact (H h1 h2 E d n Hd Hn).
Qed.

(* the generalised predicate is the original one read after a consumed prefix [h0] *)
Lemma EagerG_prefix h0 K st h :
  (forall d, In d K <-> In d (obtained U h0)) ->
  (forall n, In n st <-> In (HCands n) h0) ->
  (EagerG K st h <->
   forall h1 h2, h = h1 ++ HQuiescent :: h2 ->
   forall d n, In d (obtained U (h0 ++ h1)) -> In n (names_of U d) -> In (HCands n) (h0 ++ h1)).
Proof.
  intros HK Hst. unfold EagerG. split; intros H h1 h2 E d n Hd Hn.
  - rewrite obtained_app, in_app_iff, <- HK in Hd.
    rewrite in_app_iff, <- Hst. exact (H h1 h2 E d n Hd Hn).
  - rewrite HK, <- in_app_iff, <- obtained_app in Hd.
    rewrite Hst, <- in_app_iff. exact (H h1 h2 E d n Hd Hn).
Qed.

Theorem eagerb_spec h : eagerb U [] [] h = true <-> Eager U h.
Proof. rewrite eagerb_gen. apply EagerG_init. Qed.

End Proofs.

Print Assumptions causalb_spec.
Print Assumptions onceb_spec.
Print Assumptions exactb_spec.
Print Assumptions eagerb_spec.
Print Assumptions cancel_quietb_spec.
