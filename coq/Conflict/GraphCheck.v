(* Conflict/GraphCheck.v -- C03: what a conflict graph claims, and verified
   checks of those claims against the provider.

   truthful : every edge states a true fact about the provider / problem
   reachable: every node is reachable from the root
   refutes  : the facts displayed in the graph alone (plus one-per-package for
              nodes joined by forbid edges) admit no selection installing the root
   core     : the clause set reported in the Conflict is unsatisfiable together
              with the root (learnt clauses expanded through their antecedents) *)
From Resolvo Require Export Cdcl.Final.

Inductive gnode := GRoot | GSol (s : N) | GUnresolved | GExcl (reason : N).
Inductive gedge := ERequires (r : req) | ELocked (l : N) | EConstrains (v : N) | EForbid | EExcluded.

Record cgraph := mkGraph {
  g_nodes : list gnode;
  g_edges : list (N * N * gedge);     (* source index, target index, label *)
  g_root : N
}.

Definition gnode_at (g : cgraph) (i : N) : option gnode := nth_error (g_nodes g) (N.to_nat i).

Section Graph.
Variable U : provider.
Variable P : problem.

Notation name := (p_sol_name U).

(* ---------- truthfulness, edge by edge ---------- *)

Definition parent_reqs (n : gnode) : option (list req) :=
  match n with
  | GRoot => Some (pr_reqs P)
  | GSol p => Some (dep_reqs U p)
  | _ => None
  end.
Definition parent_cons (n : gnode) : option (list N) :=
  match n with
  | GRoot => Some (pr_cons P)
  | GSol p => Some (dep_cons U p)
  | _ => None
  end.

Definition EdgeTrue (src dst : gnode) (e : gedge) : Prop :=
  match e with
  | ERequires r =>
      (exists rs, parent_reqs src = Some rs /\ In r rs) /\
      match dst with
      | GSol c => In c (req_cands U r)
      | GUnresolved => req_cands U r = []
      | _ => False
      end
  | ELocked l =>
      src = GRoot /\
      match dst with
      | GSol o => p_locked U (name o) = Some l /\ In o (p_cands U (name o)) /\ o <> l
      | _ => False
      end
  | EConstrains v =>
      (exists cs, parent_cons src = Some cs /\ In v cs) /\
      match dst with GSol f => In f (nonmatching U v) | _ => False end
  | EForbid =>
      match src, dst with GSol a, GSol b => name a = name b | _, _ => False end
  | EExcluded =>
      match src, dst with
      | GSol x, GExcl _ => In x (p_excluded U (name x)) \/ p_deps U x = Unknown
      | _, _ => False
      end
  end.

(* every requires edge group is complete: all candidates of the requirement are targets *)
Definition RequiresComplete (g : cgraph) : Prop :=
  forall si di r, In (si, di, ERequires r) (g_edges g) ->
  forall c, In c (req_cands U r) ->
  exists dj, In (si, dj, ERequires r) (g_edges g) /\ gnode_at g dj = Some (GSol c).

Definition Truthful (g : cgraph) : Prop :=
  (forall si di e, In (si, di, e) (g_edges g) ->
     exists src dst, gnode_at g si = Some src /\ gnode_at g di = Some dst /\ EdgeTrue src dst e) /\
  RequiresComplete g.

Definition opt_mem_req (o : option (list req)) (r : req) : bool :=
  match o with Some rs => existsb (req_eqb r) rs | None => false end.
Definition opt_mem_n (o : option (list N)) (v : N) : bool :=
  match o with Some l => memN v l | None => false end.

Definition is_nil {A} (l : list A) : bool := match l with [] => true | _ => false end.

Definition edge_trueb (src dst : gnode) (e : gedge) : bool :=
  match e with
  | ERequires r =>
      opt_mem_req (parent_reqs src) r &&
      match dst with
      | GSol c => memN c (req_cands U r)
      | GUnresolved => is_nil (req_cands U r)
      | _ => false
      end
  | ELocked l =>
      match src, dst with
      | GRoot, GSol o =>
          match p_locked U (name o) with
          | Some l' => N.eqb l' l && memN o (p_cands U (name o)) && negb (N.eqb o l)
          | None => false
          end
      | _, _ => false
      end
  | EConstrains v =>
      opt_mem_n (parent_cons src) v &&
      match dst with GSol f => memN f (nonmatching U v) | _ => false end
  | EForbid =>
      match src, dst with GSol a, GSol b => N.eqb (name a) (name b) | _, _ => false end
  | EExcluded =>
      match src, dst with
      | GSol x, GExcl _ => memN x (p_excluded U (name x)) || is_unknown (p_deps U x)
      | _, _ => false
      end
  end.

Definition gnode_eqb (a b : gnode) : bool :=
  match a, b with
  | GRoot, GRoot | GUnresolved, GUnresolved => true
  | GSol x, GSol y => N.eqb x y
  | GExcl x, GExcl y => N.eqb x y
  | _, _ => false
  end.

Definition requires_completeb (g : cgraph) : bool :=
  forallb (fun ed =>
    match ed with
    | (si, _, ERequires r) =>
        forallb (fun c =>
          existsb (fun ed' =>
            match ed' with
            | (sj, dj, ERequires r') =>
                N.eqb si sj && req_eqb r r' &&
                match gnode_at g dj with Some (GSol c') => N.eqb c c' | _ => false end
            | _ => false
            end) (g_edges g)) (req_cands U r)
    | _ => true
    end) (g_edges g).

Definition truthfulb (g : cgraph) : bool :=
  forallb (fun ed =>
    match ed with
    | (si, di, e) =>
        match gnode_at g si, gnode_at g di with
        | Some src, Some dst => edge_trueb src dst e
        | _, _ => false
        end
    end) (g_edges g) &&
  requires_completeb g.

Lemma edge_trueb_sound src dst e : edge_trueb src dst e = true -> EdgeTrue src dst e.
Proof.
  destruct e as [r|l|v| |]; simpl.
  - intro H. apply andb_true_iff in H. destruct H as [Hp Hd]. split.
    + unfold opt_mem_req in Hp. destruct (parent_reqs src) as [rs|]; [|discriminate].
      exists rs. split; [reflexivity|]. apply existsb_exists in Hp. destruct Hp as [x [Hx He]].
      apply req_eqb_eq in He. subst. exact Hx.
    + destruct dst; try discriminate.
      * apply memN_In. exact Hd.
      * destruct (req_cands U r); [reflexivity | discriminate].
  - destruct src; try discriminate. destruct dst as [|o| |]; try discriminate.
    destruct (p_locked U (name o)) as [l'|]; [|discriminate]. intro H.
    apply andb_true_iff in H. destruct H as [H Hne]. apply andb_true_iff in H. destruct H as [Hl Hc].
    apply N.eqb_eq in Hl. subst. split; [reflexivity|]. split; [reflexivity|].
    split; [apply memN_In; exact Hc|]. apply negb_true_iff in Hne. apply N.eqb_neq. exact Hne.
  - intro H. apply andb_true_iff in H. destruct H as [Hp Hd]. split.
    + unfold opt_mem_n in Hp. destruct (parent_cons src) as [cs|]; [|discriminate].
      exists cs. split; [reflexivity | apply memN_In; exact Hp].
    + destruct dst; try discriminate. apply memN_In. exact Hd.
  - destruct src; try discriminate. destruct dst; try discriminate. apply N.eqb_eq.
  - destruct src; try discriminate. destruct dst; try discriminate. intro H.
    apply orb_true_iff in H. destruct H as [H|H]; [left; apply memN_In; exact H|].
    right. destruct (p_deps U s); [discriminate | reflexivity].
Qed.

Theorem truthfulb_sound g : truthfulb g = true -> Truthful g.
Proof.
  unfold truthfulb. intro H. apply andb_true_iff in H. destruct H as [He Hc]. split.
  - rewrite forallb_forall in He. intros si di e Hin. specialize (He _ Hin). simpl in He.
    destruct (gnode_at g si) as [src|]; [|discriminate].
    destruct (gnode_at g di) as [dst|]; [|discriminate].
    exists src, dst. split; [reflexivity|]. split; [reflexivity|]. apply edge_trueb_sound. exact He.
  - unfold requires_completeb in Hc. rewrite forallb_forall in Hc.
    intros si di r Hin c Hcand. specialize (Hc _ Hin). simpl in Hc.
    rewrite forallb_forall in Hc. specialize (Hc c Hcand). apply existsb_exists in Hc.
    destruct Hc as [[[sj dj] e'] [Hin' H]]. destruct e' as [r'| | | |]; try discriminate.
    apply andb_true_iff in H. destruct H as [H Hn]. apply andb_true_iff in H. destruct H as [Hs Hr].
    apply N.eqb_eq in Hs. apply req_eqb_eq in Hr. subst sj r'.
    destruct (gnode_at g dj) as [[|c'| |]|] eqn:En; try discriminate.
    apply N.eqb_eq in Hn. subst c'. exists dj. split; [exact Hin' | exact En].
Qed.

End Graph.

(* ---------- reachability ---------- *)

Inductive Reach (g : cgraph) : N -> Prop :=
| reach_root : Reach g (g_root g)
| reach_step a b e : Reach g a -> In (a, b, e) (g_edges g) -> Reach g b.

Definition reach_step_set (g : cgraph) (R : list N) : list N :=
  R ++ flat_map (fun ed => match ed with (a, b, _) => if memN a R then [b] else [] end) (g_edges g).

Fixpoint reach_iter (g : cgraph) (k : nat) : list N :=
  match k with O => [g_root g] | S k' => reach_step_set g (reach_iter g k') end.

Definition seqN' (n : nat) : list N := map N.of_nat (seq 0 n).

Definition reachableb (g : cgraph) : bool :=
  let R := reach_iter g (length (g_nodes g)) in
  forallb (fun i => memN i R) (seqN' (length (g_nodes g))).

Lemma reach_iter_sound g k i : In i (reach_iter g k) -> Reach g i.
Proof.
  revert i. induction k as [|k IH]; intros i; simpl.
  - intros [E|[]]. subst. constructor.
  - unfold reach_step_set. rewrite in_app_iff, in_flat_map. intros [H|[[[a b] e] [Hin H]]]; [apply IH; exact H|].
    destruct (memN a (reach_iter g k)) eqn:Ea; [|destruct H]. destruct H as [E|[]]. subst.
    apply memN_In in Ea. eapply reach_step; [apply IH; exact Ea | exact Hin].
Qed.

Theorem reachableb_sound g :
  reachableb g = true -> forall i, (N.to_nat i < length (g_nodes g))%nat -> Reach g i.
Proof.
  unfold reachableb. rewrite forallb_forall. intros H i Hi.
  apply (reach_iter_sound g (length (g_nodes g))). apply memN_In. apply H.
  unfold seqN'. apply in_map_iff. exists (N.to_nat i). split; [apply N2Nat.id | apply in_seq; lia].
Qed.

(* ---------- a complete refutation procedure: unit propagation + splitting ---------- *)

Definition first_unassigned (pa : list lit) (F : list (list lit)) : option var :=
  match find (fun l => lit_unassigned pa l) (concat F) with
  | Some l => Some (fst l)
  | None => None
  end.

Fixpoint split_unsat (fuel : nat) (F : list (list lit)) (pa : list lit) : bool :=
  match up_pass F pa with
  | None => true
  | Some pa' =>
    match fuel with
    | O => false
    | S f =>
      match first_unassigned pa' F with
      | None => match up_pass F pa' with None => true | Some _ => false end
      | Some v => split_unsat f F ((v, true) :: pa') && split_unsat f F ((v, false) :: pa')
      end
    end
  end.

Lemma split_unsat_sound fuel F : forall pa a,
  split_unsat fuel F pa = true -> extends a pa -> (forall d, In d F -> cl_true a d = true) -> False.
Proof.
  induction fuel as [|f IH]; intros pa a H Hext HF; cbn [split_unsat] in H;
    pose proof (up_pass_sound a F pa HF Hext) as Hp; destruct (up_pass F pa) as [pa'|]; try exact Hp;
    try discriminate.
  destruct (first_unassigned pa' F) as [v|].
  2:{ pose proof (up_pass_sound a F pa' HF Hp) as Hp2. destruct (up_pass F pa'); [discriminate | exact Hp2]. }
  apply andb_true_iff in H. destruct H as [Ht Hf].
  destruct (a v) eqn:Ea.
  - apply (IH _ a Ht); [|exact HF]. apply extends_cons; [exact Hp|].
    unfold lit_true. simpl. rewrite Ea. reflexivity.
  - apply (IH _ a Hf); [|exact HF]. apply extends_cons; [exact Hp|].
    unfold lit_true. simpl. rewrite Ea. reflexivity.
Qed.

Theorem split_unsat_refutes fuel F :
  split_unsat fuel F [] = true -> forall a, ~ (forall d, In d F -> cl_true a d = true).
Proof.
  intros H a HF. apply (split_unsat_sound fuel F [] a H); [|exact HF]. intros v b Hv. discriminate Hv.
Qed.

(* ---------- the facts displayed by a graph, as clauses over node variables ---------- *)

(* node i is the variable VSol i; the root node is VRoot *)
Definition nvar (g : cgraph) (i : N) : var := if N.eqb i (g_root g) then VRoot else VSol i.

Definition is_solnode (g : cgraph) (i : N) : bool :=
  match gnode_at g i with Some (GSol _) => true | Some GRoot => true | _ => false end.

Definition req_groups (g : cgraph) : list (N * req) :=
  flat_map (fun ed => match ed with (a, _, ERequires r) => [(a, r)] | _ => [] end) (g_edges g).

Definition group_targets (g : cgraph) (a : N) (r : req) : list N :=
  flat_map (fun ed => match ed with
                      | (a', b, ERequires r') => if N.eqb a a' && req_eqb r r' && is_solnode g b then [b] else []
                      | _ => []
                      end) (g_edges g).

Definition forbid_nodes (g : cgraph) : list N :=
  flat_map (fun ed => match ed with (a, b, EForbid) => [a; b] | _ => [] end) (g_edges g).

Definition node_name (U : provider) (g : cgraph) (i : N) : option N :=
  match gnode_at g i with Some (GSol s) => Some (p_sol_name U s) | _ => None end.

Definition same_pkg (U : provider) (g : cgraph) (a b : N) : bool :=
  match node_name U g a, node_name U g b with
  | Some x, Some y => N.eqb x y && negb (N.eqb a b)
  | _, _ => false
  end.

(* the displayed facts *)
Definition displayed (U : provider) (g : cgraph) : list (list lit) :=
  [(VRoot, true)] ::
  map (fun ar => (nvar g (fst ar), false) :: map (fun b => (nvar g b, true)) (group_targets g (fst ar) (snd ar)))
      (req_groups g) ++
  flat_map (fun ed => match ed with
                      | (a, b, EConstrains _) => [[(nvar g a, false); (nvar g b, false)]]
                      | (a, b, ELocked _) => [[(nvar g a, false); (nvar g b, false)]]
                      | (a, _, EExcluded) => [[(nvar g a, false)]]
                      | _ => []
                      end) (g_edges g) ++
  flat_map (fun a => flat_map (fun b => if same_pkg U g a b then [[(nvar g a, false); (nvar g b, false)]] else [])
                              (forbid_nodes g)) (forbid_nodes g).

Definition refutesb (U : provider) (g : cgraph) : bool :=
  split_unsat (S (length (g_nodes g))) (displayed U g) [].

(* no assignment of "installed" to the nodes satisfies the displayed facts *)
Theorem refutesb_sound U g :
  refutesb U g = true -> forall a, ~ (forall d, In d (displayed U g) -> cl_true a d = true).
Proof. apply split_unsat_refutes. Qed.

(* ---------- the reported clause set is itself a refutation ---------- *)

(* learnt clauses all of whose antecedents are core clauses or earlier such learnt clauses *)
Fixpoint core_closure (core : list N) (i : N) (rest : list cl) (acc : list N) : list N :=
  match rest with
  | [] => acc
  | c :: t =>
    let acc' := match ck c with
                | KLearnt why => if forallb (fun j => memN j core || memN j acc) why then i :: acc else acc
                | _ => acc
                end in
    core_closure core (i + 1) t acc'
  end.

Fixpoint pick (db : list cl) (ids : list N) : list (list lit) :=
  match ids with
  | [] => []
  | j :: t => match nth_error db (N.to_nat j) with Some c => cl_lits c :: pick db t | None => pick db t end
  end.

Definition check_core (db : list cl) (core : list N) : bool :=
  learnts_ok [] db &&
  rup ([(VRoot, true)] :: pick db core ++ pick db (core_closure core 0 db [])) [].

Lemma pick_In db ids d : In d (pick db ids) -> exists j c, In j ids /\ nth_error db (N.to_nat j) = Some c /\ cl_lits c = d.
Proof.
  induction ids as [|j t IH]; simpl; [intros []|].
  destruct (nth_error db (N.to_nat j)) as [c|] eqn:E.
  - intros [H|H]; [exists j, c; auto|]. destruct (IH H) as [j' [c' [H1 H2]]]. exists j', c'. auto.
  - intro H. destruct (IH H) as [j' [c' [H1 H2]]]. exists j', c'. auto.
Qed.

Lemma select_spec pre why F d : select pre why = Some F -> In d F ->
  exists j c, In j why /\ nth_error pre (N.to_nat j) = Some c /\ cl_lits c = d.
Proof.
  revert F. induction why as [|j t IH]; intros F; cbn [select].
  - intro H. inversion H. intros [].
  - destruct (nth_error pre (N.to_nat j)) as [c|] eqn:En; [|discriminate].
    destruct (select pre t) as [r|]; [|discriminate]. intro H. inversion H. subst.
    intros [E|Hin].
    + exists j, c. split; [left; reflexivity | auto].
    + destruct (IH r eq_refl Hin) as [j' [c' [H1 H2]]]. exists j', c'. split; [right; exact H1 | exact H2].
Qed.

Lemma nth_error_app_pre {A} (pre rest : list A) j c :
  nth_error pre j = Some c -> nth_error (pre ++ rest) j = Some c.
Proof.
  intro H. rewrite nth_error_app1; [exact H|]. apply nth_error_Some. congruence.
Qed.

Section Core.
Variable a : asg.
Variable db : list cl.
Variable core : list N.
Hypothesis Hcore : forall j c, In j core -> nth_error db (N.to_nat j) = Some c -> cl_true a (cl_lits c) = true.

Definition good (j : N) : Prop := forall c, nth_error db (N.to_nat j) = Some c -> cl_true a (cl_lits c) = true.

Lemma core_closure_sound : forall rest pre acc,
  db = pre ++ rest ->
  learnts_ok pre rest = true ->
  (forall j, In j acc -> good j) ->
  forall j, In j (core_closure core (N.of_nat (length pre)) rest acc) -> good j.
Proof.
  induction rest as [|c t IH]; intros pre acc Hdb Hok Hacc j Hj; cbn [core_closure] in Hj.
  - apply Hacc. exact Hj.
  - cbn [learnts_ok] in Hok. apply andb_true_iff in Hok. destruct Hok as [Hc Ht].
    assert (Hdb' : db = (pre ++ [c]) ++ t) by (rewrite <- app_assoc; exact Hdb).
    assert (Hlen : N.of_nat (length pre) + 1 = N.of_nat (length (pre ++ [c]))).
    { rewrite app_length. simpl. lia. }
    rewrite Hlen in Hj. revert Hj. apply (IH (pre ++ [c]) _ Hdb' Ht).
    intros k Hk. destruct (ck c) as [| | | | | |why] eqn:Ek; try (apply Hacc; exact Hk).
    destruct (forallb (fun j0 => memN j0 core || memN j0 acc) why) eqn:Eall; [|apply Hacc; exact Hk].
    destruct Hk as [E|Hk]; [|apply Hacc; exact Hk]. subst k.
    (* the learnt clause at index |pre| is entailed by good clauses *)
    intros c' Hn. rewrite Hdb, Nat2N.id, nth_error_app2, Nat.sub_diag in Hn by lia.
    simpl in Hn. inversion Hn. subst c'.
    unfold learnt_okb in Hc. rewrite Ek in Hc.
    destruct (select pre why) as [F|] eqn:Es; [|discriminate].
    apply rup_sound in Hc. apply Hc. intros d Hd.
    destruct (select_spec pre why F d Es Hd) as [j' [c'' [Hin [Hn' El]]]]. rewrite <- El.
    rewrite forallb_forall in Eall. specialize (Eall j' Hin). apply orb_true_iff in Eall.
    pose proof (nth_error_app_pre pre (c :: t) _ _ Hn') as Hn''. rewrite <- Hdb in Hn''.
    destruct Eall as [E|E]; apply memN_In in E.
    + apply (Hcore j' c'' E Hn'').
    + apply (Hacc j' E c'' Hn'').
Qed.

End Core.

(* the clause set reported in a Conflict, together with the root, is unsatisfiable *)
Theorem check_core_sound db core :
  check_core db core = true ->
  forall a, a VRoot = true ->
  (forall j c, In j core -> nth_error db (N.to_nat j) = Some c -> cl_true a (cl_lits c) = true) -> False.
Proof.
  unfold check_core. intros H a Hroot Hcore. apply andb_true_iff in H. destruct H as [Hok Hr].
  apply rup_sound in Hr. specialize (Hr a). simpl in Hr.
  assert (Hall : forall d, In d ([(VRoot, true)] :: pick db core ++ pick db (core_closure core 0 db [])) ->
                           cl_true a d = true).
  { intros d [E|Hd].
    - subst d. simpl. unfold lit_true. simpl. rewrite Hroot. reflexivity.
    - apply in_app_or in Hd. destruct Hd as [Hd|Hd]; apply pick_In in Hd; destruct Hd as [j [c [Hj [Hn El]]]]; rewrite <- El.
      + apply (Hcore j c Hj Hn).
      + apply (core_closure_sound a db core Hcore db [] [] eq_refl Hok (fun j0 (H0 : In j0 []) => match H0 with end) j Hj c Hn). }
  specialize (Hr Hall). discriminate.
Qed.
