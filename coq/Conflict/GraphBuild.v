(* Conflict/GraphBuild.v -- executable model of Conflict::graph (src/conflict.rs):
   the conflict graph built from the clauses reported in a Conflict, node for
   node and edge for edge in petgraph's index order (including the swap-remove
   of the unresolved node), and the theorem that a graph built from facts is
   truthful -- for every provider, problem, clause database and clause list. *)
From Resolvo Require Export Conflict.GraphCheck.

Record gb := mkGb {
  b_nodes : list gnode;                 (* petgraph node index order *)
  b_edges : list (N * N * gedge);       (* petgraph edge index order *)
  b_last : list (N * N)                 (* last_node_by_name *)
}.

Fixpoint find_node (n : gnode) (l : list gnode) (i : N) : option N :=
  match l with
  | [] => None
  | x :: t => if gnode_eqb x n then Some i else find_node n t (N.succ i)
  end.

(* add_node: the HashMap lookups of the code (solvable -> node, reason -> node) *)
Definition add_node (b : gb) (n : gnode) : gb * N :=
  match find_node n (b_nodes b) 0 with
  | Some i => (b, i)
  | None => (mkGb (b_nodes b ++ [n]) (b_edges b) (b_last b), N.of_nat (length (b_nodes b)))
  end.

Definition add_edge (b : gb) (s d : N) (e : gedge) : gb :=
  mkGb (b_nodes b) (b_edges b ++ [(s, d, e)]) (b_last b).

Definition var_node (v : var) : option gnode :=
  match v with VRoot => Some GRoot | VSol s => Some (GSol s) | VHelp _ _ => None end.

Fixpoint last_get (n : N) (l : list (N * N)) : option N :=
  match l with
  | [] => None
  | (m, i) :: t => if N.eqb m n then Some i else last_get n t
  end.

Definition gb0 : gb := mkGb [GRoot; GUnresolved] [] [].

Section Build.
Variable U : provider.
Variable P : problem.

Fixpoint add_cands (b : gb) (pn : N) (r : req) (cs : list N) : gb :=
  match cs with
  | [] => b
  | c :: t => let '(b1, cn) := add_node b (GSol c) in add_cands (add_edge b1 pn cn (ERequires r)) pn r t
  end.

(* one clause of the conflict *)
Definition gstep (b : gb) (c : cl) : gb :=
  match ck c with
  | KRoot => b
  | KExcluded x r =>
      let '(b1, pn) := add_node b (GSol x) in
      let '(b2, en) := add_node b1 (GExcl r) in
      add_edge b2 pn en EExcluded
  | KRequires p r _ =>
      match var_node p with
      | Some n =>
          let '(b1, pn) := add_node b n in
          match req_cands U r with
          | [] => add_edge b1 pn 1 (ERequires r)
          | cs => add_cands b1 pn r cs
          end
      | None => b
      end
  | KLock l o =>
      let '(b1, n2) := add_node b (GSol o) in add_edge b1 0 n2 (ELocked l)
  | KForbid n =>
      match cl_lits c with
      | (VSol x, false) :: _ =>
          let '(b1, n1) := add_node b (GSol x) in
          let b2 := mkGb (b_nodes b1) (b_edges b1) ((n, n1) :: b_last b1) in
          match last_get n (b_last b1) with
          | Some p => add_edge b2 p n1 EForbid
          | None => b2
          end
      | _ => b
      end
  | KConstrains p f v =>
      match var_node p with
      | Some n =>
          let '(b1, pn) := add_node b n in
          let '(b2, dn) := add_node b1 (GSol f) in
          add_edge b2 pn dn (EConstrains v)
      | None => b
      end
  | KLearnt _ => b
  end.

(* remove_node(unresolved) of petgraph's Graph: the last node takes index 1 *)
Definition ren (lasti i : N) : N := if N.eqb i lasti then 1%N else i.

Definition swap_remove1 (nodes : list gnode) : list gnode :=
  match nodes with
  | r :: _ :: rest =>
      match rev rest with
      | [] => [r]
      | lastn :: _ => r :: lastn :: removelast rest
      end
  | _ => nodes
  end.

Definition gfinish (b : gb) : cgraph :=
  if existsb (fun e => N.eqb (snd (fst e)) 1) (b_edges b)
  then mkGraph (b_nodes b) (b_edges b) 0
  else
    let lasti := N.of_nat (length (b_nodes b) - 1) in
    mkGraph (swap_remove1 (b_nodes b))
            (map (fun e => (ren lasti (fst (fst e)), ren lasti (snd (fst e)), snd e)) (b_edges b)) 0.

Definition build_graph (cls : list cl) : cgraph := gfinish (fold_left gstep cls gb0).

(* the clauses named by the conflict, in its order *)
Definition core_clauses (db : list cl) (core : list N) : list cl :=
  flat_map (fun i => match nth_error db (N.to_nat i) with Some c => [c] | None => [] end) core.

End Build.

(* ---------- correspondence: equality with the implementation's graph ---------- *)

Definition gedge_eqb (a b : gedge) : bool :=
  match a, b with
  | ERequires r, ERequires q => req_eqb r q
  | ELocked l, ELocked m => N.eqb l m
  | EConstrains v, EConstrains w => N.eqb v w
  | EForbid, EForbid | EExcluded, EExcluded => true
  | _, _ => false
  end.

Fixpoint list_eqb {A} (f : A -> A -> bool) (a b : list A) : bool :=
  match a, b with
  | [], [] => true
  | x :: a', y :: b' => f x y && list_eqb f a' b'
  | _, _ => false
  end.

Definition graph_same (g h : cgraph) : bool :=
  list_eqb gnode_eqb (g_nodes g) (g_nodes h) &&
  list_eqb (fun x y => N.eqb (fst (fst x)) (fst (fst y)) && N.eqb (snd (fst x)) (snd (fst y)) && gedge_eqb (snd x) (snd y))
           (g_edges g) (g_edges h) &&
  N.eqb (g_root g) (g_root h).

Definition check_graph_build (U : provider) (db : list cl) (core : list N) (g : cgraph) : bool :=
  graph_same (build_graph U (core_clauses db core)) g.
