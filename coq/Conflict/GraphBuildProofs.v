(* Conflict/GraphBuildProofs.v -- a conflict graph built from facts is truthful. *)
From Resolvo Require Export Conflict.GraphBuild.
From Coq Require Import Lia ZifyN ZifyNat.

Lemma gnode_eqb_eq a b : gnode_eqb a b = true <-> a = b.
Proof.
  destruct a, b; simpl; try (split; [discriminate | intro H; discriminate H]); try (split; reflexivity);
    rewrite N.eqb_eq; (split; [intro; subst; reflexivity | intro H; inversion H; reflexivity]).
Qed.

Definition NodeAt (nodes : list gnode) (i : N) (n : gnode) : Prop := nth_error nodes (N.to_nat i) = Some n.

Lemma NodeAt_app nodes ext i n : NodeAt nodes i n -> NodeAt (nodes ++ ext) i n.
Proof.
  unfold NodeAt. intro H. rewrite nth_error_app1; [exact H|]. apply nth_error_Some. rewrite H. discriminate.
Qed.

Lemma NodeAt_new nodes n : NodeAt (nodes ++ [n]) (N.of_nat (length nodes)) n.
Proof. unfold NodeAt. rewrite Nat2N.id, nth_error_app2, Nat.sub_diag; [reflexivity | apply Nat.le_refl]. Qed.

Lemma find_node_spec n l : forall i j, find_node n l i = Some j ->
  (i <= j)%N /\ nth_error l (N.to_nat (j - i)) = Some n.
Proof.
  induction l as [|x t IH]; intros i j; simpl; [discriminate|].
  destruct (gnode_eqb x n) eqn:E.
  - intro H. inversion H. subst. apply gnode_eqb_eq in E. subst. split; [apply N.le_refl|].
    rewrite N.sub_diag. reflexivity.
  - intro H. destruct (IH _ _ H) as [Hle Hn]. split; [eapply N.le_trans; [apply N.le_succ_diag_r | exact Hle]|].
    assert (Hs : N.to_nat (j - i) = S (N.to_nat (j - N.succ i))) by lia.
    rewrite Hs. exact Hn.
Qed.

(* what add_node does: nodes only grow at the end, the returned index holds the node *)
Lemma add_node_spec b n b' i : add_node b n = (b', i) ->
  (exists ext, b_nodes b' = b_nodes b ++ ext) /\ b_edges b' = b_edges b /\ b_last b' = b_last b /\
  NodeAt (b_nodes b') i n.
Proof.
  unfold add_node. destruct (find_node n (b_nodes b) 0) as [j|] eqn:E; intro H; inversion H; subst.
  - split; [exists []; rewrite app_nil_r; reflexivity|]. split; [reflexivity|]. split; [reflexivity|].
    destruct (find_node_spec _ _ _ _ E) as [_ Hn]. rewrite N.sub_0_r in Hn. exact Hn.
  - split; [exists [n]; reflexivity|]. split; [reflexivity|]. split; [reflexivity|]. apply NodeAt_new.
Qed.

Section Proofs.
Variable U : provider.
Variable P : problem.
Variable idx : N -> N -> option nat.

Notation name := (p_sol_name U).

(* edges true; unresolved and root in place; last-by-name entries well typed *)
Record BInv (b : gb) : Prop := mkBInv {
  bi_edges : forall si di e, In (si, di, e) (b_edges b) ->
    exists src dst, NodeAt (b_nodes b) si src /\ NodeAt (b_nodes b) di dst /\ EdgeTrue U P src dst e;
  bi_complete : forall si di r, In (si, di, ERequires r) (b_edges b) ->
    forall c, In c (req_cands U r) -> exists dj, In (si, dj, ERequires r) (b_edges b) /\ NodeAt (b_nodes b) dj (GSol c);
  bi_root : NodeAt (b_nodes b) 0 GRoot;
  bi_unres : NodeAt (b_nodes b) 1 GUnresolved;
  bi_last : forall n i, In (n, i) (b_last b) -> exists a, NodeAt (b_nodes b) i (GSol a) /\ name a = n
}.

Lemma binv0 : BInv gb0.
Proof. constructor; simpl; try (intros; contradiction); reflexivity. Qed.

(* growing the node list keeps the invariant *)
Lemma binv_nodes b b' : BInv b -> (exists ext, b_nodes b' = b_nodes b ++ ext) -> b_edges b' = b_edges b ->
  b_last b' = b_last b -> BInv b'.
Proof.
  intros [H1 H2 H3 H4 H5] [ext En] Ee El. constructor; rewrite ?En, ?Ee, ?El.
  - intros si di e Hin. destruct (H1 _ _ _ Hin) as [src [dst [A [B C]]]]. exists src, dst.
    split; [apply NodeAt_app; exact A|]. split; [apply NodeAt_app; exact B | exact C].
  - intros si di r Hin c Hc. destruct (H2 _ _ _ Hin c Hc) as [dj [A B]]. exists dj. split; [exact A | apply NodeAt_app; exact B].
  - apply NodeAt_app. exact H3.
  - apply NodeAt_app. exact H4.
  - intros n i Hin. destruct (H5 _ _ Hin) as [a [A B]]. exists a. split; [apply NodeAt_app; exact A | exact B].
Qed.

Lemma binv_add_node b n b' i : BInv b -> add_node b n = (b', i) -> BInv b' /\ NodeAt (b_nodes b') i n.
Proof.
  intros H E. destruct (add_node_spec _ _ _ _ E) as (A & B & C & D). split; [eapply binv_nodes; eauto | exact D].
Qed.

(* adding a true edge that is not a Requires edge *)
Lemma binv_add_edge b s d e src dst :
  BInv b -> NodeAt (b_nodes b) s src -> NodeAt (b_nodes b) d dst -> EdgeTrue U P src dst e ->
  (forall r, e = ERequires r -> forall c, In c (req_cands U r) ->
     exists dj, In (s, dj, ERequires r) (b_edges b ++ [(s, d, e)]) /\ NodeAt (b_nodes b) dj (GSol c)) ->
  BInv (add_edge b s d e).
Proof.
  intros [H1 H2 H3 H4 H5] Hs Hd He Hc. constructor; simpl; try assumption.
  - intros si di e0 Hin. apply in_app_or in Hin. destruct Hin as [Hin|[Hin|[]]]; [apply H1; exact Hin|].
    inversion Hin. subst. exists src, dst. auto.
  - intros si di r Hin c Hcc. apply in_app_or in Hin. destruct Hin as [Hin|[Hin|[]]].
    + destruct (H2 _ _ _ Hin c Hcc) as [dj [A B]]. exists dj. split; [apply in_or_app; left; exact A | exact B].
    + inversion Hin. subst. apply (Hc r eq_refl c Hcc).
Qed.

(* the Requires edges of one clause *)
Lemma add_cands_spec pn r : forall cs b,
  exists ext new,
    b_nodes (add_cands b pn r cs) = b_nodes b ++ ext /\
    b_edges (add_cands b pn r cs) = b_edges b ++ new /\
    b_last (add_cands b pn r cs) = b_last b /\
    (forall x, In x new -> exists c cn, In c cs /\ x = (pn, cn, ERequires r) /\ NodeAt (b_nodes (add_cands b pn r cs)) cn (GSol c)) /\
    (forall c, In c cs -> exists cn, In (pn, cn, ERequires r) new /\ NodeAt (b_nodes (add_cands b pn r cs)) cn (GSol c)).
Proof.
  induction cs as [|c t IH]; intro b; simpl.
  - exists [], []. rewrite !app_nil_r. repeat split; try reflexivity; intros x [].
  - destruct (add_node b (GSol c)) as [b1 cn] eqn:E1.
    destruct (add_node_spec _ _ _ _ E1) as ([ext1 A] & B & C & D).
    destruct (IH (add_edge b1 pn cn (ERequires r))) as (ext2 & new2 & A2 & B2 & C2 & D2 & E2).
    cbn [add_edge b_nodes b_edges b_last] in A2, B2, C2.
    exists (ext1 ++ ext2), ((pn, cn, ERequires r) :: new2).
    split; [rewrite A2, A, app_assoc; reflexivity|].
    split; [rewrite B2, B, <- app_assoc; reflexivity|].
    split; [rewrite C2; exact C|]. split.
    + intros x [Ex|Hx].
      * subst x. exists c, cn. split; [left; reflexivity|]. split; [reflexivity|]. rewrite A2. apply NodeAt_app. exact D.
      * destruct (D2 x Hx) as [c' [cn' [H1 [H2 H3]]]]. exists c', cn'. split; [right; exact H1 | split; assumption].
    + intros c' [Ec|Hc].
      * subst c'. exists cn. split; [left; reflexivity|]. rewrite A2. apply NodeAt_app. exact D.
      * destruct (E2 c' Hc) as [cn' [H1 H2]]. exists cn'. split; [right; exact H1 | exact H2].
Qed.

Lemma last_get_In n l i : last_get n l = Some i -> In (n, i) l.
Proof.
  induction l as [|[m j] t IH]; simpl; [discriminate|]. destruct (N.eqb m n) eqn:E.
  - intro H. inversion H. apply N.eqb_eq in E. subst. left. reflexivity.
  - intro H. right. apply IH. exact H.
Qed.

Lemma parent_req_true p n r : var_node p = Some n -> req_parent_ok U P p r = true ->
  exists rs, parent_reqs U P n = Some rs /\ In r rs.
Proof.
  destruct p as [|s|a k]; simpl; intro E; inversion E; subst; intro H; apply existsb_exists in H;
    destruct H as [x [Hx He]]; apply req_eqb_eq in He; subst x; eexists; (split; [reflexivity | exact Hx]).
Qed.

Lemma parent_con_true p n v : var_node p = Some n -> con_parent_ok U P p v = true ->
  exists cs, parent_cons U P n = Some cs /\ In v cs.
Proof.
  destruct p as [|s|a k]; simpl; intro E; inversion E; subst; intro H; apply memN_In in H;
    eexists; (split; [reflexivity | exact H]).
Qed.

(* one clause that is a fact keeps the invariant *)
Lemma binv_gstep b c : BInv b -> factb U P idx c = true -> BInv (gstep U b c).
Proof.
  intros H Hf. unfold gstep. unfold factb in Hf. destruct (ck c) as [|p r cands|n|p f v|l o|x rs|why].
  - exact H.
  - (* requires *)
    apply andb_true_iff in Hf. destruct Hf as [Hf _]. apply andb_true_iff in Hf. destruct Hf as [Hp _].
    destruct (var_node p) as [pnode|] eqn:Ev; [|exact H].
    destruct (add_node b pnode) as [b1 pn] eqn:E1. destruct (binv_add_node _ _ _ _ H E1) as [H1 Hpn].
    destruct (parent_req_true p pnode r Ev Hp) as [rs [Hrs Hr]].
    destruct (req_cands U r) as [|c0 cs0] eqn:Ec.
    + eapply binv_add_edge; [exact H1 | exact Hpn | apply (bi_unres _ H1) | |].
      * simpl. split; [exists rs; auto | exact Ec].
      * intros r' Er c' Hc'. inversion Er. subst r'. rewrite Ec in Hc'. destruct Hc'.
    + destruct (add_cands_spec pn r (c0 :: cs0) b1) as (ext & new & A & B & C & D & E).
      destruct H1 as [G1 G2 G3 G4 G5]. constructor; rewrite ?A, ?B, ?C.
      * intros si di e Hin. apply in_app_or in Hin. destruct Hin as [Hin|Hin].
        -- destruct (G1 _ _ _ Hin) as [src [dst [X [Y Z]]]]. exists src, dst.
           split; [apply NodeAt_app; exact X|]. split; [apply NodeAt_app; exact Y | exact Z].
        -- destruct (D _ Hin) as [c' [cn [Hc' [Ex Hn]]]]. inversion Ex. subst. exists pnode, (GSol c').
           split; [apply NodeAt_app; exact Hpn|]. split; [rewrite <- A; exact Hn|].
           simpl. split; [exists rs; auto | rewrite Ec; exact Hc'].
      * intros si di r' Hin c' Hc'. apply in_app_or in Hin. destruct Hin as [Hin|Hin].
        -- destruct (G2 _ _ _ Hin c' Hc') as [dj [X Y]]. exists dj. split; [apply in_or_app; left; exact X | apply NodeAt_app; exact Y].
        -- destruct (D _ Hin) as [c1 [cn [Hc1 [Ex Hn]]]]. inversion Ex. subst. rewrite Ec in Hc'.
           destruct (E c' Hc') as [cn' [X Y]]. exists cn'. split; [apply in_or_app; right; exact X | rewrite <- A; exact Y].
      * apply NodeAt_app. exact G3.
      * apply NodeAt_app. exact G4.
      * intros n i Hin. destruct (G5 _ _ Hin) as [a [X Y]]. exists a. split; [apply NodeAt_app; exact X | exact Y].
  - (* forbid *)
    destruct (cl_lits c) as [|[[ | x | a k] [|]] rest]; try exact H.
    destruct rest as [|[[ | y | n' k] bb] rest']; try discriminate. destruct rest'; try discriminate.
    apply andb_true_iff in Hf. destruct Hf as [Hf _]. apply andb_true_iff in Hf. destruct Hf as [_ Hn].
    apply N.eqb_eq in Hn. unfold Spec.name in Hn.
    destruct (add_node b (GSol x)) as [b1 n1] eqn:E1. destruct (binv_add_node _ _ _ _ H E1) as [H1 Hn1].
    set (b2 := mkGb (b_nodes b1) (b_edges b1) ((n, n1) :: b_last b1)).
    assert (H2 : BInv b2).
    { destruct H1 as [G1 G2 G3 G4 G5]. constructor; simpl; try assumption.
      intros m i [Hin|Hin]; [inversion Hin as [[Em Ei]]; exists x; split; [rewrite <- Ei; exact Hn1 | rewrite <- Em; exact Hn] | apply G5; exact Hin]. }
    destruct (last_get n (b_last b1)) as [pv|] eqn:El; [|exact H2].
    apply last_get_In in El. destruct (bi_last _ H1 _ _ El) as [a [Ha Hna]].
    eapply (binv_add_edge b2 pv n1 EForbid (GSol a) (GSol x)); [exact H2 | exact Ha | exact Hn1 | simpl; rewrite Hna, Hn; reflexivity|].
    intros r Er. discriminate Er.
  - (* constrains *)
    apply andb_true_iff in Hf. destruct Hf as [Hf _]. apply andb_true_iff in Hf. destruct Hf as [Hp Hm].
    destruct (var_node p) as [pnode|] eqn:Ev; [|exact H].
    destruct (add_node b pnode) as [b1 pn] eqn:E1. destruct (binv_add_node _ _ _ _ H E1) as [H1 Hpn].
    destruct (add_node b1 (GSol f)) as [b2 dn] eqn:E2. destruct (binv_add_node _ _ _ _ H1 E2) as [H2 Hdn].
    destruct (add_node_spec _ _ _ _ E2) as ([ext A] & _).
    destruct (parent_con_true p pnode v Ev Hp) as [cs [Hcs Hv]].
    eapply (binv_add_edge b2 pn dn (EConstrains v) pnode (GSol f)); [exact H2 | rewrite A; apply NodeAt_app; exact Hpn | exact Hdn | |].
    + simpl. split; [exists cs; auto | apply memN_In; exact Hm].
    + intros r Er. discriminate Er.
  - (* lock *)
    apply andb_true_iff in Hf. destruct Hf as [Hf _].
    destruct (add_node b (GSol o)) as [b1 n2] eqn:E1. destruct (binv_add_node _ _ _ _ H E1) as [H1 Hn2].
    eapply (binv_add_edge b1 0 n2 (ELocked l) GRoot (GSol o)); [exact H1 | apply (bi_root _ H1) | exact Hn2 | |].
    + simpl. split; [reflexivity|]. unfold Spec.name in Hf. destruct (p_locked U (name o)) as [l'|]; [|discriminate].
      apply andb_true_iff in Hf. destruct Hf as [Hf Hne]. apply andb_true_iff in Hf. destruct Hf as [El Hc].
      apply N.eqb_eq in El. subst l'. split; [reflexivity|]. split; [apply memN_In; exact Hc|].
      apply negb_true_iff in Hne. apply N.eqb_neq. exact Hne.
    + intros r Er. discriminate Er.
  - (* excluded *)
    apply andb_true_iff in Hf. destruct Hf as [Hf _].
    destruct (add_node b (GSol x)) as [b1 pn] eqn:E1. destruct (binv_add_node _ _ _ _ H E1) as [H1 Hpn].
    destruct (add_node b1 (GExcl rs)) as [b2 en] eqn:E2. destruct (binv_add_node _ _ _ _ H1 E2) as [H2 Hen].
    destruct (add_node_spec _ _ _ _ E2) as ([ext A] & _).
    eapply (binv_add_edge b2 pn en EExcluded (GSol x) (GExcl rs)); [exact H2 | rewrite A; apply NodeAt_app; exact Hpn | exact Hen | |].
    + simpl. unfold Spec.name in Hf. apply orb_true_iff in Hf. destruct Hf as [Hf|Hf]; [left; apply memN_In; exact Hf|].
      right. destruct (p_deps U x); [discriminate | reflexivity].
    + intros r Er. discriminate Er.
  - exact H.
Qed.

Lemma binv_fold cls : forall b, BInv b -> Forall (fun c => factb U P idx c = true) cls -> BInv (fold_left (gstep U) cls b).
Proof.
  induction cls as [|c t IH]; intros b H HF; simpl; [exact H|]. inversion HF as [|? ? Hc Ht]. subst.
  apply IH; [apply binv_gstep; assumption | exact Ht].
Qed.


Lemma EdgeTrue_src_unres dst e : ~ EdgeTrue U P GUnresolved dst e.
Proof.
  destruct e as [r|l|v| |]; simpl.
  - intros [[rs [E _]] _]. discriminate E.
  - intros [E _]. discriminate E.
  - intros [[cs [E _]] _]. discriminate E.
  - auto.
  - auto.
Qed.

Lemma nth_error_removelast {A} (l : list A) i : (S i < length l)%nat -> nth_error (removelast l) i = nth_error l i.
Proof.
  revert i. induction l as [|x t IH]; intros i Hi; [simpl in Hi; lia|].
  destruct t as [|y t']; [simpl in Hi; lia|]. destruct i as [|i]; [reflexivity|].
  change (removelast (x :: y :: t')) with (x :: removelast (y :: t')).
  change (nth_error (x :: removelast (y :: t')) (S i)) with (nth_error (removelast (y :: t')) i).
  change (nth_error (x :: y :: t') (S i)) with (nth_error (y :: t') i).
  apply IH. simpl in *. lia.
Qed.

Lemma nth_error_last_rev {A} (l : list A) x t : rev l = x :: t -> nth_error l (length l - 1) = Some x.
Proof.
  intro H. assert (E : l = rev t ++ [x]) by (rewrite <- (rev_involutive l), H; reflexivity).
  subst l. rewrite app_length, rev_length. simpl. replace (length t + 1 - 1)%nat with (length (rev t)) by (rewrite rev_length; lia).
  rewrite nth_error_app2, Nat.sub_diag; [reflexivity | lia].
Qed.

(* swap-remove of index 1: every other index keeps its node under the renaming *)
Lemma swap_remove1_node nodes i n :
  NodeAt nodes 0 GRoot -> NodeAt nodes 1 GUnresolved -> NodeAt nodes i n -> i <> 1%N ->
  NodeAt (swap_remove1 nodes) (ren (N.of_nat (length nodes - 1)) i) n.
Proof.
  unfold NodeAt. intros H0 H1 Hi Hne. destruct nodes as [|r [|u rest]]; try discriminate.
  unfold swap_remove1, ren. cbn [length]. replace (S (S (length rest)) - 1)%nat with (S (length rest)) by lia.
  destruct (rev rest) as [|lastn t] eqn:Er.
  - assert (rest = []) by (rewrite <- (rev_involutive rest), Er; reflexivity). subst rest. simpl.
    destruct (N.eqb_spec i 1); [contradiction|].
    destruct (N.to_nat i) as [|[|k]] eqn:Ei; [exact Hi | lia | destruct k; discriminate Hi].
  - destruct (N.eqb_spec i (N.of_nat (S (length rest)))) as [El|Enl].
    + subst i. rewrite Nat2N.id in Hi. simpl in Hi. simpl.
      pose proof (nth_error_last_rev rest lastn t Er) as Hl.
      destruct rest as [|x rest']; [discriminate Er|]. simpl in Hi, Hl. rewrite Nat.sub_0_r in Hl.
      rewrite Hl in Hi. exact Hi.
    + destruct (N.to_nat i) as [|[|k]] eqn:Ei; [exact Hi | lia|].
      simpl. simpl in Hi. rewrite nth_error_removelast; [exact Hi|].
      assert (k < length rest)%nat by (apply nth_error_Some; rewrite Hi; discriminate). lia.
Qed.

Lemma existsb_false_forall {A} (f : A -> bool) l : existsb f l = false -> forall x, In x l -> f x = false.
Proof.
  intros H x Hx. destruct (f x) eqn:E; [|reflexivity].
  assert (existsb f l = true) by (apply existsb_exists; exists x; auto). congruence.
Qed.

Lemma binv_finish b : BInv b -> Truthful U P (gfinish b).
Proof.
  intros [H1 H2 H3 H4 H5]. unfold gfinish.
  destruct (existsb (fun e => N.eqb (snd (fst e)) 1) (b_edges b)) eqn:Ein.
  - split.
    + intros si di e Hin. apply (H1 si di e Hin).
    + intros si di r Hin c Hc. apply (H2 si di r Hin c Hc).
  - pose proof (existsb_false_forall _ _ Ein) as Hno.
    set (lasti := N.of_nat (length (b_nodes b) - 1)).
    assert (Hd : forall si di e, In (si, di, e) (b_edges b) -> di <> 1%N).
    { intros si di e Hin. specialize (Hno _ Hin). simpl in Hno. apply N.eqb_neq. exact Hno. }
    assert (Hs : forall si di e, In (si, di, e) (b_edges b) -> si <> 1%N).
    { intros si di e Hin E. subst si. destruct (H1 _ _ _ Hin) as [src [dst [A [_ C]]]].
      unfold NodeAt in A, H4. rewrite H4 in A. inversion A. subst src. exact (EdgeTrue_src_unres _ _ C). }
    split; simpl.
    + intros si' di' e Hin. apply in_map_iff in Hin. destruct Hin as [[[si di] e0] [Ex Hin]]. simpl in Ex.
      inversion Ex. subst. destruct (H1 _ _ _ Hin) as [src [dst [A [B C]]]]. exists src, dst.
      split; [apply swap_remove1_node; eauto|]. split; [apply swap_remove1_node; eauto | exact C].
    + intros si' di' r Hin c Hc. apply in_map_iff in Hin. destruct Hin as [[[si di] e0] [Ex Hin]]. simpl in Ex.
      inversion Ex. subst. destruct (H2 _ _ _ Hin c Hc) as [dj [A B]]. exists (ren lasti dj). split.
      * apply in_map_iff. exists (si, dj, ERequires r). split; [reflexivity | exact A].
      * unfold gnode_at. simpl. apply swap_remove1_node; eauto.
Qed.

(* C03, truthfulness by construction: for every provider, problem, clause
   database and clause list -- if the clauses the conflict names are facts, the
   graph Conflict::graph builds from them is truthful: every edge states a true
   fact about the provider / problem and every requires group is complete *)
Theorem build_graph_truthful cls :
  Forall (fun c => factb U P idx c = true) cls -> Truthful U P (build_graph U cls).
Proof. intro HF. apply binv_finish. apply binv_fold; [apply binv0 | exact HF]. Qed.


Lemma gstep_learnt b c : is_learnt c = true -> gstep U b c = b.
Proof. unfold is_learnt, gstep. destruct (ck c); try discriminate. reflexivity. Qed.

Lemma binv_fold_db cls : forall b, BInv b ->
  Forall (fun c => is_learnt c || factb U P idx c = true) cls -> BInv (fold_left (gstep U) cls b).
Proof.
  induction cls as [|c t IH]; intros b H HF; simpl; [exact H|]. inversion HF as [|? ? Hc Ht]. subst.
  apply IH; [|exact Ht]. apply orb_true_iff in Hc. destruct Hc as [Hc|Hc].
  - rewrite (gstep_learnt b c Hc). exact H.
  - apply binv_gstep; assumption.
Qed.

End Proofs.

(* what the check evaluates: the database of an accepted log consists of facts
   and certified learnt clauses, so the graph built from ANY list of its clauses
   is truthful; the implementation's graph is compared with the model's *)
Theorem graph_of_checked_db_truthful U P db core :
  facts_ok U P db = true -> Truthful U P (build_graph U (core_clauses db core)).
Proof.
  intro HF. unfold build_graph. apply (binv_finish U P (db_idx db)).
  apply (binv_fold_db U P (db_idx db) (core_clauses db core) gb0 (binv0 U P)).
  unfold facts_ok in HF. rewrite forallb_forall in HF. apply Forall_forall. intros c Hc. apply HF.
  unfold core_clauses in Hc. apply in_flat_map in Hc. destruct Hc as [i [_ Hc]].
  destruct (nth_error db (N.to_nat i)) as [c'|] eqn:E; [|destruct Hc]. destruct Hc as [Hc|[]]. subst c'.
  eapply nth_error_In. exact E.
Qed.
