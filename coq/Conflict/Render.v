(* Conflict/Render.v -- C04: executable model of the conflict message renderer
   of /repo/src/conflict.rs (everything after `Conflict::graph`):

     ConflictGraph::simplify, get_installable_set, get_missing_set, Indenter,
     DisplayUnsat::fmt_graph (explicit stack machine with the `path` argument
     that cuts dependency cycles and the `expanded` set that expands the
     requirements of a candidate only once), impl Display for DisplayUnsat,
     Interner::display_merged_solvables (default impl, /repo/src/lib.rs) and
     Requirement::display (/repo/src/requirement.rs).

   Three versions of the renderer are modelled (rmode):
     fmt_graph            current code (commit 4a5d731: path check + expanded set)
     fmt_graph_path_only  between commits ee1639b and 4a5d731 (path check only)
     fmt_graph_pre_fix    before ee1639b

   The model is tied to the real code byte for byte (tools/props/render_tie.py,
   ocaml/render_driver.ml).  Main theorems:

     render_terminates           explicit fuel bound, every graph, cycles included
     render_fuel_irrelevant      any sufficient fuel gives the same lines
     render_lines_fine           lines <= 3 * sum over edges (2 + #Constrains edges of the target) + E + 1
     render_lines_linear         lines <= (7 + 3 * con_width g) * E + 1
     render_lines_quadratic      lines <= 3 E^2 + 7 E + 1
     render_size_bound           bytes, for bounded display strings
     simplify_order_independent  hash-map iteration order of `maybe_merge` cannot leak
     dfs_fuel_sufficient         the DfsPostOrder of the model never runs out of fuel
     pre_fix_renderer_loops      fmt_graph_pre_fix never terminates on the cyclic F7 graph
     diamond_exponential_path_only / diamond_linear_now / fan_quadratic   (Examples)

   Only the Coq standard library is used; everything is closed under the
   global context. *)
From Coq Require Import List NArith Bool String Ascii Lia Arith PeanoNat Permutation DecimalString.
Import ListNotations.

Set Implicit Arguments.

(* ------------------------------------------------------------------ *)
(** * Graphs as dumped by the harness (run.rs, graph_obs) *)

Inductive rnode := RRoot | RSol (s : N) | RUnresolved | RExcl (reason : N).
Inductive rreq := RSingle (vs : N) | RUnion (u : N).
Inductive redge := EReq (r : rreq) | ELock (s : N) | ECon (vs : N) | EForbid | EExcl.

(* nodes: position = petgraph NodeIndex; edges: position = petgraph EdgeIndex
   (= insertion order, Conflict::graph never removes an edge). *)
Record rgraph := mkRGraph {
  g_nodes : list rnode;
  g_edges : list (N * N * redge);
  g_root : N;
  g_unresolved : option N
}.

Definition e_src (e : N * N * redge) : N := fst (fst e).
Definition e_tgt (e : N * N * redge) : N := snd (fst e).
Definition e_w (e : N * N * redge) : redge := snd e.

Definition memN (x : N) (l : list N) : bool := existsb (N.eqb x) l.

Lemma memN_In : forall x l, memN x l = true <-> In x l.
Proof.
  intros x l. unfold memN. rewrite existsb_exists. split.
  - intros [y [Hy He]]. apply N.eqb_eq in He. subst. exact Hy.
  - intros H. exists x. split; [exact H | apply N.eqb_refl].
Qed.

Definition rreq_eqb (a b : rreq) : bool :=
  match a, b with
  | RSingle x, RSingle y => N.eqb x y
  | RUnion x, RUnion y => N.eqb x y
  | _, _ => false
  end.

Definition edge_req (w : redge) : option rreq := match w with EReq r => Some r | _ => None end.
Definition is_conflict (w : redge) : bool := match w with EReq _ => false | _ => true end.
Definition is_excl (w : redge) : bool := match w with EExcl => true | _ => false end.
Definition is_forbid (w : redge) : bool := match w with EForbid => true | _ => false end.
Definition is_con (w : redge) : bool := match w with ECon _ => true | _ => false end.

(* itertools chunk_by: maximal runs of consecutive elements with equal key *)
Section ChunkBy.
  Variables (K A : Type) (keqb : K -> K -> bool) (key : A -> K).
  Fixpoint chunk_by (l : list A) : list (K * list A) :=
    match l with
    | [] => []
    | a :: t =>
      match chunk_by t with
      | (k, grp) :: rest => if keqb (key a) k then (k, a :: grp) :: rest else (key a, [a]) :: (k, grp) :: rest
      | [] => [(key a, [a])]
      end
    end.
End ChunkBy.

(* sorted_by_key with a bool key (false < true), stable *)
Definition sort_by_bool (A : Type) (f : A -> bool) (l : list A) : list A :=
  filter (fun x => negb (f x)) l ++ filter f l.

Fixpoint filter_map (A B : Type) (f : A -> option B) (l : list A) : list B :=
  match l with
  | [] => []
  | a :: t => match f a with Some b => b :: filter_map f t | None => filter_map f t end
  end.

(* Iterator::dedup: removes consecutive duplicates *)
Fixpoint dedup_consec (l : list N) : list N :=
  match l with
  | [] => []
  | a :: t => match t with
              | b :: _ => if N.eqb a b then dedup_consec t else a :: dedup_consec t
              | [] => [a]
              end
  end.

(* sorting of node indices (sorted_unstable on NodeIndex) *)
Fixpoint insN (x : N) (l : list N) : list N :=
  match l with [] => [x] | y :: t => if N.leb x y then x :: l else y :: insN x t end.
Definition sortN (l : list N) : list N := fold_right insN [] l.

Fixpoint list_eqb (A : Type) (eqb : A -> A -> bool) (a b : list A) : bool :=
  match a, b with
  | [], [] => true
  | x :: a', y :: b' => eqb x y && list_eqb eqb a' b'
  | _, _ => false
  end.

(* ------------------------------------------------------------------ *)
(** * petgraph iteration orders (see Conflict/README.md) *)

Section Graph.
Variable g : rgraph.

(* graph.edges(n) = edges_directed(n, Outgoing): most recently added edge first *)
Definition out_edges (n : N) : list (N * N * redge) :=
  rev (filter (fun e => N.eqb (e_src e) n) (g_edges g)).
(* edges_directed(n, Incoming); only used through any / sorted, order irrelevant *)
Definition in_edges (n : N) : list (N * N * redge) :=
  rev (filter (fun e => N.eqb (e_tgt e) n) (g_edges g)).
(* graph.neighbors(n), used by DfsPostOrder: same order as edges(n) *)
Definition neighbors (n : N) : list N := map e_tgt (out_edges n).

Definition node_at (i : N) : option rnode := nth_error (g_nodes g) (N.to_nat i).
Definition node_solvable (i : N) : option N :=
  match node_at i with Some (RSol s) => Some s | _ => None end.
(* node_indices(): ascending *)
Definition node_indices : list N := map N.of_nat (seq 0 (List.length (g_nodes g))).

(* every node index that can ever become a candidate *)
Definition targets : list N := map e_tgt (g_edges g).
Definition n_edges : nat := List.length (g_edges g).

(* ---------------- DfsPostOrder (petgraph 0.8 visit/traversal.rs) ---------------- *)

Fixpoint dfs_run (fuel : nat) (stack discovered finished : list N) : list N :=
  match fuel with
  | O => []
  | S f =>
    match stack with
    | [] => []
    | nx :: rest =>
      if memN nx discovered then
        (* second visit: pop; emit the first time it is finished *)
        if memN nx finished then dfs_run f rest discovered finished
        else nx :: dfs_run f rest discovered (nx :: finished)
      else
        (* first visit: nx stays on the stack, undiscovered successors are pushed
           in neighbors() order, so the last one ends up on top *)
        let disc' := nx :: discovered in
        let pushes := filter (fun s => negb (memN s disc')) (neighbors nx) in
        dfs_run f (rev pushes ++ stack) disc' finished
    end
  end.

Definition dfs_fuel : nat := S (S n_edges * S (S n_edges)).
Definition dfs_post_order : list N := dfs_run dfs_fuel [g_root g] [] [].

(* requirement groups of the outgoing edges of a node: (requirement, targets) *)
Definition req_targets (es : list (N * N * redge)) : list (rreq * N) :=
  filter_map (fun e => match edge_req (e_w e) with Some r => Some (r, e_tgt e) | None => None end) es.
Definition req_groups (es : list (N * N * redge)) : list (rreq * list N) :=
  map (fun kg => (fst kg, map snd (snd kg))) (chunk_by rreq_eqb fst (req_targets es)).

(* ---------------- get_installable_set ---------------- *)

Definition installable_step (inst : list N) (nx : N) : list N :=
  if match g_unresolved g with Some u => N.eqb u nx | None => false end then inst
  else if existsb (fun e => is_excl (e_w e)) (in_edges nx) then inst
  else if existsb (fun e => is_conflict (e_w e)) (out_edges nx) then inst
  else if forallb (fun kg => existsb (fun t => memN t inst) (snd kg)) (req_groups (out_edges nx))
       then nx :: inst else inst.
Definition installable_set : list N := fold_left installable_step dfs_post_order [].

(* ---------------- get_missing_set ---------------- *)

Definition missing_step (miss : list N) (nx : N) : list N :=
  if existsb (fun e => is_conflict (e_w e)) (out_edges nx) then miss
  else if existsb (fun kg => forallb (fun t => memN t miss) (snd kg)) (req_groups (out_edges nx))
       then nx :: miss else miss.
Definition missing_set : list N :=
  match g_unresolved g with
  | None => []
  | Some u => fold_left missing_step dfs_post_order [u]
  end.

End Graph.

(* ------------------------------------------------------------------ *)
(** * Display functions of the provider (Interner) *)

Record display := mkDisplay {
  disp_solvable : N -> string;
  disp_name : N -> string;
  disp_vs : N -> string;
  disp_string : N -> string;
  sol_name : N -> N;             (* Interner::solvable_name *)
  vs_name : N -> N;              (* Interner::version_set_name *)
  union_members : N -> list N    (* Interner::version_sets_in_union *)
}.

Local Open Scope string_scope.

Fixpoint join (sep : string) (l : list string) : string :=
  match l with
  | [] => ""
  | [a] => a
  | a :: t => a ++ sep ++ join sep t
  end.

(* Vec<String>::sorted(): byte-lexicographic order, which is String.leb *)
Fixpoint ins_str (x : string) (l : list string) : list string :=
  match l with [] => [x] | y :: t => if String.leb x y then x :: l else y :: ins_str x t end.
Definition sort_str (l : list string) : list string := fold_right ins_str [] l.
(* itertools unique(): keep the first occurrence *)
Fixpoint uniq_str (seen : list string) (l : list string) : list string :=
  match l with
  | [] => []
  | a :: t => if existsb (String.eqb a) seen then uniq_str seen t else a :: uniq_str (a :: seen) t
  end.

Section Display.
Variable D : display.

(* "{name} {version_set}" *)
Definition show_name_vs (v : N) : string := disp_name D (vs_name D v) ++ " " ++ disp_vs D v.

(* Requirement::display *)
Definition show_req (r : rreq) : string :=
  match r with
  | RSingle v => show_name_vs v
  | RUnion u => join " | " (map show_name_vs (union_members D u))
  end.

(* Interner::display_merged_solvables, default implementation *)
Definition show_merged (ids : list N) : string :=
  match ids with
  | [] => ""
  | s0 :: _ =>
    disp_name D (sol_name D s0) ++ " " ++ join " | " (uniq_str [] (sort_str (map (disp_solvable D) ids)))
  end.

End Display.

(* ------------------------------------------------------------------ *)
(** * Indenter *)

(* levels innermost first (Vec::push = cons), true = ChildOrder::Last; top_level_indent *)
Definition indenter := (list bool * bool)%type.
Definition ind_new (tli : bool) : indenter := ([], tli).
Definition ind_push_order (i : indenter) (last : bool) : indenter := (last :: fst i, snd i).
Definition ind_push (i : indenter) : indenter := ind_push_order i false.
Definition ind_set_last (i : indenter) : indenter :=
  match fst i with [] => i | _ :: t => (true :: t, snd i) end.
Definition ind_top (i : indenter) : bool := Nat.eqb (List.length (fst i)) 1.

(* tree glyphs: U+251C U+2500 / U+2514 U+2500 / U+2502, UTF-8 *)
Definition glyph_tee : string := "├─".
Definition glyph_ell : string := "└─".
Definition glyph_bar : string := "│ ".
Definition glyph_none : string := "  ".

(* levels outermost first *)
Fixpoint indent_levels (lv : list bool) : string :=
  match lv with
  | [] => ""
  | [o] => (if o then glyph_ell else glyph_tee) ++ " "
  | o :: t => (if o then glyph_none else glyph_bar) ++ " " ++ indent_levels t
  end.
Definition get_indent (i : indenter) : string :=
  let lv := rev (fst i) in indent_levels (if snd i then lv else tl lv).

(* ------------------------------------------------------------------ *)
(** * Lines *)

Inductive version := VRoot | VIds (ids : list N).

Inductive lkind :=
| LHeader
| LReqMissing (top : bool) (r : rreq)
| LReqInstallable (top : bool) (r : rreq)
| LReqNotInstallable (top : bool) (r : rreq)
| LCandBackref (v : version)
| LCandExcluded (v : version) (reason : N)
| LCandLeaf (v : version)
| LCandConflictsAbove (v : version)
| LCandWouldConstrain (v : version)
| LConstrainItem (vs : N)
| LCandWouldRequire (v : version)
| LRootConstraint (vs : N)
| LRootLocked (s : N).

Record line := mkLine { l_kind : lkind; l_ind : indenter }.

Section Text.
Variable D : display.

Definition show_version (v : version) : string :=
  match v with VRoot => "<root>" | VIds ids => show_merged D ids end.

Definition nl : string := String (ascii_of_nat 10) EmptyString.

(* the format strings of conflict.rs, without {indent} and the newline *)
Definition line_text (k : lkind) : string :=
  match k with
  | LHeader => "The following packages are incompatible"
  | LReqMissing true r => "No candidates were found for " ++ show_req D r ++ "."
  | LReqMissing false r => show_req D r ++ ", for which no candidates were found."
  | LReqInstallable true r => show_req D r ++ " can be installed with any of the following options:"
  | LReqInstallable false r => show_req D r ++ ", which can be installed with any of the following options:"
  | LReqNotInstallable true r => show_req D r ++ " cannot be installed because there are no viable options:"
  | LReqNotInstallable false r => show_req D r ++ ", which cannot be installed because there are no viable options:"
  | LCandBackref v => show_version v ++ ", which is already reported above."
  | LCandExcluded v reason => show_version v ++ " is excluded because " ++ disp_string D reason
  | LCandLeaf v => show_version v
  | LCandConflictsAbove v => show_version v ++ ", which conflicts with the versions reported above."
  | LCandWouldConstrain v => show_version v ++ " would constrain"
  | LConstrainItem vs => show_name_vs D vs ++ ", which conflicts with any installable versions previously reported"
  | LCandWouldRequire v => show_version v ++ " would require"
  | LRootConstraint vs => "the constraint " ++ show_name_vs D vs ++ " cannot be fulfilled"
  | LRootLocked s => show_merged D [s] ++ " is locked, but another version is required as reported above"
  end.

Definition render_line (l : line) : string := get_indent (l_ind l) ++ line_text (l_kind l) ++ nl.
Definition render_text (ls : list line) : string := String.concat "" (map render_line ls).

End Text.

Local Open Scope list_scope.

(* ------------------------------------------------------------------ *)
(** * ConflictGraph::simplify *)

Section Simplify.
Variable D : display.
Variable g : rgraph.

Definition mkey := (string * list N * list N)%type.
Definition mkey_eqb (a b : mkey) : bool :=
  String.eqb (fst (fst a)) (fst (fst b)) && list_eqb N.eqb (snd (fst a)) (snd (fst b))
  && list_eqb N.eqb (snd a) (snd b).

Definition merge_key (i s : N) : mkey :=
  (disp_name D (sol_name D s), sortN (map e_src (in_edges g i)), sortN (map e_tgt (out_edges g i))).

(* maybe_merge.entry(key).or_insert(Vec::new()).push(..), as an association
   list in first-insertion order *)
Fixpoint mm_push (k : mkey) (v : N) (m : list (mkey * list N)) : list (mkey * list N) :=
  match m with
  | [] => [(k, [v])]
  | (k', vs) :: t => if mkey_eqb k k' then (k', vs ++ [v]) :: t else (k', vs) :: mm_push k v t
  end.

Definition maybe_merge : list (mkey * list N) :=
  fold_left (fun m i => match node_solvable g i with Some s => mm_push (merge_key i s) s m | None => m end)
            (node_indices g) [].

(* the values of maybe_merge, in the model's canonical order; the real code
   sees them in the hash map's iteration order: some permutation of this list *)
Definition merge_groups : list (list N) := map snd maybe_merge.

(* merged_candidates: HashMap insert = shadowing cons, get = first match *)
Definition mc_insert_group (m : list (N * list N)) (ids : list N) : list (N * list N) :=
  if Nat.ltb 1 (List.length ids) then fold_left (fun m id => (id, ids) :: m) ids m else m.
Definition simplify_of (groups : list (list N)) : list (N * list N) :=
  fold_left mc_insert_group groups [].
Definition mc_get (s : N) (m : list (N * list N)) : option (list N) :=
  match find (fun kv => N.eqb (fst kv) s) m with Some kv => Some (snd kv) | None => None end.

Definition simplify : list (N * list N) := simplify_of merge_groups.

End Simplify.

(* ------------------------------------------------------------------ *)
(** * DisplayUnsat::fmt_graph: the stack machine *)

Inductive dop := OpReq (r : rreq) (tgts : list N) | OpCand (n : N).
(* (DisplayOp, Indenter, path) *)
Definition entry := (dop * indenter * list N)%type.

Definition set_last_first (l : list entry) : list entry :=
  match l with
  | [] => []
  | (op, ind, p) :: t => (op, ind_set_last ind, p) :: t
  end.

(* Three versions of fmt_graph:
     MPreFix    before commit ee1639b: no `path`, dependency cycles are expanded forever
     MPathOnly  between ee1639b and 4a5d731: a candidate on its own path is a back-reference
     MCurrent   since 4a5d731: additionally a candidate whose requirements were
                expanded before (set `expanded`) is printed as a back-reference *)
Inductive rmode := MPreFix | MPathOnly | MCurrent.
Definition mode_path (m : rmode) : bool := match m with MPreFix => false | _ => true end.
Definition mode_expanded (m : rmode) : bool := match m with MCurrent => true | _ => false end.

(* the two sets of fmt_graph: (reported, expanded) *)
Definition mstate := (list N * list N)%type.

Section Machine.
Variable g : rgraph.
Variable merged : list (N * list N).   (* DisplayUnsat::merged_candidates *)
Variable inst : list N.                (* DisplayUnsat::installable_set *)
Variable md : rmode.

Definition group_installable (ts : list N) : bool := existsb (fun t => memN t inst) ts.

(* requirement entries for a list of edges: chunk_by requirement, stable sort
   by installability, one entry per group, the first one marked Last *)
Definition req_entries (es : list (N * N * redge)) (ind : indenter) (path : list N) : list entry :=
  set_last_first
    (map (fun kg => (OpReq (fst kg) (snd kg), ind_push ind, path))
         (sort_by_bool (fun kg => group_installable (snd kg)) (req_groups es))).

(* the "utterly ugly hack": drop children that are not solvables, and all but
   the first member of a merged group *)
Fixpoint dedupe (seen : list N) (cs : list N) : list N :=
  match cs with
  | [] => []
  | c :: t =>
    match node_solvable g c with
    | None => dedupe seen t
    | Some s =>
      if memN s seen then dedupe seen t
      else c :: dedupe (match mc_get s merged with Some ids => ids ++ seen | None => seen end) t
    end
  end.

Definition cand_entries (cs : list N) (ind : indenter) (path : list N) : list entry :=
  set_last_first (map (fun c => (OpCand c, ind_push ind, path)) (dedupe [] cs)).

Definition excluded_reason (c : N) : option N :=
  match find (fun e => is_excl (e_w e)) (out_edges g c) with
  | Some e => match node_at g (e_tgt e) with Some (RExcl r) => Some r | _ => Some 0%N end
  | None => None
  end.

(* lines of the "would constrain" branch *)
Fixpoint constrain_lines (ind : indenter) (vss : list N) : list line :=
  match vss with
  | [] => []
  | [v] => [mkLine (LConstrainItem v) (ind_set_last ind)]
  | v :: t => mkLine (LConstrainItem v) ind :: constrain_lines ind t
  end.

(* one iteration of `while let Some((node, indenter, path)) = stack.pop()`:
   lines written, entries pushed (in push order), new (reported, expanded) *)
Definition step (e : entry) (st : mstate) : list line * list entry * mstate :=
  let '(op, ind, path) := e in
  match op with
  | OpReq r ts =>
    let top := ind_top ind in
    let installable := group_installable ts in
    let missing := match ts with
                   | [t] => match node_at g t with Some RUnresolved => true | _ => false end
                   | _ => false
                   end in
    if missing then ([mkLine (LReqMissing top r) ind], [], st)
    else if installable then
      ([mkLine (LReqInstallable top r) ind],
       cand_entries (filter (fun t => memN t inst) ts) ind path, st)
    else
      ([mkLine (LReqNotInstallable top r) ind], cand_entries ts ind path, st)
  | OpCand c =>
    let reported := fst st in
    let expanded := snd st in
    let sid := node_solvable g c in
    if match sid with Some s => memN s reported | None => false end then ([], [], st)
    else
      let m := match sid with Some s => mc_get s merged | None => None end in
      let reported' := match m with Some ids => ids ++ reported | None => reported end in
      let v := match m, sid with
               | Some ids, _ => VIds ids
               | None, Some s => VIds [s]
               | None, None => VRoot
               end in
      let oes := out_edges g c in
      let excl := excluded_reason c in
      let forbid := existsb (fun e => is_forbid (e_w e)) oes in
      let con := existsb (fun e => is_con (e_w e)) oes in
      (* would_expand = excluded.is_none() && !is_leaf && !already_installed && !constrains_conflict *)
      let would_expand := match excl with None => true | Some _ => false end
                          && match oes with [] => false | _ => true end && negb forbid && negb con in
      let on_path := mode_path md && memN c path in
      (* path.contains(&candidate) || (would_expand && !expanded.insert(candidate)):
         the insert is evaluated only if the left operands do not decide *)
      let probe := negb on_path && mode_expanded md && would_expand in
      let seen := probe && memN c expanded in
      let expanded' := if probe && negb (memN c expanded) then c :: expanded else expanded in
      let st' := (reported', expanded') in
      if on_path || seen then ([mkLine (LCandBackref v) ind], [], st')
      else match excl with
      | Some reason => ([mkLine (LCandExcluded v reason) ind], [], st')
      | None =>
        match oes with
        | [] => ([mkLine (LCandLeaf v) ind], [], st')
        | _ =>
          if forbid then ([mkLine (LCandConflictsAbove v) ind], [], st')
          else if con then
            (mkLine (LCandWouldConstrain v) ind ::
             constrain_lines (ind_push ind)
               (dedup_consec (filter_map (fun e => match e_w e with ECon vs => Some vs | _ => None end) oes)),
             [], st')
          else
            ([mkLine (LCandWouldRequire v) ind], req_entries oes ind (path ++ [c]), st')
        end
      end
  end.

(* the stack as a list with the top at the head: Vec::extend(children) puts
   the last child on top *)
Fixpoint run (fuel : nat) (stack : list entry) (st : mstate) : option (list line) :=
  match stack with
  | [] => Some []
  | e :: rest =>
    match fuel with
    | O => None
    | S f =>
      let '(ls, pushes, st') := step e st in
      match run f (rev pushes ++ rest) st' with
      | Some more => Some (ls ++ more)
      | None => None
      end
    end
  end.

(* fmt_graph(f, top_level_edges, top_level_indent) *)
Definition init_stack (top_edges : list (N * N * redge)) (tli : bool) : list entry :=
  rev (req_entries top_edges (ind_new tli) []).
Definition fmt_graph_edges (fuel : nat) (top_edges : list (N * N * redge)) (tli : bool) : option (list line) :=
  run fuel (init_stack top_edges tli) ([], []).

End Machine.

(* ------------------------------------------------------------------ *)
(** * impl Display for DisplayUnsat *)

Section Top.
Variable D : display.
Variable g : rgraph.

(* trailing lines: conflicts attached to the root (constraints, locks) *)
Fixpoint root_conflict_lines (es : list (N * N * redge)) : list line :=
  match es with
  | [] => []
  | e :: t =>
    let ind := ind_push_order (ind_new true) (match t with [] => true | _ => false end) in
    match e_w e with
    | ECon vs => mkLine (LRootConstraint vs) ind :: root_conflict_lines t
    | ELock s => mkLine (LRootLocked s) ind :: root_conflict_lines t
    | _ => root_conflict_lines t
    end
  end.

Definition fmt_display (md : rmode) (fuel : nat) : option (list line) :=
  let merged := simplify D g in
  let inst := installable_set g in
  let miss := missing_set g in
  let root_edges := out_edges g (g_root g) in
  let top_missing := filter (fun e => memN (e_tgt e) miss) root_edges in
  let top_conflicts := filter (fun e => negb (memN (e_tgt e) miss)) root_edges in
  match (match top_missing with
         | [] => Some []
         | _ => fmt_graph_edges g merged inst md fuel top_missing false
         end) with
  | None => None
  | Some l1 =>
    match top_conflicts with
    | [] => Some l1
    | _ =>
      match fmt_graph_edges g merged inst md fuel top_conflicts true with
      | None => None
      | Some l2 => Some (l1 ++ mkLine LHeader (ind_new true) :: l2 ++ root_conflict_lines root_edges)
      end
    end
  end.

(* the renderer of the current code (both sets of fmt_graph are local to one
   call: the missing part and the conflict part each start with empty sets),
   the one between commits ee1639b and 4a5d731, and the one before ee1639b *)
Definition fmt_graph (fuel : nat) : option (list line) := fmt_display MCurrent fuel.
Definition fmt_graph_path_only (fuel : nat) : option (list line) := fmt_display MPathOnly fuel.
Definition fmt_graph_pre_fix (fuel : nat) : option (list line) := fmt_display MPreFix fuel.

End Top.

(* ------------------------------------------------------------------ *)
(** * Harness instance (universe.rs, impl Interner for Prov) *)

Definition dec (n : N) : string := NilZero.string_of_uint (N.to_uint n).

Definition harness_display (sol_names vs_names : list N) (unions : list (list N)) : display :=
  let sn := fun s => nth (N.to_nat s) sol_names 9999%N in
  {| disp_solvable := fun s => ("p" ++ dec (sn s) ++ "=s" ++ dec s)%string;
     disp_name := fun n => ("p" ++ dec n)%string;
     disp_vs := fun v => ("vs" ++ dec v)%string;
     disp_string := fun s => ("str" ++ dec s)%string;
     sol_name := sn;
     vs_name := fun v => nth (N.to_nat v) vs_names 0%N;
     union_members := fun u => nth (N.to_nat u) unions [] |}.

(* ------------------------------------------------------------------ *)
(** * Whole renderer as a string *)

(* fuel used when executing the model; [fmt_graph_fuel_mono] below shows that
   the result does not depend on the fuel once it is not None *)
Definition exec_fuel : nat := Nat.pow 2 17.

Definition render_with (D : display) (fuel : nat) (g : rgraph) : string :=
  match fmt_graph D g fuel with
  | Some ls => render_text D ls
  | None => "OUT-OF-FUEL"%string
  end.

Definition render_harness (sol_names vs_names : list N) (unions : list (list N)) (g : rgraph) : string :=
  render_with (harness_display sol_names vs_names unions) exec_fuel g.

(* ------------------------------------------------------------------ *)
(** * Shape conditions under which conflict.rs cannot panic

   The model is total; the real code contains `unwrap`, `unreachable!` and
   `panic!` paths (ConflictNode::solvable_or_root, ConflictEdge::requires, the
   `let ConflictNode::Excluded(..) else unreachable!()`).  [graph_wf] lists the
   conditions, all guaranteed by Conflict::graph, that keep the real renderer
   away from them; the tie between model and code is claimed for such graphs. *)

Fixpoint nodupb (l : list N) : bool :=
  match l with [] => true | a :: t => negb (memN a t) && nodupb t end.

Definition graph_wf (g : rgraph) : bool :=
  let n := N.of_nat (List.length (g_nodes g)) in
  forallb (fun e => N.ltb (e_src e) n && N.ltb (e_tgt e) n) (g_edges g)
  && match node_at g (g_root g) with Some RRoot => true | _ => false end
  && match g_unresolved g with
     | Some u => match node_at g u with Some RUnresolved => true | _ => false end
     | None => true
     end
  && forallb (fun i => match node_at g i with
                       | Some RRoot => N.eqb i (g_root g)
                       | Some RUnresolved => match g_unresolved g with Some u => N.eqb i u | None => false end
                       | _ => true
                       end) (node_indices g)
  && nodupb (filter_map (fun nd => match nd with RSol s => Some s | _ => None end) (g_nodes g))
  && forallb (fun e =>
       match e_w e with
       | EExcl => match node_at g (e_tgt e) with Some (RExcl _) => true | _ => false end
       | EReq r =>
         match node_at g (e_tgt e) with
         | Some (RSol _) | Some RRoot => true
         | Some RUnresolved =>
           (* the unresolved node is the only "candidate" of its requirement *)
           Nat.eqb (List.length (filter (fun e' => N.eqb (e_src e') (e_src e) &&
                                      match e_w e' with EReq r' => rreq_eqb r r' | _ => false end) (g_edges g))) 1
         | _ => false
         end
       | ELock _ => N.eqb (e_src e) (g_root g)
       | EForbid => negb (N.eqb (e_src e) (g_root g))
       | ECon _ => true
       end) (g_edges g).

(* ================================================================== *)
(** * Proofs *)

Unset Implicit Arguments.

(* ---------------- list helpers ---------------- *)

Lemma filter_length_le' : forall (A : Type) (f : A -> bool) l, List.length (filter f l) <= List.length l.
Proof. induction l as [|a l IH]; simpl; [lia|]. destruct (f a); simpl; lia. Qed.

Lemma filter_map_length : forall (A B : Type) (f : A -> option B) l, List.length (filter_map f l) <= List.length l.
Proof. induction l as [|a l IH]; simpl; [lia|]. destruct (f a); simpl; lia. Qed.

Lemma filter_map_In : forall (A B : Type) (f : A -> option B) l b,
  In b (filter_map f l) <-> exists a, In a l /\ f a = Some b.
Proof.
  induction l as [|a l IH]; simpl; intros b.
  - split; [tauto | intros [a [[] _]]].
  - destruct (f a) eqn:Hf; simpl; rewrite IH; split.
    + intros [H | [a' [Hi Ha]]]; [subst; exists a; auto | exists a'; auto].
    + intros [a' [[H | Hi] Ha]]; [subst; rewrite Hf in Ha; inversion Ha; auto | right; exists a'; auto].
    + intros [a' [Hi Ha]]; exists a'; auto.
    + intros [a' [[H | Hi] Ha]]; [subst; congruence | exists a'; auto].
Qed.

Lemma concat_member : forall (A : Type) (x : list A) ls,
  In x ls -> incl x (List.concat ls) /\ List.length x <= List.length (List.concat ls).
Proof.
  induction ls as [|y ls IH]; simpl; intros H; [tauto|].
  rewrite app_length. destruct H as [H | H].
  - subst. split; [apply incl_appl, incl_refl | lia].
  - destruct (IH H) as [H1 H2]. split; [apply incl_appr; exact H1 | lia].
Qed.

Section ChunkByFacts.
  Variables (K A : Type) (keqb : K -> K -> bool) (key : A -> K).

  Lemma chunk_by_concat : forall l, List.concat (map snd (chunk_by keqb key l)) = l.
  Proof.
    induction l as [|a t IH]; simpl; [reflexivity|].
    destruct (chunk_by keqb key t) as [|[k grp] rest] eqn:Hc.
    - simpl in IH. subst t. reflexivity.
    - simpl in IH. destruct (keqb (key a) k); simpl; rewrite IH; reflexivity.
  Qed.

  Lemma chunk_by_length : forall l, List.length (chunk_by keqb key l) <= List.length l.
  Proof.
    induction l as [|a t IH]; simpl; [lia|].
    destruct (chunk_by keqb key t) as [|[k grp] rest] eqn:Hc; simpl in *; [lia|].
    destruct (keqb (key a) k); simpl; lia.
  Qed.

  Lemma chunk_by_group : forall l k grp,
    In (k, grp) (chunk_by keqb key l) -> incl grp l /\ List.length grp <= List.length l.
  Proof.
    intros l k grp H.
    assert (Hin : In grp (map snd (chunk_by keqb key l))) by (apply in_map_iff; exists (k, grp); auto).
    apply concat_member in Hin. rewrite chunk_by_concat in Hin. exact Hin.
  Qed.
End ChunkByFacts.

Lemma sort_by_bool_In : forall (A : Type) (f : A -> bool) l x, In x (sort_by_bool f l) <-> In x l.
Proof.
  intros A f l x. unfold sort_by_bool. rewrite in_app_iff, !filter_In.
  destruct (f x) eqn:Hf; simpl; intuition congruence.
Qed.

Lemma sort_by_bool_length : forall (A : Type) (f : A -> bool) l,
  List.length (sort_by_bool f l) = List.length l.
Proof.
  intros A f l. unfold sort_by_bool. rewrite app_length.
  induction l as [|a l IH]; simpl; [reflexivity|]. destruct (f a); simpl; lia.
Qed.

(* ---------------- graph facts ---------------- *)

Section GraphFacts.
Variable g : rgraph.

Lemma out_edges_incl : forall n e, In e (out_edges g n) -> In e (g_edges g).
Proof. intros n e H. unfold out_edges in H. apply in_rev in H. apply filter_In in H. tauto. Qed.

Lemma out_edges_length : forall n, List.length (out_edges g n) <= n_edges g.
Proof. intros n. unfold out_edges, n_edges. rewrite rev_length. apply filter_length_le'. Qed.

Lemma targets_length : List.length (targets g) = n_edges g.
Proof. unfold targets, n_edges. apply map_length. Qed.

Lemma edge_target_In : forall e, In e (g_edges g) -> In (e_tgt e) (targets g).
Proof. intros e H. unfold targets. apply in_map. exact H. Qed.

Lemma req_groups_facts : forall es r ts,
  In (r, ts) (req_groups es) ->
  incl ts (map e_tgt es) /\ List.length ts <= List.length es.
Proof.
  intros es r ts H. unfold req_groups in H. apply in_map_iff in H.
  destruct H as [[k grp] [Heq Hin]]. simpl in Heq. inversion Heq; subst; clear Heq.
  apply chunk_by_group in Hin. destruct Hin as [Hincl Hlen]. split.
  - intros t Ht. apply in_map_iff in Ht. destruct Ht as [[r' t'] [Ht1 Ht2]]. simpl in Ht1. subst t'.
    apply Hincl in Ht2. unfold req_targets in Ht2. apply filter_map_In in Ht2.
    destruct Ht2 as [e [He1 He2]]. destruct (edge_req (e_w e)); inversion He2; subst.
    apply in_map. exact He1.
  - rewrite map_length. etransitivity; [exact Hlen|]. apply filter_map_length.
Qed.

Lemma req_groups_length : forall es, List.length (req_groups es) <= List.length es.
Proof.
  intros es. unfold req_groups. rewrite map_length.
  etransitivity; [apply chunk_by_length|]. apply filter_map_length.
Qed.

End GraphFacts.

(* ---------------- termination measure ---------------- *)

(* weight of a candidate / requirement entry with k levels of expansion left,
   in a graph with E edges *)
Fixpoint wC (E k : nat) : nat :=
  match k with 0 => 1 | S k' => 1 + E * (1 + E * wC E k') end.
Definition wR (E k : nat) : nat := 1 + E * wC E k.

Lemma wC_S : forall E k, wC E (S k) = 1 + E * wR E k.
Proof. reflexivity. Qed.

Definition sum (l : list nat) : nat := fold_right Nat.add 0 l.

Lemma sum_app : forall a b, sum (a ++ b) = sum a + sum b.
Proof. induction a; simpl; intros; [reflexivity|]. rewrite IHa. lia. Qed.

Lemma sum_rev : forall a, sum (rev a) = sum a.
Proof. induction a; simpl; [reflexivity|]. rewrite sum_app. simpl. lia. Qed.

Lemma sum_const_le : forall (l : list nat) w n,
  Forall (fun x => x = w) l -> List.length l <= n -> sum l <= n * w.
Proof.
  induction l as [|a l IH]; simpl; intros w n Hall Hlen; [lia|].
  inversion Hall; subst. destruct n; [lia|]. simpl.
  specialize (IH w n H2). lia.
Qed.

Lemma NoDup_snoc : forall (A : Type) (l : list A) a, NoDup l -> ~ In a l -> NoDup (l ++ [a]).
Proof.
  intros A l a H1 H2. eapply Permutation_NoDup; [apply Permutation_cons_append|].
  constructor; assumption.
Qed.

Section MachineFacts.
Variable g : rgraph.
Variable merged : list (N * list N).
Variable inst : list N.
Variable md : rmode.
Hypothesis Hmd : mode_path md = true.   (* MPathOnly or MCurrent *)

Notation E := (n_edges g).
Notation T := (targets g).

Definition entry_ok (e : entry) : Prop :=
  let '(op, ind, path) := e in
  NoDup path /\ incl path T /\
  List.length (fst ind) = 2 * List.length path + (match op with OpReq _ _ => 1 | OpCand _ => 2 end) /\
  match op with
  | OpReq _ ts => incl ts T /\ List.length ts <= E
  | OpCand c => In c T
  end.

Definition weight (e : entry) : nat :=
  let '(op, _, path) := e in
  let k := E - List.length path in
  match op with OpReq _ _ => wR E k | OpCand _ => wC E k end.

Definition total (st : list entry) : nat := sum (map weight st).

Lemma weight_pos : forall e, 1 <= weight e.
Proof. intros [[[r ts|c] ind] p]; simpl; unfold wR; [lia|]. destruct (E - List.length p); simpl; lia. Qed.

Lemma path_length_le : forall p, NoDup p -> incl p T -> List.length p <= E.
Proof. intros p H1 H2. rewrite <- (targets_length g). apply NoDup_incl_length; assumption. Qed.

Lemma ind_set_last_length : forall i, List.length (fst (ind_set_last i)) = List.length (fst i).
Proof. intros [[|b l] t]; reflexivity. Qed.

Lemma set_last_first_weight : forall l, map weight (set_last_first l) = map weight l.
Proof. intros [|[[op ind] p] t]; reflexivity. Qed.

Lemma set_last_first_ok : forall l, Forall entry_ok l -> Forall entry_ok (set_last_first l).
Proof.
  intros [|[[op ind] p] t] H; simpl; [constructor|].
  inversion H; subst. constructor; [|assumption].
  unfold entry_ok in *. rewrite ind_set_last_length. exact H2.
Qed.

Lemma set_last_first_length : forall l, List.length (set_last_first l) = List.length l.
Proof. intros [|[[op ind] p] t]; reflexivity. Qed.

Lemma dedupe_incl : forall cs seen, incl (dedupe g merged seen cs) cs.
Proof.
  induction cs as [|c t IH]; simpl; intros seen; [apply incl_refl|].
  destruct (node_solvable g c); [|apply incl_tl, IH].
  destruct (memN n seen); [apply incl_tl, IH|].
  apply incl_cons; [left; reflexivity | apply incl_tl, IH].
Qed.

Lemma dedupe_length : forall cs seen, List.length (dedupe g merged seen cs) <= List.length cs.
Proof.
  induction cs as [|c t IH]; simpl; intros seen; [lia|].
  destruct (node_solvable g c); [|specialize (IH seen); lia].
  destruct (memN n seen); [specialize (IH seen); lia|]. simpl.
  match goal with |- S (List.length (dedupe _ _ ?s _)) <= _ => specialize (IH s) end. lia.
Qed.

(* children of a requirement entry *)
Lemma cand_entries_facts : forall cs ind path,
  NoDup path -> incl path T -> List.length (fst ind) = 2 * List.length path + 1 ->
  incl cs T ->
  Forall entry_ok (cand_entries g merged cs ind path) /\
  Forall (fun w => w = wC E (E - List.length path)) (map weight (cand_entries g merged cs ind path)) /\
  List.length (cand_entries g merged cs ind path) <= List.length cs.
Proof.
  intros cs ind path Hnd Hincl Hlen Hcs. unfold cand_entries.
  rewrite set_last_first_weight, set_last_first_length, map_length.
  split; [|split].
  - apply set_last_first_ok. apply Forall_forall. intros e He. apply in_map_iff in He.
    destruct He as [c [He Hc]]. subst e. simpl. repeat split; auto.
    + simpl. lia.
    + apply Hcs. eapply dedupe_incl; eauto.
  - apply Forall_forall. intros w Hw. apply in_map_iff in Hw. destruct Hw as [e [Hw He]].
    apply in_map_iff in He. destruct He as [c [He Hc]]. subst e w. reflexivity.
  - apply dedupe_length.
Qed.

(* children of a candidate entry *)
Lemma req_entries_facts : forall es ind path,
  NoDup path -> incl path T -> List.length (fst ind) = 2 * List.length path ->
  incl es (g_edges g) -> List.length es <= E ->
  Forall entry_ok (req_entries inst es ind path) /\
  Forall (fun w => w = wR E (E - List.length path)) (map weight (req_entries inst es ind path)) /\
  List.length (req_entries inst es ind path) <= List.length es.
Proof.
  intros es ind path Hnd Hincl Hlen Hes HesE. unfold req_entries.
  rewrite set_last_first_weight, set_last_first_length, map_length, sort_by_bool_length.
  split; [|split].
  - apply set_last_first_ok. apply Forall_forall. intros e He. apply in_map_iff in He.
    destruct He as [[r ts] [He Hc]]. subst e. apply sort_by_bool_In in Hc.
    apply req_groups_facts in Hc. destruct Hc as [Hc1 Hc2]. simpl. repeat split; auto.
    + simpl. lia.
    + intros t Ht. apply Hc1 in Ht. apply in_map_iff in Ht. destruct Ht as [e [Ht He]]. subst t.
      apply edge_target_In. apply Hes. exact He.
    + lia.
  - apply Forall_forall. intros w Hw. apply in_map_iff in Hw. destruct Hw as [e [Hw He]].
    apply in_map_iff in He. destruct He as [[r ts] [He Hc]]. subst e w. reflexivity.
  - apply req_groups_length.
Qed.

Lemma constrain_lines_length : forall ind vss, List.length (constrain_lines ind vss) = List.length vss.
Proof. induction vss as [|v [|v' t] IH]; simpl in *; auto. Qed.

Lemma dedup_consec_length : forall l, List.length (dedup_consec l) <= List.length l.
Proof.
  induction l as [|a [|b t] IH]; simpl in *; [lia|lia|].
  destruct (N.eqb a b); simpl in *; lia.
Qed.

(* One iteration of the loop with the path check (MPathOnly, MCurrent): the pushed entries
   satisfy the invariant and weigh strictly less than the popped one; at most
   1 + E lines are written. *)
Definition st_lines (x : list line * list entry * mstate) := fst (fst x).
Definition st_pushes (x : list line * list entry * mstate) := snd (fst x).
Definition st_state (x : list line * list entry * mstate) := snd x.

Lemma step_decreases : forall e rep,
  entry_ok e ->
  Forall entry_ok (st_pushes (step g merged inst md e rep)) /\
  S (total (st_pushes (step g merged inst md e rep))) <= weight e /\
  List.length (st_lines (step g merged inst md e rep)) <= S E.
Proof.
  intros [[op ind] path] rep Hok.
  destruct Hok as [Hnd [Hincl [Hlen Hop]]].
  assert (Hnil : forall (l : line) r', let x := ([l], @nil entry, r') in
            Forall entry_ok (st_pushes x) /\ S (total (st_pushes x)) <= weight (op, ind, path) /\
            List.length (st_lines x) <= S E).
  { intros l r'. cbn [st_pushes st_lines fst snd]. split; [constructor|].
    split; [apply (weight_pos (op, ind, path)) | simpl; lia]. }
  destruct op as [r ts | c]; unfold step.
  - (* requirement *)
    destruct Hop as [Hts HtsE].
    assert (Hchildren : forall cs, incl cs ts -> List.length cs <= List.length ts ->
       Forall entry_ok (cand_entries g merged cs ind path) /\
       S (total (cand_entries g merged cs ind path)) <= weight (OpReq r ts, ind, path)).
    { intros cs Hcs HcsL.
      destruct (cand_entries_facts cs ind path Hnd Hincl Hlen (incl_tran Hcs Hts)) as [H1 [H2 H3]].
      split; [exact H1|]. unfold total.
      change (weight (OpReq r ts, ind, path)) with (wR E (E - List.length path)). unfold wR.
      pose proof (sum_const_le _ _ E H2) as Hs. rewrite map_length in Hs.
      specialize (Hs ltac:(lia)). lia. }
    destruct (match ts with [t] => match node_at g t with Some RUnresolved => true | _ => false end | _ => false end).
    + apply Hnil.
    + destruct (group_installable inst ts); cbn [st_pushes st_lines fst snd].
      * destruct (Hchildren (filter (fun t => memN t inst) ts)) as [H1 H2].
        { intros x Hx. apply filter_In in Hx. tauto. }
        { apply filter_length_le'. }
        split; [exact H1|]. split; [exact H2|]. simpl; lia.
      * destruct (Hchildren ts (incl_refl _) (le_n _)) as [H1 H2].
        split; [exact H1|]. split; [exact H2|]. simpl; lia.
  - (* candidate *)
    destruct (match node_solvable g c with Some s => memN s (fst rep) | None => false end).
    { cbn [st_pushes st_lines fst snd]. split; [constructor|].
      split; [apply (weight_pos (OpCand c, ind, path)) | simpl; lia]. }
    cbv zeta. rewrite Hmd. cbn [andb].
    destruct (memN c path) eqn:Hmem; cbn [negb andb orb]. { apply Hnil. }
    match goal with |- context [if ?b then ([mkLine (LCandBackref _) _], _, _) else _] => destruct b end.
    { apply Hnil. }
    destruct (excluded_reason g c). { apply Hnil. }
    pose proof (out_edges_length g c) as HoesE.
    assert (HoesI : incl (out_edges g c) (g_edges g)) by (intros e He; eapply out_edges_incl; eauto).
    destruct (out_edges g c) as [|e0 oes]. { apply Hnil. }
    remember (e0 :: oes) as oe eqn:Hoe.
    destruct (existsb (fun e => is_forbid (e_w e)) oe). { apply Hnil. }
    destruct (existsb (fun e => is_con (e_w e)) oe).
    { cbn [st_pushes st_lines fst snd]. split; [constructor|].
      split; [apply (weight_pos (OpCand c, ind, path)) |].
      cbn [List.length]. rewrite constrain_lines_length.
      etransitivity; [apply le_n_S, dedup_consec_length|].
      etransitivity; [apply le_n_S, filter_map_length|]. lia. }
    cbn [st_pushes st_lines fst snd].
    assert (Hnin : ~ In c path).
    { intros Hin. apply memN_In in Hin. congruence. }
    assert (Hnd' : NoDup (path ++ [c])) by (apply NoDup_snoc; auto).
    assert (Hincl' : incl (path ++ [c]) T).
    { apply incl_app; [exact Hincl|]. intros x [Hx|[]]. subst; exact Hop. }
    pose proof (path_length_le _ Hnd' Hincl') as Hpl. rewrite app_length in Hpl. cbn [List.length] in Hpl.
    assert (Hlen' : List.length (fst ind) = 2 * List.length (path ++ [c])).
    { rewrite app_length. cbn [List.length]. lia. }
    destruct (req_entries_facts oe ind (path ++ [c]) Hnd' Hincl' Hlen' HoesI HoesE) as [H1 [H2 H3]].
    split; [exact H1|]. split; [|simpl; lia].
    unfold total. change (weight (OpCand c, ind, path)) with (wC E (E - List.length path)).
    pose proof (sum_const_le _ _ E H2) as Hs. rewrite map_length in Hs.
    specialize (Hs ltac:(lia)).
    rewrite app_length in Hs. cbn [List.length] in Hs.
    replace (E - List.length path) with (S (E - (List.length path + 1))) by lia.
    rewrite wC_S. lia.
Qed.

(* ---------------- the run ---------------- *)

Lemma run_terminates : forall fuel st rep,
  Forall entry_ok st -> total st <= fuel -> run g merged inst md fuel st rep <> None.
Proof.
  induction fuel as [|f IH]; intros st rep Hok Hfuel.
  - destruct st as [|e rest]; simpl; [discriminate|].
    exfalso. unfold total in Hfuel. simpl in Hfuel. pose proof (weight_pos e). lia.
  - destruct st as [|e rest]; simpl; [discriminate|].
    inversion Hok; subst.
    destruct (step_decreases e rep H1) as [Hp [Hw _]].
    destruct (step g merged inst md e rep) as [[ls pushes] rep'].
    cbn [st_pushes st_lines fst snd] in *.
    assert (Hn : run g merged inst md f (rev pushes ++ rest) rep' <> None).
    { apply IH.
      - apply Forall_app. split; [apply Forall_rev; exact Hp | exact H2].
      - unfold total in *. rewrite map_app, sum_app, map_rev, sum_rev. simpl in Hfuel. lia. }
    destruct (run g merged inst md f (rev pushes ++ rest) rep'); [discriminate | congruence].
Qed.

Lemma run_lines_bound : forall fuel st rep ls,
  Forall entry_ok st -> run g merged inst md fuel st rep = Some ls ->
  List.length ls <= S E * total st.
Proof.
  induction fuel as [|f IH]; intros st rep ls Hok Hrun.
  - destruct st as [|e rest]; simpl in Hrun; [|discriminate]. inversion Hrun; subst. simpl; lia.
  - destruct st as [|e rest]; simpl in Hrun. { inversion Hrun; subst. simpl; lia. }
    inversion Hok; subst.
    destruct (step_decreases e rep H1) as [Hp [Hw Hl]].
    destruct (step g merged inst md e rep) as [[ls0 pushes] rep'].
    cbn [st_pushes st_lines fst snd] in *.
    destruct (run g merged inst md f (rev pushes ++ rest) rep') as [more|] eqn:Hr; [|discriminate].
    inversion Hrun; subst. apply IH in Hr.
    + rewrite app_length. unfold total in *. rewrite map_app, sum_app, map_rev, sum_rev in Hr.
      simpl. nia.
    + apply Forall_app. split; [apply Forall_rev; exact Hp | exact H2].
Qed.

Lemma run_fuel_mono : forall md' fuel fuel' st rep ls,
  run g merged inst md' fuel st rep = Some ls -> fuel <= fuel' ->
  run g merged inst md' fuel' st rep = Some ls.
Proof.
  induction fuel as [|f IH]; intros fuel' st rep ls Hrun Hle.
  - destruct st; simpl in Hrun; [|discriminate]. destruct fuel'; simpl; exact Hrun.
  - destruct st as [|e rest]. { destruct fuel'; simpl in *; exact Hrun. }
    destruct fuel' as [|f']; [lia|]. simpl in *.
    destruct (step g merged inst md' e rep) as [[ls0 pushes] rep'].
    destruct (run g merged inst md' f (rev pushes ++ rest) rep') as [more|] eqn:Hr; [|discriminate].
    rewrite (IH f' _ _ _ Hr ltac:(lia)). exact Hrun.
Qed.

(* the initial stack of fmt_graph *)
Lemma init_stack_facts : forall es tli,
  incl es (g_edges g) -> List.length es <= E ->
  Forall entry_ok (init_stack inst es tli) /\ total (init_stack inst es tli) <= E * wR E E.
Proof.
  intros es tli Hes HesE. unfold init_stack.
  destruct (req_entries_facts es (ind_new tli) [] (NoDup_nil _) (incl_nil_l _) eq_refl Hes HesE) as [H1 [H2 H3]].
  split; [apply Forall_rev; exact H1|].
  unfold total. rewrite map_rev, sum_rev.
  pose proof (sum_const_le _ _ E H2) as Hs. rewrite map_length in Hs.
  specialize (Hs ltac:(lia)). cbn [List.length] in Hs. rewrite Nat.sub_0_r in Hs. exact Hs.
Qed.

End MachineFacts.

(* ---------------- (a) termination, (b) size ---------------- *)

Definition fuel_bound (g : rgraph) : nat := n_edges g * wR (n_edges g) (n_edges g).
Definition line_bound (g : rgraph) : nat := 2 * (S (n_edges g) * fuel_bound g) + S (n_edges g).

Lemma fmt_graph_edges_terminates : forall g merged inst md es tli,
  mode_path md = true ->
  incl es (g_edges g) -> List.length es <= n_edges g ->
  fmt_graph_edges g merged inst md (fuel_bound g) es tli <> None.
Proof.
  intros g merged inst md es tli Hmd H1 H2. unfold fmt_graph_edges.
  destruct (init_stack_facts g inst es tli H1 H2) as [Hok Htot].
  apply run_terminates; assumption.
Qed.

Lemma fmt_graph_edges_lines : forall g merged inst md fuel es tli ls,
  mode_path md = true ->
  incl es (g_edges g) -> List.length es <= n_edges g ->
  fmt_graph_edges g merged inst md fuel es tli = Some ls ->
  List.length ls <= S (n_edges g) * fuel_bound g.
Proof.
  intros g merged inst md fuel es tli ls Hmd H1 H2 Hrun. unfold fmt_graph_edges in Hrun.
  destruct (init_stack_facts g inst es tli H1 H2) as [Hok Htot].
  apply run_lines_bound in Hrun; [|exact Hmd|exact Hok]. unfold fuel_bound. nia.
Qed.

Lemma root_conflict_lines_length : forall es, List.length (root_conflict_lines es) <= List.length es.
Proof. induction es as [|e t IH]; simpl; [lia|]. destruct (e_w e); simpl; lia. Qed.

Lemma root_filter_facts : forall g (f : N * N * redge -> bool),
  incl (filter f (out_edges g (g_root g))) (g_edges g) /\
  List.length (filter f (out_edges g (g_root g))) <= n_edges g.
Proof.
  intros g f. split.
  - intros e He. apply filter_In in He. eapply out_edges_incl. apply He.
  - etransitivity; [apply filter_length_le'|]. apply out_edges_length.
Qed.

Lemma fmt_display_terminates : forall D g md, mode_path md = true -> fmt_display D g md (fuel_bound g) <> None.
Proof.
  intros D g md Hmd. unfold fmt_display. cbv zeta.
  set (merged := simplify D g). set (inst := installable_set g). set (miss := missing_set g).
  destruct (root_filter_facts g (fun e => memN (e_tgt e) miss)) as [Hm1 Hm2].
  destruct (root_filter_facts g (fun e => negb (memN (e_tgt e) miss))) as [Hc1 Hc2].
  pose proof (fmt_graph_edges_terminates g merged inst md _ false Hmd Hm1 Hm2) as HA.
  pose proof (fmt_graph_edges_terminates g merged inst md _ true Hmd Hc1 Hc2) as HB.
  set (tm := filter (fun e => memN (e_tgt e) miss) (out_edges g (g_root g))) in *.
  set (tc := filter (fun e => negb (memN (e_tgt e) miss)) (out_edges g (g_root g))) in *.
  assert (H1 : match tm with [] => Some [] | _ :: _ => fmt_graph_edges g merged inst md (fuel_bound g) tm false end <> None).
  { destruct tm; [discriminate | exact HA]. }
  destruct (match tm with [] => Some [] | _ :: _ => fmt_graph_edges g merged inst md (fuel_bound g) tm false end) as [l1|];
    [|congruence].
  destruct tc eqn:Htc; [discriminate|]. rewrite <- Htc in *.
  destruct (fmt_graph_edges g merged inst md (fuel_bound g) tc true); [discriminate | congruence].
Qed.

Theorem render_terminates : forall D g, fmt_graph D g (fuel_bound g) <> None.
Proof. intros D g. apply fmt_display_terminates. reflexivity. Qed.

Theorem render_terminates_path_only : forall D g, fmt_graph_path_only D g (fuel_bound g) <> None.
Proof. intros D g. apply fmt_display_terminates. reflexivity. Qed.

(* decomposition of a successful run of impl Display *)
Lemma fmt_display_parts : forall D g md fuel ls,
  fmt_display D g md fuel = Some ls ->
  let merged := simplify D g in
  let inst := installable_set g in
  let miss := missing_set g in
  let root_edges := out_edges g (g_root g) in
  let tm := filter (fun e => memN (e_tgt e) miss) root_edges in
  let tc := filter (fun e => negb (memN (e_tgt e) miss)) root_edges in
  exists l1 l2,
    (l1 = [] \/ fmt_graph_edges g merged inst md fuel tm false = Some l1) /\
    ((ls = l1 /\ l2 = []) \/
     (fmt_graph_edges g merged inst md fuel tc true = Some l2 /\
      ls = l1 ++ mkLine LHeader (ind_new true) :: l2 ++ root_conflict_lines root_edges)).
Proof.
  intros D g md fuel ls H. unfold fmt_display in H. cbv zeta in *.
  set (merged := simplify D g) in *. set (inst := installable_set g) in *. set (miss := missing_set g) in *.
  set (tm := filter (fun e => memN (e_tgt e) miss) (out_edges g (g_root g))) in *.
  set (tc := filter (fun e => negb (memN (e_tgt e) miss)) (out_edges g (g_root g))) in *.
  assert (H1 : forall l1, match tm with [] => Some [] | _ :: _ => fmt_graph_edges g merged inst md fuel tm false end = Some l1 ->
                l1 = [] \/ fmt_graph_edges g merged inst md fuel tm false = Some l1).
  { intros l1. destruct tm; [intros Hx; inversion Hx; left; reflexivity | intros Hx; right; exact Hx]. }
  destruct (match tm with [] => Some [] | _ :: _ => fmt_graph_edges g merged inst md fuel tm false end) as [l1|];
    [|discriminate].
  specialize (H1 l1 eq_refl).
  destruct tc eqn:Htc.
  { inversion H; subst. exists ls, []. split; [exact H1 | left; split; reflexivity]. }
  rewrite <- Htc in *.
  destruct (fmt_graph_edges g merged inst md fuel tc true) as [l2|] eqn:H2; [|discriminate].
  inversion H; subst. exists l1, l2. split; [exact H1 | right; split; reflexivity].
Qed.

(* the bound that follows from the path check alone (exponential) *)
Theorem render_lines_bound_exp : forall D g md fuel ls,
  mode_path md = true -> fmt_display D g md fuel = Some ls -> List.length ls <= line_bound g.
Proof.
  intros D g md fuel ls Hmd H. apply fmt_display_parts in H. cbv zeta in H.
  destruct H as [l1 [l2 [HA HB]]].
  destruct (root_filter_facts g (fun e => memN (e_tgt e) (missing_set g))) as [Hm1 Hm2].
  destruct (root_filter_facts g (fun e => negb (memN (e_tgt e) (missing_set g)))) as [Hc1 Hc2].
  pose proof (root_conflict_lines_length (out_edges g (g_root g))) as HR.
  pose proof (out_edges_length g (g_root g)) as HO.
  assert (H1 : List.length l1 <= S (n_edges g) * fuel_bound g).
  { destruct HA as [HA | HA]; [subst; simpl; lia|].
    eapply fmt_graph_edges_lines; [exact Hmd | exact Hm1 | exact Hm2 | exact HA]. }
  unfold line_bound. destruct HB as [[HB1 HB2] | [HB1 HB2]]; subst ls; [lia|].
  apply (fmt_graph_edges_lines _ _ _ _ _ _ _ _ Hmd Hc1 Hc2) in HB1.
  rewrite app_length. cbn [List.length]. rewrite app_length. lia.
Qed.

(* ---------------- (c) simplify: hash-map iteration order cannot leak ---------------- *)

Definition node_solvables (g : rgraph) : list N :=
  filter_map (fun nd => match nd with RSol s => Some s | _ => None end) (g_nodes g).

Lemma Permutation_concat : forall (A : Type) (l l' : list (list A)),
  Permutation l l' -> Permutation (List.concat l) (List.concat l').
Proof.
  intros A l l' H. induction H; simpl.
  - constructor.
  - apply Permutation_app_head. exact IHPermutation.
  - rewrite !app_assoc. apply Permutation_app_tail. apply Permutation_app_comm.
  - eapply Permutation_trans; eassumption.
Qed.

(* two groups of a family with duplicate-free concatenation that share a member are equal *)
Lemma disjoint_groups_eq : forall (gs : list (list N)) a b s,
  NoDup (List.concat gs) -> In a gs -> In b gs -> In s a -> In s b -> a = b.
Proof.
  induction gs as [|x t IH]; simpl; intros a b s Hnd Ha Hb Hsa Hsb; [tauto|].
  assert (Hdis : forall y, In y t -> In s x -> In s y -> False).
  { intros y Hy Hsx Hsy.
    assert (Hc : In s (List.concat t)).
    { destruct (@concat_member _ y t Hy) as [Hi _]. apply Hi. exact Hsy. }
    clear - Hnd Hsx Hc. induction x as [|z x IHx]; simpl in *; [tauto|].
    inversion Hnd; subst. destruct Hsx as [Hz | Hsx].
    - subst. apply H1. apply in_or_app. right. exact Hc.
    - apply IHx; assumption. }
  assert (Hnd' : NoDup (List.concat t)).
  { clear - Hnd. induction x; simpl in *; [exact Hnd|]. inversion Hnd; auto. }
  destruct Ha as [Ha | Ha], Hb as [Hb | Hb]; subst.
  - reflexivity.
  - exfalso. eapply Hdis; eauto.
  - exfalso. eapply Hdis; eauto.
  - eapply IH; eauto.
Qed.

Section SimplifyFacts.

(* every entry of the map comes from a group with more than one member *)
Definition mc_sound (gs : list (list N)) (m : list (N * list N)) : Prop :=
  forall k v, In (k, v) m -> In v gs /\ In k v /\ 1 < List.length v.
Definition mc_complete (gs : list (list N)) (m : list (N * list N)) : Prop :=
  forall v k, In v gs -> 1 < List.length v -> In k v -> exists v', In (k, v') m.

Lemma insert_ids_In : forall (ids0 ids : list N) m k v,
  In (k, v) (fold_left (fun m id => (id, ids0) :: m) ids m) <->
  In (k, v) m \/ (In k ids /\ v = ids0).
Proof.
  induction ids as [|i t IH]; simpl; intros m k v.
  - tauto.
  - rewrite IH. simpl. split.
    + intros [[H | H] | [H1 H2]]; [inversion H; subst; right; auto | left; auto | right; auto].
    + intros [H | [[H | H] H2]]; [left; right; auto | subst; left; left; reflexivity | right; auto].
Qed.

Lemma simplify_of_spec : forall gs m0 gs0,
  mc_sound gs0 m0 -> mc_complete gs0 m0 ->
  mc_sound (gs0 ++ gs) (fold_left mc_insert_group gs m0) /\
  mc_complete (gs0 ++ gs) (fold_left mc_insert_group gs m0).
Proof.
  induction gs as [|ids t IH]; simpl; intros m0 gs0 Hs Hc.
  - rewrite app_nil_r. auto.
  - replace (gs0 ++ ids :: t) with ((gs0 ++ [ids]) ++ t) by (rewrite <- app_assoc; reflexivity).
    apply IH.
    + intros k v Hin. unfold mc_insert_group in Hin.
      destruct (Nat.ltb 1 (List.length ids)) eqn:Hlt.
      * apply insert_ids_In in Hin. destruct Hin as [Hin | [Hk Hv]].
        -- destruct (Hs k v Hin) as [H1 H2]. split; [apply in_or_app; left; exact H1 | exact H2].
        -- subst v. apply Nat.ltb_lt in Hlt. split; [apply in_or_app; right; left; reflexivity | auto].
      * destruct (Hs k v Hin) as [H1 H2]. split; [apply in_or_app; left; exact H1 | exact H2].
    + intros v k Hv Hlen Hk. unfold mc_insert_group. apply in_app_or in Hv.
      destruct Hv as [Hv | [Hv | []]].
      * destruct (Hc v k Hv Hlen Hk) as [v' Hv'].
        destruct (Nat.ltb 1 (List.length ids)); [|exists v'; exact Hv'].
        exists v'. apply insert_ids_In. left. exact Hv'.
      * subst v. apply Nat.ltb_lt in Hlen. rewrite Hlen.
        exists ids. apply insert_ids_In. right. auto.
Qed.

Lemma mc_get_Some_In : forall s m v, mc_get s m = Some v -> In (s, v) m.
Proof.
  intros s m v H. unfold mc_get in H.
  destruct (find (fun kv => N.eqb (fst kv) s) m) as [[k v']|] eqn:Hf; [|discriminate].
  inversion H; subst. apply find_some in Hf. destruct Hf as [Hin Heq].
  simpl in Heq. apply N.eqb_eq in Heq. subst. exact Hin.
Qed.

Lemma mc_get_None_notin : forall s m v, mc_get s m = None -> ~ In (s, v) m.
Proof.
  intros s m v H Hin. unfold mc_get in H.
  destruct (find (fun kv => N.eqb (fst kv) s) m) eqn:Hf; [discriminate|].
  eapply find_none in Hf; [|exact Hin]. simpl in Hf. rewrite N.eqb_refl in Hf. discriminate.
Qed.

(* characterisation of the merged-candidate map when no solvable is in two groups *)
Lemma simplify_of_get : forall gs s v,
  NoDup (List.concat gs) ->
  (mc_get s (simplify_of gs) = Some v <-> In v gs /\ In s v /\ 1 < List.length v).
Proof.
  intros gs s v Hnd.
  destruct (simplify_of_spec gs [] []) as [Hs Hc].
  { intros k w []. } { intros w k []. }
  simpl in Hs, Hc. fold (simplify_of gs) in Hs, Hc. split.
  - intros H. apply mc_get_Some_In in H. apply Hs. exact H.
  - intros [H1 [H2 H3]]. destruct (mc_get s (simplify_of gs)) as [v'|] eqn:Hg.
    + f_equal. apply mc_get_Some_In in Hg. destruct (Hs _ _ Hg) as [G1 [G2 G3]].
      eapply disjoint_groups_eq; eauto.
    + exfalso. destruct (Hc v s H1 H3 H2) as [v' Hv']. eapply mc_get_None_notin; eauto.
Qed.

Lemma simplify_of_perm : forall gs gs' s,
  NoDup (List.concat gs) -> Permutation gs gs' ->
  mc_get s (simplify_of gs') = mc_get s (simplify_of gs).
Proof.
  intros gs gs' s Hnd Hp.
  assert (Hnd' : NoDup (List.concat gs')).
  { eapply Permutation_NoDup; [apply Permutation_concat; exact Hp | exact Hnd]. }
  destruct (mc_get s (simplify_of gs)) as [v|] eqn:Hg.
  - apply simplify_of_get in Hg; [|exact Hnd]. apply simplify_of_get; [exact Hnd'|].
    destruct Hg as [H1 H2]. split; [eapply Permutation_in; eauto | exact H2].
  - destruct (mc_get s (simplify_of gs')) as [v|] eqn:Hg'; [|reflexivity].
    apply simplify_of_get in Hg'; [|exact Hnd']. destruct Hg' as [H1 H2].
    assert (Hx : mc_get s (simplify_of gs) = Some v).
    { apply simplify_of_get; [exact Hnd|]. split; [eapply Permutation_in; [apply Permutation_sym|]; eauto | exact H2]. }
    congruence.
Qed.

End SimplifyFacts.

(* the groups: every solvable of the graph is in exactly one *)
Section Groups.
Variable D : display.
Variable g : rgraph.

Lemma mm_push_concat : forall k v m,
  Permutation (List.concat (map snd (mm_push k v m))) (v :: List.concat (map snd m)).
Proof.
  induction m as [|[k' vs] t IH]; simpl.
  - constructor. constructor.
  - destruct (mkey_eqb k k'); simpl.
    + rewrite <- app_assoc. simpl.
      eapply Permutation_trans; [|apply Permutation_sym, Permutation_middle]. reflexivity.
    + eapply Permutation_trans; [apply Permutation_app_head; exact IH|].
      apply Permutation_sym, Permutation_middle.
Qed.

Lemma maybe_merge_concat_gen : forall idx m,
  Permutation
    (List.concat (map snd (fold_left (fun m i => match node_solvable g i with
                                            | Some s => mm_push (merge_key D g i s) s m | None => m end) idx m)))
    (rev (filter_map (node_solvable g) idx) ++ List.concat (map snd m)).
Proof.
  induction idx as [|i t IH]; simpl; intros m; [reflexivity|].
  eapply Permutation_trans; [apply IH|].
  destruct (node_solvable g i) as [s|]; [|reflexivity]. simpl.
  rewrite <- app_assoc. simpl. apply Permutation_app_head. apply mm_push_concat.
Qed.

Lemma nth_error_seq_map : forall (A : Type) (l : list A) (B : Type) (f : option A -> option B),
  filter_map (fun i => f (nth_error l i)) (seq 0 (List.length l)) = filter_map (fun a => f (Some a)) l.
Proof.
  intros A l B f.
  assert (H : forall n pre, List.length pre = n ->
     filter_map (fun i => f (nth_error (pre ++ l) i)) (seq n (List.length l)) = filter_map (fun a => f (Some a)) l).
  { induction l as [|a t IH]; simpl; intros n pre Hn; [reflexivity|].
    assert (Hnth : nth_error (pre ++ a :: t) n = Some a).
    { rewrite nth_error_app2 by lia. rewrite Hn, Nat.sub_diag. reflexivity. }
    rewrite Hnth.
    specialize (IH (S n) (pre ++ [a])). rewrite <- app_assoc in IH. simpl in IH.
    rewrite IH by (rewrite app_length; simpl; lia). reflexivity. }
  apply (H 0 []). reflexivity.
Qed.

Lemma node_indices_solvables :
  filter_map (node_solvable g) (node_indices g) = node_solvables g.
Proof.
  unfold node_indices, node_solvables, node_solvable, node_at.
  rewrite <- (nth_error_seq_map _ (g_nodes g) _ (fun o => match o with Some (RSol s) => Some s | _ => None end)).
  generalize (seq 0 (List.length (g_nodes g))). intros l.
  induction l as [|i t IH]; simpl; [reflexivity|].
  rewrite Nat2N.id. rewrite IH. reflexivity.
Qed.

Lemma merge_groups_concat : Permutation (List.concat (merge_groups D g)) (node_solvables g).
Proof.
  unfold merge_groups, maybe_merge.
  eapply Permutation_trans; [apply maybe_merge_concat_gen|].
  simpl. rewrite app_nil_r. rewrite node_indices_solvables. apply Permutation_sym, Permutation_rev.
Qed.

End Groups.

Theorem simplify_order_independent : forall D g groups',
  NoDup (node_solvables g) ->
  Permutation (merge_groups D g) groups' ->
  forall s, mc_get s (simplify_of groups') = mc_get s (simplify D g).
Proof.
  intros D g groups' Hnd Hp s. unfold simplify. apply simplify_of_perm; [|exact Hp].
  eapply Permutation_NoDup; [apply Permutation_sym, merge_groups_concat | exact Hnd].
Qed.

(* the hypothesis is needed: with one solvable on two nodes the last inserted
   group wins, and the iteration order shows *)
Example simplify_order_dependent_without_nodup :
  let gs := [[1; 2]; [1; 3]]%N in
  mc_get 1%N (simplify_of gs) <> mc_get 1%N (simplify_of (rev gs)).
Proof. vm_compute. discriminate. Qed.

(* ---------------- (d) the renderer before the `path` fix loops ---------------- *)

(* conflict graph of corpus/C04/F7_cyclic_conflict_render.json, as produced by
   Conflict::graph (solve_cases --cases): s1 -> s0 -> {s1, s2}, s2 -> s0 *)
Definition f7_graph : rgraph :=
  mkRGraph [RRoot; RSol 1; RSol 2; RSol 0]
    [(2,3,EReq (RSingle 0)); (0,1,EReq (RSingle 3)); (0,2,EReq (RSingle 3)); (3,1,EReq (RSingle 1));
     (3,2,EReq (RSingle 2)); (2,1,EForbid); (1,3,EReq (RSingle 0))]%N 0%N None.
Definition f7_display : display := harness_display [0;1;1]%N [0;1;1;1]%N [].


Notation f7_run := (run f7_graph [] [] MPreFix).
Notation st0 := (@nil N, @nil N).

(* The four stack configurations of the cycle
     Candidate(s1) -> Requirement(p0 vs0) -> Candidate(s0) -> Requirement(p1 vs1) -> Candidate(s1)
   with arbitrary indenter, path and rest of the stack; `reported` stays
   empty because nothing is merged. Each step leaves the cycle's next
   configuration on top of the stack, so the stack never becomes empty. *)
Lemma f7_cycle : forall fuel,
  (forall ind path rest, f7_run fuel ((OpCand 1, ind, path) :: rest) st0 = None) /\
  (forall ind path rest, f7_run fuel ((OpReq (RSingle 0) [3%N], ind, path) :: rest) st0 = None) /\
  (forall ind path rest, f7_run fuel ((OpCand 3, ind, path) :: rest) st0 = None) /\
  (forall ind path rest, f7_run fuel ((OpReq (RSingle 1) [1%N], ind, path) :: rest) st0 = None).
Proof.
  induction fuel as [|f [IH1 [IH2 [IH3 IH4]]]].
  - repeat split; reflexivity.
  - repeat split; intros ind path rest.
    + change (f7_run (S f) ((OpCand 1, ind, path) :: rest) st0)
        with (match f7_run f ((OpReq (RSingle 0) [3%N], ind_set_last (ind_push ind), path ++ [1%N]) :: rest) st0 with
              | Some more => Some ([mkLine (LCandWouldRequire (VIds [1%N])) ind] ++ more) | None => None end).
      rewrite IH2. reflexivity.
    + change (f7_run (S f) ((OpReq (RSingle 0) [3%N], ind, path) :: rest) st0)
        with (match f7_run f ((OpCand 3, ind_set_last (ind_push ind), path) :: rest) st0 with
              | Some more => Some ([mkLine (LReqNotInstallable (ind_top ind) (RSingle 0)) ind] ++ more) | None => None end).
      rewrite IH3. reflexivity.
    + change (f7_run (S f) ((OpCand 3, ind, path) :: rest) st0)
        with (match f7_run f ((OpReq (RSingle 1) [1%N], ind_push ind, path ++ [3%N]) ::
                              (OpReq (RSingle 2) [2%N], ind_set_last (ind_push ind), path ++ [3%N]) :: rest) st0 with
              | Some more => Some ([mkLine (LCandWouldRequire (VIds [0%N])) ind] ++ more) | None => None end).
      rewrite IH4. reflexivity.
    + change (f7_run (S f) ((OpReq (RSingle 1) [1%N], ind, path) :: rest) st0)
        with (match f7_run f ((OpCand 1, ind_set_last (ind_push ind), path) :: rest) st0 with
              | Some more => Some ([mkLine (LReqNotInstallable (ind_top ind) (RSingle 1)) ind] ++ more) | None => None end).
      rewrite IH1. reflexivity.
Qed.

Theorem pre_fix_renderer_loops : forall fuel, fmt_graph_pre_fix f7_display f7_graph fuel = None.
Proof.
  intros fuel. unfold fmt_graph_pre_fix, fmt_display. cbv zeta.
  replace (simplify f7_display f7_graph) with (@nil (N * list N)) by (vm_compute; reflexivity).
  replace (installable_set f7_graph) with (@nil N) by (vm_compute; reflexivity).
  replace (missing_set f7_graph) with (@nil N) by (vm_compute; reflexivity).
  replace (out_edges f7_graph (g_root f7_graph))
    with [(0%N, 2%N, EReq (RSingle 3)); (0%N, 1%N, EReq (RSingle 3))] by (vm_compute; reflexivity).
  cbn [filter memN existsb e_tgt fst snd negb].
  unfold fmt_graph_edges.
  replace (init_stack [] [(0%N, 2%N, EReq (RSingle 3)); (0%N, 1%N, EReq (RSingle 3))] true)
    with [(OpReq (RSingle 3) [2%N; 1%N], ind_set_last (ind_push (ind_new true)), @nil N)] by (vm_compute; reflexivity).
  destruct fuel as [|f]; [reflexivity|].
  change (f7_run (S f) [(OpReq (RSingle 3) [2%N; 1%N], ind_set_last (ind_push (ind_new true)), [])] st0)
    with (match f7_run f [(OpCand 1, ([false; true], true), []); (OpCand 2, ([true; true], true), [])] st0 with
          | Some more => Some ([mkLine (LReqNotInstallable true (RSingle 3)) ([true], true)] ++ more) | None => None end).
  destruct (f7_cycle f) as [H _]. rewrite H. reflexivity.
Qed.

(* ... while the later renderers print the back-reference and stop *)
Example post_fix_renderer_stops :
  option_map (@List.length line) (fmt_graph_path_only f7_display f7_graph 11) = Some 10 /\
  option_map (@List.length line) (fmt_graph f7_display f7_graph 11) = Some 10.
Proof. vm_compute. split; reflexivity. Qed.

(* ---------------- the result does not depend on the fuel ---------------- *)

Lemma fmt_display_fuel_mono : forall D g md fuel fuel' ls,
  fmt_display D g md fuel = Some ls -> fuel <= fuel' -> fmt_display D g md fuel' = Some ls.
Proof.
  intros D g md fuel fuel' ls H Hle. unfold fmt_display in *. cbv zeta in *.
  set (merged := simplify D g) in *. set (inst := installable_set g) in *. set (miss := missing_set g) in *.
  set (tm := filter (fun e => memN (e_tgt e) miss) (out_edges g (g_root g))) in *.
  set (tc := filter (fun e => negb (memN (e_tgt e) miss)) (out_edges g (g_root g))) in *.
  assert (H1 : forall l1, match tm with [] => Some [] | _ :: _ => fmt_graph_edges g merged inst md fuel tm false end = Some l1 ->
                match tm with [] => Some [] | _ :: _ => fmt_graph_edges g merged inst md fuel' tm false end = Some l1).
  { intros l1. destruct tm; [auto|]. unfold fmt_graph_edges. intros Hr. eapply run_fuel_mono; eauto. }
  destruct (match tm with [] => Some [] | _ :: _ => fmt_graph_edges g merged inst md fuel tm false end) as [l1|];
    [|discriminate].
  rewrite (H1 l1 eq_refl).
  destruct tc eqn:Htc; [exact H|]. rewrite <- Htc in *.
  destruct (fmt_graph_edges g merged inst md fuel tc true) as [l2|] eqn:H2; [|discriminate].
  unfold fmt_graph_edges in *. rewrite (run_fuel_mono _ _ _ _ _ _ _ _ _ H2 Hle). exact H.
Qed.

Theorem render_fuel_irrelevant : forall D g fuel ls,
  fmt_graph D g fuel = Some ls -> fmt_graph D g (fuel_bound g) = Some ls.
Proof.
  intros D g fuel ls H. destruct (le_ge_dec fuel (fuel_bound g)) as [Hle | Hge].
  - eapply fmt_display_fuel_mono; eauto.
  - destruct (fmt_graph D g (fuel_bound g)) as [ls'|] eqn:Hb.
    + unfold fmt_graph in *. rewrite (fmt_display_fuel_mono _ _ _ _ _ _ Hb Hge) in H. congruence.
    + exfalso. eapply render_terminates; eauto.
Qed.

(* ---------------- (b) bytes ---------------- *)

Local Open Scope string_scope.

Lemma str_length_app : forall a b : string, String.length (a ++ b) = String.length a + String.length b.
Proof. induction a as [|c a IH]; simpl; intros b; [reflexivity|]. rewrite IH. reflexivity. Qed.

Definition sumlen (l : list string) : nat := sum (map String.length l).

Lemma join_length : forall sep l,
  String.length (join sep l) <= sumlen l + String.length sep * List.length l.
Proof.
  intros sep l. unfold sumlen. induction l as [|a [|b t] IH]; simpl in *; [lia|lia|].
  rewrite !str_length_app. lia.
Qed.

Lemma ins_str_facts : forall x l,
  sumlen (ins_str x l) = String.length x + sumlen l /\ List.length (ins_str x l) = S (List.length l).
Proof.
  unfold sumlen. induction l as [|y t [IH1 IH2]]; simpl; [auto|].
  destruct (String.leb x y); simpl; [auto|]. rewrite IH1, IH2. lia.
Qed.

Lemma sort_str_facts : forall l,
  sumlen (sort_str l) = sumlen l /\ List.length (sort_str l) = List.length l.
Proof.
  induction l as [|a t [IH1 IH2]]; simpl; [auto|].
  destruct (ins_str_facts a (sort_str t)) as [H1 H2]. unfold sort_str in *. rewrite H1, H2.
  unfold sumlen in *. simpl. lia.
Qed.

Lemma uniq_str_facts : forall l seen,
  sumlen (uniq_str seen l) <= sumlen l /\ List.length (uniq_str seen l) <= List.length l.
Proof.
  unfold sumlen. induction l as [|a t IH]; simpl; intros seen; [auto|].
  destruct (existsb (String.eqb a) seen); simpl.
  - destruct (IH seen). lia.
  - destruct (IH (a :: seen)). lia.
Qed.

Lemma sumlen_map_le : forall (A : Type) (f : A -> string) M l,
  (forall a, String.length (f a) <= M) -> sumlen (map f l) <= List.length l * M.
Proof.
  intros A f M l H. unfold sumlen. induction l as [|a t IH]; simpl; [lia|]. specialize (H a). lia.
Qed.

Lemma indent_levels_length : forall lv, String.length (indent_levels lv) <= 7 * List.length lv.
Proof.
  induction lv as [|o [|o' t] IH]; [simpl; lia | destruct o; simpl; lia |].
  change (indent_levels (o :: o' :: t))
    with ((if o then glyph_none else glyph_bar) ++ " " ++ indent_levels (o' :: t)).
  rewrite !str_length_app. change (List.length (o :: o' :: t)) with (S (List.length (o' :: t))).
  destruct o; simpl String.length at 1 2; lia.
Qed.

Lemma get_indent_length : forall i, String.length (get_indent i) <= 7 * List.length (fst i).
Proof.
  intros [lv tli]. unfold get_indent. cbn [fst snd].
  etransitivity; [apply indent_levels_length|].
  destruct tli; [rewrite rev_length; lia|].
  rewrite <- (rev_length lv). destruct (rev lv); simpl; lia.
Qed.

Lemma concat_empty_length : forall l, String.length (String.concat "" l) = sumlen l.
Proof.
  unfold sumlen. induction l as [|a [|b t] IH]; [reflexivity | simpl; lia |].
  change (String.concat "" (a :: b :: t)) with (a ++ "" ++ String.concat "" (b :: t)).
  rewrite !str_length_app, IH. simpl. lia.
Qed.

Section Bytes.
Variable D : display.
Variable M : nat.
Hypothesis Hsol : forall s, String.length (disp_solvable D s) <= M.
Hypothesis Hname : forall n, String.length (disp_name D n) <= M.
Hypothesis Hvs : forall v, String.length (disp_vs D v) <= M.
Hypothesis Hstr : forall s, String.length (disp_string D s) <= M.
Hypothesis Hunion : forall u, List.length (union_members D u) <= M.

Definition req_bytes : nat := S M * (2 * M + 4).
Definition merged_bytes (nn : nat) : nat := M + 1 + nn * (M + 3).
Definition text_bytes (nn : nat) : nat := 100 + req_bytes + merged_bytes nn + M.

Lemma show_name_vs_length : forall v, String.length (show_name_vs D v) <= 2 * M + 1.
Proof.
  intros v. unfold show_name_vs. rewrite !str_length_app. simpl.
  specialize (Hname (vs_name D v)). specialize (Hvs v). lia.
Qed.

Lemma show_req_length : forall r, String.length (show_req D r) <= req_bytes.
Proof.
  intros [v | u]; unfold req_bytes; simpl.
  - pose proof (show_name_vs_length v). lia.
  - etransitivity; [apply join_length|]. rewrite map_length. simpl String.length.
    pose proof (sumlen_map_le _ (show_name_vs D) (2 * M + 1) (union_members D u) show_name_vs_length) as H.
    specialize (Hunion u). nia.
Qed.

Lemma show_merged_length : forall ids nn, List.length ids <= nn -> String.length (show_merged D ids) <= merged_bytes nn.
Proof.
  intros [|s0 t] nn Hlen; unfold merged_bytes; [simpl; lia|].
  unfold show_merged. rewrite !str_length_app. simpl String.length at 2.
  set (ids := s0 :: t) in *.
  pose proof (join_length " | " (uniq_str [] (sort_str (map (disp_solvable D) ids)))) as Hj.
  destruct (uniq_str_facts (sort_str (map (disp_solvable D) ids)) []) as [U1 U2].
  destruct (sort_str_facts (map (disp_solvable D) ids)) as [S1 S2].
  pose proof (sumlen_map_le _ (disp_solvable D) M ids Hsol) as Hm.
  rewrite map_length in S2. change (String.length " | ") with 3 in Hj.
  specialize (Hname (sol_name D s0)).
  assert (List.length ids * M <= nn * M) by (apply Nat.mul_le_mono_r; lia).
  lia.
Qed.

Definition version_ok (nn : nat) (v : version) : Prop :=
  match v with VRoot => True | VIds ids => List.length ids <= nn end.

Definition kind_ok (nn : nat) (k : lkind) : Prop :=
  match k with
  | LCandBackref v | LCandExcluded v _ | LCandLeaf v | LCandConflictsAbove v
  | LCandWouldConstrain v | LCandWouldRequire v => version_ok nn v
  | _ => True
  end.

Lemma show_version_length : forall nn v, version_ok nn v -> String.length (show_version D v) <= 6 + merged_bytes nn.
Proof.
  intros nn [|ids] H; simpl; [lia|]. pose proof (show_merged_length ids nn H). lia.
Qed.

Lemma line_text_length : forall nn k, 1 <= nn -> kind_ok nn k -> String.length (line_text D k) <= text_bytes nn.
Proof.
  intros nn k Hnn Hk. unfold text_bytes.
  destruct k as [ | top r | top r | top r | v | v reason | v | v | v | vs | v | vs | s ];
    try destruct top; cbn [line_text kind_ok] in *; rewrite ?str_length_app;
    try (pose proof (show_req_length r));
    try (pose proof (show_version_length nn v Hk));
    try (pose proof (show_name_vs_length vs));
    try (pose proof (Hstr reason));
    try (pose proof (show_merged_length [s] nn ltac:(simpl; lia)); set (sm := show_merged D [s]) in * );
    simpl String.length; unfold req_bytes, merged_bytes in *; try nia.
Qed.

Definition line_ok (depth nn : nat) (l : line) : Prop :=
  List.length (fst (l_ind l)) <= depth /\ kind_ok nn (l_kind l).

Definition line_bytes (depth nn : nat) : nat := 7 * depth + text_bytes nn + 1.

Lemma render_line_length : forall depth nn l, 1 <= nn -> line_ok depth nn l ->
  String.length (render_line D l) <= line_bytes depth nn.
Proof.
  intros depth nn l Hnn [H1 H2]. unfold render_line, line_bytes. rewrite !str_length_app.
  pose proof (get_indent_length (l_ind l)). pose proof (line_text_length nn (l_kind l) Hnn H2).
  change (String.length nl) with 1. lia.
Qed.

Lemma render_text_length : forall depth nn ls, 1 <= nn -> Forall (line_ok depth nn) ls ->
  String.length (render_text D ls) <= List.length ls * line_bytes depth nn.
Proof.
  intros depth nn ls Hnn H. unfold render_text. rewrite concat_empty_length. unfold sumlen.
  induction H as [|l t Hl Ht IH]; simpl; [lia|].
  pose proof (render_line_length depth nn l Hnn Hl). lia.
Qed.

End Bytes.

Local Open Scope list_scope.

Section MachineLines.
Variable g : rgraph.
Variable merged : list (N * list N).
Variable inst : list N.
Variable nn : nat.
Hypothesis Hnn : 1 <= nn.
Hypothesis Hmerged : forall s ids, mc_get s merged = Some ids -> List.length ids <= nn.

Notation E := (n_edges g).
Notation depth := (2 * n_edges g + 3).

Lemma constrain_lines_ok : forall ind vss,
  List.length (fst ind) <= depth -> Forall (line_ok depth nn) (constrain_lines ind vss).
Proof.
  intros ind vss Hd. induction vss as [|v [|v' t] IH].
  - constructor.
  - constructor; [|constructor]. split; [|exact I]. cbn [l_ind]. rewrite ind_set_last_length. exact Hd.
  - change (constrain_lines ind (v :: v' :: t)) with (mkLine (LConstrainItem v) ind :: constrain_lines ind (v' :: t)).
    constructor; [|exact IH]. split; [exact Hd | exact I].
Qed.

Lemma step_lines_ok : forall md e rep,
  entry_ok g e -> Forall (line_ok depth nn) (st_lines (step g merged inst md e rep)).
Proof.
  intros md [[op ind] path] rep [Hnd [Hincl [Hlen Hop]]].
  pose proof (path_length_le g path Hnd Hincl) as Hpl.
  assert (Hd : List.length (fst ind) + 1 <= depth) by (destruct op; lia).
  assert (Hone : forall k, kind_ok nn k -> Forall (line_ok depth nn) [mkLine k ind]).
  { intros k Hk. constructor; [|constructor]. split; [cbn [l_ind]; lia | exact Hk]. }
  destruct op as [r ts | c]; unfold step.
  - destruct (match ts with [t] => match node_at g t with Some RUnresolved => true | _ => false end | _ => false end);
      [apply Hone; exact I|].
    destruct (group_installable inst ts); apply Hone; exact I.
  - destruct (match node_solvable g c with Some s => memN s (fst rep) | None => false end); [constructor|].
    cbv zeta.
    set (m := match node_solvable g c with Some s => mc_get s merged | None => None end).
    set (v := match m with Some ids => VIds ids | None => match node_solvable g c with Some s => VIds [s] | None => VRoot end end).
    assert (Hv : version_ok nn v).
    { unfold v, m. destruct (node_solvable g c) as [s|]; [|exact I].
      destruct (mc_get s merged) as [ids|] eqn:Hg; [apply (Hmerged s ids Hg) | simpl; lia]. }
    match goal with |- context [if ?b then ([mkLine (LCandBackref _) _], _, _) else _] => destruct b end;
      [apply Hone; exact Hv|].
    destruct (excluded_reason g c); [apply Hone; exact Hv|].
    destruct (out_edges g c) as [|e0 oes]; [apply Hone; exact Hv|].
    destruct (existsb (fun e => is_forbid (e_w e)) (e0 :: oes)); [apply Hone; exact Hv|].
    destruct (existsb (fun e => is_con (e_w e)) (e0 :: oes)); [|apply Hone; exact Hv].
    cbn [st_lines fst snd]. constructor.
    + split; [cbn [l_ind]; lia | exact Hv].
    + apply constrain_lines_ok. cbn [ind_push ind_push_order fst List.length]. lia.
Qed.

Lemma run_lines_ok : forall md fuel st rep ls,
  mode_path md = true ->
  Forall (entry_ok g) st -> run g merged inst md fuel st rep = Some ls -> Forall (line_ok depth nn) ls.
Proof.
  intros md fuel st rep ls Hmd. revert st rep ls.
  induction fuel as [|f IH]; intros st rep ls Hok Hrun.
  - destruct st; simpl in Hrun; [|discriminate]. inversion Hrun. constructor.
  - destruct st as [|e rest]; simpl in Hrun. { inversion Hrun. constructor. }
    inversion Hok; subst.
    pose proof (step_lines_ok md e rep H1) as Hl.
    destruct (step_decreases g merged inst md Hmd e rep H1) as [Hp _].
    destruct (step g merged inst md e rep) as [[ls0 pushes] rep'].
    cbn [st_pushes st_lines fst snd] in *.
    destruct (run g merged inst md f (rev pushes ++ rest) rep') as [more|] eqn:Hr; [|discriminate].
    inversion Hrun; subst. apply Forall_app. split; [exact Hl|].
    eapply IH; [|exact Hr]. apply Forall_app. split; [apply Forall_rev; exact Hp | exact H2].
Qed.

End MachineLines.


(* ---------------- the current renderer: every candidate is expanded once ---------------- *)

Definition sumf (A : Type) (f : A -> nat) (l : list A) : nat := sum (map f l).

Lemma sumf_app : forall (A : Type) (f : A -> nat) a b, sumf A f (a ++ b) = sumf A f a + sumf A f b.
Proof. intros. unfold sumf. rewrite map_app. apply sum_app. Qed.

Lemma sumf_rev : forall (A : Type) (f : A -> nat) a, sumf A f (rev a) = sumf A f a.
Proof. intros. unfold sumf. rewrite map_rev. apply sum_rev. Qed.

Lemma sumf_cons : forall (A : Type) (f : A -> nat) a l, sumf A f (a :: l) = f a + sumf A f l.
Proof. reflexivity. Qed.

Lemma sumf_filter_le : forall (A : Type) (f : A -> nat) p l, sumf A f (filter p l) <= sumf A f l.
Proof.
  intros A f p l. induction l as [|a t IH]; simpl; [apply le_n|].
  destruct (p a); rewrite ?sumf_cons; lia.
Qed.

Lemma sumf_filter_split : forall (A : Type) (f : A -> nat) p l,
  sumf A f (filter (fun x => negb (p x)) l) + sumf A f (filter p l) = sumf A f l.
Proof.
  intros A f p l. induction l as [|a t IH]; simpl; [reflexivity|].
  destruct (p a); simpl; rewrite ?sumf_cons; lia.
Qed.

Lemma sumf_plus : forall (A : Type) (f h : A -> nat) l,
  sumf A (fun x => f x + h x) l = sumf A f l + sumf A h l.
Proof. intros A f h l. induction l as [|a t IH]; simpl; [reflexivity|]. rewrite !sumf_cons, IH. lia. Qed.

Lemma sumf_le_const : forall (A : Type) (f : A -> nat) w l,
  (forall x, In x l -> f x <= w) -> sumf A f l <= List.length l * w.
Proof.
  intros A f w l H. induction l as [|a t IH]; simpl; [apply le_n|]. rewrite sumf_cons.
  pose proof (H a (or_introl eq_refl)). assert (sumf A f t <= List.length t * w) by (apply IH; intros; apply H; right; assumption). lia.
Qed.

Section Potential.
Variable g : rgraph.
Variable merged : list (N * list N).
Variable inst : list N.

Notation E := (n_edges g).

(* number of Constrains edges leaving a node: the lines of its "would constrain" block *)
Definition con_count (c : N) : nat := List.length (filter (fun e => is_con (e_w e)) (out_edges g c)).
(* lines a candidate entry writes itself (its requirements are paid by psi) *)
Definition cand_cost (c : N) : nat := 1 + con_count c.
(* an edge: one candidate entry, and at most one requirement entry for its group *)
Definition edge_cost (e : N * N * redge) : nat := 1 + cand_cost (e_tgt e).

Definition phi (e : entry) : nat :=
  match fst (fst e) with
  | OpReq _ ts => 1 + sumf N cand_cost ts
  | OpCand c => cand_cost c
  end.
(* cost of expanding the requirements of a candidate *)
Definition psi (c : N) : nat := sumf _ edge_cost (out_edges g c).

Definition universe : list N := nodup N.eq_dec (targets g).
Definition unexpanded (expanded : list N) : nat :=
  sumf N psi (filter (fun c => negb (memN c expanded)) universe).
Definition pot (stack : list entry) (st : mstate) : nat := sumf entry phi stack + unexpanded (snd st).

Definition graph_cost : nat := sumf _ edge_cost (g_edges g).

Lemma set_last_first_phi : forall l, sumf entry phi (set_last_first l) = sumf entry phi l.
Proof. intros [|[[op ind] p] t]; reflexivity. Qed.

Lemma dedupe_cost : forall cs seen, sumf N cand_cost (dedupe g merged seen cs) <= sumf N cand_cost cs.
Proof.
  induction cs as [|c t IH]; simpl; intros seen; [apply le_n|]. rewrite sumf_cons.
  destruct (node_solvable g c); [|specialize (IH seen); lia].
  destruct (memN n seen); [specialize (IH seen); lia|]. rewrite sumf_cons.
  match goal with |- _ + sumf N cand_cost (dedupe _ _ ?s _) <= _ => specialize (IH s) end. lia.
Qed.

Lemma cand_entries_phi : forall cs ind path,
  sumf entry phi (cand_entries g merged cs ind path) <= sumf N cand_cost cs.
Proof.
  intros cs ind path. unfold cand_entries. rewrite set_last_first_phi.
  etransitivity; [|apply (dedupe_cost cs [])].
  generalize (dedupe g merged [] cs). intros l. induction l as [|c t IH]; simpl; [apply le_n|].
  rewrite !sumf_cons. unfold phi at 1. simpl. apply le_n_S, Nat.add_le_mono_l. exact IH.
Qed.

Lemma chunk_by_cost : forall (K A : Type) (keqb : K -> K -> bool) (key : A -> K) (w : A -> nat) l,
  sumf _ (fun kg => 1 + sumf A w (snd kg)) (chunk_by keqb key l) <= sumf A (fun x => 1 + w x) l.
Proof.
  intros K A keqb key w. induction l as [|a t IH]; simpl; [apply le_n|].
  destruct (chunk_by keqb key t) as [|[k grp] rest].
  - unfold sumf in *. simpl in *. lia.
  - destruct (keqb (key a) k); unfold sumf in *; simpl in *; lia.
Qed.

Lemma req_targets_cost : forall es,
  sumf _ (fun rt => 1 + cand_cost (snd rt)) (req_targets es) <= sumf _ edge_cost es.
Proof.
  induction es as [|e t IH]; [apply le_n|].
  unfold req_targets in *. cbn [filter_map]. rewrite (sumf_cons _ edge_cost).
  destruct (edge_req (e_w e)).
  - rewrite sumf_cons. cbn [snd]. unfold edge_cost at 1. lia.
  - lia.
Qed.

Lemma req_entries_phi : forall es ind path,
  sumf entry phi (req_entries inst es ind path) <= sumf _ edge_cost es.
Proof.
  intros es ind path. unfold req_entries. rewrite set_last_first_phi.
  set (f := fun kg : rreq * list N => group_installable inst (snd kg)).
  assert (H : forall l : list (rreq * list N),
            sumf entry phi (map (fun kg => (OpReq (fst kg) (snd kg), ind_push ind, path)) l)
            = sumf _ (fun kg => 1 + sumf N cand_cost (snd kg)) l).
  { induction l as [|kg t IH]; [reflexivity|]. cbn [map]. rewrite !sumf_cons. f_equal. exact IH. }
  rewrite H. unfold sort_by_bool. rewrite sumf_app, sumf_filter_split.
  unfold req_groups.
  assert (H2 : forall l : list (rreq * list (rreq * N)),
            sumf _ (fun kg : rreq * list N => 1 + sumf N cand_cost (snd kg))
                 (map (fun kg => (fst kg, map snd (snd kg))) l)
            = sumf _ (fun kg => 1 + sumf _ (fun rt : rreq * N => cand_cost (snd rt)) (snd kg)) l).
  { induction l as [|kg t IH]; [reflexivity|]. cbn [map]. rewrite !sumf_cons. f_equal; [|exact IH]. cbn [snd].
    f_equal. unfold sumf. rewrite map_map. reflexivity. }
  rewrite H2.
  etransitivity; [apply chunk_by_cost|]. apply req_targets_cost.
Qed.

Lemma memN_cons : forall x c l, memN x (c :: l) = (N.eqb x c || memN x l)%bool.
Proof. reflexivity. Qed.

Lemma unexpanded_insert : forall c expanded,
  In c universe -> memN c expanded = false ->
  unexpanded (c :: expanded) + psi c <= unexpanded expanded.
Proof.
  intros c expanded. unfold unexpanded. generalize universe. intros l.
  assert (Hmono : forall l', sumf N psi (filter (fun x => negb (memN x (c :: expanded))) l')
                        <= sumf N psi (filter (fun x => negb (memN x expanded)) l')).
  { induction l' as [|a t IH]; [apply le_n|]. cbn [filter]. rewrite memN_cons.
    destruct (N.eqb a c); destruct (memN a expanded); cbn [negb orb]; rewrite ?sumf_cons; lia. }
  induction l as [|a t IH]; intros Hin Hc; [destruct Hin|].
  cbn [filter]. rewrite memN_cons. destruct Hin as [Ha | Hin].
  - subst a. rewrite N.eqb_refl, Hc. cbn [negb orb]. rewrite sumf_cons.
    specialize (Hmono t). lia.
  - specialize (IH Hin Hc).
    destruct (N.eqb a c); destruct (memN a expanded); cbn [negb orb]; rewrite ?sumf_cons; lia.
Qed.

Lemma con_lines_cost : forall c,
  List.length (dedup_consec (filter_map (fun e => match e_w e with ECon vs => Some vs | _ => None end) (out_edges g c)))
  <= con_count c.
Proof.
  intros c. etransitivity; [apply dedup_consec_length|]. unfold con_count.
  generalize (out_edges g c). intros l. induction l as [|e t IH]; simpl; [apply le_n|].
  destruct (e_w e); simpl; lia.
Qed.

(* One iteration of the current code never increases
   (lines written so far) + (potential of the stack and of the unexpanded candidates) *)
Lemma step_potential : forall e st,
  entry_ok g e ->
  List.length (st_lines (step g merged inst MCurrent e st))
  + sumf entry phi (st_pushes (step g merged inst MCurrent e st))
  + unexpanded (snd (st_state (step g merged inst MCurrent e st)))
  <= phi e + unexpanded (snd st).
Proof.
  intros [[op ind] path] st [Hnd [Hincl [Hlen Hop]]].
  destruct op as [r ts | c]; unfold step.
  - assert (Hc : forall cs, sumf N cand_cost cs <= sumf N cand_cost ts ->
               1 + sumf entry phi (cand_entries g merged cs ind path) + unexpanded (snd st)
               <= phi (OpReq r ts, ind, path) + unexpanded (snd st)).
    { intros cs Hcs. pose proof (cand_entries_phi cs ind path). unfold phi at 2. simpl. lia. }
    destruct (match ts with [t] => match node_at g t with Some RUnresolved => true | _ => false end | _ => false end).
    + cbn [st_lines st_pushes st_state fst snd List.length]. unfold phi. simpl. unfold sumf at 1. simpl. lia.
    + destruct (group_installable inst ts); cbn [st_lines st_pushes st_state fst snd List.length].
      * apply Hc. apply sumf_filter_le.
      * apply Hc. apply le_n.
  - destruct (match node_solvable g c with Some s => memN s (fst st) | None => false end).
    { cbn [st_lines st_pushes st_state fst snd List.length]. unfold sumf at 1. simpl. lia. }
    cbv zeta. cbn [mode_path mode_expanded andb].
    assert (Hnil : forall (l : line) rep',
              List.length (st_lines ([l], @nil entry, (rep', snd st)))
              + sumf entry phi (st_pushes ([l], @nil entry, (rep', snd st)))
              + unexpanded (snd (st_state ([l], @nil entry, (rep', snd st))))
              <= phi (OpCand c, ind, path) + unexpanded (snd st)).
    { intros l rep'. cbn [st_lines st_pushes st_state fst snd List.length]. unfold sumf at 1, phi. simpl. lia. }
    destruct (memN c path) eqn:Hmem; cbn [negb andb orb]. { apply Hnil. }
    set (we := (match excluded_reason g c with Some _ => false | None => true end
                && match out_edges g c with [] => false | _ :: _ => true end
                && negb (existsb (fun e => is_forbid (e_w e)) (out_edges g c))
                && negb (existsb (fun e => is_con (e_w e)) (out_edges g c)))%bool).
    destruct we eqn:Hwe; cbn [andb negb].
    + (* the candidate would be expanded *)
      destruct (memN c (snd st)) eqn:Hexp; cbn [negb]. { apply Hnil. }
      unfold we in Hwe. apply andb_true_iff in Hwe. destruct Hwe as [Hwe Hcon].
      apply andb_true_iff in Hwe. destruct Hwe as [Hwe Hforb].
      apply andb_true_iff in Hwe. destruct Hwe as [Hexc Hleaf].
      apply negb_true_iff in Hcon. apply negb_true_iff in Hforb.
      destruct (excluded_reason g c); [discriminate|].
      pose proof (req_entries_phi (out_edges g c) ind (path ++ [c])) as Hreq.
      assert (HU : In c universe) by (apply nodup_In; exact Hop).
      pose proof (unexpanded_insert c (snd st) HU Hexp) as Hins.
      fold (psi c) in Hreq.
      destruct (out_edges g c) as [|e0 oes]; [discriminate|].
      rewrite Hforb, Hcon.
      cbn [st_lines st_pushes st_state fst snd List.length]. unfold phi at 2. simpl.
      apply le_n_S. etransitivity; [apply Nat.add_le_mono_r; exact Hreq|]. lia.
    + (* no expansion: the set is not touched *)
      destruct (excluded_reason g c). { apply Hnil. }
      destruct (out_edges g c) as [|e0 oes] eqn:Hoes. { apply Hnil. }
      destruct (existsb (fun e => is_forbid (e_w e)) (e0 :: oes)). { apply Hnil. }
      destruct (existsb (fun e => is_con (e_w e)) (e0 :: oes)); [|discriminate].
      cbn [st_lines st_pushes st_state fst snd List.length]. rewrite constrain_lines_length.
      pose proof (con_lines_cost c) as Hcl. rewrite Hoes in Hcl.
      match type of Hcl with List.length ?x <= _ => set (vl := x) in * end.
      unfold sumf at 1, phi. simpl. unfold cand_cost. lia.
Qed.

Lemma run_potential : forall fuel stack st ls,
  Forall (entry_ok g) stack ->
  run g merged inst MCurrent fuel stack st = Some ls -> List.length ls <= pot stack st.
Proof.
  induction fuel as [|f IH]; intros stack st ls Hok Hrun.
  - destruct stack; simpl in Hrun; [|discriminate]. inversion Hrun. simpl. apply Nat.le_0_l.
  - destruct stack as [|e rest]; simpl in Hrun. { inversion Hrun. simpl. apply Nat.le_0_l. }
    inversion Hok; subst.
    pose proof (step_potential e st H1) as Hp.
    destruct (step_decreases g merged inst MCurrent eq_refl e st H1) as [Hpush _].
    destruct (step g merged inst MCurrent e st) as [[ls0 pushes] st'].
    cbn [st_pushes st_lines st_state fst snd] in *.
    destruct (run g merged inst MCurrent f (rev pushes ++ rest) st') as [more|] eqn:Hr; [|discriminate].
    inversion Hrun; subst. apply IH in Hr.
    + rewrite app_length. unfold pot in *. rewrite sumf_app, sumf_rev in Hr. rewrite sumf_cons. lia.
    + apply Forall_app. split; [apply Forall_rev; exact Hpush | exact H2].
Qed.

(* the potential of all candidates is bounded by the cost of all edges *)
Lemma psi_as_sum : forall c,
  psi c = sumf _ (fun e => if N.eqb (e_src e) c then edge_cost e else 0) (g_edges g).
Proof.
  intros c. unfold psi, out_edges. rewrite sumf_rev.
  induction (g_edges g) as [|e t IH]; [reflexivity|]. cbn [filter]. rewrite (sumf_cons _ _ e t).
  destruct (N.eqb (e_src e) c); [rewrite sumf_cons|]; rewrite IH; reflexivity.
Qed.

Lemma indicator_sum_nodup : forall (l : list N) x w,
  NoDup l -> sumf N (fun c => if N.eqb x c then w else 0) l <= w.
Proof.
  induction l as [|a t IH]; intros x w Hnd; [apply Nat.le_0_l|]. rewrite sumf_cons.
  inversion Hnd; subst. destruct (N.eqb x a) eqn:Hxa.
  - apply N.eqb_eq in Hxa. subst a.
    assert (Hz : sumf N (fun c => if N.eqb x c then w else 0) t = 0).
    { clear - H1. induction t as [|b t IHt]; [reflexivity|]. rewrite sumf_cons.
      destruct (N.eqb x b) eqn:Hb; [apply N.eqb_eq in Hb; subst; exfalso; apply H1; left; reflexivity|].
      apply IHt. intros Hin. apply H1. right. exact Hin. }
    lia.
  - specialize (IH x w H2). lia.
Qed.

Lemma universe_psi : sumf N psi universe <= graph_cost.
Proof.
  unfold graph_cost.
  assert (Hnd : NoDup universe) by apply NoDup_nodup.
  revert Hnd. generalize universe. intros l Hnd.
  assert (H : sumf N psi l = sumf N (fun c => sumf _ (fun e => if N.eqb (e_src e) c then edge_cost e else 0) (g_edges g)) l).
  { induction l as [|c t IH]; [reflexivity|]. inversion Hnd; subst. rewrite !sumf_cons, psi_as_sum, IH; auto. }
  rewrite H. clear H.
  induction (g_edges g) as [|e t IH].
  - induction l as [|c tl IHl]; [apply le_n|]. inversion Hnd; subst. rewrite sumf_cons. simpl. apply IHl. exact H2.
  - rewrite (sumf_cons _ edge_cost e t).
    assert (H : sumf N (fun c => sumf _ (fun e0 => if N.eqb (e_src e0) c then edge_cost e0 else 0) (e :: t)) l
              = sumf N (fun c => if N.eqb (e_src e) c then edge_cost e else 0) l
                + sumf N (fun c => sumf _ (fun e0 => if N.eqb (e_src e0) c then edge_cost e0 else 0) t) l).
    { rewrite <- sumf_plus. clear. induction l as [|c tl IHl]; [reflexivity|].
      rewrite !(sumf_cons N). rewrite IHl. reflexivity. }
    rewrite H. pose proof (indicator_sum_nodup l (e_src e) (edge_cost e) Hnd). lia.
Qed.

Lemma init_stack_pot : forall es tli,
  pot (init_stack inst es tli) ([], []) <= sumf _ edge_cost es + graph_cost.
Proof.
  intros es tli. unfold pot, init_stack. rewrite sumf_rev.
  pose proof (req_entries_phi es (ind_new tli) []) as H1.
  pose proof universe_psi as H2.
  unfold unexpanded. cbn [snd memN existsb negb].
  assert (H3 : filter (fun _ : N => true) universe = universe).
  { generalize universe. intros l. induction l as [|a t IH]; [reflexivity|]. cbn [filter]. rewrite IH. reflexivity. }
  rewrite H3. lia.
Qed.

End Potential.

(* number of Constrains edges leaving the busiest candidate *)
Definition con_width (g : rgraph) : nat := list_max (map (fun e => con_count g (e_tgt e)) (g_edges g)).

(* the exact form of the bound, and its linear / quadratic consequences *)
Definition fine_bound (g : rgraph) : nat := 3 * graph_cost g + n_edges g + 1.
Definition lin_bound (g : rgraph) : nat := (7 + 3 * con_width g) * n_edges g + 1.
Definition quad_bound (g : rgraph) : nat := 3 * (n_edges g * n_edges g) + 7 * n_edges g + 1.

Lemma graph_cost_le : forall g, graph_cost g <= (2 + con_width g) * n_edges g.
Proof.
  intros g. unfold graph_cost, n_edges. rewrite Nat.mul_comm. apply sumf_le_const.
  intros e He. unfold edge_cost, cand_cost.
  assert (con_count g (e_tgt e) <= con_width g).
  { unfold con_width. pose proof (list_max_le (map (fun e => con_count g (e_tgt e)) (g_edges g)) (con_width g)) as [H _].
    specialize (H (le_n _)). rewrite Forall_forall in H. apply H. apply in_map_iff. exists e. auto. }
  lia.
Qed.

Lemma con_width_le : forall g, con_width g <= n_edges g.
Proof.
  intros g. unfold con_width. apply list_max_le. apply Forall_forall. intros x Hx.
  apply in_map_iff in Hx. destruct Hx as [e [Hx _]]. subst x. unfold con_count.
  etransitivity; [apply filter_length_le'|]. apply out_edges_length.
Qed.

Lemma fine_le_lin : forall g, fine_bound g <= lin_bound g.
Proof. intros g. unfold fine_bound, lin_bound. pose proof (graph_cost_le g). nia. Qed.

Lemma lin_le_quad : forall g, lin_bound g <= quad_bound g.
Proof. intros g. unfold lin_bound, quad_bound. pose proof (con_width_le g). nia. Qed.

Theorem render_lines_fine : forall D g fuel ls,
  fmt_graph D g fuel = Some ls -> List.length ls <= fine_bound g.
Proof.
  intros D g fuel ls H. apply fmt_display_parts in H. cbv zeta in H.
  destruct H as [l1 [l2 [HA HB]]].
  set (merged := simplify D g) in *. set (inst := installable_set g) in *. set (miss := missing_set g) in *.
  set (re := out_edges g (g_root g)) in *.
  destruct (root_filter_facts g (fun e => memN (e_tgt e) miss)) as [Hm1 Hm2].
  destruct (root_filter_facts g (fun e => negb (memN (e_tgt e) miss))) as [Hc1 Hc2].
  fold re in Hm1, Hm2, Hc1, Hc2.
  pose proof (root_conflict_lines_length re) as HR.
  pose proof (out_edges_length g (g_root g)) as HO. fold re in HO.
  pose proof (sumf_filter_split _ (edge_cost g) (fun e => memN (e_tgt e) miss) re) as Hsplit.
  cbv beta in Hsplit.
  assert (Hre : sumf _ (edge_cost g) re <= graph_cost g).
  { unfold re, out_edges, graph_cost. rewrite sumf_rev. apply sumf_filter_le. }
  assert (HX : forall es tli l, incl es (g_edges g) -> List.length es <= n_edges g ->
             fmt_graph_edges g merged inst MCurrent fuel es tli = Some l ->
             List.length l <= sumf _ (edge_cost g) es + graph_cost g).
  { intros es tli l He1 He2 Hr. unfold fmt_graph_edges in Hr.
    destruct (init_stack_facts g inst es tli He1 He2) as [Hok _].
    apply run_potential in Hr; [|exact Hok].
    etransitivity; [exact Hr|]. apply init_stack_pot. }
  assert (H1 : List.length l1 <= sumf _ (edge_cost g) (filter (fun e => memN (e_tgt e) miss) re) + graph_cost g).
  { destruct HA as [HA | HA]; [subst; simpl; apply Nat.le_0_l|]. eapply HX; eauto. }
  unfold fine_bound. destruct HB as [[HB1 HB2] | [HB1 HB2]]; subst ls; [lia|].
  apply (HX _ _ _ Hc1 Hc2) in HB1.
  rewrite app_length. cbn [List.length]. rewrite app_length. lia.
Qed.

(* linear in the number of edges, with a coefficient that grows with the
   number of Constrains edges leaving a single candidate *)
Theorem render_lines_linear : forall D g fuel ls,
  fmt_graph D g fuel = Some ls -> List.length ls <= lin_bound g.
Proof. intros D g fuel ls H. etransitivity; [eapply render_lines_fine; eauto | apply fine_le_lin]. Qed.

Theorem render_lines_quadratic : forall D g fuel ls,
  fmt_graph D g fuel = Some ls -> List.length ls <= quad_bound g.
Proof. intros D g fuel ls H. etransitivity; [eapply render_lines_linear; eauto | apply lin_le_quad]. Qed.


Lemma simplify_group_size : forall D g s ids,
  mc_get s (simplify D g) = Some ids -> List.length ids <= Nat.max 1 (List.length (g_nodes g)).
Proof.
  intros D g s ids H. apply mc_get_Some_In in H.
  destruct (simplify_of_spec (merge_groups D g) [] []) as [Hs _].
  { intros k w []. } { intros w k []. }
  simpl in Hs. apply Hs in H. destruct H as [H _].
  apply concat_member in H. destruct H as [_ H].
  rewrite (Permutation_length (merge_groups_concat D g)) in H.
  pose proof (filter_map_length _ _ (fun nd => match nd with RSol s => Some s | _ => None end) (g_nodes g)).
  unfold node_solvables in H. lia.
Qed.

Lemma root_conflict_lines_ok : forall depth nn es, 1 <= depth ->
  Forall (line_ok depth nn) (root_conflict_lines es).
Proof.
  intros depth nn es Hd. induction es as [|e t IH]; simpl; [constructor|].
  destruct (e_w e); try exact IH; (constructor; [split; [simpl; lia | exact I] | exact IH]).
Qed.

Definition byte_bound (M : nat) (g : rgraph) : nat :=
  lin_bound g * line_bytes M (2 * n_edges g + 3) (Nat.max 1 (List.length (g_nodes g))).

Theorem render_size_bound : forall D M g fuel ls,
  (forall s, String.length (disp_solvable D s) <= M) ->
  (forall n, String.length (disp_name D n) <= M) ->
  (forall v, String.length (disp_vs D v) <= M) ->
  (forall s, String.length (disp_string D s) <= M) ->
  (forall u, List.length (union_members D u) <= M) ->
  fmt_graph D g fuel = Some ls ->
  List.length ls <= lin_bound g /\ String.length (render_text D ls) <= byte_bound M g.
Proof.
  intros D M g fuel ls B1 B2 B3 B4 B5 H.
  pose proof (render_lines_linear D g fuel ls H) as HL. split; [exact HL|].
  set (nn := Nat.max 1 (List.length (g_nodes g))).
  assert (Hnn : 1 <= nn) by (unfold nn; lia).
  assert (Hok : Forall (line_ok (2 * n_edges g + 3) nn) ls).
  { apply fmt_display_parts in H. cbv zeta in H. destruct H as [l1 [l2 [HA HB]]].
    set (merged := simplify D g) in *. set (inst := installable_set g) in *. set (miss := missing_set g) in *.
    assert (Hm : forall s ids, mc_get s merged = Some ids -> List.length ids <= nn) by apply simplify_group_size.
    destruct (root_filter_facts g (fun e => memN (e_tgt e) miss)) as [Hm1 Hm2].
    destruct (root_filter_facts g (fun e => negb (memN (e_tgt e) miss))) as [Hc1 Hc2].
    assert (HX : forall es tli l, incl es (g_edges g) -> List.length es <= n_edges g ->
               fmt_graph_edges g merged inst MCurrent fuel es tli = Some l -> Forall (line_ok (2 * n_edges g + 3) nn) l).
    { intros es tli l He1 He2 Hr. unfold fmt_graph_edges in Hr.
      destruct (init_stack_facts g inst es tli He1 He2) as [Hi _].
      eapply (run_lines_ok g merged inst nn Hnn Hm MCurrent); [reflexivity | exact Hi | exact Hr]. }
    assert (H1 : Forall (line_ok (2 * n_edges g + 3) nn) l1).
    { destruct HA as [HA | HA]; [subst; constructor | eapply HX; [exact Hm1 | exact Hm2 | exact HA]]. }
    destruct HB as [[HB1 HB2] | [HB1 HB2]]; subst ls; [exact H1|].
    apply Forall_app. split; [exact H1|].
    constructor; [split; [simpl; lia | exact I]|].
    apply Forall_app. split; [eapply HX; [exact Hc1 | exact Hc2 | exact HB1] | apply root_conflict_lines_ok; lia]. }
  unfold byte_bound. fold nn.
  etransitivity; [apply (render_text_length D M B1 B2 B3 B4 B5 _ nn ls Hnn Hok)|].
  apply Nat.mul_le_mono_r. exact HL.
Qed.

(* ---------------- DfsPostOrder: the fuel of the model is never exhausted ---------------- *)

Lemma filter_length_lt : forall (A : Type) (f f' : A -> bool) l x,
  (forall y, f' y = true -> f y = true) -> In x l -> f x = true -> f' x = false ->
  List.length (filter f' l) < List.length (filter f l).
Proof.
  intros A f f' l x Himp. induction l as [|a t IH]; simpl; intros Hin Hf Hf'; [tauto|].
  assert (Hle : List.length (filter f' t) <= List.length (filter f t)).
  { clear - Himp. induction t as [|b t IH]; simpl; [lia|].
    destruct (f' b) eqn:H1; [rewrite (Himp b H1); simpl; lia|]. destruct (f b); simpl; lia. }
  destruct Hin as [Ha | Hin].
  - subst a. rewrite Hf, Hf'. simpl. lia.
  - specialize (IH Hin Hf Hf'). destruct (f' a) eqn:H1; [rewrite (Himp a H1); simpl; lia|].
    destruct (f a); simpl; lia.
Qed.

Section Dfs.
Variable g : rgraph.
Notation E := (n_edges g).
Notation U := (g_root g :: targets g).

Definition undiscovered (disc : list N) : nat :=
  List.length (filter (fun x => negb (memN x disc)) U).
Definition dfs_measure (stack disc : list N) : nat :=
  List.length stack + S E * undiscovered disc.

Lemma neighbors_facts : forall n, incl (neighbors g n) (targets g) /\ List.length (neighbors g n) <= E.
Proof.
  intros n. unfold neighbors. split.
  - intros t Ht. apply in_map_iff in Ht. destruct Ht as [e [He Hin]]. subst t.
    apply edge_target_In. eapply out_edges_incl. exact Hin.
  - rewrite map_length. apply out_edges_length.
Qed.

Lemma dfs_fuel_irrelevant : forall fuel fuel' stack disc fin,
  incl stack U -> dfs_measure stack disc < fuel -> dfs_measure stack disc < fuel' ->
  dfs_run g fuel stack disc fin = dfs_run g fuel' stack disc fin.
Proof.
  induction fuel as [|f IH]; intros fuel' stack disc fin Hst H1 H2; [lia|].
  destruct fuel' as [|f']; [lia|]. simpl.
  destruct stack as [|nx rest]; [reflexivity|].
  assert (Hrest : incl rest U) by (intros x Hx; apply Hst; right; exact Hx).
  unfold dfs_measure in *. cbn [List.length] in *.
  destruct (memN nx disc) eqn:Hd.
  - destruct (memN nx fin); [|f_equal]; apply IH; auto; lia.
  - destruct (neighbors_facts nx) as [Hn1 Hn2].
    set (pushes := filter (fun s => negb (memN s (nx :: disc))) (neighbors g nx)).
    assert (Hp1 : List.length pushes <= E).
    { etransitivity; [apply filter_length_le'|]. exact Hn2. }
    assert (Hp2 : incl pushes U).
    { intros x Hx. apply filter_In in Hx. right. apply Hn1. tauto. }
    assert (Hu : undiscovered (nx :: disc) < undiscovered disc).
    { unfold undiscovered. apply filter_length_lt with (x := nx).
      - intros y Hy. apply negb_true_iff in Hy. apply negb_true_iff.
        simpl in Hy. apply orb_false_iff in Hy. tauto.
      - apply Hst. left. reflexivity.
      - rewrite Hd. reflexivity.
      - simpl. rewrite N.eqb_refl. reflexivity. }
    assert (Hm : List.length (rev pushes ++ nx :: rest) + S E * undiscovered (nx :: disc)
                 < S (List.length rest) + S E * undiscovered disc).
    { rewrite app_length, rev_length. cbn [List.length].
      assert (S E * S (undiscovered (nx :: disc)) <= S E * undiscovered disc) by (apply Nat.mul_le_mono_l; lia).
      rewrite Nat.mul_succ_r in H.
      lia. }
    apply IH.
    + apply incl_app; [intros x Hx; apply Hp2; apply in_rev; exact Hx | exact Hst].
    + eapply Nat.lt_le_trans; [exact Hm | lia].
    + eapply Nat.lt_le_trans; [exact Hm | lia].
Qed.

Theorem dfs_fuel_sufficient : forall extra,
  dfs_run g (dfs_fuel g + extra) [g_root g] [] [] = dfs_post_order g.
Proof.
  intros extra. unfold dfs_post_order.
  assert (Hm : dfs_measure [g_root g] [] < dfs_fuel g).
  { unfold dfs_measure, undiscovered, dfs_fuel. cbn [List.length].
    assert (List.length (filter (fun x => negb (memN x [])) U) <= S E).
    { etransitivity; [apply filter_length_le'|]. cbn [List.length]. rewrite targets_length. lia. }
    nia. }
  apply dfs_fuel_irrelevant; [|lia|exact Hm].
  intros x [Hx|[]]. left. exact Hx.
Qed.

End Dfs.

(* ---------------- diamonds: exponential before 4a5d731, linear now ---------------- *)

(* The conflict graph the real solver produces for: packages X_i, Y_i (i < k)
   with one solvable each; both solvables of level i require "X_(i+1) | Y_(i+1)";
   the last level requires a package without candidates; the root requires
   "X_0 | Y_0" (corpus/C04_render/diamond_k8.json, tools/props/render_tie.py).
   2k+2 nodes, 4k edges, 2^k paths from the root. Before commit 4a5d731
   `reported` only remembered merged candidates, so a candidate was expanded once
   per path that reaches it; the `expanded` set makes it once per call. *)
Definition diamond (k : nat) : rgraph :=
  let a i := N.of_nat (2 + 2 * i) in
  let u i := EReq (RUnion (N.of_nat i)) in
  let last := a (k - 1) in
  let u0 := u 0 in
  let z := EReq (RSingle (N.of_nat (2 * k))) in
  mkRGraph
    (RRoot :: RUnresolved :: map (fun i => RSol (N.of_nat i)) (seq 0 (2 * k)))
    ([(0, 2, u0); (0, 3, u0)]%N ++
     flat_map (fun i => [(a i, a i + 2, u (S i)); (a i, a i + 3, u (S i));
                         (a i + 1, a i + 2, u (S i)); (a i + 1, a i + 3, u (S i))]%N)
              (seq 0 (k - 1)) ++
     [(last, 1, z); (last + 1, 1, z)]%N)
    0%N (Some 1%N).
Definition diamond_display (k : nat) : display :=
  harness_display (map N.of_nat (seq 0 (2 * k))) (map N.of_nat (seq 0 (2 * k + 1)))
                  (map (fun i => [N.of_nat (2 * i); N.of_nat (2 * i + 1)]) (seq 0 k)).

Definition diamond_lines_path_only (k : nat) : option nat :=
  option_map (@List.length line) (fmt_graph_path_only (diamond_display k) (diamond k) exec_fuel).
Definition diamond_lines (k : nat) : option nat :=
  option_map (@List.length line) (fmt_graph (diamond_display k) (diamond k) exec_fuel).

(* path check only: 18 nodes, 32 edges, 1021 lines; one more level doubles the output *)
Example diamond_exponential_path_only :
  graph_wf (diamond 8) = true /\
  List.length (g_nodes (diamond 8)) = 18 /\ n_edges (diamond 8) = 32 /\
  map diamond_lines_path_only [1; 2; 3; 4; 5; 6; 7; 8] =
  [Some 5; Some 13; Some 29; Some 61; Some 125; Some 253; Some 509; Some 1021].
Proof. vm_compute. repeat split; reflexivity. Qed.

(* current code: 6k - 1 lines, within lin_bound (= 7 * 4k + 1: no Constrains edges) *)
Example diamond_linear_now :
  map diamond_lines [1; 2; 3; 4; 5; 6; 7; 8] =
  [Some 5; Some 11; Some 17; Some 23; Some 29; Some 35; Some 41; Some 47] /\
  map (fun k => lin_bound (diamond k)) [1; 2; 3; 4; 5; 6; 7; 8] = [29; 57; 85; 113; 141; 169; 197; 225].
Proof. vm_compute. split; reflexivity. Qed.

(* ---------------- fans: the current output is still quadratic ---------------- *)

(* k packages P_i whose solvable requires T; the solvable t of T constrains
   k packages Q_j; the root requires "P_0 | .. | P_(k-1)" and "Q_0 | .. | Q_(k-1)"
   (corpus/C04_render/fan_k8.json gives the same line counts with the real
   solver). 2k+2 nodes, 4k edges; t is displayed once per P_i with its k
   "would constrain" lines: k^2 + 4k + 3 lines. A candidate with Constrains
   edges is not "expanded" in the sense of the `expanded` set, so it is printed
   in full every time it is reached: no bound linear in nodes + edges holds. *)
Definition fan (k : nat) : rgraph :=
  let p i := N.of_nat (1 + i) in
  let t := N.of_nat (1 + k) in
  let q j := N.of_nat (2 + k + j) in
  let u0 := EReq (RUnion 0) in
  let u1 := EReq (RUnion 1) in
  let rt := EReq (RSingle 0) in
  mkRGraph
    (RRoot :: map (fun i => RSol (N.of_nat i)) (seq 0 (2 * k + 1)))
    (map (fun i => (0%N, p i, u0)) (seq 0 k) ++
     map (fun i => (p i, t, rt)) (seq 0 k) ++
     map (fun j => (0%N, q j, u1)) (seq 0 k) ++
     map (fun j => (t, q j, ECon (N.of_nat (1 + j)))) (seq 0 k))
    0%N None.
Definition fan_display (k : nat) : display :=
  harness_display (map N.of_nat (seq 0 (2 * k + 1))) [] [].
Definition fan_lines (k : nat) : option nat :=
  option_map (@List.length line) (fmt_graph (fan_display k) (fan k) exec_fuel).

Example fan_quadratic :
  graph_wf (fan 8) = true /\
  List.length (g_nodes (fan 8)) = 18 /\ n_edges (fan 8) = 32 /\ con_width (fan 8) = 8 /\
  map fan_lines [1; 2; 3; 4; 6; 8; 16] = [Some 8; Some 15; Some 24; Some 35; Some 63; Some 99; Some 323] /\
  map (fun k => lin_bound (fan k)) [1; 2; 3; 4; 6; 8; 16] = [41; 105; 193; 305; 601; 993; 3521].
Proof. vm_compute. repeat split; reflexivity. Qed.
