(* Extraction of the verified oracles and checkers for volume runs.
   Directives in use: ExtrOcamlBasic only (bool, option, unit, list, prod,
   sumbool, sumor -> native OCaml types); N / positive / nat stay as the
   extracted inductive datatypes. *)
From Coq Require Import Extraction ExtrOcamlBasic.
From Resolvo Require Import Spec.Oracle Cdcl.CheckRun Async.History Conflict.GraphCheck Conflict.GraphBuild Async.Encoder Async.EncoderSafe Async.EncoderWatch Cdcl.AnalyzeRun Cdcl.Unsolvable Cdcl.SoftKeep Float.DecideRun Cdcl.PropagateRun Float.SolverRun.
Extraction Language OCaml.
Extraction "oracle.ml" table_provider mkU mkSol mkVs mkPkg mkProblem
  o_valid o_supported o_solvable o_greedy o_explicit_first o_soft_expect
  mkLog mkCl check_db check_run check_sat_log check_sat_log_lenient check_unsat_log facts_ok learnts_ok wf_universeb
  factb db_idx learnt_okb rup
  causalb onceb exactb exact_nextb eagerb cancel_quietb
  mkGraph truthfulb reachableb refutesb check_core check_graph_build build_graph core_clauses
  check_encoder check_encoder_final check_encoder_from check_encoder_final_from cache_after enc_run fifo_ok quiet_ok assert_ok estate0 cache0
  check_analyses check_unsolvable soft_keep check_watch check_decides_default check_propagates check_solver.
