(* Extraction of the verified oracles and checkers for volume runs.
   Directives in use: ExtrOcamlBasic only (bool, option, unit, list, prod,
   sumbool, sumor -> native OCaml types); N / positive / nat stay as the
   extracted inductive datatypes. *)
From Coq Require Import Extraction ExtrOcamlBasic.
From Resolvo Require Import Spec.Oracle.
Extraction Language OCaml.
Extraction "oracle.ml" mkU mkSol mkVs mkPkg mkProblem
  o_valid o_supported o_solvable o_greedy o_explicit_first.
