From Coq Require Import List Arith Bool Lia PeanoNat.
Import ListNotations.

(* Model of src/solver/binary_encoding.rs::AtMostOnceTracker::add.
   Variables are nats (decidable eq); helper k is identified with its index k. *)
Record tracker := { vars : list nat; nh : nat }.
Definition clause := (nat * nat * bool)%type.  (* (x, helper, positive) : ~x \/ (h = positive) *)

Definition bit (idx b : nat) : bool := Nat.testbit idx b.

(* while vars.len() > (1 << helpers.len()) - 1 { new helper; clause for every existing var } *)
Fixpoint grow (fuel n h : nat) (vs : list nat) : nat * list clause :=
  match fuel with
  | O => (h, [])
  | S f => if Nat.leb (2 ^ h) n
           then let cs := map (fun iv => (snd iv, h, bit (fst iv) h)) (combine (seq 0 (length vs)) vs) in
                let '(h', cs') := grow f n (S h) vs in (h', cs ++ cs')
           else (h, [])
  end.

Definition add (t : tracker) (x : nat) : tracker * list clause :=
  if in_dec Nat.eq_dec x (vars t) then (t, [])
  else match vars t with
       | [] => ({| vars := [x]; nh := nh t |}, [])
       | _ => let n := length (vars t) in
              let '(h', cs) := grow (S n) n (nh t) (vars t) in
              ({| vars := vars t ++ [x]; nh := h' |},
               cs ++ map (fun b => (x, b, bit n b)) (seq 0 h'))
       end.

Definition empty := {| vars := []; nh := 0 |}.
Fixpoint run (t : tracker) (cs : list clause) (xs : list nat) : tracker * list clause :=
  match xs with [] => (t, cs) | x :: r => let '(t', c) := add t x in run t' (cs ++ c) r end.


(* semantics *)
Definition sat (a : nat -> bool) (g : nat -> bool) (c : clause) : bool :=
  let '(x, h, p) := c in negb (a x) || Bool.eqb (g h) p.

(* invariant *)
Definition Inv (t : tracker) (cs : list clause) : Prop :=
  NoDup (vars t) /\
  (length (vars t) <= 1 -> nh t = 0) /\
  (2 <= length (vars t) -> length (vars t) <= 2 ^ nh t) /\
  (forall i x b, nth_error (vars t) i = Some x -> b < nh t -> In (x, b, bit i b) cs) /\
  (forall x b p, In (x, b, p) cs -> b < nh t /\ exists i, nth_error (vars t) i = Some x /\ p = bit i b).


Lemma in_combine_seq : forall (vs : list nat) s i x,
  nth_error vs i = Some x -> In (s + i, x) (combine (seq s (length vs)) vs).
Proof.
  induction vs as [|v vs IH]; intros s i x H.
  - destruct i; discriminate.
  - destruct i as [|i]; cbn in *.
    + inversion H; subst. left. f_equal. lia.
    + right. replace (s + S i) with (S s + i) by lia. apply IH. exact H.
Qed.

Lemma combine_seq_in : forall (vs : list nat) s j y,
  In (j, y) (combine (seq s (length vs)) vs) -> exists i, j = s + i /\ nth_error vs i = Some y.
Proof.
  induction vs as [|v vs IH]; intros s j y H; cbn in H.
  - contradiction.
  - destruct H as [H|H].
    + inversion H; subst. exists 0. split; [lia|reflexivity].
    + destruct (IH _ _ _ H) as [i [E N]]. exists (S i). split; [lia|exact N].
Qed.

Definition grow_post (n h : nat) (vs : list nat) (h' : nat) (cs : list clause) : Prop :=
  h <= h' /\ n < 2 ^ h' /\
  (forall i x b, nth_error vs i = Some x -> h <= b < h' -> In (x, b, bit i b) cs) /\
  (forall x b p, In (x, b, p) cs -> h <= b < h' /\ exists i, nth_error vs i = Some x /\ p = bit i b).

Lemma grow_spec : forall fuel n h vs h' cs,
  grow fuel n h vs = (h', cs) -> n < 2 ^ h + fuel -> grow_post n h vs h' cs.
Proof.
  induction fuel as [|f IH]; intros n h vs h' cs H Hf; cbn [grow] in H.
  - inversion H; subst. unfold grow_post. split; [lia|]. split; [lia|]. split.
    + intros; lia.
    + intros x b p Hin. contradiction.
  - destruct (Nat.leb (2 ^ h) n) eqn:E.
    + destruct (grow f n (S h) vs) as [h2 cs2] eqn:G. inversion H; subst; clear H.
      apply Nat.leb_le in E.
      assert (Hp : 0 < 2 ^ h) by (apply Nat.neq_0_lt_0, Nat.pow_nonzero; lia).
      assert (Hf' : n < 2 ^ S h + f) by (cbn [Nat.pow]; lia).
      destruct (IH _ _ _ _ _ G Hf') as (A & B & D & F).
      unfold grow_post. split; [lia|]. split; [exact B|]. split.
      * intros i x b Hn Hb. apply in_or_app. destruct (Nat.eq_dec b h) as [->|Hne].
        -- left. apply in_map_iff. exists (i, x). split; [reflexivity|].
           apply (in_combine_seq vs 0 i x Hn).
        -- right. apply D; [exact Hn | lia].
      * intros x b p Hin. apply in_app_or in Hin. destruct Hin as [Hin|Hin].
        -- apply in_map_iff in Hin. destruct Hin as [[i y] [Heq Hin]]. cbn in Heq. inversion Heq; subst.
           split; [lia|]. destruct (combine_seq_in _ _ _ _ Hin) as [k [Ek Nk]]. exists k. split; [exact Nk|]. f_equal. lia.
        -- destruct (F _ _ _ Hin) as [Hb Hex]. split; [lia| exact Hex].
    + inversion H; subst. apply Nat.leb_gt in E. unfold grow_post. split; [lia|]. split; [exact E|]. split.
      * intros; lia.
      * intros x b p Hin. contradiction.
Qed.


Lemma nth_error_app_last : forall (l : list nat) x i y,
  nth_error (l ++ [x]) i = Some y -> (i < length l /\ nth_error l i = Some y) \/ (i = length l /\ y = x).
Proof.
  intros l x i y H. destruct (Nat.lt_ge_cases i (length l)) as [L|G].
  - left. split; [exact L|]. rewrite nth_error_app1 in H by exact L. exact H.
  - right. rewrite nth_error_app2 in H by exact G.
    destruct (i - length l) eqn:E; cbn in H.
    + inversion H; subst. split; [lia|reflexivity].
    + destruct n; discriminate.
Qed.

Lemma add_inv : forall t cs x t' c,
  Inv t cs -> add t x = (t', c) -> Inv t' (cs ++ c).
Proof.
  intros t cs x t' c (ND & Z & SZ & HAS & ONLY) H. unfold add in H.
  destruct (in_dec Nat.eq_dec x (vars t)) as [Hin|Hnin].
  - inversion H; subst. rewrite app_nil_r. split; [|split; [|split; [|split]]]; assumption.
  - destruct (vars t) as [|v0 vs0] eqn:EV.
    + (* first variable *)
      inversion H; subst; clear H. unfold Inv. cbn [vars nh]. rewrite app_nil_r.
      assert (Z0 : nh t = 0) by (apply Z; cbn; lia).
      split; [constructor; [intros []|constructor]|].
      split; [intros _; exact Z0|]. split; [cbn; lia|]. split.
      * intros i y b Hn Hb. cbn [vars nh] in Hb. lia.
      * intros y b p Hin. destruct (ONLY _ _ _ Hin) as [Hb [i [Hi _]]]. destruct i; discriminate.
    + (* later variables *)
      rewrite <- EV in *. set (n := length (vars t)) in *.
      destruct (grow (S n) n (nh t) (vars t)) as [h' cs1] eqn:G.
      inversion H; subst t' c; clear H. unfold Inv. cbn [vars nh].
      assert (Hn1 : 1 <= n) by (subst n; rewrite EV; cbn; lia).
      assert (Hfuel : n < 2 ^ nh t + S n) by lia.
      destruct (grow_spec _ _ _ _ _ _ G Hfuel) as (A & B & D & F).
      split.
      { apply NoDup_Add with (a := x) (l := vars t ++ []); [apply Add_app |]. rewrite app_nil_r. split; assumption. }
      split.
      { rewrite app_length; cbn. fold n. lia. }
      split.
      { intros _. rewrite app_length; cbn. fold n. lia. }
      split.
      { intros i y b Hn Hb. apply nth_error_app_last in Hn. destruct Hn as [[Hi Hn]|[Hi Hy]].
        - apply in_or_app. destruct (Nat.lt_ge_cases b (nh t)) as [Hlt|Hge].
          + left. apply HAS with (i := i); assumption.
          + right. apply in_or_app. left. apply D; [exact Hn|lia].
        - subst y i. apply in_or_app. right. apply in_or_app. right. fold n.
          apply in_map_iff. exists b. split; [reflexivity|]. apply in_seq. lia. }
      { intros y b p Hin. apply in_app_or in Hin. destruct Hin as [Hin|Hin].
        - destruct (ONLY _ _ _ Hin) as [Hb [i [Hn Hp]]]. split; [lia|]. exists i. split; [|exact Hp].
          rewrite nth_error_app1; [exact Hn|]. apply nth_error_Some. rewrite Hn. discriminate.
        - apply in_app_or in Hin. destruct Hin as [Hin|Hin].
          + destruct (F _ _ _ Hin) as [Hb [i [Hn Hp]]]. split; [lia|]. exists i. split; [|exact Hp].
            rewrite nth_error_app1; [exact Hn|]. apply nth_error_Some. rewrite Hn. discriminate.
          + apply in_map_iff in Hin. destruct Hin as [b' [Heq Hb']]. inversion Heq; subst. apply in_seq in Hb'.
            split; [lia|]. exists n. split; [|reflexivity]. unfold n. rewrite nth_error_app2 by lia. rewrite Nat.sub_diag. reflexivity. }
Qed.

Lemma run_inv : forall xs t cs t' cs', Inv t cs -> run t cs xs = (t', cs') -> Inv t' cs'.
Proof.
  induction xs as [|x xs IH]; intros t cs t' cs' HI H; cbn in H.
  - inversion H; subst. exact HI.
  - destruct (add t x) as [t1 c1] eqn:A. eapply IH; [|exact H]. eapply add_inv; eassumption.
Qed.

Lemma inv_empty : Inv empty [].
Proof. split; [constructor|]. split; [reflexivity|]. split; [cbn; lia|]. split; [intros i x b H; destruct i; discriminate| intros x b p []]. Qed.

(* two different indices below 2^h differ in a bit below h *)
Lemma bits_differ : forall h i j, i < 2 ^ h -> j < 2 ^ h -> i <> j -> exists b, b < h /\ bit i b <> bit j b.
Proof.
  intros h i j Hi Hj Hne.
  destruct (existsb (fun b => negb (Bool.eqb (bit i b) (bit j b))) (seq 0 h)) eqn:E.
  - apply existsb_exists in E. destruct E as [b [Hb Hd]]. apply in_seq in Hb. exists b. split; [lia|].
    intro Heq. rewrite Heq, Bool.eqb_reflx in Hd. discriminate.
  - exfalso. apply Hne. apply Nat.bits_inj. intro b. fold (bit i b) (bit j b).
    destruct (Nat.lt_ge_cases b h) as [L|G].
    + assert (In b (seq 0 h)) by (apply in_seq; lia).
      destruct (Bool.eqb (bit i b) (bit j b)) eqn:Q; [apply Bool.eqb_prop; exact Q|].
      exfalso. assert (existsb (fun b0 => negb (Bool.eqb (bit i b0) (bit j b0))) (seq 0 h) = true).
      { apply existsb_exists. exists b. split; [assumption|]. rewrite Q. reflexivity. }
      congruence.
    + unfold bit. 
      assert (forall k, k < 2 ^ h -> Nat.testbit k b = false).
      { intros k Hk. destruct (Nat.eq_dec k 0) as [->|Hk0]; [apply Nat.bits_0|].
        apply Nat.bits_above_log2. apply Nat.lt_le_trans with h; [|exact G]. apply Nat.log2_lt_pow2; lia. }
      rewrite !H by assumption. reflexivity.
Qed.

Theorem amo_exclusive : forall xs t cs a g x y,
  run empty [] xs = (t, cs) -> In x (vars t) -> In y (vars t) -> x <> y ->
  a x = true -> a y = true -> forallb (sat a g) cs = false.
Proof.
  intros xs t cs a g x y R Hx Hy Hxy Ax Ay.
  destruct (run_inv _ _ _ _ _ inv_empty R) as (ND & Z & SZ & HAS & ONLY).
  apply In_nth_error in Hx. destruct Hx as [i Hi]. apply In_nth_error in Hy. destruct Hy as [j Hj].
  assert (Hij : i <> j) by (intro; subst; rewrite Hi in Hj; inversion Hj; contradiction).
  assert (Li : i < length (vars t)) by (apply nth_error_Some; rewrite Hi; discriminate).
  assert (Lj : j < length (vars t)) by (apply nth_error_Some; rewrite Hj; discriminate).
  assert (L2 : 2 <= length (vars t)) by lia. specialize (SZ L2).
  destruct (bits_differ (nh t) i j) as [b [Hb Hd]]; try lia.
  destruct (forallb (sat a g) cs) eqn:E; [|reflexivity]. exfalso.
  rewrite forallb_forall in E.
  pose proof (E _ (HAS _ _ _ Hi Hb)) as S1. pose proof (E _ (HAS _ _ _ Hj Hb)) as S2.
  cbn in S1, S2. rewrite Ax in S1. rewrite Ay in S2. cbn in S1, S2.
  apply Bool.eqb_prop in S1. apply Bool.eqb_prop in S2. congruence.
Qed.

Theorem amo_each_selectable : forall xs t cs x,
  run empty [] xs = (t, cs) -> In x (vars t) ->
  exists g, forallb (sat (fun v => Nat.eqb v x) g) cs = true.
Proof.
  intros xs t cs x R Hx.
  destruct (run_inv _ _ _ _ _ inv_empty R) as (ND & Z & SZ & HAS & ONLY).
  apply In_nth_error in Hx. destruct Hx as [i Hi].
  exists (bit i). apply forallb_forall. intros [[y b] p] Hin. cbn.
  destruct (Nat.eqb y x) eqn:E; [|reflexivity]. apply Nat.eqb_eq in E. subst y. cbn.
  destruct (ONLY _ _ _ Hin) as [Hb [k [Hk Hp]]]. subst p.
  assert (k = i). { eapply (proj1 (NoDup_nth_error (vars t)) ND); [apply nth_error_Some; rewrite Hk; discriminate| congruence]. }
  subst k. apply Bool.eqb_reflx.
Qed.

Theorem amo_none_selectable : forall xs t cs g,
  run empty [] xs = (t, cs) -> forallb (sat (fun _ => false) g) cs = true.
Proof. intros. apply forallb_forall. intros [[y b] p] _. reflexivity. Qed.

(* the clauses produced for a registration order *)
Definition amo_clauses (xs : list nat) : list clause := snd (run empty [] xs).

(* re-adding a registered variable is a no-op *)
Lemma add_idem t x : In x (vars t) -> add t x = (t, []).
Proof. intro H. unfold add. destruct (in_dec Nat.eq_dec x (vars t)); [reflexivity | contradiction]. Qed.

(* the insta snapshot of the Rust unit test (4 variables) *)
Example amo_snapshot :
  amo_clauses [1;2;3;4] =
  [(1,0,false); (2,0,true); (1,1,false); (2,1,false); (3,0,false); (3,1,true); (4,0,true); (4,1,true)].
Proof. vm_compute. reflexivity. Qed.
