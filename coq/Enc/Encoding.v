(* Enc/Encoding.v -- what each clause kind of the solver MEANS.

   [factb]: a stored clause is a true statement about the provider and the
            problem, with the literals the code gives it (encoding.rs, clause.rs).
   E1:      every valid selection satisfies every fact  (=> Unsolvable is sound)
   E2:      a model of a closed set of facts is a valid selection
                                                        (=> returned solutions are valid) *)
From Resolvo Require Export Enc.Clauses.

(* provider well-formedness assumed by every property *)
Record WF (U : provider) : Prop := mkWF {
  wf_sort : forall l x, In x (p_sort U l) <-> In x l;
  wf_cand_name : forall n s, In s (p_cands U n) -> p_sol_name U s = n;
  wf_excl_name : forall n s, In s (p_excluded U n) -> p_sol_name U s = n
}.

Fixpoint nl_eqb (a b : list N) : bool :=
  match a, b with
  | [], [] => true
  | x :: a', y :: b' => N.eqb x y && nl_eqb a' b'
  | _, _ => false
  end.
Lemma nl_eqb_eq a b : nl_eqb a b = true <-> a = b.
Proof.
  revert b. induction a as [|x a IH]; intros [|y b]; simpl;
    try (split; [discriminate | intro H; discriminate H]); [split; reflexivity|].
  rewrite andb_true_iff, N.eqb_eq, IH.
  split; [intros [? ?]; subst; reflexivity | intro H; inversion H; auto].
Qed.
Fixpoint nll_eqb (a b : list (list N)) : bool :=
  match a, b with
  | [], [] => true
  | x :: a', y :: b' => nl_eqb x y && nll_eqb a' b'
  | _, _ => false
  end.
Lemma nll_eqb_eq a b : nll_eqb a b = true <-> a = b.
Proof.
  revert b. induction a as [|x a IH]; intros [|y b]; simpl;
    try (split; [discriminate | intro H; discriminate H]); [split; reflexivity|].
  rewrite andb_true_iff, nl_eqb_eq, IH.
  split; [intros [? ?]; subst; reflexivity | intro H; inversion H; auto].
Qed.

Lemma take_out_In f m r x : take_out f m = Some r -> (In x m <-> x = f \/ In x r).
Proof.
  revert r. induction m as [|y m IH]; intros r; simpl; [discriminate|].
  destruct (N.eqb y f) eqn:E.
  - apply N.eqb_eq in E. subst. intro H. inversion H. subst. split; intros [H1|H1]; auto.
  - destruct (take_out f m) as [r'|] eqn:Et; [|discriminate]. intro H. inversion H. subst.
    simpl. rewrite (IH r' eq_refl). tauto.
Qed.

Lemma favor_In f m x : In x (favor f m) <-> In x m.
Proof.
  unfold favor. destruct f as [f|]; [|tauto].
  destruct (take_out f m) as [r|] eqn:E; [|tauto].
  rewrite (take_out_In f m r x E). simpl. split; intros [H|H]; auto.
Qed.

Section Enc.
Variable U : provider.
Variable P : problem.
(* the index of a registered solvable in the at-most-one tracker of its package *)
Variable idx : N -> N -> option nat.

Notation name := (name U).

Definition dep_cons (s : N) : list N :=
  match p_deps U s with Known _ cs => cs | Unknown => [] end.
Definition is_unknown (d : deps) : bool := match d with Unknown => true | _ => false end.

Definition req_parent_ok (p : var) (r : req) : bool :=
  match p with
  | VRoot => existsb (req_eqb r) (pr_reqs P)
  | VSol s => existsb (req_eqb r) (dep_reqs U s)
  | VHelp _ _ => false
  end.

Definition con_parent_ok (p : var) (v : N) : bool :=
  match p with
  | VRoot => memN v (pr_cons P)
  | VSol s => memN v (dep_cons s)
  | VHelp _ _ => false
  end.

Definition requires_lits (p : var) (r : req) : list lit :=
  (p, false) :: map pos (req_cands U r).

Lemma concat_map_flat_map {A B} (f : A -> list B) l : concat (map f l) = flat_map f l.
Proof. induction l as [|x l IH]; simpl; [reflexivity | rewrite IH; reflexivity]. Qed.

Definition factb (c : cl) : bool :=
  match ck c with
  | KRoot => lits_eqb (cl_lits c) [(VRoot, true)]
  | KRequires p r cands =>
      req_parent_ok p r && nll_eqb cands (map (sorted_cands U) (req_vss U r)) &&
      lits_eqb (cl_lits c) ((p, false) :: map pos (concat cands))
  | KForbid n =>
      match cl_lits c with
      | [(VSol x, false); (VHelp n' k, b)] =>
          N.eqb n' n && N.eqb (name x) n &&
          match idx n x with Some i => Bool.eqb b (Nat.testbit i (N.to_nat k)) | None => false end
      | _ => false
      end
  | KConstrains p f v =>
      con_parent_ok p v && memN f (nonmatching U v) && lits_eqb (cl_lits c) [(p, false); nlit f]
  | KLock l o =>
      match p_locked U (name o) with
      | Some l' => N.eqb l' l && memN o (p_cands U (name o)) && negb (N.eqb o l)
      | None => false
      end && lits_eqb (cl_lits c) [nlit o; (VRoot, false)]
  | KExcluded x _ =>
      (memN x (p_excluded U (name x)) || is_unknown (p_deps U x)) && lits_eqb (cl_lits c) [nlit x]
  | KLearnt _ => false
  end.

(* the assignment of a selection: root, its members, and for each package the
   helper bits of the chosen candidate's tracker index *)
Definition a_sel (S : list N) : asg := fun v =>
  match v with
  | VRoot => true
  | VSol s => memN s S
  | VHelp n k =>
      match find (fun s => N.eqb (name s) n) S with
      | Some x => match idx n x with Some i => Nat.testbit i (N.to_nat k) | None => false end
      | None => false
      end
  end.

Lemma sorted_cands_In (HW : WF U) v x : In x (sorted_cands U v) <-> In x (matching U v).
Proof. unfold sorted_cands. rewrite favor_In. apply (wf_sort U HW). Qed.

Lemma req_cands_In (HW : WF U) r x : In x (req_cands U r) <-> cand_of U r x.
Proof.
  unfold req_cands, cand_of. rewrite in_flat_map.
  split; intros [v [Hv H]]; exists v; (split; [exact Hv|]); apply (sorted_cands_In HW); exact H.
Qed.

Lemma req_met_cand S r : req_met U S r <-> exists s, cand_of U r s /\ In s S.
Proof.
  unfold req_met, cand_of. split.
  - intros [v [s [Hv [Hm Hs]]]]. exists s. split; [exists v; auto | exact Hs].
  - intros [s [[v [Hv Hm]] Hs]]. exists v, s. auto.
Qed.

Lemma cl_true_intro a c l : In l c -> lit_true a l = true -> cl_true a c = true.
Proof. intros. apply cl_true_iff. exists l. auto. Qed.

Lemma existsb_req r l : existsb (req_eqb r) l = true <-> In r l.
Proof.
  rewrite existsb_exists. split.
  - intros [x [Hx He]]. apply req_eqb_eq in He. subst. exact Hx.
  - intro H. exists r. split; [exact H | apply req_eqb_eq; reflexivity].
Qed.

Lemma dep_cons_spec S s v :
  deps_ok U S (p_deps U s) -> In v (dep_cons s) -> con_ok U S v.
Proof.
  unfold dep_cons. destruct (p_deps U s) as [rs cs|]; [|intros []].
  intros [_ H] Hv. apply H. exact Hv.
Qed.

Lemma dep_reqs_spec S s r :
  deps_ok U S (p_deps U s) -> In r (dep_reqs U s) -> req_met U S r.
Proof.
  unfold dep_reqs. destruct (p_deps U s) as [rs cs|]; [|intros []].
  intros [H _] Hr. apply H. exact Hr.
Qed.

Lemma find_unique S n x :
  one_per_name U S -> In x S -> name x = n ->
  find (fun s => N.eqb (name s) n) S = Some x.
Proof.
  intros H1 Hx Hn. destruct (find (fun s => N.eqb (name s) n) S) as [y|] eqn:E.
  - apply find_some in E. destruct E as [Hy Hyn]. apply N.eqb_eq in Hyn.
    f_equal. apply H1; [exact Hy | exact Hx | congruence].
  - exfalso. pose proof (find_none _ _ E x Hx) as Hn'. simpl in Hn'.
    apply N.eqb_neq in Hn'. contradiction.
Qed.

(* E1: every valid selection satisfies every fact *)
Theorem E1 (HW : WF U) S c :
  valid U P S [] -> factb c = true -> cl_true (a_sel S) (cl_lits c) = true.
Proof.
  intros [Hroot [Hdeps [Hpkg H1]]] Hf. unfold factb in Hf.
  destruct (ck c) as [|p r cands|n|p f v|l o|x rs|why].
  - (* root *)
    apply lits_eqb_eq in Hf. rewrite Hf. reflexivity.
  - (* requires *)
    apply andb_true_iff in Hf. destruct Hf as [Hf Hl]. apply andb_true_iff in Hf.
    destruct Hf as [Hp Hc]. apply lits_eqb_eq in Hl. apply nll_eqb_eq in Hc. rewrite Hl. subst cands.
    rewrite concat_map_flat_map. fold (req_cands U r).
    assert (Hmet : req_met U S r -> cl_true (a_sel S) ((p, false) :: map pos (req_cands U r)) = true).
    { intro Hm. apply req_met_cand in Hm. destruct Hm as [s [Hc Hs]].
      apply cl_true_intro with (l := pos s).
      - right. apply in_map. apply (req_cands_In HW). exact Hc.
      - unfold lit_true, pos. simpl. apply memN_In in Hs. rewrite Hs. reflexivity. }
    destruct p as [|s|n k]; simpl in Hp.
    + apply Hmet. apply existsb_req in Hp. destruct Hroot as [Hr _]. apply Hr. exact Hp.
    + destruct (memN s S) eqn:Es.
      * apply Hmet. apply existsb_req in Hp. apply memN_In in Es.
        eapply dep_reqs_spec; [apply Hdeps; exact Es | exact Hp].
      * apply cl_true_intro with (l := (VSol s, false)); [left; reflexivity|].
        unfold lit_true. simpl. rewrite Es. reflexivity.
    + discriminate.
  - (* forbid *)
    destruct (cl_lits c) as [|[[|x|? ?] [|]] [|[[|?|n' k] b] [|? ?]]]; try discriminate.
    apply andb_true_iff in Hf. destruct Hf as [Hf Hb]. apply andb_true_iff in Hf.
    destruct Hf as [Hn' Hnx]. apply N.eqb_eq in Hn', Hnx. subst n'.
    destruct (idx n x) as [i|] eqn:Ei; [|discriminate]. apply Bool.eqb_prop in Hb.
    destruct (memN x S) eqn:Es.
    + apply cl_true_intro with (l := (VHelp n k, b)); [right; left; reflexivity|].
      unfold lit_true. simpl. apply memN_In in Es.
      rewrite (find_unique S n x H1 Es Hnx), Ei. rewrite Hb. apply Bool.eqb_reflx.
    + apply cl_true_intro with (l := (VSol x, false)); [left; reflexivity|].
      unfold lit_true. simpl. rewrite Es. reflexivity.
  - (* constrains *)
    apply andb_true_iff in Hf. destruct Hf as [Hf Hl]. apply andb_true_iff in Hf.
    destruct Hf as [Hp Hnm]. apply lits_eqb_eq in Hl. rewrite Hl. apply memN_In in Hnm.
    assert (Hcon : con_ok U S v -> cl_true (a_sel S) [(p, false); nlit f] = true).
    { intro Hc. apply cl_true_intro with (l := nlit f); [right; left; reflexivity|].
      unfold lit_true, nlit. simpl. destruct (memN f S) eqn:Es; [|reflexivity].
      apply memN_In in Es. exfalso. apply (Hc f Es). exact Hnm. }
    destruct p as [|s|n k]; simpl in Hp.
    + apply Hcon. apply memN_In in Hp. destruct Hroot as [_ Hc]. apply Hc. exact Hp.
    + destruct (memN s S) eqn:Es.
      * apply Hcon. apply memN_In in Hp, Es. eapply dep_cons_spec; [apply Hdeps; exact Es | exact Hp].
      * apply cl_true_intro with (l := (VSol s, false)); [left; reflexivity|].
        unfold lit_true. simpl. rewrite Es. reflexivity.
    + discriminate.
  - (* lock *)
    apply andb_true_iff in Hf. destruct Hf as [Hf Hl]. apply lits_eqb_eq in Hl. rewrite Hl.
    destruct (p_locked U (name o)) as [l'|] eqn:El; [|discriminate].
    apply andb_true_iff in Hf. destruct Hf as [Hf Hne]. apply andb_true_iff in Hf.
    destruct Hf as [Hll Hc]. apply N.eqb_eq in Hll. subst l'. apply memN_In in Hc.
    apply negb_true_iff in Hne. apply N.eqb_neq in Hne.
    apply cl_true_intro with (l := nlit o); [left; reflexivity|].
    unfold lit_true, nlit. simpl. destruct (memN o S) eqn:Es; [|reflexivity].
    apply memN_In in Es. exfalso. destruct (Hpkg o Es (fun H => H)) as [_ Hlock].
    apply Hne. apply (Hlock l El Hc).
  - (* excluded *)
    apply andb_true_iff in Hf. destruct Hf as [Hf Hl]. apply lits_eqb_eq in Hl. rewrite Hl.
    apply cl_true_intro with (l := nlit x); [left; reflexivity|].
    unfold lit_true, nlit. simpl. destruct (memN x S) eqn:Es; [|reflexivity].
    apply memN_In in Es. exfalso. apply orb_true_iff in Hf. destruct Hf as [Hf|Hf].
    + apply memN_In in Hf. destruct (Hpkg x Es (fun H => H)) as [Hex _]. apply Hex. exact Hf.
    + specialize (Hdeps x Es). destruct (p_deps U x); [discriminate | exact Hdeps].
  - discriminate.
Qed.

(* ---------------------------------------------------------------- E2 *)

Definition has_lits (db : list cl) (ls : list lit) : bool :=
  existsb (fun c => lits_eqb (cl_lits c) ls) db.

(* a Requires clause of parent p for requirement r, with the expected literals *)
Definition has_requires (db : list cl) (p : var) (r : req) : bool :=
  existsb (fun c => match ck c with
                    | KRequires p' r' _ => var_eqb p p' && req_eqb r r'
                    | _ => false
                    end && lits_eqb (cl_lits c) (requires_lits p r)) db.

Lemma has_requires_lits db p r : has_requires db p r = true -> has_lits db (requires_lits p r) = true.
Proof.
  unfold has_requires, has_lits. rewrite !existsb_exists. intros [c [Hc H]].
  apply andb_true_iff in H. exists c. split; [exact Hc | apply H].
Qed.

Lemma has_requires_clause db p r : has_requires db p r = true ->
  exists c cands, In c db /\ ck c = KRequires p r cands /\ cl_lits c = requires_lits p r.
Proof.
  unfold has_requires. rewrite existsb_exists. intros [c [Hc H]].
  apply andb_true_iff in H. destruct H as [Hk Hl]. apply lits_eqb_eq in Hl.
  destruct (ck c) as [|p' r' cands| | | | |] eqn:Ek; try discriminate.
  apply andb_true_iff in Hk. destruct Hk as [Hp Hr]. apply var_eqb_eq in Hp. apply req_eqb_eq in Hr.
  subst. exists c, cands. auto.
Qed.

Definition deps_closedb (db : list cl) (p : var) (d : deps) : bool :=
  match d with
  | Unknown => match p with VSol s => has_lits db [nlit s] | _ => false end
  | Known rs cs =>
      forallb (fun r => has_requires db p r) rs &&
      forallb (fun v => forallb (fun f => has_lits db [(p, false); nlit f]) (nonmatching U v)) cs
  end.

Definition pkg_closedb (db : list cl) (s : N) : bool :=
  (if memN s (p_excluded U (name s)) then has_lits db [nlit s] else true) &&
  match p_locked U (name s) with
  | Some l => if memN s (p_cands U (name s)) && negb (N.eqb s l)
              then has_lits db [nlit s; (VRoot, false)] else true
  | None => true
  end.

(* the clause database is closed for the selection S with exemptions ex *)
Definition closedb (db : list cl) (S ex : list N) : bool :=
  deps_closedb db VRoot (Known (pr_reqs P) (pr_cons P)) &&
  forallb (fun s => deps_closedb db (VSol s) (p_deps U s)) S &&
  forallb (fun s => memN s ex || pkg_closedb db s) S &&
  one_per_nameb U S.

Lemma has_lits_sat db ls a :
  (forall c, In c db -> cl_true a (cl_lits c) = true) -> has_lits db ls = true -> cl_true a ls = true.
Proof.
  intros Hall H. unfold has_lits in H. apply existsb_exists in H. destruct H as [c [Hc He]].
  apply lits_eqb_eq in He. rewrite <- He. apply Hall. exact Hc.
Qed.

(* package-level clauses (exclusion list, lock) of an exempt solvable may be
   falsified by the final assignment: that is the documented soft-requirement
   exemption.  An Unknown-dependencies exclusion is never exempt. *)
Definition exempt_cl (ex : list N) (c : cl) : bool :=
  match ck c, cl_lits c with
  | KExcluded _ _, [(VSol x, false)] => memN x ex && negb (is_unknown (p_deps U x))
  | KLock _ _, [(VSol o, false); (VRoot, false)] => memN o ex
  | _, _ => false
  end.

Definition sat_or_exempt (a : asg) (ex : list N) (c : cl) : bool :=
  cl_true a (cl_lits c) || exempt_cl ex c.

Lemma has_lits_sat_ex db ls a ex :
  (forall c, In c db -> sat_or_exempt a ex c = true) -> has_lits db ls = true ->
  (forall c, cl_lits c = ls -> exempt_cl ex c = false) -> cl_true a ls = true.
Proof.
  intros Hall H Hne. unfold has_lits in H. apply existsb_exists in H. destruct H as [c [Hc He]].
  apply lits_eqb_eq in He. specialize (Hall c Hc). unfold sat_or_exempt in Hall.
  rewrite (Hne c He) in Hall. rewrite orb_false_r in Hall. rewrite <- He. exact Hall.
Qed.

Lemma exempt_cl_requires ex c p r cands : ck c = KRequires p r cands -> exempt_cl ex c = false.
Proof. unfold exempt_cl. intro E. rewrite E. reflexivity. Qed.

Lemma lit_true_pos a s : lit_true a (pos s) = a (VSol s).
Proof. unfold lit_true, pos. simpl. destruct (a (VSol s)); reflexivity. Qed.
Lemma lit_true_nlit a s : lit_true a (nlit s) = negb (a (VSol s)).
Proof. unfold lit_true, nlit. simpl. destruct (a (VSol s)); reflexivity. Qed.

Lemma deps_closed_ok (HW : WF U) db a S ex p d :
  (forall c, In c db -> sat_or_exempt a ex c = true) ->
  (forall s, In s S <-> a (VSol s) = true) ->
  a p = true ->
  (forall s, p = VSol s -> d = p_deps U s) ->
  deps_closedb db p d = true -> deps_ok U S d.
Proof.
  intros Hall HS Hp Hd Hc. destruct d as [rs cs|] eqn:Ed; simpl in *.
  - apply andb_true_iff in Hc. destruct Hc as [Hr Hcs]. rewrite forallb_forall in Hr, Hcs. split.
    + intros r Hin. specialize (Hr r Hin).
      destruct (has_requires_clause db p r Hr) as [c [cands [Hcdb [Ek El]]]].
      pose proof (Hall c Hcdb) as Hs. unfold sat_or_exempt in Hs.
      rewrite (exempt_cl_requires ex c p r cands Ek), orb_false_r, El in Hs.
      apply cl_true_iff in Hs. destruct Hs as [l [Hl Ht]]. simpl in Hl. destruct Hl as [Hl|Hl].
      * subst l. unfold lit_true in Ht. simpl in Ht. rewrite Hp in Ht. discriminate.
      * apply in_map_iff in Hl. destruct Hl as [s [Hs Hin2]]. subst l.
        rewrite lit_true_pos in Ht. apply req_met_cand. exists s. split.
        -- apply (req_cands_In HW). exact Hin2.
        -- apply HS. exact Ht.
    + intros v Hin s Hs Hnm. specialize (Hcs v Hin). rewrite forallb_forall in Hcs.
      specialize (Hcs s Hnm). apply (has_lits_sat_ex db _ a ex Hall) in Hcs.
      * apply cl_true_iff in Hcs. destruct Hcs as [l [Hl Ht]]. simpl in Hl.
        destruct Hl as [Hl|[Hl|[]]]; subst l.
        -- unfold lit_true in Ht. simpl in Ht. rewrite Hp in Ht. discriminate.
        -- rewrite lit_true_nlit in Ht. apply HS in Hs. rewrite Hs in Ht. discriminate.
      * intros c El. unfold exempt_cl. rewrite El. unfold nlit.
        destruct (ck c); try reflexivity; destruct p as [|? |? ?]; reflexivity.
  - destruct p as [|s|? ?]; try discriminate.
    apply (has_lits_sat_ex db _ a ex Hall) in Hc.
    + apply cl_true_iff in Hc. destruct Hc as [l [[Hl|[]] Ht]]. subst l. rewrite lit_true_nlit in Ht.
      rewrite Hp in Ht. discriminate.
    + (* an Unknown-dependencies exclusion is never exempt *)
      intros c El. unfold exempt_cl. rewrite El. unfold nlit.
      rewrite <- (Hd s eq_refl). simpl. rewrite andb_false_r.
      destruct (ck c); reflexivity.
Qed.

(* E2: a total assignment that satisfies a closed clause database (up to the
   package-level clauses of exempt solvables) selects a valid set *)
Theorem E2 (HW : WF U) db a S ex :
  (forall c, In c db -> sat_or_exempt a ex c = true) ->
  (forall s, In s S <-> a (VSol s) = true) ->
  a VRoot = true ->
  closedb db S ex = true ->
  valid U P S ex.
Proof.
  intros Hall HS Hroot Hc. unfold closedb in Hc.
  apply andb_true_iff in Hc. destruct Hc as [Hc H1]. apply andb_true_iff in Hc.
  destruct Hc as [Hc Hpk]. apply andb_true_iff in Hc. destruct Hc as [Hr Hd].
  rewrite forallb_forall in Hd, Hpk. split; [|split; [|split]].
  - apply (deps_closed_ok HW db a S ex VRoot _ Hall HS Hroot); [intros s E; discriminate E | exact Hr].
  - intros s Hs.
    apply (deps_closed_ok HW db a S ex (VSol s) (p_deps U s) Hall HS);
      [apply HS; exact Hs | intros s' E; inversion E; reflexivity | apply Hd; exact Hs].
  - intros s Hs Hex. specialize (Hpk s Hs). apply orb_true_iff in Hpk.
    destruct Hpk as [Hpk|Hpk]; [apply memN_In in Hpk; contradiction|].
    unfold pkg_closedb in Hpk. apply andb_true_iff in Hpk. destruct Hpk as [He Hl].
    assert (Has : a (VSol s) = true) by (apply HS; exact Hs).
    assert (Hnex : memN s ex = false) by (apply memN_false; exact Hex).
    split.
    + intro Hin. apply memN_In in Hin. fold name in Hin. rewrite Hin in He.
      apply (has_lits_sat_ex db _ a ex Hall) in He.
      * apply cl_true_iff in He.
        destruct He as [l [[Hl'|[]] Ht]]. subst l. rewrite lit_true_nlit, Has in Ht. discriminate.
      * intros c El. unfold exempt_cl. rewrite El. unfold nlit. rewrite Hnex. simpl.
        destruct (ck c); reflexivity.
    + intros l El Hcand. fold name in El. rewrite El in Hl. apply memN_In in Hcand.
      fold name in Hcand. rewrite Hcand in Hl. simpl in Hl.
      destruct (N.eqb s l) eqn:Esl; [apply N.eqb_eq; exact Esl|]. simpl in Hl.
      apply (has_lits_sat_ex db _ a ex Hall) in Hl.
      * apply cl_true_iff in Hl.
        destruct Hl as [l0 [[Hl'|[Hl'|[]]] Ht]]; subst l0.
        -- rewrite lit_true_nlit, Has in Ht. discriminate.
        -- unfold lit_true in Ht. simpl in Ht. rewrite Hroot in Ht. discriminate.
      * intros c Ec. unfold exempt_cl. rewrite Ec. unfold nlit. rewrite Hnex.
        destruct (ck c); reflexivity.
  - apply one_per_nameb_spec. exact H1.
Qed.

End Enc.
