(* Enc/Clauses.v -- variables by origin, literals, clauses with the kind the
   solver stored, total and partial assignments. *)
From Resolvo Require Export Spec.SpecDec.

Inductive var := VRoot | VSol (s : N) | VHelp (n k : N).

Definition var_eqb (a b : var) : bool :=
  match a, b with
  | VRoot, VRoot => true
  | VSol x, VSol y => N.eqb x y
  | VHelp n k, VHelp m j => N.eqb n m && N.eqb k j
  | _, _ => false
  end.

Lemma var_eqb_eq a b : var_eqb a b = true <-> a = b.
Proof.
  destruct a, b; simpl; try (split; [discriminate | intro H; discriminate H]);
    try (split; reflexivity).
  - rewrite N.eqb_eq. split; intro H; [subst; reflexivity | inversion H; reflexivity].
  - rewrite andb_true_iff, !N.eqb_eq. split; [intros [? ?]; subst; reflexivity|].
    intro H; inversion H; auto.
Qed.

Lemma var_eqb_refl a : var_eqb a a = true.
Proof. apply var_eqb_eq. reflexivity. Qed.

Lemma var_eqb_neq a b : var_eqb a b = false <-> a <> b.
Proof.
  rewrite <- var_eqb_eq. destruct (var_eqb a b); split; intro H; try reflexivity;
    try discriminate; try (intro; discriminate). exfalso. apply H. reflexivity.
Qed.

Definition var_eq_dec (a b : var) : {a = b} + {a <> b}.
Proof.
  destruct (var_eqb a b) eqn:E; [left; apply var_eqb_eq; exact E | right; apply var_eqb_neq; exact E].
Defined.

(* (v, true) is the positive literal v, (v, false) the negative one *)
Definition lit := (var * bool)%type.

Definition lit_eqb (a b : lit) : bool := var_eqb (fst a) (fst b) && Bool.eqb (snd a) (snd b).

Lemma lit_eqb_eq a b : lit_eqb a b = true <-> a = b.
Proof.
  destruct a as [x p], b as [y q]. unfold lit_eqb. simpl.
  rewrite andb_true_iff, var_eqb_eq, Bool.eqb_true_iff.
  split; [intros [? ?]; subst; reflexivity | intro H; inversion H; auto].
Qed.

Lemma lit_eqb_refl a : lit_eqb a a = true.
Proof. apply lit_eqb_eq. reflexivity. Qed.

Fixpoint lits_eqb (a b : list lit) : bool :=
  match a, b with
  | [], [] => true
  | x :: a', y :: b' => lit_eqb x y && lits_eqb a' b'
  | _, _ => false
  end.

Lemma lits_eqb_eq a b : lits_eqb a b = true <-> a = b.
Proof.
  revert b. induction a as [|x a IH]; intros [|y b]; simpl;
    try (split; [discriminate | intro H; discriminate H]); [split; reflexivity|].
  rewrite andb_true_iff, lit_eqb_eq, IH.
  split; [intros [? ?]; subst; reflexivity | intro H; inversion H; auto].
Qed.

Definition neg (l : lit) : lit := (fst l, negb (snd l)).
Definition pos (s : N) : lit := (VSol s, true).
Definition nlit (s : N) : lit := (VSol s, false).

(* clause kinds as stored by the solver (src/solver/clause.rs) *)
Inductive kind :=
| KRoot
| KRequires (parent : var) (r : req) (cands : list (list N))
| KForbid (name : N)
| KConstrains (parent : var) (forbidden : N) (v : N)
| KLock (locked other : N)
| KExcluded (x : N) (reason : N)
| KLearnt (why : list N).

Record cl := mkCl { ck : kind; cl_lits : list lit }.

Definition is_learnt (c : cl) : bool := match ck c with KLearnt _ => true | _ => false end.

(* total assignments *)
Definition asg := var -> bool.
Definition lit_true (a : asg) (l : lit) : bool := Bool.eqb (a (fst l)) (snd l).
Definition cl_true (a : asg) (c : list lit) : bool := existsb (lit_true a) c.

Lemma cl_true_iff a c : cl_true a c = true <-> exists l, In l c /\ lit_true a l = true.
Proof. unfold cl_true. apply existsb_exists. Qed.

Definition entails (F : list (list lit)) (c : list lit) : Prop :=
  forall a, (forall d, In d F -> cl_true a d = true) -> cl_true a c = true.

(* partial assignments = trails seen as association lists, newest first *)
Fixpoint pval (pa : list lit) (v : var) : option bool :=
  match pa with
  | [] => None
  | (w, b) :: t => if var_eqb w v then Some b else pval t v
  end.

Definition lit_val (pa : list lit) (l : lit) : option bool :=
  match pval pa (fst l) with Some b => Some (Bool.eqb b (snd l)) | None => None end.

Definition lit_false (pa : list lit) (l : lit) : bool :=
  match lit_val pa l with Some false => true | _ => false end.
Definition lit_istrue (pa : list lit) (l : lit) : bool :=
  match lit_val pa l with Some true => true | _ => false end.
Definition lit_unassigned (pa : list lit) (l : lit) : bool :=
  match lit_val pa l with None => true | _ => false end.

(* a total assignment extends a partial one *)
Definition extends (a : asg) (pa : list lit) : Prop :=
  forall v b, pval pa v = Some b -> a v = b.

Lemma extends_false a pa l : extends a pa -> lit_false pa l = true -> lit_true a l = false.
Proof.
  unfold lit_false, lit_val, lit_true. intros He H.
  destruct (pval pa (fst l)) as [b|] eqn:E; [|discriminate].
  rewrite (He _ _ E). destruct (Bool.eqb b (snd l)); [discriminate | reflexivity].
Qed.

Lemma extends_true a pa l : extends a pa -> lit_istrue pa l = true -> lit_true a l = true.
Proof.
  unfold lit_istrue, lit_val, lit_true. intros He H.
  destruct (pval pa (fst l)) as [b|] eqn:E; [|discriminate].
  rewrite (He _ _ E). destruct (Bool.eqb b (snd l)); [reflexivity | discriminate].
Qed.

Lemma extends_cons a pa l :
  extends a pa -> lit_true a l = true -> extends a (l :: pa).
Proof.
  intros He Hl v b. destruct l as [w p]. simpl. destruct (var_eqb w v) eqn:E.
  - apply var_eqb_eq in E. subst. intro H. inversion H. subst.
    unfold lit_true in Hl. simpl in Hl. apply Bool.eqb_prop in Hl. exact Hl.
  - apply He.
Qed.

Lemma extends_tail a pa l : pval pa (fst l) = None -> extends a (l :: pa) -> extends a pa.
Proof.
  intros Hn He v b H. apply He. destruct l as [w p]. simpl in *.
  destruct (var_eqb w v) eqn:E; [|exact H]. apply var_eqb_eq in E. subst. congruence.
Qed.
