(* Spec/Oracle.v -- the verified oracles packaged for extraction: functions of
   a table universe, a problem and an observed output.  Each has a soundness
   lemma phrased against the Spec. *)
From Resolvo Require Export Spec.Ref.

Definition o_valid (u : universe) (P : problem) (S : list N) : bool :=
  validb (table_provider u) P S (exempt (table_provider u) P S).

Definition o_supported (u : universe) (P : problem) (S : list N) : bool :=
  supportedb (table_provider u) P S.

Definition o_solvable (u : universe) (P : problem) : bool := u_solvableb u P.

Definition greedy_fuel (u : universe) (P : problem) : nat :=
  (4 + length (pr_reqs P) +
   fold_right (fun s acc => match s_deps s with Known rs _ => 1 + length rs + acc | Unknown => 1 + acc end)
     0 (u_sols u))%nat.

Definition o_greedy (u : universe) (P : problem) : option (list N) :=
  match pr_soft P with
  | [] => greedy (table_provider u) (greedy_fuel u P) P
  | _ => None
  end.

Definition is_single (r : req) : bool := match r with RSingle _ => true | RUnion _ => false end.

Fixpoint all_some {A} (l : list (option A)) : option (list A) :=
  match l with
  | [] => Some []
  | Some x :: t => match all_some t with Some r => Some (x :: r) | None => None end
  | None :: _ => None
  end.

(* first-ranked candidates of the root requirements, when C08 applies *)
Definition o_root_firsts (u : universe) (P : problem) : option (list N) :=
  if forallb is_single (pr_reqs P) && match pr_soft P with [] => true | _ => false end
  then all_some (map (first_choice (table_provider u)) (pr_reqs P))
  else None.

(* [Some fs]: a valid solution containing all of fs exists, so the returned
   solution must contain them *)
Definition o_explicit_first (u : universe) (P : problem) : option (list N) :=
  match o_root_firsts u P with
  | Some fs => if u_solvable_with u P fs then Some fs else None
  | None => None
  end.

Lemma o_valid_spec u P S :
  o_valid u P S = true <-> valid (table_provider u) P S (exempt (table_provider u) P S).
Proof. apply validb_spec. Qed.

Lemma o_supported_spec u P S :
  o_supported u P S = true <-> supported (table_provider u) P S.
Proof. apply supportedb_spec. Qed.

Lemma o_solvable_spec u P : o_solvable u P = true <-> solvable (table_provider u) P.
Proof. apply u_solvableb_correct. Qed.

Lemma o_greedy_sound u P G :
  o_greedy u P = Some G -> pr_soft P = [] /\ greedy_ok (table_provider u) P G.
Proof.
  unfold o_greedy. destruct (pr_soft P) eqn:E; [|discriminate].
  intro H. split; [reflexivity|]. eapply greedy_sound. exact H.
Qed.

Lemma all_some_In {A} (l : list (option A)) r x :
  all_some l = Some r -> In (Some x) l -> In x r.
Proof.
  revert r. induction l as [|o l IH]; intros r; simpl; [intros _ []|].
  destruct o as [y|]; [|discriminate].
  destruct (all_some l) as [r'|]; [|discriminate]. intro H. inversion H. subst.
  intros [E|Hin]; [inversion E; left; reflexivity | right; apply IH; auto].
Qed.

Lemma o_explicit_first_sound u P fs :
  o_explicit_first u P = Some fs ->
  root_singles P /\ pr_soft P = [] /\
  (exists S, valid (table_provider u) P S [] /\ forall f, In f fs -> In f S) /\
  (forall r f, In r (pr_reqs P) -> first_choice (table_provider u) r = Some f -> In f fs).
Proof.
  unfold o_explicit_first, o_root_firsts.
  destruct (forallb is_single (pr_reqs P)) eqn:Es; [|discriminate].
  destruct (pr_soft P) eqn:Esoft; [|discriminate]. cbn [andb].
  destruct (all_some (map (first_choice (table_provider u)) (pr_reqs P))) as [l|] eqn:El; [|discriminate].
  destruct (u_solvable_with u P l) eqn:Ew; [|discriminate].
  intro H. inversion H. subst l. split; [|split; [reflexivity|split]].
  - intros r Hr. rewrite forallb_forall in Es. specialize (Es r Hr).
    destruct r as [v|x]; [exists v; reflexivity | discriminate].
  - apply u_solvable_with_spec. exact Ew.
  - intros r f Hr Hf. eapply all_some_In; [exact El|]. rewrite <- Hf. apply in_map. exact Hr.
Qed.

(* ---------- C14: which soft requirements must be accepted ---------- *)

(* [G] (containing x) is a consistent selection -- valid under the documented
   exemption: a soft solvable that its own package excludes or locks out is
   acceptable only while no selected solvable (or the root) requests that
   package through a version set -- closed under first choices, in
   which every requirement is met only by its first choice: installing x on
   top of a conflict-free selection yields exactly this *)
Definition soft_step_ok (u : universe) (P : problem) (G : list N) (x : N) : bool :=
  let U := table_provider u in
  memN x G &&
  validb U P G (exempt U P G) &&
  supportedb U P G &&
  forallb (first_choiceb_ok U G) (all_reqs_list U P G).

(* process the soft list on top of a conflict-free hard selection G0; every step
   must be clear-cut: either the first-ranked closure of x is compatible
   (accept), or no valid selection extends the current one with x at all
   (reject).  Returns the accepted solvables with the selection they lead to. *)
(* [obs] is the solution the implementation returned.  A soft solvable that needs
   the exemption itself (excluded / locked out by its own package) is not judged:
   whether its package counts as "requested" depends on what the solver explored.
   If it was accepted, the oracle continues on top of it (provided its
   first-ranked closure is what was installed); if not, it is skipped. *)
Fixpoint soft_expect (fuel : nat) (u : universe) (P : problem) (obs : list N) (G : list N) (softs : list N)
  : option (list (N * list N)) :=
  match softs with
  | [] => Some []
  | x :: t =>
    let U := table_provider u in
    if memN x G then
      if soft_step_ok u P G x then
        match soft_expect fuel u P obs G t with Some r => Some ((x, G) :: r) | None => None end
      else None
    else if negb (pkg_okb U x) then
      if memN x obs then
        match greedy_close U fuel (dep_reqs U x) (G ++ [x]) with
        | Some G' => if forallb (fun s => memN s obs) G' && soft_step_ok u P G' x
                     then soft_expect fuel u P obs G' t else None
        | None => None
        end
      else soft_expect fuel u P obs G t
    else
      let clear_reject := negb (u_solvable_with_soft u P (G ++ [x])) in
      match greedy_close U fuel (dep_reqs U x) (G ++ [x]) with
      | Some G' =>
        if soft_step_ok u P G' x then
          match soft_expect fuel u P obs G' t with Some r => Some ((x, G') :: r) | None => None end
        else if clear_reject then soft_expect fuel u P obs G t else None
      | None => if clear_reject then soft_expect fuel u P obs G t else None
      end
  end.

Definition o_soft_expect (u : universe) (P : problem) (obs : list N) : option (list (N * list N)) :=
  match greedy (table_provider u) (greedy_fuel u P) (mkProblem (pr_reqs P) (pr_cons P) []) with
  | Some G0 => soft_expect (greedy_fuel u P) u P obs G0 (pr_soft P)
  | None => None
  end.

(* the oracle only expects a soft solvable to be accepted when a consistent
   first-choice-closed selection containing it exists *)
Lemma soft_expect_sound fuel u P obs : forall softs G r x G',
  soft_expect fuel u P obs G softs = Some r -> In (x, G') r ->
  In x softs /\ soft_step_ok u P G' x = true.
Proof.
  induction softs as [|y t IH]; intros G r x G' H Hin; cbn [soft_expect] in H.
  - inversion H. subst. destruct Hin.
  - destruct (memN y G) eqn:Ey.
    + destruct (soft_step_ok u P G y) eqn:Eok; [|discriminate].
      destruct (soft_expect fuel u P obs G t) as [r'|] eqn:Er; [|discriminate]. inversion H. subst.
      destruct Hin as [E|Hin].
      * inversion E. subst. split; [left; reflexivity | exact Eok].
      * destruct (IH G r' x G' Er Hin) as [H1 H2]. split; [right; exact H1 | exact H2].
    + destruct (negb (pkg_okb (table_provider u) y)).
      * destruct (memN y obs).
        -- destruct (greedy_close (table_provider u) fuel (dep_reqs (table_provider u) y) (G ++ [y])) as [G1|]; [|discriminate].
           destruct (forallb (fun s => memN s obs) G1 && soft_step_ok u P G1 y); [|discriminate].
           destruct (IH G1 r x G' H Hin) as [H1 H2]. split; [right; exact H1 | exact H2].
        -- destruct (IH G r x G' H Hin) as [H1 H2]. split; [right; exact H1 | exact H2].
      * destruct (greedy_close (table_provider u) fuel (dep_reqs (table_provider u) y) (G ++ [y])) as [G1|].
        -- destruct (soft_step_ok u P G1 y) eqn:Eok.
           ++ destruct (soft_expect fuel u P obs G1 t) as [r'|] eqn:Er; [|discriminate]. inversion H. subst.
              destruct Hin as [E|Hin].
              ** inversion E. subst. split; [left; reflexivity | exact Eok].
              ** destruct (IH G1 r' x G' Er Hin) as [H1 H2]. split; [right; exact H1 | exact H2].
           ++ destruct (negb (u_solvable_with_soft u P (G ++ [y]))); [|discriminate].
              destruct (IH G r x G' H Hin) as [H1 H2]. split; [right; exact H1 | exact H2].
        -- destruct (negb (u_solvable_with_soft u P (G ++ [y]))); [|discriminate].
           destruct (IH G r x G' H Hin) as [H1 H2]. split; [right; exact H1 | exact H2].
Qed.

Lemma soft_step_ok_spec u P G x :
  soft_step_ok u P G x = true ->
  In x G /\ valid (table_provider u) P G (exempt (table_provider u) P G) /\ supported (table_provider u) P G /\
  (forall r, all_reqs (table_provider u) P G r ->
     exists f, first_choice (table_provider u) r = Some f /\ In f G /\
               forall s, In s G -> cand_of (table_provider u) r s -> s = f).
Proof.
  unfold soft_step_ok. intro H.
  apply andb_true_iff in H. destruct H as [H Hf]. apply andb_true_iff in H. destruct H as [H Hs].
  apply andb_true_iff in H. destruct H as [Hx Hv].
  split; [apply memN_In; exact Hx|]. split; [apply validb_spec; exact Hv|].
  split; [apply supportedb_spec; exact Hs|].
  intros r Hr. apply all_reqs_list_spec in Hr. rewrite forallb_forall in Hf. specialize (Hf r Hr).
  unfold first_choiceb_ok in Hf. destruct (first_choice (table_provider u) r) as [f|]; [|discriminate].
  apply andb_true_iff in Hf. destruct Hf as [Hm Hall]. exists f. split; [reflexivity|].
  split; [apply memN_In; exact Hm|]. intros s0 Hs0 Hc. rewrite forallb_forall in Hall.
  specialize (Hall s0 Hs0). apply cand_ofb_spec in Hc. rewrite Hc in Hall. apply N.eqb_eq. exact Hall.
Qed.
