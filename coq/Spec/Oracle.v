(* Spec/Oracle.v -- the verified oracles packaged for extraction: functions of
   a table universe, a problem and an observed output.  Each has a soundness
   lemma phrased against the Spec. *)
From Resolvo Require Export Spec.Ref.

Definition o_valid (u : universe) (P : problem) (S : list N) : bool :=
  validb (table_provider u) P S (exempt P S).

Definition o_supported (u : universe) (P : problem) (S : list N) : bool :=
  supportedb (table_provider u) P S.

Definition o_solvable (u : universe) (P : problem) : bool := u_solvableb u P.

Definition greedy_fuel (u : universe) (P : problem) : nat :=
  (4 + length (pr_reqs P) +
   fold_right (fun s acc => match s_deps s with Known rs _ => 1 + length rs + acc | Unknown => 1 + acc end)
     0 (u_sols u))%nat.

Definition o_greedy (u : universe) (P : problem) : option (list N) :=
  match pr_soft P with
  | [] => greedy (table_provider u) (greedy_fuel u P) P
  | _ => None
  end.

Definition is_single (r : req) : bool := match r with RSingle _ => true | RUnion _ => false end.

Fixpoint all_some {A} (l : list (option A)) : option (list A) :=
  match l with
  | [] => Some []
  | Some x :: t => match all_some t with Some r => Some (x :: r) | None => None end
  | None :: _ => None
  end.

(* first-ranked candidates of the root requirements, when C08 applies *)
Definition o_root_firsts (u : universe) (P : problem) : option (list N) :=
  if forallb is_single (pr_reqs P) && match pr_soft P with [] => true | _ => false end
  then all_some (map (first_choice (table_provider u)) (pr_reqs P))
  else None.

(* [Some fs]: a valid solution containing all of fs exists, so the returned
   solution must contain them *)
Definition o_explicit_first (u : universe) (P : problem) : option (list N) :=
  match o_root_firsts u P with
  | Some fs => if u_solvable_with u P fs then Some fs else None
  | None => None
  end.

Lemma o_valid_spec u P S :
  o_valid u P S = true <-> valid (table_provider u) P S (exempt P S).
Proof. apply validb_spec. Qed.

Lemma o_supported_spec u P S :
  o_supported u P S = true <-> supported (table_provider u) P S.
Proof. apply supportedb_spec. Qed.

Lemma o_solvable_spec u P : o_solvable u P = true <-> solvable (table_provider u) P.
Proof. apply u_solvableb_correct. Qed.

Lemma o_greedy_sound u P G :
  o_greedy u P = Some G -> pr_soft P = [] /\ greedy_ok (table_provider u) P G.
Proof.
  unfold o_greedy. destruct (pr_soft P) eqn:E; [|discriminate].
  intro H. split; [reflexivity|]. eapply greedy_sound. exact H.
Qed.

Lemma all_some_In {A} (l : list (option A)) r x :
  all_some l = Some r -> In (Some x) l -> In x r.
Proof.
  revert r. induction l as [|o l IH]; intros r; simpl; [intros _ []|].
  destruct o as [y|]; [|discriminate].
  destruct (all_some l) as [r'|]; [|discriminate]. intro H. inversion H. subst.
  intros [E|Hin]; [inversion E; left; reflexivity | right; apply IH; auto].
Qed.

Lemma o_explicit_first_sound u P fs :
  o_explicit_first u P = Some fs ->
  root_singles P /\ pr_soft P = [] /\
  (exists S, valid (table_provider u) P S [] /\ forall f, In f fs -> In f S) /\
  (forall r f, In r (pr_reqs P) -> first_choice (table_provider u) r = Some f -> In f fs).
Proof.
  unfold o_explicit_first, o_root_firsts.
  destruct (forallb is_single (pr_reqs P)) eqn:Es; [|discriminate].
  destruct (pr_soft P) eqn:Esoft; [|discriminate]. cbn [andb].
  destruct (all_some (map (first_choice (table_provider u)) (pr_reqs P))) as [l|] eqn:El; [|discriminate].
  destruct (u_solvable_with u P l) eqn:Ew; [|discriminate].
  intro H. inversion H. subst l. split; [|split; [reflexivity|split]].
  - intros r Hr. rewrite forallb_forall in Es. specialize (Es r Hr).
    destruct r as [v|x]; [exists v; reflexivity | discriminate].
  - apply u_solvable_with_spec. exact Ew.
  - intros r f Hr Hf. eapply all_some_In; [exact El|]. rewrite <- Hf. apply in_map. exact Hr.
Qed.
