(* Spec/Ref.v -- the independent reference decision procedure for
   "some valid selection exists (containing a given set)", proven sound AND
   complete w.r.t. the Spec.  Exhaustive over all one-per-name selections of a
   finite solvable domain; no clauses, no search heuristics. *)
From Resolvo Require Export Spec.SpecDec.

Section Ref.
Variable U : provider.
Variable dom : list N.
(* solvables outside the domain cannot be installed (their dependencies are Unknown) *)
Hypothesis dom_complete : forall s, ~ In s dom -> p_deps U s = Unknown.

Notation name := (name U).

Definition names : list N := nodup N.eq_dec (map name dom).
Definition named (n : N) : list N := filter (fun s => N.eqb (name s) n) dom.

Fixpoint sels (ns : list N) : list (list N) :=
  match ns with
  | [] => [[]]
  | n :: ns' =>
    let rest := sels ns' in
    rest ++ flat_map (fun c => map (cons c) rest) (named n)
  end.

Definition solvable_with_ex (P : problem) (must ex : list N) : bool :=
  existsb (fun S => validb U P S ex && forallb (fun f => memN f S) must) (sels names).

Definition solvable_with (P : problem) (must : list N) : bool := solvable_with_ex P must [].

Definition solvableb (P : problem) : bool := solvable_with P [].

Lemma sels_complete ns S :
  one_per_name U S -> (forall s, In s S -> In s dom) ->
  exists S', In S' (sels ns) /\ forall x, In x S' <-> (In x S /\ In (name x) ns).
Proof.
  intros H1 Hdom. induction ns as [|n ns IH].
  - exists []. split; [left; reflexivity|]. intro x. simpl. tauto.
  - destruct IH as [S0 [HS0 Hx]].
    destruct (find (fun s => N.eqb (name s) n) S) as [s|] eqn:Ef.
    + apply find_some in Ef. destruct Ef as [HsS Hsn]. apply N.eqb_eq in Hsn.
      destruct (in_dec N.eq_dec n ns) as [Hin|Hnin].
      * (* n already covered: s is in S0 *)
        exists S0. split; [simpl; apply in_or_app; left; exact HS0|].
        intro x. rewrite Hx. simpl. split; [tauto|]. intros [Hx1 [E|Hx2]]; [|tauto].
        split; [exact Hx1|]. rewrite <- E. exact Hin.
      * exists (s :: S0). split.
        -- simpl. apply in_or_app. right. apply in_flat_map. exists s. split.
           ++ unfold named. apply filter_In. split; [apply Hdom; exact HsS|].
              apply N.eqb_eq. exact Hsn.
           ++ apply in_map. exact HS0.
        -- intro x. simpl. rewrite Hx. split.
           ++ intros [E|[Hx1 Hx2]]; [subst x; split; [exact HsS|left; symmetry; exact Hsn]|].
              split; [exact Hx1|right; exact Hx2].
           ++ intros [Hx1 [E|Hx2]]; [|right; split; assumption].
              left. apply H1; [exact HsS|exact Hx1|]. fold name. rewrite Hsn. exact E.
    + exists S0. split; [simpl; apply in_or_app; left; exact HS0|].
      intro x. rewrite Hx. simpl. split; [tauto|]. intros [Hx1 [E|Hx2]]; [|tauto].
      exfalso. pose proof (find_none _ _ Ef x Hx1) as Hn. simpl in Hn.
      apply N.eqb_neq in Hn. apply Hn. symmetry. exact E.
Qed.

Lemma valid_in_dom P S ex s : valid U P S ex -> In s S -> In s dom.
Proof.
  intros [_ [H _]] Hs. destruct (in_dec N.eq_dec s dom) as [Hd|Hd]; [exact Hd|].
  specialize (H s Hs). rewrite (dom_complete s Hd) in H. destruct H.
Qed.

Theorem solvable_with_ex_spec P must ex :
  solvable_with_ex P must ex = true <->
  exists S, valid U P S ex /\ forall f, In f must -> In f S.
Proof.
  unfold solvable_with_ex. rewrite existsb_exists. split.
  - intros [S [_ H]]. apply andb_true_iff in H. destruct H as [Hv Hm].
    exists S. split; [apply validb_spec; exact Hv|].
    intros f Hf. rewrite forallb_forall in Hm. apply memN_In. apply Hm. exact Hf.
  - intros [S [Hv Hm]].
    assert (Hdom : forall s, In s S -> In s dom) by (intros s; eapply valid_in_dom; eauto).
    destruct (sels_complete names S) as [S' [HS' Hx]]; [apply Hv | exact Hdom |].
    assert (Hsame : same_set S S').
    { intro x. rewrite Hx. split; [|tauto]. intro HxS. split; [exact HxS|].
      unfold names. apply nodup_In. apply in_map. apply Hdom. exact HxS. }
    exists S'. split; [exact HS'|]. apply andb_true_iff. split.
    + apply validb_spec. eapply valid_same_set; eauto.
    + apply forallb_forall. intros f Hf. apply memN_In. apply Hsame. apply Hm. exact Hf.
Qed.

(* the same under the documented, selection-dependent soft-requirement exemption *)
Definition solvable_with_soft (P : problem) (must : list N) : bool :=
  existsb (fun S => validb U P S (exempt U P S) && forallb (fun f => memN f S) must) (sels names).

Theorem solvable_with_soft_spec P must :
  solvable_with_soft P must = true <->
  exists S, valid U P S (exempt U P S) /\ forall f, In f must -> In f S.
Proof.
  unfold solvable_with_soft. rewrite existsb_exists. split.
  - intros [S [_ H]]. apply andb_true_iff in H. destruct H as [Hv Hm].
    exists S. split; [apply validb_spec; exact Hv|].
    intros f Hf. rewrite forallb_forall in Hm. apply memN_In. apply Hm. exact Hf.
  - intros [S [Hv Hm]].
    assert (Hdom : forall s, In s S -> In s dom) by (intros s; eapply valid_in_dom; eauto).
    destruct (sels_complete names S) as [S' [HS' Hx]]; [apply Hv | exact Hdom |].
    assert (Hsame : same_set S S').
    { intro x. rewrite Hx. split; [|tauto]. intro HxS. split; [exact HxS|].
      unfold names. apply nodup_In. apply in_map. apply Hdom. exact HxS. }
    exists S'. split; [exact HS'|]. apply andb_true_iff. split.
    + apply validb_spec. rewrite <- (exempt_same_set U P S S' Hsame). eapply valid_same_set; eauto.
    + apply forallb_forall. intros f Hf. apply memN_In. apply Hsame. apply Hm. exact Hf.
Qed.

Theorem solvable_with_spec P must :
  solvable_with P must = true <->
  exists S, valid U P S [] /\ forall f, In f must -> In f S.
Proof. apply solvable_with_ex_spec. Qed.

Theorem solvableb_correct P : solvableb P = true <-> solvable U P.
Proof.
  unfold solvableb, solvable. rewrite solvable_with_spec. split.
  - intros [S [H _]]. exists S. exact H.
  - intros [S H]. exists S. split; [exact H|]. intros f [].
Qed.

End Ref.

(* instantiation for table universes *)
Definition u_dom (u : universe) : list N :=
  map N.of_nat (seq 0 (length (u_sols u))).

Lemma u_dom_complete u s : ~ In s (u_dom u) -> p_deps (table_provider u) s = Unknown.
Proof.
  intro H. simpl. unfold u_sol, nthN.
  destruct (nth_error (u_sols u) (N.to_nat s)) as [x|] eqn:E; [|reflexivity].
  exfalso. apply H. unfold u_dom. apply in_map_iff. exists (N.to_nat s).
  split; [apply N2Nat.id|]. apply in_seq. split; [lia|].
  simpl. apply nth_error_Some. congruence.
Qed.

Definition u_solvable_with (u : universe) := solvable_with (table_provider u) (u_dom u).
Definition u_solvable_with_ex (u : universe) := solvable_with_ex (table_provider u) (u_dom u).
Definition u_solvableb (u : universe) := solvableb (table_provider u) (u_dom u).
Definition u_solvable_with_soft (u : universe) := solvable_with_soft (table_provider u) (u_dom u).

Theorem u_solvableb_correct u P :
  u_solvableb u P = true <-> solvable (table_provider u) P.
Proof. apply solvableb_correct. apply u_dom_complete. Qed.

Theorem u_solvable_with_spec u P must :
  u_solvable_with u P must = true <->
  exists S, valid (table_provider u) P S [] /\ forall f, In f must -> In f S.
Proof. apply solvable_with_spec. apply u_dom_complete. Qed.

Theorem u_solvable_with_ex_spec u P must ex :
  u_solvable_with_ex u P must ex = true <->
  exists S, valid (table_provider u) P S ex /\ forall f, In f must -> In f S.
Proof. apply solvable_with_ex_spec. apply u_dom_complete. Qed.

Theorem u_solvable_with_soft_spec u P must :
  u_solvable_with_soft u P must = true <->
  exists S, valid (table_provider u) P S (exempt (table_provider u) P S) /\ forall f, In f must -> In f S.
Proof. apply solvable_with_soft_spec. apply u_dom_complete. Qed.

