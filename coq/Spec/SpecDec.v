(* Spec/SpecDec.v -- executable versions of the Spec predicates with
   correctness lemmas.  These are the verified oracles run on implementation
   outputs. *)
From Resolvo Require Export Spec.Spec.

Section Dec.
Variable U : provider.

Notation name := (name U).
Notation matching := (matching U).
Notation nonmatching := (nonmatching U).
Notation req_vss := (req_vss U).

Definition req_metb (S : list N) (r : req) : bool :=
  existsb (fun v => existsb (fun s => memN s S) (matching v)) (req_vss r).

Definition con_okb (S : list N) (v : N) : bool :=
  forallb (fun s => negb (memN s (nonmatching v))) S.

Definition deps_okb (S : list N) (d : deps) : bool :=
  match d with
  | Unknown => false
  | Known rs cs => forallb (req_metb S) rs && forallb (con_okb S) cs
  end.

Definition pkg_okb (s : N) : bool :=
  negb (memN s (p_excluded U (name s))) &&
  match p_locked U (name s) with
  | Some l => if memN s (p_cands U (name s)) then N.eqb s l else true
  | None => true
  end.

Definition one_per_nameb (S : list N) : bool :=
  forallb (fun s => forallb (fun t => if N.eqb (name s) (name t) then N.eqb s t else true) S) S.

Definition validb (P : problem) (S ex : list N) : bool :=
  deps_okb S (Known (pr_reqs P) (pr_cons P)) &&
  forallb (fun s => deps_okb S (p_deps U s)) S &&
  forallb (fun s => memN s ex || pkg_okb s) S &&
  one_per_nameb S.

Lemma req_metb_spec S r : req_metb S r = true <-> req_met U S r.
Proof.
  unfold req_metb, req_met. rewrite existsb_exists. split.
  - intros [v [Hv H]]. apply existsb_exists in H. destruct H as [s [Hs Hm]].
    apply memN_In in Hm. exists v, s. auto.
  - intros [v [s [Hv [Hs Hm]]]]. exists v. split; [exact Hv|].
    apply existsb_exists. exists s. split; [exact Hs|]. apply memN_In. exact Hm.
Qed.

Lemma con_okb_spec S v : con_okb S v = true <-> con_ok U S v.
Proof.
  unfold con_okb, con_ok. rewrite forallb_forall. split.
  - intros H s Hs Hin. specialize (H s Hs). apply negb_true_iff in H.
    apply memN_false in H. contradiction.
  - intros H s Hs. apply negb_true_iff. apply memN_false. apply H. exact Hs.
Qed.

Lemma deps_okb_spec S d : deps_okb S d = true <-> deps_ok U S d.
Proof.
  destruct d as [rs cs|]; simpl.
  - rewrite andb_true_iff, !forallb_forall. split.
    + intros [H1 H2]. split; intros x Hx.
      * apply req_metb_spec. apply H1. exact Hx.
      * apply con_okb_spec. apply H2. exact Hx.
    + intros [H1 H2]. split; intros x Hx.
      * apply req_metb_spec. apply H1. exact Hx.
      * apply con_okb_spec. apply H2. exact Hx.
  - split; [discriminate | intros []].
Qed.

Lemma pkg_okb_spec s : pkg_okb s = true <-> pkg_ok U s.
Proof.
  unfold pkg_okb, pkg_ok. fold name. rewrite andb_true_iff, negb_true_iff, memN_false.
  split; intros [H1 H2]; (split; [exact H1|]).
  - intros l Hl Hin. rewrite Hl in H2. apply memN_In in Hin. rewrite Hin in H2.
    apply N.eqb_eq. exact H2.
  - destruct (p_locked U (name s)) as [l|] eqn:E; [|reflexivity].
    destruct (memN s (p_cands U (name s))) eqn:Em; [|reflexivity].
    apply N.eqb_eq. apply H2; [reflexivity|]. apply memN_In. exact Em.
Qed.

Lemma one_per_nameb_spec S : one_per_nameb S = true <-> one_per_name U S.
Proof.
  unfold one_per_nameb, one_per_name. rewrite forallb_forall. split.
  - intros H s t Hs Ht Hn. specialize (H s Hs). rewrite forallb_forall in H.
    specialize (H t Ht). fold name in Hn. rewrite Hn, N.eqb_refl in H. apply N.eqb_eq. exact H.
  - intros H s Hs. apply forallb_forall. intros t Ht.
    destruct (N.eqb (name s) (name t)) eqn:E; [|reflexivity].
    apply N.eqb_eq in E. apply N.eqb_eq. apply H; assumption.
Qed.

Theorem validb_spec P S ex : validb P S ex = true <-> valid U P S ex.
Proof.
  unfold validb, valid. rewrite !andb_true_iff, !forallb_forall.
  rewrite deps_okb_spec, one_per_nameb_spec. split.
  - intros [[[H1 H2] H3] H4]. split; [exact H1|]. split; [|split; [|exact H4]].
    + intros s Hs. apply deps_okb_spec. apply H2. exact Hs.
    + intros s Hs Hex. apply pkg_okb_spec. specialize (H3 s Hs). apply orb_true_iff in H3.
      destruct H3 as [H3|H3]; [|exact H3]. apply memN_In in H3. contradiction.
  - intros [H1 [H2 [H3 H4]]]. split; [split; [split; [exact H1|]|]|exact H4].
    + intros s Hs. apply deps_okb_spec. apply H2. exact Hs.
    + intros s Hs. apply orb_true_iff. destruct (memN s ex) eqn:E; [left; reflexivity|].
      right. apply pkg_okb_spec. apply H3; [exact Hs|]. apply memN_false. exact E.
Qed.

(* validity only depends on S and ex as sets *)
Lemma valid_same_set P S S' ex : same_set S S' -> valid U P S ex -> valid U P S' ex.
Proof.
  intros HS [H1 [H2 [H3 H4]]].
  assert (Hreq : forall r, req_met U S r -> req_met U S' r).
  { intros r [v [s [Hv [Hm Hs]]]]. exists v, s. repeat split; try assumption. apply HS. exact Hs. }
  assert (Hcon : forall v, con_ok U S v -> con_ok U S' v).
  { intros v H s Hs. apply H. apply HS. exact Hs. }
  assert (Hdeps : forall d, deps_ok U S d -> deps_ok U S' d).
  { intros [rs cs|]; simpl; [|tauto]. intros [A B]. split; intros x Hx; auto. }
  split; [apply Hdeps; exact H1|]. split; [|split].
  - intros s Hs. apply Hdeps. apply H2. apply HS. exact Hs.
  - intros s Hs. apply H3. apply HS. exact Hs.
  - intros s t Hs Ht. apply H4; apply HS; assumption.
Qed.

(* ---------- support (C05) ---------- *)

Definition cand_ofb (r : req) (s : N) : bool :=
  existsb (fun v => memN s (matching v)) (req_vss r).

Lemma cand_ofb_spec r s : cand_ofb r s = true <-> cand_of U r s.
Proof.
  unfold cand_ofb, cand_of. rewrite existsb_exists.
  split; intros [v [Hv H]]; exists v; (split; [exact Hv|]); apply memN_In; exact H.
Qed.

Definition dep_reqs (p : N) : list req :=
  match p_deps U p with Known rs _ => rs | Unknown => [] end.

Lemma req_of_some P p r : req_of U P (Some p) r <-> In r (dep_reqs p).
Proof.
  unfold req_of, dep_reqs. split.
  - intros [rs [cs [E H]]]. rewrite E. exact H.
  - destruct (p_deps U p) as [rs cs|]; [|intros []]. intro H. exists rs, cs. auto.
Qed.

Definition base_supp (P : problem) (s : N) : bool :=
  existsb (fun r => cand_ofb r s) (pr_reqs P) || memN s (pr_soft P).

Definition dep_supp (R : list N) (s : N) : bool :=
  existsb (fun p => existsb (fun r => cand_ofb r s) (dep_reqs p)) R.

Definition supp_step (P : problem) (S R : list N) : list N :=
  filter (fun s => memN s R || base_supp P s || dep_supp R s) S.

Fixpoint supp_iter (P : problem) (S : list N) (k : nat) : list N :=
  match k with
  | O => []
  | S k' => supp_step P S (supp_iter P S k')
  end.

Definition supp_set (P : problem) (S : list N) : list N := supp_iter P S (Datatypes.S (length S)).

Definition supportedb (P : problem) (S : list N) : bool :=
  forallb (fun s => memN s (supp_set P S)) S.

Lemma supp_iter_sound P S k s : In s (supp_iter P S k) -> Supp U P S s.
Proof.
  revert s. induction k as [|k IH]; intros s; simpl; [intros []|].
  unfold supp_step. rewrite filter_In. intros [HS H].
  apply orb_true_iff in H. destruct H as [H|H].
  - apply orb_true_iff in H. destruct H as [H|H].
    + apply IH. apply memN_In. exact H.
    + unfold base_supp in H. apply orb_true_iff in H. destruct H as [H|H].
      * apply existsb_exists in H. destruct H as [r [Hr Hc]].
        apply cand_ofb_spec in Hc. eapply supp_root; eauto.
      * apply memN_In in H. apply supp_soft; assumption.
  - unfold dep_supp in H. apply existsb_exists in H. destruct H as [p [Hp H]].
    apply existsb_exists in H. destruct H as [r [Hr Hc]].
    apply cand_ofb_spec in Hc. eapply supp_dep.
    + apply IH. exact Hp.
    + apply req_of_some. exact Hr.
    + exact Hc.
    + exact HS.
Qed.

(* monotone filters of one list with equal length are equal *)
Lemma filter_le_length (f g : N -> bool) l :
  (forall x, f x = true -> g x = true) -> (length (filter f l) <= length (filter g l))%nat.
Proof.
  intro H. induction l as [|x l IH]; simpl; [lia|].
  destruct (f x) eqn:Ef.
  - rewrite (H x Ef). simpl. lia.
  - destruct (g x); simpl; lia.
Qed.

Lemma filter_le_eq (f g : N -> bool) l :
  (forall x, f x = true -> g x = true) ->
  length (filter f l) = length (filter g l) -> filter f l = filter g l.
Proof.
  intro H. induction l as [|x l IH]; simpl; [reflexivity|].
  pose proof (filter_le_length f g l H) as Hle.
  destruct (f x) eqn:Ef.
  - rewrite (H x Ef). simpl. intro E. f_equal. apply IH. lia.
  - destruct (g x) eqn:Eg; simpl; intro E; [lia|]. apply IH. exact E.
Qed.

Definition supp_pred (P : problem) (R : list N) (s : N) : bool :=
  memN s R || base_supp P s || dep_supp R s.

Lemma dep_supp_mono R R' s : incl R R' -> dep_supp R s = true -> dep_supp R' s = true.
Proof.
  unfold dep_supp. intros Hi H. apply existsb_exists in H. destruct H as [p [Hp H]].
  apply existsb_exists. exists p. split; [apply Hi; exact Hp | exact H].
Qed.

Lemma supp_iter_filter P S k :
  supp_iter P S (Datatypes.S k) = filter (supp_pred P (supp_iter P S k)) S.
Proof. reflexivity. Qed.

Lemma supp_pred_mono P R R' x : incl R R' -> supp_pred P R x = true -> supp_pred P R' x = true.
Proof.
  unfold supp_pred. intros Hi H.
  apply orb_true_iff in H. destruct H as [H|H].
  - apply orb_true_iff in H. destruct H as [H|H].
    + apply orb_true_iff. left. apply orb_true_iff. left. apply memN_In. apply Hi.
      apply memN_In. exact H.
    + apply orb_true_iff. left. apply orb_true_iff. right. exact H.
  - apply orb_true_iff. right. eapply dep_supp_mono; eauto.
Qed.

Lemma supp_iter_mono P S k : incl (supp_iter P S k) (supp_iter P S (Datatypes.S k)).
Proof.
  induction k as [|k IH]; [intros x []|].
  intros x. rewrite (supp_iter_filter P S (Datatypes.S k)), (supp_iter_filter P S k).
  rewrite !filter_In. intros [HS H]. split; [exact HS|].
  eapply supp_pred_mono; [exact IH | exact H].
Qed.

(* either the iteration has reached a fixpoint by step k or it has >= k elements *)
Lemma supp_iter_progress P S k :
  supp_iter P S (Datatypes.S k) = supp_iter P S k \/
  (length (supp_iter P S (Datatypes.S k)) > length (supp_iter P S k))%nat.
Proof.
  destruct k as [|k].
  - simpl. destruct (supp_step P S []) eqn:E; [left; reflexivity | right; simpl; lia].
  - rewrite (supp_iter_filter P S (Datatypes.S k)), (supp_iter_filter P S k).
    pose proof (supp_iter_mono P S k) as Hm.
    pose proof (filter_le_length (supp_pred P (supp_iter P S k))
                  (supp_pred P (supp_iter P S (Datatypes.S k))) S
                  (fun x => supp_pred_mono P _ _ x Hm)) as Hle.
    destruct (Nat.eq_dec (length (filter (supp_pred P (supp_iter P S k)) S))
                (length (filter (supp_pred P (supp_iter P S (Datatypes.S k))) S))) as [E|E].
    + left. symmetry. apply filter_le_eq; [|exact E].
      intros x. apply supp_pred_mono. exact Hm.
    + right. rewrite <- (supp_iter_filter P S k) in *. lia.
Qed.

Lemma supp_iter_fix_stays P S k :
  supp_iter P S (Datatypes.S k) = supp_iter P S k ->
  forall j, supp_iter P S (j + k) = supp_iter P S k.
Proof.
  intros E j. induction j as [|j IH]; [reflexivity|].
  simpl. rewrite IH. exact E.
Qed.

Lemma filter_len_le (f : N -> bool) l : (length (filter f l) <= length l)%nat.
Proof. induction l as [|x l IH]; simpl; [lia|]. destruct (f x); simpl; lia. Qed.

Lemma supp_iter_len_bound P S k : (length (supp_iter P S k) <= length S)%nat.
Proof. destruct k; simpl; [lia|]. unfold supp_step. apply filter_len_le. Qed.

Lemma supp_iter_reaches_fix P S :
  exists k, (k <= length S)%nat /\ supp_iter P S (Datatypes.S k) = supp_iter P S k.
Proof.
  assert (H : forall k, (exists j, (j <= k)%nat /\
                supp_iter P S (Datatypes.S j) = supp_iter P S j) \/
              (length (supp_iter P S (Datatypes.S k)) > k)%nat).
  { induction k as [|k IH].
    - destruct (supp_iter_progress P S 0) as [E|E]; [left; exists O; split; [lia|exact E]|].
      right. simpl in *. lia.
    - destruct IH as [[j [Hj E]]|Hlen]; [left; exists j; split; [lia|exact E]|].
      destruct (supp_iter_progress P S (Datatypes.S k)) as [E|E].
      + left. exists (Datatypes.S k). split; [lia|exact E].
      + right. lia. }
  destruct (H (length S)) as [[j [Hj E]]|Hlen].
  - exists j. split; assumption.
  - pose proof (supp_iter_len_bound P S (Datatypes.S (length S))). lia.
Qed.

Lemma supp_set_fix P S : supp_step P S (supp_set P S) = supp_set P S.
Proof.
  destruct (supp_iter_reaches_fix P S) as [k [Hk E]].
  unfold supp_set.
  assert (E1 : supp_iter P S (Datatypes.S (length S)) = supp_iter P S k).
  { replace (Datatypes.S (length S)) with ((Datatypes.S (length S) - k) + k)%nat by lia.
    apply supp_iter_fix_stays. exact E. }
  rewrite E1. exact E.
Qed.

Lemma supp_set_complete P S s : Supp U P S s -> In s (supp_set P S).
Proof.
  intro H. induction H as [s r Hr Hc HS | s Hsoft HS | p s r Hp IH Hr Hc HS];
    rewrite <- supp_set_fix; unfold supp_step; apply filter_In; (split; [exact HS|]).
  - apply orb_true_iff. left. apply orb_true_iff. right. unfold base_supp.
    apply orb_true_iff. left. apply existsb_exists. exists r. split; [exact Hr|].
    apply cand_ofb_spec. exact Hc.
  - apply orb_true_iff. left. apply orb_true_iff. right. unfold base_supp.
    apply orb_true_iff. right. apply memN_In. exact Hsoft.
  - apply orb_true_iff. right. unfold dep_supp. apply existsb_exists. exists p.
    split; [exact IH|]. apply existsb_exists. exists r. split.
    + apply req_of_some in Hr. exact Hr.
    + apply cand_ofb_spec. exact Hc.
Qed.

Theorem supportedb_spec P S : supportedb P S = true <-> supported U P S.
Proof.
  unfold supportedb, supported. rewrite forallb_forall. split.
  - intros H s Hs. specialize (H s Hs). apply memN_In in H.
    eapply supp_iter_sound. exact H.
  - intros H s Hs. apply memN_In. apply supp_set_complete. apply H. exact Hs.
Qed.

(* ---------- greedy (C07) ---------- *)

Definition first_choiceb_ok (G : list N) (r : req) : bool :=
  match first_choice U r with
  | Some f => memN f G && forallb (fun s => if cand_ofb r s then N.eqb s f else true) G
  | None => false
  end.

Definition all_reqs_list (P : problem) (G : list N) : list req :=
  pr_reqs P ++ flat_map dep_reqs G.

Definition greedy_okb (P : problem) (G : list N) : bool :=
  validb P G [] &&
  supportedb (mkProblem (pr_reqs P) (pr_cons P) []) G &&
  forallb (first_choiceb_ok G) (all_reqs_list P G).

Lemma all_reqs_list_spec P G r : In r (all_reqs_list P G) <-> all_reqs U P G r.
Proof.
  unfold all_reqs_list, all_reqs. rewrite in_app_iff, in_flat_map. split.
  - intros [H|[g [Hg H]]]; [left; exact H|]. right. exists g. split; [exact Hg|].
    apply req_of_some. exact H.
  - intros [H|[g [Hg H]]]; [left; exact H|]. right. exists g. split; [exact Hg|].
    apply req_of_some in H. exact H.
Qed.

Theorem greedy_okb_spec P G : greedy_okb P G = true <-> greedy_ok U P G.
Proof.
  unfold greedy_okb, greedy_ok. rewrite !andb_true_iff, validb_spec, supportedb_spec,
    forallb_forall. split.
  - intros [[H1 H2] H3]. split; [exact H1|]. split; [exact H2|].
    intros r Hr. apply all_reqs_list_spec in Hr. specialize (H3 r Hr).
    unfold first_choiceb_ok in H3. destruct (first_choice U r) as [f|]; [|discriminate].
    apply andb_true_iff in H3. destruct H3 as [Hf Hall]. exists f.
    split; [reflexivity|]. split; [apply memN_In; exact Hf|].
    intros s Hs Hc. rewrite forallb_forall in Hall. specialize (Hall s Hs).
    apply cand_ofb_spec in Hc. rewrite Hc in Hall. apply N.eqb_eq. exact Hall.
  - intros [H1 [H2 H3]]. split; [split; [exact H1|exact H2]|].
    intros r Hr. apply all_reqs_list_spec in Hr. destruct (H3 r Hr) as [f [Ef [Hf Hall]]].
    unfold first_choiceb_ok. rewrite Ef. apply andb_true_iff. split; [apply memN_In; exact Hf|].
    apply forallb_forall. intros s Hs. destruct (cand_ofb r s) eqn:Ec; [|reflexivity].
    apply N.eqb_eq. apply Hall; [exact Hs|]. apply cand_ofb_spec. exact Ec.
Qed.

(* candidate greedy closure: worklist with fuel; only its output is trusted
   through [greedy_okb] *)
Fixpoint greedy_close (fuel : nat) (work : list req) (G : list N) : option (list N) :=
  match fuel with
  | O => None
  | Datatypes.S fuel' =>
    match work with
    | [] => Some G
    | r :: w =>
      match first_choice U r with
      | None => None
      | Some f => if memN f G then greedy_close fuel' w G
                  else greedy_close fuel' (w ++ dep_reqs f) (G ++ [f])
      end
    end
  end.

Definition greedy (fuel : nat) (P : problem) : option (list N) :=
  match greedy_close fuel (pr_reqs P) [] with
  | Some G => if greedy_okb P G then Some G else None
  | None => None
  end.

Theorem greedy_sound fuel P G : greedy fuel P = Some G -> greedy_ok U P G.
Proof.
  unfold greedy. destruct (greedy_close fuel (pr_reqs P) []) as [G'|]; [|discriminate].
  destruct (greedy_okb P G') eqn:E; [|discriminate]. intro H. inversion H. subst.
  apply greedy_okb_spec. exact E.
Qed.

End Dec.

(* the documented soft-requirement exemption (Solver::solve): an accepted soft solvable is not
   subject to the lock / exclusion list of its own package UNLESS that package is requested
   through a version set (requirement or constrains entry) of the root or of another selected
   solvable *)
Definition dep_names (U : provider) (d : deps) : list N :=
  match d with
  | Known rs cs => map (p_vs_name U) (flat_map (req_vss U) rs ++ cs)
  | Unknown => []
  end.

Definition pkg_requested (U : provider) (P : problem) (S : list N) (s : N) : bool :=
  memN (p_sol_name U s) (dep_names U (Known (pr_reqs P) (pr_cons P))) ||
  existsb (fun t => negb (N.eqb t s) && memN (p_sol_name U s) (dep_names U (p_deps U t))) S.

Definition exempt (U : provider) (P : problem) (S : list N) : list N :=
  filter (fun s => memN s S && negb (pkg_requested U P S s)) (pr_soft P).

Lemma bool_eq_iff (a b : bool) : (a = true <-> b = true) -> a = b.
Proof. destruct a, b; intros [H1 H2]; try reflexivity; [symmetry; apply H1; reflexivity | apply H2; reflexivity]. Qed.

Lemma exempt_same_set U P A B : same_set A B -> exempt U P A = exempt U P B.
Proof.
  intro H. unfold exempt. apply filter_ext. intro s. f_equal.
  - apply bool_eq_iff. rewrite !memN_In. apply H.
  - f_equal. unfold pkg_requested. f_equal. apply bool_eq_iff. rewrite !existsb_exists.
    split; intros [t [Ht E]]; exists t; (split; [apply H; exact Ht | exact E]).
Qed.

