(* Spec/Spec.v -- THE READABLE SPEC.  One definition per property statement.
   Nothing here mentions clauses, trails or the solver. *)
From Resolvo Require Export Base.Provider.

Section Spec.
Variable U : provider.

Definition name := p_sol_name U.

(* version sets of a requirement, in listed order *)
Definition req_vss (r : req) : list N :=
  match r with RSingle v => [v] | RUnion u => p_union U u end.

(* candidates as listed by get_candidates and filtered by filter_candidates *)
Definition matching (v : N) : list N :=
  filter (p_match U v) (p_cands U (p_vs_name U v)).
Definition nonmatching (v : N) : list N :=
  filter (fun s => negb (p_match U v s)) (p_cands U (p_vs_name U v)).

(* a requirement is met by a selected candidate of any member *)
Definition req_met (S : list N) (r : req) : Prop :=
  exists v s, In v (req_vss r) /\ In s (matching v) /\ In s S.

(* a constrains entry / root constraint forbids the non-matching candidates *)
Definition con_ok (S : list N) (v : N) : Prop :=
  forall s, In s S -> ~ In s (nonmatching v).

Definition deps_ok (S : list N) (d : deps) : Prop :=
  match d with
  | Unknown => False
  | Known rs cs => (forall r, In r rs -> req_met S r) /\ (forall v, In v cs -> con_ok S v)
  end.

(* the package-level rules of a solvable's own package: exclusion list and lock *)
Definition pkg_ok (s : N) : Prop :=
  ~ In s (p_excluded U (name s)) /\
  (forall l, p_locked U (name s) = Some l -> In s (p_cands U (name s)) -> s = l).

Definition one_per_name (S : list N) : Prop :=
  forall s t, In s S -> In t S -> name s = name t -> s = t.

(* C01: what it means for a selection [S] to be a solution of problem [P];
   [ex] is the set of solvables enjoying the documented soft-requirement
   exemption from their own package's lock/exclusion list -- and from nothing
   else.  Which solvables that is depends on the selection: SpecDec.exempt
   (accepted soft requirements whose package is not requested through a version
   set by the root or by another selected solvable). *)
Definition valid (P : problem) (S ex : list N) : Prop :=
  deps_ok S (Known (pr_reqs P) (pr_cons P)) /\
  (forall s, In s S -> deps_ok S (p_deps U s)) /\
  (forall s, In s S -> ~ In s ex -> pkg_ok s) /\
  one_per_name S.

(* C02: solvability of the hard problem *)
Definition solvable (P : problem) : Prop := exists S, valid P S [].

(* C05: support.  [Supp P S s]: s is reachable from the root requirements (or
   is an accepted soft requirement) through requirement edges whose satisfying
   candidate is in S. *)
Definition req_of (P : problem) (parent : option N) (r : req) : Prop :=
  match parent with
  | None => In r (pr_reqs P)
  | Some p => exists rs cs, p_deps U p = Known rs cs /\ In r rs
  end.

Definition cand_of (r : req) (s : N) : Prop :=
  exists v, In v (req_vss r) /\ In s (matching v).

Inductive Supp (P : problem) (S : list N) : N -> Prop :=
| supp_root s r : In r (pr_reqs P) -> cand_of r s -> In s S -> Supp P S s
| supp_soft s : In s (pr_soft P) -> In s S -> Supp P S s
| supp_dep p s r : Supp P S p -> req_of P (Some p) r -> cand_of r s -> In s S -> Supp P S s.

Definition supported (P : problem) (S : list N) : Prop := forall s, In s S -> Supp P S s.

(* C07: ranking and the greedy selection.
   sorted candidates of a version set = provider sort of the matching ones, the
   favored candidate of the package moved to the front. *)
(* remove the first occurrence of [f]; [None] if absent
   (= [position] + [rotate_right(1)] on the prefix in cache.rs) *)
Fixpoint take_out (f : N) (l : list N) : option (list N) :=
  match l with
  | [] => None
  | x :: t => if N.eqb x f then Some t
              else match take_out f t with Some r => Some (x :: r) | None => None end
  end.

Definition favor (f : option N) (m : list N) : list N :=
  match f with
  | Some f => match take_out f m with Some r => f :: r | None => m end
  | None => m
  end.

Definition sorted_cands (v : N) : list N :=
  favor (p_favored U (p_vs_name U v)) (p_sort U (matching v)).

(* candidates of a requirement in decision order: member by member *)
Definition req_cands (r : req) : list N := flat_map sorted_cands (req_vss r).

Definition first_choice (r : req) : option N := hd_error (req_cands r).

(* [G] is a greedy selection: closed under "first choice of every requirement
   of the root and of members", consistent, and every requirement is met only
   by its own first choice *)
Definition all_reqs (P : problem) (G : list N) (r : req) : Prop :=
  In r (pr_reqs P) \/ exists g, In g G /\ req_of P (Some g) r.

Definition greedy_ok (P : problem) (G : list N) : Prop :=
  valid P G [] /\
  supported (mkProblem (pr_reqs P) (pr_cons P) []) G /\
  (forall r, all_reqs P G r ->
     exists f, first_choice r = Some f /\ In f G /\
               forall s, In s G -> cand_of r s -> s = f).

(* C08: first-ranked candidates of single-package root requirements *)
Definition root_singles (P : problem) : Prop :=
  forall r, In r (pr_reqs P) -> exists v, r = RSingle v.

Definition has_root_firsts (P : problem) (S : list N) : Prop :=
  forall r f, In r (pr_reqs P) -> first_choice r = Some f -> In f S.

End Spec.

Definition same_set (A B : list N) : Prop := forall x, In x A <-> In x B.
