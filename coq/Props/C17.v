(* C17 -- the ref-counted copy-on-write Vector / String shared between Rust and C++:
   protocol-level safety and copy-on-write correctness for every operation sequence.
   (Partial by construction: real memory, layout and atomics are outside the model and are
   exercised under sanitizers by tools/props/c17.py.) *)
From Coq Require Import List NArith ZArith.
From Resolvo Require Import Data.CowVector.
Import ListNotations.
Open Scope N_scope.

(* the heap invariant holds after any sequence of operations from either side *)
Theorem C17_reachable_inv : forall ops, Inv (final ops).
Proof. exact reachable_inv. Qed.

(* refcount of every live non-static block = number of live handles pointing to it, and > 0 *)
Theorem C17_refcount_exact : forall ops id b,
  lookup id (heap (final ops)) = Some b -> id <> 0 ->
  rc b = Z.of_nat (hcount (vars (final ops)) id) /\ (0 < rc b)%Z.
Proof. exact refcount_exact. Qed.

(* the static empty block (refcount -1) is never written and never freed *)
Theorem C17_static_untouched : forall ops,
  lookup 0 (heap (final ops)) = Some static_block /\ ~ In 0 (freed (final ops)).
Proof. exact static_untouched. Qed.

(* no double free *)
Theorem C17_no_double_free : forall ops, NoDup (freed (final ops)).
Proof. exact no_double_free. Qed.

(* no dangling handle: a live handle points to an allocated block that has not been freed *)
Theorem C17_no_dangling : forall ops x id, lookup x (vars (final ops)) = Some id ->
  (exists b, lookup id (heap (final ops)) = Some b) /\ ~ In id (freed (final ops)).
Proof. exact no_dangling. Qed.

(* a freed block has no handle left *)
Theorem C17_freed_unreferenced : forall ops id, In id (freed (final ops)) ->
  hcount (vars (final ops)) id = 0%nat /\ lookup id (heap (final ops)) = None.
Proof. exact freed_unreferenced. Qed.

(* a block is freed only by the release that takes its refcount from 1 to 0 *)
Theorem C17_release_frees_last_only : forall s id j, In j (freed (release s id)) ->
  In j (freed s) \/ (j = id /\ exists b, lookup id (heap s) = Some b /\ rc b = 1%Z).
Proof. exact release_frees_last_only. Qed.

(* size = number of elements <= capacity, for every allocated block *)
Theorem C17_size_le_cap : forall ops id b, lookup id (heap (final ops)) = Some b ->
  bsize b = N.of_nat (length (bdata b)) /\ bsize b <= bcap b.
Proof. exact size_le_cap. Qed.

(* every block ever allocated is still allocated or has been freed, never both *)
Theorem C17_allocated_live_xor_freed : forall ops id, 0 < id -> id < next (final ops) ->
  (lookup id (heap (final ops)) <> None /\ ~ In id (freed (final ops))) \/
  (lookup id (heap (final ops)) = None /\ In id (freed (final ops))).
Proof. exact allocated_live_xor_freed. Qed.

(* no leak: when all handles have been dropped every allocated block has been freed *)
Theorem C17_no_leak : forall ops, vars (final ops) = [] ->
  heap (final ops) = [(0, static_block)] /\ live (final ops) = 0 /\
  forall id, 0 < id -> id < next (final ops) -> In id (freed (final ops)).
Proof. exact no_leak. Qed.

(* one operation preserves the invariant and simulates the abstract machine in which every
   handle is an independent list; it is rejected exactly when it is ill-formed there *)
Theorem C17_exec_refines : forall s d o, Inv s -> R s d ->
  match exec s o, astep d o with
  | Some s', Some d' => Inv s' /\ R s' d'
  | None, None => True
  | _, _ => False
  end.
Proof. exact exec_refines. Qed.

(* copy-on-write correctness for every operation sequence *)
Theorem C17_cow_refinement : forall ops z, denote (final ops) z = arun_from aempty ops z.
Proof. exact cow_refinement. Qed.

(* in the abstract machine an operation changes its target (both operands for a swap) only:
   together with C17_cow_refinement, a push/clear/set through one handle never changes what
   another handle reads *)
Theorem C17_astep_frame : forall d o d' z, astep d o = Some d' -> z <> target o ->
  (forall y, o <> VSwap z y) -> (forall x, o <> VSwap x z) -> d' z = d z.
Proof. exact astep_frame. Qed.

(* reading through a live handle returns exactly the list it denotes and changes nothing *)
Theorem C17_read_denotes : forall s x l, denote s x = Some l ->
  o_ok (snd (step s (VRead x))) = true /\ o_data (snd (step s (VRead x))) = l /\
  fst (step s (VRead x)) = s.
Proof. exact read_denotes. Qed.

(* String: bytes + NUL in the vector, as_str returns the bytes *)
Theorem C17_string_from_read : forall s x bytes, Inv s -> lookup x (vars s) = None ->
  let s' := fst (step s (SFrom x bytes)) in
  Inv s' /\ denote s' x = Some (bytes ++ [0]) /\
  o_data (snd (step s' (SRead x))) = bytes /\ o_size (snd (step s' (SRead x))) = N.of_nat (length bytes).
Proof. exact string_from_read. Qed.

(* non-vacuity: sharing, detach on push from both sides (Rust growth 4, C++ growth size+1),
   lazy from_iter growth 0 -> 4 -> 8, in-place write, clear, copy/move assignment, a String,
   everything dropped: six blocks allocated, six freed, none live *)
Example C17_nonvacuous :
  let ops := [VDefault 0; VPush Rust 4 0 7; VClone 0 1; VPush Cpp 4 1 8; VFromIterLazy 2 4 [1; 2; 3; 4; 5];
              VSet 0 0 9; VClear 1; VCopyAssign 1 2; VSwap 0 2; SFrom 3 [104; 105];
              VDrop 0; VDrop 1; VDrop 2; VDrop 3] in
  map o_live (vrun ops) = [0; 1; 1; 2; 3; 3; 3; 2; 2; 3; 3; 2; 1; 0] /\
  map o_cap (vrun ops) = [0; 4; 4; 2; 8; 4; 2; 8; 8; 3; 0; 0; 0; 0] /\
  vars (final ops) = [] /\ next (final ops) = 7 /\ length (freed (final ops)) = 6%nat.
Proof. vm_compute. repeat split; reflexivity. Qed.

(* finding: String::operator=(const String&) of resolvo_string.h as written (drop, then clone,
   no self-assignment guard) leaves a self-assigned String pointing to a freed block *)
Example C17_string_self_assign_as_written_refuted :
  let s := final [SFrom 0 [97; 98; 99]] in
  let r := string_copy_assign_as_written s 0 0 in
  snd r = true /\ lookup 0 (vars (fst r)) = Some 1 /\ In 1 (freed (fst r)) /\
  fst (step s (VCopyAssign 0 0)) = s.
Proof. exact string_self_assign_as_written_refuted. Qed.
