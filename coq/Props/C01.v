(* C01 -- every returned solution satisfies all rules.
   ONLY theorem statements closed by [exact]; proofs live elsewhere. *)
From Resolvo Require Import Spec.Oracle Cdcl.CheckRun.

(* the verified oracle run on every solution the implementation returns *)
Theorem C01_oracle_correct : forall u P S,
  o_valid u P S = true <-> valid (table_provider u) P S (exempt P S).
Proof. exact o_valid_spec. Qed.
Check C01_oracle_correct : forall u P S,
  o_valid u P S = true <-> valid (table_provider u) P S (exempt P S).

(* E2, for every provider, problem, clause database and total assignment: a model
   of a closed clause database (up to package-level clauses of exempt solvables)
   selects a valid set *)
Theorem C01_closed_model_valid : forall U P, WF U -> forall db a S ex,
  (forall c, In c db -> sat_or_exempt U a ex c = true) ->
  (forall s, In s S <-> a (VSol s) = true) ->
  a VRoot = true -> closedb U P db S ex = true -> valid U P S ex.
Proof. exact E2. Qed.

(* every final state the machine may announce as Ok(solution) is valid *)
Theorem C01_final_state_valid : forall U P, WF U -> forall db tr sol,
  check_sat_lenient U P db tr sol = true ->
  sol = rev (sel_of tr) /\ valid U P (sel_of tr) (exempt P (sel_of tr)).
Proof. exact check_sat_lenient_sound. Qed.

(* trace inclusion: if the checker accepts the implementation's log (clause dump,
   trail events, reported solution) then the reported solution is valid *)
Theorem C01_trace_sound : forall u P lg sol,
  check_sat_log_lenient u P lg sol = true -> valid (table_provider u) P sol (exempt P sol).
Proof. exact sat_log_valid. Qed.
Check C01_trace_sound : forall u P lg sol,
  check_sat_log_lenient u P lg sol = true -> valid (table_provider u) P sol (exempt P sol).
