(* C01 -- every returned solution satisfies all rules.
   ONLY theorem statements closed by [exact]; proofs live elsewhere. *)
From Resolvo Require Import Spec.Oracle Cdcl.CheckRun.

(* the verified oracle run on every solution the implementation returns *)
Theorem C01_oracle_correct : forall u P S,
  o_valid u P S = true <-> valid (table_provider u) P S (exempt (table_provider u) P S).
Proof. exact o_valid_spec. Qed.
Check C01_oracle_correct : forall u P S,
  o_valid u P S = true <-> valid (table_provider u) P S (exempt (table_provider u) P S).

(* E2, for every provider, problem, clause database and total assignment: a model
   of a closed clause database (up to package-level clauses of exempt solvables)
   selects a valid set *)
Theorem C01_closed_model_valid : forall U P, WF U -> forall db a S ex,
  (forall c, In c db -> sat_or_exempt U a ex c = true) ->
  (forall s, In s S <-> a (VSol s) = true) ->
  a VRoot = true -> closedb U P db S ex = true -> valid U P S ex.
Proof. exact E2. Qed.

(* every final state the machine may announce as Ok(solution) is valid *)
Theorem C01_final_state_valid : forall U P, WF U -> forall db tr sol,
  check_sat_lenient U P db tr sol = true ->
  sol = rev (sel_of tr) /\ valid U P (sel_of tr) (exempt U P (sel_of tr)).
Proof. exact check_sat_lenient_sound. Qed.

(* trace inclusion: if the checker accepts the implementation's log (clause dump,
   trail events, reported solution) then the reported solution is valid *)
Theorem C01_trace_sound : forall u P lg sol,
  check_sat_log_lenient u P lg sol = true -> valid (table_provider u) P sol (exempt (table_provider u) P sol).
Proof. exact sat_log_valid. Qed.
Check C01_trace_sound : forall u P lg sol,
  check_sat_log_lenient u P lg sol = true -> valid (table_provider u) P sol (exempt (table_provider u) P sol).

(* ---- the encoder model (Async/Encoder.v, tied to encoding.rs + cache.rs by
   clause-for-clause and call-for-call equality on every synchronous run) ---- *)
From Resolvo Require Import Async.EncoderClosed.

(* completeness of the encoder, for every provider, problem, cache contents,
   trail history, sequence of encode requests and completion order of its
   futures: once nothing is pending, everything queued is completely encoded *)
Theorem C01_encoder_complete : forall U P c evs st,
  enc_run U P (estate0 c) [] [] evs = Some (st, []) ->
  (forall so, In so (e_sols st) -> deps_done U P st [] so) /\ (forall n, In n (e_pkgs st) -> pkg_done U st n).
Proof. exact enc_complete. Qed.

(* hence an assignment that satisfies the encoder's clauses and selects only
   encoded solvables, one per package, is a valid solution *)
Theorem C01_encoder_model_valid : forall U P, WF U -> forall c evs st a S ex,
  enc_run U P (estate0 c) [] [] evs = Some (st, []) ->
  (forall x, In x (e_db st) -> sat_or_exempt U a ex x = true) ->
  (forall s, In s S <-> a (VSol s) = true) -> a VRoot = true ->
  In None (e_sols st) ->
  (forall s, In s S -> In (Some s) (e_sols st)) ->
  (forall s, In s S -> In s ex \/ In (p_sol_name U s) (e_pkgs st)) ->
  one_per_nameb U S = true ->
  valid U P S ex.
Proof. exact enc_valid. Qed.

(* the boolean evaluated on every run that returned a solution *)
Theorem C01_encoder_final_closed : forall U P c evs st S ex,
  enc_run U P (estate0 c) [] [] evs = Some (st, []) ->
  enc_final_ok U st S ex = true -> one_per_nameb U S = true ->
  closedb U P (e_db st) S ex = true.
Proof. exact enc_final_closed. Qed.

(* ---- what the encoder does with a clause besides storing it (Async/EncoderWatch.v: model of the
   clause constructors of clause.rs and their call sites in encoding.rs; the reported conflicts and the
   registered assertions of every run must equal the model's) ---- *)
From Resolvo Require Import Async.EncoderWatch.

(* no clause goes onto the watch lists with both watched literals false unless it is reported as
   conflicting: a clause that is neither watched usefully nor reported can be violated by the final
   assignment without anybody noticing (F15: Lock clauses, before fix 9d91e23) *)
Theorem C01_watch_created_ok : forall tr c w1 w2,
  w_watch (create tr c) = Some (w1, w2) -> w_conflict (create tr c) = false -> forbid_side tr c = true ->
  lit_false_in tr w1 = false \/ lit_false_in tr w2 = false.
Proof. exact watch_created_ok. Qed.

(* every clause of the encoder that has no watches is registered as an assertion *)
Theorem C01_unit_is_asserted : forall tr c,
  w_watch (create tr c) = None ->
  match ck c with
  | KRequires _ _ _ | KConstrains _ _ _ | KLock _ _ | KExcluded _ _ => w_assert (create tr c) <> None
  | _ => True
  end.
Proof. exact unit_is_asserted. Qed.

(* a lock clause whose other candidate is already installed is reported and stays asserted *)
Theorem C01_late_lock_is_handled : forall tr l o lits,
  is_true_in tr (VSol o) = true ->
  let w := create tr (mkCl (KLock l o) lits) in w_conflict w = true /\ w_assert w = Some (VSol o).
Proof. exact late_lock_is_handled. Qed.

(* ---- when Solver::decide (model: Cdcl/Decide.v, compared with the
   implementation at every call) proposes nothing, the search is over for a
   reason: every requirement of every installed solvable has an installed
   candidate (or no candidate at all, in which case its clause is an assertion) ---- *)
From Resolvo Require Import Cdcl.DecideProofs.

Theorem C01_decide_complete : forall U act_ge pa db,
  (forall c, In c db -> req_wf U c = true) ->
  decide U act_ge db pa = Some None ->
  forall c p r cands, In c db -> ck c = KRequires p r cands -> lit_istrue pa (p, true) = true ->
  concat cands = [] \/ exists x, In x (concat cands) /\ pval pa (VSol x) = Some true.
Proof. exact decide_complete. Qed.

(* prop_complete, evaluated at every call of decide in every hook log: every
   assertion of the database (exclusion, Unknown dependencies, requirement
   without candidates, unit learnt clause) is in force whenever the solver
   branches *)
From Resolvo Require Import Cdcl.PropComplete.

Theorem C01_complete_units_hold : forall db pa c l,
  prop_complete db pa = true -> In c db -> cl_lits c = [l] -> lit_istrue pa l = true.
Proof. exact complete_units_hold. Qed.

(* ---- the solver model as a whole loses no clause (Cdcl/SolverComplete.v): the invariant of
   C05_propagate_complete is carried through the whole loop nest of the model of Solver::solve --
   decisions, propagation with either outcome, conflict analysis with backjump, rejected soft
   requirements, restarts, lazily added clauses -- for every well-formed provider, problem,
   fuel, activity function and completion order ---- *)
From Resolvo Require Import Cdcl.SolverComplete.

Theorem C01_solver_model_complete : forall U P, WF U -> forall A a_ge a_conflict fuel efuel (a0 : A) order sol st,
  solve U P a_ge a_conflict fuel efuel a0 order = (OSat sol, st) ->
  CInv A st /\ (pr_soft P = [] -> Done A st).
Proof. exact solve_complete. Qed.

(* hence: when the model answers with a solution for a problem without soft requirements, the trail
   the solution is read from falsifies no watched clause -- outside the ghost set s_born (clauses that
   started being watched with both watched literals false after the last restart), which the whole-run
   correspondence reports for every run and which must be empty there -- and makes every registered
   assertion true *)
Theorem C01_solver_model_loses_no_clause : forall U P, WF U -> forall A a_ge a_conflict fuel efuel (a0 : A) order sol st,
  solve U P a_ge a_conflict fuel efuel a0 order = (OSat sol, st) -> pr_soft P = [] ->
  (forall id w, wget (ps_watch (s_ps st)) id = Some w -> ~ In id (s_born st) ->
     exists c, nth_error (s_db st) (N.to_nat id) = Some c /\ falsified (ps_trail (s_ps st)) (cl_lits c) = false) /\
  (forall x, In x (s_asserts st ++ s_units st) -> plit_true (s_ps st) (fst x) = true).
Proof. exact solve_sat_loses_no_clause. Qed.

(* ---- and the exempt set is empty (Cdcl/SolverRegistered.v): a candidate is installed, and a helper
   variable of an at-most-one encoding is assigned, only after the encoder has registered it (RInv: every
   literal on the trail and in the database is on a registered candidate / an existing helper bit, through
   decisions, propagation, learnt clauses and lazily added clauses); so a new at-most-one clause never has
   both literals false, a clause that starts being watched with both watched literals false has been
   reported as a conflict, and for a problem without soft requirements every such report ends in a restart
   before the model can answer with a solution ---- *)
From Resolvo Require Import Cdcl.SolverRegistered.

Theorem C01_solver_model_born_empty : forall U P, WF U -> forall A a_ge a_conflict fuel efuel (a0 : A) order sol st,
  solve U P a_ge a_conflict fuel efuel a0 order = (OSat sol, st) -> pr_soft P = [] -> s_born st = [].
Proof. exact solve_sat_born_empty. Qed.

(* with no exemption left: the model's solution of a problem without soft requirements is read from a
   trail that falsifies no watched clause and makes every registered assertion true *)
Theorem C01_solver_model_no_clause_lost : forall U P, WF U -> forall A a_ge a_conflict fuel efuel (a0 : A) order sol st,
  solve U P a_ge a_conflict fuel efuel a0 order = (OSat sol, st) -> pr_soft P = [] ->
  (forall id w, wget (ps_watch (s_ps st)) id = Some w ->
     exists c, nth_error (s_db st) (N.to_nat id) = Some c /\ falsified (ps_trail (s_ps st)) (cl_lits c) = false) /\
  (forall x, In x (s_asserts st ++ s_units st) -> plit_true (s_ps st) (fst x) = true).
Proof. exact solve_sat_no_clause_lost. Qed.

(* ... and nothing is left to decide there: decide proposes nothing on the final state, every installed
   solvable has been handed to the encoder, and every Requires clause of the database whose parent is
   installed has an installed candidate (or no candidate at all, in which case it is an assertion) *)
Theorem C01_solver_model_decided : forall U P, WF U -> forall A a_ge a_conflict fuel efuel (a0 : A) order sol st,
  solve U P a_ge a_conflict fuel efuel a0 order = (OSat sol, st) -> pr_soft P = [] ->
  Decided U A a_ge st /\
  forall c p r cands, In c (s_db st) -> ck c = KRequires p r cands -> lit_istrue (tr_lits st) (p, true) = true ->
    concat cands = [] \/ exists x, In x (concat cands) /\ pval (tr_lits st) (VSol x) = Some true.
Proof. exact solve_sat_decided. Qed.

(* every clause of the model's database is looked after -- watched, registered as an assertion / unit on a
   literal it consists of, or the root clause (Cdcl/SolverCover.v) -- so the statement covers the whole
   database: the trail a solution of a problem without soft requirements is read from falsifies NO clause *)
From Resolvo Require Import Cdcl.SolverCover.
Theorem C01_solver_model_no_clause_falsified : forall U P, WF U -> forall A a_ge a_conflict fuel efuel (a0 : A) order sol st,
  solve U P a_ge a_conflict fuel efuel a0 order = (OSat sol, st) -> pr_soft P = [] ->
  forall id c, nth_error (s_db st) (N.to_nat id) = Some c -> falsified (ps_trail (s_ps st)) (cl_lits c) = false.
Proof. exact solve_sat_no_clause_falsified. Qed.
