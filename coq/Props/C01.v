(* C01 -- every returned solution satisfies all rules.
   ONLY theorem statements closed by [exact]; proofs live elsewhere. *)
From Resolvo Require Import Spec.Oracle Cdcl.CheckRun.

(* the verified oracle run on every solution the implementation returns *)
Theorem C01_oracle_correct : forall u P S,
  o_valid u P S = true <-> valid (table_provider u) P S (exempt (table_provider u) P S).
Proof. exact o_valid_spec. Qed.
Check C01_oracle_correct : forall u P S,
  o_valid u P S = true <-> valid (table_provider u) P S (exempt (table_provider u) P S).

(* E2, for every provider, problem, clause database and total assignment: a model
   of a closed clause database (up to package-level clauses of exempt solvables)
   selects a valid set *)
Theorem C01_closed_model_valid : forall U P, WF U -> forall db a S ex,
  (forall c, In c db -> sat_or_exempt U a ex c = true) ->
  (forall s, In s S <-> a (VSol s) = true) ->
  a VRoot = true -> closedb U P db S ex = true -> valid U P S ex.
Proof. exact E2. Qed.

(* every final state the machine may announce as Ok(solution) is valid *)
Theorem C01_final_state_valid : forall U P, WF U -> forall db tr sol,
  check_sat_lenient U P db tr sol = true ->
  sol = rev (sel_of tr) /\ valid U P (sel_of tr) (exempt U P (sel_of tr)).
Proof. exact check_sat_lenient_sound. Qed.

(* trace inclusion: if the checker accepts the implementation's log (clause dump,
   trail events, reported solution) then the reported solution is valid *)
Theorem C01_trace_sound : forall u P lg sol,
  check_sat_log_lenient u P lg sol = true -> valid (table_provider u) P sol (exempt (table_provider u) P sol).
Proof. exact sat_log_valid. Qed.
Check C01_trace_sound : forall u P lg sol,
  check_sat_log_lenient u P lg sol = true -> valid (table_provider u) P sol (exempt (table_provider u) P sol).

(* ---- the encoder model (Async/Encoder.v, tied to encoding.rs + cache.rs by
   clause-for-clause and call-for-call equality on every synchronous run) ---- *)
From Resolvo Require Import Async.EncoderClosed.

(* completeness of the encoder, for every provider, problem, cache contents,
   trail history, sequence of encode requests and completion order of its
   futures: once nothing is pending, everything queued is completely encoded *)
Theorem C01_encoder_complete : forall U P c evs st,
  enc_run U P (estate0 c) [] [] evs = Some (st, []) ->
  (forall so, In so (e_sols st) -> deps_done U P st [] so) /\ (forall n, In n (e_pkgs st) -> pkg_done U st n).
Proof. exact enc_complete. Qed.

(* hence an assignment that satisfies the encoder's clauses and selects only
   encoded solvables, one per package, is a valid solution *)
Theorem C01_encoder_model_valid : forall U P, WF U -> forall c evs st a S ex,
  enc_run U P (estate0 c) [] [] evs = Some (st, []) ->
  (forall x, In x (e_db st) -> sat_or_exempt U a ex x = true) ->
  (forall s, In s S <-> a (VSol s) = true) -> a VRoot = true ->
  In None (e_sols st) ->
  (forall s, In s S -> In (Some s) (e_sols st)) ->
  (forall s, In s S -> In s ex \/ In (p_sol_name U s) (e_pkgs st)) ->
  one_per_nameb U S = true ->
  valid U P S ex.
Proof. exact enc_valid. Qed.

(* the boolean evaluated on every run that returned a solution *)
Theorem C01_encoder_final_closed : forall U P c evs st S ex,
  enc_run U P (estate0 c) [] [] evs = Some (st, []) ->
  enc_final_ok U st S ex = true -> one_per_nameb U S = true ->
  closedb U P (e_db st) S ex = true.
Proof. exact enc_final_closed. Qed.
