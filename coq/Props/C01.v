(* C01 -- every returned solution satisfies all rules.
   ONLY theorem statements closed by [exact]; proofs live elsewhere. *)
From Resolvo Require Import Spec.Oracle.

(* the verified oracle run on every solution the implementation returns *)
Theorem C01_oracle_correct : forall u P S,
  o_valid u P S = true <-> valid (table_provider u) P S (exempt P S).
Proof. exact o_valid_spec. Qed.
Check C01_oracle_correct : forall u P S,
  o_valid u P S = true <-> valid (table_provider u) P S (exempt P S).
