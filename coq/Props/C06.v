(* C06 -- same problem, same answer.  A Gallina function is deterministic by
   construction; the content provable in the model is that the one place where the
   conflict report iterates a hash container cannot leak its order. *)
From Coq Require Import List Permutation.
From Resolvo Require Import Conflict.Render.

(* the merged-candidate map computed by ConflictGraph::simplify is the same for
   every iteration order of the intermediate hash map `maybe_merge` *)
Theorem C06_simplify_order_independent : forall D g groups',
  NoDup (node_solvables g) ->
  Permutation (merge_groups D g) groups' ->
  forall s, mc_get s (simplify_of groups') = mc_get s (simplify D g).
Proof. exact simplify_order_independent. Qed.
