(* C10 -- any completion order of asynchronous metadata requests gives a correct result. *)
From Resolvo Require Import Async.HistoryProofs Spec.Oracle.

Theorem C10_once_checker : forall h, onceb [] [] [] [] h = true <-> Once h.
Proof. exact onceb_spec. Qed.

Theorem C10_valid_oracle : forall u P S,
  o_valid u P S = true <-> valid (table_provider u) P S (exempt (table_provider u) P S).
Proof. exact o_valid_spec. Qed.

Theorem C10_reference : forall u P, o_solvable u P = true <-> solvable (table_provider u) P.
Proof. exact o_solvable_spec. Qed.

(* ---- for EVERY completion order of the encoder's futures (the events of
   [enc_run] say which pending future completes next; Async/Encoder.v is tied to
   encoding.rs + cache.rs clause for clause on every run, synchronous or not) ---- *)
From Resolvo Require Import Async.EncoderClosed Cdcl.CheckRun.

(* the encoder adds only facts ... *)
Theorem C10_any_order_adds_facts : forall U P, WF U -> forall c evs st work,
  enc_run U P (estate0 c) [] [] evs = Some (st, work) ->
  forall x, In x (e_db st) -> factb U P (trk_idx (e_trk st)) x = true.
Proof. exact enc_facts. Qed.

(* ... encodes completely once nothing is pending ... *)
Theorem C10_any_order_complete : forall U P c evs st,
  enc_run U P (estate0 c) [] [] evs = Some (st, []) ->
  (forall so, In so (e_sols st) -> deps_done U P st [] so) /\ (forall n, In n (e_pkgs st) -> pkg_done U st n).
Proof. exact enc_complete. Qed.

(* ... and never asks the provider twice (candidates, dependencies, filter) *)
Theorem C10_any_order_once : forall U P H0 c0 evs st work,
  CInv U c0 H0 -> enc_run U P (estate0 c0) [] [] evs = Some (st, work) ->
  let H := H0 ++ e_calls st in
  NoDup (flat_map EncoderCalls.k_cands H) /\ NoDup (flat_map k_deps H) /\
  NoDup (flat_map k_match H) /\ NoDup (flat_map k_nonmatch H) /\
  (exists vs, NoDup vs /\ flat_map k_sort H = map (matching U) vs) /\
  CInv U (e_cache st) H.
Proof. exact enc_once. Qed.

(* the verdicts of two accepted runs of one problem agree, whatever order the
   futures completed in: same verdict as the synchronous run *)
Theorem C10_verdicts_agree : forall u P lg1 lg2 sol,
  pr_soft P = [] -> check_unsat_log u P lg1 = true -> check_sat_log_lenient u P lg2 sol = true -> False.
Proof. exact verdicts_agree. Qed.

(* ---- "never asks the provider twice" for EVERY schedule of the in-flight
   protocol of the cache (Async/CacheProto.v: any interleaving of task polls and
   provider answers, any cancellation point, any number of solves; the protocol
   of get_or_cache_candidates and, since fix 432d8c2, of get_or_cache_dependencies):
   every history the protocol can produce satisfies Once ---- *)
From Resolvo Require Import Async.CacheProtoOnce.

Theorem C10_protocol_never_asks_twice : forall es s,
  prun drop_fixed p0 es = Some s -> drops_end_solve false es = true -> Once (hist s).
Proof. exact proto_never_asks_twice. Qed.
