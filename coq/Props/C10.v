(* C10 -- any completion order of asynchronous metadata requests gives a correct result. *)
From Resolvo Require Import Async.HistoryProofs Spec.Oracle.

Theorem C10_once_checker : forall h, onceb [] [] [] [] h = true <-> Once h.
Proof. exact onceb_spec. Qed.

Theorem C10_valid_oracle : forall u P S,
  o_valid u P S = true <-> valid (table_provider u) P S (exempt P S).
Proof. exact o_valid_spec. Qed.

Theorem C10_reference : forall u P, o_solvable u P = true <-> solvable (table_provider u) P.
Proof. exact o_solvable_spec. Qed.
