(* C11 -- independent metadata requests are issued concurrently. *)
From Resolvo Require Import Async.HistoryProofs.

Theorem C11_eager_checker : forall U h, eagerb U [] [] h = true <-> Eager U h.
Proof. exact eagerb_spec. Qed.
