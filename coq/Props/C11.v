(* C11 -- independent metadata requests are issued concurrently. *)
From Resolvo Require Import Async.HistoryProofs.

Theorem C11_eager_checker : forall U h, eagerb U [] [] h = true <-> Eager U h.
Proof. exact eagerb_spec. Qed.

(* ---- the encoder model, for every completion order (Async/Encoder.v; tied to
   encoding.rs clause for clause under gated schedules): at every point of a
   run, once the dependencies of a solvable have been handled, a candidates
   future for every package they mention is pending or has completed ---- *)
From Resolvo Require Import Async.EncoderClosed.

Theorem C11_model_eager : forall U P c evs st work,
  enc_run U P (estate0 c) [] [] evs = Some (st, work) ->
  forall so, In so (e_sols st) ->
  In (TDeps so) work \/
  forall n, In n (mentioned U P so) -> In (TCands n) work \/ In n (c_cands (e_cache st)).
Proof. exact enc_eager. Qed.
