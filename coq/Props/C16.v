(* C16 -- a dependency snapshot is a faithful, serialisable copy of a provider.
   Model: Data/Snapshot.v ([capture] = DependencySnapshot::from_provider,
   [snapshot_provider] = SnapshotProvider, [add_req] = add_package_requirement(_, "*"),
   [roundtrip] = serde).  [capture .. = Some sn] excludes running out of fuel. *)
From Coq Require Import List NArith Sorting.Sorted Sorting.Permutation.
From Resolvo Require Import Base.Provider Spec.Spec Data.Mapping Data.Snapshot.
Import ListNotations.
Open Scope N_scope.

(* on every captured id the snapshot provider answers like the live provider
   (whatever version sets were added afterwards) *)
Theorem C16_capture_faithful : forall U fuel names vss sols sn,
  capture U fuel names vss sols = Some sn -> forall adds,
  let V := snapshot_provider sn adds in
  (forall n, captured_pkg sn n ->
     p_cands V n = p_cands U n /\ p_excluded V n = p_excluded U n /\
     p_favored V n = None /\ p_locked V n = None /\ p_hint V n = HSome (p_cands U n)) /\
  (forall s, captured_sol sn s -> p_sol_name V s = p_sol_name U s /\ p_deps V s = p_deps U s) /\
  (forall v, captured_vs sn v ->
     p_vs_name V v = p_vs_name U v /\
     (forall s, In s (p_cands U (p_vs_name U v)) -> p_match V v s = p_match U v s) /\
     matching V v = matching U v /\ nonmatching V v = nonmatching U v) /\
  (forall u, captured_union sn u ->
     p_union V u = usort (p_union U u) /\ (forall v, In v (p_union V u) <-> In v (p_union U u)) /\
     (StronglySorted N.lt (p_union U u) -> p_union V u = p_union U u)).
Proof. exact capture_faithful. Qed.

(* seeds are captured and the captured set is closed under every question the
   solver can ask next *)
Theorem C16_closed : forall U fuel names vss sols sn,
  capture U fuel names vss sols = Some sn ->
  (forall n, In n names -> captured_pkg sn n) /\ (forall v, In v vss -> captured_vs sn v) /\
  (forall s, In s sols -> captured_sol sn s) /\
  (forall n, captured_pkg sn n ->
     forall s, In s (p_cands U n) \/ In s (p_excluded U n) -> captured_sol sn s) /\
  (forall s, captured_sol sn s ->
     captured_pkg sn (p_sol_name U s) /\
     forall rs cs, p_deps U s = Known rs cs ->
       (forall v, In v cs -> captured_vs sn v) /\ (forall v, In (RSingle v) rs -> captured_vs sn v) /\
       (forall u, In (RUnion u) rs -> captured_union sn u)) /\
  (forall u, captured_union sn u -> forall v, In v (p_union U u) -> captured_vs sn v) /\
  (forall v, captured_vs sn v ->
     captured_pkg sn (p_vs_name U v) /\ forall s, In s (matching U v) -> captured_sol sn s).
Proof. exact capture_closed. Qed.

(* every candidate of every captured package (sparse name ids included) gets
   as [order] its position in the provider's sort of its own package *)
Theorem C16_order_complete : forall U fuel names vss sols sn,
  capture U fuel names vss sols = Some sn ->
  sort_perm U -> wf_cands U ->
  forall n, captured_pkg sn n -> forall s, In s (p_cands U n) ->
    order_of sn s = idx s (p_sort U (p_cands U n)).
Proof. exact order_complete. Qed.

(* preference order: if the live sort_candidates is a stable sort by a rank,
   sorting any order-preserving sub-list of a captured package's candidates
   through the snapshot gives the live result *)
Theorem C16_sort_preserved : forall U fuel names vss sols sn,
  capture U fuel names vss sols = Some sn -> forall adds rank,
  (forall l, p_sort U l = sort_stable rank l) -> wf_cands U ->
  forall n l, captured_pkg sn n -> subseq l (p_cands U n) ->
    p_sort (snapshot_provider sn adds) l = p_sort U l.
Proof. exact capture_sort_agrees. Qed.

Theorem C16_sorted_cands : forall U fuel names vss sols sn,
  capture U fuel names vss sols = Some sn -> forall adds rank v,
  (forall l, p_sort U l = sort_stable rank l) -> wf_cands U ->
  captured_vs sn v -> p_favored U (p_vs_name U v) = None ->
  sorted_cands (snapshot_provider sn adds) v = sorted_cands U v.
Proof. exact capture_sorted_cands. Qed.

(* the harness' table provider satisfies the hypotheses above *)
Theorem C16_table_provider_hyps : forall u,
  (forall l, p_sort (table_provider u) l = sort_stable (table_rank u) l) /\
  sort_perm (table_provider u) /\
  (wf_candsb u = true -> wf_cands (table_provider u)).
Proof. exact table_provider_hyps. Qed.

(* ids handed out by any number of add_package_requirement calls are pairwise
   distinct, never a captured version set id, and resolve to the added entry *)
Theorem C16_fresh_ids_disjoint : forall sn ns adds' ids,
  Inv (sn_vss sn) -> add_reqs sn [] ns = Some (adds', ids) ->
  NoDup ids /\
  (forall id, In id ids -> get (sn_vss sn) id = None) /\
  (forall id v x, In id ids -> get (sn_vss sn) v = Some x -> id <> v) /\
  (forall k n, nth_error ns k = Some n ->
     nth_error ids k = Some (first_add sn + N.of_nat k) /\
     vs_lookup sn adds' (first_add sn + N.of_nat k) = Some (added_entry sn n)).
Proof. exact fresh_ids_disjoint. Qed.

(* after any additions every captured version set id -- the highest included --
   still resolves to the captured entry *)
Theorem C16_captured_resolvable : forall sn adds v x,
  Inv (sn_vss sn) -> get (sn_vss sn) v = Some x -> vs_lookup sn adds v = Some x.
Proof. exact captured_resolvable. Qed.

Theorem C16_capture_inv : forall U fuel names vss sols sn,
  capture U fuel names vss sols = Some sn -> SInv sn.
Proof. exact capture_inv. Qed.

(* serde: same contents, same first fresh id, hence the same provider *)
Theorem C16_serde_roundtrip : forall sn,
  SInv sn -> SInv (roundtrip sn) /\ snap_equiv (roundtrip sn) sn.
Proof. exact serde_roundtrip_snapshot. Qed.

Theorem C16_serde_same_answers : forall sn adds, SInv sn ->
  let A := snapshot_provider (roundtrip sn) adds in let B := snapshot_provider sn adds in
  (forall s, p_sol_name A s = p_sol_name B s) /\ (forall s, p_deps A s = p_deps B s) /\
  (forall v, p_vs_name A v = p_vs_name B v) /\ (forall v s, p_match A v s = p_match B v s) /\
  (forall u, p_union A u = p_union B u) /\ (forall n, p_cands A n = p_cands B n) /\
  (forall n, p_excluded A n = p_excluded B n) /\ (forall n, p_hint A n = p_hint B n) /\
  (forall l, p_sort A l = p_sort B l) /\
  (forall n, p_favored A n = p_favored B n) /\ (forall n, p_locked A n = p_locked B n) /\
  (forall n, add_req (roundtrip sn) adds n = add_req sn adds n).
Proof. exact roundtrip_provider_eq. Qed.

(* [valid] sees a provider only through its answers on the selection and the
   requirements/constraints of the problem and of the selected solvables *)
Theorem C16_valid_ext : forall U V P S, agree U V P S -> forall ex, valid U P S ex <-> valid V P S ex.
Proof. exact valid_ext. Qed.

(* a solution found through the snapshot is a solution of the live problem
   (the format has no locked candidates: none may be locked live) *)
Theorem C16_solution_valid_live : forall U fuel names vss sols sn,
  capture U fuel names vss sols = Some sn -> forall adds P S ex,
  (forall n, captured_pkg sn n -> p_locked U n = None) ->
  problem_captured sn P ->
  valid (snapshot_provider sn adds) P S ex -> valid U P S ex.
Proof. exact capture_solution_valid_live. Qed.

(* same verdict *)
Theorem C16_same_verdict : forall U fuel names vss sols sn,
  capture U fuel names vss sols = Some sn -> forall adds P,
  (forall n, captured_pkg sn n -> p_locked U n = None) ->
  problem_captured sn P ->
  (solvable U P <-> solvable (snapshot_provider sn adds) P).
Proof. exact capture_same_verdict. Qed.

(* NOT preserved: the dependency-availability hints.  Every captured candidate
   is flagged whatever the live provider said. *)
Theorem C16_hints_preserved_refuted :
  exists u names vss sols sn n,
    capture (table_provider u) 20 names vss sols = Some sn /\
    p_hint (table_provider u) n = HNone /\ p_hint (snapshot_provider sn []) n = HSome [1; 2].
Proof. exact hints_not_preserved. Qed.

(* NOT preserved either: the listing order of the members of a union (stored
   as a set, returned ascending); where the live provider lists a union in
   another order the first choice -- hence the solution -- may differ. *)
Theorem C16_union_order_preserved_refuted :
  exists u names vss sols sn x,
    capture (table_provider u) 20 names vss sols = Some sn /\
    p_union (table_provider u) x = [1; 0] /\ p_union (snapshot_provider sn []) x = [0; 1] /\
    first_choice (table_provider u) (RUnion x) = Some 1 /\
    first_choice (snapshot_provider sn []) (RUnion x) = Some 0.
Proof. exact union_order_not_preserved. Qed.

(* non-vacuity: sparse name ids {5,200}; the capture finishes, the hypotheses
   of the theorems hold, orders follow the provider's sort, a fresh id is 2 *)
Example C16_nonvacuous :
  wf_candsb u_F1 = true /\
  match capture (table_provider u_F1) 20 [] [0] [] with
  | Some sn =>
    snap_view sn =
      ([(0, mkSSol 5 0 (Known [RSingle 1] []) true); (1, mkSSol 200 1 (Known [] []) true);
        (2, mkSSol 200 0 (Known [] []) true)],
       [], [(0, mkSVs 5 [0]); (1, mkSVs 200 [1; 2])],
       [(5, mkSPkg [0] []); (200, mkSPkg [1; 2] [])]) /\
    add_reqs sn [] [200; 5] = Some ([mkSVs 200 [1; 2]; mkSVs 5 [0]], [2; 3]) /\
    snap_view (roundtrip sn) = snap_view sn
  | None => False
  end.
Proof. vm_compute. repeat split; reflexivity. Qed.
