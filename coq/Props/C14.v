(* C14 -- soft requirements are best-effort and never harm the hard problem. *)
From Resolvo Require Import Spec.Oracle Cdcl.CheckRun.

(* validity with exactly the documented exemption (= C01 for problems with soft requirements) *)
Theorem C14_valid : forall u P lg sol,
  check_sat_log_lenient u P lg sol = true -> valid (table_provider u) P sol (exempt (table_provider u) P sol).
Proof. exact sat_log_valid. Qed.

(* adding soft requirements never turns a solvable problem into an (acceptably
   certified) Unsolvable: the refutation certificate does not depend on soft phases *)
Theorem C14_never_error : forall u P lg,
  solvable (table_provider u) P -> check_unsat_log u P lg = false.
Proof. exact solvable_not_refuted. Qed.

(* solvability of the hard problem does not depend on the soft list *)
Theorem C14_hard_independent_of_soft : forall u P,
  o_solvable u P = true <-> exists S, valid (table_provider u) P S [].
Proof. exact o_solvable_spec. Qed.

(* the acceptance oracle only expects x when a consistent, supported,
   first-choice-closed selection containing x exists *)
Theorem C14_accept_oracle_sound : forall fuel u P obs softs G r x G',
  soft_expect fuel u P obs G softs = Some r -> In (x, G') r ->
  In x softs /\ soft_step_ok u P G' x = true.
Proof. exact soft_expect_sound. Qed.

Theorem C14_accept_step_meaning : forall u P G x,
  soft_step_ok u P G x = true ->
  In x G /\ valid (table_provider u) P G (exempt (table_provider u) P G) /\ supported (table_provider u) P G /\
  (forall r, all_reqs (table_provider u) P G r ->
     exists f, first_choice (table_provider u) r = Some f /\ In f G /\
               forall s, In s G -> cand_of (table_provider u) r s -> s = f).
Proof. exact soft_step_ok_spec. Qed.

(* ---- conflict analysis never harms the solution found so far.  In the model
   of Solver::analyze (Cdcl/Analyze.v) the backjump level is
   target_level btl start = max (max btl 1) start, where start is the level on
   top of which the run_sat of the soft requirement in progress started; every
   analysis of every hook log must backjump exactly to the model's level
   (Cdcl/AnalyzeRun.v).  Before fix 004c59a the implementation went to
   max btl 1 (corpus/C14/F14_*.json). ---- *)
From Resolvo Require Import Cdcl.AnalyzeRunProofs.

Theorem C14_analysis_keeps_earlier_solution : forall btl start, (start <= target_level btl start)%N.
Proof. exact target_level_ge_start. Qed.

(* ---- nothing decided before a soft requirement is tried is ever taken back,
   whatever the reason for an undo (conflict analysis, restart of run_sat after
   new clauses, rejection of the requirement): the verified log checker soft_keep
   runs on every log with soft requirements; split an accepted log at any soft
   requirement and the trail at that moment is, entry for entry, the oldest part
   of the final trail (Cdcl/SoftKeep.v).  F14 and F17 broke exactly this. ---- *)
From Resolvo Require Import Cdcl.SoftKeep.

Theorem C14_soft_keeps_earlier_decisions : forall evs1 evs2,
  soft_keep (evs1 ++ LSoft :: evs2) = true ->
  let before := trail_after evs1 [] in
  let final := trail_after (evs1 ++ LSoft :: evs2) [] in
  (length before <= length final)%nat /\ oldest (length before) final = before.
Proof. exact soft_keeps_earlier_decisions. Qed.

Theorem C14_soft_keeps_assignments : forall evs1 evs2 e,
  soft_keep (evs1 ++ LSoft :: evs2) = true ->
  In e (trail_after evs1 []) -> In e (trail_after (evs1 ++ LSoft :: evs2) []).
Proof. exact soft_keeps_assignments. Qed.
