(* C08 -- direct requirements get their best candidate. *)
From Resolvo Require Import Spec.Oracle Cdcl.CheckRun.

Theorem C08_oracle_sound : forall u P fs,
  o_explicit_first u P = Some fs ->
  root_singles P /\ pr_soft P = [] /\
  (exists S, valid (table_provider u) P S [] /\ forall f, In f fs -> In f S) /\
  (forall r f, In r (pr_reqs P) -> first_choice (table_provider u) r = Some f -> In f fs).
Proof. exact o_explicit_first_sound. Qed.

(* every run that announces a solution, on a problem whose first-ranked root
   candidates are jointly installable, announces one containing them all *)
Theorem C08_explicit_first : forall U P, WF U -> forall db Sx,
  pr_soft P = [] -> root_singles P -> valid U P Sx [] -> has_root_firsts U P Sx ->
  facts_ok U P db = true -> learnts_ok [] db = true ->
  forall evs tr sol,
  run_events (pr_soft P) db evs [] = Some tr -> check_sat U P db (tlits tr) sol = true ->
  forall r f, In r (pr_reqs P) -> first_choice U r = Some f -> In f sol.
Proof. exact explicit_final. Qed.

(* trace inclusion *)
Theorem C08_trace_explicit : forall u P lg sol Sx,
  check_sat_log u P lg sol = true -> pr_soft P = [] -> root_singles P ->
  valid (table_provider u) P Sx [] -> has_root_firsts (table_provider u) P Sx ->
  forall r f, In r (pr_reqs P) -> first_choice (table_provider u) r = Some f -> In f sol.
Proof. exact sat_log_explicit. Qed.
