(* C08 -- direct requirements get their best candidate. *)
From Resolvo Require Import Spec.Oracle.

Theorem C08_oracle_sound : forall u P fs,
  o_explicit_first u P = Some fs ->
  root_singles P /\ pr_soft P = [] /\
  (exists S, valid (table_provider u) P S [] /\ forall f, In f fs -> In f S) /\
  (forall r f, In r (pr_reqs P) -> first_choice (table_provider u) r = Some f -> In f fs).
Proof. exact o_explicit_first_sound. Qed.
