(* C08 -- direct requirements get their best candidate. *)
From Resolvo Require Import Spec.Oracle Cdcl.CheckRun.

Theorem C08_oracle_sound : forall u P fs,
  o_explicit_first u P = Some fs ->
  root_singles P /\ pr_soft P = [] /\
  (exists S, valid (table_provider u) P S [] /\ forall f, In f fs -> In f S) /\
  (forall r f, In r (pr_reqs P) -> first_choice (table_provider u) r = Some f -> In f fs).
Proof. exact o_explicit_first_sound. Qed.

(* every run that announces a solution, on a problem whose first-ranked root
   candidates are jointly installable, announces one containing them all *)
Theorem C08_explicit_first : forall U P, WF U -> forall db Sx,
  pr_soft P = [] -> root_singles P -> valid U P Sx [] -> has_root_firsts U P Sx ->
  facts_ok U P db = true -> learnts_ok [] db = true ->
  forall evs tr sol,
  run_events (pr_soft P) db evs [] = Some tr -> check_sat U P db (tlits tr) sol = true ->
  forall r f, In r (pr_reqs P) -> first_choice U r = Some f -> In f sol.
Proof. exact explicit_final. Qed.

(* trace inclusion *)
Theorem C08_trace_explicit : forall u P lg sol Sx,
  check_sat_log u P lg sol = true -> pr_soft P = [] -> root_singles P ->
  valid (table_provider u) P Sx [] -> has_root_firsts (table_provider u) P Sx ->
  forall r f, In r (pr_reqs P) -> first_choice (table_provider u) r = Some f -> In f sol.
Proof. exact sat_log_explicit. Qed.

(* ---- Solver::decide itself (Cdcl/Decide.v: the scan over requires_clauses in
   IndexMap order, the first undecided candidate per clause, the
   explicit / activity / candidate-count ranking; compared with the
   implementation at every call, the activity scores computed in binary32) ---- *)
From Resolvo Require Import Cdcl.DecideProofs.

(* for every clause database of well-formed Requires clauses in which the root's
   requirements come first, every assignment that installs the root and EVERY
   activity comparison: what decide proposes is a legal decision of the abstract
   machine -- rule D1, and rule D2: a requirement of the root as long as one is
   open.  The theorems above about runs of the machine therefore apply to runs
   whose decisions are taken by decide. *)
Theorem C08_decide_legal : forall U act_ge pa db,
  (forall c, In c db -> req_wf U c = true) -> forall d,
  root_first db = true -> lit_istrue pa (VRoot, true) = true ->
  decide U act_ge db pa = Some (Some d) ->
  exists c, nth_error db (N.to_nat (pd_clause d)) = Some c /\
            decision_kind db pa c (VSol (pd_cand d), true) = Some (if is_vroot (pd_parent d) then ERootDec else EDec).
Proof. exact decide_legal. Qed.

Theorem C08_decide_classified : forall U act_ge pa db,
  (forall c, In c db -> req_wf U c = true) -> forall soft d,
  root_first db = true -> lit_istrue pa (VRoot, true) = true -> pd_clause d <> 0%N ->
  decide U act_ge db pa = Some (Some d) ->
  classify soft db pa (VSol (pd_cand d), true) (pd_clause d) = Some EProp \/
  classify soft db pa (VSol (pd_cand d), true) (pd_clause d) = Some (if is_vroot (pd_parent d) then ERootDec else EDec).
Proof. exact decide_classified. Qed.

(* in every state of the solver model (Cdcl/Solver.v, SInv by C05_solver_model_invariant) the
   Requires clauses are well-formed, so what decide proposes there is a legal decision *)
From Resolvo Require Import Cdcl.SolverProofs.
Theorem C08_solver_model_decide_legal : forall U P A a_ge (st : sstate A) d,
  SInv U P A st -> root_first (s_db st) = true -> lit_istrue (tr_lits st) (VRoot, true) = true ->
  decide U (a_ge (s_act st)) (s_db st) (tr_lits st) = Some (Some d) ->
  exists c, nth_error (s_db st) (N.to_nat (pd_clause d)) = Some c /\
            decision_kind (s_db st) (tr_lits st) c (VSol (pd_cand d), true) = Some (if is_vroot (pd_parent d) then ERootDec else EDec).
Proof. exact sinv_decide_legal. Qed.

(* ---- the hypothesis "the root's requirements are the first ones in the database" is an invariant of the
   solver model (Cdcl/RootFirst.v): a Requires clause of a solvable can only be produced after the completion
   of a task for another requirement has revealed it (and that completion adds its own clause first) or after
   the first encode -- of the root -- has returned, at which point every requirement of the root has its
   clause whatever the completion order of the encoder's futures ---- *)
From Resolvo Require Import Cdcl.RootFirst.

Theorem C08_solver_model_root_first : forall U P, WF U -> forall A a_ge a_conflict fuel efuel (a0 : A) order sol st,
  solve U P a_ge a_conflict fuel efuel a0 order = (OSat sol, st) -> RF' P A st.
Proof. exact solve_rf. Qed.

Theorem C08_root_first_from_invariant : forall U P A (st : sstate A),
  SInv U P A st -> RF P A st -> root_first (s_db st) = true.
Proof. exact rf_root_first. Qed.

(* hence, with nothing left to evaluate per run: in every state of the model that satisfies the invariants (the
   structural one, the level structure with the root at the bottom of the trail, RF) what decide proposes is a
   legal decision of the abstract machine -- rules D1 and D2 *)
Theorem C08_solver_model_decide_legal_by_invariants : forall U P A a_ge (st : sstate A) d,
  SInv U P A st -> LInv A st -> Rooted (ps_trail (s_ps st)) -> RF P A st ->
  decide U (a_ge (s_act st)) (s_db st) (tr_lits st) = Some (Some d) ->
  exists c, nth_error (s_db st) (N.to_nat (pd_clause d)) = Some c /\
            decision_kind (s_db st) (tr_lits st) c (VSol (pd_cand d), true) = Some (if is_vroot (pd_parent d) then ERootDec else EDec).
Proof. exact model_decide_legal. Qed.
