(* C13 -- a solver can be reused. *)
From Resolvo Require Import Async.HistoryProofs Spec.Oracle.

Theorem C13_once_checker : forall h, onceb [] [] [] [] h = true <-> Once h.
Proof. exact onceb_spec. Qed.

Theorem C13_reference : forall u P, o_solvable u P = true <-> solvable (table_provider u) P.
Proof. exact o_solvable_spec. Qed.

Theorem C13_valid_oracle : forall u P S,
  o_valid u P S = true <-> valid (table_provider u) P S (exempt (table_provider u) P S).
Proof. exact o_valid_spec. Qed.

(* ---- the in-flight protocol of the candidates cache, over all schedules,
        cancellations and reuse (model: Async/CacheProto.v) ---- *)
From Resolvo Require Import Async.CacheProto.

(* invariant of every reachable state: each in-flight marker has exactly one live owner *)
Theorem C13_protocol_invariant : forall es s,
  prun drop_fixed p0 es = Some s -> PInv s.
Proof. intros es s H. exact (prun_inv es p0 s pinv_p0 H). Qed.

(* no request ever waits on something that cannot complete *)
Theorem C13_no_orphan_waiter : forall es s,
  prun drop_fixed p0 es = Some s ->
  forall t, In t (tasks s) -> t_st t = TWaiting ->
  In (t_name t) (cached s) \/ exists o, In o (tasks s) /\ t_name o = t_name t /\ t_st o = TFetching.
Proof. exact no_orphan_waiter. Qed.

(* progress: an unfinished request always has an enabled step (poll or provider answer) *)
Theorem C13_no_deadlock : forall es s,
  prun drop_fixed p0 es = Some s ->
  (exists t, In t (tasks s) /\ t_st t <> TDone) -> enabled s.
Proof. exact no_deadlock. Qed.

(* the protocol as it was before the repair deadlocks after a cancelled solve (finding F5) *)
Theorem C13_pre_fix_deadlock :
  exists s, prun drop_pre_fix p0 [PNext (mkProblem [] [] []); PSpawn 7; PRun 0; PDrop;
                                  PNext (mkProblem [] [] []); PSpawn 7; PRun 0] = Some s /\
            tasks s = [mkTask 7 TWaiting] /\ run_task s 0 = None /\ answer s 7 = None.
Proof. exact pre_fix_deadlock. Qed.

(* over any number of solves and cancellations on one solver, for every schedule:
   metadata obtained earlier is never requested again, and nothing is requested
   while a request for it is in flight (abandoned requests may be re-issued) *)
From Resolvo Require Import Async.CacheProtoOnce.

Theorem C13_protocol_never_asks_twice : forall es s,
  prun drop_fixed p0 es = Some s -> drops_end_solve false es = true -> Once (hist s).
Proof. exact proto_never_asks_twice. Qed.
