(* C04 -- conflict rendering terminates: the renderer of /repo/src/conflict.rs
   (model: Conflict/Render.v, tied to the code byte for byte by
   tools/props/render_tie.py) needs at most an explicit number of steps on
   every graph, cycles included; since commit 4a5d731 its output is bounded by
   (7 + 3 * con_width g) * E + 1 lines; the hash-map iteration in
   ConflictGraph::simplify cannot influence it; the renderer before the `path`
   fix (commit ee1639b) does not terminate on the cyclic graph of
   corpus/C04/F7_cyclic_conflict_render.json; the renderer with the path check
   only (before 4a5d731) is exponential on diamond-shaped conflicts. *)
From Coq Require Import List NArith String Permutation.
From Resolvo Require Import Conflict.Render.
Import ListNotations.

(* explicit fuel bound for every graph: with E = number of edges,
   fuel_bound g = E * wR E E where wC 0 = 1, wC (k+1) = 1 + E * wR k, wR k = 1 + E * wC k *)
Theorem C04_render_terminates : forall D g, fmt_graph D g (fuel_bound g) <> None.
Proof. exact render_terminates. Qed.

(* any fuel that suffices gives the same lines as fuel_bound g *)
Theorem C04_render_fuel_irrelevant : forall D g fuel ls,
  fmt_graph D g fuel = Some ls -> fmt_graph D g (fuel_bound g) = Some ls.
Proof. exact render_fuel_irrelevant. Qed.

(* Number of lines of the current renderer. lin_bound g = (7 + 3 * con_width g) * E + 1,
   con_width g = largest number of Constrains edges leaving one candidate: linear
   in the number of edges for a fixed con_width (7 E + 1 without Constrains
   edges). The statement asked for carries `graph_wf g` and the fuel
   `fuel_bound g`; neither is needed. A bound linear in nodes + edges alone does
   not hold: C04_current_quadratic_example. *)
Theorem C04_render_lines_linear : forall D g fuel ls,
  fmt_graph D g fuel = Some ls -> List.length ls <= lin_bound g.
Proof. exact render_lines_linear. Qed.

Theorem C04_render_lines_linear_wf : forall D g, graph_wf g = true ->
  forall ls, fmt_graph D g (fuel_bound g) = Some ls -> List.length ls <= lin_bound g.
Proof. intros D g _ ls. exact (render_lines_linear D g (fuel_bound g) ls). Qed.

(* the exact form: fine_bound g = 3 * (sum over edges e of 2 + #Constrains edges of tgt e) + E + 1 *)
Theorem C04_render_lines_fine : forall D g fuel ls,
  fmt_graph D g fuel = Some ls -> List.length ls <= fine_bound g.
Proof. exact render_lines_fine. Qed.

(* unconditional polynomial: quad_bound g = 3 E^2 + 7 E + 1 *)
Theorem C04_render_lines_quadratic : forall D g fuel ls,
  fmt_graph D g fuel = Some ls -> List.length ls <= quad_bound g.
Proof. exact render_lines_quadratic. Qed.

(* bytes for display strings of at most M bytes and unions of at most M members:
   byte_bound M g = lin_bound g * (7 * (2 E + 3) + text_bytes M (max 1 N) + 1) *)
Theorem C04_render_size_bound : forall D M g fuel ls,
  (forall s, String.length (disp_solvable D s) <= M) ->
  (forall n, String.length (disp_name D n) <= M) ->
  (forall v, String.length (disp_vs D v) <= M) ->
  (forall s, String.length (disp_string D s) <= M) ->
  (forall u, List.length (union_members D u) <= M) ->
  fmt_graph D g fuel = Some ls ->
  List.length ls <= lin_bound g /\ String.length (render_text D ls) <= byte_bound M g.
Proof. exact render_size_bound. Qed.

(* the merged-candidate map is the same for every iteration order of the
   intermediate hash map `maybe_merge` *)
Theorem C04_simplify_order_independent : forall D g groups',
  NoDup (node_solvables g) ->
  Permutation (merge_groups D g) groups' ->
  forall s, mc_get s (simplify_of groups') = mc_get s (simplify D g).
Proof. exact simplify_order_independent. Qed.

(* the DfsPostOrder of the model never runs out of its fuel *)
Theorem C04_dfs_fuel_sufficient : forall g extra,
  dfs_run g (dfs_fuel g + extra) [g_root g] [] [] = dfs_post_order g.
Proof. exact dfs_fuel_sufficient. Qed.

(* before ee1639b: no amount of fuel is enough on the F7 graph *)
Theorem C04_pre_fix_renderer_loops : forall fuel, fmt_graph_pre_fix f7_display f7_graph fuel = None.
Proof. exact pre_fix_renderer_loops. Qed.

(* between ee1639b and 4a5d731 (path check only): the conflict graphs of the
   "diamond" universes (corpus/C04_render) have 2k+2 nodes and 4k edges and render
   to 2^(k+2) - 3 lines, in the model as in the code of that time *)
Theorem C04_path_only_exponential :
  graph_wf (diamond 8) = true /\
  List.length (g_nodes (diamond 8)) = 18 /\ n_edges (diamond 8) = 32 /\
  map diamond_lines_path_only [1; 2; 3; 4; 5; 6; 7; 8] =
  [Some 5; Some 13; Some 29; Some 61; Some 125; Some 253; Some 509; Some 1021].
Proof. exact diamond_exponential_path_only. Qed.

(* the same graphs now: 6k - 1 lines, within lin_bound = 28k + 1 *)
Example C04_diamond_linear_now :
  map diamond_lines [1; 2; 3; 4; 5; 6; 7; 8] =
  [Some 5; Some 11; Some 17; Some 23; Some 29; Some 35; Some 41; Some 47] /\
  map (fun k => lin_bound (diamond k)) [1; 2; 3; 4; 5; 6; 7; 8] = [29; 57; 85; 113; 141; 169; 197; 225].
Proof. exact diamond_linear_now. Qed.

(* the current renderer is still quadratic on the "fan" conflicts
   (corpus/C04_render/fan_k8.json): 2k+2 nodes, 4k edges, k^2 + 4k + 3 lines *)
Example C04_current_quadratic_example :
  graph_wf (fan 8) = true /\
  List.length (g_nodes (fan 8)) = 18 /\ n_edges (fan 8) = 32 /\ con_width (fan 8) = 8 /\
  map fan_lines [1; 2; 3; 4; 6; 8; 16] = [Some 8; Some 15; Some 24; Some 35; Some 63; Some 99; Some 323] /\
  map (fun k => lin_bound (fan k)) [1; 2; 3; 4; 6; 8; 16] = [41; 105; 193; 305; 601; 993; 3521].
Proof. exact fan_quadratic. Qed.

(* non-vacuity: a conflict graph produced by the real solver (class conflict)
   and the exact text of display_user_friendly(..).to_string() for it *)
Local Open Scope N_scope.
Example C04_nonvacuous :
  render_harness [0; 1; 1; 1; 2; 2; 2; 3; 3; 4; 4; 5; 5] [0; 1; 1; 1; 2; 2; 2; 2; 3; 3; 3; 3; 4; 4; 4; 5; 5] [[7; 10; 8]] (mkRGraph [RRoot; RUnresolved; RSol 11; RSol 2; RSol 3; RSol 1; RSol 4; RSol 10; RSol 12; RSol 5; RSol 9; RExcl 1; RExcl 1012; RExcl 9] [(2,3,EReq (RSingle 1)); (2,4,EReq (RSingle 1)); (2,5,EReq (RSingle 1)); (6,3,ECon 2); (6,4,ECon 2); (7,2,EReq (RSingle 15)); (7,8,EReq (RSingle 15)); (7,6,EReq (RSingle 7)); (7,9,EReq (RSingle 7)); (0,10,EReq (RSingle 12)); (0,7,EReq (RSingle 12)); (9,1,EReq (RSingle 2)); (5,11,EExcl); (8,12,EExcl); (10,13,EExcl)] 0 (Some 1)) = "The following packages are incompatible
└─ p4 vs12 cannot be installed because there are no viable options:
   ├─ p4 p4=s9 is excluded because str9
   └─ p4 p4=s10 would require
      ├─ p5 vs15, which can be installed with any of the following options:
      │  └─ p5 p5=s11 would require
      │     └─ p1 vs1, which can be installed with any of the following options:
      │        └─ p1 p1=s2 | p1=s3
      └─ p2 vs7, which cannot be installed because there are no viable options:
         ├─ p2 p2=s4 would constrain
         │  └─ p1 vs2, which conflicts with any installable versions previously reported
         └─ p2 p2=s5 would require
            └─ p1 vs2, for which no candidates were found.
"%string.
Proof. vm_compute. reflexivity. Qed.

(* ---- a panic class of the solver excluded by proof.  Clause::requires and
   Clause::constrains start with
       assert_ne!(decision_tracker.assigned_value(parent), Some(false))
   (reachable before fix caf291c).  In the encoder model (Async/Encoder.v, tied
   to encoding.rs clause for clause on every run): whenever the result of a
   dependencies / requirement / constraint future of a solvable is handled, that
   solvable is not assigned false -- for every provider, problem, cache
   contents and completion order, provided encode requests are only made for
   variables assigned true and the trail is consistent and does not change
   while futures are pending (both evaluated on every run). ---- *)
From Resolvo Require Import Async.EncoderSafe.

Theorem C04_requires_assert_cannot_fail : forall U P c evs,
  quiet_ok U P (estate0 c) nil nil evs = true -> req_true_ok nil evs = true ->
  assert_ok U P (estate0 c) nil nil evs = true.
Proof. exact enc_assert_safe. Qed.

(* ---- the unreachable!() in Solver::decide: in the model of decide
   (Cdcl/Decide.v, compared with the implementation at every call) it is reached
   only when a Requires clause of an installed solvable has all its candidates
   false, i.e. when the assignment falsifies a clause of the database -- which a
   completed propagation excludes ---- *)
From Resolvo Require Import Cdcl.DecideProofs.

Theorem C04_decide_unreachable_needs_falsified_clause : forall U act_ge pa db,
  (forall c, In c db -> req_wf U c = true) ->
  decide U act_ge db pa = None ->
  exists c p r cands, In c db /\ ck c = KRequires p r cands /\ lit_istrue pa (p, true) = true /\
                      Forall (cfalse pa) (concat cands).
Proof. exact decide_panic. Qed.

(* from a state in which no clause is falsified -- checked at every call of decide
   in every hook log by the extracted prop_complete -- the unreachable!() cannot
   be reached *)
From Resolvo Require Import Cdcl.PropComplete.

Theorem C04_complete_no_panic : forall U act_ge db pa,
  (forall c, In c db -> req_wf U c = true) -> prop_complete db pa = true ->
  decide U act_ge db pa <> None.
Proof. exact complete_no_panic. Qed.

(* ... and propagate delivers the part of prop_complete that concerns watched clauses: after a call that
   ends without conflict no watched clause (outside the exempt ones) is falsified and every asserted
   literal is true, where the hypotheses -- evaluated at every call in every hook log -- hold
   (Cdcl/PropagateComplete.v: the two-watched-literal scheme loses no clause) *)
From Resolvo Require Import Cdcl.PropagateCompleteHyp.
Theorem C04_checked_propagate_complete : forall db xs level asserts units st st',
  prop_hyps db asserts units st = true -> comp_hyps xs st = true ->
  propagate db level asserts units st = Some (st', None) ->
  (length (ps_trail st') <= ps_pidx st')%nat /\
  (forall id w, wget (ps_watch st') id = Some w -> ~ In id xs ->
     exists c, nth_error db (N.to_nat id) = Some c /\ falsified (ps_trail st') (cl_lits c) = false) /\
  (forall x, In x (asserts ++ units) -> plit_true st' (fst x) = true) /\
  Inv2 (fun id => In id xs) st' /\ WComp (ps_watch st') (ps_lists st').
Proof. exact checked_propagate_complete. Qed.

(* ---- the unreachable!() of decide, at the level of the solver model (Cdcl/SolverCover.v): in a state that
   satisfies the invariants of the model -- structural (SInv), every clause looked after (KInv), the
   completeness invariant of propagate (CInv) -- with every entry propagated and the assertions in force
   (Done: what a call of propagate that ends without conflict establishes), an empty exempt set (which is
   what the runs without soft requirements keep: g_run_loop) and the root installed, decide does not reach its
   unreachable!(): that would need a falsified Requires clause, and there no clause of the database is
   falsified ---- *)
From Resolvo Require Import Cdcl.SolverCover.
Theorem C04_solver_model_decide_no_panic_by_invariants : forall U P A a_ge (st : sstate A),
  SInv U P A st -> KInv A st -> CInv A st -> Done A st -> s_born st = [] -> Rooted (ps_trail (s_ps st)) ->
  decide U (a_ge (s_act st)) (s_db st) (tr_lits st) <> None.
Proof. exact decide_no_panic_at. Qed.

(* ... and those states are the ones in which the run of the root calls decide (Cdcl/NoPanicDecide.v):
   run_loop_dp is a twin of run_loop -- same control flow, the states evolve through the model's own encode,
   s_propagate, prop_learn and resolve -- that computes one bit: whether the None branch of a call of decide
   (the unreachable!()) or of the assignment of the candidate decide proposed (expect("bug: solvable was already
   decided!") in resolve_dependencies) is taken anywhere in the run.  For the run of the root, which is the whole solve when
   the problem has no soft requirements, that bit is false: for every provider, problem, fuel, activity
   function and completion order of the encoder's futures *)
From Resolvo Require Import Cdcl.NoPanicDecide.
Theorem C04_root_run_decide_never_panics : forall U P, WF U -> forall A a_ge a_conflict fuel efuel (a0 : A) order,
  let st0 := mkS (estate0 cache0) [mkCl KRoot [(VRoot, true)]] ps0 [] [] a0 0 [] order true [] in
  run_loop_dp U P A a_ge a_conflict fuel efuel st0 None 0 0 = false.
Proof. exact root_run_decide_never_panics. Qed.

(* the run in question is what solve starts with: run_sat for the root from the initial state *)
Theorem C04_root_run_is_run_loop : forall U P A a_ge a_conflict fuel efuel (a0 : A) order,
  let st0 := mkS (estate0 cache0) [mkCl KRoot [(VRoot, true)]] ps0 [] [] a0 0 [] order true [] in
  run_sat U P a_ge a_conflict fuel efuel st0 None = run_loop U P a_ge a_conflict fuel efuel st0 None 0 0.
Proof. exact root_run_is_run_loop. Qed.
