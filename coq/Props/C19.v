(* C19 -- Mapping behaves as a map from ids to values, incl. iteration and serde. *)
From Coq Require Import List NArith Sorting.Sorted.
From Resolvo Require Import Data.Mapping.
Import ListNotations.
Open Scope N_scope.

Theorem C19_insert : forall (m : mapping N) id v, Inv m ->
  let '(m', r) := insert m id v in
  Inv m' /\ r = get m id /\ (forall j, get m' j = if N.eqb j id then Some v else get m j).
Proof. exact (@insert_spec N). Qed.

Theorem C19_unset : forall (m : mapping N) id, Inv m ->
  let '(m', r) := unset m id in
  Inv m' /\ r = get m id /\ (forall j, get m' j = if N.eqb j id then None else get m j).
Proof. exact (@unset_spec N). Qed.

(* iter yields every stored pair exactly once in ascending id order *)
Theorem C19_iter : forall (m : mapping N), Inv m ->
  StronglySorted keys_lt (iter m) /\ (forall j v, In (j, v) (iter m) <-> get m j = Some v).
Proof. exact (@iter_spec N). Qed.

Theorem C19_len : forall (m : mapping N), Inv m -> len m = N.of_nat (length (iter m)).
Proof. exact (@len_spec N). Qed.

Theorem C19_is_empty : forall (m : mapping N), Inv m -> (is_empty m = true <-> iter m = []).
Proof. exact (@is_empty_spec N). Qed.

Theorem C19_serde_roundtrip : forall (m : mapping N), Inv m ->
  let m' := deserialize (serialize m) in
  Inv m' /\ (forall j, get m' j = get m j) /\ len m' = len m.
Proof. exact (@serde_roundtrip N). Qed.

(* the invariant holds in every state reachable by any operation sequence *)
Theorem C19_reachable_inv : forall n ops, Inv (mfinal (with_capacity n) ops).
Proof. exact reachable_inv. Qed.

(* non-vacuity: a sparse multi-chunk state satisfies the invariant and iterates fully *)
Example C19_nonvacuous :
  iter (mfinal (with_capacity 1) [MInsert 200 1; MInsert 5 2; MInsert 700 3; MUnset 200; MInsert 130 4])
  = [(5, 2); (130, 4); (700, 3)].
Proof. vm_compute. reflexivity. Qed.
