(* C20 -- SolverCache answers are consistent with the provider and stable.
   Statements only; proofs are in Data/Cache.v.  [cfinal U cempty ops] is the
   cache state after an arbitrary sequence [ops] of public queries on a fresh
   cache over an arbitrary provider [U]. *)
From Coq Require Import List NArith Sorting.Permutation.
From Resolvo Require Import Base.Provider Spec.Spec Data.Cache.
Import ListNotations.
Open Scope N_scope.

(* matching / non-matching answers are the two filters of the package's
   candidate list and together a permutation of it *)
Theorem C20_partition_spec : forall U ops v,
  let s := cfinal U cempty ops in
  let c := p_cands U (p_vs_name U v) in
  snd (step U s (CCands (p_vs_name U v))) = ACands c (p_favored U (p_vs_name U v)) /\
  snd (step U s (CMatching v)) = AList (filter (p_match U v) c) /\
  snd (step U s (CNonMatching v)) = AList (filter (fun x => negb (p_match U v x)) c) /\
  Permutation (filter (p_match U v) c ++ filter (fun x => negb (p_match U v x)) c) c.
Proof. exact partition_spec. Qed.

(* sorted candidates = Spec.sorted_cands; if the provider's sort permutes a
   duplicate-free matching list: a permutation of it, favored first, the others
   in the provider's order *)
Theorem C20_sorted_spec : forall U ops v,
  let s := cfinal U cempty ops in
  let m := matching U v in
  let r := sorted_cands U v in
  let fav := p_favored U (p_vs_name U v) in
  snd (step U s (CSorted (RSingle v))) = AList r /\
  (Permutation (p_sort U m) m -> NoDup m ->
   Permutation r m /\
   (forall f, fav = Some f -> In f m -> hd_error r = Some f) /\
   (forall f, fav = Some f -> remove N.eq_dec f r = remove N.eq_dec f (p_sort U m)) /\
   (fav = None -> r = p_sort U m)).
Proof. exact sorted_spec. Qed.

(* the table provider's sort is a permutation *)
Theorem C20_table_sort_perm : forall u l, Permutation (p_sort (table_provider u) l) l.
Proof. exact table_sort_perm. Qed.

(* a requirement (single or union) yields Spec.req_cands: member lists in listed order *)
Theorem C20_union_spec : forall U ops r,
  snd (step U (cfinal U cempty ops) (CSorted r)) = AList (req_cands U r).
Proof. exact union_spec. Qed.

Theorem C20_deps_spec : forall U ops x,
  snd (step U (cfinal U cempty ops) (CDeps x)) = ADeps (p_deps U x).
Proof. exact deps_spec. Qed.

(* a query repeated after any further queries returns the same answer, leaves
   the whole state unchanged and makes no provider call *)
Theorem C20_cache_idempotent : forall U ops1 o ops2,
  let s1 := cfinal U cempty ops1 in
  let s2 := fst (step U s1 o) in
  let s3 := cfinal U s2 ops2 in
  fst (step U s3 o) = s3 /\
  (is_avail o = false -> snd (step U s3 o) = snd (step U s1 o)) /\
  c_log (fst (step U s3 o)) = c_log s3 /\
  o_calls (snd (step_out U s3 o)) = [] /\
  o_probes (snd (step_out U s3 o)) = [].
Proof. exact cache_idempotent. Qed.

(* the calls / probes reported per operation are exactly what it appended to the log *)
Theorem C20_step_log_delta : forall U ops o,
  let s := cfinal U cempty ops in
  map obs (c_log (fst (step U s o))) = map obs (c_log s) ++ o_calls (snd (step_out U s o)) /\
  c_seen (fst (step U s o)) = c_seen s ++ o_probes (snd (step_out U s o)).
Proof. exact step_log_delta. Qed.

(* in any run no provider call is made twice for the same name / (version set,
   inverse) / version set sort / solvable, and every sort gets the matching list *)
Theorem C20_at_most_once : forall U ops,
  let s := cfinal U cempty ops in
  NoDup (map call_key (c_log s)) /\
  (forall v l, In (KSort v l) (c_log s) -> l = matching U v).
Proof. exact at_most_once. Qed.

(* availability = dependencies already fetched, or hinted by an already fetched package *)
Theorem C20_available_spec : forall U ops x,
  let s := cfinal U cempty ops in
  (available s x = true <->
   In (KDeps x) (c_log s) \/ exists n, In (KCands n) (c_log s) /\ In x (hinted U n)) /\
  (available s x = true <->
   lookup x (c_deps s) <> None \/ exists n, lookup n (c_cands s) <> None /\ In x (hinted U n)).
Proof. exact available_spec. Qed.

(* availability answers given to sort_candidates are determined by the calls
   logged before that sort; at-most-once as a check on the observable log *)
Theorem C20_probe_spec : forall U ops,
  let s := cfinal U cempty ops in
  let log := map obs (c_log s) in
  c_seen s = oprobes U (rev log) /\ once_b log = true.
Proof. exact probe_spec. Qed.

(* non-vacuity: package 0 = {0,1,2} listed [2;0;1] with ranks 1,0,2, favored 2,
   hint Some [1]; package 1 = {3} hint All; vs0 = all of p0, vs1 = {0,2} of p0,
   vs2 = p1; union 0 = [vs1; vs2] *)
Example C20_nonvacuous :
  crun (mkU [mkSol 0 1 (Known [] []); mkSol 0 0 (Known [RSingle 2] []); mkSol 0 2 Unknown;
             mkSol 1 0 (Known [] [])]
            [mkVs 0 [0; 1; 2]; mkVs 0 [0; 2]; mkVs 1 [3]]
            [[1; 2]]
            [mkPkg false [2; 0; 1] (Some 2) None [] (HSome [1]); mkPkg false [3] None None [] HAll])
       [CAvail 1; CSorted (RSingle 0); CAvail 1; CAvail 0; CSorted (RUnion 0); CSorted (RUnion 0);
        CNonMatching 1; CDeps 0; CAvail 0; CMatching 1]
  = [mkOut (ABool false) [] [];
     mkOut (AList [2; 1; 0]) [OCands 0; OFilter 0 false; OSort [2; 0; 1]] [(2, false); (0, false); (1, true)];
     mkOut (ABool true) [] [];
     mkOut (ABool false) [] [];
     mkOut (AList [2; 0; 3]) [OFilter 1 false; OSort [2; 0]; OCands 1; OFilter 2 false; OSort [3]]
           [(2, false); (0, false); (3, true)];
     mkOut (AList [2; 0; 3]) [] [];
     mkOut (AList [1]) [OFilter 1 true] [];
     mkOut (ADeps (Known [] [])) [ODeps 0] [];
     mkOut (ABool true) [] [];
     mkOut (AList [2; 0]) [] []].
Proof. vm_compute. reflexivity. Qed.
