(* C18 -- Pool interning is stable: equal values share ids and references stay valid.
   Statements only; the proofs live in Data/Arena.v and Data/Pool.v. *)
From Coq Require Import List NArith.
From Resolvo Require Import Gen.Consts Data.Arena Data.Pool.
Import ListNotations.
Open Scope N_scope.

(* Arena: for every sequence of allocs vs on a fresh arena (any initial
   capacity n) and every continuation ws: ids are dense (|vs| ids, next id = |vs|),
   get (alloc x) = x, every existing id reads the same value from the same
   (chunk, offset) location after the later allocs, every occupied physical slot
   is untouched, and no chunk ever holds more than CHUNK_SIZE elements. *)
Theorem C18_arena_alloc_stable : forall (n : N) (vs ws : list N),
  let a := allocs (with_capacity n) vs in
  let a' := allocs a ws in
  len a = N.of_nat (length vs) /\
  (forall v, snd (alloc a v) = N.of_nat (length vs)) /\
  (forall k x, nth_error vs k = Some x -> get a (N.of_nat k) = Some x) /\
  (forall id, id < len a ->
     get a id <> None /\ get a' id = get a id /\
     get a id = slot a (fst (loc id)) (snd (loc id)) /\
     get a' id = slot a' (fst (loc id)) (snd (loc id))) /\
  (forall c o x, slot a c o = Some x -> slot a' c o = Some x) /\
  (forall c, clen a c <= CS /\ clen a' c <= CS).
Proof. exact (@alloc_stable N). Qed.

(* the pool invariant holds after every operation sequence *)
Theorem C18_reachable_inv : forall ops, PInv (pfinal pnew ops).
Proof. exact reachable_inv. Qed.

(* intern k1, then any operations, then intern k2 of the same sort (name /
   string / version set): same id iff same value *)
Theorem C18_intern_same_iff : forall s k1 k2 ops, PInv s -> ikind k1 = ikind k2 ->
  exists i1 i2,
    snd (pstep s (PIntern k1)) = OId i1 /\
    snd (pstep (pfinal (fst (pstep s (PIntern k1))) ops) (PIntern k2)) = OId i2 /\
    (i1 = i2 <-> k1 = k2).
Proof. exact intern_same_iff. Qed.

(* interning an already interned value returns its id and changes nothing *)
Theorem C18_intern_idem : forall s k id, PInv s -> interned s k id ->
  pstep s (PIntern k) = (s, OId id).
Proof. exact intern_idem. Qed.

(* resolve (intern v) = v, immediately and after any further operations; for a
   version set also its package name; and re-interning is then a no-op *)
Theorem C18_resolve_intern : forall s k ops, PInv s ->
  exists id, snd (pstep s (PIntern k)) = OId id /\
    let s' := pfinal (fst (pstep s (PIntern k))) ops in
    interned s' k id /\
    snd (pstep s' (PResolve (ikind k) id)) = OVal (Some (kview k)) /\
    (forall n v, k = IKVs n v -> snd (pstep s' (PResolveVsName id)) = OVal (Some [n])) /\
    pstep s' (PIntern k) = (s', OId id).
Proof. exact resolve_intern. Qed.

(* lookup_package_name finds exactly the interned names *)
Theorem C18_lookup_name : forall s v id, PInv s ->
  (snd (pstep s (PLookupName v)) = OOpt (Some id) <-> interned s (IKName v) id).
Proof. exact lookup_name_spec. Qed.

(* the k-th intern_solvable returns id k and that id resolves to it ever after *)
Theorem C18_solvable_dense : forall ops n r ops',
  let s := pfinal pnew ops in
  snd (pstep s (PInternSolv n r)) = OId (count_solv ops) /\
  snd (pstep (pfinal (fst (pstep s (PInternSolv n r))) ops') (PResolve KSolv (count_solv ops)))
    = OVal (Some [n; r]).
Proof. exact solvable_dense. Qed.

Theorem C18_union_dense : forall ops f others ops',
  let s := pfinal pnew ops in
  snd (pstep s (PInternUnion f others)) = OId (count_union ops) /\
  snd (pstep (pfinal (fst (pstep s (PInternUnion f others))) ops') (PResolveUnion (count_union ops)))
    = OVal (Some (f :: others)).
Proof. exact union_dense. Qed.

(* the ids that resolve (do not panic) are exactly 0 .. len-1 *)
Theorem C18_ids_dense : forall s, PInv s ->
  forall k id, id < klen s k <-> resolve s k id <> None.
Proof. exact ids_dense. Qed.

(* whatever a (chunk, offset) location / an id reads now, it reads after any
   number of further operations *)
Theorem C18_refs_stable : forall s ops, PInv s ->
  (forall k c o x, read s k c o = Some x -> read (pfinal s ops) k c o = Some x) /\
  (forall k id x, resolve s k id = Some x -> resolve (pfinal s ops) k id = Some x).
Proof. exact refs_stable. Qed.

(* a reference kept at any time and looked through after any further operations:
   same location, same value *)
Theorem C18_hold_check : forall s k id v ops, PInv s ->
  snd (pstep s (PHold k id)) = OVal (Some v) ->
  let s' := pfinal (fst (pstep s (PHold k id))) ops in
  pstep s' (PCheck (N.of_nat (length (held s)))) = (s', OHeld true (Some v)).
Proof. exact hold_check. Qed.

(* no chunk of any pool arena ever exceeds its reserved capacity *)
Theorem C18_chunks_bounded : forall ops, let s := pfinal pnew ops in
  (forall k c, kclen s k c <= CHUNK_SIZE) /\ (forall c, clen (unions s) c <= CHUNK_SIZE).
Proof. exact chunks_bounded. Qed.

(* non-vacuity: 600 names and 300 solvables interned (several chunk boundaries
   crossed) after a reference to name 0 was taken; the reference still reads 7
   at the same location, re-interning 7 gives id 0, elements 127|128 are in
   different chunks and 128|129 in the same one, an id that was never handed
   out does not resolve *)
Example C18_nonvacuous :
  let nr a n := map N.of_nat (seq a n) in
  skipn 902 (prun ([PIntern (IKName 7); PHold KName 0]
                   ++ map (fun v => PIntern (IKName v)) (nr 1000 600)%nat
                   ++ map (fun v => PInternSolv 0 v) (nr 0 300)%nat
                   ++ [PCheck 0; PIntern (IKName 7); PIntern (IKName 1200); PResolve KName 200;
                       PLayout KName 128; PLayout KName 129; PResolve KSolv 299; PResolve KSolv 300;
                       PLookupName 1599; PLookupName 5]))
  = [OHeld true (Some [7]); OId 0; OId 201; OVal (Some [1199]); OBool false; OBool true;
     OVal (Some [0; 299]); OVal None; OOpt (Some 600); OOpt None].
Proof. vm_compute. reflexivity. Qed.
