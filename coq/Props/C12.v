(* C12 -- cancellation is honoured promptly and faithfully. *)
From Resolvo Require Import Async.HistoryProofs.

Theorem C12_cancel_quiet_checker : forall h, cancel_quietb false h = true <-> CancelQuiet h.
Proof. exact cancel_quietb_spec. Qed.
