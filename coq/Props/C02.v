(* C02 -- Unsolvable iff no solution exists. *)
From Resolvo Require Import Spec.Oracle Cdcl.CheckRun.

(* the independent reference decision procedure is sound and complete *)
Theorem C02_reference_correct : forall u P,
  o_solvable u P = true <-> exists S, valid (table_provider u) P S [].
Proof. exact o_solvable_spec. Qed.
Check C02_reference_correct : forall u P,
  o_solvable u P = true <-> exists S, valid (table_provider u) P S [].

(* E1, for every provider: every valid selection satisfies every clause the
   encoder may add *)
Theorem C02_facts_hold : forall U P idx, WF U -> forall S c,
  valid U P S [] -> factb U P idx c = true -> cl_true (a_sel U idx S) (cl_lits c) = true.
Proof. exact E1. Qed.

(* reverse unit propagation is a sound entailment check (certifies learnt clauses) *)
Theorem C02_rup_sound : forall F c, rup F c = true -> entails F c.
Proof. exact rup_sound. Qed.

(* a clause database made of facts and RUP-certified learnt clauses that
   propagates to a conflict from the root alone refutes the problem *)
Theorem C02_refutation_sound : forall U P, WF U -> forall db,
  check_unsat U P db = true -> ~ solvable U P.
Proof. exact check_unsat_sound. Qed.

(* trace inclusion: an accepted Unsolvable log means no valid selection exists *)
Theorem C02_trace_no_false_unsat : forall u P lg,
  check_unsat_log u P lg = true -> ~ solvable (table_provider u) P.
Proof. exact unsat_log_sound. Qed.
Check C02_trace_no_false_unsat : forall u P lg,
  check_unsat_log u P lg = true -> ~ solvable (table_provider u) P.

(* ... hence a solvable problem is never (acceptably) reported Unsolvable; with
   C01 every run that ends on a solvable problem ends in a valid solution *)
Theorem C02_solvable_not_refuted : forall u P lg,
  solvable (table_provider u) P -> check_unsat_log u P lg = false.
Proof. exact solvable_not_refuted. Qed.

(* ---- the encoder model (Async/Encoder.v, tied to encoding.rs + cache.rs by
   clause-for-clause equality on every synchronous run) ---- *)
From Resolvo Require Import Async.EncoderProofs.

(* for every provider, problem, cache contents, trail history, sequence of
   encode requests and completion order, every clause the encoder adds is a fact ... *)
Theorem C02_encoder_adds_facts : forall U P, WF U -> forall c evs st work,
  enc_run U P (estate0 c) [] [] evs = Some (st, work) ->
  forall x, In x (e_db st) -> factb U P (trk_idx (e_trk st)) x = true.
Proof. exact enc_facts. Qed.

(* ... so the encoder never excludes a valid selection: Unsolvable, which is
   derived from these clauses alone, can only be reported when there is none *)
Theorem C02_encoder_sound : forall U P, WF U -> forall c evs st work S,
  enc_run U P (estate0 c) [] [] evs = Some (st, work) -> valid U P S [] ->
  forall x, In x (e_db st) -> cl_true (a_sel U (trk_idx (e_trk st)) S) (cl_lits x) = true.
Proof. exact enc_sound. Qed.
