(* C02 -- Unsolvable iff no solution exists. *)
From Resolvo Require Import Spec.Oracle.

(* the independent reference decision procedure is sound and complete *)
Theorem C02_reference_correct : forall u P,
  o_solvable u P = true <-> exists S, valid (table_provider u) P S [].
Proof. exact o_solvable_spec. Qed.
Check C02_reference_correct : forall u P,
  o_solvable u P = true <-> exists S, valid (table_provider u) P S [].
