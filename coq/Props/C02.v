(* C02 -- Unsolvable iff no solution exists. *)
From Resolvo Require Import Spec.Oracle Cdcl.CheckRun.

(* the independent reference decision procedure is sound and complete *)
Theorem C02_reference_correct : forall u P,
  o_solvable u P = true <-> exists S, valid (table_provider u) P S [].
Proof. exact o_solvable_spec. Qed.
Check C02_reference_correct : forall u P,
  o_solvable u P = true <-> exists S, valid (table_provider u) P S [].

(* E1, for every provider: every valid selection satisfies every clause the
   encoder may add *)
Theorem C02_facts_hold : forall U P idx, WF U -> forall S c,
  valid U P S [] -> factb U P idx c = true -> cl_true (a_sel U idx S) (cl_lits c) = true.
Proof. exact E1. Qed.

(* reverse unit propagation is a sound entailment check (certifies learnt clauses) *)
Theorem C02_rup_sound : forall F c, rup F c = true -> entails F c.
Proof. exact rup_sound. Qed.

(* a clause database made of facts and RUP-certified learnt clauses that
   propagates to a conflict from the root alone refutes the problem *)
Theorem C02_refutation_sound : forall U P, WF U -> forall db,
  check_unsat U P db = true -> ~ solvable U P.
Proof. exact check_unsat_sound. Qed.

(* trace inclusion: an accepted Unsolvable log means no valid selection exists *)
Theorem C02_trace_no_false_unsat : forall u P lg,
  check_unsat_log u P lg = true -> ~ solvable (table_provider u) P.
Proof. exact unsat_log_sound. Qed.
Check C02_trace_no_false_unsat : forall u P lg,
  check_unsat_log u P lg = true -> ~ solvable (table_provider u) P.

(* ... hence a solvable problem is never (acceptably) reported Unsolvable; with
   C01 every run that ends on a solvable problem ends in a valid solution *)
Theorem C02_solvable_not_refuted : forall u P lg,
  solvable (table_provider u) P -> check_unsat_log u P lg = false.
Proof. exact solvable_not_refuted. Qed.

(* ---- the encoder model (Async/Encoder.v, tied to encoding.rs + cache.rs by
   clause-for-clause equality on every synchronous run) ---- *)
From Resolvo Require Import Async.EncoderProofs.

(* for every provider, problem, cache contents, trail history, sequence of
   encode requests and completion order, every clause the encoder adds is a fact ... *)
Theorem C02_encoder_adds_facts : forall U P, WF U -> forall c evs st work,
  enc_run U P (estate0 c) [] [] evs = Some (st, work) ->
  forall x, In x (e_db st) -> factb U P (trk_idx (e_trk st)) x = true.
Proof. exact enc_facts. Qed.

(* ... so the encoder never excludes a valid selection: Unsolvable, which is
   derived from these clauses alone, can only be reported when there is none *)
Theorem C02_encoder_sound : forall U P, WF U -> forall c evs st work S,
  enc_run U P (estate0 c) [] [] evs = Some (st, work) -> valid U P S [] ->
  forall x, In x (e_db st) -> cl_true (a_sel U (trk_idx (e_trk st)) S) (cl_lits x) = true.
Proof. exact enc_sound. Qed.

(* ---- conflict analysis itself (Cdcl/Analyze.v: model of Solver::analyze --
   first-UIP resolution over the trail with levels; every analysis of every hook
   log must EQUAL the model: learnt clause literal for literal, derivation list,
   pops, backjump level, asserted literal) ---- *)
From Resolvo Require Import Cdcl.AnalyzeRunProofs.

(* for every clause database, trail and conflicting clause: the learnt clause
   is entailed by the clauses it was derived from (side conditions evaluated per
   analysis by analysis_ok) *)
Theorem C02_analyze_sound : forall db tr conf r,
  analyze db tr conf = Some r -> analysis_ok db tr conf r = true ->
  forall a, (forall j c, In j (r_why r) -> nth_error db (N.to_nat j) = Some c -> cl_true a (cl_lits c) = true) ->
  cl_true a (r_learnt r) = true.
Proof. exact analyze_sound. Qed.

(* an accepted replay of a hook log: every learnt clause of the database follows
   from its recorded antecedents *)
Theorem C02_analyses_entail : forall db evs n,
  check_analyses db evs = (n, true) ->
  forall id c, nth_error db (N.to_nat id) = Some c -> is_learnt c = true -> learnt_entailed db id.
Proof. exact analyses_entail. Qed.

(* the clauses analyze_unsolvable collects for the report refute "root installed":
   an Unsolvable verdict whose conflict equals the model's and whose database
   consists of facts is a correct verdict *)
From Resolvo Require Import Cdcl.UnsolvableProofs.
Theorem C02_unsolvable_core_refutes : forall db evs n conf core,
  check_analyses db evs = (n, true) ->
  check_unsolvable db evs conf core = (true, true) ->
  forall a : asg, a VRoot = true ->
  (forall i c, In i core -> nth_error db (N.to_nat i) = Some c -> cl_true a (cl_lits c) = true) -> False.
Proof. exact checked_conflict_is_refutation. Qed.

(* the conflicts Solver::propagate reports (model: Cdcl/Propagate.v, compared with
   the implementation at every call) are clauses falsified by the trail, and its
   assignments are justified: the inputs of conflict analysis are genuine *)
From Resolvo Require Import Cdcl.PropagateHyp.
Theorem C02_checked_propagate_sound : forall db level asserts units st st' r,
  prop_hyps db asserts units st = true ->
  propagate db level asserts units st = Some (st', r) ->
  grows db (ps_trail st) (ps_trail st') /\
  (forall o id, r = Some (o, id) -> exists c, nth_error db (N.to_nat id) = Some c /\ falsified (ps_trail st') (cl_lits c) = true).
Proof. exact checked_propagate_sound. Qed.

(* in every state of the solver model (Cdcl/Solver.v) the non-learnt, non-root clauses are facts:
   the whole solver never holds an encoder clause that a valid selection violates *)
From Resolvo Require Import Cdcl.SolverProofs.
Theorem C02_solver_model_holds_only_facts : forall U P A (st : sstate A),
  SInv U P A st -> forall c, In c (s_db st) -> enc_kind c = true ->
  factb U P (trk_idx (e_trk (s_enc st))) c = true.
Proof. exact sinv_facts. Qed.

(* on a trail with the level structure of a CDCL run (levels do not increase towards the older
   entries, every entry is justified by its reason clause or is the first of its level, no
   variable twice) the side conditions of C02_analyze_sound hold by themselves: the analysis
   never resolves on a decision, and every variable it has seen that survives the pops is in
   the learnt clause *)
From Resolvo Require Import Cdcl.AnalyzeOk.
Theorem C02_analysis_ok_on_structured_trails : forall db tr conf r,
  analyze db tr conf = Some r ->
  tnd tr -> sortedL tr -> justL db tr ->
  (forall c, nth_error db (N.to_nat conf) = Some c -> falsified tr (cl_lits c) = true) ->
  analysis_ok db tr conf r = true /\ go_facts tr (top_level tr) 0 r.
Proof. exact analyze_ok. Qed.

(* ---- THE solver model as a whole never reports Unsolvable for a problem that has a
   valid selection (Cdcl/SolverSound.v): for every well-formed provider, problem,
   fuel, activity function and completion order of the encoder's futures -- provided
   the side conditions the model accumulates in s_ok held (analysis_ok of every
   conflict analysis, the second component of analyze_unsolvable; evaluated on every
   run by the whole-run correspondence, and C02_analysis_ok_on_structured_trails
   proves the first on trails with the level structure).  The implementation equals
   this model on every run: result, trail events, clause database, provider calls. ---- *)
From Resolvo Require Import Cdcl.SolverSound.
Theorem C02_solver_model_no_false_unsat : forall U P, WF U -> forall A a_ge a_conflict fuel efuel (a0 : A) order core st,
  solve U P a_ge a_conflict fuel efuel a0 order = (OUnsat core, st) -> s_ok st = true ->
  forall Sel, ~ valid U P Sel [].
Proof. exact solve_no_false_unsat. Qed.

(* ---- and those side conditions hold on EVERY run of the model (Cdcl/SolverLevels.v): the
   level structure of the trail (levels sorted, every entry justified by its clause or opening
   its level, the root at the bottom, assertions in force) is an invariant of the whole loop
   nest -- decisions, propagation, conflict analysis with backjump, rejected soft requirements,
   restarts after lazily added clauses -- so analysis_ok holds at every conflict analysis and
   the side condition of the conflict report holds at the end. ---- *)
From Resolvo Require Import Cdcl.SolverLevels.
Theorem C02_solver_model_side_conditions_hold : forall U P, WF U -> forall A a_ge a_conflict fuel efuel (a0 : A) order o st,
  solve U P a_ge a_conflict fuel efuel a0 order = (o, st) -> s_ok st = true.
Proof. exact solve_ok. Qed.

(* ---- hence, with no side condition left: the solver model never answers Unsolvable for a
   problem that has a valid selection, for every well-formed provider, problem, fuel,
   activity function and completion order. ---- *)
Theorem C02_solver_model_never_false_unsat : forall U P, WF U -> forall A a_ge a_conflict fuel efuel (a0 : A) order core st,
  solve U P a_ge a_conflict fuel efuel a0 order = (OUnsat core, st) ->
  forall Sel, ~ valid U P Sel [].
Proof. exact solve_never_false_unsat. Qed.
