(* C03 -- a conflict report is a truthful, self-contained proof of unsatisfiability. *)
From Resolvo Require Import Conflict.GraphCheck.

(* every edge accepted by the checker states a true fact about the provider's
   data, and every requires group shows exactly the requirement's candidates *)
Theorem C03_truthful : forall U P g, truthfulb U P g = true -> Truthful U P g.
Proof. exact truthfulb_sound. Qed.

(* every node is reachable from the root *)
Theorem C03_reachable : forall g, reachableb g = true ->
  forall i, (N.to_nat i < length (g_nodes g))%nat -> Reach g i.
Proof. exact reachableb_sound. Qed.

(* the facts displayed in the graph alone, with one-per-package for nodes joined
   by forbid edges, admit no assignment that installs the root *)
Theorem C03_graph_refutes : forall U g, refutesb U g = true ->
  forall a, ~ (forall d, In d (displayed U g) -> cl_true a d = true).
Proof. exact refutesb_sound. Qed.

(* the refutation procedure used for it (unit propagation + splitting) is sound *)
Theorem C03_split_sound : forall fuel F, split_unsat fuel F [] = true ->
  forall a, ~ (forall d, In d F -> cl_true a d = true).
Proof. exact split_unsat_refutes. Qed.

(* the clause set reported in the Conflict (learnt clauses expanded through their
   recorded antecedents, transitively) is unsatisfiable together with the root *)
Theorem C03_core_unsat : forall db core, check_core db core = true ->
  forall a, a VRoot = true ->
  (forall j c, In j core -> nth_error db (N.to_nat j) = Some c -> cl_true a (cl_lits c) = true) -> False.
Proof. exact check_core_sound. Qed.

(* ---- Conflict::graph itself (Conflict/GraphBuild.v: the graph construction of
   src/conflict.rs, node for node and edge for edge in petgraph's index order,
   including the swap-remove of the unresolved node; compared with the
   implementation's graph for equality on every Unsolvable run) ---- *)
From Resolvo Require Import Conflict.GraphBuildProofs.

(* truthful by construction: for every provider, problem and clause list, a
   graph built from facts is truthful *)
Theorem C03_built_graph_truthful : forall U P idx cls,
  Forall (fun c => factb U P idx c = true) cls -> Truthful U P (build_graph U cls).
Proof. exact build_graph_truthful. Qed.

(* in the form the check uses: whatever clauses of an accepted clause database
   the conflict names, the graph built from them is truthful *)
Theorem C03_graph_of_checked_db_truthful : forall U P db core,
  facts_ok U P db = true -> Truthful U P (build_graph U (core_clauses db core)).
Proof. exact graph_of_checked_db_truthful. Qed.

(* ---- Solver::analyze_unsolvable itself (Cdcl/Unsolvable.v: the walk over the
   root-level trail that collects the clauses of the report, learnt clauses
   expanded depth first through their recorded derivations; compared with the
   implementation's Conflict for equality, in order, on every Unsolvable run) ---- *)
From Resolvo Require Import Cdcl.UnsolvableProofs.

(* for every clause database, trail and conflicting clause: the clauses the model
   collects cannot all hold once the root is installed (side conditions evaluated
   per run by the second component: conflicting clause falsified, reasons of the
   involved assignments genuine, antecedents of learnt clauses older) *)
Theorem C03_analyze_unsolvable_refutes : forall db tr conf core,
  unsolvable db tr conf = Some (core, true) ->
  (forall id c, nth_error db (N.to_nat id) = Some c -> is_learnt c = true -> learnt_entailed db id) ->
  forall a : asg, a VRoot = true ->
  (forall i c, In i core -> nth_error db (N.to_nat i) = Some c -> cl_true a (cl_lits c) = true) -> False.
Proof. exact core_unsat. Qed.

(* in the form the check uses: an accepted replay of the conflict analyses plus an
   accepted comparison of the conflict make the reported clauses a refutation *)
Theorem C03_checked_conflict_is_refutation : forall db evs n conf core,
  check_analyses db evs = (n, true) ->
  check_unsolvable db evs conf core = (true, true) ->
  forall a : asg, a VRoot = true ->
  (forall i c, In i core -> nth_error db (N.to_nat i) = Some c -> cl_true a (cl_lits c) = true) -> False.
Proof. exact checked_conflict_is_refutation. Qed.

(* the hypotheses are met by a run whose last propagation came from a learnt clause *)
Example C03_analyze_unsolvable_example :
  let db := [mkCl KRoot [(VRoot, true)];
             mkCl (KLock 0 1) [(VRoot, false); (VSol 1, true)];
             mkCl (KExcluded 1 0) [(VSol 1, false)];
             mkCl (KLearnt [1; 2]%N) [(VSol 1, false)]] in
  let tr := [mkT (VSol 1, false) 1 3; mkT (VRoot, true) 1 0] in
  unsolvable db tr 1 = Some ([1; 2]%N, true).
Proof. vm_compute. reflexivity. Qed.

(* the side condition (second component true) holds by itself wherever the solver calls
   analyze_unsolvable: on a one-level trail with the root at the bottom, every entry justified
   by its clause, a falsified conflicting clause and derivations recorded from older clauses
   (Cdcl/TrailLevels.v); Cdcl/SolverLevels.v proves that these hold at every such call of the
   solver model (C02_solver_model_side_conditions_hold) *)
From Resolvo Require Import Cdcl.TrailLevels.
Theorem C03_analyze_unsolvable_side_condition : forall db tr conf core ok,
  unsolvable db tr conf = Some (core, ok) ->
  Rooted tr -> tnd tr -> sortedL tr -> justL db tr -> (top_level tr <= 1)%N -> why_older db ->
  (forall c, nth_error db (N.to_nat conf) = Some c -> falsified tr (cl_lits c) = true) ->
  ok = true.
Proof. exact unsolvable_ok. Qed.
