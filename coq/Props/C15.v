(* C15 -- one solvable per package for any number of candidates and any
   discovery order: the binary at-most-one encoding of AtMostOnceTracker::add. *)
From Coq Require Import List Arith Bool.
From Resolvo Require Import Enc.Amo.
Import ListNotations.

(* for every insertion sequence (any n, any order, re-insertions allowed): no
   assignment satisfies the produced clauses with two registered variables true *)
Theorem C15_exclusive : forall xs t cs a g x y,
  run empty [] xs = (t, cs) -> In x (vars t) -> In y (vars t) -> x <> y ->
  a x = true -> a y = true -> forallb (sat a g) cs = false.
Proof. exact amo_exclusive. Qed.

(* every registered variable can be selected alone *)
Theorem C15_each_selectable : forall xs t cs x,
  run empty [] xs = (t, cs) -> In x (vars t) ->
  exists g, forallb (sat (fun v => Nat.eqb v x) g) cs = true.
Proof. exact amo_each_selectable. Qed.

(* selecting none is always possible *)
Theorem C15_none_selectable : forall xs t cs g,
  run empty [] xs = (t, cs) -> forallb (sat (fun _ => false) g) cs = true.
Proof. exact amo_none_selectable. Qed.

(* the encoding invariant holds after every insertion sequence *)
Theorem C15_invariant : forall xs t cs, run empty [] xs = (t, cs) -> Inv t cs.
Proof. intros xs t cs H. exact (run_inv xs empty [] t cs inv_empty H). Qed.

(* re-adding is a no-op *)
Theorem C15_readd_noop : forall t x, In x (vars t) -> add t x = (t, []).
Proof. exact add_idem. Qed.
