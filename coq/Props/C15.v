(* C15 -- one solvable per package for any number of candidates and any
   discovery order: the binary at-most-one encoding of AtMostOnceTracker::add. *)
From Coq Require Import List Arith Bool.
From Resolvo Require Import Enc.Amo.
Import ListNotations.

(* for every insertion sequence (any n, any order, re-insertions allowed): no
   assignment satisfies the produced clauses with two registered variables true *)
Theorem C15_exclusive : forall xs t cs a g x y,
  run empty [] xs = (t, cs) -> In x (vars t) -> In y (vars t) -> x <> y ->
  a x = true -> a y = true -> forallb (sat a g) cs = false.
Proof. exact amo_exclusive. Qed.

(* every registered variable can be selected alone *)
Theorem C15_each_selectable : forall xs t cs x,
  run empty [] xs = (t, cs) -> In x (vars t) ->
  exists g, forallb (sat (fun v => Nat.eqb v x) g) cs = true.
Proof. exact amo_each_selectable. Qed.

(* selecting none is always possible *)
Theorem C15_none_selectable : forall xs t cs g,
  run empty [] xs = (t, cs) -> forallb (sat (fun _ => false) g) cs = true.
Proof. exact amo_none_selectable. Qed.

(* the encoding invariant holds after every insertion sequence *)
Theorem C15_invariant : forall xs t cs, run empty [] xs = (t, cs) -> Inv t cs.
Proof. intros xs t cs H. exact (run_inv xs empty [] t cs inv_empty H). Qed.

(* re-adding is a no-op *)
Theorem C15_readd_noop : forall t x, In x (vars t) -> add t x = (t, []).
Proof. exact add_idem. Qed.

(* ---- the clauses of one insertion are FRESH: each mentions the variable being inserted (which was not
   tracked before) or a helper bit that did not exist before; tracked variables and helper bits only
   grow (Async/EncoderRegistered.v) ---- *)
From Resolvo Require Import Cdcl.SolverRegistered.

Theorem C15_add_emits_fresh_clauses : forall t x t' cs,
  add t x = (t', cs) ->
  (forall y, In y (vars t) -> In y (vars t')) /\ (nh t <= nh t')%nat /\ In x (vars t') /\
  (forall y k b, In (y, k, b) cs -> (y = x /\ ~ In x (vars t)) \/ (nh t <= k)%nat).
Proof. exact amo_add_mono. Qed.

(* every task of the encoder is a step that keeps "the candidates of every Requires clause are registered"
   and extends the database only by clauses whose at-most-one members are fresh with respect to the state
   before the step *)
Theorem C15_encoder_step_registers : forall U P falses st t st' w,
  run_one U P falses st t = (st', w) -> Reg U st st'.
Proof. exact reg_run_one. Qed.

(* in the solver model -- where a candidate is installed and a helper variable is assigned only after it
   was registered (RInv, an invariant of the whole loop nest) -- such a clause never has both literals
   false when it enters the database: a new at-most-one clause cannot be violated unnoticed *)
Theorem C15_new_forbid_clause_not_falsified : forall U A (st : sstate A) c,
  RInv U A st -> fresh_wrt U (s_enc st) c -> forbid_side (tr_lits st) c = true.
Proof. exact fresh_forbid_side. Qed.

(* for every run of the solver model -- with soft requirements too -- the state a solution is read from
   satisfies RInv, and every solvable of the answer had been registered with the at-most-one tracker of its
   package (so the at-most-one clauses of its package speak about it) *)
Theorem C15_solution_members_registered : forall U P, WF U -> forall A a_ge a_conflict fuel efuel (a0 : A) order sol st,
  solve U P a_ge a_conflict fuel efuel a0 order = (OSat sol, st) ->
  RInv U A st /\ forall x, In x sol -> registered U (s_enc st) x.
Proof. exact solve_registered. Qed.
