(* C07 -- compatible preferred candidates are selected exactly. *)
From Resolvo Require Import Spec.Oracle.

Theorem C07_oracle_sound : forall u P G,
  o_greedy u P = Some G -> pr_soft P = [] /\ greedy_ok (table_provider u) P G.
Proof. exact o_greedy_sound. Qed.
Check C07_oracle_sound : forall u P G,
  o_greedy u P = Some G -> pr_soft P = [] /\ greedy_ok (table_provider u) P G.
