(* C07 -- compatible preferred candidates are selected exactly. *)
From Resolvo Require Import Spec.Oracle Cdcl.CheckRun.

Theorem C07_oracle_sound : forall u P G,
  o_greedy u P = Some G -> pr_soft P = [] /\ greedy_ok (table_provider u) P G.
Proof. exact o_greedy_sound. Qed.
Check C07_oracle_sound : forall u P G,
  o_greedy u P = Some G -> pr_soft P = [] /\ greedy_ok (table_provider u) P G.

(* invariant over every run: the trail stays inside the assignment of the greedy selection *)
Theorem C07_run_invariant : forall U P, WF U -> forall db G,
  pr_soft P = [] -> greedy_ok U P G -> facts_ok U P db = true -> learnts_ok [] db = true ->
  forall evs tr tr',
  holds U db G (tlits tr) -> run_events (pr_soft P) db evs tr = Some tr' -> holds U db G (tlits tr').
Proof. exact run_holds. Qed.

(* every run that announces a solution on a greedy_ok problem announces exactly G *)
Theorem C07_greedy_exact : forall U P, WF U -> forall db G,
  pr_soft P = [] -> greedy_ok U P G -> facts_ok U P db = true -> learnts_ok [] db = true ->
  forall evs tr sol,
  run_events (pr_soft P) db evs [] = Some tr -> check_sat U P db (tlits tr) sol = true -> same_set sol G.
Proof. exact greedy_final. Qed.

(* trace inclusion *)
Theorem C07_trace_greedy : forall u P lg sol G,
  check_sat_log u P lg sol = true -> pr_soft P = [] -> greedy_ok (table_provider u) P G -> same_set sol G.
Proof. exact sat_log_greedy. Qed.
Check C07_trace_greedy : forall u P lg sol G,
  check_sat_log u P lg sol = true -> pr_soft P = [] -> greedy_ok (table_provider u) P G -> same_set sol G.

(* ---- Solver::decide itself (Cdcl/Decide.v), compared with the implementation
   at every call: its proposal is always the first candidate, in the provider's
   order, that is not false, of a requirement none of whose candidates is
   installed (rule D1 of the machine the theorems above are about) ---- *)
From Resolvo Require Import Cdcl.DecideProofs.

Theorem C07_decide_legal : forall U act_ge pa db,
  (forall c, In c db -> req_wf U c = true) -> forall d,
  root_first db = true -> lit_istrue pa (VRoot, true) = true ->
  decide U act_ge db pa = Some (Some d) ->
  exists c, nth_error db (N.to_nat (pd_clause d)) = Some c /\
            decision_kind db pa c (VSol (pd_cand d), true) = Some (if is_vroot (pd_parent d) then ERootDec else EDec).
Proof. exact decide_legal. Qed.
