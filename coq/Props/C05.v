(* C05 -- no extraneous solvables. *)
From Resolvo Require Import Spec.Oracle Cdcl.CheckRun.

Theorem C05_oracle_correct : forall u P S,
  o_supported u P S = true <-> (forall s, In s S -> Supp (table_provider u) P S s).
Proof. exact o_supported_spec. Qed.
Check C05_oracle_correct : forall u P S,
  o_supported u P S = true <-> (forall s, In s S -> Supp (table_provider u) P S s).

(* every state reachable by a run of the machine has a legal trail *)
Theorem C05_run_trail_legal : forall soft db evs tr tr',
  trail_ok soft db tr = true -> run_events soft db evs tr = Some tr' -> trail_ok soft db tr' = true.
Proof. exact run_trail_ok. Qed.

(* for every provider, database of facts + certified learnt clauses, and legal
   final trail whose completion satisfies the database: the selection is supported *)
Theorem C05_supported : forall U P, WF U -> forall db tr,
  facts_ok U P db = true -> learnts_ok [] db = true ->
  trail_ok (pr_soft P) db tr = true ->
  (forall c, In c db -> cl_true (asg_of U db (tlits tr)) (cl_lits c) = true) ->
  supported U P (sel_of (tlits tr)).
Proof. exact support_sound. Qed.

(* trace inclusion *)
Theorem C05_trace_supported : forall u P lg sol,
  check_sat_log u P lg sol = true -> supported (table_provider u) P sol.
Proof. exact sat_log_supported. Qed.
Check C05_trace_supported : forall u P lg sol,
  check_sat_log u P lg sol = true -> supported (table_provider u) P sol.
