(* C05 -- no extraneous solvables. *)
From Resolvo Require Import Spec.Oracle Cdcl.CheckRun.

Theorem C05_oracle_correct : forall u P S,
  o_supported u P S = true <-> (forall s, In s S -> Supp (table_provider u) P S s).
Proof. exact o_supported_spec. Qed.
Check C05_oracle_correct : forall u P S,
  o_supported u P S = true <-> (forall s, In s S -> Supp (table_provider u) P S s).

(* every state reachable by a run of the machine has a legal trail *)
Theorem C05_run_trail_legal : forall soft db evs tr tr',
  trail_ok soft db tr = true -> run_events soft db evs tr = Some tr' -> trail_ok soft db tr' = true.
Proof. exact run_trail_ok. Qed.

(* for every provider, database of facts + certified learnt clauses, and legal
   final trail whose completion satisfies the database: the selection is supported *)
Theorem C05_supported : forall U P, WF U -> forall db tr,
  facts_ok U P db = true -> learnts_ok [] db = true ->
  trail_ok (pr_soft P) db tr = true ->
  (forall c, In c db -> cl_true (asg_of U db (tlits tr)) (cl_lits c) = true) ->
  supported U P (sel_of (tlits tr)).
Proof. exact support_sound. Qed.

(* trace inclusion *)
Theorem C05_trace_supported : forall u P lg sol,
  check_sat_log u P lg sol = true -> supported (table_provider u) P sol.
Proof. exact sat_log_supported. Qed.
Check C05_trace_supported : forall u P lg sol,
  check_sat_log u P lg sol = true -> supported (table_provider u) P sol.

(* ---- Solver::propagate itself (Cdcl/Propagate.v: assertions first, then the
   watch lists of watch_map.rs -- a clause that starts watching a literal goes to
   the head of that literal's list, watches move only in Requires and learnt
   clauses, to the first literal that is not false and is not the other watch;
   compared with the implementation at every call: every assignment with its
   level and reason clause, in order, and the conflicting clause) ---- *)
From Resolvo Require Import Cdcl.PropagateHyp.

(* for every clause database and every state satisfying the structural invariant
   of the watch scheme: whatever propagate adds to the trail is justified -- the
   reason clause contains the literal and all its other literals are false under
   the older part of the trail, which is the legality condition of a propagation
   in the abstract machine and the side condition of the conflict-analysis
   theorems -- the clause it reports as conflict is falsified, and the invariant
   holds again afterwards *)
Theorem C05_propagate_sound : forall db level asserts units st st' r,
  WInv db (ps_watch st) (ps_lists st) -> tnodup st ->
  (forall x, In x (asserts ++ units) -> assert_just db st x = true) ->
  propagate db level asserts units st = Some (st', r) ->
  WInv db (ps_watch st') (ps_lists st') /\ tnodup st' /\ grows db (ps_trail st) (ps_trail st') /\
  (forall o id, r = Some (o, id) -> exists c, nth_error db (N.to_nat id) = Some c /\ falsified (ps_trail st') (cl_lits c) = true).
Proof. exact propagate_sound. Qed.

(* in the form the check uses: the hypotheses are evaluated at every call *)
Theorem C05_checked_propagate_sound : forall db level asserts units st st' r,
  prop_hyps db asserts units st = true ->
  propagate db level asserts units st = Some (st', r) ->
  grows db (ps_trail st) (ps_trail st') /\
  (forall o id, r = Some (o, id) -> exists c, nth_error db (N.to_nat id) = Some c /\ falsified (ps_trail st') (cl_lits c) = true).
Proof. exact checked_propagate_sound. Qed.

(* what "grows" means entry by entry *)
Theorem C05_grows_justified : forall db base cur, grows db base cur ->
  exists new, cur = new ++ base /\
    forall k e, nth_error new k = Some e -> reason_ok db e (skipn (S k) new ++ base) = true.
Proof. exact grows_justified. Qed.

(* a clause that starts being watched keeps the invariant *)
Theorem C05_start_watching_keeps_invariant : forall db ws ls id w,
  WInv db ws ls -> wget ws id = None -> watch_ok db id w ->
  let ls1 := lset ls (fst w) (id :: lget ls (fst w)) in
  WInv db (wset ws id w) (lset ls1 (snd w) (id :: lget ls1 (snd w))).
Proof. exact winv_start. Qed.

(* ---- the solver model as a whole (Cdcl/Solver.v: the component models composed
   with the control flow of solve / run_sat / resolve_dependencies /
   learn_from_conflict / the soft-requirement loop; in whole-run equality with
   the implementation) ---- *)
From Resolvo Require Import Cdcl.SolverProofs.

(* for every well-formed provider, problem, fuel, activity function and completion
   order: the structural invariant -- encoder invariant, the non-learnt part of
   the database is the encoder's database, watch invariant, duplicate-free trail
   -- holds in the state solve ends in (and, by the preservation lemmas it is
   assembled from, in every state it passes through) *)
Theorem C05_solver_model_invariant : forall U P, WF U -> forall A a_ge a_conflict fuel efuel (a0 : A) order o st,
  solve U P a_ge a_conflict fuel efuel a0 order = (o, st) -> SInv U P A st.
Proof. exact solve_inv. Qed.

(* hence the hypotheses of propagate_sound need no per-run evaluation for the watch
   scheme: in every such state a call of propagate makes only justified assignments
   and reports only falsified clauses *)
Theorem C05_solver_model_propagate_sound : forall U P A (st : sstate A) level st' r,
  SInv U P A st ->
  (forall x, In x (s_asserts st ++ s_units st) -> assert_just (s_db st) (s_ps st) x = true) ->
  s_propagate st level = Some (st', r) ->
  grows (s_db st) (ps_trail (s_ps st)) (ps_trail (s_ps st')) /\
  (forall id, r = Some id -> exists c, nth_error (s_db st) (N.to_nat id) = Some c /\ falsified (ps_trail (s_ps st')) (cl_lits c) = true).
Proof. exact sinv_propagate_sound. Qed.

(* ---- the level structure of the trail (Cdcl/SolverLevels.v) ---- *)
From Resolvo Require Import Cdcl.SolverLevels.

(* with the level structure (LInv: levels sorted, every entry justified by its clause or opening
   its level, every registered assertion a clause of the asserted literal and the negated root)
   and the root at the bottom of the trail, the hypothesis of C05_solver_model_propagate_sound
   holds by itself; a call of propagate keeps the level structure, makes all its assignments on
   the level it was given, and reports only falsified clauses *)
Theorem C05_solver_model_propagate_keeps_levels : forall U P A (st : sstate A) level st' r,
  SInv U P A st -> LInv A st -> Rooted (ps_trail (s_ps st)) -> (top_lv st <= level)%N ->
  s_propagate st level = Some (st', r) ->
  LInv A st' /\ Rooted (ps_trail (s_ps st')) /\ (top_lv st' <= level)%N /\
  lgrows level (ps_trail (s_ps st)) (ps_trail (s_ps st')) /\
  (forall id, r = Some id -> exists c, nth_error (s_db st') (N.to_nat id) = Some c /\
                                        falsified (ps_trail (s_ps st')) (cl_lits c) = true).
Proof. exact linv_propagate. Qed.

(* learn_from_conflict keeps the level structure: the learnt clause enters the database, the
   trail is cut back to the backjump level (never below the root's), and the literal the clause
   asserts is assigned there, justified by the learnt clause -- whose other literals are all
   still false *)
Theorem C05_solver_model_learn_keeps_levels : forall U P A a_conflict (st : sstate A) conf st' lv,
  SInv U P A st -> LInv A st -> Rooted (ps_trail (s_ps st)) -> (2 <= top_lv st)%N ->
  (exists c, nth_error (s_db st) (N.to_nat conf) = Some c /\ falsified (ps_trail (s_ps st)) (cl_lits c) = true) ->
  learn U a_conflict st conf = Some (st', lv) ->
  LInv A st' /\ Rooted (ps_trail (s_ps st')) /\ top_lv st' = lv.
Proof. exact linv_learn. Qed.

(* ---- the two-watched-literal scheme loses no clause (Cdcl/PropagateComplete.v) ---- *)
From Resolvo Require Import Cdcl.PropagateCompleteHyp.

(* from a state with the watch invariant, every watching clause in the list of the literal it watches
   (WComp) and no watched clause -- outside the exempt ones XS -- with both watched literals false by
   PROPAGATED entries (Inv2), a call of propagate that ends without conflict ends with every entry
   propagated, the same invariants, and every asserted literal true *)
Theorem C05_propagate_complete : forall db XS level asserts units st st',
  WInv db (ps_watch st) (ps_lists st) -> WComp (ps_watch st) (ps_lists st) -> tnodup st -> Inv2 XS st -> PIdx st ->
  propagate db level asserts units st = Some (st', None) ->
  Inv2 XS st' /\ WComp (ps_watch st') (ps_lists st') /\ (length (ps_trail st') <= ps_pidx st')%nat /\ tnodup st' /\
  WInv db (ps_watch st') (ps_lists st') /\
  (forall x, In x (asserts ++ units) -> plit_true st' (fst x) = true).
Proof. exact propagate_complete. Qed.

(* with every entry propagated the invariant speaks about the whole trail: no watched clause outside XS
   has both watched literals false, in particular none is falsified *)
Theorem C05_complete_no_watched_falsified : forall db XS st,
  Inv2 XS st -> (length (ps_trail st) <= ps_pidx st)%nat -> WInv db (ps_watch st) (ps_lists st) ->
  forall id w, wget (ps_watch st) id = Some w -> ~ XS id ->
    ~ (plit_false st (fst w) = true /\ plit_false st (snd w) = true) /\
    exists c, nth_error db (N.to_nat id) = Some c /\ falsified (ps_trail st) (cl_lits c) = false.
Proof. exact complete_no_watched_falsified. Qed.

(* in the form the check uses (hypotheses evaluated at every call of propagate in every hook log; the
   exempt clauses are those that start being watched with both watched literals false) *)
Theorem C05_checked_propagate_complete : forall db xs level asserts units st st',
  prop_hyps db asserts units st = true -> comp_hyps xs st = true ->
  propagate db level asserts units st = Some (st', None) ->
  (length (ps_trail st') <= ps_pidx st')%nat /\
  (forall id w, wget (ps_watch st') id = Some w -> ~ In id xs ->
     exists c, nth_error db (N.to_nat id) = Some c /\ falsified (ps_trail st') (cl_lits c) = false) /\
  (forall x, In x (asserts ++ units) -> plit_true st' (fst x) = true) /\
  Inv2 (fun id => In id xs) st' /\ WComp (ps_watch st') (ps_lists st').
Proof. exact checked_propagate_complete. Qed.

(* what else touches the state keeps the invariant: an assignment outside propagate, undo, a new clause
   whose watched literals are not both false (or that is exempt) *)
Theorem C05_inv2_kept_outside_propagate : forall XS st,
  Inv2 XS st ->
  (forall e, PIdx st -> Inv2 XS (push_entry st e) /\ PIdx (push_entry st e)) /\
  (Inv2 XS (undo_last st) /\ PIdx (undo_last st)) /\
  (Inv2 XS (clear_trail st) /\ PIdx (clear_trail st)) /\
  (forall id w, XS id \/ ~ (pfalse st (fst w) /\ pfalse st (snd w)) -> Inv2 XS (start_watching st id w)).
Proof. exact inv2_kept_outside. Qed.

(* ---- every assignment of the propagate model is a unit-propagation step of the abstract machine the run
   theorems are about (Cdcl/UnitSteps.v): the literal is a literal of its reason clause, every other literal
   of that clause is false under the older part of the trail (Trail.unit_under), the variable was unassigned
   -- for every database, watch state satisfying the watch invariant and registered assertions ---- *)
From Resolvo Require Import Cdcl.UnitSteps.
Theorem C05_propagate_takes_unit_steps : forall db level asserts units st st' r,
  WInv db (ps_watch st) (ps_lists st) -> tnodup st ->
  (forall x, In x (asserts ++ units) -> assert_just db st x = true) ->
  (forall x, In x (asserts ++ units) -> assert_in db x) ->
  propagate db level asserts units st = Some (st', r) ->
  ugrows db (ps_trail st) (ps_trail st').
Proof. exact propagate_unit_steps. Qed.
