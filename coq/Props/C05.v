(* C05 -- no extraneous solvables. *)
From Resolvo Require Import Spec.Oracle.

Theorem C05_oracle_correct : forall u P S,
  o_supported u P S = true <-> (forall s, In s S -> Supp (table_provider u) P S s).
Proof. exact o_supported_spec. Qed.
Check C05_oracle_correct : forall u P S,
  o_supported u P S = true <-> (forall s, In s S -> Supp (table_provider u) P S s).
