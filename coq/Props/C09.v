(* C09 -- metadata is fetched lazily, causally and at most once. *)
From Resolvo Require Import Async.HistoryProofs.

Theorem C09_causal_checker : forall U h, causalb U [] [] h = true <-> Causal U h.
Proof. exact causalb_spec. Qed.

Theorem C09_once_checker : forall h, onceb [] [] [] [] h = true <-> Once h.
Proof. exact onceb_spec. Qed.

Theorem C09_exact_checker : forall U P G h, exactb U P G h = true <-> Exact U P G h.
Proof. exact exactb_spec. Qed.

(* ---- the encoder + cache model (Async/Encoder.v, tied to encoding.rs + cache.rs
   by call-for-call equality of the provider-call history on every synchronous
   run): the property itself, for every provider, problem, cache contents,
   trail history, sequence of encode requests and completion order of the
   encoder's futures (the events say which pending future completes next) ---- *)
From Resolvo Require Import Async.EncoderClosed.

(* at most once, over the lifetime of a solver (H0 = calls of earlier solves) *)
Theorem C09_model_once : forall U P H0 c0 evs st work,
  CInv U c0 H0 -> enc_run U P (estate0 c0) [] [] evs = Some (st, work) ->
  let H := H0 ++ e_calls st in
  NoDup (flat_map k_cands H) /\ NoDup (flat_map k_deps H) /\
  NoDup (flat_map k_match H) /\ NoDup (flat_map k_nonmatch H) /\
  (exists vs, NoDup vs /\ flat_map k_sort H = map (matching U) vs) /\
  CInv U (e_cache st) H.
Proof. exact enc_once. Qed.

(* causal: dependencies only of queued solvables, candidates only for names
   their dependencies mention, filter/sort only for version sets they mention *)
Theorem C09_model_causal : forall U P c0 evs st work,
  enc_run U P (estate0 c0) [] [] evs = Some (st, work) -> Forall (call_just U P (e_sols st)) (e_calls st).
Proof. exact enc_causal. Qed.

(* lazy: without hints, dependencies are fetched only for solvables the solver
   asked for (the ones it assigned true: req_true_ok is checked on every run) *)
Theorem C09_model_lazy : forall U P, nohints U -> forall c0 H0 evs st work,
  CInv U c0 H0 -> enc_run U P (estate0 c0) [] [] evs = Some (st, work) ->
  forall s, In (CDeps s) (e_calls st) -> In (Some s) (requested evs).
Proof. exact enc_lazy. Qed.

(* exact: on a fresh solver without hints, dependencies for exactly the requested
   solvables and candidates for exactly the names they and the root mention *)
Theorem C09_model_exact : forall U P evs st,
  nohints U -> enc_run U P (estate0 cache0) [] [] evs = Some (st, []) ->
  (forall s, In (CDeps s) (e_calls st) <-> In (Some s) (requested evs)) /\
  (forall n, In (CCands n) (e_calls st) <-> exists so, In so (requested evs) /\ In n (mentioned U P so)).
Proof. exact enc_exact. Qed.

(* the second sentence of the property, for every conflict-free (greedy_ok)
   problem without soft requirements, provider without hints, fresh solver,
   completion order and legal run of the CDCL machine that announces a solution:
   the solution is the greedy selection G, get_dependencies is called for
   exactly the members of G and get_candidates for exactly the names mentioned
   by the root and by members of G -- lower-ranked candidates are never fetched.
   All hypotheses are evaluated on every run of the greedy streams (trace
   checker: facts_ok, learnts_ok, run_events, check_sat; encoder tie:
   enc_run, req_true_ok, enc_final_ok). *)
From Resolvo Require Import Async.EncoderGreedy.

Theorem C09_conflict_free_exact : forall U P, WF U -> forall db G,
  pr_soft P = [] -> greedy_ok U P G -> facts_ok U P db = true -> learnts_ok [] db = true ->
  forall evs st ents sol,
  nohints U ->
  enc_run U P (estate0 cache0) [] [] evs = Some (st, []) ->
  req_true_ok [] evs = true ->
  run_events (pr_soft P) db (trail_events evs) [] = Some ents ->
  check_sat U P db (tlits ents) sol = true ->
  enc_final_ok U st (sel_of (tlits ents)) (exempt U P (sel_of (tlits ents))) = true ->
  same_set sol G /\
  (forall s, In (CDeps s) (e_calls st) <-> In s G) /\
  (forall n, In (CCands n) (e_calls st) <->
     exists so, (so = None \/ exists s, so = Some s /\ In s G) /\ In n (mentioned U P so)).
Proof. exact conflict_free_exact. Qed.

(* successive solves on one solver (possibly different problems): the second
   solve starts from the cache the first one left; over both, no candidates /
   dependencies / filter request is repeated.  Tied by running the model's
   second solve from the model's cache after the first (enc2). *)
Theorem C09_two_solves_once : forall U P1 P2 evs1 evs2 st1 w1 st2 w2,
  enc_run U P1 (estate0 cache0) [] [] evs1 = Some (st1, w1) ->
  enc_run U P2 (estate0 (e_cache st1)) [] [] evs2 = Some (st2, w2) ->
  let H := e_calls st1 ++ e_calls st2 in
  NoDup (flat_map EncoderCalls.k_cands H) /\ NoDup (flat_map k_deps H) /\
  NoDup (flat_map k_match H) /\ NoDup (flat_map k_nonmatch H).
Proof. exact enc_two_solves_once. Qed.

(* exactness of a LATER solve on the same solver, as a predicate over the earlier and the current
   part of the provider-call history, with its verified checker *)
Theorem C09_exact_next_checker : forall U P G hprev hcur,
  exact_nextb U P G hprev hcur = true <-> ExactNext U P G hprev hcur.
Proof. exact exact_nextb_spec. Qed.
