(* C09 -- metadata is fetched lazily, causally and at most once. *)
From Resolvo Require Import Async.HistoryProofs.

Theorem C09_causal_checker : forall U h, causalb U [] [] h = true <-> Causal U h.
Proof. exact causalb_spec. Qed.

Theorem C09_once_checker : forall h, onceb [] [] [] [] h = true <-> Once h.
Proof. exact onceb_spec. Qed.

Theorem C09_exact_checker : forall U P G h, exactb U P G h = true <-> Exact U P G h.
Proof. exact exactb_spec. Qed.
