(* C09 -- metadata is fetched lazily, causally and at most once. *)
From Resolvo Require Import Async.HistoryProofs.

Theorem C09_causal_checker : forall U h, causalb U [] [] h = true <-> Causal U h.
Proof. exact causalb_spec. Qed.

Theorem C09_once_checker : forall h, onceb [] [] [] [] h = true <-> Once h.
Proof. exact onceb_spec. Qed.

Theorem C09_exact_checker : forall U P G h, exactb U P G h = true <-> Exact U P G h.
Proof. exact exactb_spec. Qed.

(* ---- the encoder + cache model (Async/Encoder.v, tied to encoding.rs + cache.rs
   by call-for-call equality of the provider-call history on every synchronous
   run): the property itself, for every provider, problem, cache contents,
   trail history, sequence of encode requests and completion order of the
   encoder's futures (the events say which pending future completes next) ---- *)
From Resolvo Require Import Async.EncoderClosed.

(* at most once, over the lifetime of a solver (H0 = calls of earlier solves) *)
Theorem C09_model_once : forall U P H0 c0 evs st work,
  CInv U c0 H0 -> enc_run U P (estate0 c0) [] [] evs = Some (st, work) ->
  let H := H0 ++ e_calls st in
  NoDup (flat_map k_cands H) /\ NoDup (flat_map k_deps H) /\
  NoDup (flat_map k_match H) /\ NoDup (flat_map k_nonmatch H) /\
  (exists vs, NoDup vs /\ flat_map k_sort H = map (matching U) vs) /\
  CInv U (e_cache st) H.
Proof. exact enc_once. Qed.

(* causal: dependencies only of queued solvables, candidates only for names
   their dependencies mention, filter/sort only for version sets they mention *)
Theorem C09_model_causal : forall U P c0 evs st work,
  enc_run U P (estate0 c0) [] [] evs = Some (st, work) -> Forall (call_just U P (e_sols st)) (e_calls st).
Proof. exact enc_causal. Qed.

(* lazy: without hints, dependencies are fetched only for solvables the solver
   asked for (the ones it assigned true: req_true_ok is checked on every run) *)
Theorem C09_model_lazy : forall U P, nohints U -> forall c0 H0 evs st work,
  CInv U c0 H0 -> enc_run U P (estate0 c0) [] [] evs = Some (st, work) ->
  forall s, In (CDeps s) (e_calls st) -> In (Some s) (requested evs).
Proof. exact enc_lazy. Qed.

(* exact: on a fresh solver without hints, dependencies for exactly the requested
   solvables and candidates for exactly the names they and the root mention *)
Theorem C09_model_exact : forall U P evs st,
  nohints U -> enc_run U P (estate0 cache0) [] [] evs = Some (st, []) ->
  (forall s, In (CDeps s) (e_calls st) <-> In (Some s) (requested evs)) /\
  (forall n, In (CCands n) (e_calls st) <-> exists so, In so (requested evs) /\ In n (mentioned U P so)).
Proof. exact enc_exact. Qed.
