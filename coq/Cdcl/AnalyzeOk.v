(* Cdcl/AnalyzeOk.v -- on a trail with the level structure of a CDCL run the side
   conditions of analyze_sound hold by themselves:

     sortedL   levels do not increase from the newest entry to the oldest
     justL     every entry is justified by its reason clause (reason_ok) or is the
               first entry of its level (a decision)
     tnd       no variable is assigned twice

   analyze_ok: under these, for a conflicting clause that the trail falsifies,
   whatever analyze returns satisfies analysis_ok -- the analysis never resolves on
   a decision (while causes of the conflict level remain, the entry below the
   popped one is on that level too), and every variable it has seen that is still
   assigned after the pops is in the learnt clause. *)
From Resolvo Require Export Cdcl.AnalyzeProofs Cdcl.AnalyzeRun Cdcl.Final.
From Coq Require Import Lia.

Fixpoint sortedL (tr : list tent) : Prop :=
  match tr with
  | [] => True
  | e :: t => (match t with [] => True | e' :: _ => (t_level e' <= t_level e)%N end) /\ sortedL t
  end.

Definition tnd (tr : list tent) : Prop := vars_nodup (tl_lits tr) = true.

Definition entry_just (db : list cl) (e : tent) (rest : list tent) : Prop :=
  reason_ok db e rest = true \/ (top_level rest < t_level e)%N.

Fixpoint justL (db : list cl) (tr : list tent) : Prop :=
  match tr with [] => True | e :: rest => entry_just db e rest /\ justL db rest end.

(* ---------- basic facts ---------- *)

Lemma sorted_tl e t : sortedL (e :: t) -> sortedL t.
Proof. intros [_ H]. exact H. Qed.

Lemma sorted_le : forall tr e, sortedL tr -> In e tr -> (t_level e <= top_level tr)%N.
Proof.
  induction tr as [|x t IH]; intros e Hs Hin; [destruct Hin|]. simpl. destruct Hin as [E|Hin]; [subst; lia|].
  destruct Hs as [H1 H2]. specialize (IH e H2 Hin). destruct t as [|y t']; [destruct Hin|]. simpl in *. lia.
Qed.

Lemma tnd_tl e t : tnd (e :: t) -> tnd t.
Proof.
  unfold tnd, tl_lits. simpl. destruct (t_lit e) as [v b]. destruct (pval (map t_lit t) v); [discriminate | auto].
Qed.

Lemma tnd_head e t : tnd (e :: t) -> pval (tl_lits t) (tvar e) = None.
Proof.
  unfold tnd, tl_lits, tvar. simpl. destruct (t_lit e) as [v b]. simpl. destruct (pval (map t_lit t) v); [discriminate | reflexivity].
Qed.

Lemma level_of_none : forall tr v, pval (tl_lits tr) v = None -> level_of tr v = None.
Proof.
  induction tr as [|e t IH]; intros v; simpl; [reflexivity|]. unfold tl_lits, tvar in *. simpl.
  destruct (t_lit e) as [w b]. simpl. destruct (var_eqb w v); [discriminate | apply IH].
Qed.

Lemma level_of_some : forall tr v lv, level_of tr v = Some lv -> exists e, In e tr /\ tvar e = v /\ t_level e = lv.
Proof.
  induction tr as [|e t IH]; intros v lv; simpl; [discriminate|].
  destruct (var_eqb (tvar e) v) eqn:E.
  - intro H. inversion H. apply var_eqb_eq in E. exists e. auto.
  - intro H. destruct (IH _ _ H) as [x [Hx R]]. exists x. split; [right; exact Hx | exact R].
Qed.

Lemma level_of_head e t : level_of (e :: t) (tvar e) = Some (t_level e).
Proof. simpl. rewrite var_eqb_refl. reflexivity. Qed.

Lemma level_of_tail e t v : v <> tvar e -> level_of (e :: t) v = level_of t v.
Proof. intro H. simpl. destruct (var_eqb (tvar e) v) eqn:E; [apply var_eqb_eq in E; congruence | reflexivity]. Qed.

Lemma level_of_le tr v lv : sortedL tr -> level_of tr v = Some lv -> (lv <= top_level tr)%N.
Proof. intros Hs H. destruct (level_of_some _ _ _ H) as [e [Hin [_ El]]]. subst. apply sorted_le; assumption. Qed.

Lemma level_of_assigned : forall tr v, level_of tr v = None <-> pval (tl_lits tr) v = None.
Proof.
  induction tr as [|e t IH]; intros v; simpl; [tauto|]. unfold tl_lits, tvar in *. simpl.
  destruct (t_lit e) as [w b]. simpl. destruct (var_eqb w v); [split; discriminate | apply IH].
Qed.

(* ---------- counting the causes ---------- *)

Definition at_level (tr : list tent) (L : N) (v : var) : bool :=
  match level_of tr v with Some lv => N.eqb lv L | None => false end.

Definition cnt (tr : list tent) (L : N) (seen : list var) : nat := length (filter (at_level tr L) seen).

Lemma memv_false_notin v l : memv v l = false -> ~ In v l.
Proof. intros H Hin. apply memv_In in Hin. congruence. Qed.

Lemma cnt_pop_unseen e t L seen : memv (tvar e) seen = false -> cnt (e :: t) L seen = cnt t L seen.
Proof.
  intro H. unfold cnt. f_equal. apply filter_ext_in. intros v Hv. unfold at_level.
  rewrite level_of_tail; [reflexivity|]. intro E. subst. apply (memv_false_notin _ _ H Hv).
Qed.

Lemma at_level_head e t L : at_level (e :: t) L (tvar e) = N.eqb (t_level e) L.
Proof. unfold at_level. rewrite level_of_head. reflexivity. Qed.

Lemma at_level_tail e t L v : v <> tvar e -> at_level (e :: t) L v = at_level t L v.
Proof. intro H. unfold at_level. rewrite level_of_tail by exact H. reflexivity. Qed.

Lemma at_level_gone e t L : tnd (e :: t) -> at_level t L (tvar e) = false.
Proof. intro H. unfold at_level. rewrite (level_of_none t (tvar e) (tnd_head e t H)). reflexivity. Qed.

Lemma cnt_pop_seen e t L seen : tnd (e :: t) -> NoDup seen -> In (tvar e) seen ->
  cnt (e :: t) L seen = ((if N.eqb (t_level e) L then 1 else 0) + cnt t L seen)%nat.
Proof.
  intros Hn Hnd Hin. unfold cnt. induction seen as [|v s IH]; [destruct Hin|].
  inversion Hnd as [|? ? Hv Hs]. subst. cbn [filter]. destruct (var_eq_dec v (tvar e)) as [E|E].
  - subst v. rewrite at_level_head, (at_level_gone e t L Hn).
    assert (Hrest : filter (at_level (e :: t) L) s = filter (at_level t L) s).
    { apply filter_ext_in. intros w Hw. apply at_level_tail. intro E. subst. contradiction. }
    rewrite Hrest. destruct (N.eqb (t_level e) L); simpl; reflexivity.
  - destruct Hin as [E'|Hin]; [congruence|]. specialize (IH Hs Hin).
    rewrite (at_level_tail e t L v E).
    destruct (at_level t L v); cbn [length]; rewrite IH; destruct (N.eqb (t_level e) L); simpl; lia.
Qed.

Lemma cnt_pos tr L seen : (0 < cnt tr L seen)%nat -> exists v lv, In v seen /\ level_of tr v = Some lv /\ lv = L.
Proof.
  unfold cnt. intro H. destruct (filter (at_level tr L) seen) as [|v r] eqn:E; [simpl in H; lia|].
  assert (Hin : In v (filter (at_level tr L) seen)) by (rewrite E; left; reflexivity).
  apply filter_In in Hin. destruct Hin as [Hv Ha]. unfold at_level in Ha.
  destruct (level_of tr v) as [lv|] eqn:El; [|discriminate]. apply N.eqb_eq in Ha. exists v, lv. auto.
Qed.

(* ---------- the state of the analysis ---------- *)

Section Ok.
Variable db : list cl.

Record AInv (tr : list tent) (L : N) (st : astate) : Prop := mkAInv {
  ai_nodup : NoDup (a_seen st);
  ai_causes : a_causes st = cnt tr L (a_seen st);
  ai_learnt : forall v p, In (v, p) (a_learnt st) ->
              In v (a_seen st) /\ at_level tr L v = false /\ pval (tl_lits tr) v = Some (negb p) /\
              exists lv, level_of tr v = Some lv /\ (lv <= a_btl st)%N;
  ai_seen : forall v, In v (a_seen st) ->
            match pval (tl_lits tr) v with
            | Some b => at_level tr L v = true \/ In (v, negb b) (a_learnt st)
            | None => True
            end
}.

Lemma ainv0 tr L : AInv tr L (mkA [] [] 0 0).
Proof. constructor; simpl; [constructor | reflexivity | intros v p [] | intros v []]. Qed.

Lemma cnt_cons tr L v s : cnt tr L (v :: s) = ((if at_level tr L v then 1 else 0) + cnt tr L s)%nat.
Proof. unfold cnt. simpl. destruct (at_level tr L v); reflexivity. Qed.

Lemma visit_ok tr L skip : forall lits st st',
  visit tr L skip lits st = Some st' -> AInv tr L st -> AInv tr L st' /\ (a_btl st <= a_btl st')%N.
Proof.
  induction lits as [|[v q] t IH]; intros st st' H HA; simpl in H.
  - inversion H. subst. split; [exact HA | lia].
  - destruct (match skip with Some s => var_eqb v s | None => false end); [apply (IH _ _ H HA)|].
    destruct (memv v (a_seen st)) eqn:Em; [apply (IH _ _ H HA)|].
    destruct (level_of tr v) as [lv|] eqn:El; [|discriminate].
    destruct (pval (tl_lits tr) v) as [b|] eqn:Ep; [|discriminate].
    assert (Hnotin : ~ In v (a_seen st)) by (apply memv_false_notin; exact Em).
    destruct HA as [A1 A2 A3 A4].
    destruct (N.eqb lv L) eqn:Elv.
    + (* a cause at the conflict level *)
      assert (Hat : at_level tr L v = true) by (unfold at_level; rewrite El; exact Elv).
      assert (HA' : AInv tr L (mkA (v :: a_seen st) (a_learnt st) (S (a_causes st)) (a_btl st))).
      { constructor; simpl.
        - constructor; assumption.
        - rewrite cnt_cons, Hat, A2. reflexivity.
        - intros w p Hw. destruct (A3 w p Hw) as [B1 B2]. split; [right; exact B1 | exact B2].
        - intros w [E|Hw]; [subst w; rewrite Ep; left; exact Hat | apply A4; exact Hw]. }
      apply (IH _ _ H HA').
    + assert (Hat : at_level tr L v = false) by (unfold at_level; rewrite El; exact Elv).
      assert (HA' : AInv tr L (mkA (v :: a_seen st) (a_learnt st ++ [(v, negb b)]) (a_causes st) (N.max (a_btl st) lv))).
      { constructor; simpl.
        - constructor; assumption.
        - rewrite cnt_cons, Hat, A2. reflexivity.
        - intros w p Hw. apply in_app_or in Hw. destruct Hw as [Hw|[E|[]]].
          + destruct (A3 w p Hw) as [B1 [B2 [B3 [lw [B4 B5]]]]]. split; [right; exact B1|]. split; [exact B2|]. split; [exact B3|].
            exists lw. split; [exact B4 | lia].
          + inversion E. subst w p. split; [left; reflexivity|]. split; [exact Hat|]. split; [rewrite Bool.negb_involutive; exact Ep|].
            exists lv. split; [exact El | lia].
        - intros w [E|Hw].
          + subst w. rewrite Ep. right. apply in_or_app. right. left. reflexivity.
          + specialize (A4 w Hw). destruct (pval (tl_lits tr) w) as [bw|]; [|exact I].
            destruct A4 as [A4|A4]; [left; exact A4 | right; apply in_or_app; left; exact A4]. }
      destruct (IH _ _ H HA') as [R1 R2]. split; [exact R1 | simpl in R2; lia].
Qed.

(* popping an entry *)
Lemma pval_tail' e t v : v <> tvar e -> pval (tl_lits (e :: t)) v = pval (tl_lits t) v.
Proof. apply pval_tail. Qed.

Lemma ainv_pop_unseen e t L st : AInv (e :: t) L st -> memv (tvar e) (a_seen st) = false -> AInv t L st.
Proof.
  intros [A1 A2 A3 A4] Hm.
  assert (Hne : forall v, In v (a_seen st) -> v <> tvar e) by (intros v Hv E; subst; apply (memv_false_notin _ _ Hm Hv)).
  constructor.
  - exact A1.
  - rewrite A2. apply cnt_pop_unseen. exact Hm.
  - intros v p Hv. destruct (A3 v p Hv) as [B1 [B2 [B3 [lv [B4 B5]]]]]. pose proof (Hne v B1) as Hv'.
    split; [exact B1|]. split; [rewrite <- (at_level_tail e t L v Hv'); exact B2|].
    split; [rewrite <- (pval_tail' e t v Hv'); exact B3|]. exists lv. split; [rewrite <- (level_of_tail e t v Hv'); exact B4 | exact B5].
  - intros v Hv. pose proof (Hne v Hv) as Hv'. specialize (A4 v Hv). rewrite (pval_tail' e t v Hv') in A4.
    destruct (pval (tl_lits t) v); [|exact I]. rewrite (at_level_tail e t L v Hv') in A4. exact A4.
Qed.

(* popping a cause of the conflict level *)
Lemma ainv_pop_cause e t L st k :
  tnd (e :: t) -> AInv (e :: t) L st -> In (tvar e) (a_seen st) -> t_level e = L -> a_causes st = S k ->
  AInv t L (mkA (a_seen st) (a_learnt st) k (a_btl st)).
Proof.
  intros Hn [A1 A2 A3 A4] Hin Hl Hc.
  assert (Hnl : forall v p, In (v, p) (a_learnt st) -> v <> tvar e).
  { intros v p Hv E. subst v. destruct (A3 _ _ Hv) as [_ [B2 _]]. rewrite at_level_head, Hl, N.eqb_refl in B2. discriminate. }
  constructor; simpl.
  - exact A1.
  - rewrite (cnt_pop_seen e t L _ Hn A1 Hin), Hl, N.eqb_refl in A2. lia.
  - intros v p Hv. destruct (A3 v p Hv) as [B1 [B2 [B3 [lv [B4 B5]]]]]. pose proof (Hnl v p Hv) as Hv'.
    split; [exact B1|]. split; [rewrite <- (at_level_tail e t L v Hv'); exact B2|].
    split; [rewrite <- (pval_tail' e t v Hv'); exact B3|]. exists lv. split; [rewrite <- (level_of_tail e t v Hv'); exact B4 | exact B5].
  - intros v Hv. destruct (var_eq_dec v (tvar e)) as [E|E].
    + subst v. rewrite (tnd_head e t Hn). exact I.
    + specialize (A4 v Hv). rewrite (pval_tail' e t v E) in A4. destruct (pval (tl_lits t) v); [|exact I].
      rewrite (at_level_tail e t L v E) in A4. exact A4.
Qed.


(* what the analysis loop delivers *)
Definition go_facts (tr : list tent) (L : N) (pops : nat) (r : aresult) : Prop :=
  r_ok r = true /\ residue_ok r = true /\
  exists pre e la,
    tr = pre ++ e :: r_rest r /\ r_learnt r = la ++ [(tvar e, negb (snd (t_lit e)))] /\
    r_pops r = (pops + S (length pre))%nat /\
    (forall v p, In (v, p) la ->
      ((v, p) = (tvar e, negb (snd (t_lit e))) \/ (v <> tvar e /\ pval (tl_lits (r_rest r)) v = Some (negb p))) /\
      exists lv, level_of (e :: r_rest r) v = Some lv /\ (lv <= r_btl r)%N) /\
    (* the literal the clause asserts is on the conflict level, or the clause already contains it *)
    (t_level e = L \/ In (tvar e, negb (snd (t_lit e))) la).

Lemma go_ok L : forall tr st why pops ok r,
  go db tr st why pops ok = Some r -> ok = true ->
  tnd tr -> sortedL tr -> justL db tr -> (top_level tr <= L)%N -> AInv tr L st ->
  go_facts tr L pops r.
Proof.
  induction tr as [|e rest IH]; intros st why pops ok r H Hok Hn Hs Hj Htop HA; cbn [go] in H; [discriminate|].
  destruct (memv (tvar e) (a_seen st)) eqn:Em.
  2:{ (* not seen: popped without any effect on the analysis *)
      assert (Htop' : (top_level rest <= L)%N).
      { destruct rest as [|x t]; [simpl; lia|]. destruct Hs as [H1 _]. simpl in *. lia. }
      destruct (IH _ _ _ _ _ H Hok (tnd_tl _ _ Hn) (sorted_tl _ _ Hs) (proj2 Hj) Htop' (ainv_pop_unseen e rest L st HA Em))
        as [R1 [R2 [pre [e0 [la [E1 [E2 [E3 R4]]]]]]]].
      split; [exact R1|]. split; [exact R2|]. exists (e :: pre), e0, la. split; [simpl; rewrite E1; reflexivity|].
      split; [exact E2|]. split; [simpl; rewrite E3; simpl; lia | exact R4]. }
  apply memv_In in Em.
  pose proof (cnt_pop_seen e rest L (a_seen st) Hn (ai_nodup _ _ _ HA) Em) as Hcnt.
  pose proof (ai_causes _ _ _ HA) as Hca.
  destruct (pred (a_causes st)) as [|k] eqn:Epred.
  - (* the last cause: stop *)
    inversion H. subst r. clear H. unfold go_facts. cbn [r_ok r_learnt r_rest r_pops r_btl r_seen].
    split; [exact Hok|]. split.
    + (* every seen variable that is still assigned is in the learnt clause *)
      unfold residue_ok. cbn [r_seen r_rest r_learnt]. apply forallb_forall. intros v Hv.
      destruct (pval (tl_lits rest) v) as [b|] eqn:Ep; [|reflexivity].
      assert (Hne : v <> tvar e) by (intro E; subst; rewrite (tnd_head e rest Hn) in Ep; discriminate).
      pose proof (ai_seen _ _ _ HA v Hv) as Hsv. rewrite (pval_tail' e rest v Hne), Ep in Hsv.
      apply existsb_exists. exists (v, negb b). split; [|apply lit_eqb_refl]. apply in_or_app. left.
      destruct Hsv as [Hat|Hin]; [|exact Hin]. exfalso.
      (* a second cause on the conflict level would contradict "last cause" *)
      rewrite (at_level_tail e rest L v Hne) in Hat.
      assert (Hc1 : (1 <= cnt rest L (a_seen st))%nat).
      { unfold cnt. assert (Hin : In v (filter (at_level rest L) (a_seen st))) by (apply filter_In; split; assumption).
        destruct (filter (at_level rest L) (a_seen st)); [destruct Hin | simpl; lia]. }
      assert (Hlv : t_level e = L).
      { unfold at_level in Hat. destruct (level_of rest v) as [lv|] eqn:El; [|discriminate]. apply N.eqb_eq in Hat. subst lv.
        pose proof (level_of_le rest v L (sorted_tl _ _ Hs) El) as H1.
        assert (top_level rest <= t_level e)%N by (destruct rest as [|x t]; [simpl; lia | destruct Hs as [H2 _]; simpl; exact H2]).
        simpl in Htop. lia. }
      rewrite Hlv, N.eqb_refl in Hcnt. lia.
    + exists [], e, (a_learnt st). split; [reflexivity|]. split; [reflexivity|]. split; [simpl; lia|].
      split.
      2:{ pose proof (ai_seen _ _ _ HA (tvar e) Em) as Hse. rewrite pval_head, at_level_head in Hse.
          destruct Hse as [Hse|Hse]; [left; apply N.eqb_eq; exact Hse | right; exact Hse]. }
      intros v p Hv. destruct (ai_learnt _ _ _ HA v p Hv) as [B1 [B2 [B3 [lv [B4 B5]]]]]. split.
      * destruct (var_eq_dec v (tvar e)) as [E|E].
        -- left. subst v. rewrite pval_head in B3. inversion B3 as [B3']. f_equal. rewrite B3'. rewrite Bool.negb_involutive. reflexivity.
        -- right. split; [exact E|]. rewrite <- (pval_tail' e rest v E). exact B3.
      * exists lv. split; assumption.
  - (* more causes on the conflict level: resolve with the reason of e *)
    destruct rest as [|top rest']; [discriminate|].
    destruct (nth_error db (N.to_nat (t_reason e))) as [c|] eqn:Ec; [|discriminate].
    destruct (visit (top :: rest') (t_level top) (Some (tvar e)) (cl_lits c) (mkA (a_seen st) (a_learnt st) (S k) (a_btl st))) as [st'|] eqn:Ev; [|discriminate].
    assert (Hcauses : a_causes st = S (S k)) by lia.
    (* a cause remains below e: e and the entry below it are on the conflict level *)
    assert (Hrest_pos : (1 <= cnt (top :: rest') L (a_seen st))%nat) by (destruct (N.eqb (t_level e) L); lia).
    destruct (cnt_pos _ _ _ Hrest_pos) as [v [lv [Hv [Hlv El]]]]. subst lv.
    pose proof (level_of_le _ v L (sorted_tl _ _ Hs) Hlv) as H1. simpl in H1.
    assert (H2 : (t_level top <= t_level e)%N) by (destruct Hs as [H2 _]; exact H2).
    simpl in Htop.
    assert (HeL : t_level e = L) by lia. assert (HtL : t_level top = L) by lia.
    assert (Hreason : reason_ok db e (top :: rest') = true).
    { destruct Hj as [[Hr|Hd] _]; [exact Hr | simpl in Hd; lia]. }
    assert (HA1 : AInv (top :: rest') L (mkA (a_seen st) (a_learnt st) (S k) (a_btl st))).
    { apply (ainv_pop_cause e (top :: rest') L st (S k) Hn HA Em HeL Hcauses). }
    rewrite HtL in Ev. destruct (visit_ok _ _ _ _ _ _ Ev HA1) as [HA2 _].
    assert (Hok' : (ok && reason_ok db e (top :: rest'))%bool = true) by (rewrite Hok, Hreason; reflexivity).
    assert (Htop' : (top_level (top :: rest') <= L)%N) by (simpl; lia).
    destruct (IH _ _ _ _ _ H Hok' (tnd_tl _ _ Hn) (sorted_tl _ _ Hs) (proj2 Hj) Htop' HA2)
      as [R1 [R2 [pre [e0 [la [E1 [E2 [E3 R4]]]]]]]].
    split; [exact R1|]. split; [exact R2|]. exists (e :: pre), e0, la. split; [simpl; rewrite E1; reflexivity|].
    split; [exact E2|]. split; [simpl; rewrite E3; simpl; lia | exact R4].
Qed.

(* analysis_ok holds by itself on a trail with the level structure *)
Theorem analyze_ok tr conf r :
  analyze db tr conf = Some r ->
  tnd tr -> sortedL tr -> justL db tr ->
  (forall c, nth_error db (N.to_nat conf) = Some c -> falsified tr (cl_lits c) = true) ->
  analysis_ok db tr conf r = true /\ go_facts tr (top_level tr) 0 r.
Proof.
  unfold analyze. intros H Hn Hs Hj Hf. destruct tr as [|top rest]; [discriminate|].
  destruct (nth_error db (N.to_nat conf)) as [c|] eqn:Ec; [|discriminate].
  destruct (visit (top :: rest) (t_level top) None (cl_lits c) (mkA [] [] 0 0)) as [st|] eqn:Ev; [|discriminate].
  destruct (visit_ok _ _ _ _ _ _ Ev (ainv0 _ _)) as [HA _].
  assert (Htop : (top_level (top :: rest) <= t_level top)%N) by (simpl; lia).
  pose proof (go_ok (t_level top) _ _ _ _ _ _ H eq_refl Hn Hs Hj Htop HA) as HG.
  split; [|exact HG]. destruct HG as [R1 [R2 _]].
  unfold analysis_ok. rewrite Ec, (Hf c eq_refl), R1, R2. reflexivity.
Qed.

End Ok.
